(* C08 - order irrelevance of assembling, proved on C03's label/fixup model (Verif.Labels.LabelsModel):
   the final section images, section sizes and label positions after layout + cross-section resolution depend only on the PER-SECTION
   sequences of operations, not on how operations of different sections interleave.  This is what makes the Builder's per-section
   grouping (BuilderGrouping.replay_is_grouping) invisible in the assembled result.

   Fragment: raw bytes, gaps (align), label references of every displacement kind of the two backends, binds, absolute references
   (embed_label / x86-32 [label]: OAbsRef with its RelToAbs relocation entry), section switches; labels and sections are created first;
   every label is bound at most once (a Builder rejects a second bind at record time).  Also order independent: the unresolved-fixup count
   (references and relocation-linked fixups) and the multiset of relocation entries with their final payload / target section.
   Label deltas (embed_label_delta: ODelta) are outside the fragment - compared "by effect" by the check's oracle. *)
From Coq Require Import ZArith List Bool Lia Arith Permutation.
From Verif Require Import Codec.OffsetModel Labels.LabelsModel Labels.LabelsProofs Labels.LabelsExact Labels.LabelsAbs.
Import ListNotations.
Local Open Scope Z_scope.

(* ================================================================== tagged programs *)
Inductive sop :=
| SRaw (bs : list Z) | SGap (n : Z)
| SRef (k : refkind) (rel : Z) (l : nat) (pre : list Z) (w0 : Z) (post : list Z)
| SBind (l : nat)
| SAbs (l : nat) (size addend : Z) (pre post : list Z)      (* embed_label / x86-32 [label]: bytes + a RelToAbs relocation entry *)
| SDelta (l b : nat) (size : Z).                            (* embed_label_delta: label - base, as bytes or as an expression relocation *)

Definition op_of (o : sop) : op :=
  match o with
  | SRaw bs => ORaw bs | SGap n => OGap n
  | SRef k rel l pre w0 post => ORef k rel l pre w0 post
  | SBind l => OBind l
  | SAbs l size addend pre post => OAbsRef l size addend pre post
  | SDelta l b size => ODeltaChecked l b size
  end.

Definition top := (nat * sop)%type.                       (* (section, operation) *)
Definition expand1 (x : top) : list op := [OSection (fst x); op_of (snd x)].
Definition expand (t : list top) : list op := flat_map expand1 t.
Definition proj (k : nat) (t : list top) : list sop := map snd (filter (fun x => Nat.eqb (fst x) k) t).
Definition prelude (nl ns : nat) : list op := repeat ONewLabel nl ++ repeat ONewSection ns.
Definition bound_labels (t : list top) : list nat := flat_map (fun x : top => match snd x with SBind l => [l] | _ => [] end) t.

(* ================================================================== what one section assembles to, computed from its own operations only *)
Record ghost := { g_sec : nat; g_site : Z; g_rel : Z; g_kind : refkind; g_label : nat; g_w0 : Z }.
Definition ghost_of (r : refrec) : ghost :=
  {| g_sec := r_sec r; g_site := r_site r; g_rel := r_rel r; g_kind := r_kind r; g_label := r_label r; g_w0 := r_w0 r |}.

Inductive gitem := GRaw (bs : list Z) | GGap (n : Z) | GRef (g : ghost).

(* the immutable part of a relocation entry *)
(* rg_base = None: RelToAbs entry of an absolute reference; Some b: expression entry `label - b` of a label delta *)
Record rghost := { rg_sec : nat; rg_off : Z; rg_lead : Z; rg_size : Z; rg_trail : Z; rg_label : nat; rg_addend : Z; rg_base : option nat }.
Definition rghost_of (re : reloc) : rghost :=
  {| rg_sec := rl_sec re; rg_off := rl_off re; rg_lead := rl_lead re; rg_size := rl_size re; rg_trail := rl_trail re;
     rg_label := rl_label re; rg_addend := rl_addend re;
     rg_base := match rl_type re with RelToAbs => None | Expr _ b => Some b end |}.
Definition delta_fits (size d : Z) : bool := (size =? 8) || ((- 2 ^ (8 * size - 1) <=? d) && (d <? 2 ^ (8 * size - 1))).

Record lst := { l_len : Z; l_items : list gitem; l_binds : list (nat * Z); l_rels : list rghost }.
Definition lst0 : lst := {| l_len := 0; l_items := []; l_binds := []; l_rels := [] |}.

Fixpoint assoc (l : nat) (b : list (nat * Z)) : option Z :=
  match b with [] => None | (k, v) :: t => if Nat.eqb k l then Some v else assoc l t end.

Definition lemitr (st : lst) (its : list gitem) (n : Z) (rs : list rghost) : lst :=
  {| l_len := l_len st + n; l_items := l_items st ++ its; l_binds := l_binds st; l_rels := l_rels st ++ rs |}.
Definition lemit (st : lst) (its : list gitem) (n : Z) : lst := lemitr st its n [].

(* CodeHolder::bind_label refuses (kInvalidDisplacement, nothing changes) when a same-section reference to the label cannot encode its
   displacement (/repo 6b578fc; bind_precheck in C03's model).  Seen from the section: every reference item to the label must fit. *)
Definition lprecheck (l : nat) (off : Z) (its : list gitem) : bool :=
  forallb (fun it => match it with
                     | GRef g => if Nat.eqb (g_label g) l
                                 then match write_offset (fmt_of_kind (g_kind g)) (g_w0 g) (disp 0 0 off (g_site g) (g_rel g)) with Some _ => true | None => false end
                                 else true
                     | _ => true
                     end) its.

Definition lstep (nl k : nat) (st : lst) (o : sop) : lst :=
  match o with
  | SRaw bs => lemit st [GRaw bs] (zlen bs)
  | SGap n => if 0 <=? n then lemit st [GGap n] n else st
  | SRef kd rel l pre w0 post =>
      if negb (Nat.ltb l nl) then st else
      if negb (hole_ok kd w0) then st else
      let site := l_len st + zlen pre in
      let g := {| g_sec := k; g_site := site; g_rel := rel; g_kind := kd; g_label := l; g_w0 := w0 |} in
      let em := lemit st [GRaw pre; GRef g; GRaw post] (zlen pre + vsize (fmt_of_kind kd) + zlen post) in
      match assoc l (l_binds st) with
      | Some lo => match write_offset (fmt_of_kind kd) w0 (disp 0 0 lo site rel) with Some _ => em | None => st end
      | None => em
      end
  | SBind l =>
      if Nat.ltb l nl then
        match assoc l (l_binds st) with
        | Some _ => st
        | None => if lprecheck l (l_len st) (l_items st)
                  then {| l_len := l_len st; l_items := l_items st; l_binds := (l, l_len st) :: l_binds st; l_rels := l_rels st |}
                  else st                       (* the bind is refused (kInvalidDisplacement): nothing changes *)
        end
      else st
  | SAbs l size addend pre post =>
      if negb (Nat.ltb l nl) then st else
      if negb (size_ok size) then st else
      lemitr st [GRaw (pre ++ zeros size ++ post)] (zlen pre + size + zlen post)
             [{| rg_sec := k; rg_off := l_len st; rg_lead := zlen pre; rg_size := size; rg_trail := zlen post; rg_label := l; rg_addend := addend; rg_base := None |}]
  | SDelta l b size =>
      (* both labels already bound in THIS section: the difference is written at once (range-checked unless 8 bytes wide);
         otherwise zero bytes + an expression relocation entry.  [delta_local] is the side condition under which "bound in this
         section" is the same as the assembler's "both bound in one section" *)
      if negb (Nat.ltb l nl && Nat.ltb b nl) then st else
      if negb (size_ok size) then st else
      match assoc l (l_binds st), assoc b (l_binds st) with
      | Some lo, Some bo =>
          if delta_fits size (lo - bo) then lemit st [GRaw (le_split (Z.to_nat size) (wrap (8 * size) (lo - bo)))] size else st
      | _, _ =>
          lemitr st [GRaw (zeros size)] size
                 [{| rg_sec := k; rg_off := l_len st; rg_lead := 0; rg_size := size; rg_trail := 0; rg_label := l; rg_addend := 0; rg_base := Some b |}]
      end
  end.

Definition lfold (nl k : nat) (os : list sop) : lst := fold_left (lstep nl k) os lst0.

Definition bind_fits (st : lst) (o : sop) : bool :=
  match o with SBind l => lprecheck l (l_len st) (l_items st) | _ => true end.

(* no bind of the section's operation sequence is refused *)
Fixpoint fits_from (nl k : nat) (st : lst) (os : list sop) : bool :=
  match os with [] => true | o :: r => bind_fits st o && fits_from nl k (lstep nl k st o) r end.
Definition all_fit (nl ns : nat) (t : list top) : Prop := forall k, (k < S ns)%nat -> fits_from nl k lst0 (proj k t) = true.

Lemma fits_from_snoc : forall nl k os st o, fits_from nl k st (os ++ [o]) = fits_from nl k st os && bind_fits (fold_left (lstep nl k) os st) o.
Proof.
  induction os as [|a os IH]; intros st o; cbn [app fits_from fold_left]; [now rewrite andb_true_r|]. rewrite IH. now rewrite andb_assoc.
Qed.

(* ================================================================== the invariant tying a run of C03's machine to the per-section folds *)
Definition gi (rs : list refrec) (it : item) : gitem :=
  match it with
  | IRaw bs => GRaw bs
  | IGap n => GGap n
  | IRef id => match nth_error rs id with Some r => GRef (ghost_of r) | None => GRaw [] end
  end.

Definition item_ok (rs : list refrec) (it : item) : Prop := match it with IRef id => (id < length rs)%nat | _ => True end.

Definition nsec (s : state) (k : nat) : section := nth k (secs s) empty_sec.

(* all references of a program, section by section *)
Definition grefs (its : list gitem) : list ghost := flat_map (fun it => match it with GRef g => [g] | _ => [] end) its.
Definition allghosts (nl ns : nat) (t : list top) : list ghost :=
  flat_map (fun k => grefs (l_items (lfold nl k (proj k t)))) (seq 0 (S ns)).

Definition allrels (nl ns : nat) (t : list top) : list rghost :=
  flat_map (fun k => l_rels (lfold nl k (proj k t))) (seq 0 (S ns)).
Definition is_abs (re : reloc) : Prop := rl_type re = RelToAbs.
(* an expression entry is created complete and never touched again *)
Definition rel_wt (re : reloc) : Prop :=
  forall l b, rl_type re = Expr l b -> rl_payload re = 0 /\ rl_target re = None /\ rl_label re = l.

Lemma grefs_app : forall a b, grefs (a ++ b) = grefs a ++ grefs b.
Proof. intros. unfold grefs. apply flat_map_app. Qed.

Lemma flat_map_seq_ext : forall {A} (f g : nat -> list A) n a, (forall j, (a <= j < a + n)%nat -> f j = g j) -> flat_map f (seq a n) = flat_map g (seq a n).
Proof.
  intros A f g. induction n as [|n IH]; intros a H; [reflexivity|]. cbn [seq flat_map]. rewrite (H a) by lia. f_equal. apply IH. intros j Hj. apply H. lia.
Qed.

Lemma flat_map_seq_extend : forall {A} (f g : nat -> list A) (extra : list A) k n a, (a <= k < a + n)%nat ->
  (forall j, j <> k -> g j = f j) -> g k = f k ++ extra ->
  Permutation (flat_map g (seq a n)) (flat_map f (seq a n) ++ extra).
Proof.
  intros A f g extra k. induction n as [|n IH]; intros a H HO HK; [lia|]. cbn [seq flat_map].
  destruct (Nat.eq_dec a k) as [->|N].
  - rewrite HK. rewrite (flat_map_seq_ext g f n (S k)) by (intros j Hj; apply HO; lia).
    rewrite <- !app_assoc. apply Permutation_app_head. apply Permutation_app_comm.
  - rewrite (HO a N). rewrite <- app_assoc. apply Permutation_app_head. apply IH; [lia|exact HO|exact HK].
Qed.

Record J (nl ns : nat) (t : list top) (s : state) : Prop := {
  j_secs : length (secs s) = S ns;
  j_labels : length (labels s) = nl;
  j_cur : (cur s < S ns)%nat;
  j_len : forall k, (k < S ns)%nat -> s_len (nsec s k) = l_len (lfold nl k (proj k t));
  j_items : forall k, (k < S ns)%nat -> map (gi (refs s)) (s_items (nsec s k)) = l_items (lfold nl k (proj k t));
  j_ok : forall k, (k < S ns)%nat -> Forall (item_ok (refs s)) (s_items (nsec s k));
  j_bound : forall l k off, nth_error (labels s) l = Some (Some (k, off)) <-> ((k < S ns)%nat /\ assoc l (l_binds (lfold nl k (proj k t))) = Some off);
  j_sec : forall id r, nth_error (refs s) id = Some r ->
            (r_sec r < S ns)%nat /\ In (GRef (ghost_of r)) (l_items (lfold nl (r_sec r) (proj (r_sec r) t)));
  j_perm : Permutation (map ghost_of (refs s)) (allghosts nl ns t);      (* references <-> reference items, one to one *)
  j_rel : Permutation (map rghost_of (relocs s)) (allrels nl ns t) /\ Forall rel_wt (relocs s)   (* relocation entries <-> SAbs / SDelta operations *)
}.

(* ------------------------------------------------------------------ small facts *)
Lemma proj_snoc : forall k t x, proj k (t ++ [x]) = proj k t ++ (if Nat.eqb (fst x) k then [snd x] else []).
Proof.
  intros. unfold proj. rewrite filter_app, map_app. cbn. destruct (Nat.eqb (fst x) k); reflexivity.
Qed.

Lemma lfold_snoc : forall nl k os o, lfold nl k (os ++ [o]) = lstep nl k (lfold nl k os) o.
Proof. intros. unfold lfold. rewrite fold_left_app. reflexivity. Qed.

Lemma expand_snoc : forall t x, expand (t ++ [x]) = expand t ++ expand1 x.
Proof. intros. unfold expand. rewrite flat_map_app. cbn. rewrite ?app_nil_r. reflexivity. Qed.

Lemma nth_upd_eq : forall {A} (l : list A) i v d, (i < length l)%nat -> nth i (upd l i v) d = v.
Proof. induction l; intros [|i] v d H; cbn in *; try lia; [reflexivity|]. apply IHl. lia. Qed.

Lemma nth_upd_neq : forall {A} (l : list A) i j v d, i <> j -> nth j (upd l i v) d = nth j l d.
Proof. induction l; intros [|i] [|j] v d H; cbn; try reflexivity; try congruence. apply IHl. congruence. Qed.

Lemma gi_same : forall rs rs' its, Forall (item_ok rs) its ->
  (forall id r, nth_error rs id = Some r -> exists r', nth_error rs' id = Some r' /\ ghost_of r' = ghost_of r) ->
  map (gi rs') its = map (gi rs) its /\ (length rs <= length rs')%nat.
Proof.
  intros rs rs' its HF H. split.
  - induction its as [|it its IH]; [reflexivity|]. inversion HF; subst. cbn [map]. rewrite IH by assumption. f_equal.
    destruct it; try reflexivity. cbn in *. destruct (nth_error rs id) eqn:E.
    + destruct (H id r E) as (r' & E' & G). now rewrite E', G.
    + apply nth_error_None in E. lia.
  - destruct (Nat.le_gt_cases (length rs) (length rs')) as [L|L]; [exact L|].
    destruct (nth_error rs (length rs')) eqn:E; [|apply nth_error_None in E; lia].
    destruct (H _ _ E) as (r' & E' & _). assert (nth_error rs' (length rs') = None) by (apply nth_error_None; lia). congruence.
Qed.

Lemma item_ok_mono : forall rs rs' its, (length rs <= length rs')%nat -> Forall (item_ok rs) its -> Forall (item_ok rs') its.
Proof. intros rs rs' its L H. eapply Forall_impl; [|exact H]. intros [| |id]; cbn; auto. lia. Qed.

Lemma assoc_in_fst : forall l b, assoc l b = None <-> ~ In l (map fst b).
Proof.
  induction b as [|[k v] b IH]; cbn; [tauto|]. destruct (Nat.eqb k l) eqn:E.
  - apply Nat.eqb_eq in E. subst. split; [discriminate|]. intros H. exfalso. apply H. now left.
  - apply Nat.eqb_neq in E. rewrite IH. tauto.
Qed.

(* ------------------------------------------------------------------ ghosts survive every fixup walk *)
Lemma resolve_list_ghost : forall sel f fxs rs id r, nth_error rs id = Some r ->
  exists r', nth_error (w_refs (resolve_list sel f fxs rs)) id = Some r' /\ ghost_of r' = ghost_of r.
Proof.
  induction fxs as [|fx t IH]; intros rs id r H; cbn [resolve_list]; [exists r; auto|].
  destruct (sel fx) as [| |lay lo]; cbn [walk_keep w_refs]; try (apply IH; exact H).
  destruct (nth_error rs (fx_id fx)) as [r0|] eqn:E0; cbn [walk_keep w_refs]; [|apply IH; exact H].
  destruct (write_offset _ _ _) as [w|]; cbn [walk_keep walk_done w_refs]; [|apply IH; exact H].
  destruct (Nat.eq_dec (fx_id fx) id) as [EQ|N].
  - rewrite EQ in *. rewrite E0 in H. injection H as <-.
    destruct (IH (upd rs id (patched r0 w lay)) id (patched r0 w lay) (nth_error_upd_eq _ _ _ _ E0)) as (r' & A & B).
    exists r'. split; [exact A|]. rewrite B. reflexivity.
  - apply IH. rewrite nth_error_upd_neq by exact N. exact H.
Qed.

Lemma map_upd_same : forall {A B} (f : A -> B) (l : list A) i v x, nth_error l i = Some x -> f v = f x -> map f (upd l i v) = map f l.
Proof.
  induction l as [|a l IH]; intros [|i] v x H E; cbn in *; try discriminate; [injection H as ->; now rewrite E|]. f_equal. eapply IH; eassumption.
Qed.

Lemma resolve_list_ghost_map : forall sel f fxs rs, map ghost_of (w_refs (resolve_list sel f fxs rs)) = map ghost_of rs.
Proof.
  induction fxs as [|fx t IH]; intros rs; cbn [resolve_list]; [reflexivity|].
  destruct (sel fx) as [| |lay lo]; cbn [walk_keep w_refs]; try apply IH.
  destruct (nth_error rs (fx_id fx)) as [r0|] eqn:E0; cbn [walk_keep w_refs]; [|apply IH].
  destruct (write_offset _ _ _) as [w|]; cbn [walk_keep walk_done w_refs]; [|apply IH].
  rewrite IH. eapply map_upd_same; [exact E0|reflexivity].
Qed.

(* ------------------------------------------------------------------ J is preserved by one tagged operation *)
Lemma nsec_upd_eq : forall s (k : nat) v s2, secs s2 = upd (secs s) k v -> (k < length (secs s))%nat -> nsec s2 k = v.
Proof. intros. unfold nsec. rewrite H. apply nth_upd_eq. exact H0. Qed.

Lemma nsec_upd_neq : forall s (k j : nat) v s2, secs s2 = upd (secs s) k v -> k <> j -> nsec s2 j = nsec s j.
Proof. intros. unfold nsec. rewrite H. apply nth_upd_neq. exact H0. Qed.

Lemma J_nop : forall nl ns t s k o s2, J nl ns t s -> (k < S ns)%nat ->
  lstep nl k (lfold nl k (proj k t)) o = lfold nl k (proj k t) ->
  secs s2 = secs s -> labels s2 = labels s -> refs s2 = refs s -> cur s2 = k -> pending_rel s2 = pending_rel s -> relocs s2 = relocs s ->
  J nl ns (t ++ [(k, o)]) s2.
Proof.
  intros nl ns t s k o s2 [A B C D E F G H PM NR] Hk HL S1 S2 S3 S4 S5 S6.
  assert (P : forall j, lfold nl j (proj j (t ++ [(k, o)])) = lfold nl j (proj j t)).
  { intros j. rewrite proj_snoc. cbn [fst snd]. destruct (Nat.eqb k j) eqn:EQ; [|now rewrite app_nil_r].
    apply Nat.eqb_eq in EQ. subst j. rewrite lfold_snoc. exact HL. }
  constructor; unfold nsec in *; rewrite ?S1, ?S2, ?S3, ?S4; try assumption.
  - intros j Hj. rewrite P. apply D. exact Hj.
  - intros j Hj. rewrite P. apply E. exact Hj.
  - intros l j off. rewrite P. apply G.
  - intros id r Hr. rewrite P. eapply H. exact Hr.
  - unfold allghosts. rewrite (flat_map_seq_ext _ (fun j => grefs (l_items (lfold nl j (proj j t))))) by (intros; now rewrite P). exact PM.
  - rewrite S6. unfold allrels. rewrite (flat_map_seq_ext _ (fun j => l_rels (lfold nl j (proj j t)))) by (intros; now rewrite P). exact NR.
Qed.

Lemma J_emitr : forall nl ns t s k o its n extra rextra s2, J nl ns t s -> (k < S ns)%nat ->
  (forall r, In r extra -> r_sec r = k /\ In (GRef (ghost_of r)) (map (gi (refs s ++ extra)) its)) ->
  Forall (item_ok (refs s ++ extra)) its ->
  lstep nl k (lfold nl k (proj k t)) o = lemitr (lfold nl k (proj k t)) (map (gi (refs s ++ extra)) its) n (map rghost_of rextra) ->
  secs s2 = upd (secs s) k (sec_append (nsec s k) its n) -> labels s2 = labels s -> refs s2 = refs s ++ extra -> cur s2 = k ->
  Forall rel_wt rextra -> relocs s2 = relocs s ++ rextra -> grefs (map (gi (refs s ++ extra)) its) = map ghost_of extra ->
  J nl ns (t ++ [(k, o)]) s2.
Proof.
  intros nl ns t s k o its n extra rextra s2 [A B C D E F G H PM NR] Hk HX HO HL S1 S2 S3 S4 S5 S6 HGR.
  assert (GS : forall its0, Forall (item_ok (refs s)) its0 -> map (gi (refs s ++ extra)) its0 = map (gi (refs s)) its0).
  { intros its0 H0. apply gi_same; [exact H0|]. intros id r Hr. exists r. split; [|reflexivity].
    rewrite nth_error_app1; [exact Hr|]. apply nth_error_Some. congruence. }
  assert (LE : (length (refs s) <= length (refs s ++ extra))%nat) by (rewrite app_length; lia).
  constructor.
  - rewrite S1, upd_length. exact A.
  - rewrite S2. exact B.
  - rewrite S4. exact Hk.
  - intros j Hj. rewrite proj_snoc. cbn [fst snd]. destruct (Nat.eqb k j) eqn:EQ.
    + apply Nat.eqb_eq in EQ. subst j. rewrite lfold_snoc, HL. rewrite (nsec_upd_eq s k _ s2 S1) by lia. cbn. rewrite D by exact Hk. reflexivity.
    + apply Nat.eqb_neq in EQ. rewrite app_nil_r. rewrite (nsec_upd_neq s k j _ s2 S1 EQ). apply D. exact Hj.
  - intros j Hj. rewrite S3. rewrite proj_snoc. cbn [fst snd]. destruct (Nat.eqb k j) eqn:EQ.
    + apply Nat.eqb_eq in EQ. subst j. rewrite lfold_snoc, HL. rewrite (nsec_upd_eq s k _ s2 S1) by lia. cbn.
      rewrite map_app. rewrite GS by (apply F; exact Hk). rewrite E by exact Hk. reflexivity.
    + apply Nat.eqb_neq in EQ. rewrite app_nil_r. rewrite (nsec_upd_neq s k j _ s2 S1 EQ). rewrite GS by (apply F; exact Hj). apply E. exact Hj.
  - intros j Hj. rewrite S3. destruct (Nat.eq_dec k j) as [<-|N].
    + rewrite (nsec_upd_eq s k _ s2 S1) by lia. cbn. apply Forall_app. split; [|exact HO]. eapply item_ok_mono; [exact LE|]. apply F. exact Hk.
    + rewrite (nsec_upd_neq s k j _ s2 S1 N). eapply item_ok_mono; [exact LE|]. apply F. exact Hj.
  - intros l j off. rewrite S2. rewrite proj_snoc. cbn [fst snd]. destruct (Nat.eqb k j) eqn:EQ.
    + apply Nat.eqb_eq in EQ. subst j. rewrite lfold_snoc, HL. cbn. apply G.
    + rewrite app_nil_r. apply G.
  - intros id r Hr. rewrite S3 in Hr. destruct (lt_dec id (length (refs s))) as [L|L].
    + rewrite nth_error_app1 in Hr by exact L. destruct (H id r Hr) as [H1 H2]. split; [exact H1|].
      rewrite proj_snoc. cbn [fst snd]. destruct (Nat.eqb k (r_sec r)) eqn:EQ; [|rewrite app_nil_r; exact H2].
      apply Nat.eqb_eq in EQ. rewrite <- EQ in *. rewrite lfold_snoc, HL. cbn. apply in_or_app. left. exact H2.
    + rewrite nth_error_app2 in Hr by lia. apply nth_error_In in Hr. destruct (HX r Hr) as [H1 H2]. rewrite H1. split; [exact Hk|].
      rewrite proj_snoc. cbn [fst snd]. rewrite Nat.eqb_refl, lfold_snoc, HL. cbn. apply in_or_app. right. exact H2.
  - rewrite S3, map_app. unfold allghosts.
    rewrite (flat_map_seq_extend (fun j => grefs (l_items (lfold nl j (proj j t)))) _ (map ghost_of extra) k (S ns) 0); [apply Permutation_app_tail; exact PM|lia| |].
    + intros j Hj. rewrite proj_snoc. cbn [fst snd]. assert (Nat.eqb k j = false) as -> by (apply Nat.eqb_neq; congruence). now rewrite app_nil_r.
    + rewrite proj_snoc. cbn [fst snd]. rewrite Nat.eqb_refl, lfold_snoc, HL. cbn [lemit lemitr l_items]. rewrite grefs_app, HGR. reflexivity.
  - destruct NR as [NR1 NR2]. split; [|rewrite S6; apply Forall_app; split; [exact NR2|exact S5]].
    rewrite S6, map_app. unfold allrels.
    rewrite (flat_map_seq_extend (fun j => l_rels (lfold nl j (proj j t))) _ (map rghost_of rextra) k (S ns) 0); [apply Permutation_app_tail; exact NR1|lia| |].
    + intros j Hj. rewrite proj_snoc. cbn [fst snd]. assert (Nat.eqb k j = false) as -> by (apply Nat.eqb_neq; congruence). now rewrite app_nil_r.
    + rewrite proj_snoc. cbn [fst snd]. rewrite Nat.eqb_refl, lfold_snoc, HL. reflexivity.
Qed.

Lemma J_emit : forall nl ns t s k o its n extra s2, J nl ns t s -> (k < S ns)%nat ->
  (forall r, In r extra -> r_sec r = k /\ In (GRef (ghost_of r)) (map (gi (refs s ++ extra)) its)) ->
  Forall (item_ok (refs s ++ extra)) its ->
  lstep nl k (lfold nl k (proj k t)) o = lemit (lfold nl k (proj k t)) (map (gi (refs s ++ extra)) its) n ->
  secs s2 = upd (secs s) k (sec_append (nsec s k) its n) -> labels s2 = labels s -> refs s2 = refs s ++ extra -> cur s2 = k ->
  pending_rel s2 = pending_rel s -> relocs s2 = relocs s -> grefs (map (gi (refs s ++ extra)) its) = map ghost_of extra ->
  J nl ns (t ++ [(k, o)]) s2.
Proof.
  intros nl ns t s k o its n extra s2 HJ Hk HX HO HL S1 S2 S3 S4 S5 S6 HGR.
  eapply (J_emitr nl ns t s k o its n extra []); try eassumption; [constructor|now rewrite app_nil_r].
Qed.

Lemma step_section_ok : forall s k, (k < length (secs s))%nat -> step s (OSection k) = (set_cur s k, EOk).
Proof. intros. cbn [step]. assert (Nat.ltb k (length (secs s)) = true) as -> by (apply Nat.ltb_lt; assumption). reflexivity. Qed.

Lemma l_binds_lstep : forall nl k st o, l_binds (lstep nl k st o) = l_binds st \/
  (exists l, o = SBind l /\ assoc l (l_binds st) = None /\ l_binds (lstep nl k st o) = (l, l_len st) :: l_binds st).
Proof.
  intros nl k st o. destruct o; cbn [lstep].
  - left. reflexivity.
  - destruct (0 <=? n); left; reflexivity.
  - destruct (negb (Nat.ltb l nl)); [left; reflexivity|]. destruct (negb (hole_ok k0 w0)); [left; reflexivity|].
    destruct (assoc l (l_binds st)); [destruct (write_offset _ _ _)|]; left; reflexivity.
  - destruct (Nat.ltb l nl); [|left; reflexivity]. destruct (assoc l (l_binds st)) eqn:E; [left; reflexivity|].
    destruct (lprecheck l (l_len st) (l_items st)); [|left; reflexivity]. right. exists l. auto.
  - destruct (negb (Nat.ltb l nl)); [left; reflexivity|]. destruct (negb (size_ok size)); left; reflexivity.
  - destruct (negb (Nat.ltb l nl && Nat.ltb b nl)); [left; reflexivity|]. destruct (negb (size_ok size)); [left; reflexivity|].
    destruct (assoc l (l_binds st)); [destruct (assoc b (l_binds st)); [destruct (delta_fits _ _)|]|]; left; reflexivity.
Qed.

Lemma assoc_lfold_bind : forall nl k os l off, assoc l (l_binds (lfold nl k os)) = Some off -> In (SBind l) os.
Proof.
  intros nl k os. induction os as [|o os IH] using rev_ind; intros l off H; [discriminate|].
  rewrite lfold_snoc in H. apply in_or_app.
  destruct (l_binds_lstep nl k (lfold nl k os) o) as [E|(l' & -> & _ & E)]; rewrite E in H.
  - left. eapply IH. exact H.
  - cbn in H. destruct (Nat.eqb l' l) eqn:EQ; [apply Nat.eqb_eq in EQ; subst; right; now left|]. left. eapply IH. exact H.
Qed.

Lemma proj_bind_bound : forall k t l, In (SBind l) (proj k t) -> In l (bound_labels t).
Proof.
  intros k t l H. unfold proj in H. apply in_map_iff in H. destruct H as (x & Hx & Hin). apply filter_In in Hin. destruct Hin as [Hin _].
  unfold bound_labels. apply in_flat_map. exists x. split; [exact Hin|]. rewrite Hx. now left.
Qed.

Lemma bound_labels_snoc : forall t x, bound_labels (t ++ [x]) = bound_labels t ++ match snd x with SBind l => [l] | _ => [] end.
Proof. intros. unfold bound_labels. rewrite flat_map_app. cbn. now rewrite app_nil_r. Qed.

Lemma ghosts_sec : forall nl k os g, In (GRef g) (l_items (lfold nl k os)) -> g_sec g = k.
Proof.
  intros nl k os. induction os as [|o os IH] using rev_ind; intros g H; [contradiction|].
  rewrite lfold_snoc in H. destruct o; cbn [lstep] in H.
  - cbn in H. apply in_app_or in H. destruct H as [H|[H|[]]]; [auto|discriminate].
  - destruct (0 <=? n); [|auto]. cbn in H. apply in_app_or in H. destruct H as [H|[H|[]]]; [auto|discriminate].
  - destruct (negb (Nat.ltb l nl)); [auto|]. destruct (negb (hole_ok k0 w0)); [auto|].
    assert (X : In (GRef g) (l_items (lemit (lfold nl k os) [GRaw pre; GRef {| g_sec := k; g_site := l_len (lfold nl k os) + zlen pre; g_rel := rel; g_kind := k0; g_label := l; g_w0 := w0 |}; GRaw post]
                                        (zlen pre + vsize (fmt_of_kind k0) + zlen post))) -> g_sec g = k).
    { intros X. cbn in X. apply in_app_or in X. destruct X as [X|[X|[X|[X|[]]]]]; [auto|discriminate|injection X as <-; reflexivity|discriminate]. }
    destruct (assoc l (l_binds (lfold nl k os))); [destruct (write_offset _ _ _)|]; auto.
  - destruct (Nat.ltb l nl); [|auto]. destruct (assoc l (l_binds (lfold nl k os))); [auto|].
    destruct (lprecheck l (l_len (lfold nl k os)) (l_items (lfold nl k os))); auto.
  - destruct (negb (Nat.ltb l nl)); [auto|]. destruct (negb (size_ok size)); [auto|].
    cbn in H. apply in_app_or in H. destruct H as [H|[H|[]]]; [auto|discriminate].
  - destruct (negb (Nat.ltb l nl && Nat.ltb b nl)); [auto|]. destruct (negb (size_ok size)); [auto|].
    destruct (assoc l (l_binds (lfold nl k os))); [destruct (assoc b (l_binds (lfold nl k os))); [destruct (delta_fits _ _); [|auto]|]|];
      cbn in H; apply in_app_or in H; destruct H as [H|[H|[]]]; auto; discriminate.
Qed.

(* the machine's bind precheck (over the pending fixups) = the section's own precheck (over its reference items) *)
Lemma precheck_local : forall nl ns t s k l, J nl ns t s -> inv s -> (k < S ns)%nat -> nth_error (labels s) l = Some None ->
  bind_precheck l k (s_len (nsec s k)) (pending s) (refs s) = lprecheck l (l_len (lfold nl k (proj k t))) (l_items (lfold nl k (proj k t))).
Proof.
  intros nl ns t s k l HJ HI Hk EL. pose proof HJ as [A B C D E F G H PM NR].
  destruct (lprecheck l (l_len (lfold nl k (proj k t))) (l_items (lfold nl k (proj k t)))) eqn:EP.
  - (* every pending fixup of the label in this section belongs to a reference item of the section *)
    unfold bind_precheck. apply forallb_forall. intros fx Hfx. unfold bind_sel.
    destruct (Nat.eqb (fx_label fx) l) eqn:E1; [|reflexivity]. destruct (Nat.eqb (fx_sec fx) k) eqn:E2; [|reflexivity].
    apply Nat.eqb_eq in E1. apply Nat.eqb_eq in E2.
    destruct (inv_fx _ _ _ _ _ HI fx Hfx) as (r & Hr & Hsec & Hsite & Hrel & Hkind & Hlab & Hw0). rewrite Hr.
    destruct (H _ r Hr) as [_ Hin]. rewrite Hsec, E2 in Hin.
    unfold lprecheck in EP. rewrite forallb_forall in EP. specialize (EP _ Hin). cbn [ghost_of g_label g_kind g_w0 g_site g_rel] in EP.
    rewrite Hlab, E1, Nat.eqb_refl in EP. rewrite D by exact Hk. cbn [lay_so lay_to]. rewrite <- Hkind, <- Hsite, <- Hrel, Hw0. exact EP.
  - (* every reference item to the (unbound) label still has its fixup pending *)
    destruct (bind_precheck l k (s_len (nsec s k)) (pending s) (refs s)) eqn:BP; [exfalso|reflexivity].
    assert (X : lprecheck l (l_len (lfold nl k (proj k t))) (l_items (lfold nl k (proj k t))) = true); [|congruence].
    unfold lprecheck. apply forallb_forall. intros it Hit. destruct it as [bs|n|g]; try reflexivity.
    destruct (Nat.eqb (g_label g) l) eqn:EG; [|reflexivity]. apply Nat.eqb_eq in EG.
    pose proof (ghosts_sec nl k (proj k t) g Hit) as GS.
    rewrite <- (E k Hk) in Hit. apply in_map_iff in Hit. destruct Hit as (it0 & Hgi & Hin0).
    destruct it0 as [bs|n|id]; cbn in Hgi; try discriminate.
    destruct (nth_error (refs s) id) as [r|] eqn:Er; [|discriminate]. injection Hgi as Hg.
    destruct (inv_refs _ _ _ _ _ HI id r Er) as [HP|(ls & lo & HB & _)].
    2:{ assert (r_label r = l) by (rewrite <- EG, <- Hg; reflexivity). rewrite H0 in HB. congruence. }
    apply in_map_iff in HP. destruct HP as (fx & Hid & Hfx).
    destruct (inv_fx _ _ _ _ _ HI fx Hfx) as (r' & Hr' & Hsec & Hsite & Hrel & Hkind & Hlab & Hw0). rewrite Hid, Er in Hr'. injection Hr' as <-.
    unfold bind_precheck in BP. rewrite forallb_forall in BP. specialize (BP fx Hfx). unfold bind_sel in BP.
    assert (L1 : fx_label fx = l) by (rewrite <- Hlab, <- EG, <- Hg; reflexivity).
    assert (L2 : fx_sec fx = k) by (rewrite <- Hsec, <- GS, <- Hg; reflexivity).
    rewrite L1, L2, !Nat.eqb_refl, Hid, Er in BP. cbn [lay_so lay_to] in BP.
    rewrite D in BP by exact Hk. rewrite <- Hg. cbn [ghost_of g_kind g_w0 g_site g_rel].
    rewrite <- Hkind, <- Hsite, <- Hrel, Hw0 in BP. exact BP.
Qed.

(* the labels of a delta are not both bound in one section other than the one the delta is embedded in (at the time of the call) *)
Definition delta_local_at (s : state) (k : nat) (o : sop) : Prop :=
  match o with
  | SDelta l b _ => forall ks lo bo, nth_error (labels s) l = Some (Some (ks, lo)) -> nth_error (labels s) b = Some (Some (ks, bo)) -> ks = k
  | _ => True
  end.

Lemma assoc_state : forall nl ns t s k l, J nl ns t s -> (k < S ns)%nat ->
  assoc l (l_binds (lfold nl k (proj k t))) =
  match nth_error (labels s) l with Some (Some (ks, off)) => if Nat.eqb ks k then Some off else None | _ => None end.
Proof.
  intros nl ns t s k l HJ Hk. pose proof (j_bound _ _ _ _ HJ) as G.
  destruct (assoc l (l_binds (lfold nl k (proj k t)))) as [off|] eqn:EA.
  - assert (X : nth_error (labels s) l = Some (Some (k, off))) by (apply G; auto). rewrite X, Nat.eqb_refl. reflexivity.
  - destruct (nth_error (labels s) l) as [[[ks off]|]|] eqn:EL; try reflexivity.
    destruct (Nat.eqb ks k) eqn:EK; [|reflexivity]. apply Nat.eqb_eq in EK. subst ks. apply G in EL. destruct EL as [_ EL]. congruence.
Qed.

(* the decision of embed_label_delta (difference at once / relocation entry), seen from the section *)
Lemma delta_decision : forall nl ns t s k l b sz ll lb, J nl ns t s -> (k < S ns)%nat -> delta_local_at s k (SDelta l b sz) ->
  nth_error (labels s) l = Some ll -> nth_error (labels s) b = Some lb ->
  match ll, lb with
  | Some (ls, lo), Some (bs, bo) => if Nat.eqb ls bs then Some (lo - bo) else None
  | _, _ => None
  end =
  match assoc l (l_binds (lfold nl k (proj k t))), assoc b (l_binds (lfold nl k (proj k t))) with
  | Some lo, Some bo => Some (lo - bo)
  | _, _ => None
  end.
Proof.
  intros nl ns t s k l b sz ll lb HJ Hk DL EL EB.
  rewrite (assoc_state nl ns t s k l HJ Hk), (assoc_state nl ns t s k b HJ Hk), EL, EB.
  destruct ll as [[ls lo]|], lb as [[bs bo]|]; try reflexivity.
  - destruct (Nat.eqb ls bs) eqn:E1.
    + apply Nat.eqb_eq in E1. subst bs. cbn in DL. rewrite EL, EB in DL. rewrite (DL ls lo bo eq_refl eq_refl), Nat.eqb_refl. reflexivity.
    + destruct (Nat.eqb ls k) eqn:E2, (Nat.eqb bs k) eqn:E3; try reflexivity.
      apply Nat.eqb_eq in E2. apply Nat.eqb_eq in E3. apply Nat.eqb_neq in E1. congruence.
  - destruct (Nat.eqb ls k); reflexivity.
Qed.

Lemma J_step : forall nl ns t s k o, J nl ns t s -> inv s -> absinv s -> (k < S ns)%nat -> NoDup (bound_labels (t ++ [(k, o)])) ->
  delta_local_at s k o ->
  J nl ns (t ++ [(k, o)]) (run s (expand1 (k, o))).
Proof.
  intros nl ns t s k o HJ HI HAI Hk HN DL. pose proof HJ as [A B C D E F G H PM NR].
  unfold expand1. cbn [fst snd run]. rewrite step_section_ok by lia. cbn [fst].
  set (s1 := set_cur s k).
  assert (CS : cur_sec s1 = nsec s k) by reflexivity.
  assert (LL : forall l, (l < nl)%nat <-> nth_error (labels s) l <> None).
  { intros l. rewrite nth_error_Some. lia. }
  destruct o as [bs|n|kd rel l pre w0 post|l|l size addend pre post|l b size]; cbn [op_of].
  - (* raw *) cbn [step fst]. eapply (J_emit nl ns t s k (SRaw bs) [IRaw bs] (zlen bs) []); try exact HJ; try exact Hk; try reflexivity.
    + intros r [].
    + repeat constructor.
    + cbn. now rewrite app_nil_r.
  - (* gap *) cbn [step]. destruct (0 <=? n) eqn:EN; cbn [fst].
    + eapply (J_emit nl ns t s k (SGap n) [IGap n] n []); try exact HJ; try exact Hk; try reflexivity.
      * intros r [].
      * repeat constructor.
      * cbn [lstep]. rewrite EN. reflexivity.
      * cbn. now rewrite app_nil_r.
    + eapply J_nop; try exact HJ; try exact Hk; try reflexivity. cbn [lstep]. rewrite EN. reflexivity.
  - (* reference *) cbn [step]. change (labels s1) with (labels s).
    destruct (nth_error (labels s) l) as [lb|] eqn:EL.
    2:{ cbn [fst]. eapply J_nop; try exact HJ; try exact Hk; try reflexivity. cbn [lstep].
        assert (Nat.ltb l nl = false) as ->; [|reflexivity]. apply Nat.ltb_ge. apply nth_error_None in EL. lia. }
    assert (LT : Nat.ltb l nl = true). { apply Nat.ltb_lt. apply LL. congruence. }
    destruct (negb (hole_ok kd w0)) eqn:EH.
    { cbn [fst]. eapply J_nop; try exact HJ; try exact Hk; try reflexivity. cbn [lstep]; rewrite ?LT, ?EH; cbn [negb]; reflexivity. }
    set (site := s_len (cur_sec s1) + zlen pre).
    set (r0 := {| r_sec := cur s1; r_site := site; r_rel := rel; r_kind := kd; r_label := l; r_w0 := w0; r_word := w0; r_lay := None |}).
    assert (SITE : site = l_len (lfold nl k (proj k t)) + zlen pre). { unfold site. rewrite CS, D by exact Hk. reflexivity. }
    (* the emitted items, whatever the word *)
    assert (EMIT : forall r s2, ghost_of r = ghost_of r0 ->
               secs s2 = upd (secs s) k (sec_append (nsec s k) [IRaw pre; IRef (length (refs s)); IRaw post] (zlen pre + vsize (fmt_of_kind kd) + zlen post)) ->
               labels s2 = labels s -> refs s2 = refs s ++ [r] -> cur s2 = k -> pending_rel s2 = pending_rel s -> relocs s2 = relocs s ->
               lstep nl k (lfold nl k (proj k t)) (SRef kd rel l pre w0 post) =
                 lemit (lfold nl k (proj k t)) [GRaw pre; GRef (ghost_of r0); GRaw post] (zlen pre + vsize (fmt_of_kind kd) + zlen post) ->
               J nl ns (t ++ [(k, SRef kd rel l pre w0 post)]) s2).
    { intros r s2 HG S1 S2 S3 S4 S5 S6 HL.
      eapply (J_emit nl ns t s k _ [IRaw pre; IRef (length (refs s)); IRaw post] _ [r]); try exact HJ; try exact Hk; try assumption.
      - intros r' [<-|[]]. assert (r_sec r = r_sec r0) by (change (g_sec (ghost_of r) = g_sec (ghost_of r0)); now rewrite HG). split; [exact H0|].
        cbn [map gi]. rewrite nth_error_app2 by lia. rewrite Nat.sub_diag. cbn. right. left. reflexivity.
      - repeat constructor. cbn. rewrite app_length. cbn. lia.
      - rewrite HL. cbn [map gi]. rewrite nth_error_app2 by lia. rewrite Nat.sub_diag. cbn. rewrite HG. reflexivity.
      - exact S1.
      - cbn [map gi]. rewrite nth_error_app2 by lia. rewrite Nat.sub_diag. reflexivity. }
    assert (G0 : ghost_of r0 = {| g_sec := k; g_site := l_len (lfold nl k (proj k t)) + zlen pre; g_rel := rel; g_kind := kd; g_label := l; g_w0 := w0 |}).
    { unfold ghost_of, r0. cbn. rewrite SITE. reflexivity. }
    destruct lb as [[ls lo]|].
    + destruct (Nat.eqb ls (cur s1)) eqn:ES.
      * apply Nat.eqb_eq in ES. change (cur s1) with k in ES. subst ls.
        assert (AS : assoc l (l_binds (lfold nl k (proj k t))) = Some lo) by (apply G; exact EL).
        destruct (write_offset (fmt_of_kind kd) w0 (disp 0 0 lo site rel)) as [w|] eqn:EW; cbn [fst].
        -- eapply (EMIT (patched r0 w None)); try reflexivity.
           cbn [lstep]; rewrite ?LT, ?EH, ?AS; cbn [negb]; rewrite ?G0; rewrite <- ?SITE; rewrite ?EW; reflexivity.
        -- eapply J_nop; try exact HJ; try exact Hk; try reflexivity. cbn [lstep]; rewrite ?LT, ?EH, ?AS; cbn [negb]; rewrite ?G0; rewrite <- ?SITE; rewrite ?EW; reflexivity.
      * apply Nat.eqb_neq in ES. change (cur s1) with k in ES. cbn [fst].
        assert (AS : assoc l (l_binds (lfold nl k (proj k t))) = None).
        { destruct (assoc l (l_binds (lfold nl k (proj k t)))) as [off|] eqn:EA; [|reflexivity].
          assert (X : nth_error (labels s) l = Some (Some (k, off))) by (apply G; auto). congruence. }
        eapply (EMIT r0); try reflexivity. cbn [lstep]; rewrite ?LT, ?EH, ?AS; cbn [negb]; rewrite ?G0; rewrite <- ?SITE; rewrite ?EW; reflexivity.
    + cbn [fst].
      assert (AS : assoc l (l_binds (lfold nl k (proj k t))) = None).
      { destruct (assoc l (l_binds (lfold nl k (proj k t)))) as [off|] eqn:EA; [|reflexivity].
        assert (X : nth_error (labels s) l = Some (Some (k, off))) by (apply G; auto). congruence. }
      eapply (EMIT r0); try reflexivity. cbn [lstep]; rewrite ?LT, ?EH, ?AS; cbn [negb]; rewrite ?G0; rewrite <- ?SITE; rewrite ?EW; reflexivity.
  - (* bind *) cbn [step]. change (labels s1) with (labels s).
    destruct (nth_error (labels s) l) as [[[k' off']|]|] eqn:EL.
    + (* already bound: by uniqueness impossible unless ... *) exfalso.
      assert (X : (k' < S ns)%nat /\ assoc l (l_binds (lfold nl k' (proj k' t))) = Some off') by (apply G; exact EL).
      destruct X as [_ X]. apply assoc_lfold_bind, proj_bind_bound in X.
      rewrite bound_labels_snoc in HN. cbn in HN. apply NoDup_remove_2 in HN. apply HN. rewrite app_nil_r. exact X.
    + (* the label is unbound: the bind happens unless the precheck refuses it - decided by the section's own reference items *)
      assert (LT0 : Nat.ltb l nl = true). { apply Nat.ltb_lt. apply LL. congruence. }
      assert (ASk0 : assoc l (l_binds (lfold nl k (proj k t))) = None).
      { destruct (assoc l (l_binds (lfold nl k (proj k t)))) as [z|] eqn:EA; [|reflexivity].
        assert (Y : nth_error (labels s) l = Some (Some (k, z))) by (apply G; auto). congruence. }
      pose proof (precheck_local nl ns t s k l HJ HI Hk EL) as PL.
      change (bind_precheck l (cur s1) (s_len (cur_sec s1)) (pending s1) (refs s1)) with (bind_precheck l k (s_len (nsec s k)) (pending s) (refs s)).
      rewrite PL. destruct (lprecheck l (l_len (lfold nl k (proj k t))) (l_items (lfold nl k (proj k t)))) eqn:EP; cbn [negb fst].
      2:{ eapply J_nop; try exact HJ; try exact Hk; try reflexivity. cbn [lstep]. rewrite LT0, ASk0, EP. reflexivity. }
      destruct (bind_rel l (cur s1) (s_len (cur_sec s1)) (pending_rel s1) (relocs s1)) as [[prk rl] nrel] eqn:EB.
      cbn [fst].
      set (W := resolve_list (bind_sel l (cur s1) (s_len (cur_sec s1))) true (pending s1) (refs s1)).
      assert (LT : Nat.ltb l nl = true). { apply Nat.ltb_lt. apply LL. congruence. }
      assert (AS : forall j off, (j < S ns)%nat -> assoc l (l_binds (lfold nl j (proj j t))) = Some off -> False).
      { intros j off Hj X. assert (Y : nth_error (labels s) l = Some (Some (j, off))) by (apply G; auto). congruence. }
      assert (ASk : assoc l (l_binds (lfold nl k (proj k t))) = None).
      { destruct (assoc l (l_binds (lfold nl k (proj k t)))) as [z|] eqn:EA; [exfalso; exact (AS k z Hk EA)|reflexivity]. }
      assert (GH : forall id r, nth_error (refs s) id = Some r -> exists r', nth_error (w_refs W) id = Some r' /\ ghost_of r' = ghost_of r).
      { intros id r Hr. apply resolve_list_ghost. exact Hr. }
      assert (P : forall j, j <> k -> lfold nl j (proj j (t ++ [(k, SBind l)])) = lfold nl j (proj j t)).
      { intros j Hj. rewrite proj_snoc. cbn [fst snd]. assert (Nat.eqb k j = false) as -> by (apply Nat.eqb_neq; congruence). now rewrite app_nil_r. }
      assert (Pk : lfold nl k (proj k (t ++ [(k, SBind l)])) =
                   {| l_len := l_len (lfold nl k (proj k t)); l_items := l_items (lfold nl k (proj k t));
                      l_binds := (l, l_len (lfold nl k (proj k t))) :: l_binds (lfold nl k (proj k t)); l_rels := l_rels (lfold nl k (proj k t)) |}).
      { rewrite proj_snoc. cbn [fst snd]. rewrite Nat.eqb_refl, lfold_snoc. cbn [lstep]. rewrite LT, ASk, EP. reflexivity. }
      match goal with |- J _ _ _ ?st => set (s2 := st) end.
      assert (Q1 : secs s2 = secs s) by reflexivity.
      assert (Q2 : labels s2 = upd (labels s) l (Some (k, s_len (nsec s k)))) by reflexivity.
      assert (Q3 : refs s2 = w_refs W) by reflexivity.
      assert (Q4 : cur s2 = k) by reflexivity.
      assert (Q5 : pending_rel s2 = prk /\ relocs s2 = rl) by (split; reflexivity).
      assert (QN : forall j, nsec s2 j = nsec s j) by (intros; unfold nsec; now rewrite Q1).
      clearbody s2.
      constructor.
      * rewrite Q1. exact A.
      * rewrite Q2, upd_length. exact B.
      * rewrite Q4. exact Hk.
      * intros j Hj. rewrite QN. destruct (Nat.eq_dec j k) as [->|N]; [rewrite Pk|rewrite P by exact N]; apply D; exact Hj.
      * intros j Hj. rewrite QN, Q3. destruct (gi_same (refs s) (w_refs W) (s_items (nsec s j)) (F j Hj) GH) as [Q _]. rewrite Q.
        destruct (Nat.eq_dec j k) as [->|N]; [rewrite Pk|rewrite P by exact N]; apply E; exact Hj.
      * intros j Hj. rewrite QN, Q3. destruct (gi_same (refs s) (w_refs W) (s_items (nsec s j)) (F j Hj) GH) as [_ Q]. eapply item_ok_mono; [exact Q|]. apply F. exact Hj.
      * intros l' j off. rewrite Q2. destruct (Nat.eq_dec l' l) as [->|NL].
        -- rewrite (nth_error_upd_eq _ _ _ _ EL). split.
           ++ intros X. injection X as <- <-. split; [exact Hk|]. rewrite Pk. cbn. rewrite Nat.eqb_refl. f_equal. symmetry. apply D. exact Hk.
           ++ intros [Hj X]. destruct (Nat.eq_dec j k) as [->|N].
              ** rewrite Pk in X. cbn in X. rewrite Nat.eqb_refl in X. injection X as <-. rewrite D by exact Hk. reflexivity.
              ** rewrite P in X by exact N. exfalso. exact (AS j off Hj X).
        -- rewrite nth_error_upd_neq by congruence. rewrite G.
           destruct (Nat.eq_dec j k) as [->|N]; [|now rewrite P by exact N].
           rewrite Pk. cbn. assert (Nat.eqb l l' = false) as -> by (apply Nat.eqb_neq; congruence). reflexivity.
      * intros id r Hr. rewrite Q3 in Hr. destruct (nth_error (refs s) id) as [r1|] eqn:E1.
        -- destruct (GH id r1 E1) as (r' & Hr' & HG). rewrite Hr in Hr'. injection Hr' as <-.
           assert (r_sec r = r_sec r1) by (change (g_sec (ghost_of r) = g_sec (ghost_of r1)); now rewrite HG). rewrite H0, HG.
           destruct (H id r1 E1) as [H1 H2]. split; [exact H1|].
           destruct (Nat.eq_dec (r_sec r1) k) as [EQ|N]; [rewrite EQ in *; rewrite Pk; cbn [l_items]; exact H2|rewrite P by exact N; exact H2].
        -- exfalso. apply nth_error_None in E1.
           assert (length (w_refs W) = length (refs s)).
           { unfold W. change (refs s1) with (refs s). generalize (pending s1) (refs s).
             induction l0 as [|fx tl IH]; intros rs; cbn [resolve_list]; [reflexivity|].
             destruct (bind_sel l (cur s1) (s_len (cur_sec s1)) fx); cbn [walk_keep w_refs]; try apply IH.
             destruct (nth_error rs (fx_id fx)); cbn [walk_keep w_refs]; [|apply IH].
             destruct (write_offset _ _ _); cbn [walk_keep walk_done w_refs]; [|apply IH]. rewrite IH. apply upd_length. }
           assert (id < length (w_refs W))%nat by (apply nth_error_Some; congruence). lia.
      * rewrite Q3. unfold W. rewrite resolve_list_ghost_map. change (refs s1) with (refs s).
        unfold allghosts. rewrite (flat_map_seq_ext _ (fun j => grefs (l_items (lfold nl j (proj j t))))); [exact PM|].
        intros j _. destruct (Nat.eq_dec j k) as [->|N]; [rewrite Pk; reflexivity|now rewrite P by exact N].
      * destruct NR as [NR1 NR2]. destruct Q5 as [_ Q5]. rewrite Q5.
        assert (RL : rl = mapi_from (fun rid re => if rel_hit l (pending_rel s1) rid then bump_reloc re (cur s1) (s_len (cur_sec s1)) else re) O (relocs s)).
        { unfold bind_rel in EB. injection EB as _ <- _. reflexivity. }
        assert (MG : forall (f : nat -> reloc -> reloc) i (rls : list reloc), (forall j re, rghost_of (f j re) = rghost_of re) ->
                  map rghost_of (mapi_from f i rls) = map rghost_of rls).
        { intros f i rls Hf. revert i. induction rls as [|re rls IH]; intros i; cbn; [reflexivity|]. now rewrite Hf, IH. }
        assert (M1 := MG (fun rid re => if rel_hit l (pending_rel s1) rid then bump_reloc re (cur s1) (s_len (cur_sec s1)) else re) O (relocs s)
                         (fun j re => match rel_hit l (pending_rel s1) j as h return rghost_of (if h then bump_reloc re (cur s1) (s_len (cur_sec s1)) else re) = rghost_of re
                                      with true => eq_refl | false => eq_refl end)).
        assert (M2 : Forall rel_wt (mapi_from (fun rid re => if rel_hit l (pending_rel s1) rid then bump_reloc re (cur s1) (s_len (cur_sec s1)) else re) O (relocs s))).
        { apply Forall_forall. intros re' Hin. destruct (In_nth_error _ _ Hin) as (rid & Hrid).
          rewrite nth_error_mapi_from in Hrid. cbn [Nat.add] in Hrid. destruct (nth_error (relocs s) rid) as [re|] eqn:Er; [|discriminate].
          cbn [option_map] in Hrid. injection Hrid as <-. cbv beta.
          match goal with |- context [rel_hit ?a ?b ?c] => destruct (rel_hit a b c) eqn:EHit end.
          - apply rel_hit_true in EHit. destruct (ai_linked _ _ _ HAI _ EHit) as (re0 & Hre0 & HT & _). cbn [snd] in Hre0.
            change (relocs s1) with (relocs s) in *. rewrite Er in Hre0. injection Hre0 as <-.
            intros l' b' HT'. cbn in HT'. congruence.
          - eapply Forall_forall; [exact NR2|]. eapply nth_error_In. exact Er. }
        rewrite RL. split; [|exact M2]. rewrite M1.
        unfold allrels. rewrite (flat_map_seq_ext _ (fun j => l_rels (lfold nl j (proj j t)))); [exact NR1|].
        intros j _. destruct (Nat.eq_dec j k) as [->|N]; [rewrite Pk; reflexivity|now rewrite P by exact N].
    + (* invalid label *) cbn [fst]. eapply J_nop; try exact HJ; try exact Hk; try reflexivity. cbn [lstep].
      assert (Nat.ltb l nl = false) as ->; [|reflexivity]. apply Nat.ltb_ge. apply nth_error_None in EL. lia.
  - (* absolute reference: bytes + one RelToAbs relocation entry *) cbn [step]. change (labels s1) with (labels s).
    destruct (nth_error (labels s) l) as [lb|] eqn:EL.
    2:{ cbn [fst]. eapply J_nop; try exact HJ; try exact Hk; try reflexivity. cbn [lstep].
        assert (Nat.ltb l nl = false) as ->; [|reflexivity]. apply Nat.ltb_ge. apply nth_error_None in EL. lia. }
    assert (LT : Nat.ltb l nl = true). { apply Nat.ltb_lt. apply LL. congruence. }
    destruct (negb (size_ok size)) eqn:ESZ.
    { cbn [fst]. eapply J_nop; try exact HJ; try exact Hk; try reflexivity. cbn [lstep]. rewrite LT, ESZ. reflexivity. }
    assert (ABS : forall re s2, rghost_of re = {| rg_sec := k; rg_off := l_len (lfold nl k (proj k t)); rg_lead := zlen pre; rg_size := size;
                                                 rg_trail := zlen post; rg_label := l; rg_addend := addend; rg_base := None |} -> is_abs re ->
               secs s2 = upd (secs s) k (sec_append (nsec s k) [IRaw (pre ++ zeros size ++ post)] (zlen pre + size + zlen post)) ->
               labels s2 = labels s -> refs s2 = refs s -> cur s2 = k -> relocs s2 = relocs s ++ [re] ->
               J nl ns (t ++ [(k, SAbs l size addend pre post)]) s2).
    { intros re s2 HG HA S1 S2 S3 S4 S6.
      eapply (J_emitr nl ns t s k _ [IRaw (pre ++ zeros size ++ post)] _ [] [re]); try exact HJ; try exact Hk; try assumption.
      - intros r [].
      - repeat constructor.
      - cbn [lstep]. rewrite LT, ESZ. cbn [negb map gi]. rewrite HG. reflexivity.
      - exact S1.
      - rewrite app_nil_r. exact S3.
      - constructor; [|constructor]. intros l' b' HT'. unfold is_abs in HA. congruence.
      - reflexivity. }
    assert (OFF : s_len (cur_sec s1) = l_len (lfold nl k (proj k t))) by (rewrite CS; apply D; exact Hk).
    destruct lb as [[ls lo]|]; cbn [fst]; eapply ABS; try reflexivity; unfold rghost_of; cbn [rl_sec rl_off rl_lead rl_size rl_trail rl_label rl_addend rl_type]; rewrite OFF; reflexivity.
  - (* label delta *) cbn [step]. change (labels s1) with (labels s).
    destruct (nth_error (labels s) l) as [ll|] eqn:EL.
    2:{ cbn [fst]. eapply J_nop; try exact HJ; try exact Hk; try reflexivity. cbn [lstep].
        assert (Nat.ltb l nl = false) as ->; [|reflexivity]. apply Nat.ltb_ge. apply nth_error_None in EL. lia. }
    destruct (nth_error (labels s) b) as [lb|] eqn:EB.
    2:{ cbn [fst]. eapply J_nop; try exact HJ; try exact Hk; try reflexivity. cbn [lstep].
        assert (Nat.ltb b nl = false) as ->; [|now rewrite andb_false_r]. apply Nat.ltb_ge. apply nth_error_None in EB. lia. }
    assert (LT : Nat.ltb l nl = true). { apply Nat.ltb_lt. apply LL. congruence. }
    assert (LTb : Nat.ltb b nl = true). { apply Nat.ltb_lt. apply LL. congruence. }
    destruct (negb (size_ok size)) eqn:ESZ.
    { cbn [fst]. eapply J_nop; try exact HJ; try exact Hk; try reflexivity. cbn [lstep]. rewrite LT, LTb, ESZ. reflexivity. }
    assert (OFF : s_len (cur_sec s1) = l_len (lfold nl k (proj k t))) by (rewrite CS; apply D; exact Hk).
    rewrite (delta_decision nl ns t s k l b size ll lb HJ Hk DL EL EB).
    destruct (assoc l (l_binds (lfold nl k (proj k t)))) as [lo|] eqn:AL; [destruct (assoc b (l_binds (lfold nl k (proj k t)))) as [bo|] eqn:AB|].
    + fold (delta_fits size (lo - bo)). destruct (delta_fits size (lo - bo)) eqn:EF; cbn [fst].
      * eapply (J_emit nl ns t s k _ [IRaw (le_split (Z.to_nat size) (wrap (8 * size) (lo - bo)))] size []); try exact HJ; try exact Hk; try reflexivity.
        -- intros r [].
        -- repeat constructor.
        -- cbn [lstep]. rewrite LT, LTb, ESZ, AL, AB, EF. reflexivity.
        -- cbn. now rewrite app_nil_r.
      * eapply J_nop; try exact HJ; try exact Hk; try reflexivity. cbn [lstep]. rewrite LT, LTb, ESZ, AL, AB, EF. reflexivity.
    + cbn [fst]. eapply (J_emitr nl ns t s k _ [IRaw (zeros size)] size [] [_]); try exact HJ; try exact Hk; try reflexivity.
      * intros r [].
      * repeat constructor.
      * cbn [lstep]. rewrite LT, LTb, ESZ, AL, AB. cbn [negb andb map gi rghost_of rl_sec rl_off rl_lead rl_size rl_trail rl_label rl_addend rl_type]. rewrite OFF. reflexivity.
      * cbn. now rewrite app_nil_r.
      * constructor; [|constructor]. intros l' b' HT'. cbn in HT'. injection HT' as <- <-. cbn. auto.
    + cbn [fst]. eapply (J_emitr nl ns t s k _ [IRaw (zeros size)] size [] [_]); try exact HJ; try exact Hk; try reflexivity.
      * intros r [].
      * repeat constructor.
      * cbn [lstep]. rewrite LT, LTb, ESZ, AL. cbn [negb andb map gi rghost_of rl_sec rl_off rl_lead rl_size rl_trail rl_label rl_addend rl_type]. rewrite OFF. reflexivity.
      * cbn. now rewrite app_nil_r.
      * constructor; [|constructor]. intros l' b' HT'. cbn in HT'. injection HT' as <- <-. cbn. auto.
Qed.

(* ------------------------------------------------------------------ the prelude and whole runs *)
Lemma run_new_labels : forall n s, run s (repeat ONewLabel n) = set_labels s (labels s ++ repeat None n).
Proof.
  induction n; intros s; cbn [repeat run].
  - rewrite app_nil_r. destruct s; reflexivity.
  - cbn [step fst]. rewrite IHn. cbn. rewrite <- app_assoc. reflexivity.
Qed.

Lemma run_new_sections : forall n s, run s (repeat ONewSection n) = set_secs s (secs s ++ repeat empty_sec n).
Proof.
  induction n; intros s; cbn [repeat run].
  - rewrite app_nil_r. destruct s; reflexivity.
  - cbn [step fst]. rewrite IHn. cbn. rewrite <- app_assoc. reflexivity.
Qed.

Lemma nth_repeat_empty : forall k n, nth k (repeat empty_sec n) empty_sec = empty_sec.
Proof. intros k n. revert k. induction n; intros [|k]; cbn; auto. Qed.

Lemma J_prelude : forall nl ns, J nl ns [] (run init (prelude nl ns)).
Proof.
  intros nl ns. unfold prelude. rewrite run_app, run_new_labels, run_new_sections. cbn [secs labels refs cur set_secs set_labels init].
  assert (NS : forall k, nsec (set_secs (set_labels init ([] ++ repeat None nl)) ([{| s_items := []; s_len := 0 |}] ++ repeat empty_sec ns)) k = empty_sec).
  { intros [|k]; unfold nsec; cbn; [reflexivity|apply nth_repeat_empty]. }
  constructor; cbn [secs labels refs cur set_secs set_labels init]; try (intros; rewrite NS; reflexivity).
  - cbn. rewrite repeat_length. reflexivity.
  - cbn. apply repeat_length.
  - lia.
  - intros. rewrite NS. constructor.
  - intros l k off. cbn [app]. split.
    + intros X. exfalso. apply nth_error_In in X. apply repeat_spec in X. discriminate.
    + intros [_ X]. discriminate.
  - intros [|id] r X; discriminate.
  - unfold allghosts. cbn [proj filter map lfold fold_left lst0 l_items grefs flat_map]. induction (seq 0 (S ns)); cbn; [constructor|exact IHl].
  - split; [|constructor]. unfold allrels. cbn [proj filter map lfold fold_left lst0 l_rels relocs set_secs set_labels init]. induction (seq 0 (S ns)); cbn; [constructor|exact IHl].
Qed.

Definition tags_ok (ns : nat) (t : list top) : Prop := Forall (fun x : top => (fst x < S ns)%nat) t.

Lemma NoDup_app_l' : forall (a b : list nat), NoDup (a ++ b) -> NoDup a.
Proof.
  induction a; intros b H; [constructor|]. cbn in H. inversion H; subst. constructor; [|eapply IHa; eassumption].
  intro HI. apply H2. apply in_or_app. now left.
Qed.

Lemma all_fit_snoc : forall nl ns t k o, (k < S ns)%nat -> all_fit nl ns (t ++ [(k, o)]) ->
  all_fit nl ns t /\ bind_fits (lfold nl k (proj k t)) o = true.
Proof.
  intros nl ns t k o Hk H. split.
  - intros j Hj. specialize (H j Hj). rewrite proj_snoc in H. cbn [fst snd] in H. destruct (Nat.eqb k j); [|now rewrite app_nil_r in H].
    rewrite fits_from_snoc in H. apply andb_prop in H. tauto.
  - specialize (H k Hk). rewrite proj_snoc in H. cbn [fst snd] in H. rewrite Nat.eqb_refl, fits_from_snoc in H. apply andb_prop in H. tauto.
Qed.

(* SIDE CONDITION for label deltas: when a delta is embedded, its two labels are not both bound in one section OTHER than the one the
   delta goes to.  (Both in the delta's own section: the difference is written at once in every order.  In two different sections, or one
   of them unbound: a relocation entry in every order.  Both in one other section: at once or as an entry depending on whether that
   section's binds come first - the bytes then agree only after relocation; see delta_entry_effect.) *)
Definition delta_local (nl ns : nat) (t : list top) : Prop :=
  forall t1 t2 k l b sz, t = t1 ++ (k, SDelta l b sz) :: t2 ->
  forall k' lo bo, (k' < S ns)%nat ->
    assoc l (l_binds (lfold nl k' (proj k' t1))) = Some lo -> assoc b (l_binds (lfold nl k' (proj k' t1))) = Some bo -> k' = k.

Lemma delta_local_snoc : forall nl ns t x, delta_local nl ns (t ++ [x]) -> delta_local nl ns t.
Proof.
  intros nl ns t x H t1 t2 k l b sz E. apply (H t1 (t2 ++ [x]) k l b sz). rewrite E, <- app_assoc. reflexivity.
Qed.

Lemma J_run : forall nl ns t, tags_ok ns t -> NoDup (bound_labels t) -> delta_local nl ns t ->
  J nl ns t (run init (prelude nl ns ++ expand t)) /\ inv (run init (prelude nl ns ++ expand t)).
Proof.
  intros nl ns t. induction t as [|x t IH] using rev_ind; intros HT HN HD.
  - cbn [expand flat_map]. rewrite app_nil_r. split; [apply J_prelude|apply run_inv, inv_init].
  - apply Forall_app in HT. destruct HT as [HT Hx]. inversion Hx; subst.
    assert (HN' : NoDup (bound_labels t)) by (rewrite bound_labels_snoc in HN; eapply NoDup_app_l'; exact HN).
    destruct x as [k o].
    destruct (IH HT HN' (delta_local_snoc _ _ _ _ HD)) as [IJ II]. rewrite expand_snoc, app_assoc, run_app. split.
    + apply J_step; try assumption; [apply run_absinv, absinv_init|].
      destruct o; cbn; auto. intros ks lo bo E1 E2.
      apply (j_bound _ _ _ _ IJ) in E1. apply (j_bound _ _ _ _ IJ) in E2. destruct E1 as [K1 E1]. destruct E2 as [_ E2].
      exact (HD t [] k l b size eq_refl ks lo bo K1 E1 E2).
    + apply run_inv. exact II.
Qed.

(* ================================================================== after layout + cross-section resolution *)
Definition fdisp (offs : list Z) (ls : nat) (lo : Z) (g : ghost) : Z :=
  to_i64 ((nth ls offs 0 + lo) - (nth (g_sec g) offs 0 + g_site g) + g_rel g).

(* the final value word of a reference, from its (immutable) log, the final label table and the section offsets *)
Definition wfin (lbls : list (option (nat * Z))) (offs : list Z) (g : ghost) : Z :=
  match nth_error lbls (g_label g) with
  | Some (Some (ls, lo)) =>
      match write_offset (fmt_of_kind (g_kind g)) (g_w0 g) (fdisp offs ls lo g) with Some w => w | None => g_w0 g end
  | _ => g_w0 g
  end.

Definition wres (lbls : list (option (nat * Z))) (offs : list Z) (g : ghost) : option Z :=
  match nth_error lbls (g_label g) with
  | Some (Some (ls, lo)) => write_offset (fmt_of_kind (g_kind g)) (g_w0 g) (fdisp offs ls lo g)
  | _ => None
  end.
Definition unresolvable (lbls : list (option (nat * Z))) (offs : list Z) (g : ghost) : bool :=
  match wres lbls offs g with Some _ => false | None => true end.

Lemma wfin_wres : forall lbls offs g, wfin lbls offs g = match wres lbls offs g with Some w => w | None => g_w0 g end.
Proof. intros. unfold wfin, wres. destruct (nth_error lbls (g_label g)) as [[[ls lo]|]|]; reflexivity. Qed.

Fixpoint gimage (lbls : list (option (nat * Z))) (offs : list Z) (its : list gitem) : list Z :=
  match its with
  | [] => []
  | GRaw bs :: t => bs ++ gimage lbls offs t
  | GGap n :: t => (- n - 1) :: gimage lbls offs t
  | GRef g :: t => le_split (Z.to_nat (vsize (fmt_of_kind (g_kind g)))) (wfin lbls offs g) ++ gimage lbls offs t
  end.

Lemma sec_image_gimage : forall lbls offs rs its, Forall (item_ok rs) its ->
  (forall id r, nth_error rs id = Some r -> r_word r = wfin lbls offs (ghost_of r)) ->
  sec_image rs its = gimage lbls offs (map (gi rs) its).
Proof.
  intros lbls offs rs its HF HW. induction its as [|it its IH]; [reflexivity|]. inversion HF; subst.
  destruct it as [bs|n|id]; cbn [sec_image map gi gimage]; rewrite IH by assumption; try reflexivity.
  cbn in H1. destruct (nth_error rs id) as [r|] eqn:E; [|apply nth_error_None in E; lia].
  cbn [gimage]. rewrite (HW id r E). reflexivity.
Qed.

(* why a fixup is still pending after a walk *)
Lemma kept_reason : forall sel f fxs rs fx, NoDup (ids fxs) -> (forall fx, In fx fxs -> fx_ok rs fx) ->
  In fx (w_kept (resolve_list sel f fxs rs)) ->
  sel fx = SSkip \/ sel fx = SErr \/
  (exists lay lo r, sel fx = STry lay lo /\ nth_error rs (fx_id fx) = Some r /\
                    write_offset (fmt_of_kind (fx_kind fx)) (r_word r) (disp (lay_so lay) (lay_to lay) lo (fx_off fx) (fx_rel fx)) = None).
Proof.
  induction fxs as [|a t IH]; intros rs fx ND OK HI; cbn [resolve_list] in HI; [contradiction|].
  cbn [ids map] in ND. inversion ND; subst.
  assert (OKt : forall fx0, In fx0 t -> fx_ok rs fx0) by (intros; apply OK; now right).
  destruct (sel a) as [| |lay lo] eqn:ES; cbn [walk_keep w_kept] in HI.
  - destruct HI as [<-|HI]; [now left|]. eapply IH; eassumption.
  - destruct HI as [<-|HI]; [right; now left|]. eapply IH; eassumption.
  - destruct (nth_error rs (fx_id a)) as [r|] eqn:ER.
    2:{ exfalso. destruct (OK a (or_introl eq_refl)) as (r & Hr & _). congruence. }
    destruct (write_offset (fmt_of_kind (fx_kind a)) (r_word r) (disp (lay_so lay) (lay_to lay) lo (fx_off a) (fx_rel a))) as [w|] eqn:EW;
      cbn [walk_keep walk_done w_kept] in HI.
    + (* patched: the tail walks over the updated table; ids are distinct *)
      assert (OK2 : forall fx0, In fx0 t -> fx_ok (upd rs (fx_id a) (patched r w lay)) fx0).
      { intros fx0 H0. apply (fx_ok_same rs); [|apply OKt; exact H0]. apply nth_error_upd_neq.
        intro EQ. apply H1. rewrite EQ. apply in_map. exact H0. }
      destruct (IH _ fx H2 OK2 HI) as [X|[X|(lay' & lo' & r' & X1 & X2 & X3)]]; [now left|right; now left|].
      right. right. exists lay', lo', r'. split; [exact X1|]. split; [|exact X3].
      rewrite nth_error_upd_neq in X2; [exact X2|].
      intro EQ. apply H1. rewrite EQ. apply in_map.
      clear - HI. revert HI. generalize (upd rs (fx_id a) (patched r w lay)). induction t as [|b t IHt]; intros rs0 HI; cbn [resolve_list] in HI; [contradiction|].
      destruct (sel b); cbn [walk_keep w_kept] in HI; try (destruct HI as [<-|HI]; [now left|right; eapply IHt; exact HI]).
      destruct (nth_error rs0 (fx_id b)); cbn [walk_keep w_kept] in HI; try (destruct HI as [<-|HI]; [now left|right; eapply IHt; exact HI]).
      destruct (write_offset _ _ _); cbn [walk_keep walk_done w_kept] in HI; [right; eapply IHt; exact HI|destruct HI as [<-|HI]; [now left|right; eapply IHt; exact HI]].
    + destruct HI as [<-|HI]; [|eapply IH; eassumption].
      right. right. exists lay, lo, r. auto.
Qed.

Definition nowrap (nl ns : nat) (t : list top) (offs : list Z) : Prop :=
  forall k, (k < S ns)%nat ->
    (forall g, In (GRef g) (l_items (lfold nl k (proj k t))) -> nth k offs 0 + g_site g < 2 ^ 64) /\
    (forall l off, assoc l (l_binds (lfold nl k (proj k t))) = Some off -> nth k offs 0 + off < 2 ^ 64).

Lemma no_resolve_ops : forall nl ns t, no_resolve (prelude nl ns ++ expand t).
Proof.
  intros. unfold no_resolve, prelude. rewrite !forallb_app. repeat (apply andb_true_intro; split).
  - induction nl; cbn; auto.
  - induction ns; cbn; auto.
  - induction t as [|[k o] t IH]; [reflexivity|]. cbn. destruct o; cbn; exact IH.
Qed.

Lemma perm_filter_length : forall {A} (f : A -> bool) l l', Permutation l l' -> length (filter f l) = length (filter f l').
Proof.
  intros A f l l' H. induction H; cbn; try reflexivity.
  - destruct (f x); cbn; now rewrite IHPermutation.
  - destruct (f x), (f y); reflexivity.
  - congruence.
Qed.

Lemma count_ids : forall (l : list nat) n (P : nat -> bool), NoDup l -> (forall x, In x l <-> (x < n)%nat /\ P x = true) ->
  length l = length (filter P (seq 0 n)).
Proof.
  intros l n P ND H. apply Permutation_length. apply NoDup_Permutation; [exact ND|apply NoDup_filter, seq_NoDup|].
  intros x. rewrite H, filter_In, in_seq. split; intros [A B]; split; auto; lia.
Qed.

Lemma filter_seq_list : forall {A} (q : A -> bool) (rs : list A),
  length (filter (fun i => match nth_error rs i with Some r => q r | None => false end) (seq 0 (length rs))) = length (filter q rs).
Proof.
  intros A q rs. induction rs as [|r rs IH] using rev_ind; [reflexivity|].
  rewrite app_length. cbn [length]. rewrite Nat.add_1_r, seq_S, !filter_app, !app_length. cbn [Nat.add filter].
  rewrite nth_error_app2 by lia. rewrite Nat.sub_diag. cbn [nth_error]. f_equal.
  - rewrite <- IH. f_equal. apply filter_ext_in. intros i Hi. apply in_seq in Hi. rewrite nth_error_app1 by lia. reflexivity.
  - destruct (q r); reflexivity.
Qed.

Lemma filter_map_length : forall {A B} (f : A -> B) (q : B -> bool) l, length (filter (fun x => q (f x)) l) = length (filter q (map f l)).
Proof. intros. induction l; cbn; [reflexivity|]. destruct (q (f a)); cbn; now rewrite IHl. Qed.

Definition unbound (lbls : list (option (nat * Z))) (l : nat) : bool :=
  match nth_error lbls l with Some (Some _) => false | _ => true end.

(* the final relocation entry of an absolute reference: payload and target section follow from the final label table *)
Definition rel_final (lbls : list (option (nat * Z))) (rg : rghost) : reloc :=
  match rg_base rg with
  | Some b =>
  {| rl_type := Expr (rg_label rg) b; rl_sec := rg_sec rg; rl_off := rg_off rg; rl_lead := rg_lead rg; rl_size := rg_size rg; rl_trail := rg_trail rg;
     rl_payload := 0; rl_target := None; rl_label := rg_label rg; rl_addend := rg_addend rg |}
  | None =>
  {| rl_type := RelToAbs; rl_sec := rg_sec rg; rl_off := rg_off rg; rl_lead := rg_lead rg; rl_size := rg_size rg; rl_trail := rg_trail rg;
     rl_payload := match nth_error lbls (rg_label rg) with Some (Some (_, lo)) => wrap 64 (rg_addend rg + lo) | _ => wrap 64 (rg_addend rg) end;
     rl_target := match nth_error lbls (rg_label rg) with Some (Some (ls, _)) => Some ls | _ => None end;
     rl_label := rg_label rg; rl_addend := rg_addend rg |}
  end.

(* a relocation entry that still waits for its label: absolute references only (an expression entry is evaluated when relocating) *)
Definition rel_waits (lbls : list (option (nat * Z))) (rg : rghost) : bool :=
  match rg_base rg with None => unbound lbls (rg_label rg) | Some _ => false end.

Record final (nl ns : nat) (t : list top) (offs : list Z) (s : state) : Prop := {
  f_nl : length (labels s) = nl;
  f_bound : forall l k off, nth_error (labels s) l = Some (Some (k, off)) <-> ((k < S ns)%nat /\ assoc l (l_binds (lfold nl k (proj k t))) = Some off);
  f_len : forall k, (k < S ns)%nat -> s_len (nsec s k) = l_len (lfold nl k (proj k t));
  f_img : forall k, (k < S ns)%nat -> sec_image (refs s) (s_items (nsec s k)) = gimage (labels s) offs (l_items (lfold nl k (proj k t)));
  f_unres : unresolved s = Z.of_nat (length (filter (unresolvable (labels s) offs) (allghosts nl ns t)))     (* CodeHolder::unresolved_fixup_count() *)
                         + Z.of_nat (length (filter (rel_waits (labels s)) (allrels nl ns t)));
  f_rel : Permutation (relocs s) (map (rel_final (labels s)) (allrels nl ns t))      (* the relocation entries, up to creation order *)
}.

(* the assembled result as a function of the per-section operation sequences *)
Theorem final_char : forall nl ns t offs, tags_ok ns t -> NoDup (bound_labels t) -> delta_local nl ns t -> nowrap nl ns t offs ->
  final nl ns t offs (run init ((prelude nl ns ++ expand t) ++ [OResolve offs])).
Proof.
  intros nl ns t offs HT HN HD HW.
  destruct (J_run nl ns t HT HN HD) as [HJ HI]. pose proof (no_resolve_ops nl ns t) as HNR.
  set (ops := prelude nl ns ++ expand t) in *. set (sF := run init ops) in *.
  pose proof HJ as [A B C D E F G H PM NR].
  assert (RUN : run init (ops ++ [OResolve offs]) = fst (step sF (OResolve offs))) by (rewrite run_app; reflexivity).
  set (W := resolve_list (resolve_sel (labels sF) offs) false (pending sF) (refs sF)).
  assert (S1 : fst (step sF (OResolve offs)) = set_fix sF (w_refs W) (w_kept W) (unresolved sF - w_n W)) by reflexivity.
  assert (WP : walk_post (labels sF) (resolve_sel (labels sF) offs) (pending sF) (refs sF) W).
  { apply walk_inv; [apply resolve_sel_sound|apply (inv_nodup _ _ _ _ _ HI)|apply (inv_fx _ _ _ _ _ HI)]. }
  assert (GH : forall id r, nth_error (refs sF) id = Some r -> exists r', nth_error (w_refs W) id = Some r' /\ ghost_of r' = ghost_of r)
    by (intros; apply resolve_list_ghost; assumption).
  (* the word of every reference *)
  assert (STATUS : forall id r, nth_error (w_refs W) id = Some r ->
            (In id (ids (w_kept W)) -> wres (labels sF) offs (ghost_of r) = None /\ r_word r = r_w0 r) /\
            (~ In id (ids (w_kept W)) -> wres (labels sF) offs (ghost_of r) = Some (r_word r))).
  { intros id r Hr.
    assert (I1 : inv (fst (step sF (OResolve offs)))) by (apply step_inv; exact HI).
    split; intros HP.
    - (* still pending *)
      apply in_map_iff in HP. destruct HP as (fx & Hid & Hin).
      destruct (wp_fx _ _ _ _ _ WP fx Hin) as (r1 & Hr1 & Hsec & Hsite & Hrel & Hkind & Hlab & Hw0).
      rewrite Hid, Hr in Hr1. injection Hr1 as <-.
      split; [|exact Hw0]. unfold wres. cbn [ghost_of g_label g_kind g_w0].
      destruct (kept_reason _ _ _ _ fx (inv_nodup _ _ _ _ _ HI) (inv_fx _ _ _ _ _ HI) Hin) as [X|[X|(lay & lo & r0 & X1 & X2 & X3)]].
      + unfold resolve_sel in X. rewrite <- Hlab in X.
        destruct (nth_error (labels sF) (r_label r)) as [[[ls lo]|]|]; try reflexivity.
        destruct (_ || _); discriminate.
      + (* overflow is excluded by the hypothesis *) exfalso. unfold resolve_sel in X. rewrite <- Hlab in X.
        destruct (nth_error (labels sF) (r_label r)) as [[[ls lo]|]|] eqn:EL; try discriminate.
        destruct ((2 ^ 64 <=? nth ls offs 0 + lo) || (2 ^ 64 <=? nth (fx_sec fx) offs 0 + fx_off fx)) eqn:EO; [|discriminate].
        apply G in EL. destruct EL as [Hls EA]. destruct (HW ls Hls) as [_ W2]. specialize (W2 _ _ EA).
        destruct (wp_ghost _ _ _ _ _ WP id r Hr) as (rF & HrF & (Gs & Gsite & _)).
        destruct (H id rF HrF) as [HsF HinF]. destruct (HW (r_sec rF) HsF) as [W1 _]. specialize (W1 _ HinF). cbn in W1.
        rewrite <- Gs, <- Gsite, Hsec, Hsite in W1.
        apply orb_true_iff in EO. destruct EO as [EO|EO]; apply Z.leb_le in EO; lia.
      + unfold resolve_sel in X1. rewrite <- Hlab in X1.
        destruct (nth_error (labels sF) (r_label r)) as [[[ls lo']|]|] eqn:EL; try discriminate.
        destruct (_ || _); [discriminate|]. injection X1 as <- <-.
        destruct (GH _ _ X2) as (r' & Hr' & HG). rewrite Hid, Hr in Hr'. injection Hr' as <-.
        destruct (inv_fx _ _ _ _ _ HI fx (wp_sub _ _ _ _ _ WP fx Hin)) as (r0' & Hr0' & _ & _ & _ & _ & _ & Hw00).
        rewrite X2 in Hr0'. injection Hr0' as <-.
        assert (EQW : r_w0 r = r_w0 r0) by (change (g_w0 (ghost_of r) = g_w0 (ghost_of r0)); now rewrite HG).
        assert (EQ : fdisp offs ls lo' (ghost_of r) = disp (nth (fx_sec fx) offs 0) (nth ls offs 0) lo' (fx_off fx) (fx_rel fx)).
        { unfold fdisp, disp. cbn [ghost_of g_sec g_site g_rel]. rewrite Hsec, Hsite, Hrel. reflexivity. }
        rewrite EQ, Hkind, EQW. rewrite <- Hw00. cbn [lay_so lay_to] in X3. exact X3.
    - (* resolved *)
      assert (Hr2 : nth_error (refs (run init (ops ++ [OResolve offs]))) id = Some r) by (rewrite RUN, S1; exact Hr).
      assert (HP2 : ~ In id (ids (pending (run init (ops ++ [OResolve offs]))))) by (rewrite RUN, S1; exact HP).
      destruct (resolved_final_enc ops offs id r HNR Hr2 HP2) as (ls & lo & m & Hl & He & Hw & _).
      rewrite RUN, S1 in Hl. cbn [labels set_fix] in Hl.
      unfold wres. cbn [ghost_of g_label g_kind g_w0]. rewrite Hl.
      change (fdisp offs ls lo (ghost_of r)) with (final_disp offs ls lo r).
      unfold write_offset. rewrite He. f_equal. symmetry. exact Hw. }
  assert (WORD : forall id r, nth_error (w_refs W) id = Some r -> r_word r = wfin (labels sF) offs (ghost_of r)).
  { intros id r Hr. destruct (STATUS id r Hr) as [S1' S2']. rewrite wfin_wres.
    destruct (in_dec Nat.eq_dec id (ids (w_kept W))) as [HP|HP].
    - destruct (S1' HP) as [X Y]. rewrite X. exact Y.
    - rewrite (S2' HP). reflexivity. }
  rewrite RUN, S1.
  assert (QN : forall j, nsec (set_fix sF (w_refs W) (w_kept W) (unresolved sF - w_n W)) j = nsec sF j) by reflexivity.
  constructor; cbn [labels set_fix refs unresolved]; try assumption.
  - intros k Hk. rewrite QN.
    destruct (gi_same (refs sF) (w_refs W) (s_items (nsec sF k)) (F k Hk) GH) as [Q1 Q2].
    rewrite (sec_image_gimage (labels sF) offs (w_refs W)); [|eapply item_ok_mono; [exact Q2|apply F; exact Hk]|exact WORD].
    rewrite Q1, E by exact Hk. reflexivity.
  - (* the unresolved count = the number of references that cannot be resolved *)
    assert (I1 : inv (fst (step sF (OResolve offs)))) by (apply step_inv; exact HI).
    pose proof (inv_count _ _ _ _ _ I1) as HC. rewrite S1 in HC. cbn [unresolved pending pending_rel set_fix] in HC.
    destruct NR as [NR1 NR2]. rewrite HC. unfold zlen. f_equal; f_equal.
    2:{ (* relocation-linked fixups = absolute references whose label is still unbound *)
      pose proof (run_absinv ops init absinv_init) as AI. fold sF in AI. destruct AI as [AN AL AA].
      rewrite <- (map_length snd (pending_rel sF)).
      rewrite (count_ids (map snd (pending_rel sF)) (length (relocs sF))
                 (fun i => match nth_error (relocs sF) i with Some re => rel_waits (labels sF) (rghost_of re) | None => false end)).
      - rewrite (filter_seq_list (fun re => rel_waits (labels sF) (rghost_of re)) (relocs sF)).
        rewrite (filter_map_length rghost_of (rel_waits (labels sF))). apply perm_filter_length. exact NR1.
      - exact AN.
      - intros rid. split.
        + intros HP. apply in_map_iff in HP. destruct HP as ([l0 rid0] & Hs & Hp). cbn in Hs. subst rid0.
          destruct (AL _ Hp) as (re & Hre & Hty & Hlab & _ & _ & Hun). cbn [fst snd] in *.
          split; [apply nth_error_Some; congruence|]. rewrite Hre. unfold rel_waits, rghost_of, unbound. cbn [rg_base rg_label]. rewrite Hty, Hlab, Hun. reflexivity.
        + intros [Hlt HPt]. destruct (nth_error (relocs sF) rid) as [re|] eqn:Er; [|discriminate].
          unfold rel_waits, rghost_of in HPt. cbn [rg_base rg_label] in HPt.
          destruct (rl_type re) eqn:HA; [|discriminate].
          destruct (AA rid re Er HA) as [X|(ls & lo & X & _)].
          * apply in_map_iff. exists (rl_label re, rid). split; [reflexivity|exact X].
          * unfold unbound in HPt. rewrite X in HPt. discriminate. }
    rewrite <- (map_length fx_id (w_kept W)). fold (ids (w_kept W)).
    rewrite (count_ids (ids (w_kept W)) (length (w_refs W))
               (fun i => match nth_error (w_refs W) i with Some r => unresolvable (labels sF) offs (ghost_of r) | None => false end)).
    + rewrite (filter_seq_list (fun r => unresolvable (labels sF) offs (ghost_of r)) (w_refs W)).
      rewrite (filter_map_length ghost_of (unresolvable (labels sF) offs)).
      apply perm_filter_length. unfold W. rewrite resolve_list_ghost_map. exact PM.
    + apply (wp_nodup _ _ _ _ _ WP).
    + intros id. split.
      * intros HP. pose proof HP as HP'. apply in_map_iff in HP'. destruct HP' as (fx & Hid & Hin).
        destruct (wp_fx _ _ _ _ _ WP fx Hin) as (r1 & Hr1 & _). rewrite Hid in Hr1. split; [apply nth_error_Some; congruence|].
        rewrite Hr1. destruct (STATUS id r1 Hr1) as [S1' _]. destruct (S1' HP) as [X _]. unfold unresolvable. now rewrite X.
      * intros [Hlt HPt]. destruct (nth_error (w_refs W) id) as [r|] eqn:Er; [|discriminate].
        destruct (in_dec Nat.eq_dec id (ids (w_kept W))) as [HP|HP]; [exact HP|].
        destruct (STATUS id r Er) as [_ S2']. unfold unresolvable in HPt. rewrite (S2' HP) in HPt. discriminate.
  - (* relocation entries *)
    destruct NR as [NR1 NR2]. pose proof (run_absinv ops init absinv_init) as AI. fold sF in AI. destruct AI as [AN AL AA].
    assert (EQ : map (rel_final (labels sF)) (map rghost_of (relocs sF)) = relocs sF).
    { rewrite map_map. rewrite <- (map_id (relocs sF)) at 2. apply map_ext_in. intros re Hin.
      destruct (In_nth_error _ _ Hin) as (rid & Er).
      assert (WT : rel_wt re) by (eapply Forall_forall; [exact NR2|exact Hin]).
      destruct (rl_type re) as [|el eb] eqn:HA.
      2:{ destruct (WT el eb HA) as (W1 & W2 & W3). destruct re; cbn in *. unfold rel_final, rghost_of. cbn. rewrite HA. cbn. rewrite W1, W2, W3. reflexivity. }
      destruct (AA rid re Er HA) as [X|(ls & lo & X & Y & Z0)].
      - destruct (AL _ X) as (re' & Hre' & _ & _ & Hpay & Htar & Hun). cbn [fst snd] in *. rewrite Er in Hre'. injection Hre' as <-.
        destruct re; cbn in *. unfold rel_final, rghost_of. cbn. rewrite Hun, HA, Hpay, Htar. reflexivity.
      - destruct re; cbn in *. unfold rel_final, rghost_of. cbn. rewrite X, HA, Y, Z0. reflexivity. }
    change (Permutation (relocs sF) (map (rel_final (labels sF)) (allrels nl ns t))).
    rewrite <- EQ. apply Permutation_map. exact NR1.
Qed.

(* ------------------------------------------------------------------ ORDER IRRELEVANCE *)
Lemma list_eq_nth_error : forall {A} (a b : list A), (forall i, nth_error a i = nth_error b i) -> a = b.
Proof.
  induction a as [|x a IH]; intros [|y b] H; try reflexivity; try (specialize (H O); discriminate).
  pose proof (H O) as H0. cbn in H0. injection H0 as <-. f_equal. apply IH. intros i. apply (H (S i)).
Qed.

Lemma final_labels_eq : forall nl ns t1 t2 offs s1 s2, (forall k, proj k t1 = proj k t2) ->
  final nl ns t1 offs s1 -> final nl ns t2 offs s2 -> labels s1 = labels s2.
Proof.
  intros nl ns t1 t2 offs s1 s2 HP [A1 B1 _ _ _ _] [A2 B2 _ _ _ _]. apply list_eq_nth_error. intros l.
  destruct (nth_error (labels s1) l) as [v1|] eqn:E1; destruct (nth_error (labels s2) l) as [v2|] eqn:E2.
  - destruct v1 as [[k off]|]; destruct v2 as [[k2 off2]|]; try reflexivity.
    + apply B1 in E1. rewrite HP in E1. apply B2 in E1. congruence.
    + apply B1 in E1. rewrite HP in E1. apply B2 in E1. congruence.
    + apply B2 in E2. rewrite <- HP in E2. apply B1 in E2. congruence.
  - apply nth_error_None in E2. assert (l < length (labels s1))%nat by (apply nth_error_Some; congruence). lia.
  - apply nth_error_None in E1. assert (l < length (labels s2))%nat by (apply nth_error_Some; congruence). lia.
  - reflexivity.
Qed.

(* Two programs whose per-section operation sequences coincide - however the sections interleave - assemble to the same label table,
   the same section sizes and, after layout at ANY section offsets and cross-section resolution, the same bytes in every section. *)
Theorem order_irrelevant : forall nl ns t1 t2 offs,
  (forall k, proj k t1 = proj k t2) ->
  tags_ok ns t1 -> tags_ok ns t2 -> NoDup (bound_labels t1) -> NoDup (bound_labels t2) ->
  delta_local nl ns t1 -> delta_local nl ns t2 -> nowrap nl ns t1 offs ->
  let s1 := run init ((prelude nl ns ++ expand t1) ++ [OResolve offs]) in
  let s2 := run init ((prelude nl ns ++ expand t2) ++ [OResolve offs]) in
  labels s1 = labels s2 /\ unresolved s1 = unresolved s2 /\ Permutation (relocs s1) (relocs s2) /\
  forall k, (k < S ns)%nat ->
    s_len (nsec s1 k) = s_len (nsec s2 k) /\
    sec_image (refs s1) (s_items (nsec s1 k)) = sec_image (refs s2) (s_items (nsec s2 k)).
Proof.
  intros nl ns t1 t2 offs HP T1 T2 N1 N2 D1 D2 HW s1 s2.
  assert (HW2 : nowrap nl ns t2 offs) by (intros k Hk; rewrite <- HP; apply HW; exact Hk).
  pose proof (final_char nl ns t1 offs T1 N1 D1 HW) as F1. pose proof (final_char nl ns t2 offs T2 N2 D2 HW2) as F2.
  fold s1 in F1. fold s2 in F2.
  pose proof (final_labels_eq nl ns t1 t2 offs s1 s2 HP F1 F2) as HL. split; [exact HL|].
  destruct F1 as [_ _ L1 I1 U1 R1]. destruct F2 as [_ _ L2 I2 U2 R2].
  assert (EG : allghosts nl ns t1 = allghosts nl ns t2) by (unfold allghosts; apply flat_map_seq_ext; intros j _; now rewrite HP).
  assert (ER : allrels nl ns t1 = allrels nl ns t2) by (unfold allrels; apply flat_map_seq_ext; intros j _; now rewrite HP).
  split. { rewrite U1, U2, HL, EG, ER. reflexivity. }
  split. { rewrite R1, R2, HL, ER. reflexivity. }
  intros k Hk. split.
  - rewrite L1, L2 by exact Hk. now rewrite HP.
  - rewrite I1, I2 by exact Hk. now rewrite HP, HL.
Qed.

(* ------------------------------------------------------------------ "bound once" is itself order independent *)

Definition block (k : nat) (t : list top) : list top := filter (fun x : top => Nat.eqb (fst x) k) t.

Lemma block_proj : forall k t, block k t = map (pair k) (proj k t).
Proof.
  intros k t. unfold block, proj. induction t as [|[j o] t IH]; [reflexivity|]. cbn. destruct (Nat.eqb j k) eqn:E; [|exact IH].
  apply Nat.eqb_eq in E. subst. cbn. now rewrite IH.
Qed.

Lemma block_cons : forall k x t, block k (x :: t) = if Nat.eqb (fst x) k then x :: block k t else block k t.
Proof. reflexivity. Qed.

Lemma blocks_cons_out : forall x t n a, (fst x < a \/ a + n <= fst x)%nat ->
  flat_map (fun k => block k (x :: t)) (seq a n) = flat_map (fun k => block k t) (seq a n).
Proof.
  intros x t. induction n as [|n IH]; intros a H; [reflexivity|]. cbn [seq flat_map]. rewrite block_cons.
  assert (Nat.eqb (fst x) a = false) as -> by (apply Nat.eqb_neq; lia). f_equal. apply IH. lia.
Qed.

Lemma blocks_cons_in : forall x t n a, (a <= fst x < a + n)%nat ->
  Permutation (flat_map (fun k => block k (x :: t)) (seq a n)) (x :: flat_map (fun k => block k t) (seq a n)).
Proof.
  intros x t. induction n as [|n IH]; intros a H; [lia|]. cbn [seq flat_map]. rewrite block_cons.
  destruct (Nat.eqb (fst x) a) eqn:E.
  - apply Nat.eqb_eq in E. rewrite blocks_cons_out by lia. reflexivity.
  - apply Nat.eqb_neq in E. rewrite (IH (S a)) by lia. symmetry. apply Permutation_middle.
Qed.

Lemma blocks_perm : forall n t, Forall (fun x : top => (fst x < n)%nat) t -> Permutation t (flat_map (fun k => block k t) (seq 0 n)).
Proof.
  intros n t H. induction H as [|x t Hx Ht IH].
  - induction (seq 0 n); [constructor|exact IHl].
  - rewrite blocks_cons_in by lia. constructor. exact IH.
Qed.

Lemma same_proj_perm : forall ns t1 t2, (forall k, proj k t1 = proj k t2) -> tags_ok ns t1 -> tags_ok ns t2 -> Permutation t1 t2.
Proof.
  intros ns t1 t2 HP T1 T2. rewrite (blocks_perm (S ns) t1 T1), (blocks_perm (S ns) t2 T2).
  assert (E : forall k, block k t1 = block k t2) by (intros; rewrite !block_proj, HP; reflexivity).
  induction (seq 0 (S ns)); cbn; [constructor|]. rewrite E. apply Permutation_app_head. exact IHl.
Qed.

Lemma bound_once_transfers : forall ns t1 t2, (forall k, proj k t1 = proj k t2) -> tags_ok ns t1 -> tags_ok ns t2 ->
  NoDup (bound_labels t1) -> NoDup (bound_labels t2).
Proof.
  intros ns t1 t2 HP T1 T2 H. eapply Permutation_NoDup; [|exact H]. unfold bound_labels.
  apply Permutation_flat_map. eapply same_proj_perm; eassumption.
Qed.

(* ------------------------------------------------------------------ the side condition for deltas in order-independent form *)
Lemma proj_app : forall k a b, proj k (a ++ b) = proj k a ++ proj k b.
Proof. intros. unfold proj. now rewrite filter_app, map_app. Qed.

(* a label bound by a prefix of a section's operations stays bound at the same offset *)
Lemma binds_mono : forall nl k os os' l off, assoc l (l_binds (lfold nl k os)) = Some off -> assoc l (l_binds (lfold nl k (os ++ os'))) = Some off.
Proof.
  intros nl k os os'. induction os' as [|o os' IH] using rev_ind; intros l off H; [now rewrite app_nil_r|].
  rewrite app_assoc, lfold_snoc. specialize (IH l off H).
  destruct (l_binds_lstep nl k (lfold nl k (os ++ os')) o) as [E|(l' & _ & EN & E)]; rewrite E; [exact IH|].
  cbn [assoc]. destruct (Nat.eqb l' l) eqn:EQ; [|exact IH]. apply Nat.eqb_eq in EQ. subst. congruence.
Qed.

(* in terms of the FINAL label table: no delta takes both its labels from one section other than its own *)
Definition delta_local_final (nl ns : nat) (t : list top) : Prop :=
  forall k l b sz, In (k, SDelta l b sz) t -> forall k' lo bo, (k' < S ns)%nat ->
    assoc l (l_binds (lfold nl k' (proj k' t))) = Some lo -> assoc b (l_binds (lfold nl k' (proj k' t))) = Some bo -> k' = k.

Lemma delta_local_of_final : forall nl ns t, delta_local_final nl ns t -> delta_local nl ns t.
Proof.
  intros nl ns t H t1 t2 k l b sz E k' lo bo Hk A1 A2. subst t.
  assert (HIN : In (k, SDelta l b sz) (t1 ++ (k, SDelta l b sz) :: t2)) by (apply in_or_app; right; now left).
  apply (H k l b sz HIN k' lo bo Hk); rewrite proj_app; apply binds_mono; assumption.
Qed.

Lemma delta_local_final_transfers : forall nl ns t1 t2, (forall k, proj k t1 = proj k t2) -> tags_ok ns t1 -> tags_ok ns t2 ->
  delta_local_final nl ns t1 -> delta_local_final nl ns t2.
Proof.
  intros nl ns t1 t2 HP T1 T2 H k l b sz Hin k' lo bo Hk A1 A2. rewrite <- HP in A1, A2.
  apply (H k l b sz) with (lo := lo) (bo := bo); try assumption. eapply Permutation_in; [apply Permutation_sym; eapply same_proj_perm; eassumption|exact Hin].
Qed.

(* order irrelevance with the hypotheses stated once *)
Corollary order_irrelevant' : forall nl ns t1 t2 offs,
  (forall k, proj k t1 = proj k t2) -> tags_ok ns t1 -> tags_ok ns t2 -> NoDup (bound_labels t1) -> delta_local_final nl ns t1 -> nowrap nl ns t1 offs ->
  let s1 := run init ((prelude nl ns ++ expand t1) ++ [OResolve offs]) in
  let s2 := run init ((prelude nl ns ++ expand t2) ++ [OResolve offs]) in
  labels s1 = labels s2 /\ unresolved s1 = unresolved s2 /\ Permutation (relocs s1) (relocs s2) /\
  forall k, (k < S ns)%nat ->
    s_len (nsec s1 k) = s_len (nsec s2 k) /\
    sec_image (refs s1) (s_items (nsec s1 k)) = sec_image (refs s2) (s_items (nsec s2 k)).
Proof.
  intros nl ns t1 t2 offs HP T1 T2 N1 D1 HW. apply order_irrelevant; try assumption.
  - eapply bound_once_transfers; eassumption.
  - apply delta_local_of_final. exact D1.
  - apply delta_local_of_final. eapply delta_local_final_transfers; eassumption.
Qed.

(* ------------------------------------------------------------------ the layout + resolution step itself reports no error (whatever the order) *)
Lemma walk_err_serr : forall sel fxs rs, w_err (resolve_list sel false fxs rs) = true -> exists fx, In fx fxs /\ sel fx = SErr.
Proof.
  induction fxs as [|a t IH]; intros rs H; cbn [resolve_list] in H; [discriminate|].
  destruct (sel a) eqn:ES; cbn [walk_keep w_err] in H.
  - cbn in H. destruct (IH _ H) as (fx & A & B). exists fx. split; [now right|exact B].
  - exists a. split; [now left|exact ES].
  - destruct (nth_error rs (fx_id a)); cbn [walk_keep w_err] in H; [|cbn in H; destruct (IH _ H) as (fx & A & B); exists fx; split; [now right|exact B]].
    destruct (write_offset _ _ _); cbn [walk_keep walk_done w_err] in H; [|cbn in H]; destruct (IH _ H) as (fx & A & B); exists fx; (split; [now right|exact B]).
Qed.

Theorem resolve_ok : forall nl ns t offs, tags_ok ns t -> NoDup (bound_labels t) -> delta_local nl ns t -> nowrap nl ns t offs ->
  snd (step (run init (prelude nl ns ++ expand t)) (OResolve offs)) = EOk.
Proof.
  intros nl ns t offs HT HN HD HW. destruct (J_run nl ns t HT HN HD) as [HJ HI].
  set (sF := run init (prelude nl ns ++ expand t)) in *. pose proof HJ as [A B C D E F G H PM NR].
  cbn [step snd]. destruct (w_err (resolve_list (resolve_sel (labels sF) offs) false (pending sF) (refs sF))) eqn:EW; [|reflexivity].
  exfalso. destruct (walk_err_serr _ _ _ EW) as (fx & Hin & X).
  destruct (inv_fx _ _ _ _ _ HI fx Hin) as (r & Hr & Hsec & Hsite & _).
  unfold resolve_sel in X.
  destruct (nth_error (labels sF) (fx_label fx)) as [[[ls lo]|]|] eqn:EL; try discriminate.
  destruct ((2 ^ 64 <=? nth ls offs 0 + lo) || (2 ^ 64 <=? nth (fx_sec fx) offs 0 + fx_off fx)) eqn:EO; [|discriminate].
  apply G in EL. destruct EL as [Hls EA]. destruct (HW ls Hls) as [_ W2]. specialize (W2 _ _ EA).
  destruct (H _ r Hr) as [Hs Hg]. destruct (HW (r_sec r) Hs) as [W1 _]. specialize (W1 _ Hg). cbn in W1. rewrite Hsec, Hsite in W1.
  apply orb_true_iff in EO. destruct EO as [EO|EO]; apply Z.leb_le in EO; lia.
Qed.

(* ================================================================== error codes of the assembling phase
   The error code every operation returns is a function of its own section's history - hence the same in every interleaving. *)
Definition lerr (nl k : nat) (st : lst) (o : sop) : err :=
  match o with
  | SRaw _ => EOk
  | SGap n => if 0 <=? n then EOk else EBadInput
  | SRef kd rel l pre w0 post =>
      if negb (Nat.ltb l nl) then EInvalidLabel else
      if negb (hole_ok kd w0) then EBadInput else
      match assoc l (l_binds st) with
      | Some lo => match write_offset (fmt_of_kind kd) w0 (disp 0 0 lo (l_len st + zlen pre) rel) with Some _ => EOk | None => EInvalidDisp end
      | None => EOk
      end
  | SBind l => if Nat.ltb l nl then match assoc l (l_binds st) with
                                    | Some _ => EAlreadyBound
                                    | None => if lprecheck l (l_len st) (l_items st) then EOk else EInvalidDisp
                                    end else EInvalidLabel
  | SAbs l size addend pre post => if negb (Nat.ltb l nl) then EInvalidLabel else if negb (size_ok size) then EInvalidSize else EOk
  | SDelta l b size =>
      if negb (Nat.ltb l nl && Nat.ltb b nl) then EInvalidLabel else if negb (size_ok size) then EInvalidSize else
      match assoc l (l_binds st), assoc b (l_binds st) with
      | Some lo, Some bo => if delta_fits size (lo - bo) then EOk else EInvalidDisp
      | _, _ => EOk
      end
  end.

Lemma precheck_no_err : forall l sec off fxs rs, NoDup (ids fxs) -> (forall fx, In fx fxs -> fx_ok rs fx) ->
  bind_precheck l sec off fxs rs = true -> w_err (resolve_list (bind_sel l sec off) true fxs rs) = false.
Proof.
  induction fxs as [|a t IH]; intros rs ND OK HP; [reflexivity|]. cbn [ids map] in ND. inversion ND; subst.
  unfold bind_precheck in HP. cbn [forallb] in HP. apply andb_prop in HP. destruct HP as [HA HT]. fold (bind_precheck l sec off t rs) in HT.
  assert (OKt : forall fx0, In fx0 t -> fx_ok rs fx0) by (intros; apply OK; now right).
  cbn [resolve_list]. destruct (bind_sel l sec off a) as [| |lay lo] eqn:ES; cbn [walk_keep w_err].
  - cbn. apply IH; assumption.
  - unfold bind_sel in ES. destruct (Nat.eqb (fx_label a) l); [destruct (Nat.eqb (fx_sec a) sec)|]; discriminate.
  - destruct (nth_error rs (fx_id a)) as [r|] eqn:ER; cbn [walk_keep w_err]; [|cbn; apply IH; assumption].
    destruct (write_offset (fmt_of_kind (fx_kind a)) (r_word r) (disp (lay_so lay) (lay_to lay) lo (fx_off a) (fx_rel a))) as [w|] eqn:EW; [|discriminate HA].
    cbn [walk_done w_err]. apply IH; [assumption| |].
    + intros fx0 H0. apply (fx_ok_same rs); [|apply OKt; exact H0]. apply nth_error_upd_neq. intro EQ. apply H1. rewrite EQ. apply in_map. exact H0.
    + unfold bind_precheck in *. rewrite forallb_forall in *. intros fx0 H0. specialize (HT fx0 H0).
      destruct (bind_sel l sec off fx0); try exact HT. rewrite nth_error_upd_neq; [exact HT|]. intro EQ. apply H1. rewrite EQ. apply in_map. exact H0.
Qed.

Lemma E_step : forall nl ns t s k o, J nl ns t s -> inv s -> (k < S ns)%nat -> NoDup (bound_labels (t ++ [(k, o)])) -> delta_local_at s k o ->
  snd (step (set_cur s k) (op_of o)) = lerr nl k (lfold nl k (proj k t)) o.
Proof.
  intros nl ns t s k o HJ HI Hk HN DL. pose proof HJ as [A B C D E F G H PM NR].
  set (s1 := set_cur s k). assert (CS : cur_sec s1 = nsec s k) by reflexivity.
  assert (LL : forall l, nth_error (labels s) l = None <-> Nat.ltb l nl = false).
  { intros l. rewrite nth_error_None, Nat.ltb_ge. lia. }
  destruct o as [bs|n|kd rel l pre w0 post|l|l size addend pre post|l b size]; cbn [op_of step lerr].
  - reflexivity.
  - destruct (0 <=? n); reflexivity.
  - change (labels s1) with (labels s). destruct (nth_error (labels s) l) as [lb|] eqn:EL.
    2:{ apply LL in EL. rewrite EL. reflexivity. }
    assert (LT : Nat.ltb l nl = true). { destruct (Nat.ltb l nl) eqn:X; [reflexivity|]. apply LL in X. congruence. }
    rewrite LT. cbn [negb]. destruct (negb (hole_ok kd w0)); [reflexivity|].
    destruct lb as [[ls lo]|].
    + destruct (Nat.eqb ls (cur s1)) eqn:ES.
      * apply Nat.eqb_eq in ES. change (cur s1) with k in ES. subst ls.
        assert (AS : assoc l (l_binds (lfold nl k (proj k t))) = Some lo) by (apply G; exact EL). rewrite AS.
        rewrite CS, D by exact Hk. destruct (write_offset _ _ _); reflexivity.
      * apply Nat.eqb_neq in ES. change (cur s1) with k in ES.
        destruct (assoc l (l_binds (lfold nl k (proj k t)))) as [off|] eqn:EA; [|reflexivity].
        assert (X : nth_error (labels s) l = Some (Some (k, off))) by (apply G; auto). congruence.
    + destruct (assoc l (l_binds (lfold nl k (proj k t)))) as [off|] eqn:EA; [|reflexivity].
      assert (X : nth_error (labels s) l = Some (Some (k, off))) by (apply G; auto). congruence.
  - change (labels s1) with (labels s). destruct (nth_error (labels s) l) as [[[k' off']|]|] eqn:EL.
    + exfalso. assert (X : (k' < S ns)%nat /\ assoc l (l_binds (lfold nl k' (proj k' t))) = Some off') by (apply G; exact EL).
      destruct X as [_ X]. apply assoc_lfold_bind, proj_bind_bound in X.
      rewrite bound_labels_snoc in HN. cbn in HN. apply NoDup_remove_2 in HN. apply HN. rewrite app_nil_r. exact X.
    + assert (LT : Nat.ltb l nl = true). { destruct (Nat.ltb l nl) eqn:X; [reflexivity|]. apply LL in X. congruence. }
      rewrite LT.
      assert (ASk : assoc l (l_binds (lfold nl k (proj k t))) = None).
      { destruct (assoc l (l_binds (lfold nl k (proj k t)))) as [z|] eqn:EA; [|reflexivity].
        assert (Y : nth_error (labels s) l = Some (Some (k, z))) by (apply G; auto). congruence. }
      rewrite ASk.
      pose proof (precheck_local nl ns t s k l HJ HI Hk EL) as PL.
      change (bind_precheck l (cur s1) (s_len (cur_sec s1)) (pending s1) (refs s1)) with (bind_precheck l k (s_len (nsec s k)) (pending s) (refs s)).
      destruct (lprecheck l (l_len (lfold nl k (proj k t))) (l_items (lfold nl k (proj k t)))) eqn:EP; rewrite PL; cbn [negb]; [|reflexivity].
      assert (PRE : bind_precheck l (cur s1) (s_len (cur_sec s1)) (pending s1) (refs s1) = true) by exact PL.
      destruct (bind_rel l (cur s1) (s_len (cur_sec s1)) (pending_rel s1) (relocs s1)) as [[prk rl] nrel]. cbn [snd].
      rewrite (precheck_no_err l (cur s1) (s_len (cur_sec s1)) (pending s1) (refs s1) (inv_nodup _ _ _ _ _ HI) (inv_fx _ _ _ _ _ HI) PRE). reflexivity.
    + apply LL in EL. rewrite EL. reflexivity.
  - change (labels s1) with (labels s). destruct (nth_error (labels s) l) as [lb|] eqn:EL.
    2:{ apply LL in EL. rewrite EL. reflexivity. }
    assert (LT : Nat.ltb l nl = true). { destruct (Nat.ltb l nl) eqn:X; [reflexivity|]. apply LL in X. congruence. }
    rewrite LT. cbn [negb]. destruct (negb (size_ok size)); [reflexivity|]. destruct lb as [[? ?]|]; reflexivity.
  - change (labels s1) with (labels s). destruct (nth_error (labels s) l) as [ll|] eqn:EL.
    2:{ apply LL in EL. rewrite EL. reflexivity. }
    destruct (nth_error (labels s) b) as [lb|] eqn:EB.
    2:{ apply LL in EB. rewrite EB, andb_false_r. reflexivity. }
    assert (LT : Nat.ltb l nl = true). { destruct (Nat.ltb l nl) eqn:X; [reflexivity|]. apply LL in X. congruence. }
    assert (LTb : Nat.ltb b nl = true). { destruct (Nat.ltb b nl) eqn:X; [reflexivity|]. apply LL in X. congruence. }
    rewrite LT, LTb. cbn [negb andb]. destruct (negb (size_ok size)); [reflexivity|].
    rewrite (delta_decision nl ns t s k l b size ll lb HJ Hk DL EL EB).
    destruct (assoc l (l_binds (lfold nl k (proj k t)))) as [lo|]; [destruct (assoc b (l_binds (lfold nl k (proj k t)))) as [bo|]|]; try reflexivity.
    fold (delta_fits size (lo - bo)). destruct (delta_fits size (lo - bo)); reflexivity.
Qed.

Fixpoint run_errs (s : state) (t : list top) : list err :=
  match t with
  | [] => []
  | x :: r => let s1 := fst (step s (OSection (fst x))) in
              snd (step s1 (op_of (snd x))) :: run_errs (fst (step s1 (op_of (snd x)))) r
  end.

Fixpoint lerrs (nl k : nat) (st : lst) (os : list sop) : list err :=
  match os with [] => [] | o :: r => lerr nl k st o :: lerrs nl k (lstep nl k st o) r end.

(* the error codes returned by the operations of section k, in order *)
Definition err_proj (k : nat) (t : list top) (es : list err) : list err :=
  map snd (filter (fun xe : top * err => Nat.eqb (fst (fst xe)) k) (combine t es)).

Lemma run_errs_length : forall t s, length (run_errs s t) = length t.
Proof. induction t; intros; cbn; [reflexivity|]. now rewrite IHt. Qed.

Lemma run_errs_snoc : forall t s x, run_errs s (t ++ [x]) =
  run_errs s t ++ [snd (step (fst (step (run s (expand t)) (OSection (fst x)))) (op_of (snd x)))].
Proof.
  induction t as [|a t IH]; intros s x; [reflexivity|]. cbn [app run_errs]. rewrite IH. cbn [expand flat_map expand1 app run]. reflexivity.
Qed.

Lemma lerrs_snoc : forall nl k os st o, lerrs nl k st (os ++ [o]) = lerrs nl k st os ++ [lerr nl k (fold_left (lstep nl k) os st) o].
Proof. induction os; intros; cbn; [reflexivity|]. now rewrite IHos. Qed.

Lemma combine_snoc : forall {A B} (l : list A) (m : list B) x y, length l = length m -> combine (l ++ [x]) (m ++ [y]) = combine l m ++ [(x, y)].
Proof. induction l; intros [|b m] x y H; cbn in *; try discriminate; [reflexivity|]. f_equal. apply IHl. lia. Qed.

Theorem errors_char : forall nl ns t, tags_ok ns t -> NoDup (bound_labels t) -> delta_local nl ns t ->
  forall k, err_proj k t (run_errs (run init (prelude nl ns)) t) = lerrs nl k lst0 (proj k t).
Proof.
  intros nl ns t. induction t as [|x t IH] using rev_ind; intros HT HN HD k; [reflexivity|].
  apply Forall_app in HT. destruct HT as [HT Hx]. inversion Hx; subst.
  assert (HN' : NoDup (bound_labels t)) by (rewrite bound_labels_snoc in HN; eapply NoDup_app_l'; exact HN).
  destruct x as [kx o]. cbn [fst] in H1.
  pose proof (delta_local_snoc _ _ _ _ HD) as HD'.
  destruct (J_run nl ns t HT HN' HD') as [HJ HI].
  rewrite run_errs_snoc. unfold err_proj. rewrite combine_snoc by (now rewrite run_errs_length).
  rewrite filter_app, map_app. fold (err_proj k t (run_errs (run init (prelude nl ns)) t)). rewrite IH by assumption.
  rewrite proj_snoc. cbn [fst snd filter map]. destruct (Nat.eqb kx k) eqn:EQ.
  - apply Nat.eqb_eq in EQ. subst kx. rewrite lerrs_snoc. f_equal. cbn [map]. f_equal.
    rewrite <- run_app. rewrite step_section_ok by (rewrite (j_secs _ _ _ _ HJ); exact H1). cbn [fst].
    apply (E_step nl ns t); try assumption.
    destruct o; cbn; auto. intros ks lo bo E1 E2.
    apply (j_bound _ _ _ _ HJ) in E1. apply (j_bound _ _ _ _ HJ) in E2. destruct E1 as [K1 E1]. destruct E2 as [_ E2].
    exact (HD t [] k l b size eq_refl ks lo bo K1 E1 E2).
  - now rewrite !app_nil_r.
Qed.

(* ... hence the same in any interleaving *)
Corollary errors_order_irrelevant : forall nl ns t1 t2, (forall k, proj k t1 = proj k t2) ->
  tags_ok ns t1 -> tags_ok ns t2 -> NoDup (bound_labels t1) -> delta_local_final nl ns t1 ->
  forall k, err_proj k t1 (run_errs (run init (prelude nl ns)) t1) = err_proj k t2 (run_errs (run init (prelude nl ns)) t2).
Proof.
  intros nl ns t1 t2 HP T1 T2 N1 D1 k.
  assert (N2 : NoDup (bound_labels t2)) by (eapply bound_once_transfers; eassumption).
  assert (D2 : delta_local_final nl ns t2) by (eapply delta_local_final_transfers; eassumption).
  rewrite (errors_char nl ns t1 T1 N1 (delta_local_of_final _ _ _ D1)), (errors_char nl ns t2 T2 N2 (delta_local_of_final _ _ _ D2)). now rewrite HP.
Qed.

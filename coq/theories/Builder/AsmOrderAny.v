(* C08 - EVERY run of the label machine is characterized, also one whose label deltas take both labels from one section other than
   their own (the shape AsmOrder.delta_local excludes).  A delta's decision - difference at once / refused / relocation entry - is made
   when it is embedded; [res] rewrites a tagged program along its own run: a delta that took the immediate path becomes the raw bytes it
   wrote, a delta the immediate path refused becomes a refused operation, every other operation stays.  The rewritten program runs
   through exactly the same states, and ITS remaining deltas satisfy delta_local - so AsmOrder.final_char speaks about the run of any
   program, through the local folds of its resolved form. *)
From Coq Require Import ZArith List Bool Lia Arith Permutation.
From Verif Require Import Base.ZBits Codec.OffsetModel Labels.LabelsModel Labels.LabelsProofs Labels.LabelsExact Labels.LabelsAbs Builder.AsmOrder.
Import ListNotations.
Local Open Scope Z_scope.

Definition resolve_one (s : state) (o : sop) : sop :=
  match o with
  | SDelta l b sz =>
    match nth_error (labels s) l, nth_error (labels s) b with
    | Some ll, Some lb =>
        if negb (size_ok sz) then SGap (-1) else        (* refused with kInvalidArgument whatever the labels are *)
        match ll, lb with
        | Some (ls, lo), Some (bs, bo) =>
            if Nat.eqb ls bs
            then (if delta_fits sz (lo - bo) then SRaw (le_split (Z.to_nat sz) (wrap (8 * sz) (lo - bo))) else SGap (-1))
            else o
        | _, _ => o
        end
    | _, _ => o
    end
  | _ => o
  end.

Fixpoint res_from (s : state) (t : list top) : list top :=
  match t with
  | [] => []
  | (k, o) :: r => (k, resolve_one s o) :: res_from (run s (expand1 (k, o))) r
  end.

Lemma le_split_length : forall n w, length (le_split n w) = n.
Proof. induction n; intros; cbn; [reflexivity|]. now rewrite IHn. Qed.

Lemma size_ok_nonneg : forall sz, size_ok sz = true -> 0 <= sz.
Proof. intros sz H. unfold size_ok in H. repeat (apply orb_true_iff in H; destruct H as [H|H]); apply Z.eqb_eq in H; lia. Qed.

(* the resolved operation has the effect of the original one on every state whose label table is the one it was resolved against *)
Lemma resolve_step : forall s s' o, labels s' = labels s ->
  fst (step s' (op_of (resolve_one s o))) = fst (step s' (op_of o)).
Proof.
  intros s s' o HL. destruct o as [bs|n|kd rel l pre w0 post|l|l size addend pre post|l b sz]; try reflexivity.
  cbn [resolve_one]. destruct (nth_error (labels s) l) as [ll|] eqn:EL; [|reflexivity].
  destruct (nth_error (labels s) b) as [lb|] eqn:EB; [|reflexivity].
  destruct (size_ok sz) eqn:EZ; cbn [negb].
  2:{ cbn [op_of step]. rewrite HL, EL, EB, EZ. reflexivity. }
  destruct ll as [[ls lo]|]; [|reflexivity]. destruct lb as [[bs bo]|]; [|reflexivity].
  destruct (Nat.eqb ls bs) eqn:ES; [|reflexivity].
  cbn [op_of step]. rewrite HL, EL, EB, EZ, ES. cbn [negb]. fold (delta_fits sz (lo - bo)).
  destruct (delta_fits sz (lo - bo)); cbn [op_of step fst].
  - unfold zlen. rewrite le_split_length, Z2Nat.id by (apply size_ok_nonneg; exact EZ). reflexivity.
  - reflexivity.
Qed.

Lemma res_from_snoc : forall t s x, res_from s (t ++ [x]) = res_from s t ++ [(fst x, resolve_one (run s (expand t)) (snd x))].
Proof.
  induction t as [|[k o] t IH]; intros s [kx ox]; [reflexivity|].
  cbn [app res_from]. rewrite IH. cbn [expand flat_map app]. rewrite run_app. reflexivity.
Qed.

(* the rewritten program runs through the same states *)
Theorem run_res : forall t s, run s (expand (res_from s t)) = run s (expand t).
Proof.
  induction t as [|[k o] t IH]; intros s; [reflexivity|].
  cbn [res_from expand flat_map]. rewrite !run_app.
  assert (E : run s (expand1 (k, resolve_one s o)) = run s (expand1 (k, o))).
  { unfold expand1. cbn [fst snd run]. rewrite (resolve_step s (fst (step s (OSection k))) o); [reflexivity|]. cbn [step]. destruct (Nat.ltb k (length (secs s))); reflexivity. }
  fold (expand (res_from (run s (expand1 (k, o))) t)). fold (expand t). rewrite E. apply IH.
Qed.

Lemma tags_res : forall ns t s, tags_ok ns t -> tags_ok ns (res_from s t).
Proof. induction t as [|[k o] t IH]; intros s H; [constructor|]. inversion H; subst. constructor; [exact H2|apply IH; exact H3]. Qed.

Lemma bound_labels_res : forall t s, bound_labels (res_from s t) = bound_labels t.
Proof.
  induction t as [|[k o] t IH]; intros s; [reflexivity|]. cbn [res_from]. unfold bound_labels in *. cbn [flat_map snd]. rewrite IH. f_equal.
  destruct o; try reflexivity. cbn [resolve_one].
  destruct (nth_error (labels s) l) as [ll|]; [|reflexivity]. destruct (nth_error (labels s) b) as [lb|]; [|reflexivity].
  destruct (negb (size_ok size)); [reflexivity|]. destruct ll as [[ls lo]|]; [|reflexivity]. destruct lb as [[bs bo]|]; [|reflexivity].
  destruct (Nat.eqb ls bs); [destruct (delta_fits _ _)|]; reflexivity.
Qed.

(* a delta that survives resolution did not have both labels bound in one section when it was embedded *)
Lemma resolve_keeps : forall s o l b sz, resolve_one s o = SDelta l b sz ->
  o = SDelta l b sz /\
  (forall ks lo bo, nth_error (labels s) l = Some (Some (ks, lo)) -> nth_error (labels s) b = Some (Some (ks, bo)) -> False).
Proof.
  intros s o l b sz H. destruct o as [| | | | |l0 b0 sz0]; try discriminate. cbn [resolve_one] in H.
  destruct (nth_error (labels s) l0) as [ll|] eqn:EL.
  2:{ injection H as <- <- <-. split; [reflexivity|]. intros ks lo bo A _. congruence. }
  destruct (nth_error (labels s) b0) as [lb|] eqn:EB.
  2:{ injection H as <- <- <-. split; [reflexivity|]. intros ks lo bo _ B. congruence. }
  destruct (negb (size_ok sz0)); [discriminate|].
  destruct ll as [[ls lo]|]. 2:{ injection H as <- <- <-. split; [reflexivity|]. intros ks lo bo A _. congruence. }
  destruct lb as [[bs bo]|]. 2:{ injection H as <- <- <-. split; [reflexivity|]. intros ks lo' bo _ B. congruence. }
  destruct (Nat.eqb ls bs) eqn:E; [destruct (delta_fits _ _); discriminate|].
  injection H as <- <- <-. split; [reflexivity|]. intros ks lo' bo' A B. apply Nat.eqb_neq in E. congruence.
Qed.

(* ------------------------------------------------------------------ the resolved program satisfies the side condition, whatever the program *)
Lemma run_prelude_res : forall nl ns t,
  run init (prelude nl ns ++ expand (res_from (run init (prelude nl ns)) t)) = run init (prelude nl ns ++ expand t).
Proof. intros. rewrite !run_app. apply run_res. Qed.

Theorem res_local : forall nl ns t, tags_ok ns t -> NoDup (bound_labels t) ->
  delta_local nl ns (res_from (run init (prelude nl ns)) t).
Proof.
  intros nl ns t. induction t as [|x t IH] using rev_ind; intros HT HN.
  - intros t1 t2 k l b sz E. destruct t1; discriminate.
  - apply Forall_app in HT. destruct HT as [HT Hx].
    assert (HN' : NoDup (bound_labels t)) by (rewrite bound_labels_snoc in HN; eapply NoDup_app_l'; exact HN).
    specialize (IH HT HN'). set (s0 := run init (prelude nl ns)) in *.
    rewrite res_from_snoc. intros t1 t2 k l b sz E k' lo bo Hk A1 A2.
    destruct t2 as [|z t2] using rev_ind.
    + apply app_inj_tail in E. destruct E as [E1 E2]. subst t1. injection E2 as Ek Eo.
      apply resolve_keeps in Eo. destruct Eo as [_ NB]. exfalso.
      destruct (J_run nl ns (res_from s0 t) (tags_res ns t s0 HT) ltac:(rewrite bound_labels_res; exact HN') IH) as [HJ _].
      unfold s0 in HJ. rewrite run_prelude_res in HJ. rewrite run_app in HJ. fold s0 in HJ.
      apply (NB k' lo bo); apply (j_bound _ _ _ _ HJ); split; assumption.
    + clear IHt2. rewrite app_comm_cons, app_assoc in E. apply app_inj_tail in E. destruct E as [E1 _].
      exact (IH t1 t2 k l b sz E1 k' lo bo Hk A1 A2).
Qed.

(* EVERY run is characterized: the assembled result of ANY program (labels and sections created first, every label bound at most once)
   is the function [final] of the local folds of its resolved form *)
Theorem final_char_any : forall nl ns t offs, tags_ok ns t -> NoDup (bound_labels t) ->
  let r := res_from (run init (prelude nl ns)) t in
  nowrap nl ns r offs ->
  final nl ns r offs (run init ((prelude nl ns ++ expand t) ++ [OResolve offs])).
Proof.
  intros nl ns t offs HT HN r HW.
  pose proof (final_char nl ns r offs (tags_res ns t _ HT) ltac:(unfold r; rewrite bound_labels_res; exact HN) (res_local nl ns t HT HN) HW) as F.
  rewrite run_app in F. unfold r in F at 2. rewrite run_prelude_res in F. rewrite run_app. exact F.
Qed.

(* ------------------------------------------------------------------ the side condition of order irrelevance is NECESSARY, and what [res] does:
   a one-byte delta in section 0 between two labels of section 1, embedded after / before that section's binds.  Same per-section
   sequences; the first order writes the difference (3) at once, the second leaves a zero byte and one expression entry - which relocates
   to that same byte (DeltaEffect.delta_entry_effect). *)
Definition ex_after : list top := [(1%nat, SBind 0); (1%nat, SRaw [1; 2; 3]); (1%nat, SBind 1); (0%nat, SDelta 1 0 1)].
Definition ex_before : list top := [(0%nat, SDelta 1 0 1); (1%nat, SBind 0); (1%nat, SRaw [1; 2; 3]); (1%nat, SBind 1)].

Example delta_order_matters :
  (forall k, proj k ex_after = proj k ex_before) /\
  ~ delta_local_final 2 1 ex_after /\
  let s1 := run init ((prelude 2 1 ++ expand ex_after) ++ [OResolve [0; 4096]]) in
  let s2 := run init ((prelude 2 1 ++ expand ex_before) ++ [OResolve [0; 4096]]) in
  labels s1 = labels s2 /\
  sec_image (refs s1) (s_items (nsec s1 0)) = [3] /\ relocs s1 = [] /\
  sec_image (refs s2) (s_items (nsec s2 0)) = [0] /\ map rl_type (relocs s2) = [Expr 1 0] /\
  res_from (run init (prelude 2 1)) ex_after = [(1%nat, SBind 0); (1%nat, SRaw [1; 2; 3]); (1%nat, SBind 1); (0%nat, SRaw [3])] /\
  res_from (run init (prelude 2 1)) ex_before = ex_before.
Proof.
  split; [intros [|[|k]]; reflexivity|]. split.
  - intros H. specialize (H 0%nat 1%nat 0%nat 1 ltac:(cbn; tauto) 1%nat 3 0 ltac:(lia)). vm_compute in H. specialize (H eq_refl eq_refl). discriminate.
  - vm_compute. repeat split; reflexivity.
Qed.

(* ================================================================== ORDER IRRELEVANCE FOR EVERY PROGRAM, up to the bytes of delta sites
   Reference fold of a section: a valid delta always contributes [size] placeholder bytes, whatever path it takes.  The fold of the resolved
   program is related to it item by item (equal, or raw bytes of the same length over a placeholder), with the same length and the same
   binds - provided no delta is refused for its range along the run (a refused delta contributes nothing in one order and [size] bytes in
   the other: no_misfit is necessary for equal section sizes). *)
Definition lstepR (nl k : nat) (st : lst) (o : sop) : lst :=
  match o with
  | SDelta l b sz => if negb (Nat.ltb l nl && Nat.ltb b nl) then st else if negb (size_ok sz) then st else lemit st [GRaw (zeros sz)] sz
  | _ => lstep nl k st o
  end.
Definition lfoldR (nl k : nat) (os : list sop) : lst := fold_left (lstepR nl k) os lst0.

Lemma lfoldR_snoc : forall nl k os o, lfoldR nl k (os ++ [o]) = lstepR nl k (lfoldR nl k os) o.
Proof. intros. unfold lfoldR. rewrite fold_left_app. reflexivity. Qed.

Definition irel (a b : gitem) : Prop := a = b \/ exists bs sz, a = GRaw bs /\ b = GRaw (zeros sz) /\ zlen bs = sz.
Definition absg (rg : rghost) : bool := match rg_base rg with None => true | Some _ => false end.
Record srel (st str : lst) : Prop := {
  sr_len : l_len st = l_len str; sr_binds : l_binds st = l_binds str; sr_items : Forall2 irel (l_items st) (l_items str);
  sr_rels : filter absg (l_rels st) = filter absg (l_rels str)        (* the entries of absolute references; expression entries are path dependent *)
}.

Lemma irel_refl_list : forall l, Forall2 irel l l.
Proof. induction l; constructor; [now left|assumption]. Qed.

Lemma lprecheck_rel : forall l off a b, Forall2 irel a b -> lprecheck l off a = lprecheck l off b.
Proof.
  intros l off a b H. unfold lprecheck. induction H as [|x y a b R H IH]; [reflexivity|]. cbn [forallb]. rewrite IH. f_equal.
  destruct R as [->|(bs & sz & -> & -> & _)]; reflexivity.
Qed.

Lemma srel_emitr : forall st str its n rs rs', srel st str -> filter absg rs = filter absg rs' -> srel (lemitr st its n rs) (lemitr str its n rs').
Proof.
  intros st str its n rs rs' [A B C D] E. constructor; cbn; [now rewrite A|exact B|apply Forall2_app; [exact C|apply irel_refl_list]|].
  rewrite !filter_app, D, E. reflexivity.
Qed.

Lemma srel_emit : forall st str its n, srel st str -> srel (lemit st its n) (lemit str its n).
Proof. intros. unfold lemit. apply srel_emitr; [assumption|reflexivity]. Qed.

Lemma lstep_rel : forall nl k st str o, srel st str -> (forall l b sz, o <> SDelta l b sz) -> srel (lstep nl k st o) (lstep nl k str o).
Proof.
  intros nl k st str o R ND. pose proof R as [A B C D].
  destruct o as [bs|n|kd rel l pre w0 post|l|l size addend pre post|l b sz]; cbn [lstep].
  - apply srel_emit. exact R.
  - destruct (0 <=? n); [apply srel_emit|]; exact R.
  - destruct (negb (Nat.ltb l nl)); [exact R|]. destruct (negb (hole_ok kd w0)); [exact R|]. rewrite A, B.
    destruct (assoc l (l_binds str)); [destruct (write_offset _ _ _); [|exact R]|];
      (constructor; cbn; [now rewrite A|exact B|apply Forall2_app; [exact C|apply irel_refl_list]|now rewrite !app_nil_r]).
  - destruct (Nat.ltb l nl); [|exact R]. rewrite B. destruct (assoc l (l_binds str)); [exact R|].
    rewrite (lprecheck_rel l (l_len st) _ _ C), A. destruct (lprecheck l (l_len str) (l_items str)); [|exact R].
    constructor; cbn; [congruence|congruence|exact C|exact D].
  - destruct (negb (Nat.ltb l nl)); [exact R|]. destruct (negb (size_ok size)); [exact R|]. rewrite A. apply srel_emitr; [exact R|reflexivity].
  - exfalso. eapply ND. reflexivity.
Qed.

(* no delta is refused for its range along the run from s *)
Definition no_misfit_at (s : state) (o : sop) : Prop :=
  match o with
  | SDelta l b sz => forall ks lo bo, nth_error (labels s) l = Some (Some (ks, lo)) -> nth_error (labels s) b = Some (Some (ks, bo)) ->
                     size_ok sz = true -> delta_fits sz (lo - bo) = true
  | _ => True
  end.
Definition no_misfit (s : state) (t : list top) : Prop :=
  forall t1 x t2, t = t1 ++ x :: t2 -> no_misfit_at (run s (expand t1)) (snd x).

Lemma no_misfit_snoc : forall s t x, no_misfit s (t ++ [x]) -> no_misfit s t /\ no_misfit_at (run s (expand t)) (snd x).
Proof.
  intros s t x H. split.
  - intros t1 y t2 E. apply (H t1 y (t2 ++ [x])). rewrite E, <- app_assoc. reflexivity.
  - apply (H t x []). reflexivity.
Qed.

Lemma zeros_len : forall sz, 0 <= sz -> zlen (zeros sz) = sz.
Proof. intros. unfold zlen, zeros. rewrite repeat_length, Z2Nat.id by assumption. reflexivity. Qed.

Theorem resolved_fold_rel : forall nl ns t, tags_ok ns t -> NoDup (bound_labels t) -> no_misfit (run init (prelude nl ns)) t ->
  forall k, (k < S ns)%nat -> srel (lfold nl k (proj k (res_from (run init (prelude nl ns)) t))) (lfoldR nl k (proj k t)).
Proof.
  intros nl ns t. induction t as [|x t IH] using rev_ind; intros HT HN HM k Hk.
  - cbn. constructor; [reflexivity|reflexivity|constructor|reflexivity].
  - apply Forall_app in HT. destruct HT as [HT Hx]. inversion Hx as [|? ? Hkx _]; subst.
    assert (HN' : NoDup (bound_labels t)) by (rewrite bound_labels_snoc in HN; eapply NoDup_app_l'; exact HN).
    apply no_misfit_snoc in HM. destruct HM as [HM HMx].
    set (s0 := run init (prelude nl ns)) in *. specialize (IH HT HN' HM).
    destruct x as [kx o]. cbn [fst snd] in *. rewrite res_from_snoc. cbn [fst snd]. rewrite !proj_snoc. cbn [fst snd].
    destruct (Nat.eqb kx k) eqn:EK; [|rewrite !app_nil_r; apply IH; exact Hk].
    apply Nat.eqb_eq in EK. subst kx. rewrite lfold_snoc, lfoldR_snoc. specialize (IH k Hk).
    set (sF := run s0 (expand t)) in *.
    destruct (J_run nl ns (res_from s0 t) (tags_res ns t s0 HT) ltac:(rewrite bound_labels_res; exact HN') (res_local nl ns t HT HN')) as [HJ _].
    fold s0 in HJ. unfold s0 in HJ at 1. rewrite run_prelude_res, run_app in HJ. fold s0 in HJ. fold sF in HJ.
    assert (LL : forall l, nth_error (labels sF) l = None <-> Nat.ltb l nl = false).
    { intros l. rewrite nth_error_None, Nat.ltb_ge, (j_labels _ _ _ _ HJ). lia. }
    destruct o as [bs|n|kd rel l pre w0 post|l|l size addend pre post|l b sz];
      try (cbn [resolve_one lstepR]; apply lstep_rel; [exact IH|intros; discriminate]).
    cbn [resolve_one]. destruct (nth_error (labels sF) l) as [ll|] eqn:EL.
    2:{ cbn [lstep lstepR]. apply LL in EL. rewrite EL. cbn. exact IH. }
    destruct (nth_error (labels sF) b) as [lb|] eqn:EB.
    2:{ cbn [lstep lstepR]. apply LL in EB. rewrite EB, andb_false_r. cbn. exact IH. }
    assert (LT : Nat.ltb l nl = true). { destruct (Nat.ltb l nl) eqn:X; [reflexivity|]. apply LL in X. congruence. }
    assert (LTb : Nat.ltb b nl = true). { destruct (Nat.ltb b nl) eqn:X; [reflexivity|]. apply LL in X. congruence. }
    destruct (size_ok sz) eqn:EZ; cbn [negb].
    2:{ cbn [lstep lstepR]. rewrite LT, LTb, EZ. cbn. exact IH. }
    assert (SURV : (forall ks lo bo, ll = Some (ks, lo) -> lb = Some (ks, bo) -> False) ->
                   srel (lstep nl k (lfold nl k (proj k (res_from s0 t))) (SDelta l b sz)) (lstepR nl k (lfoldR nl k (proj k t)) (SDelta l b sz))).
    { intros NB. cbn [lstep lstepR]. rewrite LT, LTb, EZ. cbn [andb negb].
      rewrite (assoc_state nl ns _ sF k l HJ Hk), (assoc_state nl ns _ sF k b HJ Hk), EL, EB.
      destruct ll as [[ls lo]|]; destruct lb as [[bs bo]|];
        try (destruct (Nat.eqb _ k); (apply srel_emitr; [exact IH|reflexivity])); try (apply srel_emitr; [exact IH|reflexivity]).
      destruct (Nat.eqb ls k) eqn:E1; destruct (Nat.eqb bs k) eqn:E2; try (apply srel_emitr; [exact IH|reflexivity]).
      exfalso. apply Nat.eqb_eq in E1. apply Nat.eqb_eq in E2. subst. exact (NB k lo bo eq_refl eq_refl). }
    destruct ll as [[ls lo]|]; [|apply SURV; intros; discriminate]. destruct lb as [[bs bo]|]; [|apply SURV; intros; discriminate].
    destruct (Nat.eqb ls bs) eqn:ES.
    2:{ apply SURV. intros ks lo' bo' A B. injection A as <- <-. injection B as <- <-. rewrite Nat.eqb_refl in ES. discriminate. }
    apply Nat.eqb_eq in ES. subst bs. cbn in HMx. rewrite (HMx ls lo bo EL EB EZ).
    cbn [lstep lstepR]. rewrite LT, LTb, EZ. cbn [andb negb]. destruct IH as [A B C D].
    constructor; cbn; [|exact B| |now rewrite !app_nil_r].
    + unfold zlen. rewrite le_split_length, Z2Nat.id by (apply size_ok_nonneg; exact EZ). now rewrite A.
    + apply Forall2_app; [exact C|]. constructor; [|constructor]. right. eexists. exists sz. split; [reflexivity|]. split; [reflexivity|].
      unfold zlen. rewrite le_split_length, Z2Nat.id by (apply size_ok_nonneg; exact EZ). reflexivity.
Qed.

Definition irel2 (a b : gitem) : Prop := a = b \/ exists x y, a = GRaw x /\ b = GRaw y /\ zlen x = zlen y.

Lemma zeros_inj : forall a b, 0 <= a -> 0 <= b -> zeros a = zeros b -> a = b.
Proof. intros a b Ha Hb H. apply (f_equal (@length Z)) in H. unfold zeros in H. rewrite !repeat_length in H. lia. Qed.

Lemma zlen_nonneg : forall {A} (l : list A), 0 <= zlen l.
Proof. intros. unfold zlen. lia. Qed.

Lemma irel_compose : forall a r, Forall2 irel a r -> forall b, Forall2 irel b r -> Forall2 irel2 a b.
Proof.
  intros a r H. induction H as [|x y a r R H IH]; intros b Hb; inversion Hb as [|x' y' b' r' R' H']; subst; constructor; [|apply IH; assumption].
  destruct R as [->|(bs & sz & -> & -> & L)]; destruct R' as [->|(bs' & sz' & -> & E & L')].
  - now left.
  - right. subst y. exists (zeros sz'), bs'. repeat split. rewrite zeros_len by (rewrite <- L'; apply zlen_nonneg). now symmetry.
  - right. exists bs, (zeros sz). repeat split. rewrite zeros_len by (rewrite <- L; apply zlen_nonneg). exact L.
  - right. exists bs, bs'. repeat split. injection E as E. apply zeros_inj in E; [lia| |]; [rewrite <- L|rewrite <- L']; apply zlen_nonneg.
Qed.

Lemma labels_eq_of_binds : forall nl ns r1 r2 offs s1 s2,
  (forall k, l_binds (lfold nl k (proj k r1)) = l_binds (lfold nl k (proj k r2))) ->
  final nl ns r1 offs s1 -> final nl ns r2 offs s2 -> labels s1 = labels s2.
Proof.
  intros nl ns r1 r2 offs s1 s2 HP [A1 B1 _ _ _ _] [A2 B2 _ _ _ _]. apply list_eq_nth_error. intros l.
  destruct (nth_error (labels s1) l) as [v1|] eqn:E1; destruct (nth_error (labels s2) l) as [v2|] eqn:E2.
  - destruct v1 as [[k off]|]; destruct v2 as [[k2 off2]|]; try reflexivity.
    + apply B1 in E1. rewrite HP in E1. apply B2 in E1. congruence.
    + apply B1 in E1. rewrite HP in E1. apply B2 in E1. congruence.
    + apply B2 in E2. rewrite <- HP in E2. apply B1 in E2. congruence.
  - apply nth_error_None in E2. assert (l < length (labels s1))%nat by (apply nth_error_Some; congruence). lia.
  - apply nth_error_None in E1. assert (l < length (labels s2))%nat by (apply nth_error_Some; congruence). lia.
  - reflexivity.
Qed.

(* ORDER IRRELEVANCE WITHOUT THE SIDE CONDITION: two programs with the same per-section operation sequences - ANY deltas - whose runs refuse
   no delta for its range assemble to the same label table and section sizes, and every section's resolved bytes are the rendering of two
   item lists that agree item by item except that raw items of one length may differ: the delta sites (bytes written at once in one order,
   placeholder zeros + an expression entry in the other; DeltaEffect.delta_entry_effect: relocation writes those same bytes) *)
Theorem order_irrelevant_any : forall nl ns t1 t2 offs,
  (forall k, proj k t1 = proj k t2) -> tags_ok ns t1 -> tags_ok ns t2 -> NoDup (bound_labels t1) ->
  let s0 := run init (prelude nl ns) in
  no_misfit s0 t1 -> no_misfit s0 t2 -> nowrap nl ns (res_from s0 t1) offs -> nowrap nl ns (res_from s0 t2) offs ->
  let s1 := run init ((prelude nl ns ++ expand t1) ++ [OResolve offs]) in
  let s2 := run init ((prelude nl ns ++ expand t2) ++ [OResolve offs]) in
  labels s1 = labels s2 /\
  forall k, (k < S ns)%nat ->
    s_len (nsec s1 k) = s_len (nsec s2 k) /\
    exists i1 i2, sec_image (refs s1) (s_items (nsec s1 k)) = gimage (labels s1) offs i1 /\
                  sec_image (refs s2) (s_items (nsec s2 k)) = gimage (labels s1) offs i2 /\
                  Forall2 irel2 i1 i2.
Proof.
  intros nl ns t1 t2 offs HP T1 T2 N1 s0 M1 M2 W1 W2 s1 s2.
  assert (N2 : NoDup (bound_labels t2)) by (eapply bound_once_transfers; eassumption).
  pose proof (final_char_any nl ns t1 offs T1 N1 W1) as F1. pose proof (final_char_any nl ns t2 offs T2 N2 W2) as F2.
  fold s0 in F1, F2. fold s1 in F1. fold s2 in F2.
  assert (REL : forall k, (k < S ns)%nat ->
            srel (lfold nl k (proj k (res_from s0 t1))) (lfoldR nl k (proj k t1)) /\ srel (lfold nl k (proj k (res_from s0 t2))) (lfoldR nl k (proj k t1))).
  { intros k Hk. split; [apply resolved_fold_rel; assumption|]. rewrite HP. apply resolved_fold_rel; assumption. }
  assert (HL : labels s1 = labels s2).
  { destruct F1 as [A1 B1 _ _ _ _]. destruct F2 as [A2 B2 _ _ _ _]. apply list_eq_nth_error. intros l.
    assert (X : forall k off, (k < S ns)%nat -> assoc l (l_binds (lfold nl k (proj k (res_from s0 t1)))) = Some off <->
                                              assoc l (l_binds (lfold nl k (proj k (res_from s0 t2)))) = Some off).
    { intros k off Hk. destruct (REL k Hk) as [R1 R2]. rewrite (sr_binds _ _ R1), (sr_binds _ _ R2). tauto. }
    destruct (nth_error (labels s1) l) as [v1|] eqn:E1; destruct (nth_error (labels s2) l) as [v2|] eqn:E2.
    - destruct v1 as [[k off]|]; destruct v2 as [[k2 off2]|]; try reflexivity.
      + apply B1 in E1. destruct E1 as [K E1]. apply (X k off K) in E1. assert (Y : nth_error (labels s2) l = Some (Some (k, off))) by (apply B2; auto). congruence.
      + apply B1 in E1. destruct E1 as [K E1]. apply (X k off K) in E1. assert (Y : nth_error (labels s2) l = Some (Some (k, off))) by (apply B2; auto). congruence.
      + apply B2 in E2. destruct E2 as [K E2]. apply (X k2 off2 K) in E2. assert (Y : nth_error (labels s1) l = Some (Some (k2, off2))) by (apply B1; auto). congruence.
    - apply nth_error_None in E2. assert (l < length (labels s1))%nat by (apply nth_error_Some; congruence). lia.
    - apply nth_error_None in E1. assert (l < length (labels s2))%nat by (apply nth_error_Some; congruence). lia.
    - reflexivity. }
  split; [exact HL|]. intros k Hk. destruct (REL k Hk) as [R1 R2].
  destruct F1 as [_ _ L1 I1 _ _]. destruct F2 as [_ _ L2 I2 _ _]. split.
  - rewrite L1, L2 by exact Hk. rewrite (sr_len _ _ R1), (sr_len _ _ R2). reflexivity.
  - exists (l_items (lfold nl k (proj k (res_from s0 t1)))), (l_items (lfold nl k (proj k (res_from s0 t2)))).
    split; [apply I1; exact Hk|]. split; [rewrite HL; apply I2; exact Hk|].
    eapply irel_compose; [apply (sr_items _ _ R1)|apply (sr_items _ _ R2)].
Qed.

(* non-vacuity: the pair of programs of delta_order_matters (outside delta_local_final) satisfies every hypothesis of
   order_irrelevant_any; its conclusion relates their section-0 images [3] and [0] as one raw item of length 1 *)
Lemma ex_no_misfit : forall t, t = ex_after \/ t = ex_before -> no_misfit (run init (prelude 2 1)) t.
Proof.
  intros t [-> | ->] t1 x t2 E;
    (destruct t1 as [|? [|? [|? [|? [|? ?]]]]]; cbn in E; inversion E; subst; cbn [snd no_misfit_at]; try exact I;
     intros ks lo bo A B _; vm_compute in A, B; try discriminate; injection A as <- <-; injection B as <-; vm_compute; reflexivity).
Qed.

Lemma ex_nowrap : forall t, t = ex_after \/ t = ex_before -> nowrap 2 1 (res_from (run init (prelude 2 1)) t) [0; 4096].
Proof.
  intros t [-> | ->] k Hk; (destruct k as [|[|k]]; [| |lia]); split;
    try (intros g H; vm_compute in H; repeat (destruct H as [H|H]; [discriminate|]); contradiction);
    intros l off H; destruct l as [|[|l]]; vm_compute in H; try discriminate; injection H as <-; vm_compute; reflexivity.
Qed.

Example order_irrelevant_any_applies :
  (forall k, proj k ex_after = proj k ex_before) /\ tags_ok 1 ex_after /\ tags_ok 1 ex_before /\ NoDup (bound_labels ex_after) /\
  no_misfit (run init (prelude 2 1)) ex_after /\ no_misfit (run init (prelude 2 1)) ex_before /\
  nowrap 2 1 (res_from (run init (prelude 2 1)) ex_after) [0; 4096] /\ nowrap 2 1 (res_from (run init (prelude 2 1)) ex_before) [0; 4096] /\
  irel2 (GRaw [3]) (GRaw [0]).
Proof.
  split; [intros [|[|k]]; reflexivity|]. split; [repeat constructor|]. split; [repeat constructor|].
  split; [vm_compute; repeat constructor; cbn; intuition discriminate|].
  split; [apply ex_no_misfit; now left|]. split; [apply ex_no_misfit; now right|].
  split; [apply ex_nowrap; now left|]. split; [apply ex_nowrap; now right|].
  right. exists [3], [0]. repeat split.
Qed.

(* ------------------------------------------------------------------ ... and the unresolved-fixup count (references whose displacement cannot be
   resolved + absolute references whose label is unbound) is order independent as well: reference items and the entries of absolute
   references are untouched by the path a delta takes *)
Lemma grefs_rel : forall a b, Forall2 irel a b -> grefs a = grefs b.
Proof.
  intros a b H. induction H as [|x y a b R H IH]; [reflexivity|]. unfold grefs in *. cbn [flat_map]. rewrite IH. f_equal.
  destruct R as [->|(bs & sz & -> & -> & _)]; reflexivity.
Qed.

Lemma filter_flat_map : forall {A B} (f : B -> bool) (g : A -> list B) l, filter f (flat_map g l) = flat_map (fun x => filter f (g x)) l.
Proof. intros A B f g l. induction l as [|x l IH]; [reflexivity|]. cbn [flat_map]. now rewrite filter_app, IH. Qed.

Lemma rel_waits_abs : forall L l, filter (rel_waits L) l = filter (rel_waits L) (filter absg l).
Proof.
  intros L l. induction l as [|x l IH]; [reflexivity|]. cbn [filter].
  destruct (rg_base x) eqn:E.
  - assert (rel_waits L x = false) as -> by (unfold rel_waits; now rewrite E).
    assert (absg x = false) as -> by (unfold absg; now rewrite E). exact IH.
  - assert (absg x = true) as -> by (unfold absg; now rewrite E). cbn [filter]. destruct (rel_waits L x); now rewrite IH.
Qed.

Theorem order_irrelevant_any_unresolved : forall nl ns t1 t2 offs,
  (forall k, proj k t1 = proj k t2) -> tags_ok ns t1 -> tags_ok ns t2 -> NoDup (bound_labels t1) ->
  let s0 := run init (prelude nl ns) in
  no_misfit s0 t1 -> no_misfit s0 t2 -> nowrap nl ns (res_from s0 t1) offs -> nowrap nl ns (res_from s0 t2) offs ->
  unresolved (run init ((prelude nl ns ++ expand t1) ++ [OResolve offs])) = unresolved (run init ((prelude nl ns ++ expand t2) ++ [OResolve offs])).
Proof.
  intros nl ns t1 t2 offs HP T1 T2 N1 s0 M1 M2 W1 W2.
  assert (N2 : NoDup (bound_labels t2)) by (eapply bound_once_transfers; eassumption).
  destruct (order_irrelevant_any nl ns t1 t2 offs HP T1 T2 N1 M1 M2 W1 W2) as [HL _].
  pose proof (final_char_any nl ns t1 offs T1 N1 W1) as F1. pose proof (final_char_any nl ns t2 offs T2 N2 W2) as F2.
  fold s0 in F1, F2.
  assert (REL : forall k, (k < S ns)%nat ->
            srel (lfold nl k (proj k (res_from s0 t1))) (lfoldR nl k (proj k t1)) /\ srel (lfold nl k (proj k (res_from s0 t2))) (lfoldR nl k (proj k t1))).
  { intros k Hk. split; [apply resolved_fold_rel; assumption|]. rewrite HP. apply resolved_fold_rel; assumption. }
  rewrite (f_unres _ _ _ _ _ F1), (f_unres _ _ _ _ _ F2), <- HL.
  assert (EG : allghosts nl ns (res_from s0 t1) = allghosts nl ns (res_from s0 t2)).
  { unfold allghosts. apply flat_map_seq_ext. intros k Hk. destruct (REL k ltac:(lia)) as [R1 R2].
    rewrite (grefs_rel _ _ (sr_items _ _ R1)), (grefs_rel _ _ (sr_items _ _ R2)). reflexivity. }
  assert (ER : filter absg (allrels nl ns (res_from s0 t1)) = filter absg (allrels nl ns (res_from s0 t2))).
  { unfold allrels. rewrite !filter_flat_map. apply flat_map_seq_ext. intros k Hk. destruct (REL k ltac:(lia)) as [R1 R2].
    rewrite (sr_rels _ _ R1), (sr_rels _ _ R2). reflexivity. }
  rewrite EG. f_equal. f_equal. f_equal.
  rewrite (rel_waits_abs _ (allrels nl ns (res_from s0 t1))), (rel_waits_abs _ (allrels nl ns (res_from s0 t2))), ER. reflexivity.
Qed.

(* ================================================================== BY EFFECT, operation by operation
   The resolved forms of two interleavings agree operation by operation in every section, except that a delta may appear as itself in one
   (it became an expression entry there) and as the raw bytes of the label difference - taken from the COMMON final label table - in the
   other.  With final_char_any (each run is [final] of its resolved form) and DeltaEffect.delta_entry_effect (the entry relocates to exactly
   those bytes) this is "same image by effect" for arbitrary label deltas. *)
Definition dbytes (sz d : Z) : list Z := le_split (Z.to_nat sz) (wrap (8 * sz) d).

Definition oshape (nl : nat) (L : list (option (nat * Z))) (o' o : sop) : Prop :=
  (o' = o /\ forall l b sz, o = SDelta l b sz -> size_ok sz = true \/ ~ ((l < nl)%nat /\ (b < nl)%nat)) \/
  (exists l b sz, o = SDelta l b sz /\ (l < nl)%nat /\ (b < nl)%nat /\ size_ok sz = false /\ o' = SGap (-1)) \/
  (exists l b sz ks lo bo, o = SDelta l b sz /\ size_ok sz = true /\ nth_error L l = Some (Some (ks, lo)) /\ nth_error L b = Some (Some (ks, bo)) /\
                           delta_fits sz (lo - bo) = true /\ o' = SRaw (dbytes sz (lo - bo))).

Lemma label_mono_trans : forall a b c, label_mono a b -> label_mono b c -> label_mono a c.
Proof. intros a b c H1 H2 l v H. apply H2, H1. exact H. Qed.

Lemma run_label_mono : forall ops s, label_mono (labels s) (labels (run s ops)).
Proof.
  induction ops as [|o ops IH]; intros s; [intros l v H; exact H|]. cbn [run]. eapply label_mono_trans; [apply step_label_mono|apply IH].
Qed.

Lemma oshape_mono : forall nl L L' o' o, label_mono L L' -> oshape nl L o' o -> oshape nl L' o' o.
Proof.
  intros nl L L' o' o M [H|[H|(l & b & sz & ks & lo & bo & E & Z1 & A & B & FT & E')]]; [left; exact H|right; left; exact H|].
  right. right. exists l, b, sz, ks, lo, bo. repeat split; auto.
Qed.

Lemma Forall2_impl' : forall {A B} (P Q : A -> B -> Prop) l m, (forall a b, P a b -> Q a b) -> Forall2 P l m -> Forall2 Q l m.
Proof. intros A B P Q l m H F. induction F; constructor; auto. Qed.

Theorem resolved_ops_shape : forall nl ns t, tags_ok ns t -> NoDup (bound_labels t) -> no_misfit (run init (prelude nl ns)) t ->
  forall k, Forall2 (oshape nl (labels (run (run init (prelude nl ns)) (expand t)))) (proj k (res_from (run init (prelude nl ns)) t)) (proj k t).
Proof.
  intros nl ns t. induction t as [|x t IH] using rev_ind; intros HT HN HM k.
  - constructor.
  - apply Forall_app in HT. destruct HT as [HT Hx]. inversion Hx as [|? ? Hkx _]; subst.
    assert (HN' : NoDup (bound_labels t)) by (rewrite bound_labels_snoc in HN; eapply NoDup_app_l'; exact HN).
    apply no_misfit_snoc in HM. destruct HM as [HM HMx].
    set (s0 := run init (prelude nl ns)) in *. specialize (IH HT HN' HM k).
    destruct x as [kx o]. cbn [fst snd] in *. rewrite res_from_snoc. cbn [fst snd]. rewrite !proj_snoc. cbn [fst snd].
    rewrite expand_snoc, run_app. set (sF := run s0 (expand t)) in *.
    assert (MONO : label_mono (labels sF) (labels (run sF (expand1 (kx, o))))) by apply run_label_mono.
    assert (IH' : Forall2 (oshape nl (labels (run sF (expand1 (kx, o))))) (proj k (res_from s0 t)) (proj k t)).
    { eapply Forall2_impl'; [|exact IH]. intros a b. apply oshape_mono. exact MONO. }
    destruct (Nat.eqb kx k); [|rewrite !app_nil_r; exact IH']. apply Forall2_app; [exact IH'|]. constructor; [|constructor].
    apply (oshape_mono nl (labels sF)); [exact MONO|].
    destruct (J_run nl ns (res_from s0 t) (tags_res ns t s0 HT) ltac:(rewrite bound_labels_res; exact HN') (res_local nl ns t HT HN')) as [HJ _].
    fold s0 in HJ. unfold s0 in HJ at 1. rewrite run_prelude_res, run_app in HJ. fold s0 in HJ. fold sF in HJ.
    assert (LL : forall l, nth_error (labels sF) l <> None <-> (l < nl)%nat).
    { intros l. rewrite nth_error_Some, (j_labels _ _ _ _ HJ). tauto. }
    destruct o as [bs|n|kd rel l pre w0 post|l|l size addend pre post|l b sz]; try (left; split; [reflexivity|intros; discriminate]).
    cbn [resolve_one]. destruct (nth_error (labels sF) l) as [ll|] eqn:EL.
    2:{ left. split; [reflexivity|]. intros l' b' sz' E. injection E as <- <- <-. right. intros [A _]. apply LL in A. congruence. }
    destruct (nth_error (labels sF) b) as [lb|] eqn:EB.
    2:{ left. split; [reflexivity|]. intros l' b' sz' E. injection E as <- <- <-. right. intros [_ A]. apply LL in A. congruence. }
    assert (Hl : (l < nl)%nat) by (apply LL; congruence). assert (Hb : (b < nl)%nat) by (apply LL; congruence).
    destruct (size_ok sz) eqn:EZ; cbn [negb].
    2:{ right. left. exists l, b, sz. repeat split; auto. }
    assert (SURV : oshape nl (labels sF) (SDelta l b sz) (SDelta l b sz)).
    { left. split; [reflexivity|]. intros l' b' sz' E. injection E as <- <- <-. left. exact EZ. }
    destruct ll as [[ls lo]|]; [|exact SURV]. destruct lb as [[bs bo]|]; [|exact SURV].
    destruct (Nat.eqb ls bs) eqn:ES; [|exact SURV]. apply Nat.eqb_eq in ES. subst bs.
    cbn in HMx. rewrite (HMx ls lo bo EL EB EZ).
    right. right. exists l, b, sz, ls, lo, bo. repeat split; auto.
    exact (HMx ls lo bo EL EB EZ).
Qed.

Definition orel (L : list (option (nat * Z))) (o1 o2 : sop) : Prop :=
  o1 = o2 \/
  exists l b sz ks lo bo, nth_error L l = Some (Some (ks, lo)) /\ nth_error L b = Some (Some (ks, bo)) /\ size_ok sz = true /\
    delta_fits sz (lo - bo) = true /\
    ((o1 = SDelta l b sz /\ o2 = SRaw (dbytes sz (lo - bo))) \/ (o1 = SRaw (dbytes sz (lo - bo)) /\ o2 = SDelta l b sz)).

Lemma oshape_compose : forall nl L a o, Forall2 (oshape nl L) a o -> forall b, Forall2 (oshape nl L) b o -> Forall2 (orel L) a b.
Proof.
  intros nl L a o H. induction H as [|x y a o R H IH]; intros b Hb; inversion Hb as [|x' y' b' o' R' H']; subst; constructor; [|apply IH; assumption].
  destruct R as [[-> S1]|[(l & bl & sz & E & L1 & L2 & Z1 & ->)|(l & bl & sz & ks & lo & bo & E & Z1 & A & B & FT & ->)]];
  destruct R' as [[-> S2]|[(l' & bl' & sz' & E' & L1' & L2' & Z2 & ->)|(l' & bl' & sz' & ks' & lo' & bo' & E' & Z2 & A' & B' & FT' & ->)]].
  - now left.
  - exfalso. destruct (S1 l' bl' sz' E') as [X|X]; [congruence|apply X; split; assumption].
  - right. exists l', bl', sz', ks', lo', bo'. split; [exact A'|]. split; [exact B'|]. split; [exact Z2|]. split; [exact FT'|]. left. split; [exact E'|reflexivity].
  - exfalso. destruct (S2 l bl sz E) as [X|X]; [congruence|apply X; split; assumption].
  - now left.
  - exfalso. rewrite E in E'. injection E' as <- <- <-. congruence.
  - right. exists l, bl, sz, ks, lo, bo. split; [exact A|]. split; [exact B|]. split; [exact Z1|]. split; [exact FT|]. right. split; [reflexivity|exact E].
  - exfalso. rewrite E in E'. injection E' as <- <- <-. congruence.
  - left. rewrite E in E'. injection E' as <- <- <-. rewrite A in A'. injection A' as <- <-. rewrite B in B'. injection B' as <-. reflexivity.
Qed.

Theorem resolved_ops_agree : forall nl ns t1 t2 offs,
  (forall k, proj k t1 = proj k t2) -> tags_ok ns t1 -> tags_ok ns t2 -> NoDup (bound_labels t1) ->
  let s0 := run init (prelude nl ns) in
  no_misfit s0 t1 -> no_misfit s0 t2 -> nowrap nl ns (res_from s0 t1) offs -> nowrap nl ns (res_from s0 t2) offs ->
  let s1 := run init ((prelude nl ns ++ expand t1) ++ [OResolve offs]) in
  forall k, Forall2 (orel (labels s1)) (proj k (res_from s0 t1)) (proj k (res_from s0 t2)).
Proof.
  intros nl ns t1 t2 offs HP T1 T2 N1 s0 M1 M2 W1 W2 s1 k.
  assert (N2 : NoDup (bound_labels t2)) by (eapply bound_once_transfers; eassumption).
  destruct (order_irrelevant_any nl ns t1 t2 offs HP T1 T2 N1 M1 M2 W1 W2) as [HL _]. fold s1 in HL.
  pose proof (resolved_ops_shape nl ns t1 T1 N1 M1 k) as S1. pose proof (resolved_ops_shape nl ns t2 T2 N2 M2 k) as S2. fold s0 in S1, S2.
  assert (F1 : label_mono (labels (run s0 (expand t1))) (labels s1)).
  { unfold s1. rewrite !run_app. fold s0. apply run_label_mono. }
  assert (F2 : label_mono (labels (run s0 (expand t2))) (labels s1)).
  { rewrite HL. rewrite !run_app. fold s0. apply run_label_mono. }
  eapply oshape_compose.
  - eapply Forall2_impl'; [|exact S1]. intros a b. apply oshape_mono. exact F1.
  - rewrite HP. eapply Forall2_impl'; [|exact S2]. intros a b. apply oshape_mono. exact F2.
Qed.

(* no_misfit is NECESSARY for equal section sizes: a one-byte delta in section 0 between two labels of section 1 that are 300 bytes apart.
   Embedded after the binds the immediate path refuses it (kInvalidDisplacement, no byte); embedded before, it is a zero byte + an entry
   (which relocation then refuses). *)
Definition mis_after : list top := [(1%nat, SBind 0); (1%nat, SGap 300); (1%nat, SBind 1); (0%nat, SDelta 1 0 1)].
Definition mis_before : list top := [(0%nat, SDelta 1 0 1); (1%nat, SBind 0); (1%nat, SGap 300); (1%nat, SBind 1)].

Example misfit_matters :
  (forall k, proj k mis_after = proj k mis_before) /\
  ~ no_misfit (run init (prelude 2 1)) mis_after /\
  s_len (nsec (run init (prelude 2 1 ++ expand mis_after)) 0) = 0 /\
  s_len (nsec (run init (prelude 2 1 ++ expand mis_before)) 0) = 1.
Proof.
  split; [intros [|[|k]]; reflexivity|]. split.
  - intros H. specialize (H [(1%nat, SBind 0); (1%nat, SGap 300); (1%nat, SBind 1)] (0%nat, SDelta 1 0 1) [] eq_refl).
    cbn [snd no_misfit_at] in H. specialize (H 1%nat 300 0). vm_compute in H. specialize (H eq_refl eq_refl eq_refl). discriminate.
  - split; vm_compute; reflexivity.
Qed.

(* C08 - validation parity Builder vs Assembler, over C13's transliteration of x86::InstInternal::validate (Verif.X86Validate).
   The Assembler under kValidateAssembler and the Builder under kValidateIntermediate call the SAME function on the instruction id, the
   options, the extra register and the six operand slots (/repo 839e6db made the Builder pass all six).  What has to be proved is that the
   call the Builder REPLAYS for a recorded node is validated like the original one although the node differs from the call in two
   places: the reserved option bit is cleared, and the empty slots after the last used operand are rewritten as plain empty operands.
   And: an accepted call has no operand after an empty slot, so for accepted calls the operand count of the unrepaired
   op_count_from_emit_args and the repaired one coincide (the operand-after-hole defect is invisible under strict validation). *)
From Coq Require Import NArith ZArith List Bool Lia.
From Verif Require Import X86Validate.ValidateModel X86Validate.ValidateProofs Builder.BuilderModel Builder.BuilderProofs.
Import ListNotations.


(* ------------------------------------------------------------------ facts about C13's validate *)
Local Open Scope N_scope.

Lemma land_clear_bit0 : forall o c, N.testbit c 0 = false -> N.land (N.ldiff o 1) c = N.land o c.
Proof.
  intros o c H. apply N.bits_inj. intros n. rewrite !N.land_spec, N.ldiff_spec.
  destruct (N.eq_dec n 0) as [->|NZ]; [rewrite H, !andb_false_r; reflexivity|].
  assert (N.testbit 1 n = false) as ->; [|now rewrite andb_true_r].
  destruct n; [contradiction|]. destruct p; reflexivity.
Qed.

Lemma test_clear_bit0 : forall o c, N.testbit c 0 = false -> ValidateModel.test (N.ldiff o 1) c = ValidateModel.test o c.
Proof. intros. unfold ValidateModel.test. now rewrite land_clear_bit0. Qed.

Definition with_options (i : vinst) (o : N) : vinst :=
  {| vi_id := vi_id i; vi_options := o; vi_extra_type := vi_extra_type i; vi_extra_id := vi_extra_id i |}.

(* the validator does not look at the reserved option bit (bit 0, InstOptions::kReserved) *)
Theorem validate_ignores_reserved : forall T zq x64 virt inst ops,
  validate T zq x64 virt (with_options inst (N.ldiff (vi_options inst) 1)) ops = validate T zq x64 virt inst ops.
Proof.
  intros. unfold validate. cbn [with_options vi_id vi_options]. cbv zeta.
  destruct (vt_count T <=? vi_id inst); [reflexivity|].
  destruct (nth (N.to_nat (vi_id inst)) (vt_inst T) (0, 0, 0, 0)) as [[[iflags avx] sidx] scnt].
  unfold lock_stage, rep_stage, mode_stage, evex_stage, avx_stage, extra_stage. cbn [with_options vi_id vi_options vi_extra_type vi_extra_id].
  rewrite !test_clear_bit0 by reflexivity. rewrite !land_clear_bit0 by reflexivity.
  destruct (xlat_all T x64 virt iflags avx ops init_xstate) as [e|[st rest]]; [reflexivity|].
  rewrite ?test_clear_bit0, ?land_clear_bit0 by reflexivity. reflexivity.
Qed.

(* what is left when the translation loop stops: the operands from the first empty one on *)
Fixpoint from_first_none (ops : list ValidateModel.operand) : list ValidateModel.operand :=
  match ops with [] => [] | ONone :: _ => ops | _ :: r => from_first_none r end.

Lemma xlat_all_rest : forall T x64 virt iflags avx ops st st' rest,
  xlat_all T x64 virt iflags avx ops st = inr (st', rest) -> rest = from_first_none ops.
Proof.
  induction ops as [|op ops IH]; intros st st' rest H; cbn [xlat_all] in H.
  - injection H as _ <-. reflexivity.
  - destruct op; try (injection H as _ <-; reflexivity);
      (destruct (xlat_operand T x64 virt iflags avx _) as [e|x comb]; [discriminate|]; cbn [from_first_none]; eapply IH; exact H).
Qed.

Theorem accepted_has_no_gap : forall T zq x64 virt inst ops,
  validate T zq x64 virt inst ops = E_Ok -> forallb ValidateModel.is_none (from_first_none ops) = true.
Proof.
  intros T zq x64 virt inst ops H. destruct (validate_ok_inv T zq x64 virt inst ops H) as (_ & iflags & avx & sidx & scnt & st & rest & _ & XL & GAP & _).
  apply xlat_all_rest in XL. now rewrite <- XL.
Qed.

Lemma no_gap_nth : forall ops, forallb ValidateModel.is_none (from_first_none ops) = true ->
  forall i j, (i < j)%nat -> nth i ops ONone = ONone -> nth j ops ONone = ONone.
Proof.
  induction ops as [|op ops IH]; intros H i j Hij Hi; [destruct j; reflexivity|].
  destruct j as [|j]; [lia|]. cbn [nth].
  assert (TAIL : forall l k, forallb ValidateModel.is_none l = true -> nth k l ONone = ONone).
  { induction l as [|x l IHl]; intros k Hl; [destruct k; reflexivity|]. cbn in Hl. apply andb_prop in Hl. destruct Hl as [Hx Hl].
    destruct k; [destruct x; try discriminate; reflexivity|apply IHl; exact Hl]. }
  destruct i as [|i].
  - cbn in Hi. subst op. cbn [from_first_none] in H. cbn [forallb] in H. apply andb_prop in H. destruct H as [_ H]. apply TAIL. exact H.
  - cbn [nth] in Hi. destruct op; cbn [from_first_none] in H;
      try (eapply IH; [exact H| |exact Hi]; lia).
    cbn [forallb] in H. apply andb_prop in H. destruct H as [_ H]. apply TAIL. exact H.
Qed.

Local Close Scope N_scope.

(* ------------------------------------------------------------------ the bridge to the Builder model *)
Section Bridge.
Variable T : vtables.
Variables zq x64 : bool.
Variable dec : BuilderModel.operand -> ValidateModel.operand.            (* how the validator reads an operand (x86 operand signature decoding) *)
Variable xtype : Z -> N.                                     (* register type of the extra-register signature *)
Hypothesis dec_none_l : forall o, BuilderModel.is_none o = true -> dec o = ONone.     (* an empty signature is read as "no operand" *)
(* the converse holds for an operand whose signature is "clean": the validator looks at the operand TYPE field only, so a non-empty
   signature with type 0 is also read as "no operand" *)
Definition clean (o : BuilderModel.operand) : Prop := dec o = ONone -> BuilderModel.is_none o = true.

Definition vinst_of (id opts exsig exid : Z) : vinst :=
  {| vi_id := Z.to_N id; vi_options := Z.to_N opts; vi_extra_type := xtype exsig; vi_extra_id := Z.to_N exid |}.

(* verdict of _funcs.validate for an emitter call: all six slots (Assembler: kValidateAssembler; Builder: kValidateIntermediate, virt = Compiler) *)
Definition verdict (virt : bool) (id opts exsig exid : Z) (ops : list BuilderModel.operand) : N :=
  validate T zq x64 virt (vinst_of id opts exsig exid) (map dec ops).

Lemma to_N_clear_reserved : forall o, Z.to_N (clear_reserved o) = N.ldiff (Z.to_N o) 1.
Proof.
  intros o. unfold clear_reserved, kOptReserved. destruct o as [|p|p]; [reflexivity| |reflexivity].
  cbn [Z.ldiff Z.to_N]. rewrite N2Z.id. reflexivity.
Qed.

Lemma dec_canon : forall o0 o1 o2 o3 o4 o5, map dec (canon_ops o0 o1 o2 o3 o4 o5) = map dec [o0; o1; o2; o3; o4; o5].
Proof.
  intros. assert (DN : dec op_none = ONone) by (apply dec_none_l; reflexivity).
  assert (D : forall o, BuilderModel.is_none o = true -> dec o = ONone) by (intros; now apply dec_none_l).
  unfold canon_ops, op_count.
  destruct (BuilderModel.is_none o5) eqn:E5; [|reflexivity]. destruct (BuilderModel.is_none o4) eqn:E4; [|cbn; now rewrite DN, (D o5)].
  destruct (BuilderModel.is_none o3) eqn:E3; [|cbn; now rewrite DN, (D o5), (D o4)].
  destruct (BuilderModel.is_none o2) eqn:E2; [|cbn; now rewrite DN, (D o5), (D o4), (D o3)].
  destruct (BuilderModel.is_none o1) eqn:E1; [|cbn; now rewrite DN, (D o5), (D o4), (D o3), (D o2)].
  destruct (BuilderModel.is_none o0) eqn:E0; cbn; rewrite DN, (D o5), (D o4), (D o3), (D o2), (D o1), ?(D o0) by assumption; reflexivity.
Qed.

(* VALIDATION PARITY: the call the Builder replays for the node it recorded (options without the reserved bit, operands through op_array)
   gets the verdict the original call gets - from the Assembler directly, or from the Builder at record time *)
Theorem validation_parity : forall virt b id o0 o1 o2 o3 o4 o5,
  match node_ecalls (inst_node b id o0 o1 o2 o3 o4 o5) with
  | [EInst id' opts' es' ei' ops' _] =>
      verdict virt id' opts' es' ei' ops' = verdict virt id (p_opts b) (p_exsig b) (p_exid b) [o0; o1; o2; o3; o4; o5]
  | _ => False
  end.
Proof.
  intros. rewrite inst_node_faithful. unfold verdict. rewrite dec_canon. unfold vinst_of. rewrite to_N_clear_reserved.
  apply (validate_ignores_reserved T zq x64 virt {| vi_id := Z.to_N id; vi_options := Z.to_N (p_opts b); vi_extra_type := xtype (p_exsig b); vi_extra_id := Z.to_N (p_exid b) |}).
Qed.

(* an accepted call has no operand after an empty slot ... *)
Theorem accepted_no_operand_after_hole : forall virt id opts es ei o0 o1 o2 o3 o4 o5,
  Forall clean [o0; o1; o2; o3; o4; o5] ->
  verdict virt id opts es ei [o0; o1; o2; o3; o4; o5] = E_Ok ->
  forall i j, (i < j)%nat -> BuilderModel.is_none (nth i [o0; o1; o2; o3; o4; o5] op_none) = true ->
              BuilderModel.is_none (nth j [o0; o1; o2; o3; o4; o5] op_none) = true.
Proof.
  intros virt id opts es ei o0 o1 o2 o3 o4 o5 HC H i j Hij Hi. unfold verdict in H. apply accepted_has_no_gap in H.
  assert (DN : dec op_none = ONone) by (apply dec_none_l; reflexivity).
  assert (CL : clean (nth j [o0; o1; o2; o3; o4; o5] op_none)).
  { destruct (le_lt_dec (length [o0; o1; o2; o3; o4; o5]) j) as [L|L]; [rewrite nth_overflow by exact L; intros _; reflexivity|].
    eapply Forall_forall; [exact HC|apply nth_In; exact L]. }
  apply CL. rewrite <- (map_nth dec). rewrite DN. eapply no_gap_nth; [exact H|exact Hij|].
  rewrite <- DN. rewrite (map_nth dec). rewrite DN. apply dec_none_l. exact Hi.
Qed.

(* ... so for accepted calls the unrepaired operand count is the repaired one: under strict validation the node never lost an operand *)
Theorem accepted_counts_agree : forall virt id opts es ei o0 o1 o2 o3 o4 o5,
  Forall clean [o0; o1; o2; o3; o4; o5] ->
  verdict virt id opts es ei [o0; o1; o2; o3; o4; o5] = E_Ok ->
  op_count_legacy o0 o1 o2 o3 o4 o5 = op_count o0 o1 o2 o3 o4 o5.
Proof.
  intros virt id opts es ei o0 o1 o2 o3 o4 o5 HC H.
  pose proof (accepted_no_operand_after_hole virt id opts es ei o0 o1 o2 o3 o4 o5 HC H) as G.
  pose proof (G 3%nat 4%nat ltac:(lia)) as G34. pose proof (G 3%nat 5%nat ltac:(lia)) as G35. pose proof (G 4%nat 5%nat ltac:(lia)) as G45.
  cbn [nth] in G34, G35, G45. unfold op_count_legacy, op_count.
  destruct (BuilderModel.is_none o3) eqn:E3, (BuilderModel.is_none o4) eqn:E4, (BuilderModel.is_none o5) eqn:E5; cbn [negb];
    try reflexivity; try (specialize (G34 eq_refl); discriminate); try (specialize (G35 eq_refl); discriminate); try (specialize (G45 eq_refl); discriminate).
Qed.

End Bridge.

(* ------------------------------------------------------------------ non-vacuity (a one-instruction table without signatures; operands are
   read as "empty" or "an immediate"): an accepted call, the same call with the reserved bit, and a refused call with an operand after a hole *)
Definition T0 : vtables :=
  {| vt_count := 1; vt_inst := [(0, 0, 0, 0)%N]; vt_isig := []; vt_osig := []; vt_rt_opflags := [];
     vt_vd86 := {| vd_reg_mask := []; vd_base_regs := 0; vd_index_regs := 0 |};
     vt_vd64 := {| vd_reg_mask := []; vd_base_regs := 0; vd_index_regs := 0 |} |}.
Definition dec0 (o : BuilderModel.operand) : ValidateModel.operand := if BuilderModel.is_none o then ONone else OImm 0.

Lemma dec0_none : forall o, BuilderModel.is_none o = true -> dec0 o = ONone.
Proof. intros o H. unfold dec0. now rewrite H. Qed.

Example verdict_accepts :
  verdict T0 false true dec0 (fun _ => 0%N) false 0 0 0 0 [mkOp 4 0 7 0; op_none; op_none; op_none; op_none; op_none] = E_Ok /\
  verdict T0 false true dec0 (fun _ => 0%N) false 0 1 0 0 [mkOp 4 0 7 0; op_none; op_none; op_none; op_none; op_none] = E_Ok.
Proof. split; vm_compute; reflexivity. Qed.

Example verdict_refuses_hole :
  verdict T0 false true dec0 (fun _ => 0%N) false 0 0 0 0 [mkOp 4 0 7 0; op_none; op_none; op_none; mkOp 4 0 9 0; op_none] = E_InvalidInstruction /\
  op_count_legacy (mkOp 4 0 7 0) op_none op_none op_none (mkOp 4 0 9 0) op_none <> op_count (mkOp 4 0 7 0) op_none op_none op_none (mkOp 4 0 9 0) op_none.
Proof. split; [vm_compute; reflexivity|vm_compute; discriminate]. Qed.

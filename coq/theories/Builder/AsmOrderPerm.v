(* C08 - the patches of a section's expression entries COMMUTE (their sites are disjoint), so the relocated bytes can be computed from the
   entries in ANY order - in particular from the machine's own relocation list filtered by section (whose order interleaves sections) *)
From Coq Require Import ZArith List Bool Lia Arith Permutation.
From Verif Require Import Base.ZBits Codec.OffsetModel Labels.LabelsModel Labels.LabelsProofs Labels.LabelsExact Labels.LabelsAbs
  Builder.AsmOrder Builder.AsmOrderAny Builder.AsmOrderEffect Builder.AsmOrderBytes.
Import ListNotations.
Local Open Scope Z_scope.

(* ------------------------------------------------------------------ patches at the level of list positions *)
Definition patchn {A} (bs : list A) (n : nat) (d : list A) : list A := firstn n bs ++ d ++ skipn (n + length d) bs.

Lemma patch_patchn : forall bs off d, patch bs off d = patchn bs (Z.to_nat off) d.
Proof. reflexivity. Qed.

Lemma nth_firstn' : forall {A} n (l : list A) i, (i < n)%nat -> nth_error (firstn n l) i = nth_error l i.
Proof. induction n; intros l i H; [lia|]. destruct l; [now destruct i|]. destruct i; [reflexivity|]. cbn. apply IHn. lia. Qed.

Lemma nth_skipn' : forall {A} n (l : list A) i, nth_error (skipn n l) i = nth_error l (n + i).
Proof. induction n; intros l i; [reflexivity|]. destruct l; [now destruct i|]. cbn. apply IHn. Qed.

Lemma patchn_length : forall {A} (bs : list A) n d, (n + length d <= length bs)%nat -> length (patchn bs n d) = length bs.
Proof. intros. unfold patchn. rewrite !app_length, firstn_length, skipn_length. lia. Qed.

Lemma patchn_nth : forall {A} (bs : list A) n d i, (n + length d <= length bs)%nat ->
  nth_error (patchn bs n d) i = if (n <=? i)%nat && (i <? n + length d)%nat then nth_error d (i - n) else nth_error bs i.
Proof.
  intros A bs n d i H. unfold patchn.
  assert (FL : length (firstn n bs) = n) by (rewrite firstn_length; lia).
  destruct (Nat.leb_spec n i) as [L1|L1]; cbn [andb].
  - rewrite nth_error_app2 by lia. rewrite FL. destruct (Nat.ltb_spec i (n + length d)) as [L2|L2].
    + rewrite nth_error_app1 by lia. reflexivity.
    + rewrite nth_error_app2 by lia. rewrite nth_skipn'. f_equal. lia.
  - rewrite nth_error_app1 by lia. apply nth_firstn'. exact L1.
Qed.

Lemma patchn_comm : forall {A} (bs : list A) n1 d1 n2 d2,
  (n1 + length d1 <= length bs)%nat -> (n2 + length d2 <= length bs)%nat -> (n1 + length d1 <= n2 \/ n2 + length d2 <= n1)%nat ->
  patchn (patchn bs n1 d1) n2 d2 = patchn (patchn bs n2 d2) n1 d1.
Proof.
  intros A bs n1 d1 n2 d2 B1 B2 D. apply list_eq_nth_error. intros i.
  assert (L1 : length (patchn bs n1 d1) = length bs) by (apply patchn_length; exact B1).
  assert (L2 : length (patchn bs n2 d2) = length bs) by (apply patchn_length; exact B2).
  rewrite (patchn_nth (patchn bs n1 d1)) by (rewrite L1; exact B2). rewrite (patchn_nth (patchn bs n2 d2)) by (rewrite L2; exact B1).
  rewrite !patchn_nth by assumption.
  destruct (Nat.leb_spec n1 i), (Nat.ltb_spec i (n1 + length d1)), (Nat.leb_spec n2 i), (Nat.ltb_spec i (n2 + length d2)); cbn [andb]; try reflexivity; lia.
Qed.

(* ------------------------------------------------------------------ sites *)
Section Perm.
Variable L : list (option (nat * Z)).

Definition disj (a b : rghost) : Prop :=
  forall d1 d2, site_patch L a = Some d1 -> site_patch L b = Some d2 -> rg_off a + zlen d1 <= rg_off b \/ rg_off b + zlen d2 <= rg_off a.

Lemma disj_sym : forall a b, disj a b -> disj b a.
Proof. intros a b H d1 d2 A B. destruct (H d2 d1 B A); [right|left]; assumption. Qed.

Lemma apply_site_len : forall bs rg, in_bounds L (zlen bs) rg -> zlen (apply_site L bs rg) = zlen bs.
Proof. intros bs rg H. unfold apply_site. destruct (site_patch L rg) as [d|] eqn:E; [|reflexivity]. destruct (H d E). apply patch_len; assumption. Qed.

Lemma apply_site_comm : forall bs a b, in_bounds L (zlen bs) a -> in_bounds L (zlen bs) b -> disj a b ->
  apply_site L (apply_site L bs a) b = apply_site L (apply_site L bs b) a.
Proof.
  intros bs a b Ba Bb D. unfold apply_site. destruct (site_patch L a) as [d1|] eqn:E1; destruct (site_patch L b) as [d2|] eqn:E2; try reflexivity.
  destruct (Ba d1 E1) as [A0 A1]. destruct (Bb d2 E2) as [B0 B1]. rewrite !patch_patchn. unfold zlen in *.
  apply patchn_comm; [lia|lia|]. destruct (D d1 d2 E1 E2) as [X|X]; unfold zlen in X; [left|right]; lia.
Qed.

Inductive PW (R : rghost -> rghost -> Prop) : list rghost -> Prop :=
| PW_nil : PW R []
| PW_cons : forall a l, Forall (R a) l -> PW R l -> PW R (a :: l).

Lemma PW_perm : forall (R : rghost -> rghost -> Prop) l l', (forall a b, R a b -> R b a) -> Permutation l l' -> PW R l -> PW R l'.
Proof.
  intros R l l' SYM P. induction P; intros H.
  - constructor.
  - inversion H; subst. constructor; [eapply Permutation_Forall; eassumption|auto].
  - inversion H as [|? ? F1 H1]; subst. inversion H1 as [|? ? F2 H2]; subst. inversion F1; subst.
    constructor; [constructor; [apply SYM; assumption|assumption]|constructor; assumption].
  - auto.
Qed.

Lemma PW_snoc : forall (R : rghost -> rghost -> Prop) l x, PW R l -> Forall (fun a => R a x) l -> PW R (l ++ [x]).
Proof.
  intros R l x H. induction H; intros F; cbn; [constructor; constructor|]. inversion F; subst.
  constructor; [apply Forall_app; split; [assumption|constructor; [assumption|constructor]]|auto].
Qed.

Theorem apply_sites_perm : forall rels rels', Permutation rels rels' ->
  forall bs, Forall (in_bounds L (zlen bs)) rels -> PW disj rels -> apply_sites L rels bs = apply_sites L rels' bs.
Proof.
  intros rels rels' P. induction P; intros bs FB PD.
  - reflexivity.
  - inversion FB; subst. inversion PD; subst. unfold apply_sites. cbn [fold_left]. apply IHP; [rewrite apply_site_len by assumption; assumption|assumption].
  - inversion FB as [|? ? By FB1]; subst. inversion FB1 as [|? ? Bx FB2]; subst.
    inversion PD as [|? ? Fy PD1]; subst. inversion Fy; subst.
    unfold apply_sites. cbn [fold_left]. f_equal. apply apply_site_comm; assumption.
  - rewrite (IHP1 bs FB PD). apply IHP2; [eapply Permutation_Forall; eassumption|eapply PW_perm; [exact disj_sym|eassumption|assumption]].
Qed.

End Perm.

(* ------------------------------------------------------------------ the sites of ANY fold are inside the section and pairwise disjoint *)
Lemma lstep_rels_shape : forall L nl k st o,
  l_len st <= l_len (lstep nl k st o) /\
  (l_rels (lstep nl k st o) = l_rels st \/
   exists rg, l_rels (lstep nl k st o) = l_rels st ++ [rg] /\ rg_sec rg = k /\
     (site_patch L rg = None \/ (rg_off rg = l_len st /\ l_len (lstep nl k st o) = l_len st + rg_size rg /\ size_ok (rg_size rg) = true))).
Proof.
  intros L nl k st o. destruct o as [bs|n|kd rel l pre w0 post|l|l size addend pre post|l b sz]; cbn [lstep].
  - cbn. rewrite app_nil_r. pose proof (zlen_nonneg bs). split; [lia|now left].
  - destruct (0 <=? n) eqn:E; [apply Z.leb_le in E; cbn; rewrite app_nil_r; split; [lia|now left]|split; [lia|now left]].
  - destruct (negb (Nat.ltb l nl)); [split; [lia|now left]|]. destruct (negb (hole_ok kd w0)); [split; [lia|now left]|].
    pose proof (zlen_nonneg pre). pose proof (zlen_nonneg post). pose proof (vsize_nonneg kd).
    destruct (assoc l (l_binds st)); [destruct (write_offset _ _ _)|]; cbn; rewrite ?app_nil_r; (split; [lia|now left]).
  - destruct (Nat.ltb l nl); [|split; [lia|now left]]. destruct (assoc l (l_binds st)); [split; [lia|now left]|].
    destruct (lprecheck l (l_len st) (l_items st)); cbn; (split; [lia|now left]).
  - destruct (negb (Nat.ltb l nl)); [split; [lia|now left]|]. destruct (negb (size_ok size)) eqn:EZ; [split; [lia|now left]|].
    apply negb_false_iff in EZ. pose proof (size_ok_nonneg size EZ). pose proof (zlen_nonneg pre). pose proof (zlen_nonneg post).
    cbn. split; [lia|]. right. eexists. split; [reflexivity|]. split; [reflexivity|]. left. reflexivity.
  - destruct (negb (Nat.ltb l nl && Nat.ltb b nl)); [split; [lia|now left]|]. destruct (negb (size_ok sz)) eqn:EZ; [split; [lia|now left]|].
    apply negb_false_iff in EZ. pose proof (size_ok_nonneg sz EZ).
    destruct (assoc l (l_binds st)) as [lo|]; [destruct (assoc b (l_binds st)) as [bo|]; [destruct (delta_fits sz (lo - bo))|]|]; cbn; rewrite ?app_nil_r;
      try (split; [lia|now left]);
      (split; [lia|]; right; eexists; split; [reflexivity|]; split; [reflexivity|]; right; cbn; auto).
Qed.

Record sites_ok (L : list (option (nat * Z))) (k : nat) (st : lst) : Prop := {
  so_len : 0 <= l_len st;
  so_bounds : Forall (in_bounds L (l_len st)) (l_rels st);
  so_pw : PW (disj L) (l_rels st);
  so_sec : Forall (fun rg => rg_sec rg = k) (l_rels st)
}.

Lemma site_patch_len : forall L rg d, site_patch L rg = Some d -> zlen d = rg_size rg.
Proof. intros L rg d H. destruct (site_patch_inv _ _ _ H) as (b & ks & lo & bo & _ & _ & _ & Z1 & _ & ->). apply dbytes_len. exact Z1. Qed.

Theorem fold_sites_ok : forall L nl k os, sites_ok L k (lfold nl k os).
Proof.
  intros L nl k os. induction os as [|o os IH] using rev_ind.
  - cbn. constructor; cbn; [lia|constructor|constructor|constructor].
  - rewrite lfold_snoc. destruct IH as [A B C D]. destruct (lstep_rels_shape L nl k (lfold nl k os) o) as [LE [E|(rg & E & SK & HR)]].
    + constructor; rewrite ?E; [lia| |exact C|exact D]. eapply Forall_impl; [|exact B]. intros r. apply in_bounds_mono. exact LE.
    + constructor; rewrite ?E.
      * lia.
      * apply Forall_app. split; [eapply Forall_impl; [|exact B]; intros r; apply in_bounds_mono; exact LE|].
        constructor; [|constructor]. intros d Hd. destruct HR as [HN|(HO & HL & HS)]; [congruence|].
        rewrite (site_patch_len _ _ _ Hd), HO, HL. lia.
      * apply PW_snoc; [exact C|]. apply Forall_forall. intros a Ha d1 d2 H1 H2. left.
        destruct HR as [HN|(HO & HL & HS)]; [congruence|]. rewrite HO.
        assert (BA : in_bounds L (l_len (lfold nl k os)) a) by (eapply Forall_forall; [exact B|exact Ha]). destruct (BA d1 H1). lia.
      * apply Forall_app. split; [exact D|constructor; [exact SK|constructor]].
Qed.

Lemma flat_map_single : forall {A} (f : nat -> list A) k n a, (a <= k < a + n)%nat -> (forall j, j <> k -> f j = []) -> flat_map f (seq a n) = f k.
Proof.
  intros A f k. induction n as [|n IH]; intros a H HO; [lia|]. cbn [seq flat_map]. destruct (Nat.eq_dec a k) as [->|N].
  - rewrite (flat_map_seq_ext f (fun _ => []) n (S k)) by (intros j Hj; apply HO; lia).
    assert (Z0 : forall m b, flat_map (fun _ : nat => @nil A) (seq b m) = []) by (induction m; intros; cbn; auto). rewrite Z0. apply app_nil_r.
  - rewrite (HO a N). cbn. apply IH; [lia|exact HO].
Qed.

Lemma filter_sec_allrels : forall nl ns r k, (k < S ns)%nat ->
  filter (fun rg => Nat.eqb (rg_sec rg) k) (allrels nl ns r) = l_rels (lfold nl k (proj k r)).
Proof.
  intros nl ns r k Hk. unfold allrels. rewrite filter_flat_map.
  assert (OTHER : forall j, j <> k -> filter (fun rg => Nat.eqb (rg_sec rg) k) (l_rels (lfold nl j (proj j r))) = []).
  { intros j Hj. pose proof (so_sec _ _ _ (fold_sites_ok [] nl j (proj j r))) as S.
    induction S as [|x l Hx _ IH]; [reflexivity|]. cbn. rewrite Hx. assert (Nat.eqb j k = false) as -> by (apply Nat.eqb_neq; exact Hj). exact IH. }
  rewrite (flat_map_single (fun j => filter (fun rg => Nat.eqb (rg_sec rg) k) (l_rels (lfold nl j (proj j r)))) k (S ns) 0 ltac:(lia) OTHER).
  pose proof (so_sec _ _ _ (fold_sites_ok [] nl k (proj k r))) as S. induction S as [|x l Hx _ IH]; [reflexivity|]. cbn. rewrite Hx, Nat.eqb_refl, IH. reflexivity.
Qed.

(* THE MACHINE'S OWN ENTRIES, IN ANY ORDER: for any program, patching the bytes of section k of C03's machine (after layout + resolution) at
   the entries of its relocation list that belong to section k - in the order the machine created them, which interleaves sections -
   gives the bytes of the section's effect program *)
Theorem machine_relocated_bytes : forall L offs nl ns t, length L = nl -> tags_ok ns t -> NoDup (bound_labels t) ->
  let r := res_from (run init (prelude nl ns)) t in
  let s := run init ((prelude nl ns ++ expand t) ++ [OResolve offs]) in
  forall k, (k < S ns)%nat ->
    apply_sites L (filter (fun rg => Nat.eqb (rg_sec rg) k) (map rghost_of (relocs s))) (gbytes L offs (map (gi (refs s)) (s_items (nsec s k))))
    = gbytes L offs (l_items (lfold nl k (map (eff L) (proj k r)))).
Proof.
  intros L offs nl ns t HLen HT HN r s k Hk.
  destruct (machine_items_any nl ns t offs HT HN) as [IT PR]. fold r in IT, PR. fold s in IT, PR.
  pose proof (bytes_vs_effect L offs nl ns t HLen HT HN k Hk) as B. fold r in B.
  pose proof (fold_sites_ok L nl k (proj k r)) as SO.
  rewrite (IT k Hk).
  assert (P : Permutation (l_rels (lfold nl k (proj k r))) (filter (fun rg => Nat.eqb (rg_sec rg) k) (map rghost_of (relocs s)))).
  { rewrite <- (filter_sec_allrels nl ns r k Hk). apply Permutation_sym. apply Permutation_filter'. exact PR. }
  rewrite <- (apply_sites_perm L _ _ P); [symmetry; exact (sb_bytes _ _ _ _ B)| |exact (so_pw _ _ _ SO)].
  rewrite <- (sb_len _ _ _ _ B). exact (so_bounds _ _ _ SO).
Qed.

(* ... hence, for two interleavings, EQUAL relocated bytes computed from each machine's own state alone *)
Theorem machine_relocated_bytes_equal : forall nl ns t1 t2 offs,
  (forall k, proj k t1 = proj k t2) -> tags_ok ns t1 -> tags_ok ns t2 -> NoDup (bound_labels t1) ->
  let s0 := run init (prelude nl ns) in
  no_misfit s0 t1 -> no_misfit s0 t2 -> nowrap nl ns (res_from s0 t1) offs ->
  let s1 := run init ((prelude nl ns ++ expand t1) ++ [OResolve offs]) in
  let s2 := run init ((prelude nl ns ++ expand t2) ++ [OResolve offs]) in
  let L := labels s1 in
  labels s2 = L /\
  forall k, (k < S ns)%nat ->
    apply_sites L (filter (fun rg => Nat.eqb (rg_sec rg) k) (map rghost_of (relocs s1))) (gbytes L offs (map (gi (refs s1)) (s_items (nsec s1 k)))) =
    apply_sites L (filter (fun rg => Nat.eqb (rg_sec rg) k) (map rghost_of (relocs s2))) (gbytes L offs (map (gi (refs s2)) (s_items (nsec s2 k)))).
Proof.
  intros nl ns t1 t2 offs HP T1 T2 N1 s0 M1 M2 W1 s1 s2 L.
  assert (N2 : NoDup (bound_labels t2)) by (eapply bound_once_transfers; eassumption).
  pose proof (nowrap_transfers nl ns t1 t2 offs HP T1 T2 N1 M1 M2 W1) as W2. fold s0 in W2.
  destruct (order_irrelevant_any nl ns t1 t2 offs HP T1 T2 N1 M1 M2 W1 W2) as [HL _]. fold s1 s2 in HL.
  destruct (effect_image_any nl ns t1 t2 offs HP T1 T2 N1 M1 M2 W1 W2) as [EQ _]. fold s0 in EQ. fold s1 in EQ. fold L in EQ.
  pose proof (final_char_any nl ns t1 offs T1 N1 W1) as F1. fold s0 in F1. fold s1 in F1.
  assert (HLen : length L = nl) by (exact (f_nl _ _ _ _ _ F1)).
  split; [symmetry; exact HL|]. intros k Hk.
  pose proof (machine_relocated_bytes L offs nl ns t1 HLen T1 N1 k Hk) as R1. pose proof (machine_relocated_bytes L offs nl ns t2 HLen T2 N2 k Hk) as R2.
  fold s0 in R1, R2. fold s1 in R1. fold s2 in R2. rewrite R1, R2, (EQ k). reflexivity.
Qed.

(* non-vacuity, computed on the machine states of the pair of AsmOrderAny.delta_order_matters: the machine that holds [0] + one entry and the
   machine that holds [3] without entry both relocate, from their own state alone, to [3] *)
Example machine_relocated_bytes_example :
  let s1 := run init ((prelude 2 1 ++ expand ex_after) ++ [OResolve [0; 4096]]) in
  let s2 := run init ((prelude 2 1 ++ expand ex_before) ++ [OResolve [0; 4096]]) in
  gbytes (labels s1) [0; 4096] (map (gi (refs s2)) (s_items (nsec s2 0))) = [0] /\
  length (filter (fun rg => Nat.eqb (rg_sec rg) 0) (map rghost_of (relocs s2))) = 1%nat /\
  apply_sites (labels s1) (filter (fun rg => Nat.eqb (rg_sec rg) 0) (map rghost_of (relocs s1))) (gbytes (labels s1) [0; 4096] (map (gi (refs s1)) (s_items (nsec s1 0)))) = [3] /\
  apply_sites (labels s1) (filter (fun rg => Nat.eqb (rg_sec rg) 0) (map rghost_of (relocs s2))) (gbytes (labels s1) [0; 4096] (map (gi (refs s2)) (s_items (nsec s2 0)))) = [3].
Proof. cbv zeta. repeat split; vm_compute; reflexivity. Qed.

(* C08 - label deltas BY EFFECT: the bytes embed_label_delta writes at once (both labels bound in one section at the time of the call;
   C03's model, ODeltaChecked) are the bytes relocation writes for the expression entry it records otherwise (C04's model,
   relocate_entry on entry_of_reloc) - provided the difference fits the field, which is exactly the range check of the immediate path.
   So the one shape order irrelevance excludes ([delta_local]: both labels in one section other than the delta's) differs between the
   two orders only in WHEN the same bytes are written.  No instruction encoder is involved. *)
From Coq Require Import ZArith List Bool Lia.
From Verif Require Import Base.ZBits Codec.OffsetModel Codec.OffsetProofs Labels.LabelsModel Reloc.RelocModel.
Import ListNotations.
Local Open Scope Z_scope.

Lemma to_i64_small : forall x, - 2 ^ 63 <= x < 2 ^ 63 -> to_i64 (wrap 64 x) = x.
Proof.
  intros x H. unfold to_i64, sext, wrap. rewrite Z.mod_mod by lia.
  destruct (Z_lt_le_dec x 0) as [N|N].
  - assert (E : x mod 2 ^ 64 = x + 2 ^ 64).
    { symmetry. apply (Z.mod_unique_pos _ _ (-1)); lia. }
    rewrite E. destruct (x + 2 ^ 64 <? 2 ^ (64 - 1)) eqn:EL; [apply Z.ltb_lt in EL; change (64 - 1) with 63 in EL; lia|lia].
  - rewrite Z.mod_small by lia. destruct (x <? 2 ^ (64 - 1)) eqn:EL; [reflexivity|]. apply Z.ltb_ge in EL. change (64 - 1) with 63 in EL. lia.
Qed.

(* what the immediate path of embed_label_delta appends (LabelsModel.step, ODeltaChecked, accepted case) *)
Definition delta_bytes (size d : Z) : list Z := le_split (Z.to_nat size) (wrap (8 * size) d).

Theorem delta_entry_effect : forall base asize atoff slots (s : state) offs re l b size ls lo bo,
  rl_type re = Expr l b -> rl_size re = size -> (size = 1 \/ size = 2 \/ size = 4 \/ size = 8) ->
  nth_error (labels s) l = Some (Some (ls, lo)) -> nth_error (labels s) b = Some (Some (ls, bo)) ->
  - 2 ^ (8 * size - 1) <= lo - bo < 2 ^ (8 * size - 1) ->
  exists o, relocate_entry base asize atoff slots (entry_of_reloc s offs re) = inl (o, slots) /\
            o_rewrite o = None /\ o_slot o = None /\
            le_split (Z.to_nat size) (o_word o) = delta_bytes size (lo - bo).
Proof.
  intros base asize atoff slots s offs re l b size ls lo bo HT HS HSZ EL EB FIT.
  unfold relocate_entry, entry_of_reloc. cbn [e_kind e_fmt e_old]. rewrite HT. unfold label_pos. rewrite EL, EB.
  replace (nth ls offs 0 + lo - (nth ls offs 0 + bo)) with (lo - bo) by ring.
  assert (I64 : - 2 ^ 63 <= lo - bo < 2 ^ 63).
  { assert (2 ^ (8 * size - 1) <= 2 ^ 63) by (apply Z.pow_le_mono_r; lia). lia. }
  rewrite (to_i64_small _ I64). rewrite HS.
  assert (Hwf : wf_contig (sfmt size)) by (unfold wf_contig, sfmt; cbn [vsize bits shift discard]; lia).
  pose proof (signed_spec (sfmt size) (lo - bo) eq_refl Hwf I64) as SP.
  unfold write_offset. destruct (encode_offset (sfmt size) (lo - bo)) as [m|] eqn:EM.
  - destruct SP as [_ ->]. cbn [sfmt bits shift discard]. change (2 ^ 0) with 1. rewrite Z.div_1_r, Z.mul_1_r, Z.lor_0_l.
    eexists. split; [reflexivity|]. cbn [o_rewrite o_slot o_word]. repeat split.
  - exfalso. apply SP. unfold signed_ok, sfmt. cbn [bits discard]. change (2 ^ 0) with 1. rewrite Z.mod_1_r, Z.div_1_r. split; [reflexivity|exact FIT].
Qed.

(* the range condition is the immediate path's own check (size 8 is never refused there: every int64 difference fits) *)
Lemma delta_check_is_fit : forall size d, (size = 1 \/ size = 2 \/ size = 4) ->
  ((size =? 8) || ((- 2 ^ (8 * size - 1) <=? d) && (d <? 2 ^ (8 * size - 1)))) = true <-> - 2 ^ (8 * size - 1) <= d < 2 ^ (8 * size - 1).
Proof.
  intros size d HS. assert (size =? 8 = false) as -> by (apply Z.eqb_neq; lia). cbn [orb].
  rewrite andb_true_iff, Z.leb_le, Z.ltb_lt. tauto.
Qed.

(* ------------------------------------------------------------------ non-vacuity: an instance, and the hypothesis is needed *)
Definition ex_state : state := set_labels init [Some (1%nat, 100); Some (1%nat, 40)].
Definition ex_entry (size : Z) : reloc :=
  {| rl_type := Expr 0 1; rl_sec := 0; rl_off := 8; rl_lead := 0; rl_size := size; rl_trail := 0; rl_payload := 0; rl_target := None;
     rl_label := 0; rl_addend := 0 |}.

Example delta_entry_effect_instance :
  exists o, relocate_entry 65536 8 0 [] (entry_of_reloc ex_state [0; 4096] (ex_entry 1)) = inl (o, []) /\
            le_split 1 (o_word o) = [60] /\ delta_bytes 1 (100 - 40) = [60].
Proof. eexists. split; [vm_compute; reflexivity|]. split; reflexivity. Qed.

(* a difference outside the field's signed range (label 0 at 300: 260 does not fit one byte): relocation refuses the entry - as the
   immediate path refuses the call (ODeltaChecked: kInvalidDisplacement) *)
Example delta_entry_out_of_range :
  relocate_entry 65536 8 0 [] (entry_of_reloc (set_labels init [Some (1%nat, 300); Some (1%nat, 40)]) [0; 4096] (ex_entry 1)) = inr RInvalidEntry /\
  snd (step (set_labels init [Some (1%nat, 300); Some (1%nat, 40)]) (ODeltaChecked 0 1 1)) = EInvalidDisp.
Proof. split; vm_compute; reflexivity. Qed.

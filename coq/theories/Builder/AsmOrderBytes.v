(* C08 - the relocated BYTES.  [gbytes] renders a section's items byte for byte (a gap of n bytes is n filler values, a reference its
   resolved word); [apply_sites] applies to those bytes the patch of every expression entry of the section that is resolvable inside one
   section (both labels bound there by the table L, difference in range) - the bytes DeltaEffect.delta_entry_effect proves C04's
   relocate_entry writes at that entry.  Theorem: for ANY program, patching the bytes the run really holds gives exactly the bytes of its
   effect program (bytes_vs_effect); hence for two interleavings the patched bytes are EQUAL (patched_bytes_equal). *)
From Coq Require Import ZArith List Bool Lia Arith Permutation.
From Verif Require Import Base.ZBits Codec.OffsetModel Labels.LabelsModel Labels.LabelsProofs Labels.LabelsExact Labels.LabelsAbs
  Reloc.RelocModel Builder.AsmOrder Builder.AsmOrderAny Builder.AsmOrderEffect Builder.DeltaEffect.
Import ListNotations.
Local Open Scope Z_scope.

Section Bytes.
Variable L : list (option (nat * Z)).
Variable offs : list Z.

Definition gb1 (it : gitem) : list Z :=
  match it with
  | GRaw bs => bs
  | GGap n => repeat (-1) (Z.to_nat n)
  | GRef g => le_split (Z.to_nat (vsize (fmt_of_kind (g_kind g)))) (wfin L offs g)
  end.
Definition gbytes (its : list gitem) : list Z := flat_map gb1 its.

Definition patch (bs : list Z) (off : Z) (new : list Z) : list Z :=
  firstn (Z.to_nat off) bs ++ new ++ skipn (Z.to_nat off + length new) bs.

Definition site_patch (rg : rghost) : option (list Z) :=
  match rg_base rg with
  | Some b =>
    match nth_error L (rg_label rg), nth_error L b with
    | Some (Some (ls, lo)), Some (Some (bs, bo)) =>
        if Nat.eqb ls bs && size_ok (rg_size rg) && delta_fits (rg_size rg) (lo - bo) then Some (dbytes (rg_size rg) (lo - bo)) else None
    | _, _ => None
    end
  | None => None
  end.
Definition apply_site (acc : list Z) (rg : rghost) : list Z :=
  match site_patch rg with Some d => patch acc (rg_off rg) d | None => acc end.
Definition apply_sites (rels : list rghost) (bs : list Z) : list Z := fold_left apply_site rels bs.

Lemma zlen_app : forall {A} (a b : list A), zlen (a ++ b) = zlen a + zlen b.
Proof. intros. unfold zlen. rewrite app_length. lia. Qed.

Lemma gbytes_app : forall a b, gbytes (a ++ b) = gbytes a ++ gbytes b.
Proof. intros. unfold gbytes. apply flat_map_app. Qed.

Lemma patch_len : forall bs off d, 0 <= off -> off + zlen d <= zlen bs -> zlen (patch bs off d) = zlen bs.
Proof.
  intros bs off d H0 H1. unfold patch, zlen in *. rewrite !app_length, firstn_length, skipn_length. lia.
Qed.

Lemma patch_app : forall bs x off d, 0 <= off -> off + zlen d <= zlen bs -> patch (bs ++ x) off d = patch bs off d ++ x.
Proof.
  intros bs x off d H0 H1. unfold patch, zlen in *.
  assert (A : (Z.to_nat off <= length bs)%nat) by lia. assert (B : (Z.to_nat off + length d <= length bs)%nat) by lia.
  rewrite firstn_app, skipn_app.
  replace (Z.to_nat off - length bs)%nat with O by lia. replace (Z.to_nat off + length d - length bs)%nat with O by lia.
  cbn [firstn skipn]. rewrite app_nil_r, <- !app_assoc. reflexivity.
Qed.

Lemma patch_tail : forall bs z d, length z = length d -> patch (bs ++ z) (zlen bs) d = bs ++ d.
Proof.
  intros bs z d H. unfold patch, zlen. rewrite Nat2Z.id. rewrite firstn_app, Nat.sub_diag, firstn_all. cbn [firstn]. rewrite app_nil_r.
  rewrite skipn_app. rewrite skipn_all2 by lia. replace (length bs + length d - length bs)%nat with (length z) by lia.
  rewrite skipn_all. now rewrite !app_nil_r.
Qed.

Definition in_bounds (len : Z) (rg : rghost) : Prop := forall d, site_patch rg = Some d -> 0 <= rg_off rg /\ rg_off rg + zlen d <= len.

Lemma apply_sites_app : forall rels bs x, Forall (in_bounds (zlen bs)) rels ->
  apply_sites rels (bs ++ x) = apply_sites rels bs ++ x /\ zlen (apply_sites rels bs) = zlen bs.
Proof.
  induction rels as [|rg rels IH]; intros bs x H; [split; reflexivity|]. inversion H as [|? ? Hb Hr]; subst.
  unfold apply_sites. cbn [fold_left]. fold (apply_sites rels (apply_site (bs ++ x) rg)). fold (apply_sites rels (apply_site bs rg)).
  unfold apply_site. destruct (site_patch rg) as [d|] eqn:E; [|apply IH; exact Hr].
  destruct (Hb d E) as [B0 B1]. rewrite patch_app by assumption.
  assert (LEN : zlen (patch bs (rg_off rg) d) = zlen bs) by (apply patch_len; assumption).
  destruct (IH (patch bs (rg_off rg) d) x ltac:(rewrite LEN; exact Hr)) as [I1 I2]. split; [exact I1|]. now rewrite I2.
Qed.

Lemma apply_sites_snoc : forall rels rg bs, apply_sites (rels ++ [rg]) bs = apply_site (apply_sites rels bs) rg.
Proof. intros. unfold apply_sites. rewrite fold_left_app. reflexivity. Qed.

Lemma apply_sites_inert : forall rs bs, (forall rg, In rg rs -> site_patch rg = None) -> apply_sites rs bs = bs.
Proof.
  induction rs as [|rg rs IH]; intros bs H; [reflexivity|]. unfold apply_sites. cbn [fold_left]. unfold apply_site at 2.
  rewrite (H rg (or_introl eq_refl)). apply IH. intros r Hr. apply H. now right.
Qed.

Lemma apply_sites_app_rels : forall a b bs, apply_sites (a ++ b) bs = apply_sites b (apply_sites a bs).
Proof. intros. unfold apply_sites. apply fold_left_app. Qed.

(* ------------------------------------------------------------------ the invariant *)
Definition inertb (rg : rghost) : bool := match site_patch rg with Some _ => false | None => true end.

Record srelB (st se : lst) : Prop := {
  sb_E : srelE L st se;
  sb_rest : filter inertb (l_rels st) = l_rels se;      (* the entries that are NOT patched: exactly the entries of the effect program *)
  sb_len : l_len st = zlen (gbytes (l_items st));
  sb_bounds : Forall (in_bounds (l_len st)) (l_rels st);
  sb_bytes : gbytes (l_items se) = apply_sites (l_rels st) (gbytes (l_items st))
}.

Lemma in_bounds_mono : forall a b rg, a <= b -> in_bounds a rg -> in_bounds b rg.
Proof. intros a b rg H B d E. destruct (B d E). lia. Qed.

Lemma filter_all_true : forall {A} (f : A -> bool) l, (forall x, In x l -> f x = true) -> filter f l = l.
Proof. intros A f l H. induction l as [|x l IH]; [reflexivity|]. cbn. rewrite (H x (or_introl eq_refl)), IH; [reflexivity|]. intros y Hy. apply H. now right. Qed.

Lemma srelB_emitr : forall st se its n rs, srelB st se -> n = zlen (gbytes its) ->
  (forall rg, In rg rs -> site_patch rg = None) ->
  srelB (lemitr st its n rs) (lemitr se its n rs).
Proof.
  intros st se its n rs [E RS A B C] Hn Hi.
  assert (N0 : 0 <= n) by (rewrite Hn; apply zlen_nonneg).
  constructor; cbn [lemitr l_len l_items l_rels l_binds].
  - apply srelE_emitr; [assumption|reflexivity].
  - rewrite filter_app, RS. f_equal. apply filter_all_true. intros rg Hr. unfold inertb. now rewrite (Hi rg Hr).
  - rewrite gbytes_app, zlen_app, <- A, Hn. reflexivity.
  - apply Forall_app. split.
    + eapply Forall_impl; [|exact B]. intros rg. apply in_bounds_mono. lia.
    + apply Forall_forall. intros rg Hr d Hd. rewrite (Hi rg Hr) in Hd. discriminate.
  - rewrite !gbytes_app, C, apply_sites_app_rels.
    destruct (apply_sites_app (l_rels st) (gbytes (l_items st)) (gbytes its) ltac:(rewrite <- A; exact B)) as [X _].
    rewrite X. symmetry. apply apply_sites_inert. exact Hi.
Qed.

Lemma vsize_nonneg : forall k, 0 <= vsize (fmt_of_kind k).
Proof. destruct k; cbn; lia. Qed.

Lemma le_split_zlen : forall v w, 0 <= v -> zlen (le_split (Z.to_nat v) w) = v.
Proof. intros. unfold zlen. rewrite le_split_length. lia. Qed.

Lemma eff_id_inert : forall l b sz k off, eff L (SDelta l b sz) = SDelta l b sz ->
  site_patch {| rg_sec := k; rg_off := off; rg_lead := 0; rg_size := sz; rg_trail := 0; rg_label := l; rg_addend := 0; rg_base := Some b |} = None.
Proof.
  intros l b sz k off H. unfold site_patch. cbn [rg_base rg_label rg_size]. cbn [eff] in H.
  destruct (nth_error L l) as [[[ls lo]|]|]; try reflexivity. destruct (nth_error L b) as [[[bs bo]|]|]; try reflexivity.
  destruct (Nat.eqb ls bs && size_ok sz && delta_fits sz (lo - bo)); [discriminate|reflexivity].
Qed.

(* the same operation on both sides (an operation the effect program keeps) *)
Lemma lstep_sameB : forall nl k st se o, srelB st se -> eff L o = o -> srelB (lstep nl k st o) (lstep nl k se o).
Proof.
  intros nl k st se o R HE. pose proof R as [E RS A B C]. pose proof E as [EA EB EC ED].
  destruct o as [bs|n|kd rel l pre w0 post|l|l size addend pre post|l b sz]; cbn [lstep].
  - apply srelB_emitr; [exact R| |intros ? []]. cbn. now rewrite app_nil_r.
  - destruct (0 <=? n) eqn:EN; [|exact R]. apply Z.leb_le in EN.
    apply srelB_emitr; [exact R| |intros ? []]. cbn. rewrite app_nil_r. unfold zlen. rewrite repeat_length. lia.
  - destruct (negb (Nat.ltb l nl)); [exact R|]. destruct (negb (hole_ok kd w0)); [exact R|]. rewrite EA, EB.
    assert (SZ : zlen pre + vsize (fmt_of_kind kd) + zlen post =
                 zlen (gbytes [GRaw pre; GRef {| g_sec := k; g_site := l_len se + zlen pre; g_rel := rel; g_kind := kd; g_label := l; g_w0 := w0 |}; GRaw post])).
    { cbn. rewrite app_nil_r, !zlen_app, le_split_zlen by apply vsize_nonneg. lia. }
    destruct (assoc l (l_binds se)); [destruct (write_offset _ _ _); [|exact R]|];
      (apply srelB_emitr; [exact R|exact SZ|intros ? []]).
  - destruct (Nat.ltb l nl); [|exact R]. rewrite EB. destruct (assoc l (l_binds se)); [exact R|].
    rewrite (lprecheck_site L l (l_len st) _ _ EC), EA. destruct (lprecheck l (l_len se) (l_items se)); [|exact R].
    constructor; cbn [l_len l_items l_rels l_binds]; [|exact RS|rewrite <- EA; exact A|rewrite <- EA; exact B|exact C].
    constructor; cbn; [congruence|congruence|exact EC|exact ED].
  - destruct (negb (Nat.ltb l nl)); [exact R|]. destruct (negb (size_ok size)) eqn:EZ; [exact R|]. rewrite EA.
    apply negb_false_iff in EZ.
    apply srelB_emitr; [exact R| |].
    + cbn. rewrite app_nil_r, !zlen_app, zeros_len by (apply size_ok_nonneg; exact EZ). lia.
    + intros rg [<-|[]]. reflexivity.
  - destruct (negb (Nat.ltb l nl && Nat.ltb b nl)); [exact R|]. destruct (negb (size_ok sz)) eqn:EZ; [exact R|]. apply negb_false_iff in EZ.
    rewrite EA, EB.
    destruct (assoc l (l_binds se)) as [lo|]; [destruct (assoc b (l_binds se)) as [bo|]; [destruct (delta_fits sz (lo - bo)); [|exact R]|]|].
    + apply srelB_emitr; [exact R| |intros ? []]. cbn. rewrite app_nil_r. unfold zlen. rewrite le_split_length. pose proof (size_ok_nonneg sz EZ). lia.
    + apply srelB_emitr; [exact R| |].
      * cbn. rewrite app_nil_r, zeros_len by (apply size_ok_nonneg; exact EZ). reflexivity.
      * intros rg [<-|[]]. apply eff_id_inert. exact HE.
    + apply srelB_emitr; [exact R| |].
      * cbn. rewrite app_nil_r, zeros_len by (apply size_ok_nonneg; exact EZ). reflexivity.
      * intros rg [<-|[]]. apply eff_id_inert. exact HE.
Qed.

End Bytes.

Lemma eff_cases : forall L l b sz,
  eff L (SDelta l b sz) = SDelta l b sz \/
  exists ks lo bo, nth_error L l = Some (Some (ks, lo)) /\ nth_error L b = Some (Some (ks, bo)) /\ size_ok sz = true /\
                   delta_fits sz (lo - bo) = true /\ eff L (SDelta l b sz) = SRaw (dbytes sz (lo - bo)).
Proof.
  intros L l b sz. cbn [eff]. destruct (nth_error L l) as [[[ls lo]|]|] eqn:EL; try (now left).
  destruct (nth_error L b) as [[[bs bo]|]|] eqn:EB; try (now left).
  destruct (Nat.eqb ls bs && size_ok sz && delta_fits sz (lo - bo)) eqn:EC; [|now left].
  apply andb_prop in EC. destruct EC as [EC FT]. apply andb_prop in EC. destruct EC as [ES EZ]. apply Nat.eqb_eq in ES. subst bs.
  right. exists ls, lo, bo. repeat split; auto.
Qed.

(* THE BYTES A RUN HOLDS, PATCHED, ARE THE BYTES OF ITS EFFECT PROGRAM - any program, any label table of the right length, any layout *)
Theorem bytes_vs_effect : forall L offs nl ns t, length L = nl -> tags_ok ns t -> NoDup (bound_labels t) ->
  forall k, (k < S ns)%nat ->
    srelB L offs (lfold nl k (proj k (res_from (run init (prelude nl ns)) t))) (lfold nl k (map (eff L) (proj k (res_from (run init (prelude nl ns)) t)))).
Proof.
  intros L offs nl ns t HLen. induction t as [|x t IH] using rev_ind; intros HT HN k Hk.
  - cbn. constructor; [constructor; [reflexivity|reflexivity|constructor|reflexivity]|reflexivity|reflexivity|constructor|reflexivity].
  - apply Forall_app in HT. destruct HT as [HT Hx]. inversion Hx as [|? ? Hkx _]; subst.
    assert (HN' : NoDup (bound_labels t)) by (rewrite bound_labels_snoc in HN; eapply NoDup_app_l'; exact HN).
    set (s0 := run init (prelude (length L) ns)) in *. specialize (IH HT HN').
    destruct x as [kx o]. cbn [fst snd] in *. rewrite res_from_snoc. cbn [fst snd]. rewrite !proj_snoc. cbn [fst snd].
    destruct (Nat.eqb kx k) eqn:EK; [|rewrite !app_nil_r; apply IH; exact Hk].
    apply Nat.eqb_eq in EK. subst kx. rewrite map_app. cbn [map]. rewrite !lfold_snoc. specialize (IH k Hk).
    set (sF := run s0 (expand t)) in *.
    destruct (J_run (length L) ns (res_from s0 t) (tags_res ns t s0 HT) ltac:(rewrite bound_labels_res; exact HN') (res_local (length L) ns t HT HN')) as [HJ _].
    fold s0 in HJ. unfold s0 in HJ at 1. rewrite run_prelude_res, run_app in HJ. fold s0 in HJ. fold sF in HJ.
    destruct (resolve_one sF o) as [bs|n|kd rel l pre w0 post|l|l size addend pre post|l b sz] eqn:ER;
      try (apply lstep_sameB; [exact IH|reflexivity]).
    destruct (eff_cases L l b sz) as [HE|(ls & lo & bo & EL & EB & EZ & FT & HE)]; rewrite HE; [apply lstep_sameB; [exact IH|exact HE]|].
    apply resolve_keeps in ER. destruct ER as [_ NB].
    assert (LT : Nat.ltb l (length L) = true) by (apply Nat.ltb_lt, nth_error_Some; congruence).
    assert (LTb : Nat.ltb b (length L) = true) by (apply Nat.ltb_lt, nth_error_Some; congruence).
    cbn [lstep]. rewrite LT, LTb, EZ. cbn [andb negb].
    assert (NOTBOTH : match assoc l (l_binds (lfold (length L) k (proj k (res_from s0 t)))), assoc b (l_binds (lfold (length L) k (proj k (res_from s0 t)))) with
                      | Some _, Some _ => False | _, _ => True end).
    { rewrite (assoc_state (length L) ns _ sF k l HJ Hk), (assoc_state (length L) ns _ sF k b HJ Hk).
      destruct (nth_error (labels sF) l) as [[[ks1 o1]|]|] eqn:E1; try exact I.
      destruct (Nat.eqb ks1 k) eqn:K1; [|exact I].
      destruct (nth_error (labels sF) b) as [[[ks2 o2]|]|] eqn:E2; try exact I.
      destruct (Nat.eqb ks2 k) eqn:K2; [|exact I].
      apply Nat.eqb_eq in K1. apply Nat.eqb_eq in K2. subst. exact (NB k o1 o2 eq_refl eq_refl). }
    set (st := lfold (length L) k (proj k (res_from s0 t))) in *. set (se := lfold (length L) k (map (eff L) (proj k (res_from s0 t)))) in *.
    set (rg := {| rg_sec := k; rg_off := l_len st; rg_lead := 0; rg_size := sz; rg_trail := 0; rg_label := l; rg_addend := 0; rg_base := Some b |}).
    assert (SP : site_patch L rg = Some (dbytes sz (lo - bo))).
    { unfold site_patch, rg. cbn [rg_base rg_label rg_size]. rewrite EL, EB, Nat.eqb_refl, EZ, FT. reflexivity. }
    assert (DL : zlen (dbytes sz (lo - bo)) = sz) by (apply dbytes_len; exact EZ).
    assert (S0 : 0 <= sz) by (apply size_ok_nonneg; exact EZ).
    destruct IH as [E RS A B C]. pose proof E as [EA EBd EC ED].
    assert (GOAL : srelB L offs (lemitr st [GRaw (zeros sz)] sz [rg]) (lemit se [GRaw (dbytes sz (lo - bo))] (zlen (dbytes sz (lo - bo))))).
    { destruct (apply_sites_app L (l_rels st) (gbytes L offs (l_items st)) (zeros sz) ltac:(rewrite <- A; exact B)) as [X1 X2].
      constructor; cbn [lemit lemitr l_len l_items l_rels l_binds].
      - constructor; cbn.
        + rewrite DL. now rewrite EA.
        + exact EBd.
        + apply Forall2_app; [exact EC|]. constructor; [|constructor]. right. exists l, b, sz, ls, lo, bo. repeat split; auto.
        + rewrite !filter_app, ED. cbn. reflexivity.
      - rewrite filter_app, RS. cbn [filter]. unfold inertb at 1. rewrite SP. now rewrite !app_nil_r.
      - rewrite gbytes_app, zlen_app, <- A. cbn. rewrite app_nil_r, zeros_len by exact S0. reflexivity.
      - apply Forall_app. split.
        + eapply Forall_impl; [|exact B]. intros r. apply in_bounds_mono. lia.
        + constructor; [|constructor]. intros d Hd. rewrite SP in Hd. injection Hd as <-. cbn [rg rg_off]. rewrite DL, A. pose proof (zlen_nonneg (gbytes L offs (l_items st))). lia.
      - rewrite !gbytes_app. cbn [gbytes flat_map gb1]. rewrite !app_nil_r. rewrite apply_sites_snoc, X1, <- C.
        unfold apply_site. rewrite SP. cbn [rg rg_off].
        replace (l_len st) with (zlen (gbytes L offs (l_items se))) by (rewrite C, X2; symmetry; exact A).
        symmetry. apply patch_tail. unfold zeros, dbytes. rewrite repeat_length, le_split_length. reflexivity. }
    destruct (assoc l (l_binds st)); [destruct (assoc b (l_binds st)); [contradiction|]|]; exact GOAL.
Qed.

Lemma site_patch_inv : forall L rg d, site_patch L rg = Some d ->
  exists b ks lo bo, rg_base rg = Some b /\ nth_error L (rg_label rg) = Some (Some (ks, lo)) /\ nth_error L b = Some (Some (ks, bo)) /\
                     size_ok (rg_size rg) = true /\ delta_fits (rg_size rg) (lo - bo) = true /\ d = dbytes (rg_size rg) (lo - bo).
Proof.
  intros L rg d H. unfold site_patch in H. destruct (rg_base rg) as [b|] eqn:EBs; [|discriminate].
  destruct (nth_error L (rg_label rg)) as [[[ls lo]|]|] eqn:E1; try discriminate. destruct (nth_error L b) as [[[bs bo]|]|] eqn:E2; try discriminate.
  destruct (Nat.eqb ls bs && size_ok (rg_size rg) && delta_fits (rg_size rg) (lo - bo)) eqn:EC; [|discriminate]. injection H as <-.
  apply andb_prop in EC. destruct EC as [EC FT]. apply andb_prop in EC. destruct EC as [ES EZ]. apply Nat.eqb_eq in ES. subst bs.
  exists b, ls, lo, bo. repeat split; auto.
Qed.

(* THE RELOCATED BYTES ARE ORDER INDEPENDENT: for two interleavings with the same per-section sequences, the bytes each run holds in a
   section - rendered byte for byte and patched at the run's OWN expression entries that are resolvable inside one section - are EQUAL,
   under the common final label table and any layout.  (The items and entries of the folds of the resolved forms ARE what the machine
   holds: final_char_any.) *)
Theorem patched_bytes_equal : forall nl ns t1 t2 offs,
  (forall k, proj k t1 = proj k t2) -> tags_ok ns t1 -> tags_ok ns t2 -> NoDup (bound_labels t1) ->
  let s0 := run init (prelude nl ns) in
  no_misfit s0 t1 -> no_misfit s0 t2 -> nowrap nl ns (res_from s0 t1) offs ->
  let L := labels (run init ((prelude nl ns ++ expand t1) ++ [OResolve offs])) in
  forall k, (k < S ns)%nat ->
    let A1 := lfold nl k (proj k (res_from s0 t1)) in let A2 := lfold nl k (proj k (res_from s0 t2)) in
    apply_sites L (l_rels A1) (gbytes L offs (l_items A1)) = apply_sites L (l_rels A2) (gbytes L offs (l_items A2)) /\
    apply_sites L (l_rels A1) (gbytes L offs (l_items A1)) = gbytes L offs (l_items (lfold nl k (map (eff L) (proj k (res_from s0 t1))))).
Proof.
  intros nl ns t1 t2 offs HP T1 T2 N1 s0 M1 M2 W1 L k Hk A1 A2.
  assert (N2 : NoDup (bound_labels t2)) by (eapply bound_once_transfers; eassumption).
  pose proof (nowrap_transfers nl ns t1 t2 offs HP T1 T2 N1 M1 M2 W1) as W2. fold s0 in W2.
  destruct (effect_image_any nl ns t1 t2 offs HP T1 T2 N1 M1 M2 W1 W2) as [EQ _]. fold s0 in EQ. fold L in EQ.
  pose proof (final_char_any nl ns t1 offs T1 N1 W1) as F1. fold s0 in F1.
  assert (HLen : length L = nl) by (exact (f_nl _ _ _ _ _ F1)).
  pose proof (bytes_vs_effect L offs nl ns t1 HLen T1 N1 k Hk) as B1. pose proof (bytes_vs_effect L offs nl ns t2 HLen T2 N2 k Hk) as B2.
  fold s0 in B1, B2. split.
  - unfold A1, A2. rewrite <- (sb_bytes _ _ _ _ B1), <- (sb_bytes _ _ _ _ B2), (EQ k). reflexivity.
  - unfold A1. symmetry. exact (sb_bytes _ _ _ _ B1).
Qed.

(* non-vacuity: the pair of AsmOrderAny.delta_order_matters - section 0 holds [3] with no entry in one order and [0] with one expression entry in
   the other; patched, both are [3] *)
Example patched_bytes_example :
  let s0 := run init (prelude 2 1) in
  let L := labels (run init ((prelude 2 1 ++ expand ex_after) ++ [OResolve [0; 4096]])) in
  let A1 := lfold 2 0 (proj 0 (res_from s0 ex_after)) in let A2 := lfold 2 0 (proj 0 (res_from s0 ex_before)) in
  gbytes L [0; 4096] (l_items A1) = [3] /\ l_rels A1 = [] /\
  gbytes L [0; 4096] (l_items A2) = [0] /\ length (l_rels A2) = 1%nat /\
  apply_sites L (l_rels A1) (gbytes L [0; 4096] (l_items A1)) = [3] /\ apply_sites L (l_rels A2) (gbytes L [0; 4096] (l_items A2)) = [3].
Proof. cbv zeta. repeat split; vm_compute; reflexivity. Qed.

(* the patch of a site IS what relocation writes there: for a relocation entry of the machine whose ghost has a patch, C04's relocate_entry
   (any base, any layout) succeeds, rewrites nothing else, and its word is that patch, byte for byte.  (Label differences are int64: the
   only thing asked beyond the patch's own conditions, needed for 8-byte fields where the immediate path does not check a range.) *)
Theorem site_patch_is_relocation : forall base asize atoff slots (s : state) offs re d,
  (forall l b, rl_type re = Expr l b -> rl_label re = l) ->
  (forall l b ks lo bo, rl_type re = Expr l b -> nth_error (labels s) l = Some (Some (ks, lo)) -> nth_error (labels s) b = Some (Some (ks, bo)) ->
                        - 2 ^ 63 <= lo - bo < 2 ^ 63) ->
  site_patch (labels s) (rghost_of re) = Some d ->
  exists o, relocate_entry base asize atoff slots (entry_of_reloc s offs re) = inl (o, slots) /\ o_rewrite o = None /\ o_slot o = None /\
            le_split (Z.to_nat (rl_size re)) (o_word o) = d.
Proof.
  intros base asize atoff slots s offs re d WT I64 H.
  destruct (site_patch_inv _ _ _ H) as (b & ks & lo & bo & HB & A & B & Z1 & FT & ->).
  unfold rghost_of in HB, A, Z1, FT. cbn [rg_base rg_label rg_size] in *.
  destruct (rl_type re) as [|l' b'] eqn:ET; [discriminate|]. injection HB as ->. pose proof (WT l' b eq_refl) as EL. subst l'.
  assert (SZ : rl_size re = 1 \/ rl_size re = 2 \/ rl_size re = 4 \/ rl_size re = 8).
  { unfold size_ok in Z1. repeat (apply orb_true_iff in Z1; destruct Z1 as [Z1|Z1]); apply Z.eqb_eq in Z1; auto. }
  assert (RANGE : - 2 ^ (8 * rl_size re - 1) <= lo - bo < 2 ^ (8 * rl_size re - 1)).
  { destruct SZ as [S|[S|[S|S]]].
    - apply (proj1 (delta_check_is_fit (rl_size re) (lo - bo) (or_introl S))). exact FT.
    - apply (proj1 (delta_check_is_fit (rl_size re) (lo - bo) (or_intror (or_introl S)))). exact FT.
    - apply (proj1 (delta_check_is_fit (rl_size re) (lo - bo) (or_intror (or_intror S)))). exact FT.
    - rewrite S. change (8 * 8 - 1) with 63. eapply I64; eauto. }
  destruct (delta_entry_effect base asize atoff slots s offs re (rl_label re) b (rl_size re) ks lo bo ET eq_refl SZ A B RANGE) as (o & R & R1 & R2 & R3).
  exists o. repeat split; auto.
Qed.

(* ... and the entries that are NOT patched inside a section (absolute references, deltas across sections or with an unbound label) are the
   SAME LIST in both orders, section by section: after the intra-section patches the two runs hold equal bytes and equal remaining entries *)
Theorem unpatched_entries_equal : forall nl ns t1 t2 offs,
  (forall k, proj k t1 = proj k t2) -> tags_ok ns t1 -> tags_ok ns t2 -> NoDup (bound_labels t1) ->
  let s0 := run init (prelude nl ns) in
  no_misfit s0 t1 -> no_misfit s0 t2 -> nowrap nl ns (res_from s0 t1) offs ->
  let L := labels (run init ((prelude nl ns ++ expand t1) ++ [OResolve offs])) in
  forall k, (k < S ns)%nat ->
    filter (inertb L) (l_rels (lfold nl k (proj k (res_from s0 t1)))) = filter (inertb L) (l_rels (lfold nl k (proj k (res_from s0 t2)))).
Proof.
  intros nl ns t1 t2 offs HP T1 T2 N1 s0 M1 M2 W1 L k Hk.
  assert (N2 : NoDup (bound_labels t2)) by (eapply bound_once_transfers; eassumption).
  pose proof (nowrap_transfers nl ns t1 t2 offs HP T1 T2 N1 M1 M2 W1) as W2. fold s0 in W2.
  destruct (effect_image_any nl ns t1 t2 offs HP T1 T2 N1 M1 M2 W1 W2) as [EQ _]. fold s0 in EQ. fold L in EQ.
  pose proof (final_char_any nl ns t1 offs T1 N1 W1) as F1. fold s0 in F1.
  assert (HLen : length L = nl) by (exact (f_nl _ _ _ _ _ F1)).
  pose proof (bytes_vs_effect L offs nl ns t1 HLen T1 N1 k Hk) as B1. pose proof (bytes_vs_effect L offs nl ns t2 HLen T2 N2 k Hk) as B2.
  fold s0 in B1, B2. rewrite (sb_rest _ _ _ _ B1), (sb_rest _ _ _ _ B2), (EQ k). reflexivity.
Qed.

(* ================================================================== the folds' items and entries ARE what the machine holds
   For ANY program, after layout and cross-section resolution: the item list of every section of C03's machine, read through the
   references' immutable logs, is the item list of the fold of the resolved form, and the relocation entries are its entry ghosts up to
   creation order.  So [gbytes L offs (map (gi (refs s)) (s_items ...))] is the byte rendering of the machine's own section. *)
Theorem machine_items_any : forall nl ns t offs, tags_ok ns t -> NoDup (bound_labels t) ->
  let r := res_from (run init (prelude nl ns)) t in
  let s := run init ((prelude nl ns ++ expand t) ++ [OResolve offs]) in
  (forall k, (k < S ns)%nat -> map (gi (refs s)) (s_items (nsec s k)) = l_items (lfold nl k (proj k r))) /\
  Permutation (map rghost_of (relocs s)) (allrels nl ns r).
Proof.
  intros nl ns t offs HT HN r s.
  destruct (J_run nl ns r (tags_res ns t _ HT) ltac:(unfold r; rewrite bound_labels_res; exact HN) (res_local nl ns t HT HN)) as [HJ _].
  unfold r in HJ at 2. rewrite run_prelude_res in HJ. fold r in HJ.
  set (sF := run init (prelude nl ns ++ expand t)) in *.
  assert (RUN : s = fst (step sF (OResolve offs))) by (unfold s; rewrite run_app; reflexivity).
  set (W := resolve_list (resolve_sel (labels sF) offs) false (pending sF) (refs sF)).
  assert (S1 : fst (step sF (OResolve offs)) = set_fix sF (w_refs W) (w_kept W) (unresolved sF - w_n W)) by reflexivity.
  rewrite S1 in RUN.
  assert (GH : forall id r0, nth_error (refs sF) id = Some r0 -> exists r', nth_error (w_refs W) id = Some r' /\ ghost_of r' = ghost_of r0)
    by (intros; apply resolve_list_ghost; assumption).
  split.
  - intros k Hk. rewrite RUN. change (nsec (set_fix sF (w_refs W) (w_kept W) (unresolved sF - w_n W)) k) with (nsec sF k).
    cbn [refs set_fix].
    destruct (gi_same (refs sF) (w_refs W) (s_items (nsec sF k)) (j_ok _ _ _ _ HJ k Hk) GH) as [Q _].
    rewrite Q. exact (j_items _ _ _ _ HJ k Hk).
  - rewrite RUN. cbn [relocs set_fix]. exact (proj1 (j_rel _ _ _ _ HJ)).
Qed.

(* the equation in terms of the machine's own section items *)
Theorem machine_patched_bytes_equal : forall nl ns t1 t2 offs,
  (forall k, proj k t1 = proj k t2) -> tags_ok ns t1 -> tags_ok ns t2 -> NoDup (bound_labels t1) ->
  let s0 := run init (prelude nl ns) in
  no_misfit s0 t1 -> no_misfit s0 t2 -> nowrap nl ns (res_from s0 t1) offs ->
  let s1 := run init ((prelude nl ns ++ expand t1) ++ [OResolve offs]) in
  let s2 := run init ((prelude nl ns ++ expand t2) ++ [OResolve offs]) in
  let L := labels s1 in
  forall k, (k < S ns)%nat ->
    apply_sites L (l_rels (lfold nl k (proj k (res_from s0 t1)))) (gbytes L offs (map (gi (refs s1)) (s_items (nsec s1 k)))) =
    apply_sites L (l_rels (lfold nl k (proj k (res_from s0 t2)))) (gbytes L offs (map (gi (refs s2)) (s_items (nsec s2 k)))).
Proof.
  intros nl ns t1 t2 offs HP T1 T2 N1 s0 M1 M2 W1 s1 s2 L k Hk.
  assert (N2 : NoDup (bound_labels t2)) by (eapply bound_once_transfers; eassumption).
  destruct (machine_items_any nl ns t1 offs T1 N1) as [I1 _]. destruct (machine_items_any nl ns t2 offs T2 N2) as [I2 _].
  fold s0 in I1, I2. fold s1 in I1. fold s2 in I2. rewrite (I1 k Hk), (I2 k Hk).
  exact (proj1 (patched_bytes_equal nl ns t1 t2 offs HP T1 T2 N1 M1 M2 W1 k Hk)).
Qed.

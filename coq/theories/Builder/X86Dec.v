(* C08 - how x86::InstInternal::validate reads an Operand_ (core/operand.h signature layout, x86/x86operand.h memory fields), as a
   function from the Builder model's raw operand words (signature, base id, data[0], data[1]) to C13's validator operands.  With it the
   validation verdict of a recorded call is COMPUTED by the model (verdict x86_vtables ... dec_x86) instead of being an input of the
   node-list differential; the check compares it with the error the real Builder returns under kValidateIntermediate at every `I`
   command of the x86 strict-validation programs.
   Layout: signature bits 0..2 operand type (0 none, 1 reg, 2 mem, 3 reg-list, 4 imm, 5 label); reg: bits 3..7 register type;
   mem: bits 3..7 base type, 8..12 index type, 13 reg-home, 18..20 segment, 21..23 broadcast, 24..31 size; base id / high half of a 64-bit
   offset in _base_id, index id in data[0], low 32 offset bits in data[1]; imm: data[0] | data[1] << 32 as int64.
   Operand types 3, 6, 7 have no counterpart in C13's operand language (validate answers kInvalidState for them); they are mapped to a
   register of type 0, which is refused as well but with another code - the x86 generator never produces them. *)
From Coq Require Import NArith ZArith List Bool Lia.
From Verif Require Import X86Validate.ValidateModel Builder.BuilderModel Builder.BuilderProofs Builder.ValidateBridge.
Import ListNotations.


Definition fld (s : N) (shift width : N) : N := N.land (N.shiftr s shift) (N.ones width).
Definition s32 (u : Z) : Z := let y := (u mod 2 ^ 32)%Z in if (y <? 2 ^ 31)%Z then y else (y - 2 ^ 32)%Z.
Definition s64 (u : Z) : Z := let y := (u mod 2 ^ 64)%Z in if (y <? 2 ^ 63)%Z then y else (y - 2 ^ 64)%Z.

Definition dec_x86 (o : BuilderModel.operand) : ValidateModel.operand :=
  let s := Z.to_N (o_sig o) in
  let ty := fld s 0 3 in
  if (ty =? 0)%N then ONone
  else if (ty =? 1)%N then OReg (fld s 3 5) (Z.to_N (o_id o))
  else if (ty =? 2)%N then
    let bt := fld s 3 5 in
    OMem (fld s 24 8) bt (Z.to_N (o_id o)) (fld s 8 5) (Z.to_N (o_d0 o))
         (if (bt =? 0)%N then s64 (o_d1 o mod 2 ^ 32 + (o_id o mod 2 ^ 32) * 2 ^ 32)%Z else s32 (o_d1 o))
         (fld s 18 3) (fld s 21 3) (N.testbit s 13)
  else if (ty =? 4)%N then OImm (s64 (o_d0 o mod 2 ^ 32 + (o_d1 o mod 2 ^ 32) * 2 ^ 32)%Z)
  else if (ty =? 5)%N then OLabel
  else OReg 0 0.

(* BaseInst::extra_reg(): RegOnly signature -> register type (0 = no extra register) *)
Definition xtype_x86 (exsig : Z) : N := fld (Z.to_N exsig) 3 5.

Lemma dec_x86_none_l : forall o, BuilderModel.is_none o = true -> dec_x86 o = ONone.
Proof. intros o H. unfold BuilderModel.is_none in H. apply Z.eqb_eq in H. unfold dec_x86. rewrite H. reflexivity. Qed.

(* an operand is clean when a signature with operand type 0 is the all-zero signature *)
Lemma clean_x86 : forall o, (fld (Z.to_N (o_sig o)) 0 3 = 0%N -> o_sig o = 0%Z) -> clean dec_x86 o.
Proof.
  intros o H D. unfold BuilderModel.is_none. apply Z.eqb_eq. apply H. unfold dec_x86 in D.
  destruct (fld (Z.to_N (o_sig o)) 0 3 =? 0)%N eqn:E0; [now apply N.eqb_eq in E0|].
  destruct (fld (Z.to_N (o_sig o)) 0 3 =? 1)%N; [discriminate|]. destruct (fld (Z.to_N (o_sig o)) 0 3 =? 2)%N; [discriminate|].
  destruct (fld (Z.to_N (o_sig o)) 0 3 =? 4)%N; [discriminate|]. destruct (fld (Z.to_N (o_sig o)) 0 3 =? 5)%N; discriminate.
Qed.

(* VALIDATION PARITY, instantiated: no hypothesis left *)
Theorem validation_parity_x86 : forall T zq x64 virt b id o0 o1 o2 o3 o4 o5,
  match node_ecalls (inst_node b id o0 o1 o2 o3 o4 o5) with
  | [EInst id' opts' es' ei' ops' _] =>
      verdict T zq x64 dec_x86 xtype_x86 virt id' opts' es' ei' ops'
      = verdict T zq x64 dec_x86 xtype_x86 virt id (p_opts b) (p_exsig b) (p_exid b) [o0; o1; o2; o3; o4; o5]
  | _ => False
  end.
Proof. intros. apply (validation_parity T zq x64 dec_x86 xtype_x86 dec_x86_none_l). Qed.

(* _emit under strict validation, with the verdict computed: a refused call only resets the one-shot state (CEmitRejected), an accepted one
   records the node *)
Definition emit_validated_x86 (T : vtables) (x64 virt : bool) (b : bstate) (id : Z) (o0 o1 o2 o3 o4 o5 : BuilderModel.operand) : bstate * Z :=
  let e := verdict T false x64 dec_x86 xtype_x86 virt id (p_opts b) (p_exsig b) (p_exid b) [o0; o1; o2; o3; o4; o5] in
  if (e =? 0)%N then step b (CEmit id o0 o1 o2 o3 o4 o5) else step b (CEmitRejected (Z.of_N e)).

(* what a validated _emit does and does NOT change: refused -> the error is the verdict, node list / cursor / pool / section links /
   labels / sections / function state untouched, the one-shot state consumed; accepted -> exactly the unvalidated _emit, and the call the
   node stands for is accepted again when the list is serialized into an emitter that validates *)
Theorem emit_validated_x86_spec : forall T x64 virt b id o0 o1 o2 o3 o4 o5,
  let e := verdict T false x64 dec_x86 xtype_x86 virt id (p_opts b) (p_exsig b) (p_exid b) [o0; o1; o2; o3; o4; o5] in
  let r := emit_validated_x86 T x64 virt b id o0 o1 o2 o3 o4 o5 in
  (e <> 0%N -> snd r = Z.of_N e /\ active (fst r) = active b /\ cursor (fst r) = cursor b /\ pool (fst r) = pool b /\ links (fst r) = links b /\
               dirty (fst r) = dirty b /\ nlabels (fst r) = nlabels b /\ nsections (fst r) = nsections b /\ cur_func (fst r) = cur_func b /\
               lpool (fst r) = lpool b /\ gpool (fst r) = gpool b /\
               p_opts (fst r) = 0%Z /\ p_exsig (fst r) = 0%Z /\ p_exid (fst r) = 0%Z /\ p_comment (fst r) = None) /\
  (e = 0%N -> r = step b (CEmit id o0 o1 o2 o3 o4 o5) /\ snd r = kOk /\
              match node_ecalls (inst_node b id o0 o1 o2 o3 o4 o5) with
              | [EInst id' opts' es' ei' ops' _] => verdict T false x64 dec_x86 xtype_x86 virt id' opts' es' ei' ops' = 0%N
              | _ => False
              end).
Proof.
  intros T x64 virt b id o0 o1 o2 o3 o4 o5 e r. subst r. unfold emit_validated_x86. fold e. split; intros He.
  - assert ((e =? 0)%N = false) as -> by (apply N.eqb_neq; exact He). cbn. repeat split; reflexivity.
  - rewrite He. cbn [N.eqb]. split; [reflexivity|]. split; [reflexivity|].
    pose proof (validation_parity_x86 T false x64 virt b id o0 o1 o2 o3 o4 o5) as P.
    destruct (node_ecalls (inst_node b id o0 o1 o2 o3 o4 o5)) as [|[] [|]]; try contradiction. rewrite P. exact He.
Qed.

(* ------------------------------------------------------------------ on the generated tables of /repo (coq/gen/X86Sigs.v, tied by C13) *)
From VerifGen Require Import X86Sigs.

Definition r32 (id : Z) : BuilderModel.operand := mkOp 67108905 id 0 0.     (* Gp32 register: type 1 | reg type 5 << 3 | size 4 << 24 *)

(* `add eax, ebx` is accepted (also with the reserved bit, also as replayed); `add eax, <none>, ebx` and a 64-bit register in 32-bit mode are not *)
Example verdict_x86_examples :
  verdict x86_vtables false true dec_x86 xtype_x86 false 9 0 0 0 [r32 0; r32 3; op_none; op_none; op_none; op_none] = E_Ok /\
  verdict x86_vtables false true dec_x86 xtype_x86 false 9 1 0 0 (canon_ops (r32 0) (r32 3) op_none op_none op_none op_none) = E_Ok /\
  verdict x86_vtables false true dec_x86 xtype_x86 false 9 0 0 0 [r32 0; op_none; r32 3; op_none; op_none; op_none] = E_InvalidInstruction /\
  verdict x86_vtables false false dec_x86 xtype_x86 false 9 0 0 0 [mkOp 134217777 0 0 0; mkOp 134217777 3 0 0; op_none; op_none; op_none; op_none] = E_InvalidUseOfGpq /\
  fst (emit_validated_x86 x86_vtables true false (init_state 8) 9 (r32 0) op_none (r32 3) op_none op_none op_none) = with_pend (init_state 8) 0 0 0 None.
Proof. repeat split; vm_compute; reflexivity. Qed.

(* C08 - recording emitter calls through a Builder and serializing them = direct assembling, section by section.
   The Builder keeps one contiguous range of nodes per section (in order of first use); switching sections moves the cursor to the end of
   that section's range (through the cached _next_section links).  Invariant: the node list is [flat g] for a list g of segments. *)
From Coq Require Import ZArith List Bool Lia Arith.
From Verif Require Import Builder.BuilderModel Builder.BuilderProofs.
Import ListNotations.
Local Open Scope Z_scope.

Definition seg := (Z * list node)%type.
Definition flat (g : list seg) : list node := flat_map (fun sg : seg => sec_node (fst sg) :: snd sg) g.
Definition ids (g : list seg) : list Z := map fst g.
Definition nonsec_list (ns : list node) : Prop := Forall (fun n => is_section n = false) ns.
Definition nonsec (g : list seg) : Prop := Forall (fun sg : seg => nonsec_list (snd sg)) g.

Fixpoint seg_end (g : list seg) (cur : Z) (acc : nat) : option nat :=
  match g with
  | [] => None
  | (s, ns) :: r => if s =? cur then Some (acc + length ns)%nat else seg_end r cur (acc + S (length ns))%nat
  end.

Fixpoint app_seg (g : list seg) (cur : Z) (n : node) : list seg :=
  match g with
  | [] => []
  | (s, ns) :: r => if s =? cur then (s, ns ++ [n]) :: r else (s, ns) :: app_seg r cur n
  end.

Definition seg_trace (s : Z) (g : list seg) : list ecall :=
  flat_map (fun sg : seg => if fst sg =? s then flat_map node_ecalls (snd sg) else []) g.

Lemma NoDup_app_snoc_helper : forall (l : list Z) x, NoDup l -> ~ In x l -> NoDup (l ++ [x]).
Proof.
  induction l; intros x ND HI; cbn; [constructor; [tauto|constructor]|]. inversion ND; subst.
  constructor.
  - rewrite in_app_iff. cbn. intros [H|[H|[]]]; [contradiction|]. subst. apply HI. now left.
  - apply IHl; [assumption|]. intro; apply HI; now right.
Qed.

(* ------------------------------------------------------------------ flat / seg_end / app_seg *)
Lemma flat_app : forall g h, flat (g ++ h) = flat g ++ flat h.
Proof. intros. unfold flat. apply flat_map_app. Qed.

Lemma app_seg_flat : forall g cur n acc e (P : list node), length P = acc -> seg_end g cur acc = Some e ->
  P ++ flat (app_seg g cur n) = insert_at (S e) n (P ++ flat g) /\ seg_end (app_seg g cur n) cur acc = Some (S e).
Proof.
  induction g as [|[s ns] r IH]; intros cur n acc e P HP H; cbn [seg_end app_seg] in *; [discriminate|].
  destruct (s =? cur) eqn:E.
  - inversion H; subst e. cbn [seg_end]. rewrite E. split.
    + unfold flat. cbn [flat_map fst snd]. fold (flat r).
      replace (S (acc + length ns)) with (length (P ++ sec_node s :: ns)) by (rewrite app_length; cbn [length]; lia).
      rewrite (app_assoc P (sec_node s :: ns) (flat r)).
      rewrite insert_at_app. cbn [app]. repeat (rewrite <- app_assoc; cbn [app]). reflexivity.
    + rewrite app_length. cbn [length]. f_equal. lia.
  - cbn [seg_end]. rewrite E.
    specialize (IH cur n (acc + S (length ns))%nat e (P ++ sec_node s :: ns)).
    destruct IH as [IH1 IH2]; [rewrite app_length; cbn [length]; lia | exact H |].
    split; [|exact IH2].
    unfold flat in *. cbn [flat_map fst snd]. repeat (rewrite <- app_assoc in IH1; cbn [app] in IH1). cbn [app]. exact IH1.
Qed.

Lemma ids_app_seg : forall g cur n, ids (app_seg g cur n) = ids g.
Proof.
  induction g as [|[s ns] r IH]; intros; cbn; [reflexivity|]. destruct (s =? cur); cbn; [reflexivity|]. f_equal. apply IH.
Qed.

Lemma nonsec_app_seg : forall g cur n, nonsec g -> is_section n = false -> nonsec (app_seg g cur n).
Proof.
  induction g as [|[s ns] r IH]; intros cur n H Hn; cbn; [constructor|]. inversion H; subst.
  destruct (s =? cur); constructor; cbn in *; auto.
  - apply Forall_app. split; [assumption|]. constructor; [assumption|constructor].
  - apply IH; assumption.
Qed.

Lemma seg_trace_cons : forall s t ns r, seg_trace s ((t, ns) :: r) = (if t =? s then flat_map node_ecalls ns else []) ++ seg_trace s r.
Proof. reflexivity. Qed.

Lemma seg_trace_notin : forall s r, ~ In s (ids r) -> seg_trace s r = [].
Proof.
  induction r as [|[u nu] r IH]; intros H; [reflexivity|]. rewrite seg_trace_cons. cbn in H.
  assert (u =? s = false) as -> by (apply Z.eqb_neq; intro; apply H; now left). cbn. apply IH. intro; apply H; now right.
Qed.

Lemma seg_trace_app_seg : forall g cur n s, NoDup (ids g) -> In cur (ids g) ->
  seg_trace s (app_seg g cur n) = seg_trace s g ++ (if cur =? s then node_ecalls n else []).
Proof.
  induction g as [|[t ns] r IH]; intros cur n s ND HI; [contradiction|].
  cbn [ids map fst] in *. inversion ND; subst. cbn [app_seg]. destruct (t =? cur) eqn:E.
  - apply Z.eqb_eq in E; subst t. rewrite !seg_trace_cons. destruct (cur =? s) eqn:E2.
    + apply Z.eqb_eq in E2; subst s. rewrite seg_trace_notin by assumption. rewrite flat_map_app. cbn. now rewrite !app_nil_r.
    + now rewrite app_nil_r.
  - rewrite !seg_trace_cons. destruct HI as [HI|HI]; [apply Z.eqb_neq in E; contradiction|].
    rewrite IH by assumption. now rewrite app_assoc.
Qed.

(* ------------------------------------------------------------------ section nodes inside flat g *)
Lemma find_index_app_none : forall {A} (p : A -> bool) (a b : list A), find_index p a = None ->
  find_index p (a ++ b) = match find_index p b with Some j => Some (length a + j)%nat | None => None end.
Proof.
  induction a; intros; cbn in *; [destruct (find_index p b); reflexivity|].
  destruct (p a); [discriminate|]. destruct (find_index p a0) eqn:E; [discriminate|].
  rewrite IHa by reflexivity. destruct (find_index p b); reflexivity.
Qed.

Lemma find_index_nonsec : forall s ns, nonsec_list ns -> find_index (is_section_id s) ns = None.
Proof.
  induction ns; intros; cbn; [reflexivity|]. inversion H; subst.
  assert (is_section_id s a = false) as ->. { unfold is_section_id, is_section in *. destruct (n_kind a); try reflexivity; discriminate. }
  now rewrite IHns.
Qed.

Lemma flat_cons : forall t ns r, flat ((t, ns) :: r) = sec_node t :: ns ++ flat r.
Proof. reflexivity. Qed.

Lemma find_index_flat_cons : forall s t ns r, nonsec_list ns ->
  find_index (is_section_id s) (flat ((t, ns) :: r)) =
  if s =? t then Some 0%nat else match find_index (is_section_id s) (flat r) with Some j => Some (S (length ns + j)) | None => None end.
Proof.
  intros. rewrite flat_cons. cbn [find_index]. change (is_section_id s (sec_node t)) with (s =? t). destruct (s =? t); [reflexivity|].
  rewrite find_index_app_none by (apply find_index_nonsec; assumption).
  destruct (find_index (is_section_id s) (flat r)); reflexivity.
Qed.

Lemma find_index_flat_none : forall g s, nonsec g -> ~ In s (ids g) -> find_index (is_section_id s) (flat g) = None.
Proof.
  induction g as [|[t ns] r IH]; intros s H HI; [reflexivity|]. inversion H; subst. cbn [fst snd ids map] in *.
  rewrite find_index_flat_cons by assumption.
  assert (s =? t = false) as -> by (apply Z.eqb_neq; intro; apply HI; now left).
  rewrite IH; [reflexivity|assumption|]. intro; apply HI; now right.
Qed.

Lemma find_index_flat_some : forall g s, nonsec g -> In s (ids g) -> find_index (is_section_id s) (flat g) <> None.
Proof.
  induction g as [|[t ns] r IH]; intros s H HI; [contradiction|]. inversion H; subst. cbn [fst snd ids map] in *.
  rewrite find_index_flat_cons by assumption.
  destruct (s =? t) eqn:E; [discriminate|].
  destruct HI as [HI|HI]; [apply Z.eqb_neq in E; congruence|].
  specialize (IH s H3 HI). destruct (find_index (is_section_id s) (flat r)); [discriminate|contradiction].
Qed.

Lemma sec_seq_nonsec : forall ns, nonsec_list ns -> sec_seq ns = [].
Proof.
  induction ns; intros H; [reflexivity|]. inversion H; subst. unfold sec_seq in *. cbn [flat_map]. rewrite IHns by assumption.
  unfold sec_id, is_section in *. destruct (n_kind a); try reflexivity; discriminate.
Qed.

Lemma sec_seq_flat : forall g, nonsec g -> sec_seq (flat g) = ids g.
Proof.
  induction g as [|[t ns] r IH]; intros H; [reflexivity|]. inversion H; subst. cbn [fst snd] in *.
  rewrite flat_cons. unfold sec_seq. cbn [flat_map]. rewrite flat_map_app. fold (sec_seq ns). fold (sec_seq (flat r)).
  rewrite sec_seq_nonsec by assumption. rewrite IH by assumption. reflexivity.
Qed.

(* ------------------------------------------------------------------ cached links *)
Lemma lookup_app_in : forall s a b, (exists v, lookup s a = Some v) -> lookup s (a ++ b) = lookup s a.
Proof.
  induction a as [|[k v] a IH]; intros b [w H]; cbn in *; [discriminate|]. destruct (s =? k); [reflexivity|]. apply IH. eauto.
Qed.

Lemma lookup_fresh_in : forall s l, In s l -> exists v, lookup s (fresh_links l) = Some v.
Proof.
  induction l; intros; cbn in *; [contradiction|]. destruct (s =? a) eqn:E; [eauto|].
  destruct H; [apply Z.eqb_neq in E; congruence|]. auto.
Qed.

Definition next_of (s : Z) (l : list (Z * option Z)) : option Z := match lookup s l with Some (Some u) => Some u | _ => None end.

Definition section_cursor_on (L : list node) (idl : list Z) (t : Z) : option nat :=
  match lookup t (fresh_links idl) with
  | Some (Some u) => match find_index (is_section_id u) L with Some j => pred_opt j | None => None end
  | _ => last_index L
  end.

Lemma section_cursor_spec : forall g (P : list node) t, nonsec g -> NoDup (ids g) -> In t (ids g) ->
  (forall u, In u (ids g) -> find_index (is_section_id u) P = None) ->
  section_cursor_on (P ++ flat g) (ids g) t = seg_end g t (length P).
Proof.
  induction g as [|[s ns] r IH]; intros P t HN ND HI HP; [contradiction|].
  cbn [ids map fst snd] in *.
  assert (Hns : nonsec_list ns) by (inversion HN; assumption).
  assert (Hr : nonsec r) by (inversion HN; assumption).
  assert (Hnin : ~ In s (map fst r)) by (inversion ND; assumption).
  assert (NDr : NoDup (map fst r)) by (inversion ND; assumption).
  cbn [seg_end]. destruct (s =? t) eqn:E.
  - apply Z.eqb_eq in E; subst t. unfold section_cursor_on. cbn [fresh_links lookup]. rewrite Z.eqb_refl.
    destruct r as [|[u nu] r'].
    + cbn [map]. unfold last_index. rewrite flat_cons. cbn [flat flat_map]. rewrite app_nil_r, app_length. cbn [length].
      replace (length P + S (length ns))%nat with (S (length P + length ns)) by lia. reflexivity.
    + cbn [map fst] in *.
      assert (Hnu : nonsec_list nu) by (inversion Hr; assumption).
      rewrite find_index_app_none by (apply HP; right; left; reflexivity).
      rewrite find_index_flat_cons by assumption.
      assert (u =? s = false) as -> by (apply Z.eqb_neq; intro; subst; apply Hnin; now left).
      rewrite find_index_flat_cons by assumption. rewrite Z.eqb_refl.
      replace (length P + S (length ns + 0))%nat with (S (length P + length ns)) by lia. reflexivity.
  - destruct HI as [HI|HI]; [apply Z.eqb_neq in E; congruence|].
    assert (HL : section_cursor_on (P ++ flat ((s, ns) :: r)) (s :: map fst r) t = section_cursor_on ((P ++ sec_node s :: ns) ++ flat r) (ids r) t).
    { unfold section_cursor_on. cbn [fresh_links lookup].
      assert (t =? s = false) as -> by (rewrite Z.eqb_sym; exact E).
      rewrite flat_cons. rewrite <- app_assoc. cbn [app]. reflexivity. }
    etransitivity; [exact HL|]. rewrite IH; try assumption.
    + rewrite app_length. cbn [length]. reflexivity.
    + intros u Hu. rewrite find_index_app_none by (apply HP; right; exact Hu).
      cbn [find_index]. change (is_section_id u (sec_node s)) with (u =? s).
      assert (u =? s = false) as -> by (apply Z.eqb_neq; intro; subst; contradiction).
      rewrite find_index_nonsec by assumption. reflexivity.
Qed.

Lemma seg_end_in : forall g cur acc, In cur (ids g) -> exists e, seg_end g cur acc = Some e.
Proof.
  induction g as [|[s ns] r IH]; intros; cbn in *; [contradiction|]. destruct (s =? cur) eqn:E; [eauto|].
  destruct H; [apply Z.eqb_neq in E; congruence|]. auto.
Qed.

Lemma seg_end_snoc_new : forall g t acc, ~ In t (ids g) -> seg_end (g ++ [(t, [])]) t acc = Some (acc + length (flat g))%nat.
Proof.
  induction g as [|[s ns] r IH]; intros t acc H.
  - cbn [app seg_end flat flat_map length]. rewrite Z.eqb_refl. f_equal; lia.
  - cbn [ids map fst] in H. rewrite <- app_comm_cons. cbn [seg_end].
    assert (s =? t = false) as -> by (apply Z.eqb_neq; intro; apply H; now left).
    rewrite IH by (intro; apply H; now right). rewrite flat_cons. cbn [length]. rewrite app_length. f_equal. lia.
Qed.

Lemma flat_cons_early : forall t ns r, flat ((t, ns) :: r) = sec_node t :: ns ++ flat r.
Proof. reflexivity. Qed.

(* ------------------------------------------------------------------ projections *)
Definition secfree (es : list ecall) : Prop := forall t, ~ In (ESection t) es.

Lemma node_ecalls_nonsec : forall n, is_section n = false -> secfree (node_ecalls n).
Proof.
  intros [k c] H t. unfold is_section in H. cbn in *. destruct k; try discriminate; cbn; intuition discriminate.
Qed.

Lemma project_secfree_app : forall es c s R, secfree es ->
  project_from c s (es ++ R) = (if c =? s then es else []) ++ project_from c s R.
Proof.
  induction es as [|e es IH]; intros c s R H; cbn [app]; [destruct (c =? s); reflexivity|].
  assert (H' : secfree es) by (intros t Ht; apply (H t); now right).
  destruct e; try (exfalso; apply (H s0); now left); cbn [project_from]; rewrite IH by exact H'; destruct (c =? s); reflexivity.
Qed.

Lemma project_nonsec_app : forall ns c s R, nonsec_list ns ->
  project_from c s (flat_map node_ecalls ns ++ R) = (if c =? s then flat_map node_ecalls ns else []) ++ project_from c s R.
Proof.
  induction ns; intros c s R H; cbn [flat_map]; [destruct (c =? s); reflexivity|]. inversion H; subst.
  rewrite <- app_assoc. rewrite project_secfree_app by (apply node_ecalls_nonsec; assumption). rewrite IHns by assumption.
  destruct (c =? s); [now rewrite app_assoc|reflexivity].
Qed.

Lemma project_flat : forall g c s, nonsec g -> project_from c s (flat_map node_ecalls (flat g)) = seg_trace s g.
Proof.
  induction g as [|[t ns] r IH]; intros c s H; [reflexivity|]. inversion H; subst. cbn [fst snd] in *.
  rewrite flat_cons_early. cbn [flat_map node_ecalls n_kind sec_node app project_from]. rewrite flat_map_app.
  rewrite project_nonsec_app by assumption. rewrite IH by assumption. reflexivity.
Qed.

Fixpoint cur_after (cur : Z) (es : list ecall) : Z :=
  match es with
  | [] => cur
  | ESection t :: r => cur_after t r
  | _ :: r => cur_after cur r
  end.

Lemma project_from_app : forall es cur s R, project_from cur s (es ++ R) = project_from cur s es ++ project_from (cur_after cur es) s R.
Proof.
  induction es; intros; cbn; [reflexivity|].
  destruct a; cbn; try (destruct (cur =? s); cbn; now rewrite IHes); try apply IHes.
Qed.

(* ------------------------------------------------------------------ the invariant *)
Record Inv (b : bstate) (g : list seg) (cur : Z) : Prop := {
  i_active : active b = flat g;
  i_cursor : cursor b = seg_end g cur 0;
  i_cur_in : In cur (ids g);
  i_nonsec : nonsec g;
  i_nodup : NoDup (ids g);
  i_links : dirty b = false -> forall s, In s (ids g) -> next_of s (links b) = next_of s (fresh_links (ids g)) }.

Definition pend_match (b : bstate) (p : pend) : Prop :=
  p_opts b = q_opts p /\ p_exsig b = q_exsig p /\ p_exid b = q_exid p /\ p_comment b = q_comment p.

Definition same_list_state (b1 b2 : bstate) : Prop :=
  active b1 = active b2 /\ cursor b1 = cursor b2 /\ dirty b1 = dirty b2 /\ links b1 = links b2.

Lemma inv_transfer : forall b1 b2 g cur, Inv b1 g cur -> same_list_state b2 b1 -> Inv b2 g cur.
Proof.
  intros b1 b2 g cur [IA IC II IN IND IL] (H1 & H2 & H3 & H4).
  constructor; try assumption; try congruence. rewrite H3, H4. exact IL.
Qed.

(* recording one non-section node at the cursor *)
Lemma inv_add_node : forall b g cur n, Inv b g cur -> is_section n = false ->
  Inv (add_node n b) (app_seg g cur n) cur /\ forall s, seg_trace s (app_seg g cur n) = seg_trace s g ++ (if cur =? s then node_ecalls n else []).
Proof.
  intros b g cur n I Hn. destruct I as [IA IC II IN IND IL].
  destruct (seg_end_in g cur 0 II) as [e He].
  destruct (app_seg_flat g cur n 0 e [] eq_refl He) as [HF HE]. cbn [app] in HF.
  split; [constructor|].
  - simpl_b. rewrite IC, He. cbn [cursor_pos]. rewrite IA. symmetry; exact HF.
  - simpl_b. rewrite IC, He. cbn [cursor_pos]. symmetry. exact HE.
  - rewrite ids_app_seg. exact II.
  - apply nonsec_app_seg; assumption.
  - rewrite ids_app_seg. exact IND.
  - simpl_b. rewrite Hn, orb_false_r. rewrite ids_app_seg. exact IL.
  - intros s. apply seg_trace_app_seg; assumption.
Qed.

Definition emitter (c : cmd) : Prop := is_emitter_call c = true.

Definition step_goal (b' : bstate) (p' : pend) (g : list seg) (cur : Z) (es : list ecall) : Prop :=
  exists g', Inv b' g' (cur_after cur es) /\ pend_match b' p' /\
             (forall s, seg_trace s g' = seg_trace s g ++ project_from cur s es) /\
             (forall x, In x (ids g') <-> In x (ids g) \/ In (ESection x) es).

Lemma cur_after_secfree : forall es cur, secfree es -> cur_after cur es = cur.
Proof.
  induction es as [|e es IH]; intros cur H; [reflexivity|].
  assert (H' : secfree es) by (intros t Ht; apply (H t); now right).
  destruct e; try (exfalso; apply (H s); now left); cbn [cur_after]; apply IH; exact H'.
Qed.

(* a call that creates exactly one non-section node n and performs the effective calls [node_ecalls n] *)
Lemma step_one_node : forall b b0 p' g cur n, Inv b g cur -> same_list_state b0 b -> is_section n = false ->
  pend_match (add_node n b0) p' -> step_goal (add_node n b0) p' g cur (node_ecalls n).
Proof.
  intros b b0 p' g cur n I HS Hn HP. exists (app_seg g cur n).
  destruct (inv_add_node b0 g cur n (inv_transfer _ _ _ _ I HS) Hn) as [J1 J2].
  pose proof (node_ecalls_nonsec n Hn) as SF.
  rewrite (cur_after_secfree _ cur SF). split; [exact J1|]. split; [exact HP|]. split.
  - intros s. rewrite J2. f_equal. rewrite <- (app_nil_r (node_ecalls n)) at 2. rewrite project_secfree_app by exact SF. cbn [project_from]. now rewrite app_nil_r.
  - intros x. rewrite ids_app_seg. split; [tauto|]. intros [H|H]; [assumption|]. exfalso. eapply SF. exact H.
Qed.

Lemma step_no_node : forall b b' p' g cur, Inv b g cur -> same_list_state b' b -> pend_match b' p' -> step_goal b' p' g cur [].
Proof.
  intros. exists g. cbn. split; [eapply inv_transfer; eassumption|]. split; [assumption|]. split; [intros; now rewrite app_nil_r | intros; tauto].
Qed.

Lemma sls_refl : forall b, same_list_state b b.
Proof. intros. unfold same_list_state. tauto. Qed.

Lemma do_bind_ok : forall l b b' , do_bind l b = (b', kOk) -> pool b = [] -> b' = add_node (label_node l) (with_pool b []).
Proof.
  intros l b b' H HP. unfold do_bind in H. rewrite HP in H. destruct ((l <? 0) || (nlabels b <=? l)); [inversion H|].
  destruct (existsb (is_label_id l) (active b)); inversion H. reflexivity.
Qed.

(* recording never puts anything into the pool of removed nodes *)
Lemma pool_nil_step : forall b c, pool b = [] -> emitter c -> pool (fst (step b c)) = [].
Proof.
  intros b c HP HE. destruct c; cbn [step]; try discriminate HE; try exact HP.
  - unfold do_bind. rewrite HP. destruct ((l <? 0) || (nlabels b <=? l)); [exact HP|]. destruct (existsb (is_label_id l) (active b)); [exact HP|reflexivity].
  - unfold do_embed_array. destruct (final_type_size ty (regsize b)); exact HP.
  - destruct (valid_label_size sz); exact HP.
  - destruct (valid_label_size sz); exact HP.
  - destruct ((l <? 0) || (nlabels b <=? l)); [exact HP|]. unfold do_bind. cbn [pool add_node with_list]. rewrite HP. cbn [nlabels add_node with_list].
    destruct ((l <? 0) || (nlabels b <=? l)); [cbn; exact HP|].
    destruct (existsb (is_label_id l) (active (add_node (mkNode (NAlign kAlignData align) None) b))); cbn; [exact HP|].
    destruct (kOk =? kOk); reflexivity.
  - unfold do_section. destruct ((s <? 0) || (nsections b <=? s)); [exact HP|].
    destruct (find_index (is_section_id s) (active b)); cbn [fst].
    + simpl_b. destruct (update_links_list b) as (_ & _ & UP). rewrite UP. exact HP.
    + simpl_b. rewrite HP. reflexivity.
  - destruct (l =? nlabels b); exact HP.
Qed.

Lemma do_bind_err : forall l b, snd (do_bind l b) <> kOk -> fst (do_bind l b) = b.
Proof.
  intros l b H. unfold do_bind in *. destruct ((l <? 0) || (nlabels b <=? l)); [reflexivity|].
  destruct (existsb (is_label_id l) (active b)); [reflexivity|]. exfalso. apply H. reflexivity.
Qed.

Lemma pend_match_update : forall b p a c d, pend_match b p -> pend_match (with_list (update_links b) a c d) p.
Proof. intros b p a c d H. unfold pend_match, update_links in *. destruct (dirty b); cbn; exact H. Qed.

(* switching to a section *)
Lemma step_section : forall b p g cur s, Inv b g cur -> pend_match b p -> snd (do_section s b) = kOk ->
  step_goal (fst (do_section s b)) p g cur [ESection s].
Proof.
  intros b p g cur s I HP HOK. pose proof I as [IA IC II IN IND IL]. unfold do_section in *.
  destruct ((s <? 0) || (nsections b <=? s)); [cbn in HOK; discriminate|].
  destruct (find_index (is_section_id s) (active b)) eqn:EF.
  - (* the section node is active: move to the end of its range *)
    assert (HI : In s (ids g)).
    { destruct (in_dec Z.eq_dec s (ids g)) as [H|H]; [exact H|]. rewrite IA, find_index_flat_none in EF by assumption. discriminate. }
    exists g. cbn [fst cur_after]. split; [|split; [apply pend_match_update; exact HP|split]].
    + destruct (update_links_list b) as (UA & UC & UP).
      assert (UL : forall t, In t (ids g) -> next_of t (links (update_links b)) = next_of t (fresh_links (ids g))).
      { intros t Ht. unfold update_links. destruct (dirty b) eqn:ED; [|apply IL; [reflexivity|assumption]].
        cbn [links with_links]. rewrite IA, sec_seq_flat by assumption. unfold next_of. rewrite lookup_app_in; [reflexivity|]. apply lookup_fresh_in. exact Ht. }
      assert (UD : dirty (update_links b) = false). { unfold update_links. destruct (dirty b) eqn:ED; [reflexivity|exact ED]. }
      constructor; simpl_b; try assumption.
      * rewrite UA. exact IA.
      * rewrite UA, IA.
        pose proof (section_cursor_spec g [] s IN IND HI (fun _ _ => eq_refl)) as HS. cbn [app length] in HS.
        unfold section_cursor_on in HS. pose proof (UL s HI) as ULs. unfold next_of in ULs.
        destruct (lookup s (links (update_links b))) as [[u|]|]; destruct (lookup s (fresh_links (ids g))) as [[v|]|];
          try discriminate ULs; try (inversion ULs; subst); exact HS.
      * intros _ t Ht. apply UL. exact Ht.
    + intros t. cbn. now rewrite app_nil_r.
    + intros x. cbn. split; [tauto|]. intros [H|[H|[]]]; [exact H|]. inversion H; subst. exact HI.
  - (* first use (or re-activation): the section node is appended *)
    assert (HI : ~ In s (ids g)).
    { intro H. apply (find_index_flat_some g s IN H). rewrite <- IA. exact EF. }
    exists (g ++ [(s, [])]). cbn [fst cur_after]. split; [|split; [exact HP|split]].
    + constructor; simpl_b.
      * rewrite IA, flat_app. cbn. reflexivity.
      * rewrite IA. rewrite seg_end_snoc_new by exact HI. reflexivity.
      * unfold ids. rewrite map_app. apply in_or_app. right. now left.
      * apply Forall_app. split; [exact IN|]. constructor; [constructor|constructor].
      * unfold ids. rewrite map_app. cbn. apply NoDup_app_snoc_helper; assumption.
      * discriminate.
    + intros t. unfold seg_trace. rewrite flat_map_app. cbn. destruct (s =? t); cbn; rewrite ?app_nil_r; reflexivity.
    + intros x. unfold ids. rewrite map_app, in_app_iff. cbn. split; [intros [H|[H|[]]]; [tauto|subst; tauto] | intros [H|[H|[]]]; [tauto|inversion H; tauto]].
Qed.

(* composition of steps *)
Lemma cur_after_app : forall es cur R, cur_after cur (es ++ R) = cur_after (cur_after cur es) R.
Proof. induction es; intros; cbn; [reflexivity|]. destruct a; apply IHes. Qed.

Lemma step_goal_comp : forall b1 p1 b2 p2 g cur es1 es2,
  step_goal b1 p1 g cur es1 ->
  (forall g1, Inv b1 g1 (cur_after cur es1) -> pend_match b1 p1 -> step_goal b2 p2 g1 (cur_after cur es1) es2) ->
  step_goal b2 p2 g cur (es1 ++ es2).
Proof.
  intros b1 p1 b2 p2 g cur es1 es2 (g1 & I1 & P1 & T1 & D1) H.
  destruct (H g1 I1 P1) as (g2 & I2 & P2 & T2 & D2).
  exists g2. rewrite cur_after_app. split; [exact I2|]. split; [exact P2|]. split.
  - intros s. rewrite T2, T1, project_from_app, app_assoc. reflexivity.
  - intros x. rewrite D2, D1, in_app_iff. tauto.
Qed.

Lemma pend_match_add_node : forall n b p, pend_match b p -> pend_match (add_node n b) p.
Proof. intros. exact H. Qed.

Lemma record_step : forall b p g cur c, Inv b g cur -> pend_match b p -> pool b = [] -> emitter c -> snd (step b c) = kOk ->
  step_goal (fst (step b c)) (fst (front p c)) g cur (snd (front p c)).
Proof.
  intros b p g cur c I HP HPL HE HOK. pose proof HP as (P1 & P2 & P3 & P4).
  destruct c; cbn [step front fst snd] in *; try discriminate HE.
  - (* new label *) apply (step_no_node b); [exact I | unfold same_list_state; cbn; tauto | exact HP].
  - apply (step_no_node b); [exact I | unfold same_list_state; cbn; tauto | exact HP].
  - (* setters *) apply (step_no_node b); [exact I | unfold same_list_state; cbn; tauto | unfold pend_match; cbn; tauto].
  - apply (step_no_node b); [exact I | unfold same_list_state; cbn; tauto | unfold pend_match; cbn; rewrite P1; tauto].
  - apply (step_no_node b); [exact I | unfold same_list_state; cbn; tauto | unfold pend_match; cbn; tauto].
  - apply (step_no_node b); [exact I | unfold same_list_state; cbn; tauto | unfold pend_match; cbn; tauto].
  - (* emit *) unfold do_emit. cbn [fst].
    replace [EInst id (clear_reserved (q_opts p)) (q_exsig p) (q_exid p) (canon_ops o0 o1 o2 o3 o4 o5) (dup_comment (q_comment p))]
      with (node_ecalls (inst_node b id o0 o1 o2 o3 o4 o5)) by (rewrite inst_node_faithful, P1, P2, P3, P4; reflexivity).
    apply (step_one_node b); [exact I | unfold same_list_state; cbn; tauto | reflexivity | unfold pend_match; cbn; tauto].
  - (* bind *) destruct (do_bind l b) as [b' e] eqn:EB. cbn [fst snd] in *. subst e. apply do_bind_ok in EB; [|exact HPL]. subst b'.
    apply (step_one_node b (with_pool b []) p g cur (label_node l));
      [exact I | unfold same_list_state; cbn; tauto | reflexivity | exact HP].
  - (* align *) apply (step_one_node b b p g cur (mkNode (NAlign m n) None)); [exact I | apply sls_refl | reflexivity | exact HP].
  - (* embed *) apply (step_one_node b b p g cur (data_node kTypeUInt8 1 (Z.of_nat (length d)) 1 d)); [exact I | apply sls_refl | reflexivity | exact HP].
  - (* embed array *) unfold do_embed_array in *. destruct (final_type_size ty (regsize b)) as [ts|]; [|cbn in HOK; discriminate]. cbn [fst].
    apply (step_one_node b b p g cur (data_node ty ts cnt rep d)); [exact I | apply sls_refl | reflexivity | exact HP].
  - destruct (valid_label_size sz); [|cbn in HOK; discriminate]. cbn [fst].
    apply (step_one_node b b p g cur (mkNode (NEmbedLabel l sz) None)); [exact I | apply sls_refl | reflexivity | exact HP].
  - destruct (valid_label_size sz); [|cbn in HOK; discriminate]. cbn [fst].
    apply (step_one_node b b p g cur (mkNode (NEmbedDelta l b0 sz) None)); [exact I | apply sls_refl | reflexivity | exact HP].
  - (* const pool: align, bind, data *)
    destruct ((l <? 0) || (nlabels b <=? l)); [cbn in HOK; discriminate|].
    set (b1 := add_node (mkNode (NAlign kAlignData align) None) b) in *.
    destruct (do_bind l b1) as [b2 e] eqn:EB.
    destruct (e =? kOk) eqn:EE; [|cbn [snd] in HOK; subst e; discriminate].
    apply Z.eqb_eq in EE. subst e. apply do_bind_ok in EB; [|exact HPL]. cbn [fst].
    change [EAlign kAlignData align; EBind l; EData kTypeUInt8 (Z.of_nat (length d)) 1 d]
      with (node_ecalls (mkNode (NAlign kAlignData align) None) ++ node_ecalls (label_node l) ++ node_ecalls (data_node kTypeUInt8 1 (Z.of_nat (length d)) 1 d)).
    eapply (step_goal_comp b1 p).
    { apply (step_one_node b b p g cur); [exact I | apply sls_refl | reflexivity | exact HP]. }
    intros g1 I1 HP1. eapply (step_goal_comp b2 p).
    { subst b2. apply (step_one_node b1 _ p g1); [exact I1 | unfold same_list_state; cbn; tauto | reflexivity | exact HP1]. }
    intros g2 I2 HP2.
    apply (step_one_node b2 b2 p g2); [exact I2 | apply sls_refl | reflexivity | exact HP2].
  - (* comment *) apply (step_one_node b b p g cur (mkNode NComment (Some c))); [exact I | apply sls_refl | reflexivity | exact HP].
  - (* section *) apply step_section; assumption.
  - (* const pool node *) destruct (l =? nlabels b); [|cbn in HOK; discriminate]. cbn [fst].
    apply (step_one_node b (with_counts b (nlabels b + 1) (nsections b)) p g cur (mkNode (NConstPool l align d) None));
      [exact I | unfold same_list_state; cbn; tauto | reflexivity | exact HP].
  - (* sentinel *) apply (step_one_node b b p g cur (mkNode (NSentinel ty) None)); [exact I | apply sls_refl | reflexivity | exact HP].
Qed.

Fixpoint pend_run (p : pend) (cs : list cmd) : pend :=
  match cs with [] => p | c :: t => pend_run (fst (front p c)) t end.

Lemma record_run : forall cs b p g cur, Inv b g cur -> pend_match b p -> pool b = [] -> Forall emitter cs -> all_ok b cs = true ->
  step_goal (run b cs) (pend_run p cs) g cur (trace_from p cs).
Proof.
  induction cs as [|c t IH]; intros b p g cur I HP HPL HE HOK.
  - cbn. apply (step_no_node b); [exact I | apply sls_refl | exact HP].
  - cbn [run pend_run trace_from all_ok] in *. apply andb_prop in HOK. destruct HOK as [H1 H2]. apply Z.eqb_eq in H1.
    inversion HE; subst.
    pose proof (record_step b p g cur c I HP HPL H3 H1) as HS.
    pose proof (pool_nil_step b c HPL H3) as HPL1.
    destruct (front p c) as [p' es] eqn:EF. cbn [fst snd] in *.
    eapply step_goal_comp; [exact HS|].
    intros g1 I1 HP1. apply IH; assumption.
Qed.

Lemma inv_init : forall rs, Inv (init_state rs) [(0, [])] 0.
Proof.
  intros. constructor; cbn; try reflexivity.
  - now left.
  - constructor; [constructor|constructor].
  - constructor; [intros []|constructor].
  - intros _ s [H|[]]. subst. reflexivity.
Qed.

(* MAIN: what a Builder serializes after recording any accepted sequence of emitter calls is, section by section, exactly what a direct
   assembler would have been asked to do by the same calls - operands, option bits, extra register, comments, data, labels included -
   and the sections appear in order of first use. *)
Theorem replay_is_grouping : forall rs cs, Forall emitter cs -> all_ok (init_state rs) cs = true ->
  let b := run (init_state rs) cs in
  (forall s, project s (trace (replay b)) = project s (trace cs)) /\
  (forall x, In x (sec_seq (active b)) <-> x = 0 \/ In (ESection x) (trace cs)) /\
  NoDup (sec_seq (active b)).
Proof.
  intros rs cs HE HOK b.
  destruct (record_run cs (init_state rs) pend0 [(0, [])] 0 (inv_init rs) (conj eq_refl (conj eq_refl (conj eq_refl eq_refl))) eq_refl HE HOK)
    as (g' & I & _ & T & D).
  destruct I as [IA IC II IN IND IL]. fold b in IA.
  split; [|split].
  - intros s. rewrite trace_replay. rewrite IA. unfold project. rewrite project_flat by assumption. rewrite T. rewrite seg_trace_cons. destruct (0 =? s); reflexivity.
  - intros x. rewrite IA, sec_seq_flat by assumption. rewrite D. cbn. unfold trace. intuition.
  - rewrite IA, sec_seq_flat by assumption. exact IND.
Qed.

(* single-section corollary: with no section switch the serialized sequence IS the direct sequence *)
Lemma project_no_section : forall es c, (forall t, ~ In (ESection t) es) -> project_from c c es = es.
Proof.
  induction es; intros c H; [reflexivity|]. destruct a; cbn; try (rewrite Z.eqb_refl; f_equal; apply IHes; intros t Ht; apply (H t); now right).
  exfalso. apply (H s). now left.
Qed.

(* the hypotheses of replay_is_grouping are satisfiable: a program over two sections with options, extra register, comment, 5 operands,
   a const pool, data, label address and delta; every call is accepted *)
Definition example_program : list cmd :=
  let r := mkOp 67108905 in
  [ CNewSection; CNewLabel; CNewLabel;
    CSetOptions 8193; CSetExtra 641 3; CSetComment (Some [104; 105]);
    CEmit 9 (r 1 0 0) (r 2 0 0) op_none op_none op_none op_none;
    CSection 1; CEmbed [1; 2; 3]; CBind 0; CSection 0;
    CEmit 119 (mkOp 50 6 0 0) (r 2 0 0) (r 0 0 0) (r 1 0 0) (r 3 0 0) op_none;
    CSection 1; CEmbedLabel 0 8; CEmbedDelta 1 0 4; CSection 0; CConstPool 1 8 [9; 9; 9; 9; 9; 9; 9; 9]; CAlign 0 16; CComment [33] ].

Lemma example_hypotheses : Forall emitter example_program /\ all_ok (init_state 8) example_program = true.
Proof. split; [repeat constructor | vm_compute; reflexivity]. Qed.

Lemma example_grouped :
  flat_map node_ecalls (active (run (init_state 8) example_program)) <> trace example_program /\
  project 1 (trace example_program) = [EData 35 3 1 [1; 2; 3]; EBind 0; ELabel 0 8; EDelta 1 0 4].
Proof. split; [vm_compute; discriminate | vm_compute; reflexivity]. Qed.

(* ------------------------------------------------------------------ sequences with rejected calls
   A call rejected at record time (invalid label id on bind, bad size on embed_label, invalid type id, invalid section) is reported to the
   caller at once and leaves the builder untouched: recording cs is recording the accepted calls of cs. *)
Fixpoint accepted (b : bstate) (cs : list cmd) : list cmd :=
  match cs with
  | [] => []
  | c :: t => if snd (step b c) =? kOk then c :: accepted (fst (step b c)) t else accepted (fst (step b c)) t
  end.

(* no const pool fails half way (its align node precedes the failing bind) and no instruction is refused by strict validation (that
   clears the one-shot state: BuilderProofs.rejected_emit_resets) *)
Fixpoint no_partial_pool (b : bstate) (cs : list cmd) : Prop :=
  match cs with
  | [] => True
  | c :: t => (match c with CConstPool _ _ _ => snd (step b c) = kOk | CEmitRejected _ | CEndFunc => False | _ => True end) /\ no_partial_pool (fst (step b c)) t
  end.

Lemma run_accepted : forall cs b, no_partial_pool b cs ->
  run b (accepted b cs) = run b cs /\ all_ok b (accepted b cs) = true /\ (Forall emitter cs -> Forall emitter (accepted b cs)).
Proof.
  induction cs as [|c t IH]; intros b H; [cbn; auto|].
  cbn [accepted run no_partial_pool] in *. destruct H as [H1 H2].
  destruct (snd (step b c) =? kOk) eqn:E.
  - destruct (IH (fst (step b c)) H2) as (A & B & C). cbn [run all_ok]. rewrite E. cbn [andb]. split; [exact A|]. split; [exact B|].
    intros HF. inversion HF; subst. constructor; [assumption|apply C; assumption].
  - apply Z.eqb_neq in E.
    assert (HN : fst (step b c) = b).
    { apply rejected_call_is_noop; [exact E| | |]; [intros l a d HC; subst c; apply E; exact H1|intros e HC; subst c; exact H1|intros HC; subst c; exact H1]. }
    rewrite HN in *. destruct (IH b H2) as (A & B & C). split; [exact A|]. split; [exact B|].
    intros HF. inversion HF; subst. apply C; assumption.
Qed.

Theorem replay_is_grouping_accepted : forall rs cs, Forall emitter cs -> no_partial_pool (init_state rs) cs ->
  let b := run (init_state rs) cs in
  forall s, project s (trace (replay b)) = project s (trace (accepted (init_state rs) cs)).
Proof.
  intros rs cs HE HP b s. destruct (run_accepted cs (init_state rs) HP) as (A & B & C).
  subst b. rewrite <- A. apply (replay_is_grouping rs (accepted (init_state rs) cs) (C HE) B).
Qed.

(* ------------------------------------------------------------------ from grouping to images, for any assembler that assembles sections
   independently of how calls of different sections interleave (what C03/C04 establish for label resolution and relocation "by effect";
   NOT established here: it is the hypothesis) *)
Theorem same_image_if_order_irrelevant : forall (image : Type) (asm : list ecall -> image),
  (forall es es', (forall s, project s es = project s es') -> asm es = asm es') ->
  forall rs cs, Forall emitter cs -> all_ok (init_state rs) cs = true ->
  asm (trace (replay (run (init_state rs) cs))) = asm (trace cs).
Proof.
  intros image asm H rs cs HE HOK. apply H. intros s. apply (replay_is_grouping rs cs HE HOK).
Qed.

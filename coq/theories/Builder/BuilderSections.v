(* C08 - section nodes under arbitrary histories of emitter calls and edits: every section id has at most one node in list + pool, and
   section() moves the cursor to the last node before the next section node (or to the last node). *)
From Coq Require Import ZArith List Bool Lia Arith Permutation.
From Verif Require Import Builder.BuilderModel Builder.BuilderProofs Builder.BuilderGrouping Builder.BuilderLinks.
Import ListNotations.
Local Open Scope Z_scope.

Definition secs (b : bstate) : list Z := sec_seq (active b) ++ sec_seq (pool b).
Definition secs_unique (b : bstate) : Prop := NoDup (secs b).

Lemma sec_seq_cons : forall n l, sec_seq (n :: l) = sec_id n ++ sec_seq l.
Proof. reflexivity. Qed.

Lemma sec_seq_insert_perm : forall i n l, Permutation (sec_seq (insert_at i n l)) (sec_id n ++ sec_seq l).
Proof.
  intros. unfold insert_at. rewrite sec_seq_app, sec_seq_cons.
  rewrite <- (firstn_skipn i l) at 3. rewrite sec_seq_app. apply Permutation_app_swap_app.
Qed.

Lemma remove_at_split : forall {A} k (l : list A) n, nth_error l k = Some n ->
  exists l1 l2, l = l1 ++ n :: l2 /\ remove_at k l = l1 ++ l2.
Proof.
  intros A k l n H. destruct (nth_error_split l k H) as (l1 & l2 & HL & HK). exists l1, l2. split; [exact HL|].
  subst l k. unfold remove_at. rewrite firstn_app, Nat.sub_diag, firstn_all. cbn [firstn]. rewrite app_nil_r.
  replace (S (length l1)) with (length (l1 ++ [n])) by (rewrite app_length; cbn; lia).
  replace (l1 ++ n :: l2) with ((l1 ++ [n]) ++ l2) by (rewrite <- app_assoc; reflexivity).
  rewrite skipn_app, skipn_all, Nat.sub_diag. reflexivity.
Qed.

Lemma sec_seq_remove_at_perm : forall k l n, nth_error l k = Some n -> Permutation (sec_seq l) (sec_id n ++ sec_seq (remove_at k l)).
Proof.
  intros k l n H. destruct (remove_at_split k l n H) as (l1 & l2 & HL & HR). rewrite HR, HL.
  rewrite !sec_seq_app, sec_seq_cons. apply Permutation_app_swap_app.
Qed.

Lemma sec_seq_remove_slice_perm : forall i j l, (i <= j)%nat ->
  Permutation (sec_seq l) (sec_seq (remove_slice i j l) ++ sec_seq (slice i j l)).
Proof.
  intros i j l Hij. unfold remove_slice, slice.
  assert (HL : l = firstn i l ++ firstn (S j - i) (skipn i l) ++ skipn (S j) l).
  { rewrite <- (firstn_skipn i l) at 1. f_equal. rewrite <- (firstn_skipn (S j - i) (skipn i l)) at 1. f_equal.
    rewrite skipn_skipn'. f_equal. lia. }
  rewrite HL at 1. rewrite !sec_seq_app. rewrite <- app_assoc. apply Permutation_app_head. apply Permutation_app_comm.
Qed.

Lemma sec_seq_remove_first_nonsec : forall p l, (forall x, p x = true -> is_section x = false) -> sec_seq (remove_first p l) = sec_seq l.
Proof.
  induction l; intros H; [reflexivity|]. cbn [remove_first]. destruct (p a) eqn:E.
  - rewrite sec_seq_cons_nonsec by (apply H; exact E). reflexivity.
  - rewrite !sec_seq_cons. rewrite IHl by exact H. reflexivity.
Qed.

Lemma is_label_id_nonsec : forall l x, is_label_id l x = true -> is_section x = false.
Proof. intros l x H. unfold is_label_id, is_section in *. destruct (n_kind x); try discriminate; reflexivity. Qed.

Lemma find_index_none_not_in : forall s l, find_index (is_section_id s) l = None -> ~ In s (sec_seq l).
Proof.
  induction l; intros H HI; [exact HI|]. cbn [find_index] in H. destruct (is_section_id s a) eqn:E; [discriminate|].
  destruct (find_index (is_section_id s) l) eqn:E2; [discriminate|].
  rewrite sec_seq_cons in HI. apply in_app_or in HI. destruct HI as [HI|HI]; [|apply IHl; [reflexivity|exact HI]].
  unfold sec_id, is_section_id in *. destruct (n_kind a); try contradiction. destruct HI as [HI|[]]. subst. rewrite Z.eqb_refl in E. discriminate.
Qed.

Lemma not_in_find_index_none : forall s l, ~ In s (sec_seq l) -> find_index (is_section_id s) l = None.
Proof.
  induction l; intros H; [reflexivity|]. cbn [find_index]. rewrite sec_seq_cons in H.
  assert (is_section_id s a = false) as ->.
  { unfold is_section_id, sec_id in *. destruct (n_kind a); try reflexivity. apply Z.eqb_neq. intro; subst. apply H. apply in_or_app. left. now left. }
  rewrite IHl; [reflexivity|]. intro; apply H. apply in_or_app. now right.
Qed.

(* removing the (first) node of section s from a list *)
Lemma sec_seq_remove_first_section : forall s l,
  (In s (sec_seq l) -> Permutation (sec_seq l) (s :: sec_seq (remove_first (is_section_id s) l))) /\
  (~ In s (sec_seq l) -> remove_first (is_section_id s) l = l).
Proof.
  induction l as [|a l IH]; [split; [intros []|reflexivity]|]. destruct IH as [IH1 IH2]. cbn [remove_first]. rewrite sec_seq_cons.
  destruct (is_section_id s a) eqn:E.
  - assert (sec_id a = [s]) as HS. { unfold is_section_id, sec_id in *. destruct (n_kind a); try discriminate. apply Z.eqb_eq in E. now subst. }
    rewrite HS. split; [intros _; reflexivity|]. intros H. exfalso. apply H. now left.
  - assert (HN : ~ In s (sec_id a)).
    { unfold is_section_id, sec_id in *. destruct (n_kind a); try (intros HF; exact HF). intros [HQ|[]]. subst. rewrite Z.eqb_refl in E. discriminate. }
    split.
    + intros H. apply in_app_or in H. destruct H as [H|H]; [contradiction|]. rewrite sec_seq_cons.
      rewrite (IH1 H) at 1. symmetry. apply Permutation_middle.
    + intros H. f_equal. apply IH2. intro; apply H. apply in_or_app. now right.
Qed.

(* ------------------------------------------------------------------ uniqueness is an invariant *)
Lemma su_same : forall b b', secs b' = secs b -> secs_unique b -> secs_unique b'.
Proof. unfold secs_unique. intros b b' H. now rewrite H. Qed.

Lemma su_perm : forall b b', Permutation (secs b) (secs b') -> secs_unique b -> secs_unique b'.
Proof. unfold secs_unique. intros b b' H HN. eapply Permutation_NoDup; eassumption. Qed.

Lemma su_add_fresh : forall n b, is_section n = false -> secs_unique b -> secs_unique (add_node n b).
Proof.
  intros n b Hn H. eapply su_same; [|exact H]. unfold secs. simpl_b. rewrite sec_seq_insert_nonsec by exact Hn. reflexivity.
Qed.

Lemma su_bind : forall l b, secs_unique b -> secs_unique (fst (do_bind l b)).
Proof.
  intros l b H. unfold do_bind. destruct ((l <? 0) || (nlabels b <=? l)); [exact H|].
  destruct (existsb (is_label_id l) (active b)); [exact H|]. cbn [fst]. apply su_add_fresh.
  { destruct (find (is_label_id l) (pool b)) eqn:EF; [|reflexivity]. apply find_some in EF. eapply is_label_id_nonsec. exact (proj2 EF). }
  eapply su_same; [|exact H]. unfold secs. simpl_b. rewrite sec_seq_remove_first_nonsec; [reflexivity|]. apply is_label_id_nonsec.
Qed.

Lemma su_from_pool : forall b k n (ins : list node -> list node) c d,
  nth_error (pool b) k = Some n -> (forall l, Permutation (sec_seq (ins l)) (sec_id n ++ sec_seq l)) ->
  secs_unique b -> secs_unique (with_list (with_pool b (remove_at k (pool b))) (ins (active b)) c d).
Proof.
  intros b k n ins c d HK HI H. eapply su_perm; [|exact H]. unfold secs. simpl_b.
  rewrite (HI (active b)). rewrite (sec_seq_remove_at_perm k (pool b) n HK).
  rewrite <- app_assoc. apply Permutation_app_swap_app.
Qed.

Lemma su_remove_range : forall i j b, (i <= j)%nat -> secs_unique b -> secs_unique (remove_range i j b).
Proof.
  intros i j b Hij H. eapply su_perm; [|exact H]. unfold secs. simpl_b.
  rewrite (sec_seq_remove_slice_perm i j (active b) Hij). rewrite sec_seq_app.
  rewrite <- !app_assoc. apply Permutation_app_head. apply Permutation_app_comm.
Qed.

Lemma su_section : forall s b, secs_unique b -> secs_unique (fst (do_section s b)).
Proof.
  intros s b H. unfold do_section. destruct ((s <? 0) || (nsections b <=? s)); [exact H|].
  destruct (find_index (is_section_id s) (active b)) eqn:EF.
  - cbn [fst]. eapply su_same; [|exact H]. unfold secs. simpl_b. destruct (update_links_list b) as (UA & _ & UP). rewrite UA, UP. reflexivity.
  - cbn [fst]. apply find_index_none_not_in in EF.
    destruct (sec_seq_remove_first_section s (pool b)) as [R1 R2].
    unfold secs_unique, secs in *. simpl_b. rewrite sec_seq_app. change (sec_seq [sec_node s]) with [s].
    destruct (in_dec Z.eq_dec s (sec_seq (pool b))) as [HI|HI].
    + eapply Permutation_NoDup; [|exact H]. rewrite (R1 HI). rewrite <- app_assoc. reflexivity.
    + rewrite (R2 HI). rewrite <- app_assoc. cbn [app]. eapply Permutation_NoDup; [apply Permutation_middle|].
      constructor; [|exact H]. intro HX. apply in_app_or in HX. tauto.
Qed.

Theorem secs_unique_step : forall b c, secs_unique b -> secs_unique (fst (step b c)).
Proof.
  intros b c H. destruct c; cbn [step fst]; try exact H; try (apply su_add_fresh; [reflexivity|exact H]).
  - apply su_bind; exact H.
  - unfold do_embed_array. destruct (final_type_size ty (regsize b)); [cbn [fst]; apply su_add_fresh; [reflexivity|]|]; exact H.
  - destruct (valid_label_size sz); [cbn [fst]; apply su_add_fresh; [reflexivity|]|]; exact H.
  - destruct (valid_label_size sz); [cbn [fst]; apply su_add_fresh; [reflexivity|]|]; exact H.
  - destruct ((l <? 0) || (nlabels b <=? l)); [exact H|].
    pose proof (su_bind l (add_node (mkNode (NAlign kAlignData align) None) b) (su_add_fresh (mkNode (NAlign kAlignData align) None) b eq_refl H)) as HB.
    destruct (do_bind l (add_node (mkNode (NAlign kAlignData align) None) b)) as [b2 e]. cbn [fst] in HB.
    destruct (e =? kOk); cbn [fst]; [apply su_add_fresh; [reflexivity|]|]; exact HB.
  - apply su_section; exact H.
  - destruct (l =? nlabels b); [cbn [fst]; apply su_add_fresh; [reflexivity|]|]; exact H.
  - eapply su_same; [|apply su_add_fresh; [|apply su_add_fresh; [|apply su_add_fresh; [|exact H]]]]; reflexivity.
  - destruct (cur_func b) as [fl|]; cbn [fst]; [|exact H]. cbn [lpool with_func with_pend].
    destruct (lpool b) as [[pl pd]|].
    + match goal with |- secs_unique (with_list (add_node ?n ?bm) _ _ _) =>
        apply (su_same (add_node n bm)); [reflexivity|apply su_add_fresh; [reflexivity|exact H]] end.
    + exact H.
  - destruct (scope =? 0); [destruct (lpool b) as [[? ?]|]|destruct (gpool b) as [[? ?]|]]; exact H.
  - destruct i as [i|]; [destruct (in_range i (active b))|]; exact H.
  - destruct (in_range i (active b)); [|exact H]. cbn [fst]. apply su_remove_range; [lia|exact H].
  - destruct (in_range i (active b)); [|exact H]. destruct (in_range j (active b)); [|exact H]. destruct (Nat.leb i j) eqn:E3; [|exact H].
    cbn [andb fst]. apply Nat.leb_le in E3. apply su_remove_range; assumption.
  - destruct (in_range k (pool b)); exact H.
  - destruct (nth_error (pool b) k) eqn:EK; [|exact H]. destruct (in_range i (active b)); [|exact H]. cbn [fst].
    apply (su_from_pool b k n (insert_at (S i) n)); [exact EK | intros; apply sec_seq_insert_perm | exact H].
  - destruct (nth_error (pool b) k) eqn:EK; [|exact H]. destruct (in_range i (active b)); [|exact H]. cbn [fst].
    apply (su_from_pool b k n (insert_at i n)); [exact EK | intros; apply sec_seq_insert_perm | exact H].
  - destruct (nth_error (pool b) k) eqn:EK; [|exact H]. cbn [fst].
    apply (su_from_pool b k n (insert_at (cursor_pos (cursor b)) n)); [exact EK | intros; apply sec_seq_insert_perm | exact H].
  - eapply su_same; [|exact H]. unfold secs. destruct (update_links_list b) as (UA & _ & UP). rewrite UA, UP. reflexivity.
Qed.

Lemma secs_unique_init : forall rs, secs_unique (init_state rs).
Proof. intros. unfold secs_unique, secs. cbn. constructor; [intros []|constructor]. Qed.

Theorem secs_unique_run : forall cs b, secs_unique b -> secs_unique (run b cs).
Proof. induction cs; intros; cbn; [assumption|]. apply IHcs. apply secs_unique_step. assumption. Qed.

Lemma NoDup_app_l : forall (a b : list Z), NoDup (a ++ b) -> NoDup a.
Proof.
  induction a; intros b H; [constructor|]. cbn in H. inversion H; subst. constructor; [|eapply IHa; eassumption].
  intro HI. apply H2. apply in_or_app. now left.
Qed.

Corollary active_sections_unique : forall rs cs, NoDup (sec_seq (active (run (init_state rs) cs))).
Proof. intros. pose proof (secs_unique_run cs _ (secs_unique_init rs)) as H. unfold secs_unique, secs in H. eapply NoDup_app_l. exact H. Qed.

(* ------------------------------------------------------------------ where section() puts the cursor, on ANY list *)
Definition range_end (l : list node) (s : Z) : option nat :=
  match find_index (is_section_id s) l with
  | None => None
  | Some i => match find_index is_section (skipn (S i) l) with
              | Some k => Some (i + k)%nat            (* the node before the next section node *)
              | None => pred_opt (length l)           (* the last node *)
              end
  end.

Lemma find_index_split : forall {A} (p : A -> bool) l i, find_index p l = Some i ->
  exists l1 x l2, l = l1 ++ x :: l2 /\ length l1 = i /\ p x = true /\ find_index p l1 = None.
Proof.
  induction l as [|a l IH]; intros i H; [discriminate|]. cbn [find_index] in H. destruct (p a) eqn:E.
  - inversion H; subst. exists [], a, l. auto.
  - destruct (find_index p l) as [j|] eqn:EJ; [|discriminate]. inversion H; subst.
    destruct (IH j eq_refl) as (l1 & x & l2 & HL & HN & HP & HF). exists (a :: l1), x, l2. subst l. cbn. rewrite E, HF. auto.
Qed.

Lemma find_index_section_none : forall l, find_index is_section l = None -> sec_seq l = [].
Proof.
  induction l; intros H; [reflexivity|]. cbn [find_index] in H. destruct (is_section a) eqn:E; [discriminate|].
  destruct (find_index is_section l); [discriminate|]. rewrite sec_seq_cons_nonsec by exact E. now apply IHl.
Qed.

Lemma is_section_id_sec_id : forall s x, is_section_id s x = true -> sec_id x = [s].
Proof. intros s x H. unfold is_section_id, sec_id in *. destruct (n_kind x); try discriminate. apply Z.eqb_eq in H. now subst. Qed.

Lemma is_section_sec_id : forall x, is_section x = true -> exists t, sec_id x = [t] /\ is_section_id t x = true.
Proof. intros x H. unfold is_section, is_section_id, sec_id in *. destruct (n_kind x); try discriminate. exists s. split; [reflexivity|apply Z.eqb_refl]. Qed.

Theorem section_switch_spec : forall b s, links_ok b -> NoDup (sec_seq (active b)) -> snd (do_section s b) = kOk -> In s (sec_seq (active b)) ->
  cursor (fst (do_section s b)) = range_end (active b) s /\ active (fst (do_section s b)) = active b /\ pool (fst (do_section s b)) = pool b.
Proof.
  intros b s HL ND HOK HI. unfold do_section in *.
  destruct ((s <? 0) || (nsections b <=? s)); [cbn in HOK; discriminate|].
  destruct (find_index (is_section_id s) (active b)) as [i|] eqn:EF; [|exfalso; eapply find_index_none_not_in; eassumption].
  destruct (update_links_list b) as (UA & UC & UP). destruct (links_ok_update b HL) as [HL1 HD1].
  cbn [fst]. simpl_b. rewrite UA, UP. split; [|split; reflexivity].
  unfold range_end. rewrite EF.
  destruct (find_index_split _ _ _ EF) as (l1 & x & l2 & HLs & Hlen & Hx & Hl1).
  pose proof (is_section_id_sec_id s x Hx) as HSX.
  assert (HS1 : ~ In s (sec_seq l1)) by (apply find_index_none_not_in; exact Hl1).
  assert (HSK : skipn (S i) (active b) = l2).
  { rewrite HLs. replace (S i) with (length (l1 ++ [x])) by (rewrite app_length; cbn; lia).
    replace (l1 ++ x :: l2) with ((l1 ++ [x]) ++ l2) by (rewrite <- app_assoc; reflexivity). rewrite skipn_app, skipn_all, Nat.sub_diag. reflexivity. }
  rewrite HSK.
  assert (HSEQ : sec_seq (active b) = sec_seq l1 ++ s :: sec_seq l2).
  { rewrite HLs, sec_seq_app, sec_seq_cons, HSX. reflexivity. }
  pose proof (HL1 HD1 s) as HN. rewrite UA in HN. specialize (HN HI).
  destruct (find_index is_section l2) as [k|] eqn:EK.
  - destruct (find_index_split _ _ _ EK) as (m1 & y & m2 & HM & Hk & Hy & Hm1).
    destruct (is_section_sec_id y Hy) as (t & HT & HTy).
    assert (HSM : sec_seq l2 = t :: sec_seq m2).
    { rewrite HM, sec_seq_app, sec_seq_cons, HT, (find_index_section_none m1 Hm1). reflexivity. }
    rewrite HSEQ, HSM in HN. rewrite next_of_fresh in HN by exact HS1.
    assert (HJ : find_index (is_section_id t) (active b) = Some (S (i + k))).
    { rewrite HSEQ, HSM in ND. rewrite HLs, HM.
      assert (ND2 : ~ In t ((sec_seq l1 ++ [s]) ++ sec_seq m2)).
      { apply NoDup_remove_2. rewrite <- app_assoc. cbn [app]. exact ND. }
      assert (Ht1 : ~ In t (sec_seq l1)) by (intro HX; apply ND2; apply in_or_app; left; apply in_or_app; left; exact HX).
      assert (Hts : t <> s) by (intro; subst t; apply ND2; apply in_or_app; left; apply in_or_app; right; now left).
      rewrite find_index_app_none by (apply not_in_find_index_none; exact Ht1).
      cbn [find_index].
      assert (is_section_id t x = false) as ->.
      { unfold is_section_id, sec_id in *. destruct (n_kind x); try reflexivity. inversion HSX; subst. apply Z.eqb_neq. exact Hts. }
      rewrite find_index_app_none by (apply not_in_find_index_none; rewrite (find_index_section_none m1 Hm1); intros []).
      cbn [find_index]. rewrite HTy. f_equal. lia. }
    unfold next_of in HN. destruct (lookup s (links (update_links b))) as [[u|]|]; try discriminate HN. inversion HN; subst u.
    rewrite HJ. reflexivity.
  - rewrite HSEQ, (find_index_section_none l2 EK) in HN. rewrite next_of_fresh_last in HN by exact HS1.
    unfold next_of in HN. destruct (lookup s (links (update_links b))) as [[u|]|]; try discriminate HN; reflexivity.
Qed.

(* from the attach state, after any history: section(s) on an active section puts the cursor at the end of that section's range *)
Corollary section_switch_after_any_history : forall rs cs s,
  let b := run (init_state rs) cs in
  snd (do_section s b) = kOk -> In s (sec_seq (active b)) ->
  cursor (fst (do_section s b)) = range_end (active b) s /\ active (fst (do_section s b)) = active b.
Proof.
  intros rs cs s b HOK HI.
  destruct (section_switch_spec b s (links_ok_run cs _ (links_ok_init rs)) (active_sections_unique rs cs) HOK HI) as (A & B & _). auto.
Qed.

(* C08 - from the grouping theorem to identical images, on C03's label/fixup machine (Verif.Labels.LabelsModel).
   The instruction encoder stays abstract: [enc h e] is the list of machine operations (raw bytes, gaps, label references with their
   displacement kind and hole, binds) a call [e] expands to, given the calls [h] issued before IN THE SAME SECTION.  That the encoders of
   /repo look at nothing else (a label bound in another section is treated like an unbound one; the section buffer; the call) is the
   modelling assumption; everything after the encoder - offsets, label table, fixup chains, cross-section resolution - is C03's model,
   for which AsmOrder.order_irrelevant is proved. *)
From Coq Require Import ZArith List Bool Lia Arith Permutation.
From Verif Require Import Labels.LabelsModel Builder.BuilderModel Builder.BuilderProofs Builder.BuilderGrouping Builder.AsmOrder Builder.AsmOrderAny Builder.AsmOrderEffect Builder.AsmOrderBytes Builder.AsmOrderPerm.
Import ListNotations.
Local Open Scope Z_scope.

Section Image.
Variable enc : list ecall -> ecall -> list sop.

Fixpoint compile (h : list ecall) (es : list ecall) : list sop :=
  match es with [] => [] | e :: r => enc h e ++ compile (h ++ [e]) r end.

Definition upd_hist (hist : Z -> list ecall) (s : Z) (e : ecall) : Z -> list ecall :=
  fun t => if t =? s then hist t ++ [e] else hist t.

(* the tagged machine program a direct assembler executes for a sequence of effective calls *)
Fixpoint tprog (cur : Z) (hist : Z -> list ecall) (es : list ecall) : list top :=
  match es with
  | [] => []
  | ESection s :: r => tprog s hist r
  | e :: r => map (pair (Z.to_nat cur)) (enc (hist cur) e) ++ tprog cur (upd_hist hist cur e) r
  end.

Definition secs_valid (ns : nat) (es : list ecall) : Prop := forall x, In (ESection x) es -> 0 <= x < Z.of_nat (S ns).

Lemma proj_tagged : forall k c l, proj k (map (pair c) l) = if Nat.eqb c k then l else [].
Proof.
  intros k c l. unfold proj. induction l as [|o l IH]; cbn; [destruct (Nat.eqb c k); reflexivity|].
  destruct (Nat.eqb c k) eqn:E; cbn; rewrite IH; reflexivity.
Qed.

Lemma proj_tprog : forall ns es cur hist k, 0 <= cur -> secs_valid ns es ->
  proj k (tprog cur hist es) = compile (hist (Z.of_nat k)) (project_from cur (Z.of_nat k) es).
Proof.
  intros ns es. induction es as [|e r IH]; intros cur hist k Hc HV; [reflexivity|].
  assert (HVr : secs_valid ns r) by (intros x Hx; apply HV; now right).
  assert (NS : forall e0, (forall s, e0 <> ESection s) -> In e0 [e] -> 
            proj k (map (pair (Z.to_nat cur)) (enc (hist cur) e0) ++ tprog cur (upd_hist hist cur e0) r) =
            compile (hist (Z.of_nat k)) (if cur =? Z.of_nat k then e0 :: project_from cur (Z.of_nat k) r else project_from cur (Z.of_nat k) r)).
  { intros e0 _ _. rewrite proj_app, proj_tagged, (IH cur (upd_hist hist cur e0) k Hc HVr). unfold upd_hist.
    destruct (cur =? Z.of_nat k) eqn:E.
    - apply Z.eqb_eq in E. subst cur. rewrite Nat2Z.id, Nat.eqb_refl, Z.eqb_refl. reflexivity.
    - apply Z.eqb_neq in E. assert (Nat.eqb (Z.to_nat cur) k = false) as -> by (apply Nat.eqb_neq; lia).
      assert (Z.of_nat k =? cur = false) as -> by (apply Z.eqb_neq; lia). reflexivity. }
  destruct e; cbn [tprog project_from]; try (apply NS; [intros s0; discriminate|now left]).
  apply IH; [apply HV; now left|exact HVr].
Qed.

Lemma tags_tprog : forall ns es cur hist, 0 <= cur < Z.of_nat (S ns) -> secs_valid ns es -> tags_ok ns (tprog cur hist es).
Proof.
  intros ns es. induction es as [|e r IH]; intros cur hist Hc HV; [constructor|].
  assert (HVr : secs_valid ns r) by (intros x Hx; apply HV; now right).
  assert (NS : forall l h, tags_ok ns (map (pair (Z.to_nat cur)) l ++ tprog cur h r)).
  { intros l h. apply Forall_app. split; [|apply IH; assumption]. apply Forall_forall. intros x Hx. apply in_map_iff in Hx.
    destruct Hx as (o & <- & _). cbn. lia. }
  destruct e; cbn [tprog]; try apply NS. apply IH; [apply HV; now left|exact HVr].
Qed.

Definition hist0 : Z -> list ecall := fun _ => [].
Definition program (es : list ecall) : list top := tprog 0 hist0 es.

Lemma same_projections : forall ns es es', secs_valid ns es -> secs_valid ns es' ->
  (forall s, project s es = project s es') -> forall k, proj k (program es) = proj k (program es').
Proof.
  intros ns es es' V V' H k. unfold program. rewrite (proj_tprog ns es), (proj_tprog ns es') by (assumption || lia).
  unfold project in H. now rewrite H.
Qed.

Lemma node_ecall_section : forall l x, In (ESection x) (flat_map node_ecalls l) -> In x (sec_seq l).
Proof.
  induction l as [|n l IH]; intros x H; [contradiction|]. cbn [flat_map] in H. apply in_app_or in H. destruct H as [H|H].
  - unfold sec_seq. cbn [flat_map]. apply in_or_app. left. destruct n as [k c]. destruct k; cbn in H; try (intuition discriminate).
    destruct H as [H|[]]. injection H as ->. now left.
  - unfold sec_seq. cbn [flat_map]. apply in_or_app. right. apply IH. exact H.
Qed.

(* MAIN: assembling what the Builder serializes = assembling the calls directly: same label table, same section sizes and - after layout
   at any section offsets and cross-section resolution - the same bytes in every section, on C03's machine, for every encoder [enc]. *)
Theorem same_image : forall nl ns offs rs cs,
  Forall (fun c => is_emitter_call c = true) cs -> all_ok (init_state rs) cs = true ->
  let direct := program (trace cs) in
  let serialized := program (trace (replay (BuilderModel.run (init_state rs) cs))) in
  secs_valid ns (trace cs) -> NoDup (bound_labels direct) -> delta_local_final nl ns direct -> nowrap nl ns direct offs ->
  let s1 := LabelsModel.run init ((prelude nl ns ++ expand direct) ++ [OResolve offs]) in
  let s2 := LabelsModel.run init ((prelude nl ns ++ expand serialized) ++ [OResolve offs]) in
  labels s1 = labels s2 /\ unresolved s1 = unresolved s2 /\ Permutation (relocs s1) (relocs s2) /\
  forall k, (k < S ns)%nat ->
    s_len (nsec s1 k) = s_len (nsec s2 k) /\
    sec_image (refs s1) (s_items (nsec s1 k)) = sec_image (refs s2) (s_items (nsec s2 k)).
Proof.
  intros nl ns offs rs cs HE HOK direct serialized HV HN HD HW.
  destruct (replay_is_grouping rs cs HE HOK) as (HP & HS & _).
  assert (HV2 : secs_valid ns (trace (replay (BuilderModel.run (init_state rs) cs)))).
  { intros x Hx. rewrite trace_replay in Hx. apply node_ecall_section in Hx. apply HS in Hx. destruct Hx as [->|Hx]; [lia|apply HV; exact Hx]. }
  apply order_irrelevant'; try assumption.
  - intros k. symmetry. apply (same_projections ns); assumption.
  - apply (tags_tprog ns); [lia|exact HV].
  - apply (tags_tprog ns); [lia|exact HV2].
Qed.

(* ... and without the side condition on label deltas (AsmOrderAny.order_irrelevant_any): any deltas, provided neither assembling refuses a
   delta for its range; the images then agree up to the bytes of delta sites (equal-length raw items) *)
Theorem same_image_any : forall nl ns offs rs cs,
  Forall (fun c => is_emitter_call c = true) cs -> all_ok (init_state rs) cs = true ->
  let direct := program (trace cs) in
  let serialized := program (trace (replay (BuilderModel.run (init_state rs) cs))) in
  secs_valid ns (trace cs) -> NoDup (bound_labels direct) ->
  let s0 := LabelsModel.run init (prelude nl ns) in
  no_misfit s0 direct -> no_misfit s0 serialized -> nowrap nl ns (res_from s0 direct) offs -> nowrap nl ns (res_from s0 serialized) offs ->
  let s1 := LabelsModel.run init ((prelude nl ns ++ expand direct) ++ [OResolve offs]) in
  let s2 := LabelsModel.run init ((prelude nl ns ++ expand serialized) ++ [OResolve offs]) in
  labels s1 = labels s2 /\
  forall k, (k < S ns)%nat ->
    s_len (nsec s1 k) = s_len (nsec s2 k) /\
    exists i1 i2, sec_image (refs s1) (s_items (nsec s1 k)) = gimage (labels s1) offs i1 /\
                  sec_image (refs s2) (s_items (nsec s2 k)) = gimage (labels s1) offs i2 /\
                  Forall2 irel2 i1 i2.
Proof.
  intros nl ns offs rs cs HE HOK direct serialized HV HN s0 M1 M2 W1 W2.
  destruct (replay_is_grouping rs cs HE HOK) as (HP & HS & _).
  assert (HV2 : secs_valid ns (trace (replay (BuilderModel.run (init_state rs) cs)))).
  { intros x Hx. rewrite trace_replay in Hx. apply node_ecall_section in Hx. apply HS in Hx. destruct Hx as [->|Hx]; [lia|apply HV; exact Hx]. }
  apply order_irrelevant_any; try assumption.
  - intros k. symmetry. apply (same_projections ns); assumption.
  - apply (tags_tprog ns); [lia|exact HV].
  - apply (tags_tprog ns); [lia|exact HV2].
Qed.

(* ... and as an equation on the relocated bytes (AsmOrderBytes.patched_bytes_equal, unpatched_entries_equal): what the Builder serializes
   and the calls assembled directly hold, after the intra-section delta patches, EQUAL bytes and EQUAL remaining relocation entries in every
   section - for every encoder of the shape above, any label deltas *)
Theorem same_patched_bytes : forall nl ns offs rs cs,
  Forall (fun c => is_emitter_call c = true) cs -> all_ok (init_state rs) cs = true ->
  let direct := program (trace cs) in
  let serialized := program (trace (replay (BuilderModel.run (init_state rs) cs))) in
  secs_valid ns (trace cs) -> NoDup (bound_labels direct) ->
  let s0 := LabelsModel.run init (prelude nl ns) in
  no_misfit s0 direct -> no_misfit s0 serialized -> nowrap nl ns (res_from s0 direct) offs ->
  let L := labels (LabelsModel.run init ((prelude nl ns ++ expand direct) ++ [OResolve offs])) in
  forall k, (k < S ns)%nat ->
    let A1 := lfold nl k (proj k (res_from s0 direct)) in let A2 := lfold nl k (proj k (res_from s0 serialized)) in
    apply_sites L (l_rels A1) (gbytes L offs (l_items A1)) = apply_sites L (l_rels A2) (gbytes L offs (l_items A2)) /\
    filter (inertb L) (l_rels A1) = filter (inertb L) (l_rels A2).
Proof.
  intros nl ns offs rs cs HE HOK direct serialized HV HN s0 M1 M2 W1 L k Hk A1 A2.
  destruct (replay_is_grouping rs cs HE HOK) as (HP & HS & _).
  assert (HV2 : secs_valid ns (trace (replay (BuilderModel.run (init_state rs) cs)))).
  { intros x Hx. rewrite trace_replay in Hx. apply node_ecall_section in Hx. apply HS in Hx. destruct Hx as [->|Hx]; [lia|apply HV; exact Hx]. }
  assert (HPk : forall j, proj j direct = proj j serialized) by (intros j; symmetry; apply (same_projections ns); assumption).
  assert (T1 : tags_ok ns direct) by (apply (tags_tprog ns); [lia|exact HV]).
  assert (T2 : tags_ok ns serialized) by (apply (tags_tprog ns); [lia|exact HV2]).
  split.
  - exact (proj1 (patched_bytes_equal nl ns direct serialized offs HPk T1 T2 HN M1 M2 W1 k Hk)).
  - exact (unpatched_entries_equal nl ns direct serialized offs HPk T1 T2 HN M1 M2 W1 k Hk).
Qed.

(* ... stated on the two machine states alone (AsmOrderPerm.machine_relocated_bytes_equal): same label table, and every section's bytes patched
   at the machine's own entries of that section are EQUAL *)
Theorem same_relocated_bytes_machine : forall nl ns offs rs cs,
  Forall (fun c => is_emitter_call c = true) cs -> all_ok (init_state rs) cs = true ->
  let direct := program (trace cs) in
  let serialized := program (trace (replay (BuilderModel.run (init_state rs) cs))) in
  secs_valid ns (trace cs) -> NoDup (bound_labels direct) ->
  let s0 := LabelsModel.run init (prelude nl ns) in
  no_misfit s0 direct -> no_misfit s0 serialized -> nowrap nl ns (res_from s0 direct) offs ->
  let s1 := LabelsModel.run init ((prelude nl ns ++ expand direct) ++ [OResolve offs]) in
  let s2 := LabelsModel.run init ((prelude nl ns ++ expand serialized) ++ [OResolve offs]) in
  let L := labels s1 in
  labels s2 = L /\
  forall k, (k < S ns)%nat ->
    apply_sites L (filter (fun rg => Nat.eqb (rg_sec rg) k) (map rghost_of (relocs s1))) (gbytes L offs (map (gi (refs s1)) (s_items (nsec s1 k)))) =
    apply_sites L (filter (fun rg => Nat.eqb (rg_sec rg) k) (map rghost_of (relocs s2))) (gbytes L offs (map (gi (refs s2)) (s_items (nsec s2 k)))).
Proof.
  intros nl ns offs rs cs HE HOK direct serialized HV HN s0 M1 M2 W1.
  destruct (replay_is_grouping rs cs HE HOK) as (HP & HS & _).
  assert (HV2 : secs_valid ns (trace (replay (BuilderModel.run (init_state rs) cs)))).
  { intros x Hx. rewrite trace_replay in Hx. apply node_ecall_section in Hx. apply HS in Hx. destruct Hx as [->|Hx]; [lia|apply HV; exact Hx]. }
  apply machine_relocated_bytes_equal; try assumption.
  - intros j. symmetry. apply (same_projections ns); assumption.
  - apply (tags_tprog ns); [lia|exact HV].
  - apply (tags_tprog ns); [lia|exact HV2].
Qed.

End Image.

(* ------------------------------------------------------------------ the hypotheses of same_image are satisfiable *)
Definition enc_ex (h : list ecall) (e : ecall) : list sop :=
  match e with
  | EInst id _ _ _ _ _ => [SRef K_Rel32 (-4) 1 [233] 0 []]          (* "jmp L1", rel32 *)
  | EBind l => [SBind (Z.to_nat l)]
  | EAlign _ _ => [SGap 3]
  | EData _ _ _ d => [SRaw d]
  | ELabel l _ => [SAbs (Z.to_nat l) 8 0 [] []]                      (* embed_label: 8 bytes + a RelToAbs relocation entry *)
  | EDelta l b sz => [SDelta (Z.to_nat l) (Z.to_nat b) sz]           (* embed_label_delta: the difference at once, or an expression entry *)
  | EComment _ => []
  | ESection _ => []
  end.

Lemma example_image_hypotheses :
  let direct := program enc_ex (trace example_program) in
  secs_valid 1 (trace example_program) /\ NoDup (bound_labels direct) /\ nowrap 2 1 direct [0; 4096] /\
  proj 0 direct <> [] /\ proj 1 direct <> [] /\ delta_local_final 2 1 direct /\ In (1%nat, SDelta 1 0 4) direct.
Proof.
  cbv zeta. split; [|split; [|split; [|split; [|split; [|split]]]]].
  - intros x H. vm_compute in H. repeat (destruct H as [H|H]; [try discriminate; injection H as <-; lia|]). contradiction.
  - vm_compute. repeat constructor; cbn; intuition discriminate.
  - intros k Hk. destruct k as [|[|k]]; [| |lia]; split.
    + intros g H. vm_compute in H. repeat (destruct H as [H|H]; [try discriminate; try (injection H as <-; vm_compute; reflexivity)|]). contradiction.
    + intros l off H. destruct l as [|[|l]]; vm_compute in H; try discriminate; injection H as <-; vm_compute; reflexivity.
    + intros g H. vm_compute in H. repeat (destruct H as [H|H]; [try discriminate; try (injection H as <-; vm_compute; reflexivity)|]). contradiction.
    + intros l off H. destruct l as [|[|l]]; vm_compute in H; try discriminate; injection H as <-; vm_compute; reflexivity.
  - vm_compute. discriminate.
  - vm_compute. discriminate.
  - intros k l b sz Hin k' lo bo Hk A1 A2. vm_compute in Hin.
    repeat (destruct Hin as [Hin|Hin]; [try discriminate|]); [|contradiction]. injection Hin as <- <- <- <-.
    destruct k' as [|[|k']]; [|reflexivity|lia]. vm_compute in A2. discriminate.
  - vm_compute. tauto.
Qed.

(* C08 - executable model of asmjit's BaseBuilder (core/builder.cpp): node list with cursor, emitter calls recorded as nodes,
   node-list editing, cached section links, and serialization (serialize_to) back into emitter calls.
   Definitions only (proofs: BuilderProofs.v), so that the model still extracts when a proof breaks.

   Representation choices (each is tied to the code by the per-command node-list differential of ./check C08):
   * the doubly linked list _node_list is a [list node]; the cursor pointer is the INDEX of the cursor node ([None] = nullptr);
     pointer identity of nodes is positional (edits address nodes by position; removed nodes live in [pool] in removal order);
   * LabelNode / SectionNode objects are unique per label / section id, so their identity is their id;
   * operands are the four 32-bit words of Operand_ (signature, id, data[0], data[1]); byte strings are lists of Z. *)
From Coq Require Import ZArith List Bool.
Import ListNotations.
Local Open Scope Z_scope.

(* ------------------------------------------------------------------ constants (tied to the code: `model -consts` vs `harness catalog`) *)
Definition kOk : Z := 0.
Definition kInvalidArgument : Z := 2.
Definition kInvalidLabel : Z := 12.
Definition kLabelAlreadyBound : Z := 14.
Definition kInvalidSection : Z := 19.
Definition kInvalidOperandSize : Z := 51.
Definition kBadIndex : Z := 9990.          (* the harness' own refusal of an edit command whose index does not exist *)
Definition kOptReserved : Z := 1.
Definition kAlignData : Z := 1.
Definition kTypeUInt8 : Z := 35.
Definition kBaseOpCapacity : nat := 3.
Definition kFullOpCapacity : nat := 6.

(* TypeUtils::deabstract + is_valid + size_of *)
Definition deabstract (ty regsize : Z) : Z :=
  if (32 <=? ty) && (ty <=? 33) then ty + (if 8 <=? regsize then 8 else 6) else ty.
Definition type_size (ty : Z) : option Z :=
  if (ty <? 32) || (100 <? ty) then None
  else if ty <=? 33 then None                    (* abstract: never reached after deabstract *)
  else if ty <=? 35 then Some 1 else if ty <=? 37 then Some 2 else if ty <=? 39 then Some 4 else if ty <=? 41 then Some 8
  else if ty =? 42 then Some 4 else if ty =? 43 then Some 8 else if ty =? 44 then Some 10
  else if ty =? 45 then Some 1 else if ty =? 46 then Some 2 else if ty =? 47 then Some 4 else if ty =? 48 then Some 8
  else if ty =? 49 then Some 4 else if ty =? 50 then Some 8
  else if ty <=? 60 then Some 4 else if ty <=? 70 then Some 8 else if ty <=? 80 then Some 16 else if ty <=? 90 then Some 32 else Some 64.
Definition final_type_size (ty regsize : Z) : option Z := type_size (deabstract ty regsize).

(* ------------------------------------------------------------------ operands, nodes *)
Record operand := mkOp { o_sig : Z; o_id : Z; o_d0 : Z; o_d1 : Z }.
Definition op_none : operand := mkOp 0 0 0 0.
Definition is_none (o : operand) : bool := o_sig o =? 0.

Definition bytes := list Z.

Inductive nkind :=
| NInst (id opts exsig exid : Z) (opc : nat) (ops : list operand)     (* ops has op_capacity entries *)
| NSection (s : Z)
| NLabel (l : Z)
| NAlign (mode n : Z)
| NData (ty tsize cnt rep : Z) (data : bytes)
| NEmbedLabel (l sz : Z)
| NEmbedDelta (l b sz : Z)
| NComment
| NConstPool (l align : Z) (data : bytes)     (* ConstPoolNode: a label node that carries a constant pool (what the Compiler creates) *)
| NSentinel (ty : Z)                          (* SentinelNode: informative, serialized as nothing *)
| NFunc (l exit : Z)                          (* FuncNode (Compiler): acts as the label l of the function; exit = its exit label *)
| NFuncEnd (l : Z)                            (* the kFuncEnd sentinel of function l (its identity is the function) *)
| NFuncRet                                    (* FuncRetNode (Compiler): an abstract instruction node without operands *)
| NJump (id opts exsig exid : Z) (op : operand) (ann : Z)     (* JumpNode: an instruction with one operand and a jump annotation id (-1 = none) *)
| NInvoke (id opts exsig exid : Z) (op : operand).            (* InvokeNode (void() signature): the call instruction with its target *)

Record node := mkNode { n_kind : nkind; n_comment : option bytes }.

Definition is_section (n : node) : bool := match n_kind n with NSection _ => true | _ => false end.
Definition is_section_id (s : Z) (n : node) : bool := match n_kind n with NSection t => s =? t | _ => false end.
Definition is_label_id (l : Z) (n : node) : bool := match n_kind n with NLabel t => l =? t | NConstPool t _ _ => l =? t | NFunc t _ => l =? t | _ => false end.
Definition is_func_end (l : Z) (n : node) : bool := match n_kind n with NFuncEnd t => l =? t | _ => false end.
Definition kIdAbstract : Z := 2147483648.
Definition kInvalidState : Z := 3.
Definition kSentinelFuncEnd : Z := 1.

Definition sec_node (s : Z) : node := mkNode (NSection s) None.
Definition label_node (l : Z) : node := mkNode (NLabel l) None.

(* ------------------------------------------------------------------ list helpers *)
Definition insert_at {A} (i : nat) (x : A) (l : list A) : list A := firstn i l ++ x :: skipn i l.
Definition remove_at {A} (i : nat) (l : list A) : list A := firstn i l ++ skipn (S i) l.
Definition slice {A} (i j : nat) (l : list A) : list A := firstn (S j - i) (skipn i l).       (* elements i..j *)
Definition remove_slice {A} (i j : nat) (l : list A) : list A := firstn i l ++ skipn (S j) l.

Fixpoint find_index {A} (p : A -> bool) (l : list A) : option nat :=
  match l with
  | [] => None
  | x :: t => if p x then Some 0%nat else match find_index p t with Some i => Some (S i) | None => None end
  end.

Fixpoint remove_first {A} (p : A -> bool) (l : list A) : list A :=
  match l with
  | [] => []
  | x :: t => if p x then t else x :: remove_first p t
  end.

Definition pred_opt (i : nat) : option nat := match i with O => None | S k => Some k end.

(* ------------------------------------------------------------------ builder state *)
Record bstate := mkB {
  active : list node;                   (* _node_list, first .. last *)
  cursor : option nat;                  (* _cursor as an index into active *)
  pool : list node;                     (* removed (inactive) nodes the editing commands can re-insert *)
  links : list (Z * option Z);          (* SectionNode::_next_section per section id as last written (first match wins) *)
  dirty : bool;                         (* _dirty_section_links *)
  nlabels : Z; nsections : Z; regsize : Z;
  p_opts : Z; p_exsig : Z; p_exid : Z; p_comment : option bytes;    (* one-shot emitter state *)
  cur_func : option Z;                  (* BaseCompiler::_func: the function being generated (its label id) *)
  lpool : option (Z * bytes);           (* BaseCompiler::_const_pools[kLocal]: label and contents of the pool node (not yet in the list) *)
  gpool : option (Z * bytes)            (* BaseCompiler::_const_pools[kGlobal] *)
}.

Definition init_state (rs : Z) : bstate :=
  mkB [sec_node 0] (Some 0%nat) [] [] false 0 1 rs 0 0 0 None None None None.

Definition with_list (b : bstate) (a : list node) (c : option nat) (d : bool) : bstate :=
  mkB a c (pool b) (links b) d (nlabels b) (nsections b) (regsize b) (p_opts b) (p_exsig b) (p_exid b) (p_comment b) (cur_func b) (lpool b) (gpool b).
Definition with_pool (b : bstate) (p : list node) : bstate :=
  mkB (active b) (cursor b) p (links b) (dirty b) (nlabels b) (nsections b) (regsize b) (p_opts b) (p_exsig b) (p_exid b) (p_comment b) (cur_func b) (lpool b) (gpool b).
Definition with_links (b : bstate) (l : list (Z * option Z)) (d : bool) : bstate :=
  mkB (active b) (cursor b) (pool b) l d (nlabels b) (nsections b) (regsize b) (p_opts b) (p_exsig b) (p_exid b) (p_comment b) (cur_func b) (lpool b) (gpool b).
Definition with_pend (b : bstate) (o s i : Z) (c : option bytes) : bstate :=
  mkB (active b) (cursor b) (pool b) (links b) (dirty b) (nlabels b) (nsections b) (regsize b) o s i c (cur_func b) (lpool b) (gpool b).
Definition with_func (b : bstate) (f : option Z) : bstate :=
  mkB (active b) (cursor b) (pool b) (links b) (dirty b) (nlabels b) (nsections b) (regsize b) (p_opts b) (p_exsig b) (p_exid b) (p_comment b) f (lpool b) (gpool b).
Definition with_pools (b : bstate) (lp gp : option (Z * bytes)) : bstate :=
  mkB (active b) (cursor b) (pool b) (links b) (dirty b) (nlabels b) (nsections b) (regsize b) (p_opts b) (p_exsig b) (p_exid b) (p_comment b) (cur_func b) lp gp.
Definition with_counts (b : bstate) (nl ns : Z) : bstate :=
  mkB (active b) (cursor b) (pool b) (links b) (dirty b) nl ns (regsize b) (p_opts b) (p_exsig b) (p_exid b) (p_comment b) (cur_func b) (lpool b) (gpool b).

(* BaseBuilder::add_node: insert after the cursor (at the front when the cursor is null), cursor := node *)
Definition cursor_pos (c : option nat) : nat := match c with None => 0%nat | Some i => S i end.
Definition add_node (n : node) (b : bstate) : bstate :=
  let pos := cursor_pos (cursor b) in
  with_list b (insert_at pos n (active b)) (Some pos) (dirty b || is_section n).

(* add_after / add_before: the cursor keeps pointing at the same node *)
Definition add_after (n : node) (i : nat) (b : bstate) : bstate :=
  let c := match cursor b with Some c => if Nat.ltb i c then Some (S c) else Some c | None => None end in
  with_list b (insert_at (S i) n (active b)) c (dirty b || is_section n).
Definition add_before (n : node) (i : nat) (b : bstate) : bstate :=
  let c := match cursor b with Some c => if Nat.leb i c then Some (S c) else Some c | None => None end in
  with_list b (insert_at i n (active b)) c (dirty b || is_section n).

(* remove_node(active[i]): the cursor moves to the predecessor when it pointed at the removed node *)
Definition cursor_after_remove (i j : nat) (c : option nat) : option nat :=      (* nodes i..j removed *)
  match c with
  | None => None
  | Some c => if Nat.ltb c i then Some c else if Nat.leb c j then pred_opt i else Some (c - (S j - i))%nat
  end.
Definition remove_range (i j : nat) (b : bstate) : bstate :=
  let removed := slice i j (active b) in
  with_pool (with_list b (remove_slice i j (active b)) (cursor_after_remove i j (cursor b)) (dirty b || existsb is_section removed))
            (pool b ++ removed).

(* update_section_links *)
Definition sec_id (n : node) : list Z := match n_kind n with NSection s => [s] | _ => [] end.
Definition sec_seq (l : list node) : list Z := flat_map sec_id l.
Fixpoint fresh_links (ss : list Z) : list (Z * option Z) :=
  match ss with
  | [] => []
  | s :: t => (s, match t with [] => None | u :: _ => Some u end) :: fresh_links t
  end.
Fixpoint lookup (s : Z) (l : list (Z * option Z)) : option (option Z) :=
  match l with
  | [] => None
  | (k, v) :: t => if s =? k then Some v else lookup s t
  end.
Definition update_links (b : bstate) : bstate :=
  if dirty b then with_links b (fresh_links (sec_seq (active b)) ++ links b) false else b.

Definition last_index (l : list node) : option nat := pred_opt (length l).

(* BaseBuilder::section *)
Definition do_section (s : Z) (b : bstate) : bstate * Z :=
  if (s <? 0) || (nsections b <=? s) then (b, kInvalidSection) else
  match find_index (is_section_id s) (active b) with
  | None =>
      let b1 := with_pool b (remove_first (is_section_id s) (pool b)) in
      (with_list b1 (active b ++ [sec_node s]) (Some (length (active b))) true, kOk)
  | Some _ =>
      let b1 := update_links b in
      let c := match lookup s (links b1) with
               | Some (Some t) => match find_index (is_section_id t) (active b1) with Some j => pred_opt j | None => None end
               | _ => last_index (active b1)
               end in
      (with_list b1 (active b1) c (dirty b1), kOk)
  end.

(* BaseBuilder::bind.  label_node_of(l) is THE node of the label: a removed (pooled) LabelNode / ConstPoolNode is linked in again, a label
   that never had a node gets a fresh LabelNode.  Binding a label whose node is already active is refused with kLabelAlreadyBound (/repo d28b073; before that
   fix the active node was linked a second time and the list corrupted). *)
Definition do_bind (l : Z) (b : bstate) : bstate * Z :=
  if (l <? 0) || (nlabels b <=? l) then (b, kInvalidLabel)
  else if existsb (is_label_id l) (active b) then (b, kLabelAlreadyBound)
  else (add_node (match find (is_label_id l) (pool b) with Some n => n | None => label_node l end)
                 (with_pool b (remove_first (is_label_id l) (pool b))), kOk).

(* EmitterUtils::op_count_from_emit_args as repaired by fixes/C08-op-count-keeps-operands-after-hole.patch: the count covers every slot up to
   the LAST used one, so an operand that follows an empty slot is kept (the Assembler looks at all six slots) *)
Definition op_count (o0 o1 o2 o3 o4 o5 : operand) : nat :=
  (if negb (is_none o5) then 6 else if negb (is_none o4) then 5 else if negb (is_none o3) then 4
   else if negb (is_none o2) then 3 else if negb (is_none o1) then 2 else if negb (is_none o0) then 1 else 0)%nat.

(* the counting rule before that repair: the extended slots stop counting at their first empty one, and an empty slot 3 hides slots 4 and 5 *)
Definition op_count_legacy (o0 o1 o2 o3 o4 o5 : operand) : nat :=
  if is_none o3 then
    (if negb (is_none o2) then 3 else if negb (is_none o1) then 2 else if negb (is_none o0) then 1 else 0)%nat
  else if is_none o4 then 4%nat else if is_none o5 then 5%nat else 6%nat.

Definition capacity_of (n : nat) : nat := if Nat.leb n kBaseOpCapacity then kBaseOpCapacity else kFullOpCapacity.

Definition clear_reserved (o : Z) : Z := Z.ldiff o kOptReserved.

(* Builder_assign_inline_comment / _emit: the comment is duplicated with Arena::dup, which returns nullptr for a zero-length string *)
Definition dup_comment (c : option bytes) : option bytes := match c with Some [] => None | _ => c end.

Definition inst_node (b : bstate) (id : Z) (o0 o1 o2 o3 o4 o5 : operand) : node :=
  let n := op_count o0 o1 o2 o3 o4 o5 in
  let cap := capacity_of n in
  mkNode (NInst id (clear_reserved (p_opts b)) (p_exsig b) (p_exid b) n (firstn n [o0; o1; o2; o3; o4; o5] ++ repeat op_none (cap - n)))
         (dup_comment (p_comment b)).

Definition do_emit (id : Z) (o0 o1 o2 o3 o4 o5 : operand) (b : bstate) : bstate * Z :=
  (add_node (inst_node b id o0 o1 o2 o3 o4 o5) (with_pend b 0 0 0 None), kOk).

Definition data_node (ty tsize cnt rep : Z) (d : bytes) : node := mkNode (NData ty tsize cnt rep d) None.

Definition do_embed_array (ty cnt rep : Z) (d : bytes) (b : bstate) : bstate * Z :=
  match final_type_size ty (regsize b) with
  | None => (b, kInvalidArgument)
  | Some ts => (add_node (data_node ty ts cnt rep d) b, kOk)
  end.

Definition valid_label_size (sz : Z) : bool := (sz =? 0) || (sz =? 1) || (sz =? 2) || (sz =? 4) || (sz =? 8).

(* ConstPool::add for constants of ONE size (8 bytes): a constant already in the pool is shared, a new one is appended *)
Fixpoint list_eqb (a b : bytes) : bool :=
  match a, b with
  | [], [] => true
  | x :: a', y :: b' => (x =? y) && list_eqb a' b'
  | _, _ => false
  end.
Fixpoint chunk_in (c d : bytes) (fuel : nat) : bool :=
  match fuel with
  | O => false
  | S f => match d with
           | [] => false
           | _ => if list_eqb c (firstn 8 d) then true else chunk_in c (skipn 8 d) f
           end
  end.
Definition pool_add (c d : bytes) : bytes := if chunk_in c d (length d) then d else d ++ c.

(* ------------------------------------------------------------------ commands *)
Inductive cmd :=
| CNewLabel | CNewSection
| CSetOptions (o : Z) | CAddOptions (o : Z) | CSetExtra (sg id : Z) | CSetComment (c : option bytes)
| CEmit (id : Z) (o0 o1 o2 o3 o4 o5 : operand)
| CEmitRejected (e : Z)      (* an _emit refused by strict validation (kValidateIntermediate / kValidateAssembler) with error e: the validator
                               itself is opaque to the model, its verdict is an input *)
| CBind (l : Z) | CAlign (m n : Z) | CEmbed (d : bytes) | CEmbedArray (ty cnt rep : Z) (d : bytes)
| CEmbedLabel (l sz : Z) | CEmbedDelta (l b sz : Z) | CConstPool (l align : Z) (d : bytes) | CComment (c : bytes) | CSection (s : Z)
| CConstPoolNode (l align : Z) (d : bytes)     (* new_const_pool_node + ConstPool::add + add_node; l = the label id it registers *)
| CSentinel (ty : Z)                          (* new_node_t<SentinelNode> + add_node *)
| CFunc | CFuncRet | CEndFunc                 (* BaseCompiler::add_func_node(void()) / add_func_ret_node(none, none) / end_func *)
| CNewConst (scope : Z) (d : bytes)           (* BaseCompiler::_new_const(scope, one 8-byte constant) *)
| CJumpAnn                                    (* new_jump_annotation (+ add_label_id): no effect on the node list *)
| CJump (id : Z) (op : operand) (ann : Z)     (* emit_annotated_jump *)
| CInvoke (id : Z) (op : operand)             (* add_invoke_node(inst, target, void()) *)
| CSetCursor (i : option nat) | CRemove (i : nat) | CRemoveRange (i j : nat) | CRemovePool (k : nat)
| CAddAfter (k i : nat) | CAddBefore (k i : nat) | CAddNode (k : nat) | CUpdateLinks.

Definition in_range {A} (i : nat) (l : list A) : bool := Nat.ltb i (length l).

Definition step (b : bstate) (c : cmd) : bstate * Z :=
  match c with
  | CNewLabel => (with_counts b (nlabels b + 1) (nsections b), kOk)
  | CNewSection => (with_counts b (nlabels b) (nsections b + 1), kOk)
  | CSetOptions o => (with_pend b o (p_exsig b) (p_exid b) (p_comment b), kOk)
  | CAddOptions o => (with_pend b (Z.lor (p_opts b) o) (p_exsig b) (p_exid b) (p_comment b), kOk)
  | CSetExtra s i => (with_pend b (p_opts b) s i (p_comment b), kOk)
  | CSetComment c => (with_pend b (p_opts b) (p_exsig b) (p_exid b) c, kOk)
  | CEmit id o0 o1 o2 o3 o4 o5 => do_emit id o0 o1 o2 o3 o4 o5 b
  | CEmitRejected e => (with_pend b 0 0 0 None, e)     (* log_instruction_failed: reset_state() + report_error; no node *)
  | CBind l => do_bind l b
  | CAlign m n => (add_node (mkNode (NAlign m n) None) b, kOk)
  | CEmbed d => (add_node (data_node kTypeUInt8 1 (Z.of_nat (length d)) 1 d) b, kOk)
  | CEmbedArray ty cnt rep d => do_embed_array ty cnt rep d b
  | CEmbedLabel l sz => if valid_label_size sz then (add_node (mkNode (NEmbedLabel l sz) None) b, kOk) else (b, kInvalidOperandSize)
  | CEmbedDelta l bl sz => if valid_label_size sz then (add_node (mkNode (NEmbedDelta l bl sz) None) b, kOk) else (b, kInvalidOperandSize)
  | CConstPool l al d =>
      if (l <? 0) || (nlabels b <=? l) then (b, kInvalidLabel) else
      let b1 := add_node (mkNode (NAlign kAlignData al) None) b in
      let (b2, e) := do_bind l b1 in
      if e =? kOk then (add_node (data_node kTypeUInt8 1 (Z.of_nat (length d)) 1 d) b2, kOk) else (b2, e)
  | CComment c => (add_node (mkNode NComment (Some c)) b, kOk)
  | CConstPoolNode l al d =>
      if l =? nlabels b then (add_node (mkNode (NConstPool l al d) None) (with_counts b (nlabels b + 1) (nsections b)), kOk) else (b, kBadIndex)
  | CSentinel ty => (add_node (mkNode (NSentinel ty) None) b, kOk)
  | CFunc =>
      (* _grab_state(): the inline comment goes to the FuncNode, options and extra register are dropped; new_func_node registers the exit
         label first, then the function's label; add_func: function node at the cursor, exit label node and end sentinel after it,
         cursor back on the function node *)
      let ex := nlabels b in let fl := nlabels b + 1 in
      let b0 := with_func (with_counts (with_pend b 0 0 0 None) (nlabels b + 2) (nsections b)) (Some fl) in
      let b1 := add_node (mkNode (NFunc fl ex) (dup_comment (p_comment b))) b0 in
      let b2 := add_node (mkNode (NFuncEnd fl) None) (add_node (label_node ex) b1) in
      (with_list b2 (active b2) (cursor b1) (dirty b2), kOk)
  | CFuncRet => (add_node (mkNode NFuncRet (dup_comment (p_comment b))) (with_pend b 0 0 0 None), kOk)
  | CEndFunc =>
      let b0 := with_pend b 0 0 0 None in                      (* reset_state() comes first *)
      match cur_func b with
      | None => (b0, kInvalidState)
      | Some fl =>
          let b1 := with_func b0 None in
          (* the local constant pool (if any) is linked in right before the end sentinel: set_cursor(end->prev()); add_node(pool) *)
          let b2 := match lpool b1 with
                    | Some (l, d) =>
                        let c := match find_index (is_func_end fl) (active b1) with Some e => pred_opt e | None => None end in
                        add_node (mkNode (NConstPool l 8 d) None) (with_list (with_pools b1 None (gpool b1)) (active b1) c (dirty b1))
                    | None => b1
                    end in
          (with_list b2 (active b2) (find_index (is_func_end fl) (active b2)) (dirty b2), kOk)
      end
  | CNewConst scope d =>
      (* the pool node of the scope is created on first use (registers a label); the constant is added to it; nothing is linked in *)
      if scope =? 0 then
        match lpool b with
        | Some (l, old) => (with_pools b (Some (l, pool_add d old)) (gpool b), kOk)
        | None => (with_pools (with_counts b (nlabels b + 1) (nsections b)) (Some (nlabels b, d)) (gpool b), kOk)
        end
      else
        match gpool b with
        | Some (l, old) => (with_pools b (lpool b) (Some (l, pool_add d old)), kOk)
        | None => (with_pools (with_counts b (nlabels b + 1) (nsections b)) (lpool b) (Some (nlabels b, d)), kOk)
        end
  | CJumpAnn => (b, kOk)
  | CJump id op ann =>            (* _grab_state: options | forced, extra register, comment; all consumed *)
      (add_node (mkNode (NJump id (p_opts b) (p_exsig b) (p_exid b) op ann) (dup_comment (p_comment b))) (with_pend b 0 0 0 None), kOk)
  | CInvoke id op =>
      (add_node (mkNode (NInvoke id (p_opts b) (p_exsig b) (p_exid b) op) (dup_comment (p_comment b))) (with_pend b 0 0 0 None), kOk)
  | CSection s => do_section s b
  | CSetCursor None => (with_list b (active b) None (dirty b), kOk)
  | CSetCursor (Some i) => if in_range i (active b) then (with_list b (active b) (Some i) (dirty b), kOk) else (b, kBadIndex)
  | CRemove i => if in_range i (active b) then (remove_range i i b, kOk) else (b, kBadIndex)
  | CRemoveRange i j => if in_range i (active b) && in_range j (active b) && Nat.leb i j then (remove_range i j b, kOk) else (b, kBadIndex)
  | CRemovePool k => if in_range k (pool b) then (b, kOk) else (b, kBadIndex)
  | CAddAfter k i =>
      match nth_error (pool b) k with
      | Some n => if in_range i (active b) then (add_after n i (with_pool b (remove_at k (pool b))), kOk) else (b, kBadIndex)
      | None => (b, kBadIndex)
      end
  | CAddBefore k i =>
      match nth_error (pool b) k with
      | Some n => if in_range i (active b) then (add_before n i (with_pool b (remove_at k (pool b))), kOk) else (b, kBadIndex)
      | None => (b, kBadIndex)
      end
  | CAddNode k =>
      match nth_error (pool b) k with
      | Some n => (add_node n (with_pool b (remove_at k (pool b))), kOk)
      | None => (b, kBadIndex)
      end
  | CUpdateLinks => (update_links b, kOk)
  end.

Fixpoint run (b : bstate) (cs : list cmd) : bstate :=
  match cs with
  | [] => b
  | c :: t => run (fst (step b c)) t
  end.

(* ------------------------------------------------------------------ serialization: BaseBuilder::serialize_to as a list of emitter calls *)
Definition nth_op (ops : list operand) (i : nat) : operand := nth i ops op_none.

(* the operand serialize_to passes in slot i for a node with op_count opc: slots 0..2 straight from the node's storage, slots 3..5
   through op_array (EmitterUtils::no_ext when op_count <= 3; slot 3 copied, slots 4..5 copied below op_count and reset above) *)
Definition rop (opc : nat) (ops : list operand) (i : nat) : operand :=
  if Nat.ltb i 3 then nth_op ops i
  else if Nat.leb opc 3 then op_none
  else if Nat.eqb i 3 then nth_op ops 3
  else if Nat.ltb i opc then nth_op ops i else op_none.

Definition replay_node (n : node) : list cmd :=
  CSetComment (n_comment n) ::
  match n_kind n with
  | NInst id opts es ei opc ops =>
      [CSetOptions opts; CSetExtra es ei;
       CEmit id (rop opc ops 0) (rop opc ops 1) (rop opc ops 2) (rop opc ops 3) (rop opc ops 4) (rop opc ops 5)]
  | NSection s => [CSection s]
  | NLabel l => [CBind l]
  | NAlign m a => [CAlign m a]
  | NData ty ts cnt rep d => [CEmbedArray ty cnt rep d]
  | NEmbedLabel l sz => [CEmbedLabel l sz]
  | NEmbedDelta l bl sz => [CEmbedDelta l bl sz]
  | NComment => [CComment (match n_comment n with Some c => c | None => [] end)]
  | NConstPool l al d => [CConstPool l al d]          (* dst->embed_const_pool(node->label(), node->const_pool()) *)
  | NSentinel _ => []
  | NFunc l _ => [CBind l]                             (* acts as label: dst->bind(node->label()) *)
  | NFuncEnd _ => []
  | NFuncRet => [CSetOptions 0; CSetExtra 0 0; CEmit kIdAbstract op_none op_none op_none op_none op_none op_none]   (* acts as instruction *)
  | NJump id opts es ei op _ => [CSetOptions opts; CSetExtra es ei; CEmit id op op_none op_none op_none op_none op_none]
  | NInvoke id opts es ei op => [CSetOptions opts; CSetExtra es ei; CEmit id op op_none op_none op_none op_none op_none]
  end.

Definition replay (b : bstate) : list cmd := flat_map replay_node (active b).

(* ------------------------------------------------------------------ what reaches the encoder: effective calls
   The emitter front end (BaseEmitter one-shot state) is shared by Assembler and Builder; [trace] is the sequence of effective calls a
   DIRECT assembler performs for a sequence of API calls.  The encoder itself is opaque (any function of this sequence).
   An empty inline comment counts as no comment (it only ever reaches the logger). *)
Inductive ecall :=
| EInst (id opts exsig exid : Z) (ops : list operand) (comment : option bytes)
| EBind (l : Z) | EAlign (m n : Z) | EData (ty cnt rep : Z) (d : bytes)
| ELabel (l sz : Z) | EDelta (l b sz : Z) | EComment (c : bytes) | ESection (s : Z).

Record pend := mkP { q_opts : Z; q_exsig : Z; q_exid : Z; q_comment : option bytes }.
Definition pend0 : pend := mkP 0 0 0 None.

(* operands as the encoder can see them: all six slots; the empty slots after the last used one are normalised to op_none (an empty
   operand is recognised by its signature alone) *)
Definition canon_ops (o0 o1 o2 o3 o4 o5 : operand) : list operand :=
  let n := op_count o0 o1 o2 o3 o4 o5 in
  firstn n [o0; o1; o2; o3; o4; o5] ++ repeat op_none (6 - n).

Definition front (p : pend) (c : cmd) : pend * list ecall :=
  match c with
  | CSetOptions o => (mkP o (q_exsig p) (q_exid p) (q_comment p), [])
  | CAddOptions o => (mkP (Z.lor (q_opts p) o) (q_exsig p) (q_exid p) (q_comment p), [])
  | CSetExtra s i => (mkP (q_opts p) s i (q_comment p), [])
  | CSetComment c => (mkP (q_opts p) (q_exsig p) (q_exid p) c, [])
  | CEmit id o0 o1 o2 o3 o4 o5 => (pend0, [EInst id (clear_reserved (q_opts p)) (q_exsig p) (q_exid p) (canon_ops o0 o1 o2 o3 o4 o5) (dup_comment (q_comment p))])
  | CEmitRejected _ => (pend0, [])                      (* the Assembler's failure path resets the one-shot state as well *)
  | CBind l => (p, [EBind l])
  | CAlign m n => (p, [EAlign m n])
  | CEmbed d => (p, [EData kTypeUInt8 (Z.of_nat (length d)) 1 d])
  | CEmbedArray ty cnt rep d => (p, [EData ty cnt rep d])
  | CEmbedLabel l sz => (p, [ELabel l sz])
  | CEmbedDelta l b sz => (p, [EDelta l b sz])
  | CConstPool l al d => (p, [EAlign kAlignData al; EBind l; EData kTypeUInt8 (Z.of_nat (length d)) 1 d])
  | CComment c => (p, [EComment c])
  | CConstPoolNode l al d => (p, [EAlign kAlignData al; EBind l; EData kTypeUInt8 (Z.of_nat (length d)) 1 d])   (* = new_label + embed_const_pool *)
  | CSentinel _ => (p, [])
  | CSection s => (p, [ESection s])
  | _ => (p, [])
  end.

Fixpoint trace_from (p : pend) (cs : list cmd) : list ecall :=
  match cs with
  | [] => []
  | c :: t => let (p', es) := front p c in es ++ trace_from p' t
  end.
Definition trace (cs : list cmd) : list ecall := trace_from pend0 cs.

(* the effective call a node stands for: what serializing it makes the destination emitter perform *)
Definition node_ecalls (n : node) : list ecall :=
  match n_kind n with
  | NInst id opts es ei opc ops =>
      [EInst id (clear_reserved opts) es ei
             (canon_ops (rop opc ops 0) (rop opc ops 1) (rop opc ops 2) (rop opc ops 3) (rop opc ops 4) (rop opc ops 5)) (dup_comment (n_comment n))]
  | NSection s => [ESection s]
  | NLabel l => [EBind l]
  | NAlign m a => [EAlign m a]
  | NData ty ts cnt rep d => [EData ty cnt rep d]
  | NEmbedLabel l sz => [ELabel l sz]
  | NEmbedDelta l bl sz => [EDelta l bl sz]
  | NComment => [EComment (match n_comment n with Some c => c | None => [] end)]
  | NConstPool l al d => [EAlign kAlignData al; EBind l; EData kTypeUInt8 (Z.of_nat (length d)) 1 d]
  | NSentinel _ => []
  | NFunc l _ => [EBind l]
  | NFuncEnd _ => []
  | NFuncRet => [EInst kIdAbstract 0 0 0 (canon_ops op_none op_none op_none op_none op_none op_none) (dup_comment (n_comment n))]
  | NJump id opts es ei op _ => [EInst id (clear_reserved opts) es ei (canon_ops op op_none op_none op_none op_none op_none) (dup_comment (n_comment n))]
  | NInvoke id opts es ei op => [EInst id (clear_reserved opts) es ei (canon_ops op op_none op_none op_none op_none op_none) (dup_comment (n_comment n))]
  end.

(* per-section projection of an effective-call sequence: the calls issued while section s is current (ESection itself excluded) *)
Fixpoint project_from (cur s : Z) (es : list ecall) : list ecall :=
  match es with
  | [] => []
  | ESection t :: r => project_from t s r
  | e :: r => if cur =? s then e :: project_from cur s r else project_from cur s r
  end.
Definition project (s : Z) (es : list ecall) : list ecall := project_from 0 s es.

(* sections in order of first use *)
Fixpoint sections_used_from (seen : list Z) (es : list ecall) : list Z :=
  match es with
  | [] => []
  | ESection t :: r => if existsb (Z.eqb t) seen then sections_used_from seen r else t :: sections_used_from (t :: seen) r
  | _ :: r => sections_used_from seen r
  end.
Definition sections_used (es : list ecall) : list Z := 0 :: sections_used_from [0] es.

(* every call of the sequence is accepted (returns kOk) *)
Fixpoint all_ok (b : bstate) (cs : list cmd) : bool :=
  match cs with
  | [] => true
  | c :: t => (snd (step b c) =? kOk) && all_ok (fst (step b c)) t
  end.

(* emitter calls only (no node-list edits) *)
Definition is_emitter_call (c : cmd) : bool :=
  match c with
  | CSetCursor _ | CRemove _ | CRemoveRange _ _ | CRemovePool _ | CAddAfter _ _ | CAddBefore _ _ | CAddNode _ | CUpdateLinks => false
  | CFunc | CFuncRet | CEndFunc | CNewConst _ _ | CJumpAnn | CJump _ _ _ | CInvoke _ _ => false   (* Compiler nodes: what they assemble to is decided by the register-allocation pass *)
  | CEmitRejected _ => false      (* sequences with refused instructions are outside the recording theorems (see rejected_emit_resets) *)
  | _ => true
  end.

(* C08 - proofs about the Builder model (BuilderModel.v). *)
From Coq Require Import ZArith List Bool Lia Arith.
From Verif Require Import Builder.BuilderModel.
Import ListNotations.
Local Open Scope Z_scope.

(* ================================================================== generic list facts *)
Lemma length_insert_at : forall {A} i (x : A) l, (i <= length l)%nat -> length (insert_at i x l) = S (length l).
Proof.
  intros. unfold insert_at. rewrite app_length. cbn. rewrite firstn_length, skipn_length. lia.
Qed.

Lemma insert_at_app : forall {A} (p q : list A) x, insert_at (length p) x (p ++ q) = p ++ x :: q.
Proof.
  intros. unfold insert_at. rewrite firstn_app, skipn_app, Nat.sub_diag, firstn_all, skipn_all. cbn. now rewrite app_nil_r.
Qed.

Lemma map_insert_at : forall {A B} (f : A -> B) i x l, map f (insert_at i x l) = insert_at i (f x) (map f l).
Proof. intros. unfold insert_at. now rewrite map_app, firstn_map, skipn_map. Qed.

Lemma map_remove_slice : forall {A B} (f : A -> B) i j l, map f (remove_slice i j l) = remove_slice i j (map f l).
Proof. intros. unfold remove_slice. now rewrite map_app, firstn_map, skipn_map. Qed.

Lemma map_slice : forall {A B} (f : A -> B) i j l, map f (slice i j l) = slice i j (map f l).
Proof. intros. unfold slice. now rewrite skipn_map, firstn_map. Qed.

Lemma remove_slice_single : forall {A} i (l : list A), remove_slice i i l = remove_at i l.
Proof. reflexivity. Qed.

Lemma length_remove_slice : forall {A} i j (l : list A), (i <= j)%nat -> (j < length l)%nat ->
  length (remove_slice i j l) = (length l - (S j - i))%nat.
Proof. intros. unfold remove_slice. rewrite app_length, firstn_length, skipn_length. lia. Qed.

Lemma nth_error_insert_at_lt : forall {A} i k (x : A) l, (k < i)%nat -> (i <= length l)%nat -> nth_error (insert_at i x l) k = nth_error l k.
Proof.
  intros. unfold insert_at. rewrite nth_error_app1 by (rewrite firstn_length; lia).
  rewrite <- (firstn_skipn i l) at 2. rewrite nth_error_app1 by (rewrite firstn_length; lia). reflexivity.
Qed.

Lemma nth_error_insert_at_ge : forall {A} i k (x : A) l, (i <= k)%nat -> (i <= length l)%nat -> nth_error (insert_at i x l) (S k) = nth_error l k.
Proof.
  intros. unfold insert_at. rewrite nth_error_app2 by (rewrite firstn_length; lia).
  rewrite firstn_length, Nat.min_l by lia.
  rewrite <- (firstn_skipn i l) at 2. rewrite nth_error_app2 by (rewrite firstn_length; lia).
  rewrite firstn_length, Nat.min_l by lia.
  replace (S k - i)%nat with (S (k - i)) by lia. reflexivity.
Qed.

Lemma nth_error_insert_at_eq : forall {A} i (x : A) l, (i <= length l)%nat -> nth_error (insert_at i x l) i = Some x.
Proof.
  intros. unfold insert_at. rewrite nth_error_app2 by (rewrite firstn_length; lia).
  rewrite firstn_length, Nat.min_l, Nat.sub_diag by lia. reflexivity.
Qed.

Lemma nth_error_remove_slice_lt : forall {A} i j k (l : list A), (k < i)%nat -> (i <= length l)%nat -> nth_error (remove_slice i j l) k = nth_error l k.
Proof.
  intros. unfold remove_slice. rewrite nth_error_app1 by (rewrite firstn_length; lia).
  rewrite <- (firstn_skipn i l) at 2. rewrite nth_error_app1 by (rewrite firstn_length; lia). reflexivity.
Qed.

Lemma nth_error_skipn : forall {A} n k (l : list A), nth_error (skipn n l) k = nth_error l (n + k).
Proof. induction n; intros; [reflexivity|]. destruct l; [now destruct k|]. cbn. apply IHn. Qed.

Lemma nth_error_remove_slice_ge : forall {A} i j k (l : list A), (i <= j)%nat -> (j < length l)%nat -> (j < k)%nat ->
  nth_error (remove_slice i j l) (k - (S j - i)) = nth_error l k.
Proof.
  intros. unfold remove_slice. rewrite nth_error_app2 by (rewrite firstn_length; lia).
  rewrite firstn_length, Nat.min_l by lia. rewrite nth_error_skipn. f_equal. lia.
Qed.

(* ================================================================== P1: nothing is lost in node storage *)
Lemma clear_reserved_idem : forall o, clear_reserved (clear_reserved o) = clear_reserved o.
Proof. intros. unfold clear_reserved. rewrite Z.ldiff_ldiff_l. reflexivity. Qed.

Lemma is_none_none : is_none op_none = true.
Proof. reflexivity. Qed.

Lemma canon_replayed : forall o0 o1 o2 o3 o4 o5,
  let n := op_count o0 o1 o2 o3 o4 o5 in
  let ops := firstn n [o0; o1; o2; o3; o4; o5] ++ repeat op_none (capacity_of n - n) in
  canon_ops (rop n ops 0) (rop n ops 1) (rop n ops 2) (rop n ops 3) (rop n ops 4) (rop n ops 5) = canon_ops o0 o1 o2 o3 o4 o5.
Proof.
  intros. subst n ops. unfold canon_ops, op_count.
  destruct (is_none o5) eqn:E5; [ destruct (is_none o4) eqn:E4; [ destruct (is_none o3) eqn:E3;
    [ destruct (is_none o2) eqn:E2; [ destruct (is_none o1) eqn:E1; [ destruct (is_none o0) eqn:E0 | ] | ] | ] | ] | ];
  cbn; unfold rop, nth_op; cbn; rewrite ?is_none_none, ?E0, ?E1, ?E2, ?E3, ?E4, ?E5; cbn; reflexivity.
Qed.

(* the node recorded for an emit call stands for exactly the call a direct assembler would have performed *)
Lemma inst_node_faithful : forall b id o0 o1 o2 o3 o4 o5,
  node_ecalls (inst_node b id o0 o1 o2 o3 o4 o5)
  = [EInst id (clear_reserved (p_opts b)) (p_exsig b) (p_exid b) (canon_ops o0 o1 o2 o3 o4 o5) (dup_comment (p_comment b))].
Proof.
  intros. unfold inst_node, node_ecalls. cbn [n_kind n_comment].
  rewrite clear_reserved_idem. rewrite canon_replayed. now destruct (p_comment b) as [[|]|].
Qed.

(* every operand handed to _emit is kept, whatever empty slots precede it: slot i of the recorded call is the operand passed in slot i *)
Lemma all_operands_kept : forall o0 o1 o2 o3 o4 o5 i,
  is_none (nth i [o0; o1; o2; o3; o4; o5] op_none) = false ->
  nth i (canon_ops o0 o1 o2 o3 o4 o5) op_none = nth i [o0; o1; o2; o3; o4; o5] op_none.
Proof.
  intros o0 o1 o2 o3 o4 o5 i H. unfold canon_ops, op_count.
  do 6 (destruct i as [|i]; [cbn in H; rewrite ?H;
    destruct (is_none o5) eqn:E5, (is_none o4) eqn:E4, (is_none o3) eqn:E3, (is_none o2) eqn:E2, (is_none o1) eqn:E1, (is_none o0) eqn:E0;
    cbn; try reflexivity; congruence|]).
  cbn in H. destruct i; discriminate.
Qed.

(* the empty slots of a recorded call are op_none, and the list always has the six slots of the emitter interface *)
Lemma canon_ops_shape : forall o0 o1 o2 o3 o4 o5,
  List.length (canon_ops o0 o1 o2 o3 o4 o5) = 6%nat /\
  forall i, is_none (nth i [o0; o1; o2; o3; o4; o5] op_none) = true -> is_none (nth i (canon_ops o0 o1 o2 o3 o4 o5) op_none) = true.
Proof.
  intros. unfold canon_ops, op_count.
  destruct (is_none o5) eqn:E5, (is_none o4) eqn:E4, (is_none o3) eqn:E3, (is_none o2) eqn:E2, (is_none o1) eqn:E1, (is_none o0) eqn:E0;
    (split; [reflexivity|]); intros i H; do 6 (destruct i as [|i]; [cbn in *; congruence|]); destruct i; reflexivity.
Qed.

(* with the counting rule before the repair, operands beyond a hole in the extended part WERE lost: a call (o0,o1,o2,none,o4,-) was
   recorded with 3 operands *)
Lemma legacy_count_drops_operand : exists o0 o1 o2 o4,
  is_none o4 = false /\ op_count_legacy o0 o1 o2 op_none o4 op_none = 3%nat /\ op_count o0 o1 o2 op_none o4 op_none = 5%nat.
Proof.
  exists (mkOp 1 0 0 0), (mkOp 1 1 0 0), (mkOp 1 2 0 0), (mkOp 1 3 0 0). repeat split; reflexivity.
Qed.

(* ================================================================== P2: serialization yields the nodes' calls, whatever one-shot state is pending *)
Definition after_node (p : pend) (n : node) : pend :=
  match n_kind n with
  | NInst _ _ _ _ _ _ => pend0
  | NFuncRet => pend0
  | NJump _ _ _ _ _ _ => pend0
  | NInvoke _ _ _ _ _ => pend0
  | _ => mkP (q_opts p) (q_exsig p) (q_exid p) (n_comment n)
  end.

Lemma trace_replay_node : forall n p rest,
  trace_from p (replay_node n ++ rest) = node_ecalls n ++ trace_from (after_node p n) rest.
Proof.
  intros [k c] p rest. destruct k; reflexivity.
Qed.

Lemma trace_flat_replay : forall l p, trace_from p (flat_map replay_node l) = flat_map node_ecalls l.
Proof.
  induction l; intros; [reflexivity|]. cbn [flat_map]. rewrite trace_replay_node. now rewrite IHl.
Qed.

Theorem trace_replay : forall b, trace (replay b) = flat_map node_ecalls (active b).
Proof. intros. apply trace_flat_replay. Qed.

Ltac simpl_b := cbn [fst snd remove_range add_after add_before add_node with_pool with_list with_links with_pend with_counts
                      active pool cursor dirty links nlabels nsections].

(* ================================================================== P3: editing the node list = editing the serialized sequence *)
Theorem edit_remove : forall b i, in_range i (active b) = true ->
  let b' := fst (step b (CRemove i)) in
  trace (replay b') = flat_map node_ecalls (remove_at i (active b)) /\ pool b' = pool b ++ slice i i (active b).
Proof.
  intros b i H b'. subst b'. cbn [step]. rewrite H. rewrite !trace_replay. simpl_b. split; reflexivity.
Qed.

Theorem edit_remove_range : forall b i j, in_range i (active b) = true -> in_range j (active b) = true -> (i <= j)%nat ->
  let b' := fst (step b (CRemoveRange i j)) in
  trace (replay b') = flat_map node_ecalls (remove_slice i j (active b)) /\ pool b' = pool b ++ slice i j (active b).
Proof.
  intros b i j H1 H2 H3 b'. subst b'. cbn [step]. rewrite H1, H2. apply Nat.leb_le in H3. rewrite H3. cbn [andb]. rewrite !trace_replay. simpl_b.
  split; reflexivity.
Qed.

Theorem edit_add_after : forall b k i n, nth_error (pool b) k = Some n -> in_range i (active b) = true ->
  let b' := fst (step b (CAddAfter k i)) in
  trace (replay b') = flat_map node_ecalls (insert_at (S i) n (active b)) /\ pool b' = remove_at k (pool b).
Proof.
  intros b k i n H1 H2 b'. subst b'. cbn [step]. rewrite H1, H2. rewrite !trace_replay. simpl_b. split; reflexivity.
Qed.

Theorem edit_add_before : forall b k i n, nth_error (pool b) k = Some n -> in_range i (active b) = true ->
  let b' := fst (step b (CAddBefore k i)) in
  trace (replay b') = flat_map node_ecalls (insert_at i n (active b)) /\ pool b' = remove_at k (pool b).
Proof.
  intros b k i n H1 H2 b'. subst b'. cbn [step]. rewrite H1, H2. rewrite !trace_replay. simpl_b. split; reflexivity.
Qed.

Theorem edit_add_node : forall b k n, nth_error (pool b) k = Some n ->
  let b' := fst (step b (CAddNode k)) in
  trace (replay b') = flat_map node_ecalls (insert_at (cursor_pos (cursor b)) n (active b)) /\ cursor b' = Some (cursor_pos (cursor b)).
Proof.
  intros b k n H1 b'. subst b'. cbn [step]. rewrite H1. rewrite !trace_replay. simpl_b. split; reflexivity.
Qed.

Theorem edit_set_cursor : forall b c, trace (replay (fst (step b (CSetCursor c)))) = trace (replay b).
Proof.
  intros. destruct c as [i|]; cbn [step]; [destruct (in_range i (active b))|]; reflexivity.
Qed.

Theorem edit_noop : forall b k, fst (step b (CRemovePool k)) = b.
Proof. intros. cbn [step]. destruct (in_range k (pool b)); reflexivity. Qed.

Theorem update_links_list : forall b, active (update_links b) = active b /\ cursor (update_links b) = cursor b /\ pool (update_links b) = pool b.
Proof. intros. unfold update_links. destruct (dirty b); cbn; auto. Qed.

(* an emitter call is recorded at the cursor: the nodes it creates are inserted, in order, right after the cursor node *)
Lemma add_node_trace : forall n b, active (add_node n b) = insert_at (cursor_pos (cursor b)) n (active b).
Proof. reflexivity. Qed.

(* ================================================================== P4: cursor discipline *)
Definition cursor_ok (b : bstate) : Prop :=
  match cursor b with None => True | Some c => (c < length (active b))%nat end.

Lemma cursor_ok_add_node : forall n b, cursor_ok b -> cursor_ok (add_node n b).
Proof.
  unfold cursor_ok. intros n b H. simpl_b. unfold cursor_pos. destruct (cursor b) as [c|]; rewrite length_insert_at; lia.
Qed.

Lemma add_node_preserves_misc : forall n b, pool (add_node n b) = pool b /\ nlabels (add_node n b) = nlabels b /\ nsections (add_node n b) = nsections b.
Proof. intros. cbn. auto. Qed.

Lemma find_index_lt : forall {A} (p : A -> bool) l i, find_index p l = Some i -> (i < length l)%nat.
Proof.
  induction l; intros; cbn in *; [discriminate|]. destruct (p a); [inversion H; lia|].
  destruct (find_index p l) eqn:E; [|discriminate]. inversion H. specialize (IHl n eq_refl). lia.
Qed.

Lemma pred_opt_lt : forall i n, (i <= n)%nat -> match pred_opt i with None => True | Some c => (c < n)%nat end.
Proof. intros. destruct i; cbn; [trivial|lia]. Qed.

Lemma cursor_ok_section : forall s b, cursor_ok b -> cursor_ok (fst (do_section s b)).
Proof.
  intros s b H. unfold do_section. destruct ((s <? 0) || (nsections b <=? s)); [exact H|].
  destruct (find_index (is_section_id s) (active b)) eqn:E.
  - unfold cursor_ok. cbn [fst with_list cursor active].
    assert (HA : active (update_links b) = active b) by apply update_links_list. rewrite HA.
    destruct (lookup s (links (update_links b))) as [[t|]|].
    + destruct (find_index (is_section_id t) (active b)) eqn:E2; [|trivial].
      apply find_index_lt in E2. apply pred_opt_lt. lia.
    + unfold last_index. apply pred_opt_lt. lia.
    + unfold last_index. apply pred_opt_lt. lia.
  - unfold cursor_ok. simpl_b. rewrite app_length. cbn [length]. lia.
Qed.

Lemma cursor_ok_bind : forall l b, cursor_ok b -> cursor_ok (fst (do_bind l b)).
Proof.
  intros l b H. unfold do_bind. destruct ((l <? 0) || (nlabels b <=? l)); [exact H|].
  destruct (existsb (is_label_id l) (active b)); [exact H|]. cbn [fst]. apply cursor_ok_add_node. exact H.
Qed.

Lemma cursor_ok_remove_range : forall i j b, (i <= j)%nat -> (j < length (active b))%nat -> cursor_ok b -> cursor_ok (remove_range i j b).
Proof.
  unfold cursor_ok. intros i j b Hij Hj H. simpl_b. rewrite length_remove_slice by lia. unfold cursor_after_remove.
  destruct (cursor b) as [c|]; [|trivial].
  destruct (Nat.ltb c i) eqn:E1; [apply Nat.ltb_lt in E1; lia|]. apply Nat.ltb_ge in E1.
  destruct (Nat.leb c j) eqn:E2.
  - apply Nat.leb_le in E2. apply pred_opt_lt. lia.
  - apply Nat.leb_gt in E2. lia.
Qed.

Lemma in_range_lt : forall {A} i (l : list A), in_range i l = true <-> (i < length l)%nat.
Proof. intros. unfold in_range. apply Nat.ltb_lt. Qed.

Lemma length_add_node : forall n b, cursor_ok b -> length (active (add_node n b)) = S (length (active b)).
Proof.
  unfold cursor_ok. intros n b H. simpl_b. unfold cursor_pos. destruct (cursor b) as [c|]; apply length_insert_at; lia.
Qed.

Lemma cursor_ok_func : forall f e1 e2 b0, cursor_ok b0 ->
  let b1 := add_node f b0 in let b2 := add_node e2 (add_node e1 b1) in
  cursor_ok (with_list b2 (active b2) (cursor b1) (dirty b2)).
Proof.
  intros f e1 e2 b0 H b1 b2. pose proof (cursor_ok_add_node f b0 H) as H1. pose proof (cursor_ok_add_node e1 b1 H1) as H2.
  assert (L : length (active b2) = S (S (length (active b1)))).
  { unfold b2. rewrite (length_add_node e2 (add_node e1 b1) H2), (length_add_node e1 b1 H1). reflexivity. }
  unfold cursor_ok in *.
  change (match cursor b1 with Some c => (c < length (active b2))%nat | None => True end).
  assert (H1' : match cursor b1 with Some c => (c < length (active b1))%nat | None => True end) by exact H1.
  clear H1 H2. destruct (cursor b1) as [c|]; [|trivial]. lia.
Qed.

Theorem cursor_ok_step : forall b c, cursor_ok b -> cursor_ok (fst (step b c)).
Proof.
  intros b c H. destruct c; cbn [step fst]; try exact H; try (apply cursor_ok_add_node; exact H).
  - apply cursor_ok_bind; exact H.
  - (* embed array *) unfold do_embed_array. destruct (final_type_size ty (regsize b)); [cbn [fst]; apply cursor_ok_add_node|]; exact H.
  - destruct (valid_label_size sz); [cbn [fst]; apply cursor_ok_add_node|]; exact H.
  - destruct (valid_label_size sz); [cbn [fst]; apply cursor_ok_add_node|]; exact H.
  - (* const pool *) destruct ((l <? 0) || (nlabels b <=? l)); [exact H|].
    pose proof (cursor_ok_bind l (add_node (mkNode (NAlign kAlignData align) None) b) (cursor_ok_add_node _ _ H)) as HB.
    destruct (do_bind l (add_node (mkNode (NAlign kAlignData align) None) b)) as [b2 e]. cbn [fst] in HB.
    destruct (e =? kOk); cbn [fst]; [apply cursor_ok_add_node|]; exact HB.
  - apply cursor_ok_section; exact H.
  - destruct (l =? nlabels b); [cbn [fst]; apply cursor_ok_add_node|]; exact H.
  - (* add_func *) apply cursor_ok_func. exact H.
  - (* end_func *) destruct (cur_func b) as [fl|]; cbn [fst]; [|exact H].
    match goal with |- cursor_ok (with_list ?b2 _ _ _) => set (B2 := b2) end.
    unfold cursor_ok. change (match find_index (is_func_end fl) (active B2) with Some c => (c < length (active B2))%nat | None => True end).
    destruct (find_index (is_func_end fl) (active B2)) eqn:E; [apply find_index_lt in E; exact E|trivial].
  - (* _new_const *) destruct (scope =? 0); [destruct (lpool b) as [[? ?]|]|destruct (gpool b) as [[? ?]|]]; exact H.
  - (* set cursor *) destruct i as [i|]; [destruct (in_range i (active b)) eqn:E; [|exact H]|]; unfold cursor_ok; simpl_b; [apply in_range_lt in E; exact E|trivial].
  - (* remove *) destruct (in_range i (active b)) eqn:E; [|exact H]. cbn [fst]. apply in_range_lt in E. apply cursor_ok_remove_range; [lia|exact E|exact H].
  - destruct (in_range i (active b)) eqn:E1; [|exact H]. destruct (in_range j (active b)) eqn:E2; [|exact H]. destruct (Nat.leb i j) eqn:E3; [|exact H].
    cbn [andb fst]. apply in_range_lt in E2. apply Nat.leb_le in E3. apply cursor_ok_remove_range; assumption.
  - destruct (in_range k (pool b)); exact H.
  - (* add after *) destruct (nth_error (pool b) k); [|exact H]. destruct (in_range i (active b)) eqn:E; [|exact H]. cbn [fst].
    apply in_range_lt in E. unfold cursor_ok in *. simpl_b. rewrite length_insert_at by lia.
    destruct (cursor b) as [c|]; [|trivial]. destruct (Nat.ltb i c); lia.
  - destruct (nth_error (pool b) k); [|exact H]. destruct (in_range i (active b)) eqn:E; [|exact H]. cbn [fst].
    apply in_range_lt in E. unfold cursor_ok in *. simpl_b. rewrite length_insert_at by lia.
    destruct (cursor b) as [c|]; [|trivial]. destruct (Nat.leb i c); lia.
  - destruct (nth_error (pool b) k); [|exact H]. cbn [fst]. apply cursor_ok_add_node. exact H.
  - (* update links *) unfold cursor_ok in *. destruct (update_links_list b) as (HA & HC & _). rewrite HA, HC. exact H.
Qed.

Lemma cursor_ok_init : forall rs, cursor_ok (init_state rs).
Proof. intros. unfold cursor_ok. cbn. lia. Qed.

Theorem cursor_ok_run : forall cs b, cursor_ok b -> cursor_ok (run b cs).
Proof. induction cs; intros; cbn; [assumption|]. apply IHcs. apply cursor_ok_step. assumption. Qed.

(* add_after / add_before never move the cursor off its node *)
Theorem add_after_keeps_cursor_node : forall n i b c, cursor b = Some c -> (c < length (active b))%nat -> (i < length (active b))%nat ->
  exists c', cursor (add_after n i b) = Some c' /\ nth_error (active (add_after n i b)) c' = nth_error (active b) c.
Proof.
  intros n i b c Hc Hl Hi. simpl_b. rewrite Hc. destruct (Nat.ltb i c) eqn:E.
  - apply Nat.ltb_lt in E. exists (S c). split; [reflexivity|]. apply nth_error_insert_at_ge; lia.
  - apply Nat.ltb_ge in E. exists c. split; [reflexivity|]. apply nth_error_insert_at_lt; lia.
Qed.

Theorem add_before_keeps_cursor_node : forall n i b c, cursor b = Some c -> (c < length (active b))%nat -> (i < length (active b))%nat ->
  exists c', cursor (add_before n i b) = Some c' /\ nth_error (active (add_before n i b)) c' = nth_error (active b) c.
Proof.
  intros n i b c Hc Hl Hi. simpl_b. rewrite Hc. destruct (Nat.leb i c) eqn:E.
  - apply Nat.leb_le in E. exists (S c). split; [reflexivity|]. apply nth_error_insert_at_ge; lia.
  - apply Nat.leb_gt in E. exists c. split; [reflexivity|]. apply nth_error_insert_at_lt; lia.
Qed.

(* remove_node / remove_nodes: a cursor outside the removed range stays on its node; a cursor inside moves to the predecessor of the range *)
Theorem remove_range_cursor : forall i j b c, cursor b = Some c -> (i <= j)%nat -> (j < length (active b))%nat -> (c < length (active b))%nat ->
  ((c < i \/ j < c)%nat -> exists c', cursor (remove_range i j b) = Some c' /\ nth_error (active (remove_range i j b)) c' = nth_error (active b) c)
  /\ ((i <= c <= j)%nat -> cursor (remove_range i j b) = pred_opt i).
Proof.
  intros i j b c Hc Hij Hj Hl. simpl_b. rewrite Hc. unfold cursor_after_remove. split.
  - intros [H|H].
    + assert (E : Nat.ltb c i = true) by (apply Nat.ltb_lt; lia). rewrite E. exists c. split; [reflexivity|]. apply nth_error_remove_slice_lt; lia.
    + assert (E : Nat.ltb c i = false) by (apply Nat.ltb_ge; lia). rewrite E.
      assert (E2 : Nat.leb c j = false) by (apply Nat.leb_gt; lia). rewrite E2.
      eexists. split; [reflexivity|]. apply nth_error_remove_slice_ge; lia.
  - intros H. assert (E : Nat.ltb c i = false) by (apply Nat.ltb_ge; lia). rewrite E.
    assert (E2 : Nat.leb c j = true) by (apply Nat.leb_le; lia). rewrite E2. reflexivity.
Qed.

(* a call rejected at record time leaves the builder untouched (const pools aside: their align node precedes the failing bind,
   exactly as the Assembler has already aligned when its bind fails) *)
Theorem rejected_call_is_noop : forall b c, snd (step b c) <> kOk -> (forall l a d, c <> CConstPool l a d) -> (forall e, c <> CEmitRejected e) ->
  c <> CEndFunc -> fst (step b c) = b.
Proof.
  intros b c H HC HR HF. destruct c; try (exfalso; eapply HR; reflexivity); cbn [step] in *; try (exfalso; apply H; reflexivity); try reflexivity.
  - unfold do_bind in *. destruct ((l <? 0) || (nlabels b <=? l)); [reflexivity|].
    destruct (existsb (is_label_id l) (active b)); [reflexivity|]. exfalso; apply H; reflexivity.
  - unfold do_embed_array in *. destruct (final_type_size ty (regsize b)); [exfalso; apply H|]; reflexivity.
  - destruct (valid_label_size sz); [exfalso; apply H|]; reflexivity.
  - destruct (valid_label_size sz); [exfalso; apply H|]; reflexivity.
  - exfalso. eapply HC. reflexivity.
  - unfold do_section in *. destruct ((s <? 0) || (nsections b <=? s)); [reflexivity|].
    destruct (find_index (is_section_id s) (active b)); exfalso; apply H; reflexivity.
  - destruct (l =? nlabels b); [exfalso; apply H|]; reflexivity.
  - exfalso. eapply HF. reflexivity.
  - exfalso. destruct (scope =? 0); [destruct (lpool b) as [[? ?]|]|destruct (gpool b) as [[? ?]|]]; apply H; reflexivity.
  - destruct i as [i|]; [destruct (in_range i (active b))|]; try reflexivity; exfalso; apply H; reflexivity.
  - destruct (in_range i (active b)); [exfalso; apply H|]; reflexivity.
  - destruct (in_range i (active b) && in_range j (active b) && Nat.leb i j); [exfalso; apply H|]; reflexivity.
  - destruct (in_range k (pool b)); reflexivity.
  - destruct (nth_error (pool b) k); [|reflexivity]. destruct (in_range i (active b)); [exfalso; apply H|]; reflexivity.
  - destruct (nth_error (pool b) k); [|reflexivity]. destruct (in_range i (active b)); [exfalso; apply H|]; reflexivity.
  - destruct (nth_error (pool b) k); [exfalso; apply H|]; reflexivity.
Qed.

(* an instruction refused by strict validation clears the one-shot state (options, extra register, inline comment) and changes nothing
   else - in the Builder exactly as in the Assembler *)
Theorem rejected_emit_resets : forall b e p,
  let b' := fst (step b (CEmitRejected e)) in
  snd (step b (CEmitRejected e)) = e /\ active b' = active b /\ cursor b' = cursor b /\ pool b' = pool b /\
  p_opts b' = 0 /\ p_exsig b' = 0 /\ p_exid b' = 0 /\ p_comment b' = None /\ front p (CEmitRejected e) = (pend0, []).
Proof. intros. cbn. repeat split. Qed.

(* BaseCompiler::add_func_node(void()): the FuncNode, the exit LabelNode and the kFuncEnd sentinel are linked in, in this order, right
   after the cursor; the cursor ends on the FuncNode (so the body is recorded between the function and its exit label); two labels are
   registered (exit first); the pending inline comment goes to the FuncNode and the whole one-shot state is consumed *)
Lemma insert_at_twice : forall {A} i (x y : A) l, (i <= length l)%nat -> insert_at (S i) y (insert_at i x l) = firstn i l ++ x :: y :: skipn i l.
Proof.
  intros A i x y l H. unfold insert_at at 2.
  replace (S i) with (length (firstn i l ++ [x])) by (rewrite app_length, firstn_length; cbn; lia).
  replace (firstn i l ++ x :: skipn i l) with ((firstn i l ++ [x]) ++ skipn i l) by (rewrite <- app_assoc; reflexivity).
  rewrite insert_at_app. rewrite <- app_assoc. reflexivity.
Qed.

Lemma insert_at_thrice : forall {A} i (x y z : A) l, (i <= length l)%nat ->
  insert_at (S (S i)) z (insert_at (S i) y (insert_at i x l)) = firstn i l ++ x :: y :: z :: skipn i l.
Proof.
  intros A i x y z l H. rewrite (insert_at_twice i x y l H).
  replace (S (S i)) with (length (firstn i l ++ [x; y])) by (rewrite app_length, firstn_length; cbn; lia).
  replace (firstn i l ++ x :: y :: skipn i l) with ((firstn i l ++ [x; y]) ++ skipn i l) by (rewrite <- app_assoc; reflexivity).
  rewrite insert_at_app. rewrite <- app_assoc. reflexivity.
Qed.

Theorem add_func_layout : forall b, cursor_ok b ->
  let b' := fst (step b CFunc) in
  let pos := cursor_pos (cursor b) in
  active b' = firstn pos (active b) ++ mkNode (NFunc (nlabels b + 1) (nlabels b)) (dup_comment (p_comment b)) :: label_node (nlabels b)
                                   :: mkNode (NFuncEnd (nlabels b + 1)) None :: skipn pos (active b) /\
  cursor b' = Some pos /\ nlabels b' = nlabels b + 2 /\ cur_func b' = Some (nlabels b + 1) /\
  p_opts b' = 0 /\ p_exsig b' = 0 /\ p_exid b' = 0 /\ p_comment b' = None /\ pool b' = pool b.
Proof.
  intros b H b' pos. subst b'. cbn [step fst]. simpl_b. cbn [cur_func with_func with_pend with_counts p_opts p_exsig p_exid p_comment cursor_pos].
  repeat split.
  fold pos. assert (HP : (pos <= length (active b))%nat).
  { unfold pos, cursor_pos, cursor_ok in *. destruct (cursor b); lia. }
  cbn [cursor active with_func with_counts with_pend]. fold pos. change {| n_kind := NFuncEnd (nlabels b + 1); n_comment := None |} with (mkNode (NFuncEnd (nlabels b + 1)) None).
  change {| n_kind := NFunc (nlabels b + 1) (nlabels b); n_comment := dup_comment (p_comment b) |} with (mkNode (NFunc (nlabels b + 1) (nlabels b)) (dup_comment (p_comment b))).
  apply insert_at_thrice. exact HP.
Qed.

(* end_func(): without a function kInvalidState; otherwise the cursor goes to the function's end sentinel; the one-shot state is cleared
   in both cases and the list is untouched *)
Theorem end_func_spec : forall b, lpool b = None ->
  let b' := fst (step b CEndFunc) in
  active b' = active b /\ pool b' = pool b /\ p_opts b' = 0 /\ p_comment b' = None /\
  match cur_func b with
  | None => snd (step b CEndFunc) = kInvalidState /\ cursor b' = cursor b
  | Some fl => snd (step b CEndFunc) = kOk /\ cursor b' = find_index (is_func_end fl) (active b) /\ cur_func b' = None
  end.
Proof. intros b HL. cbn [step]. cbn [lpool with_func with_pend]. rewrite HL. destruct (cur_func b); cbn; repeat split. Qed.

(* emit_annotated_jump / add_invoke_node capture the pending one-shot state like _emit and stand for the plain instruction with one operand *)
Theorem jump_invoke_faithful : forall b id op ann,
  let j := fst (step b (CJump id op ann)) in let i := fst (step b (CInvoke id op)) in
  active j = insert_at (cursor_pos (cursor b)) (mkNode (NJump id (p_opts b) (p_exsig b) (p_exid b) op ann) (dup_comment (p_comment b))) (active b) /\
  active i = insert_at (cursor_pos (cursor b)) (mkNode (NInvoke id (p_opts b) (p_exsig b) (p_exid b) op) (dup_comment (p_comment b))) (active b) /\
  p_opts j = 0 /\ p_comment j = None /\ p_opts i = 0 /\ p_comment i = None /\
  node_ecalls (mkNode (NJump id (p_opts b) (p_exsig b) (p_exid b) op ann) (dup_comment (p_comment b)))
    = [EInst id (clear_reserved (p_opts b)) (p_exsig b) (p_exid b) (canon_ops op op_none op_none op_none op_none op_none) (dup_comment (p_comment b))] /\
  node_ecalls (mkNode (NInvoke id (p_opts b) (p_exsig b) (p_exid b) op) (dup_comment (p_comment b)))
    = [EInst id (clear_reserved (p_opts b)) (p_exsig b) (p_exid b) (canon_ops op op_none op_none op_none op_none op_none) (dup_comment (p_comment b))].
Proof.
  intros. cbn. repeat split; destruct (p_comment b) as [[|]|]; reflexivity.
Qed.

(* _new_const: the pool node of a scope is created on first use and registers one label; nothing is linked into the list *)
Theorem new_const_spec : forall b scope d,
  let b' := fst (step b (CNewConst scope d)) in
  active b' = active b /\ cursor b' = cursor b /\ snd (step b (CNewConst scope d)) = kOk /\
  (scope = 0 -> lpool b = None -> lpool b' = Some (nlabels b, d) /\ nlabels b' = nlabels b + 1 /\ gpool b' = gpool b) /\
  (scope = 0 -> forall l old, lpool b = Some (l, old) -> lpool b' = Some (l, pool_add d old) /\ nlabels b' = nlabels b).
Proof.
  intros b scope d. cbn [step]. destruct (scope =? 0) eqn:E.
  - destruct (lpool b) as [[l old]|] eqn:EL; cbn; repeat split; try discriminate; intros; try congruence;
      try (match goal with H : Some _ = Some _ |- _ => injection H as <- <-; reflexivity end).
  - apply Z.eqb_neq in E. destruct (gpool b) as [[l old]|]; cbn; repeat split; intros; contradiction.
Qed.

(* end_func with a pending local constant pool: the pool node is linked in right before the function's end sentinel (after the exit label
   and whatever follows it), the cursor ends on the end sentinel, the pool slot is cleared *)
Lemma find_index_insert_before : forall {A} (p : A -> bool) l e x, find_index p l = Some e -> p x = false ->
  find_index p (insert_at e x l) = Some (S e).
Proof.
  intros A p. induction l as [|a l IH]; intros e x H Hx; [discriminate|]. cbn [find_index] in H. destruct (p a) eqn:Ea.
  - injection H as <-. unfold insert_at. cbn. rewrite Hx, Ea. reflexivity.
  - destruct (find_index p l) as [j|] eqn:EJ; [|discriminate]. injection H as <-.
    unfold insert_at in *. cbn. rewrite Ea. specialize (IH j x eq_refl Hx). unfold insert_at in IH. rewrite IH. reflexivity.
Qed.

Theorem end_func_flushes_local_pool : forall b fl l d e,
  cur_func b = Some fl -> lpool b = Some (l, d) -> find_index (is_func_end fl) (active b) = Some (S e) ->
  let b' := fst (step b CEndFunc) in
  active b' = insert_at (S e) (mkNode (NConstPool l 8 d) None) (active b) /\ cursor b' = Some (S (S e)) /\
  lpool b' = None /\ gpool b' = gpool b /\ cur_func b' = None /\ snd (step b CEndFunc) = kOk.
Proof.
  intros b fl l d e HF HL HE b'. subst b'. cbn [step]. rewrite HF. cbn [lpool with_func with_pend active]. rewrite HL, HE.
  cbn [fst snd pred_opt]. simpl_b. cbn [cursor_pos lpool gpool cur_func with_pools with_func with_pend].
  rewrite (find_index_insert_before (is_func_end fl) (active b) (S e) (mkNode (NConstPool l 8 d) None) HE eq_refl).
  repeat split.
Qed.

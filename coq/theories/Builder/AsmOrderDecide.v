(* C08 - the hypotheses of the order theorems are DECIDABLE by computation: boolean checkers for "no delta refused for its range along the
   run" and "no address wraps", sound for the propositions the theorems ask for; used to show the theorems apply to concrete programs
   (the Builder's two-section example) by vm_compute. *)
From Coq Require Import ZArith List Bool Lia Arith Permutation.
From Verif Require Import Base.ZBits Codec.OffsetModel Labels.LabelsModel Labels.LabelsProofs Labels.LabelsExact Labels.LabelsAbs
  Builder.BuilderModel Builder.BuilderProofs Builder.BuilderGrouping Builder.AsmOrder Builder.AsmOrderAny Builder.AsmOrderEffect Builder.AsmOrderBytes Builder.BuilderImage.
Import ListNotations.
Local Open Scope Z_scope.

Definition misfit_atb (s : state) (o : sop) : bool :=
  match o with
  | SDelta l b sz =>
    match nth_error (labels s) l, nth_error (labels s) b with
    | Some (Some (ks, lo)), Some (Some (ks', bo)) => if Nat.eqb ks ks' && size_ok sz then delta_fits sz (lo - bo) else true
    | _, _ => true
    end
  | _ => true
  end.

Fixpoint no_misfitb (s : state) (t : list top) : bool :=
  match t with [] => true | x :: r => misfit_atb s (snd x) && no_misfitb (LabelsModel.run s (expand1 x)) r end.

Lemma misfit_atb_sound : forall s o, misfit_atb s o = true -> no_misfit_at s o.
Proof.
  intros s o H. destruct o; try exact I. cbn in *. intros ks lo bo A B Z1. rewrite A, B, Nat.eqb_refl, Z1 in H. exact H.
Qed.

Lemma no_misfitb_sound : forall t s, no_misfitb s t = true -> no_misfit s t.
Proof.
  induction t as [|y t IH]; intros s H t1 x t2 E; [destruct t1; discriminate|].
  cbn [no_misfitb] in H. apply andb_prop in H. destruct H as [H1 H2]. destruct t1 as [|z t1]; cbn [app] in E; injection E as -> ->.
  - cbn. apply misfit_atb_sound. exact H1.
  - cbn [expand flat_map]. rewrite run_app. exact (IH _ H2 t1 x t2 eq_refl).
Qed.

Definition nowrapb (nl ns : nat) (t : list top) (offs : list Z) : bool :=
  forallb (fun k =>
    forallb (fun it => match it with GRef g => nth k offs 0 + g_site g <? 2 ^ 64 | _ => true end) (l_items (lfold nl k (proj k t))) &&
    forallb (fun p : nat * Z => nth k offs 0 + snd p <? 2 ^ 64) (l_binds (lfold nl k (proj k t)))) (seq 0 (S ns)).

Lemma assoc_in : forall l b off, assoc l b = Some off -> In (l, off) b.
Proof.
  intros l b. induction b as [|[k v] b IH]; intros off H; [discriminate|]. cbn in H.
  destruct (Nat.eqb k l) eqn:E; [apply Nat.eqb_eq in E; subst; injection H as ->; now left|right; apply IH; exact H].
Qed.

Lemma nowrapb_sound : forall nl ns t offs, nowrapb nl ns t offs = true -> nowrap nl ns t offs.
Proof.
  intros nl ns t offs H k Hk. unfold nowrapb in H. rewrite forallb_forall in H. specialize (H k ltac:(apply in_seq; lia)).
  apply andb_prop in H. destruct H as [H1 H2]. rewrite forallb_forall in H1, H2. split.
  - intros g Hg. specialize (H1 _ Hg). cbn in H1. apply Z.ltb_lt. exact H1.
  - intros l off Ha. apply assoc_in in Ha. specialize (H2 _ Ha). cbn in H2. apply Z.ltb_lt. exact H2.
Qed.

(* ------------------------------------------------------------------ the Builder's example program satisfies every hypothesis of BuilderImage.same_patched_bytes
   (encoder enc_ex: rel32 references, an absolute reference, a 4-byte delta between labels of DIFFERENT sections - it stays an entry) *)
Notation ex_direct := (program enc_ex (trace example_program)) (only parsing).
Notation ex_serialized := (program enc_ex (trace (replay (BuilderModel.run (init_state 8) example_program)))) (only parsing).
Notation ex_s0 := (LabelsModel.run init (prelude 2 1)) (only parsing).

Lemma ex_direct_no_misfit : no_misfit ex_s0 ex_direct.
Proof. apply no_misfitb_sound. vm_compute. reflexivity. Qed.
Lemma ex_serialized_no_misfit : no_misfit ex_s0 ex_serialized.
Proof. apply no_misfitb_sound. vm_compute. reflexivity. Qed.
Lemma ex_direct_nowrap : nowrap 2 1 (res_from ex_s0 ex_direct) [0; 4096].
Proof. apply nowrapb_sound. vm_compute. reflexivity. Qed.
Lemma ex_orders_differ : ex_direct <> ex_serialized.
Proof. vm_compute. discriminate. Qed.

Notation ex_L := (labels (LabelsModel.run init ((prelude 2 1 ++ expand ex_direct) ++ [OResolve [0; 4096]]))) (only parsing).
Notation ex_A2 := (lfold 2 1 (proj 1 (res_from ex_s0 ex_serialized))) (only parsing).

(* what same_patched_bytes says for section 1 of the example, computed: the 4-byte delta between labels of different sections stays zero
   (no intra-section patch), one expression entry and one absolute entry remain *)
Lemma ex_section1_computed :
  apply_sites ex_L (l_rels ex_A2) (gbytes ex_L [0; 4096] (l_items ex_A2)) = gbytes ex_L [0; 4096] (l_items ex_A2) /\
  length (filter (inertb ex_L) (l_rels ex_A2)) = 2%nat /\ length (l_rels ex_A2) = 2%nat.
Proof. Timeout 60 (repeat split; vm_compute; reflexivity). Qed.

(* BuilderImage.same_patched_bytes APPLIES to the Builder's example program: every hypothesis discharged (the two orders really differ) *)
Theorem example_same_patched_bytes : forall k, (k < 2)%nat ->
  let A1 := lfold 2 k (proj k (res_from ex_s0 ex_direct)) in let A2 := lfold 2 k (proj k (res_from ex_s0 ex_serialized)) in
  apply_sites ex_L (l_rels A1) (gbytes ex_L [0; 4096] (l_items A1)) = apply_sites ex_L (l_rels A2) (gbytes ex_L [0; 4096] (l_items A2)) /\
  filter (inertb ex_L) (l_rels A1) = filter (inertb ex_L) (l_rels A2).
Proof.
  intros k Hk.
  assert (HE : Forall (fun c => is_emitter_call c = true) example_program) by (repeat constructor).
  destruct example_hypotheses as [_ HOK]. destruct example_image_hypotheses as (V & N & _).
  exact (same_patched_bytes enc_ex 2 1 [0; 4096] 8 example_program HE HOK V N ex_direct_no_misfit ex_serialized_no_misfit ex_direct_nowrap k Hk).
Qed.

(* ------------------------------------------------------------------ completeness: the checker for "no delta refused for its range" is a DECISION procedure *)
Lemma misfit_atb_complete : forall s o, no_misfit_at s o -> misfit_atb s o = true.
Proof.
  intros s o H. destruct o; try reflexivity. cbn in *.
  destruct (nth_error (labels s) l) as [[[ks lo]|]|] eqn:A; try reflexivity.
  destruct (nth_error (labels s) b) as [[[ks' bo]|]|] eqn:B; try reflexivity.
  destruct (Nat.eqb ks ks') eqn:E; [|reflexivity]. apply Nat.eqb_eq in E. subst ks'.
  destruct (size_ok size) eqn:Z1; [|reflexivity]. cbn [andb]. exact (H ks lo bo eq_refl eq_refl eq_refl).
Qed.

Lemma no_misfitb_complete : forall t s, no_misfit s t -> no_misfitb s t = true.
Proof.
  induction t as [|x t IH]; intros s H; [reflexivity|]. cbn [no_misfitb]. apply andb_true_intro. split.
  - apply misfit_atb_complete. exact (H [] x t eq_refl).
  - apply IH. intros t1 y t2 E. specialize (H (x :: t1) y t2 ltac:(rewrite E; reflexivity)).
    cbn [expand flat_map] in H. rewrite run_app in H. exact H.
Qed.

Theorem no_misfitb_iff : forall t s, no_misfitb s t = true <-> no_misfit s t.
Proof. intros; split; [apply no_misfitb_sound|apply no_misfitb_complete]. Qed.

(* both answers occur: the pair of AsmOrderAny.misfit_matters *)
Example no_misfitb_decides :
  no_misfitb (LabelsModel.run init (prelude 2 1)) mis_before = true /\ no_misfitb (LabelsModel.run init (prelude 2 1)) mis_after = false.
Proof. split; vm_compute; reflexivity. Qed.

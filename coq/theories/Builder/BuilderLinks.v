(* C08 - the cached section links (SectionNode::_next_section, _dirty_section_links): whenever the cache is not marked dirty it equals a
   fresh traversal of the node list, after ANY history of emitter calls and node-list edits. *)
From Coq Require Import ZArith List Bool Lia Arith.
From Verif Require Import Builder.BuilderModel Builder.BuilderProofs Builder.BuilderGrouping.
Import ListNotations.
Local Open Scope Z_scope.

Definition links_ok (b : bstate) : Prop :=
  dirty b = false -> forall s, In s (sec_seq (active b)) -> next_of s (links b) = next_of s (fresh_links (sec_seq (active b))).

Lemma sec_seq_app : forall a b, sec_seq (a ++ b) = sec_seq a ++ sec_seq b.
Proof. intros. unfold sec_seq. apply flat_map_app. Qed.

Lemma sec_seq_cons_nonsec : forall n l, is_section n = false -> sec_seq (n :: l) = sec_seq l.
Proof.
  intros n l H. unfold sec_seq. cbn [flat_map]. unfold sec_id, is_section in *. destruct (n_kind n); try reflexivity; discriminate.
Qed.

Lemma sec_seq_insert_nonsec : forall i n l, is_section n = false -> sec_seq (insert_at i n l) = sec_seq l.
Proof.
  intros. unfold insert_at. rewrite sec_seq_app, sec_seq_cons_nonsec by assumption. rewrite <- sec_seq_app, firstn_skipn. reflexivity.
Qed.

Lemma existsb_false_nonsec : forall l, existsb is_section l = false -> nonsec_list l.
Proof.
  induction l; intros H; [constructor|]. cbn [existsb] in H. apply orb_false_elim in H. destruct H as [H1 H2]. constructor; [exact H1 | apply IHl; exact H2].
Qed.

Lemma skipn_skipn' : forall {A} x y (l : list A), skipn x (skipn y l) = skipn (x + y) l.
Proof.
  intros A x y. revert x. induction y; intros x l; [now rewrite Nat.add_0_r|].
  destruct l; [now rewrite !skipn_nil|]. cbn [skipn]. rewrite IHy. replace (x + S y)%nat with (S (x + y)) by lia. reflexivity.
Qed.

Lemma sec_seq_remove_nonsec : forall i j l, (i <= j)%nat -> existsb is_section (slice i j l) = false -> sec_seq (remove_slice i j l) = sec_seq l.
Proof.
  intros i j l Hij H. unfold remove_slice, slice in *.
  transitivity (sec_seq (firstn i l ++ firstn (S j - i) (skipn i l) ++ skipn (S j - i) (skipn i l))).
  - rewrite !sec_seq_app. rewrite (sec_seq_nonsec _ (existsb_false_nonsec _ H)). cbn [app].
    rewrite skipn_skipn'. replace (S j - i + i)%nat with (S j) by lia. reflexivity.
  - f_equal. rewrite (firstn_skipn (S j - i) (skipn i l)). apply firstn_skipn.
Qed.

Lemma links_ok_dirty : forall b, dirty b = true -> links_ok b.
Proof. intros b H H'. congruence. Qed.

Lemma links_ok_same : forall b b', sec_seq (active b') = sec_seq (active b) -> links b' = links b -> dirty b' = dirty b -> links_ok b -> links_ok b'.
Proof. intros b b' H1 H2 H3 H. unfold links_ok in *. rewrite H1, H2, H3. exact H. Qed.

Lemma links_ok_update : forall b, links_ok b -> links_ok (update_links b) /\ dirty (update_links b) = false.
Proof.
  intros b H. unfold update_links. destruct (dirty b) eqn:ED; [|split; [exact H|exact ED]].
  split; [|reflexivity]. intros _ s Hs. cbn [links with_links active] in *.
  unfold next_of. rewrite lookup_app_in; [reflexivity|]. apply lookup_fresh_in. exact Hs.
Qed.

Lemma links_ok_add_node : forall n b, links_ok b -> links_ok (add_node n b).
Proof.
  intros n b H. destruct (is_section n) eqn:E.
  - apply links_ok_dirty. simpl_b. rewrite E. apply orb_true_r.
  - eapply links_ok_same; [| | |exact H]; simpl_b; [apply sec_seq_insert_nonsec; exact E | reflexivity | rewrite E; apply orb_false_r].
Qed.

Lemma links_ok_add_after : forall n i b, links_ok b -> links_ok (add_after n i b).
Proof.
  intros n i b H. destruct (is_section n) eqn:E.
  - apply links_ok_dirty. simpl_b. rewrite E. apply orb_true_r.
  - eapply links_ok_same; [| | |exact H]; simpl_b; [apply sec_seq_insert_nonsec; exact E | reflexivity | rewrite E; apply orb_false_r].
Qed.

Lemma links_ok_add_before : forall n i b, links_ok b -> links_ok (add_before n i b).
Proof.
  intros n i b H. destruct (is_section n) eqn:E.
  - apply links_ok_dirty. simpl_b. rewrite E. apply orb_true_r.
  - eapply links_ok_same; [| | |exact H]; simpl_b; [apply sec_seq_insert_nonsec; exact E | reflexivity | rewrite E; apply orb_false_r].
Qed.

Lemma links_ok_remove_range : forall i j b, (i <= j)%nat -> links_ok b -> links_ok (remove_range i j b).
Proof.
  intros i j b Hij H. destruct (existsb is_section (slice i j (active b))) eqn:E.
  - apply links_ok_dirty. simpl_b. rewrite E. apply orb_true_r.
  - eapply links_ok_same; [| | |exact H]; simpl_b; [apply sec_seq_remove_nonsec; assumption | reflexivity | rewrite E; apply orb_false_r].
Qed.

Lemma links_ok_pool : forall b p, links_ok b -> links_ok (with_pool b p).
Proof. intros b p H. exact H. Qed.

Lemma links_ok_bind : forall l b, links_ok b -> links_ok (fst (do_bind l b)).
Proof.
  intros l b H. unfold do_bind. destruct ((l <? 0) || (nlabels b <=? l)); [exact H|].
  destruct (existsb (is_label_id l) (active b)); [exact H|]. cbn [fst]. apply links_ok_add_node. exact H.
Qed.

Lemma links_ok_section : forall s b, links_ok b -> links_ok (fst (do_section s b)).
Proof.
  intros s b H. unfold do_section. destruct ((s <? 0) || (nsections b <=? s)); [exact H|].
  destruct (find_index (is_section_id s) (active b)).
  - cbn [fst]. destruct (links_ok_update b H) as [H1 H2]. eapply links_ok_same; [| | |exact H1]; reflexivity.
  - cbn [fst]. apply links_ok_dirty. reflexivity.
Qed.

Theorem links_ok_step : forall b c, links_ok b -> links_ok (fst (step b c)).
Proof.
  intros b c H. destruct c; cbn [step fst]; try exact H; try (apply links_ok_add_node; exact H).
  - apply links_ok_bind; exact H.
  - unfold do_embed_array. destruct (final_type_size ty (regsize b)); [cbn [fst]; apply links_ok_add_node|]; exact H.
  - destruct (valid_label_size sz); [cbn [fst]; apply links_ok_add_node|]; exact H.
  - destruct (valid_label_size sz); [cbn [fst]; apply links_ok_add_node|]; exact H.
  - destruct ((l <? 0) || (nlabels b <=? l)); [exact H|].
    pose proof (links_ok_bind l (add_node (mkNode (NAlign kAlignData align) None) b) (links_ok_add_node _ _ H)) as HB.
    destruct (do_bind l (add_node (mkNode (NAlign kAlignData align) None) b)) as [b2 e]. cbn [fst] in HB.
    destruct (e =? kOk); cbn [fst]; [apply links_ok_add_node|]; exact HB.
  - apply links_ok_section; exact H.
  - destruct (l =? nlabels b); [cbn [fst]; apply links_ok_add_node|]; exact H.
  - (* add_func: three non-section nodes, then the cursor moves *)
    eapply links_ok_same; [| | |apply links_ok_add_node; apply links_ok_add_node; apply links_ok_add_node; exact H]; reflexivity.
  - (* end_func: at most a (non-section) pool node is linked in; then the cursor moves *)
    destruct (cur_func b) as [fl|]; cbn [fst]; [|exact H]. cbn [lpool with_func with_pend].
    destruct (lpool b) as [[pl pd]|].
    + match goal with |- links_ok (with_list (add_node ?n ?bm) _ _ _) =>
        apply (links_ok_same (add_node n bm)); [reflexivity|reflexivity|reflexivity|apply links_ok_add_node; exact H] end.
    + exact H.
  - destruct (scope =? 0); [destruct (lpool b) as [[? ?]|]|destruct (gpool b) as [[? ?]|]]; exact H.
  - destruct i as [i|]; [destruct (in_range i (active b))|]; exact H.
  - destruct (in_range i (active b)); [|exact H]. cbn [fst]. apply links_ok_remove_range; [lia|exact H].
  - destruct (in_range i (active b)); [|exact H]. destruct (in_range j (active b)); [|exact H]. destruct (Nat.leb i j) eqn:E3; [|exact H].
    cbn [andb fst]. apply Nat.leb_le in E3. apply links_ok_remove_range; assumption.
  - destruct (in_range k (pool b)); exact H.
  - destruct (nth_error (pool b) k); [|exact H]. destruct (in_range i (active b)); [|exact H]. cbn [fst]. apply links_ok_add_after. exact H.
  - destruct (nth_error (pool b) k); [|exact H]. destruct (in_range i (active b)); [|exact H]. cbn [fst]. apply links_ok_add_before. exact H.
  - destruct (nth_error (pool b) k); [|exact H]. cbn [fst]. apply links_ok_add_node. exact H.
  - apply links_ok_update. exact H.
Qed.

Lemma links_ok_init : forall rs, links_ok (init_state rs).
Proof. intros rs _ s [H|[]]. subst. reflexivity. Qed.

Theorem links_ok_run : forall cs b, links_ok b -> links_ok (run b cs).
Proof. induction cs; intros; cbn; [assumption|]. apply IHcs. apply links_ok_step. assumption. Qed.

(* what a fresh traversal says: the successor of s in the sequence of section ids (when ids are distinct) *)
Lemma next_of_fresh : forall a s t r, ~ In s a -> next_of s (fresh_links (a ++ s :: t :: r)) = Some t.
Proof.
  induction a as [|x a IH]; intros s t r H; unfold next_of in *; cbn [app fresh_links lookup].
  - rewrite Z.eqb_refl. reflexivity.
  - assert (s =? x = false) as -> by (apply Z.eqb_neq; intro; subst; apply H; now left).
    apply IH. intro; apply H; now right.
Qed.

Lemma next_of_fresh_last : forall a s, ~ In s a -> next_of s (fresh_links (a ++ [s])) = None.
Proof.
  induction a as [|x a IH]; intros s H; unfold next_of in *; cbn [app fresh_links lookup].
  - rewrite Z.eqb_refl. reflexivity.
  - assert (s =? x = false) as -> by (apply Z.eqb_neq; intro; subst; apply H; now left).
    apply IH. intro; apply H; now right.
Qed.

(* C08 - FRAME CONDITIONS of the Builder machine: which components of the state a command can change at all.  Four components: the
   counters (label and section ids handed out), the one-shot emitter state (options, extra register, inline comment), the function /
   constant-pool state of the Compiler, and the node storage (list, cursor, detached nodes, section-link cache).  The register size never
   changes.  Every statement is for every state and every command, successful or refused. *)
From Coq Require Import ZArith List Bool Lia.
From Verif Require Import Builder.BuilderModel.
Import ListNotations.
Local Open Scope Z_scope.

Definition touches_counters (c : cmd) : bool :=
  match c with CNewLabel | CNewSection | CConstPoolNode _ _ _ | CFunc | CNewConst _ _ => true | _ => false end.
Definition touches_oneshot (c : cmd) : bool :=
  match c with
  | CSetOptions _ | CAddOptions _ | CSetExtra _ _ | CSetComment _ | CEmit _ _ _ _ _ _ _ | CEmitRejected _ | CFunc | CFuncRet | CEndFunc
  | CJump _ _ _ | CInvoke _ _ => true
  | _ => false
  end.
Definition touches_func (c : cmd) : bool := match c with CFunc | CEndFunc | CNewConst _ _ => true | _ => false end.
Definition touches_nodes (c : cmd) : bool :=
  match c with
  | CNewLabel | CNewSection | CSetOptions _ | CAddOptions _ | CSetExtra _ _ | CSetComment _ | CEmitRejected _ | CNewConst _ _ | CJumpAnn
  | CRemovePool _ => false
  | _ => true
  end.

Ltac frame_crush :=
  repeat match goal with
         | |- context [if ?x then _ else _] => destruct x
         | |- context [match ?x with Some _ => _ | None => _ end] => destruct x
         | |- context [let (_, _) := ?x in _] => destruct x
         end; cbn; repeat split; auto; try discriminate.

Theorem step_frame : forall b c,
  let b' := fst (step b c) in
  regsize b' = regsize b /\
  (touches_counters c = false -> nlabels b' = nlabels b /\ nsections b' = nsections b) /\
  (touches_oneshot c = false -> p_opts b' = p_opts b /\ p_exsig b' = p_exsig b /\ p_exid b' = p_exid b /\ p_comment b' = p_comment b) /\
  (touches_func c = false -> cur_func b' = cur_func b /\ lpool b' = lpool b /\ gpool b' = gpool b) /\
  (touches_nodes c = false -> active b' = active b /\ cursor b' = cursor b /\ pool b' = pool b /\ links b' = links b /\ dirty b' = dirty b).
Proof.
  intros b c. destruct c; cbn [touches_counters touches_oneshot touches_func touches_nodes step];
    unfold do_emit, do_bind, do_embed_array, do_section, update_links, remove_range, add_after, add_before, add_node;
    try (destruct i as [i|]); frame_crush.
Qed.

(* the classification is not vacuous: each component is changed by a command of its class *)
Example frame_tight :
  let b := fst (step (fst (step (init_state 8) (CSetOptions 5))) CNewLabel) in
  nlabels (fst (step b CNewLabel)) <> nlabels b /\
  p_opts (fst (step b (CEmit 9 op_none op_none op_none op_none op_none op_none))) <> p_opts b /\
  cur_func (fst (step b CFunc)) <> cur_func b /\
  active (fst (step b (CAlign 0 16))) <> active b /\
  (* and a refused call of a node-touching command leaves the nodes alone as well *)
  active (fst (step b (CBind 7))) = active b /\ snd (step b (CBind 7)) = kInvalidLabel.
Proof. cbv zeta. repeat split; vm_compute; congruence. Qed.

(* ------------------------------------------------------------------ the frame conditions lifted to whole command sequences *)
Theorem run_frame : forall cs b,
  let b' := BuilderModel.run b cs in
  regsize b' = regsize b /\
  (forallb (fun c => negb (touches_counters c)) cs = true -> nlabels b' = nlabels b /\ nsections b' = nsections b) /\
  (forallb (fun c => negb (touches_oneshot c)) cs = true -> p_opts b' = p_opts b /\ p_exsig b' = p_exsig b /\ p_exid b' = p_exid b /\ p_comment b' = p_comment b) /\
  (forallb (fun c => negb (touches_func c)) cs = true -> cur_func b' = cur_func b /\ lpool b' = lpool b /\ gpool b' = gpool b) /\
  (forallb (fun c => negb (touches_nodes c)) cs = true -> active b' = active b /\ cursor b' = cursor b /\ pool b' = pool b /\ links b' = links b /\ dirty b' = dirty b).
Proof.
  induction cs as [|c cs IH]; intros b; cbn [BuilderModel.run forallb].
  - repeat split; reflexivity.
  - destruct (step_frame b c) as (R & C1 & C2 & C3 & C4). destruct (IH (fst (step b c))) as (R' & D1 & D2 & D3 & D4).
    split; [congruence|].
    split; [intros H; apply andb_prop in H; destruct H as [H1 H2]; apply negb_true_iff in H1; destruct (C1 H1) as (?&?), (D1 H2) as (?&?); split; congruence|].
    split; [intros H; apply andb_prop in H; destruct H as [H1 H2]; apply negb_true_iff in H1; destruct (C2 H1) as (?&?&?&?), (D2 H2) as (?&?&?&?); repeat split; congruence|].
    split; [intros H; apply andb_prop in H; destruct H as [H1 H2]; apply negb_true_iff in H1; destruct (C3 H1) as (?&?&?), (D3 H2) as (?&?&?); repeat split; congruence|].
    intros H; apply andb_prop in H; destruct H as [H1 H2]; apply negb_true_iff in H1; destruct (C4 H1) as (?&?&?&?&?), (D4 H2) as (?&?&?&?&?); repeat split; congruence.
Qed.

(* non-vacuity: a sequence of one-shot setters and a refused emit leaves counters, function state and all node storage alone, while the
   one-shot state does change; the same sequence followed by an align does touch the node list *)
Example run_frame_example :
  let cs := [CSetOptions 5; CSetComment (Some [65]); CEmitRejected 26; CSetExtra 1 2] in
  let b := init_state 8 in
  forallb (fun c => negb (touches_nodes c)) cs = true /\ forallb (fun c => negb (touches_counters c)) cs = true /\
  active (BuilderModel.run b cs) = active b /\ nlabels (BuilderModel.run b cs) = nlabels b /\
  p_exsig (BuilderModel.run b cs) <> p_exsig b /\
  active (BuilderModel.run b (cs ++ [CAlign 0 16])) <> active b.
Proof. cbv zeta. repeat split; vm_compute; congruence. Qed.

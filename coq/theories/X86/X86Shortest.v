(* C01 round 6 -- AsmJit's encoder choices, all three, inside the model: two-byte VEX whenever possible (unless the three-byte form is
   requested), a SIB byte only where the addressing form needs one, and the ModRM.mod of X86Choice.aj_mod.  `aj_choices` is admissible
   and gives the SHORTEST encoding among all admissible choices -- for every instruction. *)
From Coq Require Import ZArith List Bool Lia.
From Verif Require Import X86.X86Model X86.X86Proofs X86.X86Choice.
Import ListNotations.
Local Open Scope Z_scope.

Definition aj_choices (m : mode) (sh : shape) (s : sinst) : choices :=
  mkC false (match s_modrm s with MMem _ mm => aj_mod (a16 m (s_pfx s)) (sh_n sh) mm | _ => 0 end) false.

Theorem aj_choices_adm : forall m sh s, adm m sh s (aj_choices m sh s) = true.
Proof. intros m sh s. unfold adm, aj_choices. destruct (s_modrm s); try reflexivity. apply aj_mod_adm. Qed.

Lemma disp_len_mono md md' n d : (md = 0 \/ md = 1 \/ md = 2) -> (md' = 0 \/ md' = 1 \/ md' = 2) -> md <= md' ->
  (length (disp_bytes md n d) <= length (disp_bytes md' n d))%nat /\ (length (disp_bytes16 md n d) <= length (disp_bytes16 md' n d))%nat.
Proof.
  intros [-> | [-> | ->]] [-> | [-> | ->]] H; try lia; cbn; split; lia.
Qed.

Lemma adm_mem_mod_range a16 n mm c : adm_mem a16 n mm c = true -> m_base mm <> BNone -> m_base mm <> BRip ->
  c_mod c = 0 \/ c_mod c = 1 \/ c_mod c = 2.
Proof.
  unfold adm_mem. destruct (m_base mm); try congruence. intros H _ _.
  destruct (c_mod c =? 0) eqn:E0; [apply Z.eqb_eq in E0; auto|].
  destruct (c_mod c =? 1) eqn:E1; [apply Z.eqb_eq in E1; auto|]. apply Z.eqb_eq in H. auto.
Qed.

Lemma aj_mod_range a16 n mm : aj_mod a16 n mm = 0 \/ aj_mod a16 n mm = 1 \/ aj_mod a16 n mm = 2.
Proof.
  unfold aj_mod. destruct (m_base mm); auto.
  destruct ((m_disp mm =? 0) && _); auto. destruct ((m_disp mm mod n =? 0) && _); auto.
Qed.

Theorem aj_choices_shortest : forall m sh s c, adm m sh s c = true ->
  (length (senc m sh s (aj_choices m sh s)) <= length (senc m sh s c))%nat.
Proof.
  intros m sh s c Hadm. unfold senc. rewrite !app_length.
  assert (Hlead : (length (enc_lead (rhead_of s) (c_vex3 (aj_choices m sh s))) <= length (enc_lead (rhead_of s) (c_vex3 c)))%nat).
  { unfold enc_lead, aj_choices. cbn [c_vex3 orb]. destruct (rh_kind (rhead_of s)); try lia.
    destruct (negb (vex2_ok (rhead_of s))); destruct (c_vex3 c); cbn; lia. }
  assert (Hmod : (length (enc_modrm m (a16 m (s_pfx s)) (sh_n sh) (s_modrm s) (aj_choices m sh s)) <=
                  length (enc_modrm m (a16 m (s_pfx s)) (sh_n sh) (s_modrm s) c))%nat).
  { unfold adm in Hadm. unfold enc_modrm, aj_choices. destruct (s_modrm s) as [| |reg mm]; try lia.
    unfold enc_mem. cbn [c_mod c_sib orb].
    destruct (m_base mm) as [|b|] eqn:Eb.
    - (* no base *) destruct (a16 m (s_pfx s)); [cbn; lia|].
      destruct (match m_index mm with Some _ => true | None => false end); cbn [orb]; [cbn; lia|].
      destruct (is64 m); rewrite ?orb_true_r; cbn [orb]; [cbn; lia|]. destruct (c_sib c); cbn; lia.
    - (* base register *)
      assert (Hr : c_mod c = 0 \/ c_mod c = 1 \/ c_mod c = 2) by (apply (adm_mem_mod_range _ _ _ _ Hadm); rewrite Eb; congruence).
      pose proof (aj_mod_range (a16 m (s_pfx s)) (sh_n sh) mm) as Ha.
      assert (Hle : aj_mod (a16 m (s_pfx s)) (sh_n sh) mm <= c_mod c) by (apply aj_mod_minimal; [exact Hadm | lia]).
      destruct (disp_len_mono _ _ (sh_n sh) (m_disp mm) Ha Hr Hle) as [D1 D2].
      destruct (a16 m (s_pfx s)).
      + destruct (rm16_of b (m_index mm)); [cbn [length]; lia | cbn; lia].
      + destruct (match m_index mm with Some _ => true | None => false end); cbn [orb]; [cbn [length]; lia|].
        destruct (b mod 8 =? 4); cbn [orb]; [cbn [length]; lia|]. destruct (c_sib c); cbn [length]; lia.
    - (* rip *) destruct (a16 m (s_pfx s)); cbn; lia. }
  lia.
Qed.

(* non-vacuity: mov ecx, [eax] -- AsmJit's choices give 8B 08 (2 bytes), the admissible SIB + disp32 form has 7 *)
Example aj_choices_example :
  let sh := mkSh true false 0 1 in
  let s := mkS (mkP false false false false false 0) KLeg false false 0 false 0 0 0 139 0 false false (MMem 1 (mkM (BReg 0) None 0 0)) 0 in
  aj_choices M32 sh s = mkC false 0 false /\ senc M32 sh s (aj_choices M32 sh s) = [139; 8] /\
  length (senc M32 sh s (mkC false 2 true)) = 7%nat.
Proof. vm_compute. repeat split; reflexivity. Qed.

(* what a byte string exhibits beyond AsmJit's modelled choices, for every row that reads it (evaluated by the extracted model on
   AsmJit's bytes): a three-byte VEX prefix where the two-byte one was possible, a SIB byte where none was needed *)
From Verif Require Import X86.X86Denote.
Definition extra_check (bucket : Z -> list row) (m : mode) (bs : bytes) : list (Z * (bool * bool)) :=
  match sdec_head m bs with
  | Some (h, rest) =>
      flat_map (fun r =>
        if head_ok m r h then
          match sdec_tail m h (shape_of_row m r h) rest with
          | Some (s, _) =>
              if tail_ok m r s then
                let v3x := match rh_kind h, snd (dec_prefixes 14 p0 bs) with KVex, b0 :: _ => vex2_ok h && (b0 =? 196) | _, _ => false end in
                let sibx := match s_modrm s, rest with
                            | MMem _ mm, mb :: _ =>
                                negb (a16 m (s_pfx s)) && (mb mod 8 =? 4) &&
                                match m_base mm, m_index mm with
                                | BReg b, None => negb (b mod 8 =? 4)
                                | BNone, None => negb (is64 m)
                                | _, _ => false
                                end
                            | _, _ => false
                            end in
                [(r_id r, (v3x, sibx))]
              else []
          | None => []
          end
        else []) (bucket (rh_opc h))
  | None => []
  end.

(* C01 round 6 -- the round trip for ANY order of the legacy prefixes.
   X86Model.senc writes the prefixes in one fixed order (lock, F2, F3, segment, 66, 67); a real assembler (AsmJit: lock / rep first,
   then segment, 67, and the mandatory 66 / F2 / F3 last) uses another.  `senc_ord ps` is the structural encoder with an arbitrary
   prefix byte list `ps` in place of `enc_prefixes`; when `ps` is a list of prefix bytes, as long as the canonical list and sets exactly
   the instruction's prefix record (`prefix_order_ok`, decidable), the decoder maps `senc_ord ps ... ++ rest` back to the instruction with
   the exact length -- for every such order, every instruction, every admissible choice, every trailing bytes. *)
From Coq Require Import ZArith List Bool Lia.
From Verif Require Import X86.X86Model X86.X86Proofs.
Import ListNotations.
Local Open Scope Z_scope.

Definition set_all (ps : bytes) (q : prefixes) : prefixes := fold_left (fun p b => set_prefix b p) ps q.

Definition prefixes_eqb (a b : prefixes) : bool :=
  Bool.eqb (p_lock a) (p_lock b) && Bool.eqb (p_f2 a) (p_f2 b) && Bool.eqb (p_f3 a) (p_f3 b) && Bool.eqb (p_66 a) (p_66 b) &&
  Bool.eqb (p_67 a) (p_67 b) && (p_seg a =? p_seg b).

Lemma prefixes_eqb_eq a b : prefixes_eqb a b = true -> a = b.
Proof.
  unfold prefixes_eqb. intros H. repeat (apply andb_prop in H; destruct H as [H ?]).
  repeat match goal with X : Bool.eqb _ _ = true |- _ => apply Bool.eqb_prop in X end.
  apply Z.eqb_eq in H0. destruct a, b; cbn in *; subst; reflexivity.
Qed.

Definition prefix_order_ok (ps : bytes) (p : prefixes) : bool :=
  forallb is_prefix_byte ps && Nat.eqb (length ps) (length (enc_prefixes p)) && prefixes_eqb (set_all ps p0) p.

Definition senc_ord (ps : bytes) (m : mode) (sh : shape) (s : sinst) (c : choices) : bytes :=
  ps ++ enc_lead (rhead_of s) (c_vex3 c) ++ enc_modrm m (a16 m (s_pfx s)) (sh_n sh) (s_modrm s) c ++ le_bytes (sh_imm sh) (s_imm s).

Lemma senc_ord_canonical m sh s c : senc_ord (enc_prefixes (s_pfx s)) m sh s c = senc m sh s c.
Proof. reflexivity. Qed.

(* the prefix decoder on a list of prefix bytes: it consumes them all (fuel permitting) and applies them in order *)
Lemma dec_prefixes_app : forall ps f q X, forallb is_prefix_byte ps = true -> (length ps <= f)%nat ->
  dec_prefixes f q (ps ++ X) = dec_prefixes (f - length ps) (set_all ps q) X.
Proof.
  induction ps as [|b ps IH]; intros f q X Hp Hl.
  - cbn. rewrite Nat.sub_0_r. reflexivity.
  - cbn [forallb] in Hp. apply andb_prop in Hp. destruct Hp as [Hb Hp]. cbn [length] in Hl.
    destruct f as [|f]; [lia|]. cbn [app]. rewrite dec_prefixes_step by exact Hb.
    rewrite IH by (try assumption; lia). cbn [length set_all fold_left]. reflexivity.
Qed.

(* the canonical order is itself an admissible order *)
Lemma enc_prefixes_order_ok p : wf_pfx p = true -> prefix_order_ok (enc_prefixes p) p = true.
Proof.
  destruct p as [lk f2 f3 o66 o67 sg]. unfold wf_pfx. cbn [p_seg]. intros Hw. apply zin_spec in Hw.
  assert (Hs : sg = 0 \/ sg = 1 \/ sg = 2 \/ sg = 3 \/ sg = 4 \/ sg = 5 \/ sg = 6) by lia.
  destruct Hs as [-> | [-> | [-> | [-> | [-> | [-> | ->]]]]]]; destruct lk, f2, f3, o66, o67; reflexivity.
Qed.

Lemma enc_prefixes_short p : (length (enc_prefixes p) <= 6)%nat.
Proof. destruct p as [lk f2 f3 o66 o67 sg]. unfold enc_prefixes. cbn [p_lock p_f2 p_f3 p_66 p_67 p_seg].
  destruct lk, f2, f3, o66, o67, (negb (sg =? 0)); cbn; lia. Qed.

(* any admissible order is decoded like the canonical one, whatever follows *)
Lemma sdec_head_any_order m ps p X : wf_pfx p = true -> prefix_order_ok ps p = true ->
  sdec_head m (ps ++ X) = sdec_head m (enc_prefixes p ++ X).
Proof.
  intros Hw H. pose proof (enc_prefixes_order_ok p Hw) as Hc. unfold prefix_order_ok in H, Hc.
  apply andb_prop in H. destruct H as [H E]. apply andb_prop in H. destruct H as [Hp Hl].
  apply andb_prop in Hc. destruct Hc as [Hc Ec]. apply andb_prop in Hc. destruct Hc as [Hpc _].
  apply prefixes_eqb_eq in E, Ec. apply Nat.eqb_eq in Hl. pose proof (enc_prefixes_short p) as Hs.
  unfold sdec_head. rewrite (dec_prefixes_app ps 14 p0 X Hp) by lia.
  rewrite (dec_prefixes_app (enc_prefixes p) 14 p0 X Hpc) by lia.
  rewrite E, Ec, Hl. reflexivity.
Qed.

Theorem sdec_senc_ord : forall ps m sh s c rest,
  wf m sh s = true -> adm m sh s c = true -> prefix_order_ok ps (s_pfx s) = true ->
  sdec m sh (senc_ord ps m sh s c ++ rest) = Some (s, length (senc_ord ps m sh s c)).
Proof.
  intros ps m sh s c rest Hwf Hadm Hord.
  assert (Hwp : wf_pfx (s_pfx s) = true).
  { unfold wf in Hwf. do 5 (apply andb_prop in Hwf; destruct Hwf as [Hwf ?]). exact Hwf. }
  pose proof (sdec_senc m sh s c rest Hwf Hadm) as D.
  assert (Hl : length (senc_ord ps m sh s c) = length (senc m sh s c)).
  { unfold senc_ord, senc. rewrite !app_length. unfold prefix_order_ok in Hord.
    apply andb_prop in Hord. destruct Hord as [Hord _]. apply andb_prop in Hord. destruct Hord as [_ Hn]. apply Nat.eqb_eq in Hn. lia. }
  unfold sdec in *. unfold senc_ord. rewrite <- !app_assoc.
  rewrite (sdec_head_any_order m ps (s_pfx s) _ Hwp Hord).
  unfold senc in D. rewrite <- !app_assoc in D.
  destruct (sdec_head m (enc_prefixes (s_pfx s) ++ _)) as [[h r1]|]; [|discriminate].
  destruct (sdec_tail m h sh r1) as [[s' r2]|]; [|discriminate].
  inversion D as [[Hs Hlen]]. f_equal. f_equal.
  rewrite !app_length in *. unfold prefix_order_ok in Hord.
  apply andb_prop in Hord. destruct Hord as [Hord _]. apply andb_prop in Hord. destruct Hord as [_ Hn]. apply Nat.eqb_eq in Hn. lia.
Qed.

(* the same transfer for any instruction whose canonical encoding round-trips (used for the 32-bit les / lds / bound of X86Leg32.v) *)
Theorem sdec_ord_transfer : forall ps m sh s c rest,
  sdec m sh (senc m sh s c ++ rest) = Some (s, length (senc m sh s c)) -> wf_pfx (s_pfx s) = true ->
  prefix_order_ok ps (s_pfx s) = true ->
  sdec m sh (senc_ord ps m sh s c ++ rest) = Some (s, length (senc_ord ps m sh s c)).
Proof.
  intros ps m sh s c rest D Hwp Hord.
  unfold sdec in *. unfold senc_ord. rewrite <- !app_assoc.
  rewrite (sdec_head_any_order m ps (s_pfx s) _ Hwp Hord).
  unfold senc in D. rewrite <- !app_assoc in D.
  destruct (sdec_head m (enc_prefixes (s_pfx s) ++ _)) as [[h r1]|]; [|discriminate].
  destruct (sdec_tail m h sh r1) as [[s' r2]|]; [|discriminate].
  inversion D as [[Hs Hlen]]. f_equal. f_equal.
  rewrite !app_length in *. unfold prefix_order_ok in Hord.
  apply andb_prop in Hord. destruct Hord as [Hord _]. apply andb_prop in Hord. destruct Hord as [_ Hn]. apply Nat.eqb_eq in Hn. lia.
Qed.

(* non-vacuity: AsmJit's order for `lock add word ptr fs:[bx], ax` in 32-bit mode is F0 64 67 66 (lock, segment, address size, operand
   size); the canonical one is F0 64 66 67; both are admissible orders of the same prefix record and 67 66 64 F0 is one too, while a
   duplicated prefix or a missing one is not *)
Example prefix_order_examples :
  let p := mkP true false false true true 5 in
  enc_prefixes p = [240; 100; 102; 103] /\ prefix_order_ok [240; 100; 103; 102] p = true /\ prefix_order_ok [103; 102; 100; 240] p = true /\
  prefix_order_ok [240; 100; 103; 102; 102] p = false /\ prefix_order_ok [240; 100; 103] p = false /\ prefix_order_ok [240; 101; 103; 102] p = false.
Proof. vm_compute. repeat split; reflexivity. Qed.

(* C01 -- what the judge's comparison of prefixes and decorations means in terms of the BYTES (the decoded head), and that it
   does not depend on which database row produced the denotation.

   `deco_of r s` is computed from the structural instruction; the structural instruction's prefix / EVEX fields are the
   decoded head's (sdec_tail_head).  Hence:
   - deco_head_fields: the lock prefix, the opmask register (EVEX.aaa) and the zeroing bit of every denotation are those of
     the decoded head, whatever the row; F2 / F3 are the head's prefix unless the row consumes it as its mandatory prefix;
     the free-standing segment prefix is the head's when the row has no memory operand; rounding / sae come from EVEX.b and
     EVEX.L'L of the head in the register form;
   - deco_rows_agree: any two denotations of the same bytes carry the same lock / mask / zeroing, and the same F2 / F3 /
     segment / rounding whenever the two rows agree on the corresponding row attribute;
   - judge_ok_head: verdict 0 of the judge means the call's lock / mask / zeroing ARE the bytes' (the head's) and the other
     decorations are the head's as read by a row of the called mnemonic. *)
From Coq Require Import ZArith List Bool Lia.
From Verif Require Import X86.X86Model X86.X86Proofs X86.X86Denote X86.X86DenoteProofs X86.X86DbCheck X86.X86Unique X86.X86UniqueProofs.
Import ListNotations.
Local Open Scope Z_scope.

(* the decorations of a row read directly from the decoded head and the ModRM form *)
Definition head_deco (r : row) (h : rhead) (isreg : bool) : deco :=
  let p := rh_pfx h in
  let leg := r_kind r =? 0 in
  let f2m := leg && ((r_pp r =? 4) || (r_pp r =? 5)) in
  let f3m := leg && (r_pp r =? 3) in
  mkD (p_lock p) (p_f2 p && negb f2m) (p_f3 p && negb f3m)
      (if has_mem_operand r then 0 else p_seg p)
      (rh_aaa h) (rh_z h)
      (if rh_b h && isreg then (if r_er r then rh_L h else 4) else -1).

Definition is_reg_form (s : sinst) : bool := match s_modrm s with MReg _ _ => true | _ => false end.

Lemma sdec_tail_aaa m h sh rest s r2 : sdec_tail m h sh rest = Some (s, r2) -> s_aaa s = rh_aaa h.
Proof.
  unfold sdec_tail. destruct (dec_modrm m h sh rest) as [[mp r1]|]; [|discriminate].
  destruct (le_take (sh_imm sh) r1) as [[imm r3]|]; [|discriminate].
  intros E. inversion E; subst. reflexivity.
Qed.

Lemma deco_head_fields m r h rest s r2 :
  sdec_tail m h (shape_of_row m r h) rest = Some (s, r2) -> deco_of r s = head_deco r h (is_reg_form s).
Proof.
  intros E. destruct (sdec_tail_head _ _ _ _ _ _ E) as [Hp [_ [HL [Hb Hz]]]]. pose proof (sdec_tail_aaa _ _ _ _ _ _ E) as Ha.
  unfold deco_of, head_deco, is_reg_form. rewrite Hp, HL, Hb, Hz, Ha. reflexivity.
Qed.

Lemma deco_match_eq c d : deco_match c d = true ->
  d_lock c = d_lock d /\ d_f2 c = d_f2 d /\ d_f3 c = d_f3 d /\ d_seg c = d_seg d /\ d_k c = d_k d /\ d_z c = d_z d /\ d_rc c = d_rc d.
Proof.
  unfold deco_match. intros H.
  repeat (apply andb_prop in H; destruct H as [H ?]).
  repeat match goal with
         | X : Bool.eqb _ _ = true |- _ => apply Bool.eqb_prop in X
         | X : (_ =? _) = true |- _ => apply Z.eqb_eq in X
         end.
  repeat split; assumption.
Qed.

Lemma same_reading_deco r r' h b : row_same_reading r r' = true -> head_deco r h b = head_deco r' h b.
Proof.
  unfold row_same_reading. intros H. repeat (apply andb_prop in H; destruct H as [H ?]).
  repeat match goal with
         | X : Bool.eqb _ _ = true |- _ => apply Bool.eqb_prop in X
         | X : (_ =? _) = true |- _ => apply Z.eqb_eq in X
         end.
  unfold head_deco.
  repeat match goal with X : _ = _ |- _ => rewrite X; clear X end. reflexivity.
Qed.

Lemma guarded_row_of (f : Z -> list row) row_of : forallb (fun o => bucket_row_of_ok row_of (f o)) (zrange 256) = true ->
  forall o, bucket_row_of_ok row_of (if zin 0 o 256 then f o else []) = true.
Proof.
  intros H o. destruct (zin 0 o 256) eqn:E; [|reflexivity].
  apply zin_spec in E. rewrite forallb_forall in H. apply H. apply zrange_in. cbn. lia.
Qed.

Section WithBucket.
  Variable bucket : Z -> list row.
  Variable row_of : Z -> option row.

  (* every denotation's decorations are the decoded head's, as read by its row *)
  Theorem denote_deco_head : forall m bs rid ops dd len,
    In (rid, ops, dd, len) (denote bucket m bs) ->
    exists h rest r isreg, sdec_head m bs = Some (h, rest) /\ In r (bucket (rh_opc h)) /\ r_id r = rid /\ dd = head_deco r h isreg.
  Proof.
    intros m bs rid ops dd len H.
    destruct (denote_sound bucket _ _ _ _ _ _ H) as [h [rest [r [s [t [Eh [I [Id [_ [Et [_ [_ [Ed _]]]]]]]]]]]]].
    exists h, rest, r, (is_reg_form s). repeat split; auto. rewrite Ed. eapply deco_head_fields; eauto.
  Qed.

  (* two denotations of the same bytes: lock, mask and zeroing are equal whatever the rows *)
  Theorem deco_rows_agree : forall m bs rid1 ops1 dd1 len1 rid2 ops2 dd2 len2,
    In (rid1, ops1, dd1, len1) (denote bucket m bs) -> In (rid2, ops2, dd2, len2) (denote bucket m bs) ->
    d_lock dd1 = d_lock dd2 /\ d_k dd1 = d_k dd2 /\ d_z dd1 = d_z dd2.
  Proof.
    intros m bs rid1 ops1 dd1 len1 rid2 ops2 dd2 len2 H1 H2.
    destruct (denote_deco_head _ _ _ _ _ _ H1) as [h [rest [r1 [b1 [Eh [_ [_ E1]]]]]]].
    destruct (denote_deco_head _ _ _ _ _ _ H2) as [h' [rest' [r2 [b2 [Eh' [_ [_ E2]]]]]]].
    rewrite Eh in Eh'. inversion Eh'; subst h' rest'. subst dd1 dd2. cbn. auto.
  Qed.

  (* what a matching denotation of one bucket function says about the call's decorations *)
  Definition head_reading (m : mode) (name : Z) (dc : deco) (bs : bytes) : Prop :=
    exists h rest r isreg,
      sdec_head m bs = Some (h, rest) /\ In r (bucket (rh_opc h)) /\ r_name r = name /\
      d_lock dc = p_lock (rh_pfx h) /\ d_k dc = rh_aaa h /\ d_z dc = rh_z h /\
      d_f2 dc = d_f2 (head_deco r h isreg) /\ d_f3 dc = d_f3 (head_deco r h isreg) /\
      d_seg dc = d_seg (head_deco r h isreg) /\ d_rc dc = d_rc (head_deco r h isreg).

  Hypothesis Hsame : forall o, bucket_row_of_ok row_of (bucket o) = true.

  Lemma match_head_reading : forall m name dc bs rid dops dd len r,
    In (rid, dops, dd, len) (denote bucket m bs) -> row_of rid = Some r -> r_name r = name -> deco_match dc dd = true ->
    head_reading m name dc bs.
  Proof.
    intros m name dc bs rid dops dd len r Hin Er Hn Hd.
    destruct (denote_deco_head _ _ _ _ _ _ Hin) as [h [rest [r' [b [Eh [I [Id E]]]]]]].
    pose proof (Hsame (rh_opc h)) as HS. unfold bucket_row_of_ok in HS. rewrite forallb_forall in HS. specialize (HS r' I).
    rewrite Id, Er in HS. pose proof (same_reading_deco _ _ h b HS) as HD. unfold row_same_reading in HS.
    assert (Hn' : r_name r' = name).
    { repeat (apply andb_prop in HS; destruct HS as [HS ?]). apply Z.eqb_eq in HS. congruence. }
    apply deco_match_eq in Hd. destruct Hd as [A [B [C [D [K [Z0 R]]]]]].
    exists h, rest, r', b. rewrite E in *. cbn in A, K, Z0. repeat split; auto.
  Qed.
End WithBucket.

Section WithDb.
  Variable bucket : Z -> list row.
  Variable wbucket : Z -> list row.
  Variable row_of : Z -> option row.
  Hypothesis Hsame : forall o, bucket_row_of_ok row_of (bucket o) = true.
  Hypothesis Hsamew : forall o, bucket_row_of_ok row_of (wbucket o) = true.

  (* verdict 0: the call's decorations are those of the bytes' head, read by a row of the called mnemonic -- of the appended bytes
     themselves (one instruction), or, for an x87 wait form, of the bytes that follow the leading FWAIT (9B), read by a wait row *)
  Theorem judge_ok_head : forall m name ops dc bs,
    fst (judge bucket wbucket row_of m name ops dc bs) = 0 ->
    head_reading bucket m name dc bs \/ exists rest, bs = 155 :: rest /\ head_reading wbucket m name dc rest.
  Proof.
    intros m name ops dc bs H.
    destruct (judge_ok_spec bucket wbucket row_of _ _ _ _ _ H) as [rid [dops [dd [r [Hin [Er [Hn [Hd _]]]]]]]].
    apply denote2_cases in Hin. destruct Hin as [Hin|[rest [len' [Eb [_ Hin]]]]].
    - left. eapply match_head_reading; eauto.
    - right. exists rest. split; [exact Eb|]. eapply match_head_reading; eauto.
  Qed.
End WithDb.

(* ------------------------------------------------------------------ the one-instruction reading of bytes that start with 9B
   9B is not a prefix: the head decoder reads it as the opcode 9B of the legacy map 0, so a one-instruction denotation of 9B :: rest
   comes from a row of bucket 9B (FWAIT itself); if that row has no ModRM byte and no immediate, it consumes exactly the one byte.  This
   separates the two readings of `denote2`: the FWAIT reading has length 1, a wait reading at least 2. *)
Lemma sdec_head_9b m rest : exists h, sdec_head m (155 :: rest) = Some (h, rest) /\ rh_opc h = 155 /\ rh_map h = 0 /\ rh_kind h = KLeg.
Proof. destruct m; eexists; (split; [cbv; reflexivity | cbn; auto]). Qed.

Definition plain_op_row (r : row) : bool := negb (r_modrm r) && negb (r_moffs r) && (r_imm r =? 0).

Theorem denote_9b_is_bucket_9b : forall bucket m rest rid ops dd len,
  In (rid, ops, dd, len) (denote bucket m (155 :: rest)) ->
  exists r, In r (bucket 155) /\ r_id r = rid /\ r_map r = 0 /\ r_kind r = 0 /\ (plain_op_row r = true -> len = 1%nat).
Proof.
  intros bucket m rest rid ops dd len H.
  destruct (denote_sound bucket _ _ _ _ _ _ H) as [h [rest' [r [s [t [Eh [I [Id [Hh [Et [_ [_ [_ El]]]]]]]]]]]]].
  destruct (sdec_head_9b m rest) as [h0 [Eh0 [Ho [Hmap Hkind]]]]. rewrite Eh0 in Eh. inversion Eh; subst h0 rest'.
  exists r. rewrite Ho in I.
  assert (Hk : r_kind r = 0) by (rewrite (head_ok_kind _ _ _ Hh), Hkind; reflexivity).
  assert (Hm0 : r_map r = 0).
  { unfold head_ok in Hh. apply andb_prop in Hh. destruct Hh as [Hh _]. apply andb_prop in Hh. destruct Hh as [Hh _].
    apply andb_prop in Hh. destruct Hh as [_ Hh]. apply Z.eqb_eq in Hh. congruence. }
  repeat split; auto.
  intros Hp. unfold plain_op_row in Hp. apply andb_prop in Hp. destruct Hp as [Hp Hi]. apply andb_prop in Hp. destruct Hp as [Hm Hf].
  apply negb_true_iff in Hm, Hf. apply Z.eqb_eq in Hi.
  unfold sdec_tail, shape_of_row, dec_modrm in Et. cbn [sh_modrm sh_imm] in Et. rewrite Hm, Hf, Hi in Et. cbn in Et.
  inversion Et; subst. cbn [length]. lia.
Qed.

(* C01 round 6 -- consequences of the round trip for the ENCODER side, all for arbitrary instructions / bytes:
   - prefix-freeness and injectivity of the structural encoder: two well-formed, admissibly encoded instructions whose encodings (each
     followed by arbitrary bytes) give the same byte string are the SAME instruction, have the same length and the same trailing bytes
     -- whatever encoder choices were made (VEX2/VEX3, mod, SIB): no byte string is the encoding of two instructions, and no encoding
     is a proper prefix of another;
   - the round trip with the `adm` hypothesis DISCHARGED for AsmJit's choice of ModRM.mod (X86Choice.aj_mod). *)
From Coq Require Import ZArith List Bool Lia.
From Verif Require Import X86.X86Model X86.X86Proofs X86.X86Choice.
Import ListNotations.
Local Open Scope Z_scope.

Lemma app_same_length {A} : forall (a a' r r' : list A), length a = length a' -> a ++ r = a' ++ r' -> a = a' /\ r = r'.
Proof.
  induction a as [|x a IH]; destruct a' as [|y a']; cbn; intros r r' Hl H; try discriminate.
  - auto.
  - inversion H; subst. inversion Hl as [Hl']. destruct (IH _ _ _ Hl' H2) as [-> ->]. auto.
Qed.

Theorem senc_prefix_free : forall m sh s c r s' c' r',
  wf m sh s = true -> adm m sh s c = true -> wf m sh s' = true -> adm m sh s' c' = true ->
  senc m sh s c ++ r = senc m sh s' c' ++ r' ->
  s = s' /\ senc m sh s c = senc m sh s' c' /\ r = r'.
Proof.
  intros m sh s c r s' c' r' W A W' A' E.
  pose proof (sdec_senc m sh s c r W A) as D. pose proof (sdec_senc m sh s' c' r' W' A') as D'.
  rewrite E in D. rewrite D' in D. inversion D as [[Hs Hl]]. subst s'.
  destruct (app_same_length _ _ _ _ (eq_sym Hl) E) as [Ea Er]. auto.
Qed.

(* in particular the encoder is injective up to the encoder's choices, and an instruction is determined by its bytes *)
Corollary senc_injective : forall m sh s c s' c',
  wf m sh s = true -> adm m sh s c = true -> wf m sh s' = true -> adm m sh s' c' = true ->
  senc m sh s c = senc m sh s' c' -> s = s'.
Proof.
  intros m sh s c s' c' W A W' A' E.
  destruct (senc_prefix_free m sh s c [] s' c' [] W A W' A') as [H _]; [rewrite !app_nil_r; exact E | exact H].
Qed.

(* `adm` depends on the choices only through c_mod *)
Lemma adm_mem_mod a16 n mm c c' : c_mod c = c_mod c' -> adm_mem a16 n mm c = adm_mem a16 n mm c'.
Proof. intros H. unfold adm_mem. rewrite H. reflexivity. Qed.

(* the round trip for AsmJit's choice of mod: no admissibility hypothesis left *)
Theorem sdec_senc_aj : forall m sh s c rest,
  wf m sh s = true ->
  match s_modrm s with MMem _ mm => c_mod c = aj_mod (a16 m (s_pfx s)) (sh_n sh) mm | _ => True end ->
  sdec m sh (senc m sh s c ++ rest) = Some (s, length (senc m sh s c)).
Proof.
  intros m sh s c rest W Hc. apply sdec_senc; [exact W|].
  unfold adm. destruct (s_modrm s) as [| |reg mm]; try reflexivity.
  rewrite (adm_mem_mod _ _ _ c (mkC (c_vex3 c) (aj_mod (a16 m (s_pfx s)) (sh_n sh) mm) (c_sib c))); [apply aj_mod_adm | exact Hc].
Qed.

(* non-vacuity: two different choices for the same instruction give different bytes that decode to the same instruction; and the
   hypotheses of senc_prefix_free hold for them *)
Example senc_choices_example :
  let sh := mkSh true false 0 1 in
  let s := mkS (mkP false false false false false 0) KLeg false false 0 false 0 0 0 139 0 false false (MMem 1 (mkM (BReg 0) None 0 0)) 0 in
  wf M32 sh s = true /\ adm M32 sh s (mkC false 0 false) = true /\ adm M32 sh s (mkC false 2 true) = true /\
  senc M32 sh s (mkC false 0 false) = [139; 8] /\ senc M32 sh s (mkC false 2 true) = [139; 140; 32; 0; 0; 0; 0] /\
  aj_mod (a16 M32 (s_pfx s)) (sh_n sh) (mkM (BReg 0) None 0 0) = 0.
Proof. vm_compute. repeat split; reflexivity. Qed.

(* C01 -- structural model of x86 / x86-64 instruction encodings.

   `sinst` is an instruction as a record of NAMED FIELDS (legacy prefixes, REX presence, W, VEX/XOP/EVEX fields
   with the extension bits already un-inverted and merged into 4/5-bit register ids, ModRM/SIB/displacement as an
   addressing form, immediate value).  `senc` is the structural ENCODER (the ISA rules written forwards, with the
   encoder's legal freedoms in `choices`), `sdec_head`/`sdec_tail`/`sdec` the structural DECODER (the ISA rules
   written backwards: prefix scan, REX / VEX2 / VEX3 / XOP / EVEX payload extraction with the inverted bits,
   ModRM / SIB / disp8 / disp8*N / disp32 / 16-bit ModRM, mod=00 rm=101 and SIB base=101 special cases,
   RIP-relative, little-endian immediates).  The only thing the decoder cannot know from the bytes -- whether the
   opcode has a ModRM byte, whether it is a VSIB form, how many immediate bytes follow, and the disp8 scale N -- is
   the `shape` argument, which `denote` (X86Denote.v) computes from the ISA database row.

   This file contains no proofs (so that it still extracts when a proof breaks); proofs are in X86Proofs.v. *)
From Coq Require Import ZArith List Bool.
Import ListNotations.
Local Open Scope Z_scope.

Inductive mode := M32 | M64.
Definition is64 (m : mode) : bool := match m with M64 => true | M32 => false end.

Definition bytes := list Z.

(* ------------------------------------------------------------------ legacy prefixes *)
Record prefixes := mkP { p_lock : bool; p_f2 : bool; p_f3 : bool; p_66 : bool; p_67 : bool; p_seg : Z }.
Definition p0 : prefixes := mkP false false false false false 0.

(* segment ids: 0 none, 1 es, 2 cs, 3 ss, 4 ds, 5 fs, 6 gs *)
Definition seg_of_byte (b : Z) : Z :=
  if b =? 38 then 1 else if b =? 46 then 2 else if b =? 54 then 3 else if b =? 62 then 4 else
  if b =? 100 then 5 else if b =? 101 then 6 else 0.
Definition seg_byte (s : Z) : Z :=
  if s =? 1 then 38 else if s =? 2 then 46 else if s =? 3 then 54 else if s =? 4 then 62 else
  if s =? 5 then 100 else 101.

Definition is_prefix_byte (b : Z) : bool :=
  (b =? 240) || (b =? 242) || (b =? 243) || (b =? 102) || (b =? 103) || negb (seg_of_byte b =? 0).

Definition set_prefix (b : Z) (p : prefixes) : prefixes :=
  if b =? 240 then mkP true (p_f2 p) (p_f3 p) (p_66 p) (p_67 p) (p_seg p) else
  if b =? 242 then mkP (p_lock p) true (p_f3 p) (p_66 p) (p_67 p) (p_seg p) else
  if b =? 243 then mkP (p_lock p) (p_f2 p) true (p_66 p) (p_67 p) (p_seg p) else
  if b =? 102 then mkP (p_lock p) (p_f2 p) (p_f3 p) true (p_67 p) (p_seg p) else
  if b =? 103 then mkP (p_lock p) (p_f2 p) (p_f3 p) (p_66 p) true (p_seg p) else
  mkP (p_lock p) (p_f2 p) (p_f3 p) (p_66 p) (p_67 p) (seg_of_byte b).

Fixpoint dec_prefixes (fuel : nat) (p : prefixes) (bs : bytes) : prefixes * bytes :=
  match fuel, bs with
  | S f, b :: r => if is_prefix_byte b then dec_prefixes f (set_prefix b p) r else (p, bs)
  | _, _ => (p, bs)
  end.

Definition opt (c : bool) (b : Z) : bytes := if c then [b] else [].

Definition enc_prefixes (p : prefixes) : bytes :=
  opt (p_lock p) 240 ++ opt (p_f2 p) 242 ++ opt (p_f3 p) 243 ++
  opt (negb (p_seg p =? 0)) (seg_byte (p_seg p)) ++ opt (p_66 p) 102 ++ opt (p_67 p) 103.

(* ------------------------------------------------------------------ structural instruction *)
Inductive ekind := KLeg | KVex | KXop | KEvex.

Inductive sbase := BNone | BReg (id : Z) | BRip.
Record smem := mkM { m_base : sbase; m_index : option Z; m_scale : Z; m_disp : Z }.

Inductive modrm_part :=
| MNone (xr xx xb xr' : bool)      (* no ModRM byte: the raw extension bits R X B R' (e.g. opcode+r uses B) *)
| MReg (reg rm : Z)                (* mod = 11: reg id = R':R:reg, rm id = X:B:rm *)
| MMem (reg : Z) (m : smem).       (* mod <> 11: base id = B:base, index id = X:index *)

Record sinst := mkS {
  s_pfx : prefixes;
  s_kind : ekind;
  s_rex : bool;        (* a REX byte is present (legacy only; decides AH..BH vs SPL..DIL) *)
  s_W : bool;
  s_vvvv : Z;          (* 0..15, un-inverted *)
  s_V' : bool;         (* EVEX.V', un-inverted: 5th bit of vvvvv, or of the VSIB index *)
  s_L : Z;             (* VEX.L (0..1) / EVEX.L'L (0..3) *)
  s_pp : Z;            (* VEX/EVEX pp *)
  s_map : Z;           (* legacy: 0 one-byte, 1 0F, 2 0F38, 3 0F3A; VEX/XOP mmmmm; EVEX mmm *)
  s_opc : Z;
  s_aaa : Z; s_z : bool; s_b : bool;
  s_modrm : modrm_part;
  s_imm : Z            (* unsigned little-endian value of the immediate bytes *)
}.

Record shape := mkSh { sh_modrm : bool; sh_vsib : bool; sh_imm : nat; sh_n : Z }.

Record choices := mkC { c_vex3 : bool; c_mod : Z; c_sib : bool }.

(* ------------------------------------------------------------------ little-endian immediates / displacements *)
Fixpoint le_bytes (n : nat) (v : Z) : bytes :=
  match n with O => [] | S k => (v mod 256) :: le_bytes k (v / 256) end.

Fixpoint le_take (n : nat) (bs : bytes) : option (Z * bytes) :=
  match n with
  | O => Some (0, bs)
  | S k => match bs with
           | [] => None
           | b :: r => match le_take k r with Some (v, r') => Some (b + 256 * v, r') | None => None end
           end
  end.

Definition sext8 (v : Z) : Z := if v <? 128 then v else v - 256.
Definition sext16 (v : Z) : Z := if v <? 32768 then v else v - 65536.
Definition sext32 (v : Z) : Z := if v <? 2147483648 then v else v - 4294967296.

(* ------------------------------------------------------------------ raw head (what precedes ModRM) *)
Record rhead := mkRH {
  rh_pfx : prefixes; rh_kind : ekind; rh_rex : bool;
  rh_W : bool; rh_R : bool; rh_X : bool; rh_B : bool; rh_R' : bool; rh_V' : bool;
  rh_vvvv : Z; rh_L : Z; rh_pp : Z; rh_map : Z; rh_opc : Z; rh_aaa : Z; rh_z : bool; rh_b : bool }.

Definition bitb (v d : Z) : bool := (v / d) mod 2 =? 1.
Definition b2z := Z.b2z.
Definition nb2z (b : bool) : Z := 1 - Z.b2z b.      (* inverted bit *)

(* the extension bits implied by a ModRM part *)
Definition id_bit3 (i : Z) : bool := (i / 8) mod 2 =? 1.
Definition id_bit4 (i : Z) : bool := (i / 16) mod 2 =? 1.

Definition mp_R (mp : modrm_part) : bool :=
  match mp with MNone r _ _ _ => r | MReg reg _ => id_bit3 reg | MMem reg _ => id_bit3 reg end.
Definition mp_R' (mp : modrm_part) : bool :=
  match mp with MNone _ _ _ r' => r' | MReg reg _ => id_bit4 reg | MMem reg _ => id_bit4 reg end.
Definition mp_B (mp : modrm_part) : bool :=
  match mp with
  | MNone _ _ b _ => b
  | MReg _ rm => id_bit3 rm
  | MMem _ m => match m_base m with BReg i => id_bit3 i | _ => false end
  end.
Definition mp_X (mp : modrm_part) : bool :=
  match mp with
  | MNone _ x _ _ => x
  | MReg _ rm => id_bit4 rm
  | MMem _ m => match m_index m with Some i => id_bit3 i | None => false end
  end.

Definition rhead_of (s : sinst) : rhead :=
  mkRH (s_pfx s) (s_kind s) (s_rex s) (s_W s) (mp_R (s_modrm s)) (mp_X (s_modrm s)) (mp_B (s_modrm s))
       (mp_R' (s_modrm s)) (s_V' s) (s_vvvv s) (s_L s) (s_pp s) (s_map s) (s_opc s) (s_aaa s) (s_z s) (s_b s).

(* ------------------------------------------------------------------ encoder: lead (REX / VEX / XOP / EVEX + opcode) *)
Definition rex_byte (w r x b : bool) : Z := 64 + 8 * b2z w + 4 * b2z r + 2 * b2z x + b2z b.

Definition leg_escape (map : Z) : bytes :=
  if map =? 0 then [] else if map =? 1 then [15] else if map =? 2 then [15; 56] else [15; 58].

Definition vex2_ok (h : rhead) : bool :=
  (rh_map h =? 1) && negb (rh_W h) && negb (rh_X h) && negb (rh_B h).

Definition vex_b1 (h : rhead) : Z := 128 * nb2z (rh_R h) + 64 * nb2z (rh_X h) + 32 * nb2z (rh_B h) + rh_map h.
Definition vex_b2 (h : rhead) : Z := 128 * b2z (rh_W h) + 8 * (15 - rh_vvvv h) + 4 * rh_L h + rh_pp h.
Definition vex2_b1 (h : rhead) : Z := 128 * nb2z (rh_R h) + 8 * (15 - rh_vvvv h) + 4 * rh_L h + rh_pp h.
Definition evex_p0 (h : rhead) : Z :=
  128 * nb2z (rh_R h) + 64 * nb2z (rh_X h) + 32 * nb2z (rh_B h) + 16 * nb2z (rh_R' h) + rh_map h.
Definition evex_p1 (h : rhead) : Z := 128 * b2z (rh_W h) + 8 * (15 - rh_vvvv h) + 4 + rh_pp h.
Definition evex_p2 (h : rhead) : Z :=
  128 * b2z (rh_z h) + 32 * rh_L h + 16 * b2z (rh_b h) + 8 * nb2z (rh_V' h) + rh_aaa h.

Definition enc_lead (h : rhead) (vex3 : bool) : bytes :=
  match rh_kind h with
  | KLeg => opt (rh_rex h) (rex_byte (rh_W h) (rh_R h) (rh_X h) (rh_B h)) ++ leg_escape (rh_map h) ++ [rh_opc h]
  | KVex => if vex3 || negb (vex2_ok h) then [196; vex_b1 h; vex_b2 h; rh_opc h]
            else [197; vex2_b1 h; rh_opc h]
  | KXop => [143; vex_b1 h; vex_b2 h; rh_opc h]
  | KEvex => [98; evex_p0 h; evex_p1 h; evex_p2 h; rh_opc h]
  end.

(* ------------------------------------------------------------------ encoder: ModRM / SIB / displacement *)
Definition modrm_byte (md reg rm : Z) : Z := 64 * md + 8 * (reg mod 8) + rm mod 8.
Definition sib_byte (sc idx base : Z) : Z := 64 * sc + 8 * (idx mod 8) + base mod 8.

(* 16-bit addressing: rm code of a (base, index) pair; register ids bx=3 bp=5 si=6 di=7 *)
Definition rm16_of (base : Z) (index : option Z) : option Z :=
  match index with
  | Some i => if (base =? 3) && (i =? 6) then Some 0 else if (base =? 3) && (i =? 7) then Some 1 else
              if (base =? 5) && (i =? 6) then Some 2 else if (base =? 5) && (i =? 7) then Some 3 else None
  | None => if base =? 6 then Some 4 else if base =? 7 then Some 5 else if base =? 5 then Some 6 else
            if base =? 3 then Some 7 else None
  end.
Definition rm16_pair (rm : Z) : Z * option Z :=
  if rm =? 0 then (3, Some 6) else if rm =? 1 then (3, Some 7) else if rm =? 2 then (5, Some 6) else
  if rm =? 3 then (5, Some 7) else if rm =? 4 then (6, None) else if rm =? 5 then (7, None) else
  if rm =? 6 then (5, None) else (3, None).

Definition disp_bytes (md : Z) (n : Z) (d : Z) : bytes :=
  if md =? 0 then [] else if md =? 1 then [(d / n) mod 256] else le_bytes 4 (d mod 4294967296).
Definition disp_bytes16 (md : Z) (n : Z) (d : Z) : bytes :=
  if md =? 0 then [] else if md =? 1 then [(d / n) mod 256] else le_bytes 2 (d mod 65536).

Definition a16 (m : mode) (p : prefixes) : bool := negb (is64 m) && p_67 p.

Definition enc_mem (m : mode) (a16 : bool) (n : Z) (reg : Z) (mm : smem) (c : choices) : bytes :=
  if a16 then
    match m_base mm with
    | BReg b => match rm16_of b (m_index mm) with
                | Some rm => modrm_byte (c_mod c) reg rm :: disp_bytes16 (c_mod c) n (m_disp mm)
                | None => []
                end
    | _ => modrm_byte 0 reg 6 :: le_bytes 2 (m_disp mm mod 65536)
    end
  else
    match m_base mm with
    | BReg b =>
        let idx := match m_index mm with Some i => i | None => 4 end in
        if (match m_index mm with Some _ => true | None => false end) || (b mod 8 =? 4) || c_sib c
        then modrm_byte (c_mod c) reg 4 :: sib_byte (m_scale mm) idx b :: disp_bytes (c_mod c) n (m_disp mm)
        else modrm_byte (c_mod c) reg b :: disp_bytes (c_mod c) n (m_disp mm)
    | BNone =>
        let idx := match m_index mm with Some i => i | None => 4 end in
        if (match m_index mm with Some _ => true | None => false end) || c_sib c || is64 m
        then modrm_byte 0 reg 4 :: sib_byte (m_scale mm) idx 5 :: le_bytes 4 (m_disp mm mod 4294967296)
        else modrm_byte 0 reg 5 :: le_bytes 4 (m_disp mm mod 4294967296)
    | BRip => modrm_byte 0 reg 5 :: le_bytes 4 (m_disp mm mod 4294967296)
    end.

Definition enc_modrm (m : mode) (a16 : bool) (n : Z) (mp : modrm_part) (c : choices) : bytes :=
  match mp with
  | MNone _ _ _ _ => []
  | MReg reg rm => [modrm_byte 3 reg rm]
  | MMem reg mm => enc_mem m a16 n reg mm c
  end.

Definition senc (m : mode) (sh : shape) (s : sinst) (c : choices) : bytes :=
  enc_prefixes (s_pfx s) ++ enc_lead (rhead_of s) (c_vex3 c) ++
  enc_modrm m (a16 m (s_pfx s)) (sh_n sh) (s_modrm s) c ++ le_bytes (sh_imm sh) (s_imm s).

(* ------------------------------------------------------------------ decoder: head *)
Definition dec_legacy (p : prefixes) (rex : bool) (w r x b : bool) (bs : bytes) : option (rhead * bytes) :=
  let mk map opc rest := Some (mkRH p KLeg rex w r x b false false 0 0 0 map opc 0 false false, rest) in
  match bs with
  | [] => None
  | b0 :: r0 =>
      if b0 =? 15 then
        match r0 with
        | [] => None
        | b1 :: r1 =>
            if b1 =? 56 then match r1 with o :: r2 => mk 2 o r2 | [] => None end
            else if b1 =? 58 then match r1 with o :: r2 => mk 3 o r2 | [] => None end
            else mk 1 b1 r1
        end
      else mk 0 b0 r0
  end.

Definition no_simd_prefix (p : prefixes) : bool :=
  negb (p_lock p) && negb (p_f2 p) && negb (p_f3 p) && negb (p_66 p).

Definition dec_vex3 (p : prefixes) (k : ekind) (bs : bytes) : option (rhead * bytes) :=
  match bs with
  | b1 :: b2 :: o :: rest =>
      Some (mkRH p k false (bitb b2 128) (negb (bitb b1 128)) (negb (bitb b1 64)) (negb (bitb b1 32)) false false
                 (15 - (b2 / 8) mod 16) ((b2 / 4) mod 2) (b2 mod 4) (b1 mod 32) o 0 false false, rest)
  | _ => None
  end.

Definition dec_vex2 (p : prefixes) (bs : bytes) : option (rhead * bytes) :=
  match bs with
  | b1 :: o :: rest =>
      Some (mkRH p KVex false false (negb (bitb b1 128)) false false false false
                 (15 - (b1 / 8) mod 16) ((b1 / 4) mod 2) (b1 mod 4) 1 o 0 false false, rest)
  | _ => None
  end.

Definition dec_evex (p : prefixes) (bs : bytes) : option (rhead * bytes) :=
  match bs with
  | q0 :: q1 :: q2 :: o :: rest =>
      if bitb q0 8 || negb (bitb q1 4) then None else
      Some (mkRH p KEvex false (bitb q1 128) (negb (bitb q0 128)) (negb (bitb q0 64)) (negb (bitb q0 32))
                 (negb (bitb q0 16)) (negb (bitb q2 8))
                 (15 - (q1 / 8) mod 16) ((q2 / 32) mod 4) (q1 mod 4) (q0 mod 8) o (q2 mod 8) (bitb q2 128) (bitb q2 16), rest)
  | _ => None
  end.

Definition next_ge (bs : bytes) (v : Z) : bool := match bs with b :: _ => v <=? b | [] => false end.
Definition next_low5_ge8 (bs : bytes) : bool := match bs with b :: _ => 8 <=? b mod 32 | [] => false end.

Definition sdec_head (m : mode) (bs : bytes) : option (rhead * bytes) :=
  let (p, r1) := dec_prefixes 14 p0 bs in
  match r1 with
  | [] => None
  | b :: r2 =>
      if is64 m && (64 <=? b) && (b <? 80) then
        dec_legacy p true (bitb b 8) (bitb b 4) (bitb b 2) (bitb b 1) r2
      else if (b =? 197) && (is64 m || next_ge r2 192) then
        if no_simd_prefix p then dec_vex2 p r2 else None
      else if (b =? 196) && (is64 m || next_ge r2 192) then
        if no_simd_prefix p then dec_vex3 p KVex r2 else None
      else if (b =? 98) && (is64 m || next_ge r2 192) then
        if no_simd_prefix p then dec_evex p r2 else None
      else if (b =? 143) && next_low5_ge8 r2 then
        if no_simd_prefix p then dec_vex3 p KXop r2 else None
      else dec_legacy p false false false false false r1
  end.

(* ------------------------------------------------------------------ decoder: tail *)
Definition ext (hi : bool) (lo : Z) : Z := 8 * b2z hi + lo.
Definition ext5 (hi4 hi3 : bool) (lo : Z) : Z := 16 * b2z hi4 + 8 * b2z hi3 + lo.

Definition dec_disp (md n : Z) (bs : bytes) : option (Z * bytes) :=
  if md =? 0 then Some (0, bs)
  else if md =? 1 then match bs with b :: r => Some (sext8 b * n, r) | [] => None end
  else match le_take 4 bs with Some (v, r) => Some (sext32 v, r) | None => None end.

(* the compressed disp8*N of EVEX applies to the 16-bit addressing forms as well *)
Definition dec_disp16 (md n : Z) (bs : bytes) : option (Z * bytes) :=
  if md =? 0 then Some (0, bs)
  else if md =? 1 then match bs with b :: r => Some (sext8 b * n, r) | [] => None end
  else match le_take 2 bs with Some (v, r) => Some (sext16 v, r) | None => None end.

Definition dec_mem (m : mode) (h : rhead) (sh : shape) (md rm : Z) (bs : bytes) : option (smem * bytes) :=
  if a16 m (rh_pfx h) then
    if rh_X h || rh_B h then None else
    if (md =? 0) && (rm =? 6) then
      match le_take 2 bs with Some (v, r) => Some (mkM BNone None 0 (sext16 v), r) | None => None end
    else
      match dec_disp16 md (sh_n sh) bs with
      | Some (d, r) => let (b, i) := rm16_pair rm in Some (mkM (BReg b) i 0 d, r)
      | None => None
      end
  else if rm =? 4 then
    match bs with
    | [] => None
    | sib :: r0 =>
        let sc := sib / 64 in let ix := (sib / 8) mod 8 in let bb := sib mod 8 in
        let index := if sh_vsib sh then Some (ext (rh_X h) ix)
                     else if (ix =? 4) && negb (rh_X h) then None else Some (ext (rh_X h) ix) in
        if (bb =? 5) && (md =? 0) then
          if rh_B h then None else
          match le_take 4 r0 with Some (v, r) => Some (mkM BNone index sc (sext32 v), r) | None => None end
        else
          match dec_disp md (sh_n sh) r0 with
          | Some (d, r) => Some (mkM (BReg (ext (rh_B h) bb)) index sc d, r)
          | None => None
          end
    end
  else if (rm =? 5) && (md =? 0) then
    if rh_X h || rh_B h then None else
    match le_take 4 bs with
    | Some (v, r) => Some (mkM (if is64 m then BRip else BNone) None 0 (sext32 v), r)
    | None => None
    end
  else
    if rh_X h then None else
    match dec_disp md (sh_n sh) bs with
    | Some (d, r) => Some (mkM (BReg (ext (rh_B h) rm)) None 0 d, r)
    | None => None
    end.

Definition dec_modrm (m : mode) (h : rhead) (sh : shape) (bs : bytes) : option (modrm_part * bytes) :=
  if sh_modrm sh then
    match bs with
    | [] => None
    | mb :: r0 =>
        let md := mb / 64 in let reg := (mb / 8) mod 8 in let rm := mb mod 8 in
        let reg5 := ext5 (rh_R' h) (rh_R h) reg in
        if md =? 3 then Some (MReg reg5 (ext5 (rh_X h) (rh_B h) rm), r0)
        else match dec_mem m h sh md rm r0 with
             | Some (mm, r) => Some (MMem reg5 mm, r)
             | None => None
             end
    end
  else Some (MNone (rh_R h) (rh_X h) (rh_B h) (rh_R' h), bs).

Definition assemble (h : rhead) (mp : modrm_part) (imm : Z) : sinst :=
  mkS (rh_pfx h) (rh_kind h) (rh_rex h) (rh_W h) (rh_vvvv h) (rh_V' h) (rh_L h) (rh_pp h) (rh_map h) (rh_opc h)
      (rh_aaa h) (rh_z h) (rh_b h) mp imm.

Definition sdec_tail (m : mode) (h : rhead) (sh : shape) (bs : bytes) : option (sinst * bytes) :=
  match dec_modrm m h sh bs with
  | Some (mp, r1) =>
      match le_take (sh_imm sh) r1 with
      | Some (imm, r2) => Some (assemble h mp imm, r2)
      | None => None
      end
  | None => None
  end.

Definition sdec (m : mode) (sh : shape) (bs : bytes) : option (sinst * nat) :=
  match sdec_head m bs with
  | Some (h, r1) =>
      match sdec_tail m h sh r1 with
      | Some (s, r2) => Some (s, (length bs - length r2)%nat)
      | None => None
      end
  | None => None
  end.

(* ------------------------------------------------------------------ well-formedness of a structural instruction *)
Definition zin (lo v hi : Z) : bool := (lo <=? v) && (v <? hi).

Definition wf_pfx (p : prefixes) : bool := zin 0 (p_seg p) 7.

(* one-byte opcodes that are not opcodes: prefixes, the 0F escape, REX in 64-bit mode, VEX/EVEX/XOP lead bytes
   (C4 C5 62 are excluded in both modes; 8F is allowed when the following ModRM byte has reg mod 4 = 0, see wf_8f) *)
Definition leg_opc_ok (m : mode) (map opc : Z) : bool :=
  if map =? 0 then
    negb (is_prefix_byte opc) && negb (opc =? 15) && negb (is64 m && zin 64 opc 80) &&
    negb (opc =? 196) && negb (opc =? 197) && negb (opc =? 98)
  else if map =? 1 then negb (opc =? 56) && negb (opc =? 58)
  else true.

Definition wf_8f (s : sinst) : bool :=
  match s_kind s with
  | KLeg => if (s_map s =? 0) && (s_opc s =? 143) then
              match s_modrm s with MNone _ _ _ _ => false | MReg reg _ => reg mod 4 =? 0 | MMem reg _ => reg mod 4 =? 0 end
            else true
  | _ => true
  end.

Definition wf_mem (m : mode) (a16 vsib : bool) (lim : Z) (mm : smem) : bool :=
  if a16 then
    zin (-32768) (m_disp mm) 32768 && (m_scale mm =? 0) &&
    match m_base mm with
    | BReg b => match rm16_of b (m_index mm) with Some _ => true | None => false end
    | BNone => match m_index mm with None => true | Some _ => false end
    | BRip => false
    end
  else
    zin (-2147483648) (m_disp mm) 2147483648 && zin 0 (m_scale mm) 4 &&
    match m_index mm with
    | Some i => zin 0 i lim && (vsib || negb (i =? 4))
    | None => negb vsib && (m_scale mm =? 0)
    end &&
    match m_base mm with
    | BReg b => zin 0 b lim
    | BNone => true
    | BRip => is64 m && match m_index mm with None => true | Some _ => false end && (m_scale mm =? 0)
    end.

Definition wf_modrm (m : mode) (a16 : bool) (sh : shape) (lim limx : Z) (ext_ok : bool) (mp : modrm_part) : bool :=
  match mp with
  | MNone r x b r' => negb (sh_modrm sh) && (ext_ok || (negb r && negb x && negb b)) && ((16 <? limx) || negb r')
  | MReg reg rm => sh_modrm sh && zin 0 reg limx && zin 0 rm limx
  | MMem reg mm => sh_modrm sh && zin 0 reg limx && wf_mem m a16 (sh_vsib sh) lim mm
  end.

Definition wf (m : mode) (sh : shape) (s : sinst) : bool :=
  wf_pfx (s_pfx s) && zin 0 (s_opc s) 256 && zin 0 (s_imm s) (256 ^ Z.of_nat (sh_imm sh)) && (0 <? sh_n sh) &&
  wf_8f s &&
  match s_kind s with
  | KLeg =>
      zin 0 (s_map s) 4 && leg_opc_ok m (s_map s) (s_opc s) &&
      (s_vvvv s =? 0) && negb (s_V' s) && (s_L s =? 0) && (s_pp s =? 0) && (s_aaa s =? 0) && negb (s_z s) && negb (s_b s) &&
      (is64 m || negb (s_rex s)) && (s_rex s || negb (s_W s)) &&
      wf_modrm m (a16 m (s_pfx s)) sh (if s_rex s then 16 else 8) (if s_rex s then 16 else 8) (s_rex s) (s_modrm s)
  | KVex | KXop =>
      negb (s_rex s) && no_simd_prefix (s_pfx s) &&
      zin (match s_kind s with KXop => 8 | _ => 0 end) (s_map s) 32 &&
      zin 0 (s_vvvv s) (if is64 m then 16 else 8) && negb (s_V' s) && zin 0 (s_L s) 2 && zin 0 (s_pp s) 4 &&
      (s_aaa s =? 0) && negb (s_z s) && negb (s_b s) &&
      wf_modrm m (a16 m (s_pfx s)) sh (if is64 m then 16 else 8) (if is64 m then 16 else 8) (is64 m) (s_modrm s)
  | KEvex =>
      negb (s_rex s) && no_simd_prefix (s_pfx s) && zin 0 (s_map s) 8 &&
      zin 0 (s_vvvv s) (if is64 m then 16 else 8) && (is64 m || negb (s_V' s)) && zin 0 (s_L s) 4 && zin 0 (s_pp s) 4 &&
      zin 0 (s_aaa s) 8 &&
      wf_modrm m (a16 m (s_pfx s)) sh (if is64 m then 16 else 8) (if is64 m then 32 else 8) (is64 m) (s_modrm s)
  end.

(* admissible choices: which ModRM.mod an addressing form may use (the encoder's freedom) *)
Definition adm_mem (a16 : bool) (n : Z) (mm : smem) (c : choices) : bool :=
  match m_base mm with
  | BReg b =>
      if c_mod c =? 0 then (m_disp mm =? 0) && negb (if a16 then (b =? 5) && (match m_index mm with None => true | _ => false end)
                                                        else b mod 8 =? 5)
      else if c_mod c =? 1 then (m_disp mm mod n =? 0) && zin (-128) (m_disp mm / n) 128
      else c_mod c =? 2
  | _ => c_mod c =? 0
  end.

Definition adm (m : mode) (sh : shape) (s : sinst) (c : choices) : bool :=
  match s_modrm s with
  | MMem _ mm => adm_mem (a16 m (s_pfx s)) (sh_n sh) mm c
  | _ => true
  end.

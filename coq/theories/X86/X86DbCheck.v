(* C01 -- executable well-formedness checks of ISA database rows (run by vm_compute over the generated IsaX86Db.v). *)
From Coq Require Import ZArith List Bool.
From Verif Require Import X86.X86Model X86.X86Denote.
Import ListNotations.
Local Open Scope Z_scope.

Definition count_slot (r : row) (sl : Z) : nat := length (filter (fun o => o_slot o =? sl) (r_ops r)).
Definition at_most_one (r : row) (sl : Z) : bool := Nat.leb (count_slot r sl) 1.

Definition opspec_wf (r : row) (o : opspec) : bool :=
  zin 0 (o_kind o) 4 && zin 0 (o_slot o) 14 && zin 0 (o_cls o) 17 &&
  (* encoded register slots carry a register class; fixed operands are not encoded *)
  (if (o_slot o =? 1) || (o_slot o =? 3) || (o_slot o =? 4) || (o_slot o =? 5) then (o_kind o =? 0) && (0 <? o_cls o) && (o_fixed o =? -1) else true) &&
  (if o_slot o =? 2 then zin 0 (o_kind o) 3 && (o_fixed o =? -1) && ((o_kind o =? 1) || (0 <? o_cls o)) else true) &&
  (if (o_slot o =? 6) || (o_slot o =? 7) then o_kind o =? 3 else true) &&
  (if o_slot o =? 6 then (0 <? o_immsz o) && (0 <=? o_immoff o) && (o_immoff o + o_immsz o <=? r_imm r) else true) &&
  (if o_slot o =? 0 then (if o_kind o =? 3 then 0 <=? o_immval o else (o_kind o =? 0) && (0 <=? o_fixed o) && (0 <? o_cls o)) else true) &&
  (* ModRM slots need a ModRM byte, opcode+r excludes it *)
  (if (o_slot o =? 1) || (o_slot o =? 2) then r_modrm r else true) &&
  (if o_slot o =? 5 then r_ri r && negb (r_modrm r) else true) &&
  (if (o_slot o =? 4) || (o_slot o =? 7) then 1 <=? r_imm r else true) &&
  (if o_slot o =? 3 then negb (r_kind r =? 0) else true) &&
  (if o_slot o =? 8 then (o_kind o =? 1) && r_moffs r && negb (r_modrm r) else true) &&
  (if o_slot o =? 10 then (o_kind o =? 3) && ((o_immsz o =? 1) || (o_immsz o =? 2) || (o_immsz o =? 4)) && (0 <=? o_immoff o) && (o_immoff o + o_immsz o <=? r_imm r) else true) &&
  (if o_slot o =? 13 then r_modrm r && (o_kind o =? 1) && (r_mod r =? 1) else true) &&
  (if (o_slot o =? 11) || (o_slot o =? 12) then r_modrm r && (if o_slot o =? 11 then o_kind o =? 1 else (o_kind o =? 0) && (0 <? o_cls o)) else true) &&
  (if o_slot o =? 9 then (o_kind o =? 1) && zin 0 (o_fixed o) 8 && zin 0 (o_immval o) 2 else true).

Definition row_wf (r : row) : bool :=
  zin 0 (r_arch r) 3 && zin 0 (r_kind r) 4 && zin 0 (r_opc r) 256 &&
  (if r_kind r =? 0 then zin 0 (r_map r) 4 && zin 0 (r_pp r) 6 && zin 0 (r_w r) 2 && (r_l r =? 0)
   else if r_kind r =? 2 then zin 8 (r_map r) 11 && zin 0 (r_pp r) 4 && zin 0 (r_w r) 3 && zin 0 (r_l r) 4 && negb (r_o16 r)
   else zin 1 (r_map r) 8 && zin 0 (r_pp r) 4 && zin 0 (r_w r) 3 && zin 0 (r_l r) 4 && negb (r_o16 r)) &&
  (if r_kind r =? 3 then true else negb (r_k r) && negb (r_z r) && negb (r_er r) && negb (r_sae r) && (r_bcst r =? 0) && (r_tt r =? 0)) &&
  (if r_ri r then r_opc r mod 8 =? 0 else true) &&
  zin 0 (r_mod r) 3 && zin (-1) (r_digit r) 8 && zin (-1) (r_rmfix r) 8 && zin 0 (r_imm r) 9 && zin 0 (r_tt r) 17 &&
  (if (0 <=? r_digit r) || (0 <=? r_rmfix r) || negb (r_mod r =? 0) then r_modrm r else true) &&
  (if 0 <=? r_digit r then negb (has_slot r 1) else true) &&
  (if 0 <=? r_rmfix r then negb (has_slot r 2) && (r_mod r =? 1) else true) &&
  ((r_vsib r =? 0) || (zin 6 (r_vsib r) 9 && has_slot r 2)) &&
  (if r_z r then r_k r else true) && zin (-1) (r_suffix r) 256 && (if 0 <=? r_suffix r then (r_imm r =? 1) && (r_kind r =? 0) else true) && (if r_moffs r then (r_imm r =? 0) && (r_kind r =? 0) else true) &&
  at_most_one r 1 && at_most_one r 2 && at_most_one r 3 && at_most_one r 4 && at_most_one r 5 && at_most_one r 7 &&
  forallb (opspec_wf r) (r_ops r).

Definition bucket_row_ok (o : Z) (r : row) : bool :=
  if r_ri r then r_opc r / 8 =? o / 8 else r_opc r =? o.

(* the judge looks a denotation's row up again by id (row_of): the row found must read names and decorations like the bucket's row *)
Definition row_same_reading (r r' : row) : bool :=
  (r_name r =? r_name r') && (r_kind r =? r_kind r') && (r_pp r =? r_pp r') && Bool.eqb (r_er r) (r_er r') &&
  Bool.eqb (has_mem_operand r) (has_mem_operand r').

Definition bucket_row_of_ok (row_of : Z -> option row) (rs : list row) : bool :=
  forallb (fun r => match row_of (r_id r) with Some r' => row_same_reading r r' | None => false end) rs.

Fixpoint zrange (n : nat) : list Z := match n with O => [] | S k => zrange k ++ [Z.of_nat k] end.
Definition zrange256 : list Z := zrange 256.

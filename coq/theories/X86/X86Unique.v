(* C01 -- uniqueness of denotations up to the mnemonic: two database rows that both accept the same bytes must "overlap"
   syntactically (`may_overlap`, a decidable relation on rows), and the generated database is checked by reflection to have no
   overlapping rows with different mnemonics except a reviewed alias list.  Model part (no proofs): *)
From Coq Require Import ZArith List Bool.
From Verif Require Import X86.X86Model X86.X86Denote.
Import ListNotations.
Local Open Scope Z_scope.

(* what every row sees of the ModRM byte, whatever its shape: ModRM.reg (with R' R), mod = 11, ModRM.rm (with X B) *)
Definition modrm_key (h : rhead) (rest : bytes) : option (Z * bool * Z) :=
  match rest with
  | mb :: _ => Some (ext5 (rh_R' h) (rh_R h) ((mb / 8) mod 8), mb / 64 =? 3, ext5 (rh_X h) (rh_B h) (mb mod 8))
  | [] => None
  end.

(* kind of the operand in the ModRM.rm slot: Some 0 register only, Some 1 memory only, Some 2 either, None no such operand *)
Definition rm_operand_kind (r : row) : option Z :=
  match find (fun o => o_slot o =? 2) (r_ops r) with Some o => Some (o_kind o) | None => None end.

Definition vex_l_ok (r : row) (h : rhead) : bool :=
  if (r_kind r =? 1) || (r_kind r =? 2) then (r_l r =? 3) || (r_l r =? rh_L h) else true.

(* the constraints of a row that depend only on the mode, the decoded head and the ModRM key -- all rows see the same *)
Definition row_compat (m : mode) (h : rhead) (k : option (Z * bool * Z)) (r : row) : bool :=
  head_ok m r h && vex_l_ok r h &&
  (if r_modrm r then
     match k with
     | Some (reg, isreg, rm) =>
         (if 0 <=? r_digit r then reg =? r_digit r else true) &&
         (if 0 <=? r_rmfix r then isreg && (rm =? r_rmfix r) else true) &&
         (if r_mod r =? 1 then isreg else if r_mod r =? 2 then negb isreg else true) &&
         (match rm_operand_kind r with Some kd => if kd =? 1 then negb isreg else if kd =? 0 then isreg else true | None => true end)
     | None => false
     end
   else true).

(* the F2 / F3 part of leg_pp_ok as a function of the two prefix bits *)
Definition f23_ok (r : row) (f2 f3 : bool) : bool :=
  (if r_pp r =? 1 then negb f2 && negb f3 else if r_pp r =? 3 then f3 else if (r_pp r =? 4) || (r_pp r =? 5) then f2 else true) &&
  (r_f23 r || (implb f2 ((r_pp r =? 4) || (r_pp r =? 5)) && implb f3 (r_pp r =? 3))).
Definition want66 (r : row) : bool := (r_pp r =? 2) || (r_pp r =? 5) || r_o16 r.

(* which ModRM forms a row admits: 0 both, 1 register form only, 2 memory form only, 3 none *)
Definition rm_form (r : row) : Z :=
  let a := if r_mod r =? 1 then 1 else if r_mod r =? 2 then 2 else 0 in
  let b := if 0 <=? r_rmfix r then 1 else 0 in
  let c := match rm_operand_kind r with Some kd => if kd =? 1 then 2 else if kd =? 0 then 1 else 0 | None => 0 end in
  let join x y := if x =? 0 then y else if y =? 0 then x else if x =? y then x else 3 in
  join (join a b) c.

(* rows whose tail has the same static shape are decoded to the same structural instruction *)
Definition same_static_shape (r1 r2 : row) : bool :=
  negb (r_kind r1 =? 3) && negb (r_kind r2 =? 3) && Bool.eqb (r_modrm r1) (r_modrm r2) &&
  Bool.eqb (r_vsib r1 =? 0) (r_vsib r2 =? 0) && negb (r_moffs r1) && negb (r_moffs r2) && (r_imm r1 =? r_imm r2).

Definition core_overlap (r1 r2 : row) : bool :=
  negb ((r_arch r1 =? 1) && (r_arch r2 =? 2)) && negb ((r_arch r1 =? 2) && (r_arch r2 =? 1)) &&
  (r_kind r1 =? r_kind r2) && (r_map r1 =? r_map r2) &&
  (if r_ri r1 || r_ri r2 then r_opc r1 / 8 =? r_opc r2 / 8 else r_opc r1 =? r_opc r2) &&
  (if r_kind r1 =? 0 then
     Bool.eqb (want66 r1) (want66 r2) && Bool.eqb (r_w r1 =? 1) (r_w r2 =? 1) &&
     existsb (fun p => f23_ok r1 (fst p) (snd p) && f23_ok r2 (fst p) (snd p)) [(false, false); (false, true); (true, false); (true, true)]
   else
     (r_pp r1 =? r_pp r2) && ((r_w r1 =? 2) || (r_w r2 =? 2) || Bool.eqb (r_w r1 =? 1) (r_w r2 =? 1)) &&
     (if (r_kind r1 =? 3) then true else (r_l r1 =? 3) || (r_l r2 =? 3) || (r_l r1 =? r_l r2))) &&
  (if r_modrm r1 && r_modrm r2 then
     ((r_digit r1 <? 0) || (r_digit r2 <? 0) || (r_digit r1 =? r_digit r2)) &&
     ((r_rmfix r1 <? 0) || (r_rmfix r2 <? 0) || (r_rmfix r1 =? r_rmfix r2)) &&
     negb (rm_form r1 =? 3) && negb (rm_form r2 =? 3) &&
     ((rm_form r1 =? 0) || (rm_form r2 =? 0) || (rm_form r1 =? rm_form r2))
   else true).

Definition may_overlap (r1 r2 : row) : bool :=
  core_overlap r1 r2 &&
  (* 3DNow!: the trailing opcode byte is the same decoded byte for both rows *)
  (negb (same_static_shape r1 r2) || (r_suffix r1 <? 0) || (r_suffix r2 <? 0) || (r_suffix r1 =? r_suffix r2)).

Definition alias_ok (aliases : list (Z * Z)) (a b : Z) : bool :=
  (a =? b) || existsb (fun p => ((fst p =? a) && (snd p =? b)) || ((fst p =? b) && (snd p =? a))) aliases.

(* the reflection obligation over a database: overlapping rows of one opcode bucket name the same mnemonic or reviewed aliases *)
Definition bucket_unique (aliases : list (Z * Z)) (rows : list row) : bool :=
  forallb (fun r1 => forallb (fun r2 => negb (may_overlap r1 r2) || alias_ok aliases (r_name r1) (r_name r2)) rows) rows.

(* ------------------------------------------------------------------ round 4: a sharper overlap relation, per vector length and 67 prefix
   Two rows that both yield a denotation of the same bytes also agree on the EVEX vector length (unless a length is ignored, or -- with
   EVEX.b in the register form -- both are 512-bit / LIG forms with embedded rounding) and, when neither has a memory operand, on the
   address-size prefix they require.  With these two conditions the same-mnemonic overlapping rows of the database have equal operand
   specifications, up to a short reviewed list (bucket_same_ops). *)
Definition key_isreg (k : option (Z * bool * Z)) : bool := match k with Some (_, b, _) => b | None => false end.

Definition row_compat2 (h : rhead) (k : option (Z * bool * Z)) (r : row) : bool :=
  (if r_kind r =? 3 then
     (if rh_b h && (key_isreg k && r_modrm r) then (r_l r =? 2) || (r_l r =? 3) else (r_l r =? 3) || (r_l r =? rh_L h))
   else true) &&
  (has_mem_operand r || Bool.eqb (p_67 (rh_pfx h)) (r_a67 r)).

Definition extra_overlap (r1 r2 : row) : bool :=
  (negb (r_kind r1 =? 3) || negb (r_kind r2 =? 3) || negb (Bool.eqb (r_modrm r1) (r_modrm r2)) ||
   (r_l r1 =? 3) || (r_l r2 =? 3) || (r_l r1 =? r_l r2)) &&
  (has_mem_operand r1 || has_mem_operand r2 || Bool.eqb (r_a67 r1) (r_a67 r2)).

(* equality of what a row says about its operands (everything of an opspec that the inverse operand map and the matcher read) *)
Definition opspec_eqb (a b : opspec) : bool :=
  (o_kind a =? o_kind b) && (o_cls a =? o_cls b) && (o_fixed a =? o_fixed b) && (o_slot a =? o_slot b) && (o_msz a =? o_msz b) &&
  (o_immoff a =? o_immoff b) && (o_immsz a =? o_immsz b) && (o_immval a =? o_immval b) && Bool.eqb (o_signed a) (o_signed b) &&
  Bool.eqb (o_implicit a) (o_implicit b).
Fixpoint ops_eqb (a b : list opspec) : bool :=
  match a, b with
  | [], [] => true
  | x :: a', y :: b' => opspec_eqb x y && ops_eqb a' b'
  | _, _ => false
  end.

(* the reflection obligation: rows of one bucket with the SAME mnemonic that may overlap (both relations) have equal operand
   specifications, unless the mnemonic is on the reviewed list (true second readings: implied st(1), commutative xchg, ...) *)
Definition bucket_same_ops (exceptions : list Z) (rows : list row) : bool :=
  forallb (fun r1 => forallb (fun r2 =>
     negb (r_name r1 =? r_name r2) || negb (may_overlap r1 r2 && extra_overlap r1 r2) ||
     existsb (Z.eqb (r_name r1)) exceptions || ops_eqb (r_ops r1) (r_ops r2)) rows) rows.

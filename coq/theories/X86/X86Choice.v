(* C01 -- a piece of AsmJit's emitter inside the model: the choice of the ModRM.mod field for a memory operand with a base register
   (x86assembler.cpp, EmitModSib: no displacement when it is 0 and the base is not [e/r]bp / r13 (16-bit: not [bp] alone), else the
   compressed disp8 when the displacement is a multiple of N that fits, else disp32 / disp16).  `aj_mod` is written after the source;
   it is proved to be an ADMISSIBLE choice of the structural encoder (so C01_sdec_senc applies to what AsmJit chooses) and the
   SHORTEST admissible one; the check compares it with the mod field AsmJit actually emitted on every accepted call (`mod_check`). *)
From Coq Require Import ZArith List Bool Lia.
From Verif Require Import X86.X86Model X86.X86Proofs X86.X86Denote.
Import ListNotations.
Local Open Scope Z_scope.

Definition aj_mod (a16 : bool) (n : Z) (mm : smem) : Z :=
  match m_base mm with
  | BReg b =>
      let bp := if a16 then (b =? 5) && (match m_index mm with None => true | _ => false end) else b mod 8 =? 5 in
      if (m_disp mm =? 0) && negb bp then 0
      else if (m_disp mm mod n =? 0) && zin (-128) (m_disp mm / n) 128 then 1 else 2
  | _ => 0
  end.

Theorem aj_mod_adm : forall a16 n mm v3 sib, adm_mem a16 n mm (mkC v3 (aj_mod a16 n mm) sib) = true.
Proof.
  intros a16 n mm v3 sib. unfold adm_mem, aj_mod. cbn [c_mod]. destruct (m_base mm) as [|b|]; try reflexivity.
  set (bp := if a16 then (b =? 5) && match m_index mm with Some _ => false | None => true end else b mod 8 =? 5).
  destruct (m_disp mm =? 0) eqn:Ed; destruct bp eqn:Eb; cbn [andb negb];
    destruct ((m_disp mm mod n =? 0) && zin (-128) (m_disp mm / n) 128) eqn:E1; cbn; try reflexivity; try (rewrite Ed; reflexivity).
Qed.

Theorem aj_mod_minimal : forall a16 n mm c, adm_mem a16 n mm c = true -> 0 <= c_mod c -> aj_mod a16 n mm <= c_mod c.
Proof.
  intros a16 n mm c H Hc. unfold adm_mem in H. unfold aj_mod. destruct (m_base mm) as [|b|]; try exact Hc.
  destruct (c_mod c =? 0) eqn:E0.
  - apply Z.eqb_eq in E0. rewrite H. lia.
  - destruct (c_mod c =? 1) eqn:E1.
    + apply Z.eqb_eq in E1. rewrite H.
      destruct ((m_disp mm =? 0) && negb (if a16 then (b =? 5) && match m_index mm with Some _ => false | None => true end else b mod 8 =? 5)); lia.
    + apply Z.eqb_eq in H.
      destruct ((m_disp mm =? 0) && negb (if a16 then (b =? 5) && match m_index mm with Some _ => false | None => true end else b mod 8 =? 5));
        [lia|]. destruct ((m_disp mm mod n =? 0) && zin (-128) (m_disp mm / n) 128); lia.
Qed.

(* the mod field the bytes carry against `aj_mod` of the memory operand they decode to, for every row that reads the bytes:
   (row id, agrees?) -- evaluated by the extracted model on AsmJit's bytes *)
Definition mod_check (bucket : Z -> list row) (m : mode) (bs : bytes) : list (Z * bool) :=
  match sdec_head m bs with
  | Some (h, rest) =>
      flat_map (fun r =>
        if head_ok m r h then
          match sdec_tail m h (shape_of_row m r h) rest with
          | Some (s, _) =>
              if tail_ok m r s then
                match s_modrm s, rest with
                | MMem _ mm, mb :: _ =>
                    match m_base mm with
                    | BReg _ => [(r_id r, mb / 64 =? aj_mod (a16 m (s_pfx s)) (sh_n (shape_of_row m r h)) mm)]
                    | _ => []
                    end
                | _, _ => []
                end
              else []
          | None => []
          end
        else []) (bucket (rh_opc h))
  | None => []
  end.

(* non-vacuity: [rbp] takes a disp8 of 0, [rax] none; with N = 64 the displacement 8128 = 127 * 64 is compressed, 8192 = 128 * 64 and 65 are not *)
Example aj_mod_examples :
  aj_mod false 1 (mkM (BReg 5) None 0 0) = 1 /\ aj_mod false 1 (mkM (BReg 13) None 0 0) = 1 /\ aj_mod false 1 (mkM (BReg 0) None 0 0) = 0 /\
  aj_mod false 64 (mkM (BReg 0) None 0 8128) = 1 /\ aj_mod false 64 (mkM (BReg 0) None 0 8192) = 2 /\ aj_mod false 64 (mkM (BReg 0) None 0 65) = 2 /\
  aj_mod true 1 (mkM (BReg 5) None 0 0) = 1 /\ aj_mod true 1 (mkM (BReg 5) (Some 6) 0 0) = 0.
Proof. repeat split; reflexivity. Qed.

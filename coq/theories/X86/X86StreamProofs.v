(* C01 round 7 -- the sequence-level lift of the round trip: a BUFFER of instructions.
   `senc_stream` concatenates the structural encodings of a list of instructions (each with its shape, its encoder choices and its own
   order of prefix bytes); `sdec_stream` decodes a byte string instruction by instruction, given the shapes.  For every list of
   well-formed instructions under admissible choices and admissible prefix orders, decoding the concatenation (followed by any bytes)
   gives back exactly the list, instruction boundaries included (the lengths), and leaves exactly the trailing bytes -- no instruction of
   the buffer is misread because of its neighbours. *)
From Coq Require Import ZArith List Bool Lia.
From Verif Require Import X86.X86Model X86.X86Proofs X86.X86PrefixOrder.
Import ListNotations.
Local Open Scope Z_scope.

Record item := mkI { i_sh : shape; i_s : sinst; i_c : choices; i_ps : bytes }.

Definition item_ok (m : mode) (i : item) : bool :=
  wf m (i_sh i) (i_s i) && adm m (i_sh i) (i_s i) (i_c i) && prefix_order_ok (i_ps i) (s_pfx (i_s i)).

Definition senc_item (m : mode) (i : item) : bytes := senc_ord (i_ps i) m (i_sh i) (i_s i) (i_c i).

Fixpoint senc_stream (m : mode) (l : list item) : bytes :=
  match l with [] => [] | i :: l' => senc_item m i ++ senc_stream m l' end.

(* decode one instruction per shape; returns the instructions with their lengths and the bytes left over *)
Fixpoint sdec_stream (m : mode) (shs : list shape) (bs : bytes) : option (list (sinst * nat) * bytes) :=
  match shs with
  | [] => Some ([], bs)
  | sh :: shs' =>
      match sdec m sh bs with
      | Some (s, len) =>
          match sdec_stream m shs' (skipn len bs) with
          | Some (l, rest) => Some ((s, len) :: l, rest)
          | None => None
          end
      | None => None
      end
  end.

Theorem sdec_senc_stream : forall m l rest, forallb (item_ok m) l = true ->
  sdec_stream m (map i_sh l) (senc_stream m l ++ rest) =
  Some (map (fun i => (i_s i, length (senc_item m i))) l, rest).
Proof.
  intros m l. induction l as [|i l IH]; intros rest H.
  - reflexivity.
  - cbn [forallb] in H. apply andb_prop in H. destruct H as [Hi Hl].
    unfold item_ok in Hi. apply andb_prop in Hi. destruct Hi as [Hi Ho]. apply andb_prop in Hi. destruct Hi as [Hw Ha].
    cbn [map senc_stream sdec_stream]. rewrite <- app_assoc.
    pose proof (sdec_senc_ord (i_ps i) m (i_sh i) (i_s i) (i_c i) (senc_stream m l ++ rest) Hw Ha Ho) as D.
    change (senc_ord (i_ps i) m (i_sh i) (i_s i) (i_c i)) with (senc_item m i) in D. rewrite D.
    assert (Hs : skipn (length (senc_item m i)) (senc_item m i ++ senc_stream m l ++ rest) = senc_stream m l ++ rest).
    { rewrite skipn_app, Nat.sub_diag, skipn_all. reflexivity. }
    rewrite Hs. rewrite (IH rest Hl). reflexivity.
Qed.

(* the total length is the sum of the instruction lengths: the next instruction starts exactly where the previous one ends *)
Corollary senc_stream_length : forall m l, length (senc_stream m l) = fold_right (fun i n => (length (senc_item m i) + n)%nat) 0%nat l.
Proof. intros m l. induction l as [|i l IH]; cbn; [reflexivity | rewrite app_length, IH; reflexivity]. Qed.

(* non-vacuity: a buffer of three instructions in 32-bit mode --
   lock add word ptr fs:[bx], ax in AsmJit's prefix order (F0 64 67 66 01 07), mov ecx,[eax] (8B 08), mov ecx,[eax] with SIB and disp32 --
   followed by a stray byte decodes to the three instructions with lengths 6, 2, 7 and leaves the stray byte *)
Example stream_example :
  let sh := mkSh true false 0 1 in
  let s1 := mkS (mkP true false false true true 5) KLeg false false 0 false 0 0 0 1 0 false false (MMem 0 (mkM (BReg 3) None 0 0)) 0 in
  let s2 := mkS (mkP false false false false false 0) KLeg false false 0 false 0 0 0 139 0 false false (MMem 1 (mkM (BReg 0) None 0 0)) 0 in
  let l := [mkI sh s1 (mkC false 0 false) [240; 100; 103; 102]; mkI sh s2 (mkC false 0 false) []; mkI sh s2 (mkC false 2 true) []] in
  forallb (item_ok M32) l = true /\
  senc_stream M32 l = [240; 100; 103; 102; 1; 7; 139; 8; 139; 140; 32; 0; 0; 0; 0] /\
  sdec_stream M32 [sh; sh; sh] (senc_stream M32 l ++ [144]) = Some ([(s1, 6%nat); (s2, 2%nat); (s2, 7%nat)], [144]).
Proof. vm_compute. repeat split; reflexivity. Qed.

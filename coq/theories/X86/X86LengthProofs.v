(* C01 -- the decoders consume what they say: every decoder of X86Model.v returns a SUFFIX of its input, the head decoder a proper
   one (at least the opcode byte).  Hence the length of every denotation lies between 1 and the number of bytes given, and a wait
   reading (FWAIT + a wait row on the rest) is at least two bytes long -- never as short as the one-byte FWAIT reading. *)
From Coq Require Import ZArith List Bool Lia.
From Verif Require Import X86.X86Model X86.X86Proofs X86.X86Denote X86.X86DenoteProofs.
Import ListNotations.
Local Open Scope Z_scope.

Lemma le_take_len : forall n bs v r, le_take n bs = Some (v, r) -> length bs = (n + length r)%nat.
Proof.
  induction n as [|n IH]; intros bs v r H; cbn in H.
  - inversion H; subst. reflexivity.
  - destruct bs as [|b t]; [discriminate|]. destruct (le_take n t) as [[v' r']|] eqn:E; [|discriminate].
    inversion H; subst. cbn [length]. rewrite (IH _ _ _ E). lia.
Qed.

Lemma dec_prefixes_len : forall f p bs p' r, dec_prefixes f p bs = (p', r) -> (length r <= length bs)%nat.
Proof.
  induction f as [|f IH]; intros p bs p' r H; cbn in H.
  - inversion H; subst. lia.
  - destruct bs as [|b t]; [inversion H; subst; lia|].
    destruct (is_prefix_byte b).
    + apply IH in H. cbn [length]. lia.
    + inversion H; subst. lia.
Qed.

Lemma dec_legacy_len p rex w r x b bs h rest : dec_legacy p rex w r x b bs = Some (h, rest) -> (length rest < length bs)%nat.
Proof.
  unfold dec_legacy. destruct bs as [|b0 r0]; [discriminate|].
  destruct (b0 =? 15).
  - destruct r0 as [|b1 r1]; [discriminate|].
    destruct (b1 =? 56); [destruct r1; [discriminate|]; intros H; inversion H; subst; cbn [length]; lia|].
    destruct (b1 =? 58); [destruct r1; [discriminate|]; intros H; inversion H; subst; cbn [length]; lia|].
    intros H; inversion H; subst; cbn [length]; lia.
  - intros H; inversion H; subst; cbn [length]; lia.
Qed.

Lemma dec_vex3_len p k bs h rest : dec_vex3 p k bs = Some (h, rest) -> (length rest < length bs)%nat.
Proof. unfold dec_vex3. destruct bs as [|a [|b [|c t]]]; try discriminate. intros H; inversion H; subst; cbn [length]; lia. Qed.
Lemma dec_vex2_len p bs h rest : dec_vex2 p bs = Some (h, rest) -> (length rest < length bs)%nat.
Proof. unfold dec_vex2. destruct bs as [|a [|b t]]; try discriminate. intros H; inversion H; subst; cbn [length]; lia. Qed.
Lemma dec_evex_len p bs h rest : dec_evex p bs = Some (h, rest) -> (length rest < length bs)%nat.
Proof.
  unfold dec_evex. destruct bs as [|a [|b [|c [|d t]]]]; try discriminate.
  destruct (bitb a 8 || negb (bitb b 4)); [discriminate|]. intros H; inversion H; subst; cbn [length]; lia.
Qed.

(* the head decoder consumes at least one byte *)
Theorem sdec_head_len m bs h rest : sdec_head m bs = Some (h, rest) -> (length rest < length bs)%nat.
Proof.
  unfold sdec_head. destruct (dec_prefixes 14 p0 bs) as [p r1] eqn:Ep. pose proof (dec_prefixes_len _ _ _ _ _ Ep) as Hp.
  destruct r1 as [|b r2]; [discriminate|]. cbn [length] in Hp.
  destruct (is64 m && (64 <=? b) && (b <? 80)).
  { intros H. apply dec_legacy_len in H. lia. }
  destruct ((b =? 197) && (is64 m || next_ge r2 192)).
  { destruct (no_simd_prefix p); [|discriminate]. intros H. apply dec_vex2_len in H. lia. }
  destruct ((b =? 196) && (is64 m || next_ge r2 192)).
  { destruct (no_simd_prefix p); [|discriminate]. intros H. apply dec_vex3_len in H. lia. }
  destruct ((b =? 98) && (is64 m || next_ge r2 192)).
  { destruct (no_simd_prefix p); [|discriminate]. intros H. apply dec_evex_len in H. lia. }
  destruct ((b =? 143) && next_low5_ge8 r2).
  { destruct (no_simd_prefix p); [|discriminate]. intros H. apply dec_vex3_len in H. lia. }
  intros H. apply dec_legacy_len in H. cbn [length] in H. lia.
Qed.

Lemma dec_disp_len md n bs d r : dec_disp md n bs = Some (d, r) -> (length r <= length bs)%nat.
Proof.
  unfold dec_disp. destruct (md =? 0); [intros H; inversion H; subst; lia|].
  destruct (md =? 1); [destruct bs; [discriminate|]; intros H; inversion H; subst; cbn [length]; lia|].
  destruct (le_take 4 bs) as [[v r']|] eqn:E; [|discriminate]. intros H; inversion H; subst. rewrite (le_take_len _ _ _ _ E). lia.
Qed.
Lemma dec_disp16_len md n bs d r : dec_disp16 md n bs = Some (d, r) -> (length r <= length bs)%nat.
Proof.
  unfold dec_disp16. destruct (md =? 0); [intros H; inversion H; subst; lia|].
  destruct (md =? 1); [destruct bs; [discriminate|]; intros H; inversion H; subst; cbn [length]; lia|].
  destruct (le_take 2 bs) as [[v r']|] eqn:E; [|discriminate]. intros H; inversion H; subst. rewrite (le_take_len _ _ _ _ E). lia.
Qed.

Lemma dec_mem_len m h sh md rm bs mm r : dec_mem m h sh md rm bs = Some (mm, r) -> (length r <= length bs)%nat.
Proof.
  unfold dec_mem. destruct (a16 m (rh_pfx h)).
  - destruct (rh_X h || rh_B h); [discriminate|].
    destruct ((md =? 0) && (rm =? 6)).
    + destruct (le_take 2 bs) as [[v r']|] eqn:E; [|discriminate]. intros H; inversion H; subst. rewrite (le_take_len _ _ _ _ E). lia.
    + destruct (dec_disp16 md (sh_n sh) bs) as [[d r']|] eqn:E; [|discriminate]. destruct (rm16_pair rm).
      intros H; inversion H; subst. eapply dec_disp16_len; eauto.
  - destruct (rm =? 4).
    + destruct bs as [|sib r0]; [discriminate|].
      destruct ((sib mod 8 =? 5) && (md =? 0)).
      * destruct (rh_B h); [discriminate|].
        destruct (le_take 4 r0) as [[v r']|] eqn:E; [|discriminate]. intros H; inversion H; subst.
        cbn [length]. rewrite (le_take_len _ _ _ _ E). lia.
      * destruct (dec_disp md (sh_n sh) r0) as [[d r']|] eqn:E; [|discriminate]. intros H; inversion H; subst.
        apply dec_disp_len in E. cbn [length]. lia.
    + destruct ((rm =? 5) && (md =? 0)).
      * destruct (rh_X h || rh_B h); [discriminate|].
        destruct (le_take 4 bs) as [[v r']|] eqn:E; [|discriminate]. intros H; inversion H; subst. rewrite (le_take_len _ _ _ _ E). lia.
      * destruct (rh_X h); [discriminate|].
        destruct (dec_disp md (sh_n sh) bs) as [[d r']|] eqn:E; [|discriminate]. intros H; inversion H; subst. eapply dec_disp_len; eauto.
Qed.

Lemma dec_modrm_len m h sh bs mp r : dec_modrm m h sh bs = Some (mp, r) -> (length r <= length bs)%nat.
Proof.
  unfold dec_modrm. destruct (sh_modrm sh); [|intros H; inversion H; subst; lia].
  destruct bs as [|mb r0]; [discriminate|].
  destruct (mb / 64 =? 3); [intros H; inversion H; subst; cbn [length]; lia|].
  destruct (dec_mem m h sh (mb / 64) (mb mod 8) r0) as [[mm r']|] eqn:E; [|discriminate].
  intros H; inversion H; subst. apply dec_mem_len in E. cbn [length]. lia.
Qed.

Theorem sdec_tail_len m h sh bs s r : sdec_tail m h sh bs = Some (s, r) -> (length r <= length bs)%nat.
Proof.
  unfold sdec_tail. destruct (dec_modrm m h sh bs) as [[mp r1]|] eqn:E; [|discriminate].
  destruct (le_take (sh_imm sh) r1) as [[imm r2]|] eqn:E2; [|discriminate].
  intros H; inversion H; subst. apply dec_modrm_len in E. rewrite (le_take_len _ _ _ _ E2) in E. lia.
Qed.

(* every denotation is at least one byte long and not longer than the bytes given *)
Theorem denote_len_bounds : forall bucket m bs rid ops dd len,
  In (rid, ops, dd, len) (denote bucket m bs) -> (1 <= len <= length bs)%nat.
Proof.
  intros bucket m bs rid ops dd len H.
  destruct (denote_sound bucket _ _ _ _ _ _ H) as [h [rest [r [s [t [Eh [_ [_ [_ [Et [_ [_ [_ El]]]]]]]]]]]]].
  apply sdec_head_len in Eh. apply sdec_tail_len in Et. lia.
Qed.

(* ... and so is every reading of `denote2`; a wait reading has at least two bytes *)
Theorem denote2_len_bounds : forall bucket wbucket m bs rid ops dd len,
  In (rid, ops, dd, len) (denote2 bucket wbucket m bs) -> (1 <= len <= length bs)%nat.
Proof.
  intros bucket wbucket m bs rid ops dd len H. apply denote2_cases in H. destruct H as [H|[rest [len' [Eb [El H]]]]].
  - eapply denote_len_bounds; eauto.
  - apply denote_len_bounds in H. subst. cbn [length]. lia.
Qed.

Theorem wait_reading_len : forall wbucket m rest rid ops dd len',
  In (rid, ops, dd, len') (denote wbucket m rest) -> (2 <= S len')%nat.
Proof. intros wbucket m rest rid ops dd len' H. apply denote_len_bounds in H. lia. Qed.

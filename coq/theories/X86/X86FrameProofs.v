(* C01 round 6 -- FRAME: a reading depends only on the bytes it consumes, plus at most ONE byte of lookahead.
   Every decoder of the structural model consumes a prefix `pre` of its input and returns the rest untouched; run on `pre` followed by
   any other bytes it gives the same result.  The head decoder looks one byte ahead (the byte after C4 / C5 / 62 / 8F decides, in 32-bit
   mode, between les / lds / bound / pop and VEX / EVEX / XOP), so for it the new continuation must start with the same byte.
   Consequence (denote_frame): every reading (row, operands, decorations, length) of a byte string is a reading of its first `length`
   bytes followed by ANY bytes that agree with the original on the single next byte -- for all rows, modes and byte strings.  What
   follows an instruction in the buffer cannot change how the instruction is read. *)
From Coq Require Import ZArith List Bool Lia.
From Verif Require Import X86.X86Model X86.X86Proofs X86.X86Denote X86.X86DenoteProofs X86.X86LengthProofs.
Import ListNotations.
Local Open Scope Z_scope.

Definition frames {A} (f : bytes -> option (A * bytes)) : Prop :=
  forall bs x r, f bs = Some (x, r) -> exists pre, bs = pre ++ r /\ forall t, f (pre ++ t) = Some (x, t).

Lemma le_take_frames n : frames (le_take n).
Proof.
  induction n as [|n IH]; intros bs x r H; cbn in H.
  - inversion H; subst. exists []. split; [reflexivity|]. intros t. reflexivity.
  - destruct bs as [|b t0]; [discriminate|]. destruct (le_take n t0) as [[v r']|] eqn:E; [|discriminate].
    inversion H; subst. destruct (IH _ _ _ E) as [pre [Hb Hf]]. exists (b :: pre). split; [cbn; rewrite Hb; reflexivity|].
    intros t. cbn. rewrite Hf. reflexivity.
Qed.

Lemma dec_disp_frames md n : frames (dec_disp md n).
Proof.
  intros bs x r H. unfold dec_disp in *. destruct (md =? 0).
  { inversion H; subst. exists []. split; [reflexivity|]. intros t. reflexivity. }
  destruct (md =? 1).
  { destruct bs as [|b t0]; [discriminate|]. inversion H; subst. exists [b]. split; [reflexivity|]. intros t. reflexivity. }
  destruct (le_take 4 bs) as [[v r']|] eqn:E; [|discriminate]. inversion H; subst.
  destruct (le_take_frames 4 _ _ _ E) as [pre [Hb Hf]]. exists pre. split; [exact Hb|]. intros t. rewrite Hf. reflexivity.
Qed.

Lemma dec_disp16_frames md n : frames (dec_disp16 md n).
Proof.
  intros bs x r H. unfold dec_disp16 in *. destruct (md =? 0).
  { inversion H; subst. exists []. split; [reflexivity|]. intros t. reflexivity. }
  destruct (md =? 1).
  { destruct bs as [|b t0]; [discriminate|]. inversion H; subst. exists [b]. split; [reflexivity|]. intros t. reflexivity. }
  destruct (le_take 2 bs) as [[v r']|] eqn:E; [|discriminate]. inversion H; subst.
  destruct (le_take_frames 2 _ _ _ E) as [pre [Hb Hf]]. exists pre. split; [exact Hb|]. intros t. rewrite Hf. reflexivity.
Qed.

Lemma dec_mem_frames m h sh md rm : frames (dec_mem m h sh md rm).
Proof.
  intros bs x r H. unfold dec_mem in *. destruct (a16 m (rh_pfx h)).
  - destruct (rh_X h || rh_B h); [discriminate|].
    destruct ((md =? 0) && (rm =? 6)).
    + destruct (le_take 2 bs) as [[v r']|] eqn:E; [|discriminate]. inversion H; subst.
      destruct (le_take_frames 2 _ _ _ E) as [pre [Hb Hf]]. exists pre. split; [exact Hb|]. intros t. rewrite Hf. reflexivity.
    + destruct (dec_disp16 md (sh_n sh) bs) as [[d r']|] eqn:E; [|discriminate]. destruct (rm16_pair rm) as [b i] eqn:Ep.
      inversion H; subst. destruct (dec_disp16_frames _ _ _ _ _ E) as [pre [Hb Hf]]. exists pre. split; [exact Hb|].
      intros t. rewrite Hf. reflexivity.
  - destruct (rm =? 4).
    + destruct bs as [|sib r0]; [discriminate|].
      destruct ((sib mod 8 =? 5) && (md =? 0)) eqn:Ec.
      * destruct (rh_B h); [discriminate|].
        destruct (le_take 4 r0) as [[v r']|] eqn:E; [|discriminate]. inversion H; subst.
        destruct (le_take_frames 4 _ _ _ E) as [pre [Hb Hf]]. exists (sib :: pre). split; [cbn; rewrite Hb; reflexivity|].
        intros t. cbn [app]. rewrite Ec. rewrite Hf. reflexivity.
      * destruct (dec_disp md (sh_n sh) r0) as [[d r']|] eqn:E; [|discriminate]. inversion H; subst.
        destruct (dec_disp_frames _ _ _ _ _ E) as [pre [Hb Hf]]. exists (sib :: pre). split; [cbn; rewrite Hb; reflexivity|].
        intros t. cbn [app]. rewrite Ec. rewrite Hf. reflexivity.
    + destruct ((rm =? 5) && (md =? 0)).
      * destruct (rh_X h || rh_B h); [discriminate|].
        destruct (le_take 4 bs) as [[v r']|] eqn:E; [|discriminate]. inversion H; subst.
        destruct (le_take_frames 4 _ _ _ E) as [pre [Hb Hf]]. exists pre. split; [exact Hb|]. intros t. rewrite Hf. reflexivity.
      * destruct (rh_X h); [discriminate|].
        destruct (dec_disp md (sh_n sh) bs) as [[d r']|] eqn:E; [|discriminate]. inversion H; subst.
        destruct (dec_disp_frames _ _ _ _ _ E) as [pre [Hb Hf]]. exists pre. split; [exact Hb|]. intros t. rewrite Hf. reflexivity.
Qed.

Lemma dec_modrm_frames m h sh : frames (dec_modrm m h sh).
Proof.
  intros bs x r H. unfold dec_modrm in *. destruct (sh_modrm sh).
  - destruct bs as [|mb r0]; [discriminate|]. destruct (mb / 64 =? 3) eqn:E3.
    + inversion H; subst. exists [mb]. split; [reflexivity|]. intros t. cbn [app]. rewrite E3. reflexivity.
    + destruct (dec_mem m h sh (mb / 64) (mb mod 8) r0) as [[mm r']|] eqn:E; [|discriminate]. inversion H; subst.
      destruct (dec_mem_frames _ _ _ _ _ _ _ _ E) as [pre [Hb Hf]]. exists (mb :: pre). split; [cbn; rewrite Hb; reflexivity|].
      intros t. cbn [app]. rewrite E3. rewrite Hf. reflexivity.
  - inversion H; subst. exists []. split; [reflexivity|]. intros t. reflexivity.
Qed.

Theorem sdec_tail_frames m h sh : frames (sdec_tail m h sh).
Proof.
  intros bs s r H. unfold sdec_tail in *.
  destruct (dec_modrm m h sh bs) as [[mp r1]|] eqn:E1; [|discriminate].
  destruct (le_take (sh_imm sh) r1) as [[imm r2]|] eqn:E2; [|discriminate]. inversion H; subst.
  destruct (dec_modrm_frames _ _ _ _ _ _ E1) as [pre1 [Hb1 Hf1]]. destruct (le_take_frames _ _ _ _ E2) as [pre2 [Hb2 Hf2]].
  exists (pre1 ++ pre2). split; [rewrite Hb1, Hb2, app_assoc; reflexivity|].
  intros t. rewrite <- app_assoc. rewrite Hf1. rewrite Hf2. reflexivity.
Qed.

(* ------------------------------------------------------------------ head: one byte of lookahead *)
Definition agree1 (a b : bytes) : Prop := hd_error a = hd_error b.

Lemma next_ge_agree a b v : agree1 a b -> next_ge a v = next_ge b v.
Proof. unfold agree1, next_ge. destruct a, b; cbn; intros H; try discriminate; [reflexivity | inversion H; reflexivity]. Qed.
Lemma next_low5_agree a b : agree1 a b -> next_low5_ge8 a = next_low5_ge8 b.
Proof. unfold agree1, next_low5_ge8. destruct a, b; cbn; intros H; try discriminate; [reflexivity | inversion H; reflexivity]. Qed.

Lemma dec_prefixes_frame : forall f q bs p b r2, dec_prefixes f q bs = (p, b :: r2) ->
  exists ps, bs = ps ++ b :: r2 /\ forall t, dec_prefixes f q (ps ++ b :: t) = (p, b :: t).
Proof.
  induction f as [|f IH]; intros q bs p b r2 H; cbn in H.
  - inversion H; subst. exists []. split; [reflexivity|]. intros t. reflexivity.
  - destruct bs as [|b0 t0]; [inversion H|]. destruct (is_prefix_byte b0) eqn:Ep.
    + destruct (IH _ _ _ _ _ H) as [ps [Hb Hf]]. exists (b0 :: ps). split; [cbn; rewrite Hb; reflexivity|].
      intros t. cbn. rewrite Ep. apply Hf.
    + inversion H; subst. exists []. split; [reflexivity|]. intros t. cbn. rewrite Ep. reflexivity.
Qed.

Lemma dec_legacy_frames p rex w r x b : frames (dec_legacy p rex w r x b).
Proof.
  intros bs h rest H. unfold dec_legacy in *. destruct bs as [|b0 r0]; [discriminate|].
  destruct (b0 =? 15) eqn:E0.
  - destruct r0 as [|b1 r1]; [discriminate|].
    destruct (b1 =? 56) eqn:E1.
    { destruct r1 as [|o r2]; [discriminate|]. inversion H; subst. exists [b0; b1; o]. split; [reflexivity|]. intros t. cbn. rewrite E0, E1. reflexivity. }
    destruct (b1 =? 58) eqn:E2.
    { destruct r1 as [|o r2]; [discriminate|]. inversion H; subst. exists [b0; b1; o]. split; [reflexivity|]. intros t. cbn. rewrite E0, E1, E2. reflexivity. }
    inversion H; subst. exists [b0; b1]. split; [reflexivity|]. intros t. cbn. rewrite E0, E1, E2. reflexivity.
  - inversion H; subst. exists [b0]. split; [reflexivity|]. intros t. cbn. rewrite E0. reflexivity.
Qed.

(* what the legacy decoder consumed when it consumed exactly one byte: the rest is the tail of the input *)
Lemma dec_legacy_one p rex w r x b b0 r0 h rest : dec_legacy p rex w r x b (b0 :: r0) = Some (h, rest) ->
  (b0 =? 15) = false -> rest = r0 /\ rh_opc h = b0 /\ rh_map h = 0 /\ rh_kind h = KLeg.
Proof. unfold dec_legacy. intros H E. rewrite E in H. inversion H. cbn. auto. Qed.

(* a head whose reading never needed the lookahead byte: anything but a one-byte legacy opcode C4 / C5 / 62 / 8F *)
Definition lookahead_free (h : rhead) : bool :=
  negb (match rh_kind h with
        | KLeg => (rh_map h =? 0) && ((rh_opc h =? 197) || (rh_opc h =? 196) || (rh_opc h =? 98) || (rh_opc h =? 143))
        | _ => false
        end).

Theorem sdec_head_frame m bs h rest : sdec_head m bs = Some (h, rest) ->
  exists pre, bs = pre ++ rest /\ pre <> [] /\ forall t, agree1 t rest \/ lookahead_free h = true -> sdec_head m (pre ++ t) = Some (h, t).
Proof.
  unfold sdec_head. destruct (dec_prefixes 14 p0 bs) as [p r1] eqn:Ep.
  destruct r1 as [|b r2]; [discriminate|].
  destruct (dec_prefixes_frame _ _ _ _ _ _ Ep) as [ps [Hbs Hpf]].
  destruct (is64 m && (64 <=? b) && (b <? 80)) eqn:C1.
  { intros H. destruct (dec_legacy_frames _ _ _ _ _ _ _ _ _ H) as [pre [Hb Hf]].
    exists (ps ++ b :: pre). split; [rewrite Hbs, Hb, <- app_assoc; reflexivity|]. split; [destruct ps; discriminate|].
    intros t _. rewrite <- app_assoc. cbn [app]. rewrite Hpf. rewrite C1. apply Hf. }
  destruct ((b =? 197) && (is64 m || next_ge r2 192)) eqn:C2.
  { destruct (no_simd_prefix p) eqn:Ens; [|discriminate]. intros H. unfold dec_vex2 in H. destruct r2 as [|b1 [|o r3]]; try discriminate.
    inversion H; subst. exists (ps ++ [b; b1; o]). split; [rewrite <- app_assoc; reflexivity|]. split; [destruct ps; discriminate|].
    intros t _. rewrite <- app_assoc. cbn [app]. rewrite Hpf. rewrite C1. cbn [next_ge] in *. rewrite C2, Ens. reflexivity. }
  destruct ((b =? 196) && (is64 m || next_ge r2 192)) eqn:C3.
  { destruct (no_simd_prefix p) eqn:Ens; [|discriminate]. intros H. unfold dec_vex3 in H. destruct r2 as [|b1 [|b2 [|o r3]]]; try discriminate.
    inversion H; subst. exists (ps ++ [b; b1; b2; o]). split; [rewrite <- app_assoc; reflexivity|]. split; [destruct ps; discriminate|].
    intros t _. rewrite <- app_assoc. cbn [app]. rewrite Hpf. rewrite C1. cbn [next_ge] in *. rewrite C2, C3, Ens. reflexivity. }
  destruct ((b =? 98) && (is64 m || next_ge r2 192)) eqn:C4.
  { destruct (no_simd_prefix p) eqn:Ens; [|discriminate]. intros H. unfold dec_evex in H. destruct r2 as [|q0 [|q1 [|q2 [|o r3]]]]; try discriminate.
    destruct (bitb q0 8 || negb (bitb q1 4)) eqn:Eb; [discriminate|].
    inversion H; subst. exists (ps ++ [b; q0; q1; q2; o]). split; [rewrite <- app_assoc; reflexivity|]. split; [destruct ps; discriminate|].
    intros t _. rewrite <- app_assoc. cbn [app]. rewrite Hpf. rewrite C1. cbn [next_ge] in *. rewrite C2, C3, C4, Ens. cbn [dec_evex]. rewrite Eb. reflexivity. }
  destruct ((b =? 143) && next_low5_ge8 r2) eqn:C5.
  { destruct (no_simd_prefix p) eqn:Ens; [|discriminate]. intros H. unfold dec_vex3 in H. destruct r2 as [|b1 [|b2 [|o r3]]]; try discriminate.
    inversion H; subst. exists (ps ++ [b; b1; b2; o]). split; [rewrite <- app_assoc; reflexivity|]. split; [destruct ps; discriminate|].
    intros t _. rewrite <- app_assoc. cbn [app]. rewrite Hpf. rewrite C1. cbn [next_ge next_low5_ge8] in *. rewrite C2, C3, C4, C5, Ens. reflexivity. }
  (* legacy without REX: the conditions above looked at b and at the first byte of r2 *)
  intros H. destruct (dec_legacy_frames _ _ _ _ _ _ _ _ _ H) as [pre [Hb Hf]].
  destruct pre as [|b' pre'].
  { exfalso. cbn in Hb. pose proof (dec_legacy_len _ _ _ _ _ _ _ _ _ H) as Hl. rewrite <- Hb in Hl. lia. }
  cbn [app] in Hb. injection Hb as Hb0 Hb1. subst b'.
  exists (ps ++ b :: pre'). split; [rewrite Hbs; rewrite Hb1; rewrite <- app_assoc; reflexivity|]. split; [destruct ps; discriminate|].
  intros t Ht. rewrite <- app_assoc. cbn [app]. rewrite Hpf. rewrite C1.
  destruct (b =? 15) eqn:E15.
  - (* 0F escape: b is none of the lead bytes *)
    apply Z.eqb_eq in E15. subst b. cbn [Z.eqb Pos.eqb andb]. apply (Hf t).
  - (* one opcode byte: r2 = rest, so the lookahead byte is the first byte of the rest / of t *)
    destruct (dec_legacy_one _ _ _ _ _ _ _ _ _ _ H E15) as [Hr [Ho [Hm Hk]]]. subst rest.
    assert (pre' = []).
    { apply (f_equal (@length Z)) in Hb1. rewrite app_length in Hb1. destruct pre'; [reflexivity | cbn in Hb1; lia]. }
    subst pre'. cbn [app].
    destruct Ht as [Ht|Hfree].
    + rewrite (next_ge_agree t r2 192 Ht). rewrite (next_low5_agree t r2 Ht). rewrite C2, C3, C4, C5. apply (Hf t).
    + unfold lookahead_free in Hfree. rewrite Hk, Hm, Ho in Hfree. cbn [Z.eqb andb] in Hfree. apply negb_true_iff in Hfree.
      apply orb_false_elim in Hfree. destruct Hfree as [Hfree F143]. apply orb_false_elim in Hfree. destruct Hfree as [Hfree F98].
      apply orb_false_elim in Hfree. destruct Hfree as [F197 F196].
      rewrite F197, F196, F98, F143. cbn [andb]. apply (Hf t).
Qed.

(* ------------------------------------------------------------------ readings *)
Lemma agree1_app (pre a b : bytes) : pre <> [] \/ agree1 a b -> agree1 (pre ++ a) (pre ++ b).
Proof. destruct pre as [|x pre]; cbn; intros [H|H]; try reflexivity; try exact H. contradiction. Qed.

Theorem denote_frame : forall bucket m bs rid ops dd len,
  In (rid, ops, dd, len) (denote bucket m bs) ->
  forall t, hd_error t = hd_error (skipn len bs) ->
  In (rid, ops, dd, len) (denote bucket m (firstn len bs ++ t)).
Proof.
  intros bucket m bs rid ops dd len Hin t Ht. unfold denote in Hin.
  destruct (sdec_head m bs) as [[h rest]|] eqn:Eh; [|contradiction].
  apply in_flat_map in Hin. destruct Hin as [r [Hr Hx]].
  unfold try_row in Hx.
  destruct (head_ok m r h) eqn:E1; [|contradiction].
  destruct (sdec_tail m h (shape_of_row m r h) rest) as [[s r2]|] eqn:E2; [|contradiction].
  destruct (tail_ok m r s) eqn:E3; [|contradiction].
  destruct (mk_operands m r s (r_ops r)) as [ops'|] eqn:E4; [|contradiction].
  destruct Hx as [Hx|[]]. inversion Hx; subst rid ops dd len. clear Hx.
  destruct (sdec_head_frame _ _ _ _ Eh) as [pre [Hb [Hne Hhf]]].
  destruct (sdec_tail_frames _ _ _ _ _ _ E2) as [pre2 [Hb2 Htf]].
  assert (Hlen : (length bs - length r2)%nat = length (pre ++ pre2)).
  { rewrite Hb, Hb2. rewrite !app_length. lia. }
  assert (Hfirst : firstn (length bs - length r2) bs = pre ++ pre2).
  { rewrite Hlen. rewrite Hb, Hb2, app_assoc. apply firstn_app_2_nil || (rewrite firstn_app, Nat.sub_diag, firstn_all; cbn; apply app_nil_r). }
  assert (Hskip : skipn (length bs - length r2) bs = r2).
  { rewrite Hlen. rewrite Hb, Hb2, app_assoc. rewrite skipn_app, Nat.sub_diag, skipn_all. reflexivity. }
  rewrite Hfirst. rewrite Hskip in Ht.
  assert (Hag : agree1 (pre2 ++ t) rest).
  { rewrite Hb2. apply agree1_app. destruct pre2; [right; exact Ht | left; discriminate]. }
  unfold denote. rewrite <- app_assoc. rewrite (Hhf _ (or_introl Hag)).
  apply in_flat_map. exists r. split; [exact Hr|].
  unfold try_row. rewrite E1. rewrite (Htf t). rewrite E3, E4.
  assert (Hl2 : (length (pre ++ pre2 ++ t) - length t)%nat = (length bs - length r2)%nat).
  { rewrite Hlen. rewrite !app_length. lia. }
  rewrite Hl2. left. reflexivity.
Qed.

(* the same for the denotation the judge uses (one-instruction readings and FWAIT + wait-row readings) *)
Theorem denote2_frame : forall bucket wbucket m bs rid ops dd len,
  In (rid, ops, dd, len) (denote2 bucket wbucket m bs) ->
  forall t, hd_error t = hd_error (skipn len bs) ->
  In (rid, ops, dd, len) (denote2 bucket wbucket m (firstn len bs ++ t)).
Proof.
  intros bucket wbucket m bs rid ops dd len Hin t Ht.
  apply denote2_cases in Hin. destruct Hin as [Hin|[rest [len' [Eb [El Hin]]]]].
  - apply denote2_plain. apply denote_frame; assumption.
  - subst bs len. cbn [firstn skipn app] in *. apply denote2_wait. apply denote_frame; assumption.
Qed.

(* ------------------------------------------------------------------ the frame WITHOUT the lookahead condition
   The lookahead byte matters only after a one-byte legacy opcode C4 / C5 / 62 / 8F whose row consumes nothing after the opcode.  When
   every such row of the bucket function has a ModRM byte or an immediate (`lookahead_safe`, decidable over a database), the byte looked
   at is one the reading consumes, and the reading is independent of ALL the bytes that follow it. *)
Definition lookahead_safe_row (r : row) : bool :=
  negb ((r_kind r =? 0) && (r_map r =? 0)) || r_modrm r || (0 <? r_imm r).
Definition lookahead_safe (bucket : Z -> list row) : bool :=
  forallb (fun o => forallb lookahead_safe_row (bucket o)) [196; 197; 98; 143].

Lemma sdec_tail_consumes m h sh bs s r : sdec_tail m h sh bs = Some (s, r) ->
  sh_modrm sh = true \/ (0 < sh_imm sh)%nat -> (length r < length bs)%nat.
Proof.
  unfold sdec_tail. destruct (dec_modrm m h sh bs) as [[mp r1]|] eqn:E1; [|discriminate].
  destruct (le_take (sh_imm sh) r1) as [[imm r2]|] eqn:E2; [|discriminate]. intros H Hc. inversion H; subst.
  pose proof (dec_modrm_len _ _ _ _ _ _ E1) as L1. pose proof (le_take_len _ _ _ _ E2) as L2.
  destruct Hc as [Hm|Hi]; [|lia].
  unfold dec_modrm in E1. rewrite Hm in E1. destruct bs as [|mb r0]; [discriminate|].
  destruct (mb / 64 =? 3).
  - inversion E1; subst. cbn [length]. lia.
  - destruct (dec_mem m h sh (mb / 64) (mb mod 8) r0) as [[mm r']|] eqn:E; [|discriminate]. inversion E1; subst.
    apply dec_mem_len in E. cbn [length]. lia.
Qed.

Theorem denote_frame_all : forall bucket, lookahead_safe bucket = true -> forall m bs rid ops dd len,
  In (rid, ops, dd, len) (denote bucket m bs) ->
  forall t, In (rid, ops, dd, len) (denote bucket m (firstn len bs ++ t)).
Proof.
  intros bucket Hsafe m bs rid ops dd len Hin t. unfold denote in Hin.
  destruct (sdec_head m bs) as [[h rest]|] eqn:Eh; [|contradiction].
  apply in_flat_map in Hin. destruct Hin as [r [Hr Hx]].
  unfold try_row in Hx.
  destruct (head_ok m r h) eqn:E1; [|contradiction].
  destruct (sdec_tail m h (shape_of_row m r h) rest) as [[s r2]|] eqn:E2; [|contradiction].
  destruct (tail_ok m r s) eqn:E3; [|contradiction].
  destruct (mk_operands m r s (r_ops r)) as [ops'|] eqn:E4; [|contradiction].
  destruct Hx as [Hx|[]]. inversion Hx; subst rid ops dd len. clear Hx.
  destruct (sdec_head_frame _ _ _ _ Eh) as [pre [Hb [Hne Hhf]]].
  destruct (sdec_tail_frames _ _ _ _ _ _ E2) as [pre2 [Hb2 Htf]].
  assert (Hlen : (length bs - length r2)%nat = length (pre ++ pre2)).
  { rewrite Hb, Hb2. rewrite !app_length. lia. }
  assert (Hfirst : firstn (length bs - length r2) bs = pre ++ pre2).
  { rewrite Hlen. rewrite Hb, Hb2, app_assoc. apply firstn_app_2_nil || (rewrite firstn_app, Nat.sub_diag, firstn_all; cbn; apply app_nil_r). }
  rewrite Hfirst.
  (* either the head never looked ahead, or the row consumes the byte that was looked at *)
  assert (Hcond : agree1 (pre2 ++ t) rest \/ lookahead_free h = true).
  { destruct (lookahead_free h) eqn:Ef; [right; reflexivity|]. left.
    rewrite Hb2. apply agree1_app. left.
    unfold lookahead_free in Ef. apply negb_false_iff in Ef.
    destruct (rh_kind h) eqn:Ek; try discriminate. apply andb_prop in Ef. destruct Ef as [Em Eo]. apply Z.eqb_eq in Em.
    assert (Hin4 : In (rh_opc h) [196; 197; 98; 143]).
    { cbn. repeat (apply orb_prop in Eo; destruct Eo as [Eo|Eo]); apply Z.eqb_eq in Eo; auto. }
    unfold lookahead_safe in Hsafe. rewrite forallb_forall in Hsafe. specialize (Hsafe _ Hin4).
    rewrite forallb_forall in Hsafe. specialize (Hsafe r Hr). unfold lookahead_safe_row in Hsafe.
    assert (Hk0 : (r_kind r =? 0) = true).
    { pose proof E1 as X. unfold head_ok in X. rewrite Ek in X. apply andb_prop in X. destruct X as [_ X].
      apply andb_prop in X. destruct X as [X _]. apply andb_prop in X. destruct X as [X _]. exact X. }
    assert (Hm0 : (r_map r =? 0) = true).
    { pose proof E1 as X. unfold head_ok in X. apply andb_prop in X. destruct X as [X _]. apply andb_prop in X. destruct X as [X _].
      apply andb_prop in X. destruct X as [_ X]. apply Z.eqb_eq in X. apply Z.eqb_eq. congruence. }
    rewrite Hk0, Hm0 in Hsafe. cbn [andb negb orb] in Hsafe.
    assert (Hc : sh_modrm (shape_of_row m r h) = true \/ (0 < sh_imm (shape_of_row m r h))%nat).
    { unfold shape_of_row. cbn [sh_modrm sh_imm]. apply orb_prop in Hsafe. destruct Hsafe as [Hs|Hs]; [left; exact Hs|right].
      apply Z.ltb_lt in Hs. destruct (r_moffs r).
      - unfold addr_bytes. destruct (is64 m), (p_67 (rh_pfx h)); cbn; lia.
      - apply Nat2Z.inj_lt. rewrite Z2Nat.id by lia. cbn. lia. }
    pose proof (sdec_tail_consumes _ _ _ _ _ _ E2 Hc) as Hl. rewrite Hb2 in Hl. rewrite app_length in Hl.
    destruct pre2; [cbn in Hl; lia | discriminate]. }
  unfold denote. rewrite <- app_assoc. rewrite (Hhf _ Hcond).
  apply in_flat_map. exists r. split; [exact Hr|].
  unfold try_row. rewrite E1. rewrite (Htf t). rewrite E3, E4.
  assert (Hl2 : (length (pre ++ pre2 ++ t) - length t)%nat = (length bs - length r2)%nat).
  { rewrite Hlen. rewrite !app_length. lia. }
  rewrite Hl2. left. reflexivity.
Qed.

Theorem denote2_frame_all : forall bucket wbucket, lookahead_safe bucket = true -> lookahead_safe wbucket = true ->
  forall m bs rid ops dd len, In (rid, ops, dd, len) (denote2 bucket wbucket m bs) ->
  forall t, In (rid, ops, dd, len) (denote2 bucket wbucket m (firstn len bs ++ t)).
Proof.
  intros bucket wbucket S1 S2 m bs rid ops dd len Hin t.
  apply denote2_cases in Hin. destruct Hin as [Hin|[rest [len' [Eb [El Hin]]]]].
  - apply denote2_plain. apply denote_frame_all; assumption.
  - subst bs len. cbn [firstn app]. apply denote2_wait. apply denote_frame_all; assumption.
Qed.

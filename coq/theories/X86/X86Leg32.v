(* C01 round 6 -- the legacy opcodes that double as VEX / EVEX lead bytes: les (C4), lds (C5), bound (62) in 32-bit mode.
   X86Model.wf excludes them as opcodes (in both modes), so the main round trip does not speak about them; the decoder separates them from
   VEX / EVEX by the byte that follows (a memory-form ModRM byte is below C0).  `wf_leg32` describes exactly these instructions and
   `sdec_senc_leg32` is their round trip -- with it every instruction AsmJit can emit in 32-bit mode has one. *)
From Coq Require Import ZArith List Bool Lia.
From Verif Require Import X86.X86Model X86.X86Proofs.
Import ListNotations.
Local Open Scope Z_scope.

Definition wf_leg32 (sh : shape) (s : sinst) : bool :=
  wf_pfx (s_pfx s) && ((s_opc s =? 196) || (s_opc s =? 197) || (s_opc s =? 98)) &&
  zin 0 (s_imm s) (256 ^ Z.of_nat (sh_imm sh)) && (0 <? sh_n sh) &&
  match s_kind s with KLeg => true | _ => false end && (s_map s =? 0) && negb (s_rex s) && negb (s_W s) &&
  (s_vvvv s =? 0) && negb (s_V' s) && (s_L s =? 0) && (s_pp s =? 0) && (s_aaa s =? 0) && negb (s_z s) && negb (s_b s) &&
  match s_modrm s with
  | MMem reg mm => sh_modrm sh && zin 0 reg 8 && wf_mem M32 (a16 M32 (s_pfx s)) (sh_vsib sh) 8 mm
  | _ => false
  end.

Lemma wf_mem8_bits a v mm reg : wf_mem M32 a v 8 mm = true -> mp_X (MMem reg mm) = false /\ mp_B (MMem reg mm) = false.
Proof. intros H. exact (wf_mem_bits M32 a v 8 mm reg H eq_refl). Qed.

Theorem sdec_senc_leg32 : forall sh s c rest, wf_leg32 sh s = true -> adm M32 sh s c = true ->
  sdec M32 sh (senc M32 sh s c ++ rest) = Some (s, length (senc M32 sh s c)).
Proof.
  intros sh s c rest Hwf Hadm. destruct s as [p k rex w vvvv v' l pp map opc aaa z bb mp imm].
  unfold wf_leg32 in Hwf. cbn [s_pfx s_opc s_imm s_kind s_map s_rex s_W s_vvvv s_V' s_L s_pp s_aaa s_z s_b s_modrm] in Hwf.
  destruct k; try (rewrite !andb_false_r in Hwf; cbn in Hwf; repeat rewrite andb_false_r in Hwf; discriminate).
  destruct mp as [| |reg mm]; try (rewrite !andb_false_r in Hwf; discriminate).
  repeat (apply andb_prop in Hwf; destruct Hwf as [Hwf ?]).
  repeat match goal with
         | X : negb _ = true |- _ => apply negb_true_iff in X
         | X : (_ =? _) = true |- _ => apply Z.eqb_eq in X
         | X : (_ <? _) = true |- _ => apply Z.ltb_lt in X
         | X : (_ <=? _) = true |- _ => apply Z.leb_le in X
         end.
  subst.
  match goal with X : sh_modrm sh && _ && _ = true |- _ =>
    apply andb_prop in X; destruct X as [X Hmem]; apply andb_prop in X; destruct X as [Hsm Hreg] end.
  apply zin_spec in Hreg.
  match goal with X : zin 0 imm _ = true |- _ => apply zin_spec in X; rename X into Himm end.
  match goal with X : _ || _ || _ = true |- _ => rename X into Hopc end.
  assert (Hwp : wf_pfx p = true) by (unfold wf_pfx; apply zin_spec; lia).
  cbn [s_pfx] in *.
  set (h := mkRH p KLeg false false false false false false false 0 0 0 0 opc 0 false false).
  assert (Hadm' : adm_mem (a16 M32 p) (sh_n sh) mm c = true) by exact Hadm.
  destruct (wf_mem8_bits _ _ _ reg Hmem) as [HX HB].
  destruct (dec_mem_enc M32 h sh reg mm c 8 (le_bytes (sh_imm sh) imm ++ rest) (or_introl eq_refl) (fun _ => eq_refl) Hmem Hadm'
              ltac:(assumption) (eq_sym HX) (eq_sym HB)) as [mb [tl [E1 [E2 [E3 E4]]]]].
  change (rh_pfx h) with p in E1.
  assert (Hrh : rhead_of (mkS p KLeg false false 0 false 0 0 0 opc 0 false false (MMem reg mm) imm) = h).
  { unfold rhead_of, h. cbn [s_pfx s_kind s_rex s_W s_modrm s_V' s_vvvv s_L s_pp s_map s_opc s_aaa s_z s_b mp_R mp_R'].
    rewrite HX, HB. rewrite (id_bit3_small reg) by lia. rewrite (id_bit4_small reg) by lia. reflexivity. }
  assert (Hbytes : senc M32 sh (mkS p KLeg false false 0 false 0 0 0 opc 0 false false (MMem reg mm) imm) c ++ rest =
                   enc_prefixes p ++ opc :: mb :: tl ++ le_bytes (sh_imm sh) imm ++ rest).
  { unfold senc. rewrite Hrh. unfold enc_lead, h. cbn [rh_kind rh_rex rh_map rh_opc opt leg_escape Z.eqb app s_pfx s_modrm s_imm enc_modrm].
    rewrite E1. rewrite <- !app_assoc. cbn [app]. rewrite <- !app_assoc. reflexivity. }
  assert (Hnp : is_prefix_byte opc = false).
  { destruct (opc =? 196) eqn:A; [apply Z.eqb_eq in A; subst; reflexivity|].
    destruct (opc =? 197) eqn:B; [apply Z.eqb_eq in B; subst; reflexivity|].
    cbn [orb] in Hopc. apply Z.eqb_eq in Hopc. subst. reflexivity. }
  assert (Hmb : (192 <=? mb) = false).
  { apply Z.leb_gt. destruct (Z_lt_le_dec mb 192) as [Hlt|Hge]; [exact Hlt|]. exfalso.
    assert (3 <= mb / 64) by (apply Z.div_le_lower_bound; lia). lia. }
  assert (Hhead : sdec_head M32 (enc_prefixes p ++ opc :: mb :: tl ++ le_bytes (sh_imm sh) imm ++ rest) =
                  Some (h, mb :: tl ++ le_bytes (sh_imm sh) imm ++ rest)).
  { unfold sdec_head. rewrite dec_prefixes_enc; [| exact Hwp | apply hd_np_cons; exact Hnp].
    cbn [is64 andb orb next_ge next_low5_ge8]. rewrite Hmb. rewrite !andb_false_r.
    assert (H143 : (opc =? 143) = false).
    { destruct (opc =? 196) eqn:A; [apply Z.eqb_eq in A; subst; reflexivity|].
      destruct (opc =? 197) eqn:B; [apply Z.eqb_eq in B; subst; reflexivity|].
      cbn [orb] in Hopc. apply Z.eqb_eq in Hopc. subst. reflexivity. }
    rewrite H143. cbn [andb]. unfold dec_legacy.
    assert (H15 : (opc =? 15) = false).
    { destruct (opc =? 196) eqn:A; [apply Z.eqb_eq in A; subst; reflexivity|].
      destruct (opc =? 197) eqn:B; [apply Z.eqb_eq in B; subst; reflexivity|].
      cbn [orb] in Hopc. apply Z.eqb_eq in Hopc. subst. reflexivity. }
    rewrite H15. reflexivity. }
  assert (Htail : sdec_tail M32 h sh (mb :: tl ++ le_bytes (sh_imm sh) imm ++ rest) =
                  Some (mkS p KLeg false false 0 false 0 0 0 opc 0 false false (MMem reg mm) imm, rest)).
  { unfold sdec_tail, dec_modrm. rewrite Hsm.
    replace (mb / 64 =? 3) with false by (symmetry; apply Z.eqb_neq; lia).
    replace (tl ++ le_bytes (sh_imm sh) imm ++ rest) with (tl ++ (le_bytes (sh_imm sh) imm ++ rest)) by reflexivity.
    rewrite E4. rewrite le_take_bytes by assumption.
    unfold assemble, h. cbn [rh_pfx rh_kind rh_rex rh_W rh_vvvv rh_V' rh_L rh_pp rh_map rh_opc rh_aaa rh_z rh_b rh_R' rh_R].
    unfold ext5. cbn [b2z Z.b2z]. rewrite E3. rewrite Z.mod_small by lia. reflexivity. }
  unfold sdec. rewrite Hbytes, Hhead, Htail. f_equal. f_equal.
  rewrite <- Hbytes. rewrite !app_length. lia.
Qed.

(* non-vacuity: les edi, [8*edi + 1024] = C4 3C FD 00 04 00 00 (what AsmJit emits; C4 3C .. would be a VEX prefix only if 3C were >= C0) *)
Example leg32_example :
  let sh := mkSh true false 0 1 in
  let s := mkS p0 KLeg false false 0 false 0 0 0 196 0 false false (MMem 7 (mkM BNone (Some 7) 3 1024)) 0 in
  wf_leg32 sh s = true /\ wf M32 sh s = false /\ senc M32 sh s (mkC false 0 false) = [196; 60; 253; 0; 4; 0; 0] /\
  sdec M32 sh [196; 60; 253; 0; 4; 0; 0; 144] = Some (s, 7%nat).
Proof. vm_compute. repeat split; reflexivity. Qed.

(* C01 round 6 -- byte-exact re-encoding: the bytes of an accepted call are not only DEcodable to the call (the judge), they ARE an output
   of the structural encoder: `reencodes` says that the well-formed instruction s, encoded by `senc_ord` with the prefix bytes in the
   order they stand in the byte string and with the encoder choices observed in it (VEX3 or VEX2, the mod field, SIB or not), gives
   exactly the first len bytes.  A byte string that passes is in the image of the proven encoder -- no duplicated or stray prefix, no
   non-canonical field -- and `reencodes_sdec` ties it back to the round trip.  `reencode_check` evaluates it (extracted) for every row
   that reads AsmJit's bytes. *)
From Coq Require Import ZArith List Bool Lia.
From Verif Require Import X86.X86Model X86.X86Proofs X86.X86Denote X86.X86PrefixOrder X86.X86Leg32.
Import ListNotations.
Local Open Scope Z_scope.

Fixpoint bytes_eqb (a b : bytes) : bool :=
  match a, b with
  | [], [] => true
  | x :: a', y :: b' => (x =? y) && bytes_eqb a' b'
  | _, _ => false
  end.
Lemma bytes_eqb_eq : forall a b, bytes_eqb a b = true -> a = b.
Proof.
  induction a as [|x a IH]; destruct b as [|y b]; cbn; intros H; try discriminate; [reflexivity|].
  apply andb_prop in H. destruct H as [H1 H2]. apply Z.eqb_eq in H1. rewrite H1, (IH _ H2). reflexivity.
Qed.

Definition reencodes (m : mode) (sh : shape) (s : sinst) (c : choices) (ps : bytes) (bs : bytes) (len : nat) : bool :=
  wf m sh s && adm m sh s c && prefix_order_ok ps (s_pfx s) && bytes_eqb (senc_ord ps m sh s c) (firstn len bs).

Theorem reencodes_sdec : forall m sh s c ps bs len, reencodes m sh s c ps bs len = true ->
  bs = senc_ord ps m sh s c ++ skipn len bs /\ sdec m sh bs = Some (s, length (senc_ord ps m sh s c)).
Proof.
  intros m sh s c ps bs len H. unfold reencodes in H.
  apply andb_prop in H. destruct H as [H E]. apply andb_prop in H. destruct H as [H O]. apply andb_prop in H. destruct H as [W A].
  apply bytes_eqb_eq in E.
  assert (Hb : bs = senc_ord ps m sh s c ++ skipn len bs) by (rewrite E; symmetry; apply firstn_skipn).
  split; [exact Hb|]. rewrite Hb at 1. apply sdec_senc_ord; assumption.
Qed.

(* the 32-bit les / lds / bound (outside X86Model.wf, inside X86Leg32.wf_leg32) *)
Definition reencodes32 (sh : shape) (s : sinst) (c : choices) (ps : bytes) (bs : bytes) (len : nat) : bool :=
  wf_leg32 sh s && adm M32 sh s c && prefix_order_ok ps (s_pfx s) && bytes_eqb (senc_ord ps M32 sh s c) (firstn len bs).

Theorem reencodes32_sdec : forall sh s c ps bs len, reencodes32 sh s c ps bs len = true ->
  bs = senc_ord ps M32 sh s c ++ skipn len bs /\ sdec M32 sh bs = Some (s, length (senc_ord ps M32 sh s c)).
Proof.
  intros sh s c ps bs len H. unfold reencodes32 in H.
  apply andb_prop in H. destruct H as [H E]. apply andb_prop in H. destruct H as [H O]. apply andb_prop in H. destruct H as [W A].
  apply bytes_eqb_eq in E.
  assert (Hb : bs = senc_ord ps M32 sh s c ++ skipn len bs) by (rewrite E; symmetry; apply firstn_skipn).
  split; [exact Hb|]. rewrite Hb at 1. apply sdec_ord_transfer; [apply sdec_senc_leg32; assumption | | exact O].
  unfold wf_leg32 in W. do 15 (apply andb_prop in W; destruct W as [W ?]). exact W.
Qed.

(* the prefix bytes at the front of a byte string, as the prefix decoder consumes them *)
Fixpoint lead_prefixes (fuel : nat) (bs : bytes) : bytes :=
  match fuel, bs with
  | S f, b :: r => if is_prefix_byte b then b :: lead_prefixes f r else []
  | _, _ => []
  end.

(* the encoder choices a byte string exhibits: first byte after the prefixes = C4 (three-byte VEX); mod and rm of the ModRM byte *)
Definition observed_choices (m : mode) (p : prefixes) (bs_after_prefixes rest_after_head : bytes) : choices :=
  let v3 := match bs_after_prefixes with b :: _ => b =? 196 | [] => false end in
  match rest_after_head with
  | mb :: _ => mkC v3 (mb / 64) (negb (a16 m p) && (mb mod 8 =? 4))
  | [] => mkC v3 0 false
  end.

Definition reencode_check (bucket : Z -> list row) (m : mode) (bs : bytes) : list (Z * bool) :=
  match sdec_head m bs with
  | Some (h, rest) =>
      let ps := lead_prefixes 14 bs in
      let after := skipn (length ps) bs in
      flat_map (fun r =>
        if head_ok m r h then
          let sh := shape_of_row m r h in
          match sdec_tail m h sh rest with
          | Some (s, r2) =>
              if tail_ok m r s then
                let c := observed_choices m (s_pfx s) after rest in
                [(r_id r, reencodes m sh s c ps bs (length bs - length r2) ||
                          (negb (is64 m) && reencodes32 sh s c ps bs (length bs - length r2)))]
              else []
          | None => []
          end
        else []) (bucket (rh_opc h))
  | None => []
  end.

(* non-vacuity: lock add word ptr fs:[bx], ax in AsmJit's prefix order (F0 64 67 66 01 07) re-encodes; with a duplicated 66 it still
   DEcodes to the same instruction but is no encoder output *)
Example reencodes_example :
  let sh := mkSh true false 0 1 in
  let s := mkS (mkP true false false true true 5) KLeg false false 0 false 0 0 0 1 0 false false (MMem 0 (mkM (BReg 3) None 0 0)) 0 in
  reencodes M32 sh s (mkC false 0 false) [240; 100; 103; 102] [240; 100; 103; 102; 1; 7; 144] 6 = true /\
  reencodes M32 sh s (mkC false 0 false) [240; 100; 103; 102; 102] [240; 100; 103; 102; 102; 1; 7; 144] 7 = false /\
  sdec M32 sh [240; 100; 103; 102; 102; 1; 7; 144] = Some (s, 7%nat).
Proof. vm_compute. repeat split; reflexivity. Qed.

(* ------------------------------------------------------------------ readings do not depend on the order of the prefixes
   `denote` looks at its input only through the head decoder and the total length: an admissible prefix order gives the same readings as
   the canonical one, so the containment theorem (denote_senc) holds for every prefix order. *)
From Verif Require Import X86.X86DenoteProofs.

Theorem denote_any_order : forall bucket m ps p X, wf_pfx p = true -> prefix_order_ok ps p = true ->
  denote bucket m (ps ++ X) = denote bucket m (enc_prefixes p ++ X).
Proof.
  intros bucket m ps p X Hw Ho. unfold denote. rewrite (sdec_head_any_order m ps p X Hw Ho).
  assert (Hl : length (ps ++ X) = length (enc_prefixes p ++ X)).
  { rewrite !app_length. unfold prefix_order_ok in Ho. apply andb_prop in Ho. destruct Ho as [Ho _]. apply andb_prop in Ho. destruct Ho as [_ Hn].
    apply Nat.eqb_eq in Hn. lia. }
  rewrite Hl. reflexivity.
Qed.

Theorem denote_senc_ord : forall bucket ps m r s c rest ops,
  let sh := shape_of_row m r (rhead_of s) in
  wf m sh s = true -> adm m sh s c = true -> prefix_order_ok ps (s_pfx s) = true -> In r (bucket (s_opc s)) ->
  head_ok m r (rhead_of s) = true -> tail_ok m r s = true -> mk_operands m r s (r_ops r) = Some ops ->
  In (r_id r, rel_from_start (r_ops r) ops (Z.of_nat (length (senc_ord ps m sh s c))), deco_of r s, length (senc_ord ps m sh s c))
     (denote bucket m (senc_ord ps m sh s c ++ rest)).
Proof.
  intros bucket ps m r s c rest ops sh Hwf Hadm Ho Hb Hh Ht Hm.
  assert (Hwp : wf_pfx (s_pfx s) = true).
  { unfold wf in Hwf. do 5 (apply andb_prop in Hwf; destruct Hwf as [Hwf ?]). exact Hwf. }
  assert (Hl : length (senc_ord ps m sh s c) = length (senc m sh s c)).
  { unfold senc_ord, senc. rewrite !app_length. unfold prefix_order_ok in Ho.
    apply andb_prop in Ho. destruct Ho as [Ho' _]. apply andb_prop in Ho'. destruct Ho' as [_ Hn]. apply Nat.eqb_eq in Hn. lia. }
  rewrite Hl. unfold senc_ord. rewrite <- app_assoc. rewrite (denote_any_order bucket m ps (s_pfx s) _ Hwp Ho).
  pose proof (denote_senc bucket m r s c rest ops Hwf Hadm Hb Hh Ht Hm) as D. cbv zeta in D. fold sh in D.
  unfold senc in D. rewrite <- app_assoc in D. exact D.
Qed.

(* what a `true` answer of the extracted check means: the byte string starts with an output of the proved encoder (canonical or 32-bit
   les/lds/bound) for an instruction that the decoder gives back, with exactly that length *)
Theorem reencode_check_sound : forall bucket m bs rid, In (rid, true) (reencode_check bucket m bs) ->
  exists sh s c ps len, bs = senc_ord ps m sh s c ++ skipn len bs /\ sdec m sh bs = Some (s, length (senc_ord ps m sh s c)).
Proof.
  intros bucket m bs rid H. unfold reencode_check in H.
  destruct (sdec_head m bs) as [[h rest]|]; [|contradiction].
  apply in_flat_map in H. destruct H as [r [_ H]].
  destruct (head_ok m r h); [|contradiction].
  destruct (sdec_tail m h (shape_of_row m r h) rest) as [[s r2]|]; [|contradiction].
  destruct (tail_ok m r s); [|contradiction].
  cbv zeta in H. destruct H as [H|[]]. injection H as _ Hb.
  apply orb_prop in Hb. destruct Hb as [Hb|Hb].
  - destruct (reencodes_sdec _ _ _ _ _ _ _ Hb) as [A B]. eauto 8.
  - apply andb_prop in Hb. destruct Hb as [Hm Hb]. destruct m; [|discriminate].
    destruct (reencodes32_sdec _ _ _ _ _ _ Hb) as [A B]. eauto 8.
Qed.

(* C01 -- proofs about `denote` and `judge` (X86Denote.v): what verdict 0 means, that every denotation is backed by the
   structural decoder and a database row, and that the denotation of a structurally encoded database form contains it. *)
From Coq Require Import ZArith List Bool Lia.
From Verif Require Import X86.X86Model X86.X86Proofs X86.X86Denote.
Import ListNotations.
Local Open Scope Z_scope.

Section WithBucket.
  Variable bucket : Z -> list row.

  (* every member of a denotation comes from the structural decoder, a row of the opcode's bucket, the row's constraints
     and the inverse operand map; its length is the number of bytes the structural decoder consumed *)
  Theorem denote_sound : forall m bs rid ops dd len,
    In (rid, ops, dd, len) (denote bucket m bs) ->
    exists h rest r s r2,
      sdec_head m bs = Some (h, rest) /\ In r (bucket (rh_opc h)) /\ r_id r = rid /\
      head_ok m r h = true /\ sdec_tail m h (shape_of_row m r h) rest = Some (s, r2) /\ tail_ok m r s = true /\
      (exists ops0, mk_operands m r s (r_ops r) = Some ops0 /\ ops = rel_from_start (r_ops r) ops0 (Z.of_nat len)) /\
      dd = deco_of r s /\ len = (length bs - length r2)%nat.
  Proof.
    intros m bs rid ops dd len Hin. unfold denote in Hin.
    destruct (sdec_head m bs) as [[h rest]|] eqn:Eh; [|contradiction].
    apply in_flat_map in Hin. destruct Hin as [r [Hr Hx]].
    unfold try_row in Hx.
    destruct (head_ok m r h) eqn:E1; [|contradiction].
    destruct (sdec_tail m h (shape_of_row m r h) rest) as [[s r2]|] eqn:E2; [|contradiction].
    destruct (tail_ok m r s) eqn:E3; [|contradiction].
    destruct (mk_operands m r s (r_ops r)) as [ops'|] eqn:E4; [|contradiction].
    destruct Hx as [Hx|[]]. inversion Hx; subst.
    exists h, rest, r, s, r2. repeat split; auto. exists ops'. auto.
  Qed.

  (* completeness on specification encodings: the structural encoding (any admissible encoder choice, any following
     bytes) of a well-formed instruction that satisfies the constraints of a database row of its opcode bucket denotes that
     row with the operands of the inverse operand map and exactly the emitted length -- for all register ids,
     displacements, immediates and decorations *)
  Theorem denote_senc : forall m r s c rest ops,
    let sh := shape_of_row m r (rhead_of s) in
    wf m sh s = true -> adm m sh s c = true -> In r (bucket (s_opc s)) ->
    head_ok m r (rhead_of s) = true -> tail_ok m r s = true -> mk_operands m r s (r_ops r) = Some ops ->
    In (r_id r, rel_from_start (r_ops r) ops (Z.of_nat (length (senc m sh s c))), deco_of r s, length (senc m sh s c))
       (denote bucket m (senc m sh s c ++ rest)).
  Proof.
    intros m r s c rest ops sh Hwf Hadm Hb Hh Ht Ho.
    destruct (sdec_parts m sh s c rest Hwf Hadm) as [H1 H2]. cbv zeta in H1, H2.
    unfold denote. rewrite H1. apply in_flat_map. exists r. split; [exact Hb|].
    unfold try_row. rewrite Hh. fold sh. rewrite H2. rewrite Ht, Ho. left.
    replace (length (senc m sh s c ++ rest) - length rest)%nat with (length (senc m sh s c)) by (rewrite app_length; lia).
    reflexivity.
  Qed.
  (* the converse of denote_sound (round 6): denote is EXACTLY the set of readings the structural decoder and the rows give -- every row of
     the head's bucket that passes its head and tail constraints and whose operand map is defined contributes its reading *)
  Theorem denote_complete : forall m bs h rest r s r2 ops0,
    sdec_head m bs = Some (h, rest) -> In r (bucket (rh_opc h)) -> head_ok m r h = true ->
    sdec_tail m h (shape_of_row m r h) rest = Some (s, r2) -> tail_ok m r s = true -> mk_operands m r s (r_ops r) = Some ops0 ->
    In (r_id r, rel_from_start (r_ops r) ops0 (Z.of_nat (length bs - length r2)), deco_of r s, (length bs - length r2)%nat) (denote bucket m bs).
  Proof.
    intros m bs h rest r s r2 ops0 Eh Hr E1 E2 E3 E4. unfold denote. rewrite Eh. apply in_flat_map. exists r. split; [exact Hr|].
    unfold try_row. rewrite E1, E2, E3, E4. left. reflexivity.
  Qed.
End WithBucket.

Section WithDb.
  Variable bucket : Z -> list row.
  Variable wbucket : Z -> list row.
  Variable row_of : Z -> option row.

  (* the two readings of `denote2`: one instruction, or FWAIT (9B) followed by a wait row denoting the rest *)
  Theorem denote2_cases : forall m bs rid ops dd len,
    In (rid, ops, dd, len) (denote2 bucket wbucket m bs) ->
    In (rid, ops, dd, len) (denote bucket m bs) \/
    exists rest len', bs = 155 :: rest /\ len = S len' /\ In (rid, ops, dd, len') (denote wbucket m rest).
  Proof.
    intros m bs rid ops dd len H. unfold denote2 in H. apply in_app_or in H. destruct H as [H|H]; [left; exact H|right].
    destruct bs as [|b rest]; [contradiction|]. destruct (b =? 155) eqn:E; [|contradiction].
    apply Z.eqb_eq in E. subst b. apply in_map_iff in H. destruct H as [[[[rid' ops'] dd'] len'] [Hb Hin]].
    cbn in Hb. inversion Hb; subst. exists rest, len'. auto.
  Qed.

  Theorem denote2_wait : forall m rest rid ops dd len,
    In (rid, ops, dd, len) (denote wbucket m rest) -> In (rid, ops, dd, S len) (denote2 bucket wbucket m (155 :: rest)).
  Proof.
    intros m rest rid ops dd len H. unfold denote2. apply in_or_app. right. rewrite Z.eqb_refl.
    apply in_map_iff. exists (rid, ops, dd, len). split; [reflexivity|exact H].
  Qed.

  Theorem denote2_plain : forall m bs x, In x (denote bucket m bs) -> In x (denote2 bucket wbucket m bs).
  Proof. intros m bs x H. unfold denote2. apply in_or_app. left. exact H. Qed.

  (* verdict 0 of `judge`: some denotation of the bytes is a database form of the called mnemonic whose operands and
     decorations match the call, and it consumes exactly all the bytes (nothing else was appended) *)
  Theorem judge_ok_spec : forall m name ops dc bs,
    fst (judge bucket wbucket row_of m name ops dc bs) = 0 ->
    exists rid dops dd r,
      In (rid, dops, dd, length bs) (denote2 bucket wbucket m bs) /\ row_of rid = Some r /\ r_name r = name /\
      deco_match dc dd = true /\
      (ops_match m (r_ops r) (op_bits (r_ops r)) ops dops = true \/
       ops_match m (explicit_specs (r_ops r)) (op_bits (r_ops r)) ops (explicit_only (r_ops r) dops) = true).
  Proof.
    intros m name ops dc bs. unfold judge.
    set (cands := denote2 bucket wbucket m bs).
    match goal with |- context [filter ?f cands] => set (flt := f) end.
    destruct cands as [|c0 cs] eqn:Ec; [cbn; discriminate|].
    destruct (filter flt (c0 :: cs)) as [|g gs] eqn:Eg; [cbn; discriminate|].
    destruct (existsb _ (g :: gs)) eqn:Ex; [|cbn; discriminate].
    intros _. apply existsb_exists in Ex. destruct Ex as [[[[rid dops] dd] len] [Hin Hlen]].
    apply Nat.eqb_eq in Hlen. subst len.
    rewrite <- Eg in Hin. apply filter_In in Hin. destruct Hin as [Hc Hf].
    unfold flt in Hf. destruct (row_of rid) as [r|] eqn:Er; [|discriminate].
    apply andb_prop in Hf. destruct Hf as [Hf Ho]. apply andb_prop in Hf. destruct Hf as [Hn Hd].
    apply Z.eqb_eq in Hn. apply orb_prop in Ho.
    exists rid, dops, dd, r. repeat split; auto.
  Qed.

  (* the converse: whenever some full-length reading of the bytes is a form of the called mnemonic whose decorations and operands
     match, the verdict IS 0 -- verdict 0 is equivalent to the existence of such a reading *)
  Theorem judge_ok_complete : forall m name ops dc bs rid dops dd r,
    In (rid, dops, dd, length bs) (denote2 bucket wbucket m bs) -> row_of rid = Some r -> r_name r = name ->
    deco_match dc dd = true ->
    (ops_match m (r_ops r) (op_bits (r_ops r)) ops dops = true \/
     ops_match m (explicit_specs (r_ops r)) (op_bits (r_ops r)) ops (explicit_only (r_ops r) dops) = true) ->
    fst (judge bucket wbucket row_of m name ops dc bs) = 0.
  Proof.
    intros m name ops dc bs rid dops dd r Hin Er Hn Hd Ho. unfold judge.
    set (cands := denote2 bucket wbucket m bs) in *.
    match goal with |- context [filter ?f cands] => set (flt := f) end.
    assert (Hg : In (rid, dops, dd, length bs) (filter flt cands)).
    { apply filter_In. split; [exact Hin|]. unfold flt. rewrite Er. apply Z.eqb_eq in Hn. rewrite Hn, Hd. cbn [andb].
      destruct Ho as [Ho|Ho]; rewrite Ho; [reflexivity | apply orb_true_r]. }
    destruct cands as [|c0 cs] eqn:Ec; [contradiction|].
    destruct (filter flt (c0 :: cs)) as [|g gs] eqn:Eg; [contradiction|].
    assert (Hx : existsb (fun c => match c with (_, _, _, len) => Nat.eqb len (length bs) end) (g :: gs) = true).
    { apply existsb_exists. exists (rid, dops, dd, length bs). split; [exact Hg | apply Nat.eqb_refl]. }
    rewrite Hx. reflexivity.
  Qed.

  (* verdict 1 is exactly "the bytes have no reading at all" *)
  Theorem judge_no_reading_spec : forall m name ops dc bs,
    fst (judge bucket wbucket row_of m name ops dc bs) = 1 <-> denote2 bucket wbucket m bs = [].
  Proof.
    intros m name ops dc bs. unfold judge.
    set (cands := denote2 bucket wbucket m bs).
    match goal with |- context [filter ?f cands] => set (flt := f) end.
    destruct cands as [|c0 cs]; [cbn; split; reflexivity|].
    destruct (filter flt (c0 :: cs)) as [|g gs]; [cbn; split; discriminate|].
    destruct (existsb _ (g :: gs)); cbn; split; discriminate.
  Qed.

  (* the judge's test of one reading, as a definition (it is the filter of `judge`) *)
  Definition good_reading (m : mode) (name : Z) (ops : list operand) (dc : deco) (c : Z * list operand * deco * nat) : bool :=
    match c with
    | (rid, dops, dd, len) =>
        match row_of rid with
        | Some r =>
            (r_name r =? name) && deco_match dc dd &&
            (ops_match m (r_ops r) (op_bits (r_ops r)) ops dops ||
             ops_match m (explicit_specs (r_ops r)) (op_bits (r_ops r)) ops (explicit_only (r_ops r) dops))
        | None => false
        end
    end.
  Definition reading_len (c : Z * list operand * deco * nat) : nat := match c with (_, _, _, len) => len end.

  (* the four verdicts, each characterised exactly (round 6): 0 = some good reading has the full length; 1 = no reading; 2 = readings,
     none good; 3 = good readings, none of the full length.  Nothing else is ever answered. *)
  Theorem judge_verdicts_spec : forall m name ops dc bs,
    let v := fst (judge bucket wbucket row_of m name ops dc bs) in
    let rs := denote2 bucket wbucket m bs in
    (v = 0 <-> exists c, In c rs /\ good_reading m name ops dc c = true /\ reading_len c = length bs) /\
    (v = 1 <-> rs = []) /\
    (v = 2 <-> rs <> [] /\ forall c, In c rs -> good_reading m name ops dc c = false) /\
    (v = 3 <-> (exists c, In c rs /\ good_reading m name ops dc c = true) /\
               forall c, In c rs -> good_reading m name ops dc c = true -> reading_len c <> length bs).
  Proof.
    intros m name ops dc bs. unfold judge. cbv zeta.
    set (rs := denote2 bucket wbucket m bs).
    change (filter _ rs) with (filter (good_reading m name ops dc) rs).
    match goal with |- context [existsb ?f _] => set (full := f) end.
    assert (Hfull : forall c, full c = true <-> reading_len c = length bs).
    { intros [[[rid dops] dd] len]. unfold full, reading_len. apply Nat.eqb_eq. }
    destruct rs as [|c0 cs] eqn:Ers.
    { cbn. repeat split; try discriminate; try reflexivity;
        try (intros [c [[] _]]); try (intros [[c [[] _]] _]); try (intros [H _]; exfalso; apply H; reflexivity). }
    destruct (filter (good_reading m name ops dc) (c0 :: cs)) as [|g gs] eqn:Eg.
    { assert (Hno : forall c, In c (c0 :: cs) -> good_reading m name ops dc c = false).
      { intros c Hc. destruct (good_reading m name ops dc c) eqn:E; [|reflexivity].
        assert (In c (filter (good_reading m name ops dc) (c0 :: cs))) by (apply filter_In; auto). rewrite Eg in H. contradiction. }
      cbn [fst]. repeat split; try discriminate; try reflexivity.
      - intros [c [Hc [Hgd _]]]. rewrite (Hno c Hc) in Hgd. discriminate.
      - exact Hno.
      - intros [[c [Hc Hgd]] _]. rewrite (Hno c Hc) in Hgd. discriminate. }
    assert (Hin : forall c, In c (g :: gs) <-> In c (c0 :: cs) /\ good_reading m name ops dc c = true).
    { intros c. rewrite <- Eg. apply filter_In. }
    destruct (existsb full (g :: gs)) eqn:Ex; cbn [fst].
    - apply existsb_exists in Ex. destruct Ex as [c [Hc Hl]]. apply Hfull in Hl. apply Hin in Hc. destruct Hc as [Hc Hgd].
      repeat split; try discriminate; try reflexivity.
      + exists c. auto.
      + intros [_ Hno]. rewrite (Hno c Hc) in Hgd. discriminate.
      + intros [_ Hno]. exfalso. exact (Hno c Hc Hgd Hl).
    - assert (Hnl : forall c, In c (c0 :: cs) -> good_reading m name ops dc c = true -> reading_len c <> length bs).
      { intros c Hc Hgd Hl. assert (In c (g :: gs)) by (apply Hin; auto).
        assert (existsb full (g :: gs) = true).
        { apply existsb_exists. exists c. split; [assumption | apply Hfull; exact Hl]. }
        rewrite Ex in H0. discriminate. }
      repeat split; try discriminate; try reflexivity.
      + intros [c [Hc [Hgd Hl]]]. exfalso. exact (Hnl c Hc Hgd Hl).
      + intros [_ Hno]. assert (In g (g :: gs)) by (left; reflexivity). apply Hin in H. destruct H as [Hc Hgd]. rewrite (Hno g Hc) in Hgd. discriminate.
      + exists g. apply Hin. left. reflexivity.
      + exact Hnl.
  Qed.

  (* `other_names` lists exactly the full-length denotations whose row names a different mnemonic: when it is empty (or
     only reviewed aliases), the denotation of the bytes is unique up to operands *)
  Theorem other_names_spec : forall m name bs rid,
    In rid (other_names bucket wbucket row_of m name bs) <->
    exists ops dd r, In (rid, ops, dd, length bs) (denote2 bucket wbucket m bs) /\ row_of rid = Some r /\ r_name r <> name.
  Proof.
    intros m name bs rid. unfold other_names. rewrite in_flat_map. split.
    - intros [[[[rid' ops] dd] len] [Hin Hx]].
      destruct (row_of rid') as [r|] eqn:Er; [|contradiction].
      destruct (Nat.eqb len (length bs) && negb (r_name r =? name)) eqn:Ec; [|contradiction].
      destruct Hx as [<-|[]]. apply andb_prop in Ec. destruct Ec as [E1 E2].
      apply Nat.eqb_eq in E1. subst len. apply negb_true_iff, Z.eqb_neq in E2.
      exists ops, dd, r. auto.
    - intros [ops [dd [r [Hin [Er Hn]]]]]. exists (rid, ops, dd, length bs). split; [exact Hin|].
      rewrite Er. rewrite Nat.eqb_refl. apply Z.eqb_neq in Hn. rewrite Hn. left. reflexivity.
  Qed.

End WithDb.

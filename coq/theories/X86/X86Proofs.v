(* C01 -- proofs about the structural encoder/decoder of X86Model.v: the decoder inverts the encoder for every
   well-formed structural instruction and every admissible encoder choice. *)
From Coq Require Import ZArith List Bool Lia.
From Verif Require Import X86.X86Model.
Import ListNotations.
Local Open Scope Z_scope.

Ltac divmod := Z.div_mod_to_equations; lia.

Ltac bsplit :=
  repeat match goal with
         | H : (_ && _) = true |- _ => apply andb_prop in H; destruct H
         end.

Ltac zb :=
  repeat match goal with
         | H : (_ =? _) = true |- _ => apply Z.eqb_eq in H
         | H : (_ =? _) = false |- _ => apply Z.eqb_neq in H
         | H : (_ <? _) = true |- _ => apply Z.ltb_lt in H
         | H : (_ <? _) = false |- _ => apply Z.ltb_ge in H
         | H : (_ <=? _) = true |- _ => apply Z.leb_le in H
         | H : (_ <=? _) = false |- _ => apply Z.leb_gt in H
         | H : negb _ = true |- _ => apply negb_true_iff in H
         | H : negb _ = false |- _ => apply negb_false_iff in H
         end.

Lemma zin_spec lo v hi : zin lo v hi = true <-> lo <= v < hi.
Proof. unfold zin. rewrite andb_true_iff, Z.leb_le, Z.ltb_lt. tauto. Qed.

Ltac zins :=
  repeat match goal with
         | H : zin _ _ _ = true |- _ => apply zin_spec in H
         end.

(* ------------------------------------------------------------------ little-endian values *)
Lemma le_take_bytes : forall n v rest, 0 <= v < 256 ^ Z.of_nat n ->
  le_take n (le_bytes n v ++ rest) = Some (v, rest).
Proof.
  induction n; intros v rest Hv.
  - simpl in *. replace v with 0 by lia. reflexivity.
  - rewrite Nat2Z.inj_succ, Z.pow_succ_r in Hv by lia.
    cbn [le_bytes le_take app]. rewrite IHn.
    + f_equal. f_equal. divmod.
    + divmod.
Qed.

Lemma le_bytes_length : forall n v, length (le_bytes n v) = n.
Proof. induction n; intros; simpl; auto. Qed.

Lemma sext32_mod d : -2147483648 <= d < 2147483648 -> sext32 (d mod 4294967296) = d.
Proof. intros. unfold sext32. destruct (Z.ltb_spec (d mod 4294967296) 2147483648); divmod. Qed.

Lemma sext16_mod d : -32768 <= d < 32768 -> sext16 (d mod 65536) = d.
Proof. intros. unfold sext16. destruct (Z.ltb_spec (d mod 65536) 32768); divmod. Qed.

Lemma sext8_mod d : -128 <= d < 128 -> sext8 (d mod 256) = d.
Proof. intros. unfold sext8. destruct (Z.ltb_spec (d mod 256) 128); divmod. Qed.

Lemma mod_range32 d : 0 <= d mod 4294967296 < 256 ^ Z.of_nat 4.
Proof. change (256 ^ Z.of_nat 4) with 4294967296. divmod. Qed.

Lemma mod_range16 d : 0 <= d mod 65536 < 256 ^ Z.of_nat 2.
Proof. change (256 ^ Z.of_nat 2) with 65536. divmod. Qed.

(* ------------------------------------------------------------------ prefixes *)
Definition hd_np (bs : bytes) : Prop := match bs with [] => True | b :: _ => is_prefix_byte b = false end.

Lemma dec_prefixes_stop : forall f p bs, hd_np bs -> dec_prefixes (S f) p bs = (p, bs).
Proof. intros f p [|b r] H; simpl in *; [reflexivity | rewrite H; reflexivity]. Qed.

Lemma dec_prefixes_step : forall f p b r, is_prefix_byte b = true ->
  dec_prefixes (S f) p (b :: r) = dec_prefixes f (set_prefix b p) r.
Proof. intros. simpl. rewrite H. reflexivity. Qed.

Lemma dec_prefixes_enc : forall p rest, wf_pfx p = true -> hd_np rest ->
  dec_prefixes 14 p0 (enc_prefixes p ++ rest) = (p, rest).
Proof.
  intros [lk f2 f3 o66 o67 sg] rest Hw Hn. unfold wf_pfx in Hw. cbn [p_seg] in Hw. apply zin_spec in Hw.
  assert (Hs : sg = 0 \/ sg = 1 \/ sg = 2 \/ sg = 3 \/ sg = 4 \/ sg = 5 \/ sg = 6) by lia.
  unfold enc_prefixes; cbn [p_lock p_f2 p_f3 p_66 p_67 p_seg].
  destruct Hs as [-> | [-> | [-> | [-> | [-> | [-> | ->]]]]]];
    destruct lk, f2, f3, o66, o67; cbn [opt negb Z.eqb seg_byte app];
    repeat (rewrite dec_prefixes_step by reflexivity);
    (rewrite dec_prefixes_stop by assumption); reflexivity.
Qed.

(* ------------------------------------------------------------------ byte packing *)
Lemma bitb_true v d : (v / d) mod 2 = 1 -> bitb v d = true.
Proof. intros H. unfold bitb. rewrite H. reflexivity. Qed.
Lemma bitb_false v d : (v / d) mod 2 = 0 -> bitb v d = false.
Proof. intros H. unfold bitb. rewrite H. reflexivity. Qed.

Lemma bitb_b2z hi c lo d : 0 < d -> 0 <= lo < d -> bitb (hi * (2 * d) + d * b2z c + lo) d = c.
Proof.
  intros Hd Hl. destruct c; unfold b2z, Z.b2z; [apply bitb_true | apply bitb_false].
  - replace (hi * (2 * d) + d * 1 + lo) with ((2 * hi + 1) * d + lo) by ring.
    rewrite Z.div_add_l by lia. rewrite Z.div_small by lia. divmod.
  - replace (hi * (2 * d) + d * 0 + lo) with ((2 * hi) * d + lo) by ring.
    rewrite Z.div_add_l by lia. rewrite Z.div_small by lia. divmod.
Qed.

Lemma bitb_nb2z hi c lo d : 0 < d -> 0 <= lo < d -> negb (bitb (hi * (2 * d) + d * nb2z c + lo) d) = c.
Proof.
  intros Hd Hl. unfold nb2z. destruct c; cbn [Z.b2z negb].
  - replace (hi * (2 * d) + d * (1 - 1) + lo) with (hi * (2 * d) + d * b2z false + lo) by (unfold b2z; simpl; ring).
    rewrite bitb_b2z by assumption. reflexivity.
  - replace (hi * (2 * d) + d * (1 - 0) + lo) with (hi * (2 * d) + d * b2z true + lo) by (unfold b2z; simpl; ring).
    rewrite bitb_b2z by assumption. reflexivity.
Qed.

Lemma rex_byte_range w r x b : 64 <= rex_byte w r x b < 80.
Proof. destruct w, r, x, b; cbv; split; congruence. Qed.

Lemma rex_byte_bits w r x b :
  bitb (rex_byte w r x b) 8 = w /\ bitb (rex_byte w r x b) 4 = r /\ bitb (rex_byte w r x b) 2 = x /\ bitb (rex_byte w r x b) 1 = b.
Proof. destruct w, r, x, b; cbv; auto. Qed.

Lemma rex_not_prefix w r x b : is_prefix_byte (rex_byte w r x b) = false.
Proof. destruct w, r, x, b; reflexivity. Qed.

Ltac solve_bit :=
  match goal with
  | |- negb (bitb _ _) = true => rewrite bitb_false; [reflexivity | divmod]
  | |- negb (bitb _ _) = false => rewrite bitb_true; [reflexivity | divmod]
  | |- bitb _ _ = true => apply bitb_true; divmod
  | |- bitb _ _ = false => apply bitb_false; divmod
  end.

Ltac dbools := repeat match goal with |- context [Z.b2z ?c] => is_var c; destruct c end; cbn [Z.b2z].
Ltac fld := dbools; first [solve_bit | divmod].

Lemma rh_eq p k rex opc rest w r x b r' v' vvvv l pp map aaa z bb w2 r2 x2 b2 r'2 v'2 vvvv2 l2 pp2 map2 aaa2 z2 bb2 :
  w2 = w -> r2 = r -> x2 = x -> b2 = b -> r'2 = r' -> v'2 = v' -> vvvv2 = vvvv -> l2 = l -> pp2 = pp -> map2 = map ->
  aaa2 = aaa -> z2 = z -> bb2 = bb ->
  Some (mkRH p k rex w2 r2 x2 b2 r'2 v'2 vvvv2 l2 pp2 map2 opc aaa2 z2 bb2, rest) =
  Some (mkRH p k rex w r x b r' v' vvvv l pp map opc aaa z bb, rest : bytes).
Proof. intros; subst; reflexivity. Qed.

Lemma dec_vex3_enc p k w r x b vvvv l pp map opc rest :
  0 <= vvvv < 16 -> 0 <= l < 2 -> 0 <= pp < 4 -> 0 <= map < 32 ->
  let h := mkRH p k false w r x b false false vvvv l pp map opc 0 false false in
  dec_vex3 p k (vex_b1 h :: vex_b2 h :: opc :: rest) = Some (h, rest).
Proof.
  intros Hv Hl Hp Hm h. unfold dec_vex3, h, vex_b1, vex_b2, nb2z, b2z.
  cbn [rh_W rh_R rh_X rh_B rh_vvvv rh_L rh_pp rh_map].
  apply rh_eq; try reflexivity; fld.
Qed.

Lemma dec_vex2_enc p r vvvv l pp opc rest :
  0 <= vvvv < 16 -> 0 <= l < 2 -> 0 <= pp < 4 ->
  let h := mkRH p KVex false false r false false false false vvvv l pp 1 opc 0 false false in
  dec_vex2 p (vex2_b1 h :: opc :: rest) = Some (h, rest).
Proof.
  intros Hv Hl Hp h. unfold dec_vex2, h, vex2_b1, nb2z, b2z.
  cbn [rh_W rh_R rh_X rh_B rh_vvvv rh_L rh_pp rh_map].
  apply rh_eq; try reflexivity; fld.
Qed.

Lemma dec_evex_enc p w r x b r' v' vvvv l pp map opc aaa z bb rest :
  0 <= vvvv < 16 -> 0 <= l < 4 -> 0 <= pp < 4 -> 0 <= map < 8 -> 0 <= aaa < 8 ->
  let h := mkRH p KEvex false w r x b r' v' vvvv l pp map opc aaa z bb in
  dec_evex p (evex_p0 h :: evex_p1 h :: evex_p2 h :: opc :: rest) = Some (h, rest).
Proof.
  intros Hv Hl Hp Hm Ha h. unfold dec_evex, h, evex_p0, evex_p1, evex_p2, nb2z, b2z.
  cbn [rh_W rh_R rh_X rh_B rh_R' rh_V' rh_vvvv rh_L rh_pp rh_map rh_aaa rh_z rh_b].
  replace (bitb (128 * (1 - Z.b2z r) + 64 * (1 - Z.b2z x) + 32 * (1 - Z.b2z b) + 16 * (1 - Z.b2z r') + map) 8) with false
    by (symmetry; fld).
  replace (bitb (128 * Z.b2z w + 8 * (15 - vvvv) + 4 + pp) 4) with true
    by (symmetry; fld).
  cbn [orb negb].
  apply rh_eq; try reflexivity; fld.
Qed.

(* ------------------------------------------------------------------ head *)
Definition wf_head (m : mode) (h : rhead) : bool :=
  wf_pfx (rh_pfx h) && zin 0 (rh_opc h) 256 &&
  match rh_kind h with
  | KLeg =>
      zin 0 (rh_map h) 4 && leg_opc_ok m (rh_map h) (rh_opc h) &&
      (rh_vvvv h =? 0) && negb (rh_V' h) && negb (rh_R' h) && (rh_L h =? 0) && (rh_pp h =? 0) && (rh_aaa h =? 0) &&
      negb (rh_z h) && negb (rh_b h) && (is64 m || negb (rh_rex h)) &&
      (rh_rex h || (negb (rh_W h) && negb (rh_R h) && negb (rh_X h) && negb (rh_B h)))
  | KVex | KXop =>
      negb (rh_rex h) && no_simd_prefix (rh_pfx h) &&
      zin (match rh_kind h with KXop => 8 | _ => 0 end) (rh_map h) 32 &&
      zin 0 (rh_vvvv h) (if is64 m then 16 else 8) && negb (rh_V' h) && negb (rh_R' h) && zin 0 (rh_L h) 2 &&
      zin 0 (rh_pp h) 4 && (rh_aaa h =? 0) && negb (rh_z h) && negb (rh_b h) &&
      (is64 m || (negb (rh_R h) && negb (rh_X h) && negb (rh_B h)))
  | KEvex =>
      negb (rh_rex h) && no_simd_prefix (rh_pfx h) && zin 0 (rh_map h) 8 &&
      zin 0 (rh_vvvv h) (if is64 m then 16 else 8) && zin 0 (rh_L h) 4 && zin 0 (rh_pp h) 4 && zin 0 (rh_aaa h) 8 &&
      (is64 m || (negb (rh_R h) && negb (rh_X h) && negb (rh_B h) && negb (rh_R' h) && negb (rh_V' h)))
  end.

Lemma is_prefix_byte_false b : is_prefix_byte b = false ->
  (b =? 240) = false /\ (b =? 242) = false /\ (b =? 243) = false /\ (b =? 102) = false /\ (b =? 103) = false.
Proof.
  unfold is_prefix_byte. intros H. repeat (apply orb_false_elim in H; destruct H as [H ?]). auto.
Qed.

Lemma dec_legacy_enc p rex w r x b map opc rest :
  0 <= map < 4 -> (map = 0 -> (opc =? 15) = false) -> (map = 1 -> (opc =? 56) = false /\ (opc =? 58) = false) ->
  dec_legacy p rex w r x b (leg_escape map ++ [opc] ++ rest) =
  Some (mkRH p KLeg rex w r x b false false 0 0 0 map opc 0 false false, rest).
Proof.
  intros Hm H0 H1. assert (Hc : map = 0 \/ map = 1 \/ map = 2 \/ map = 3) by lia.
  destruct Hc as [-> | [-> | [-> | ->]]]; cbn [leg_escape Z.eqb app dec_legacy Pos.eqb].
  - rewrite (H0 eq_refl). reflexivity.
  - destruct (H1 eq_refl) as [E1 E2]. rewrite E1, E2. reflexivity.
  - reflexivity.
  - reflexivity.
Qed.

Lemma hd_np_cons b r : is_prefix_byte b = false -> hd_np (b :: r).
Proof. intros; exact H. Qed.

Lemma leg_opc_ok_map0 m opc : leg_opc_ok m 0 opc = true ->
  is_prefix_byte opc = false /\ (opc =? 15) = false /\ (is64 m && (64 <=? opc) && (opc <? 80)) = false /\
  (opc =? 196) = false /\ (opc =? 197) = false /\ (opc =? 98) = false.
Proof.
  unfold leg_opc_ok, zin. cbn [Z.eqb]. intros H. bsplit. zb.
  repeat split; try assumption; try (apply Z.eqb_neq; assumption).
  rewrite <- andb_assoc. assumption.
Qed.

Lemma sdec_head_enc m h vex3 rest : wf_head m h = true ->
  (rh_kind h = KLeg -> rh_map h = 0 -> rh_opc h = 143 -> next_low5_ge8 rest = false) ->
  sdec_head m (enc_prefixes (rh_pfx h) ++ enc_lead h vex3 ++ rest) = Some (h, rest).
Proof.
  destruct h as [p k rex w r x b r' v' vvvv l pp map opc aaa z bb].
  unfold wf_head. cbn [rh_pfx rh_kind rh_rex rh_W rh_R rh_X rh_B rh_R' rh_V' rh_vvvv rh_L rh_pp rh_map rh_opc rh_aaa rh_z rh_b].
  intros Hwf H8f. unfold sdec_head.
  apply andb_prop in Hwf; destruct Hwf as [Hwf Hk]. apply andb_prop in Hwf; destruct Hwf as [Hp Hopc].
  destruct k.
  - (* legacy *)
    bsplit. zb. zins. subst vvvv l pp aaa. subst r' v' z bb.
    unfold enc_lead. cbn [rh_kind rh_rex rh_W rh_R rh_X rh_B rh_map rh_opc].
    assert (Hmap0 : map = 0 -> (opc =? 15) = false).
    { intros ->. apply leg_opc_ok_map0 in H10. tauto. }
    assert (Hmap1 : map = 1 -> (opc =? 56) = false /\ (opc =? 58) = false).
    { intros ->. change (leg_opc_ok m 1 opc) with (negb (opc =? 56) && negb (opc =? 58)) in H10.
      apply andb_prop in H10. destruct H10 as [A B]. apply negb_true_iff in A, B. auto. }
    replace ((opt rex (rex_byte w r x b) ++ leg_escape map ++ [opc]) ++ rest)
      with (opt rex (rex_byte w r x b) ++ leg_escape map ++ [opc] ++ rest) by (rewrite <- !app_assoc; reflexivity).
    destruct rex.
    + (* REX present: 64-bit mode *)
      destruct m; [discriminate|]. cbn [opt app].
      rewrite dec_prefixes_enc; [| assumption | apply hd_np_cons, rex_not_prefix].
      pose proof (rex_byte_range w r x b) as Hr. pose proof (rex_byte_bits w r x b) as [B1 [B2 [B3 B4]]].
      cbn [is64 andb].
      replace (64 <=? rex_byte w r x b) with true by (symmetry; apply Z.leb_le; lia).
      replace (rex_byte w r x b <? 80) with true by (symmetry; apply Z.ltb_lt; lia).
      cbn [andb]. rewrite B1, B2, B3, B4. apply dec_legacy_enc; assumption.
    + (* no REX *)
      cbn [opt app]. cbn [orb] in *. bsplit. zb. subst w r x b.
      assert (Hc : map = 0 \/ map = 1 \/ map = 2 \/ map = 3) by lia.
      destruct Hc as [-> | Hc].
      * pose proof (leg_opc_ok_map0 _ _ H10) as [Q1 [Q2 [Q3 [Q4 [Q5 Q6]]]]].
        cbn [leg_escape Z.eqb app].
        rewrite dec_prefixes_enc; [| assumption | apply hd_np_cons, Q1].
        rewrite Q3, Q4, Q5, Q6. cbn [andb].
        destruct (Z.eqb_spec opc 143) as [E|E].
        -- rewrite (H8f eq_refl eq_refl E). cbn [andb].
           change (opc :: rest) with (leg_escape 0 ++ [opc] ++ rest). apply dec_legacy_enc; [lia | assumption | assumption].
        -- cbn [andb].
           change (opc :: rest) with (leg_escape 0 ++ [opc] ++ rest). apply dec_legacy_enc; [lia | assumption | assumption].
      * change (leg_escape map ++ opc :: rest) with (leg_escape map ++ [opc] ++ rest).
        assert (He : exists e, leg_escape map ++ [opc] ++ rest = 15 :: e).
        { destruct Hc as [-> | [-> | ->]]; cbn; eauto. }
        destruct He as [e He].
        rewrite dec_prefixes_enc; [| assumption | rewrite He; apply hd_np_cons; reflexivity].
        pose proof (dec_legacy_enc p false false false false false map opc rest H Hmap0 Hmap1) as Hd.
        rewrite He in *. destruct m; exact Hd.
  - (* VEX *)
    bsplit. zb. zins. subst aaa. subst rex v' r' z bb.
    unfold enc_lead. cbn [rh_kind rh_opc].
    destruct (vex3 || negb (vex2_ok _)) eqn:EV.
    + cbn [app]. rewrite dec_prefixes_enc; [| assumption | apply hd_np_cons; reflexivity].
      assert (HN : (is64 m || next_ge (vex_b1 (mkRH p KVex false w r x b false false vvvv l pp map opc 0 false false) :: vex_b2 (mkRH p KVex false w r x b false false vvvv l pp map opc 0 false false) :: opc :: rest) 192) = true).
      { destruct m; [| reflexivity]. cbn [is64 orb] in *. bsplit. zb. subst r x.
        cbn [is64 orb next_ge]. unfold vex_b1, nb2z, b2z. cbn [rh_R rh_X rh_B rh_map Z.b2z]. apply Z.leb_le. destruct b; cbn [Z.b2z]; lia. }
      replace (is64 m && (64 <=? 196) && (196 <? 80)) with false by (destruct m; reflexivity).
      cbn [Z.eqb Pos.eqb andb]. rewrite HN. match goal with HS : no_simd_prefix _ = true |- _ => rewrite HS end.
      apply dec_vex3_enc; destruct m; cbn [is64] in *; lia.
    + apply orb_false_elim in EV. destruct EV as [_ EV]. apply negb_false_iff in EV.
      unfold vex2_ok in EV. cbn [rh_map rh_W rh_X rh_B] in EV. bsplit. zb. subst map w x b.
      cbn [app]. rewrite dec_prefixes_enc; [| assumption | apply hd_np_cons; reflexivity].
      assert (HN : (is64 m || next_ge (vex2_b1 (mkRH p KVex false false r false false false false vvvv l pp 1 opc 0 false false) :: opc :: rest) 192) = true).
      { destruct m; [| reflexivity]. cbn [is64 orb] in *. bsplit. zb. subst r.
        cbn [is64 orb next_ge]. unfold vex2_b1, nb2z, b2z. cbn [rh_R rh_vvvv rh_L rh_pp Z.b2z]. apply Z.leb_le. cbn [is64] in *. lia. }
      replace (is64 m && (64 <=? 197) && (197 <? 80)) with false by (destruct m; reflexivity).
      cbn [Z.eqb Pos.eqb andb]. rewrite HN. match goal with HS : no_simd_prefix _ = true |- _ => rewrite HS end.
      apply dec_vex2_enc; destruct m; cbn [is64] in *; lia.
  - (* XOP *)
    bsplit. zb. zins. subst aaa. subst rex v' r' z bb.
    unfold enc_lead. cbn [rh_kind rh_opc app].
    rewrite dec_prefixes_enc; [| assumption | apply hd_np_cons; reflexivity].
    replace (is64 m && (64 <=? 143) && (143 <? 80)) with false by (destruct m; reflexivity).
    cbn [Z.eqb Pos.eqb andb].
    assert (HN : next_low5_ge8 (vex_b1 (mkRH p KXop false w r x b false false vvvv l pp map opc 0 false false) :: vex_b2 (mkRH p KXop false w r x b false false vvvv l pp map opc 0 false false) :: opc :: rest) = true).
    { cbn [next_low5_ge8]. unfold vex_b1, nb2z, b2z. cbn [rh_R rh_X rh_B rh_map]. apply Z.leb_le. destruct r, x, b; cbn [Z.b2z]; divmod. }
    rewrite HN. match goal with HS : no_simd_prefix _ = true |- _ => rewrite HS end.
    apply dec_vex3_enc; destruct m; cbn [is64] in *; lia.
  - (* EVEX *)
    bsplit. zb. zins. subst rex.
    unfold enc_lead. cbn [rh_kind rh_opc app].
    rewrite dec_prefixes_enc; [| assumption | apply hd_np_cons; reflexivity].
    replace (is64 m && (64 <=? 98) && (98 <? 80)) with false by (destruct m; reflexivity).
    cbn [Z.eqb Pos.eqb andb].
    match goal with |- context [next_ge ?l 192] => assert (HN : (is64 m || next_ge l 192) = true) end.
    { destruct m; [| reflexivity]. cbn [is64 orb] in *. bsplit. zb. subst r x.
      cbn [is64 orb next_ge]. unfold evex_p0, nb2z, b2z. cbn [rh_R rh_X rh_B rh_R' rh_map Z.b2z]. apply Z.leb_le. destruct b, r'; cbn [Z.b2z]; lia. }
    rewrite HN. match goal with HS : no_simd_prefix _ = true |- _ => rewrite HS end.
    apply dec_evex_enc; destruct m; cbn [is64] in *; lia.
Qed.

(* ------------------------------------------------------------------ ModRM / SIB / displacement *)
Lemma modrm_unpack md reg rm : 0 <= md < 4 ->
  modrm_byte md reg rm / 64 = md /\ (modrm_byte md reg rm / 8) mod 8 = reg mod 8 /\ modrm_byte md reg rm mod 8 = rm mod 8.
Proof. intros. unfold modrm_byte. repeat split; divmod. Qed.

Lemma sib_unpack sc idx base : 0 <= sc < 4 ->
  sib_byte sc idx base / 64 = sc /\ (sib_byte sc idx base / 8) mod 8 = idx mod 8 /\ sib_byte sc idx base mod 8 = base mod 8.
Proof. intros. unfold sib_byte. repeat split; divmod. Qed.

Lemma ext5_id i : 0 <= i < 32 -> ext5 (id_bit4 i) (id_bit3 i) (i mod 8) = i.
Proof.
  intros. unfold ext5, id_bit4, id_bit3, b2z.
  destruct (Z.eqb_spec ((i / 16) mod 2) 1), (Z.eqb_spec ((i / 8) mod 2) 1); cbn [Z.b2z]; divmod.
Qed.

Lemma ext_id i : 0 <= i < 16 -> ext (id_bit3 i) (i mod 8) = i.
Proof.
  intros. unfold ext, id_bit3, b2z. destruct (Z.eqb_spec ((i / 8) mod 2) 1); cbn [Z.b2z]; divmod.
Qed.

Lemma id_bit3_small i : 0 <= i < 8 -> id_bit3 i = false.
Proof. intros. unfold id_bit3. apply Z.eqb_neq. divmod. Qed.

Lemma id_bit4_small i : 0 <= i < 16 -> id_bit4 i = false.
Proof. intros. unfold id_bit4. apply Z.eqb_neq. divmod. Qed.

Lemma dec_disp_enc md n d rest : 0 < n -> -2147483648 <= d < 2147483648 ->
  (md = 0 /\ d = 0) \/ (md = 1 /\ d mod n = 0 /\ -128 <= d / n < 128) \/ md = 2 ->
  dec_disp md n (disp_bytes md n d ++ rest) = Some (d, rest).
Proof.
  intros Hn Hd [[-> ->] | [[-> [Hm Hq]] | ->]]; unfold dec_disp, disp_bytes; cbn [Z.eqb Pos.eqb app].
  - reflexivity.
  - rewrite sext8_mod by assumption. f_equal. f_equal. divmod.
  - rewrite le_take_bytes by apply mod_range32. rewrite sext32_mod by assumption. reflexivity.
Qed.

Lemma dec_disp16_enc md n d rest : 0 < n -> -32768 <= d < 32768 ->
  (md = 0 /\ d = 0) \/ (md = 1 /\ d mod n = 0 /\ -128 <= d / n < 128) \/ md = 2 ->
  dec_disp16 md n (disp_bytes16 md n d ++ rest) = Some (d, rest).
Proof.
  intros Hn Hd [[-> ->] | [[-> [Hm Hq]] | ->]]; unfold dec_disp16, disp_bytes16; cbn [Z.eqb Pos.eqb app].
  - reflexivity.
  - rewrite sext8_mod by assumption. f_equal. f_equal. divmod.
  - rewrite le_take_bytes by apply mod_range16. rewrite sext16_mod by assumption. reflexivity.
Qed.

Lemma rm16_of_pair b i rm : rm16_of b i = Some rm -> 0 <= rm < 8 /\ rm16_pair rm = (b, i) /\ 0 <= b < 8 /\
  (match i with Some j => 0 <= j < 8 | None => True end) /\ (rm = 6 <-> (b = 5 /\ i = None)).
Proof.
  unfold rm16_of. destruct i as [j|].
  - repeat match goal with |- context [if ?c then _ else _] => destruct c eqn:? end; intros E; inversion E; subst;
      bsplit; zb; subst; cbn; repeat split; try lia; try congruence; try tauto; intros [? ?]; congruence.
  - repeat match goal with |- context [if ?c then _ else _] => destruct c eqn:? end; intros E; inversion E; subst;
      zb; subst; cbn; repeat split; try lia; try congruence; try tauto.
Qed.

Lemma dec_mem_enc m h sh reg mm c lim rest :
  (lim = 8 \/ lim = 16) -> (is64 m = false -> lim = 8) ->
  wf_mem m (a16 m (rh_pfx h)) (sh_vsib sh) lim mm = true ->
  adm_mem (a16 m (rh_pfx h)) (sh_n sh) mm c = true -> 0 < sh_n sh ->
  rh_X h = mp_X (MMem reg mm) -> rh_B h = mp_B (MMem reg mm) ->
  exists mb tl, enc_mem m (a16 m (rh_pfx h)) (sh_n sh) reg mm c = mb :: tl /\ 0 <= mb / 64 < 3 /\ (mb / 8) mod 8 = reg mod 8 /\
     dec_mem m h sh (mb / 64) (mb mod 8) (tl ++ rest) = Some (mm, rest).
Proof.
  intros Hlim H32 Hwf Hadm Hn HX HB.
  destruct mm as [base index sc d]. cbn [mp_X mp_B m_base m_index] in HX, HB.
  unfold wf_mem, adm_mem, enc_mem, dec_mem in *. cbn [m_base m_index m_scale m_disp] in *.
  destruct (a16 m (rh_pfx h)) eqn:Ea.
  - (* 16-bit addressing *)
    assert (is64 m = false) as E64 by (unfold a16 in Ea; destruct m; [reflexivity | discriminate]).
    bsplit. zb. zins. subst sc.
    destruct base as [| b |]; try discriminate.
    + (* disp16 only *)
      destruct index; [discriminate|]. rewrite HX, HB. cbn [orb].
      exists (modrm_byte 0 reg 6), (le_bytes 2 (d mod 65536)).
      destruct (modrm_unpack 0 reg 6 ltac:(lia)) as [U1 [U2 U3]]. rewrite U1, U3.
      repeat split; try lia; try assumption.
      change (6 mod 8) with 6. cbn [Z.eqb Pos.eqb andb].
      rewrite le_take_bytes by apply mod_range16. rewrite sext16_mod by assumption. reflexivity.
    + destruct (rm16_of b index) as [rm|] eqn:Erm; [|discriminate].
      destruct (rm16_of_pair _ _ _ Erm) as [Rr [Rp [Rb [Ri R6]]]].
      assert (HX0 : rh_X h = false).
      { rewrite HX. destruct index as [j|]; [apply id_bit3_small; lia | reflexivity]. }
      assert (HB0 : rh_B h = false) by (rewrite HB; apply id_bit3_small; lia).
      rewrite HX0, HB0. cbn [orb].
      assert (Hmd : 0 <= c_mod c < 3 /\ ((c_mod c = 0 /\ d = 0) \/ (c_mod c = 1 /\ d mod sh_n sh = 0 /\ -128 <= d / sh_n sh < 128) \/ c_mod c = 2) /\ (c_mod c = 0 -> rm <> 6)).
      { destruct (Z.eqb_spec (c_mod c) 0) as [E0|E0].
        - bsplit. zb. split; [lia|]. split; [left; lia|]. intros _ E6. apply R6 in E6. destruct E6 as [-> ->].
          match goal with Hx : (5 =? 5) && _ = false |- _ => cbv in Hx; discriminate Hx end.
        - destruct (Z.eqb_spec (c_mod c) 1) as [E1|E1].
          + bsplit. zb. zins. split; [lia|]. split; [right; left; lia | lia].
          + zb. split; [lia|]. split; [right; right; lia | lia]. }
      destruct Hmd as [Hmd [Hdd H6]].
      exists (modrm_byte (c_mod c) reg rm), (disp_bytes16 (c_mod c) (sh_n sh) d).
      destruct (modrm_unpack (c_mod c) reg rm ltac:(lia)) as [U1 [U2 U3]]. rewrite U1, U3.
      repeat split; try lia; try assumption.
      replace (rm mod 8) with rm by divmod.
      replace ((c_mod c =? 0) && (rm =? 6)) with false.
      2:{ symmetry. apply andb_false_iff. destruct (Z.eqb_spec (c_mod c) 0); [right; apply Z.eqb_neq; auto | left; reflexivity]. }
      rewrite dec_disp16_enc by assumption. rewrite Rp. reflexivity.
  - (* 32/64-bit addressing *)
    bsplit. zins.
    destruct base as [| b |].
    + (* no base: disp32 *)
      zb.
      assert (HB0 : rh_B h = false) by (rewrite HB; reflexivity).
      destruct ((match index with Some _ => true | None => false end) || c_sib c || is64 m) eqn:Esib.
      * exists (modrm_byte 0 reg 4), (sib_byte sc (match index with Some i => i | None => 4 end) 5 :: le_bytes 4 (d mod 4294967296)).
        destruct (modrm_unpack 0 reg 4 ltac:(lia)) as [U1 [U2 U3]]. rewrite U1, U3.
        repeat split; try lia; try assumption.
        change (4 mod 8) with 4. cbn [Z.eqb Pos.eqb app].
        destruct (sib_unpack sc (match index with Some i => i | None => 4 end) 5 ltac:(lia)) as [S1 [S2 S3]].
        rewrite S1, S2, S3. change (5 mod 8) with 5. cbn [Z.eqb Pos.eqb andb]. rewrite HB0.
        rewrite le_take_bytes by apply mod_range32. rewrite sext32_mod by lia.
        f_equal. f_equal. f_equal.
        destruct index as [i|].
        -- bsplit. zins. rewrite HX. rewrite (ext_id i) by lia.
           destruct (sh_vsib sh); [reflexivity|]. cbn [orb] in *. zb.
           destruct (Z.eqb_spec (i mod 8) 4) as [E4|E4]; [|reflexivity].
           assert (i = 12) by divmod. subst i. reflexivity.
        -- bsplit. zb. match goal with HV : sh_vsib sh = false |- _ => rewrite HV end. rewrite HX. reflexivity.
      * apply orb_false_elim in Esib. destruct Esib as [Esib E64]. apply orb_false_elim in Esib. destruct Esib as [Ei Ec].
        destruct index; [discriminate|]. bsplit. zb. subst sc.
        exists (modrm_byte 0 reg 5), (le_bytes 4 (d mod 4294967296)).
        destruct (modrm_unpack 0 reg 5 ltac:(lia)) as [U1 [U2 U3]]. rewrite U1, U3.
        repeat split; try lia; try assumption.
        change (5 mod 8) with 5. cbn [Z.eqb Pos.eqb andb]. rewrite HX, HB0. cbn [orb].
        rewrite le_take_bytes by apply mod_range32. rewrite sext32_mod by lia. rewrite E64. reflexivity.
    + (* base register *)
      zins.
      assert (Hb16 : 0 <= b < 16) by lia.
      assert (Hmd : 0 <= c_mod c < 3 /\ ((c_mod c = 0 /\ d = 0) \/ (c_mod c = 1 /\ d mod sh_n sh = 0 /\ -128 <= d / sh_n sh < 128) \/ c_mod c = 2) /\ (c_mod c = 0 -> b mod 8 <> 5)).
      { destruct (Z.eqb_spec (c_mod c) 0) as [E0|E0].
        - bsplit. zb. split; [lia|]. split; [left; lia | intros _; assumption].
        - destruct (Z.eqb_spec (c_mod c) 1) as [E1|E1].
          + bsplit. zb. zins. split; [lia|]. split; [right; left; lia | lia].
          + zb. split; [lia|]. split; [right; right; lia | lia]. }
      destruct Hmd as [Hmd [Hdd H5]].
      destruct ((match index with Some _ => true | None => false end) || (b mod 8 =? 4) || c_sib c) eqn:Esib.
      * exists (modrm_byte (c_mod c) reg 4), (sib_byte sc (match index with Some i => i | None => 4 end) b :: disp_bytes (c_mod c) (sh_n sh) d).
        destruct (modrm_unpack (c_mod c) reg 4 ltac:(lia)) as [U1 [U2 U3]]. rewrite U1, U3.
        repeat split; try lia; try assumption.
        change (4 mod 8) with 4. cbn [Z.eqb Pos.eqb app].
        destruct (sib_unpack sc (match index with Some i => i | None => 4 end) b ltac:(lia)) as [S1 [S2 S3]].
        rewrite S1, S2, S3.
        replace ((b mod 8 =? 5) && (c_mod c =? 0)) with false.
        2:{ symmetry. apply andb_false_iff. destruct (Z.eqb_spec (c_mod c) 0); [left; apply Z.eqb_neq; auto | right; reflexivity]. }
        rewrite dec_disp_enc by (assumption || lia).
        rewrite HB. rewrite (ext_id b) by lia.
        f_equal. f_equal. f_equal.
        destruct index as [i|].
        -- bsplit. zins. rewrite HX. rewrite (ext_id i) by lia.
           destruct (sh_vsib sh); [reflexivity|]. cbn [orb] in *. zb.
           destruct (Z.eqb_spec (i mod 8) 4) as [E4|E4]; [|reflexivity].
           assert (i = 12) by divmod. subst i. reflexivity.
        -- bsplit. zb. match goal with HV : sh_vsib sh = false |- _ => rewrite HV end. rewrite HX. reflexivity.
      * apply orb_false_elim in Esib. destruct Esib as [Esib Ec]. apply orb_false_elim in Esib. destruct Esib as [Ei E4].
        destruct index; [discriminate|]. bsplit. zb. subst sc.
        exists (modrm_byte (c_mod c) reg b), (disp_bytes (c_mod c) (sh_n sh) d).
        destruct (modrm_unpack (c_mod c) reg b ltac:(lia)) as [U1 [U2 U3]]. rewrite U1, U3.
        repeat split; try lia; try assumption.
        replace (b mod 8 =? 4) with false by (symmetry; apply Z.eqb_neq; assumption).
        replace ((b mod 8 =? 5) && (c_mod c =? 0)) with false.
        2:{ symmetry. apply andb_false_iff. destruct (Z.eqb_spec (c_mod c) 0); [left; apply Z.eqb_neq; auto | right; reflexivity]. }
        rewrite HX. rewrite dec_disp_enc by (assumption || lia).
        rewrite HB. rewrite (ext_id b) by lia. reflexivity.
    + (* RIP-relative *)
      bsplit. zb. destruct index; [discriminate|]. subst sc.
      exists (modrm_byte 0 reg 5), (le_bytes 4 (d mod 4294967296)).
      destruct (modrm_unpack 0 reg 5 ltac:(lia)) as [U1 [U2 U3]]. rewrite U1, U3.
      repeat split; try lia; try assumption.
      change (5 mod 8) with 5. cbn [Z.eqb Pos.eqb andb]. rewrite HX, HB. cbn [orb].
      rewrite le_take_bytes by apply mod_range32. rewrite sext32_mod by lia.
      match goal with H64 : is64 m = true |- _ => rewrite H64 end. reflexivity.
Qed.

Lemma dec_modrm_enc m h sh mp c lim limx ext_ok rest :
  (lim = 8 \/ lim = 16) -> (is64 m = false -> lim = 8) -> (limx = 8 \/ limx = 16 \/ limx = 32) ->
  wf_modrm m (a16 m (rh_pfx h)) sh lim limx ext_ok mp = true ->
  (match mp with MMem _ mm => adm_mem (a16 m (rh_pfx h)) (sh_n sh) mm c = true | _ => True end) -> 0 < sh_n sh ->
  rh_R h = mp_R mp -> rh_X h = mp_X mp -> rh_B h = mp_B mp -> rh_R' h = mp_R' mp ->
  dec_modrm m h sh (enc_modrm m (a16 m (rh_pfx h)) (sh_n sh) mp c ++ rest) = Some (mp, rest).
Proof.
  intros Hlim H32 Hlimx Hwf Hadm Hn HR HX HB HR'.
  unfold dec_modrm, enc_modrm. destruct mp as [r x b r' | reg rm | reg mm]; unfold wf_modrm in Hwf.
  - bsplit. zb. match goal with HS : sh_modrm sh = false |- _ => rewrite HS end.
    cbn [mp_R mp_X mp_B mp_R'] in *. rewrite HR, HX, HB, HR'. reflexivity.
  - bsplit. zins. match goal with HS : sh_modrm sh = true |- _ => rewrite HS end.
    cbn [app]. destruct (modrm_unpack 3 reg rm ltac:(lia)) as [U1 [U2 U3]]. rewrite U1, U2, U3.
    cbn [Z.eqb Pos.eqb]. cbn [mp_R mp_X mp_B mp_R'] in *. rewrite HR, HX, HB, HR'.
    rewrite (ext5_id reg) by lia. rewrite (ext5_id rm) by lia. reflexivity.
  - bsplit. zins. match goal with HS : sh_modrm sh = true |- _ => rewrite HS end.
    destruct (dec_mem_enc m h sh reg mm c lim rest Hlim H32 ltac:(assumption) Hadm Hn HX HB) as [mb [tl [E1 [E2 [E3 E4]]]]].
    rewrite E1. cbn [app].
    replace (mb / 64 =? 3) with false by (symmetry; apply Z.eqb_neq; lia).
    rewrite E4. rewrite E3. cbn [mp_R mp_R'] in *. rewrite HR, HR'. rewrite (ext5_id reg) by lia. reflexivity.
Qed.

Lemma wf_mem_bits m a v lim mm reg : wf_mem m a v lim mm = true -> lim = 8 ->
  mp_X (MMem reg mm) = false /\ mp_B (MMem reg mm) = false.
Proof.
  intros Hwf ->. destruct mm as [base index sc d]. unfold wf_mem in Hwf. cbn [m_base m_index m_scale m_disp mp_X mp_B] in *.
  destruct a.
  - bsplit. destruct base as [|b|]; try discriminate.
    + destruct index; [discriminate|]. auto.
    + destruct (rm16_of b index) as [rm|] eqn:E; [|discriminate].
      destruct (rm16_of_pair _ _ _ E) as [_ [_ [Rb [Ri _]]]].
      split; [destruct index; [apply id_bit3_small; assumption | reflexivity] | apply id_bit3_small; assumption].
  - bsplit. split.
    + destruct index; [|reflexivity]. bsplit. zins. apply id_bit3_small. lia.
    + destruct base as [|b|]; try reflexivity. zins. apply id_bit3_small. lia.
Qed.

Lemma wf_modrm_bits m a sh lim limx e mp : wf_modrm m a sh lim limx e mp = true ->
  (limx <= 16 -> mp_R' mp = false) /\
  (limx = 8 -> lim = 8 -> e = false -> mp_R mp = false /\ mp_X mp = false /\ mp_B mp = false).
Proof.
  intros Hwf. unfold wf_modrm in Hwf. destruct mp as [r x b r' | reg rm | reg mm]; cbn [mp_R mp_R'].
  - bsplit. split.
    + intros Hl. match goal with Hx : (16 <? limx) || negb r' = true |- _ => apply orb_prop in Hx; destruct Hx as [Hx|Hx] end; zb; [lia | assumption].
    + intros _ _ ->. cbn [orb] in *. bsplit. zb. cbn [mp_X mp_B]. auto.
  - bsplit. zins. split.
    + intros. apply id_bit4_small. lia.
    + intros -> _ _. cbn [mp_X mp_B]. rewrite !id_bit3_small by lia. rewrite id_bit4_small by lia. auto.
  - bsplit. zins. split.
    + intros. apply id_bit4_small. lia.
    + intros -> -> _. split; [apply id_bit3_small; lia | eapply wf_mem_bits; [eassumption | reflexivity]].
Qed.

(* ------------------------------------------------------------------ whole instruction *)
Ltac use_hyps := repeat match goal with Hx : ?t = true |- context [?t] => rewrite Hx end; cbn [andb orb negb].

Lemma wf_to_head m sh s : wf m sh s = true -> wf_head m (rhead_of s) = true.
Proof.
  destruct s as [p k rex w vvvv v' l pp map opc aaa z bb mp imm]. unfold wf, wf_head, rhead_of.
  cbn [s_pfx s_kind s_rex s_W s_vvvv s_V' s_L s_pp s_map s_opc s_aaa s_z s_b s_modrm s_imm
       rh_pfx rh_kind rh_rex rh_W rh_R rh_X rh_B rh_R' rh_V' rh_vvvv rh_L rh_pp rh_map rh_opc rh_aaa rh_z rh_b].
  intros H. apply andb_prop in H. destruct H as [H Hk]. bsplit.
  apply andb_true_intro; split; [apply andb_true_intro; split; assumption|].
  destruct k.
  - bsplit.
    match goal with Hm : wf_modrm _ _ _ _ _ _ _ = true |- _ => destruct (wf_modrm_bits _ _ _ _ _ _ _ Hm) as [B1 B2] end.
    rewrite B1 by (destruct rex; lia). use_hyps.
    destruct rex; [reflexivity|]. cbn [orb] in *.
    destruct (B2 eq_refl eq_refl eq_refl) as [-> [-> ->]]. use_hyps. reflexivity.
  - bsplit.
    match goal with Hm : wf_modrm _ _ _ _ _ _ _ = true |- _ => destruct (wf_modrm_bits _ _ _ _ _ _ _ Hm) as [B1 B2] end.
    rewrite B1 by (destruct m; cbn [is64]; lia). use_hyps.
    destruct m; [|reflexivity]. cbn [is64 orb] in *.
    destruct (B2 eq_refl eq_refl eq_refl) as [-> [-> ->]]. reflexivity.
  - bsplit.
    match goal with Hm : wf_modrm _ _ _ _ _ _ _ = true |- _ => destruct (wf_modrm_bits _ _ _ _ _ _ _ Hm) as [B1 B2] end.
    rewrite B1 by (destruct m; cbn [is64]; lia). use_hyps.
    destruct m; [|reflexivity]. cbn [is64 orb] in *.
    destruct (B2 eq_refl eq_refl eq_refl) as [-> [-> ->]]. reflexivity.
  - bsplit.
    match goal with Hm : wf_modrm _ _ _ _ _ _ _ = true |- _ => destruct (wf_modrm_bits _ _ _ _ _ _ _ Hm) as [B1 B2] end.
    use_hyps.
    destruct m; [|reflexivity]. cbn [is64 orb] in *.
    destruct (B2 eq_refl eq_refl eq_refl) as [-> [-> ->]]. rewrite B1 by lia. use_hyps. reflexivity.
Qed.

Lemma wf_modrm_of m sh s : wf m sh s = true -> exists lim limx e,
  (lim = 8 \/ lim = 16) /\ (is64 m = false -> lim = 8) /\ (limx = 8 \/ limx = 16 \/ limx = 32) /\
  wf_modrm m (a16 m (s_pfx s)) sh lim limx e (s_modrm s) = true.
Proof.
  unfold wf. intros H. apply andb_prop in H. destruct H as [_ Hk]. destruct (s_kind s); bsplit.
  - exists (if s_rex s then 16 else 8), (if s_rex s then 16 else 8), (s_rex s).
    repeat split; try assumption.
    + destruct (s_rex s); auto.
    + intros E. rewrite E in *. cbn [orb] in *. zb. match goal with Hr : s_rex s = false |- _ => rewrite Hr end. reflexivity.
    + destruct (s_rex s); auto.
  - exists (if is64 m then 16 else 8), (if is64 m then 16 else 8), (is64 m).
    repeat split; try assumption; destruct (is64 m); auto; discriminate.
  - exists (if is64 m then 16 else 8), (if is64 m then 16 else 8), (is64 m).
    repeat split; try assumption; destruct (is64 m); auto; discriminate.
  - exists (if is64 m then 16 else 8), (if is64 m then 32 else 8), (is64 m).
    repeat split; try assumption; destruct (is64 m); auto; discriminate.
Qed.

Lemma assemble_rhead_of s : assemble (rhead_of s) (s_modrm s) (s_imm s) = s.
Proof. destruct s; reflexivity. Qed.

Lemma sdec_parts m sh s c rest : wf m sh s = true -> adm m sh s c = true ->
  let tl := enc_modrm m (a16 m (s_pfx s)) (sh_n sh) (s_modrm s) c ++ le_bytes (sh_imm sh) (s_imm s) ++ rest in
  sdec_head m (senc m sh s c ++ rest) = Some (rhead_of s, tl) /\ sdec_tail m (rhead_of s) sh tl = Some (s, rest).
Proof.
  intros Hwf Hadm.
  destruct (wf_modrm_of _ _ _ Hwf) as [lim [limx [e [L1 [L2 [L3 Hm]]]]]].
  assert (Hn : 0 < sh_n sh).
  { unfold wf in Hwf. apply andb_prop in Hwf. destruct Hwf as [Hw _]. bsplit. zb. assumption. }
  assert (Himm : 0 <= s_imm s < 256 ^ Z.of_nat (sh_imm sh)).
  { unfold wf in Hwf. apply andb_prop in Hwf. destruct Hwf as [Hw _]. bsplit. zins. assumption. }
  assert (Hadm' : match s_modrm s with MMem _ mm => adm_mem (a16 m (s_pfx s)) (sh_n sh) mm c = true | _ => True end).
  { unfold adm in Hadm. destruct (s_modrm s); auto. }
  pose proof (dec_modrm_enc m (rhead_of s) sh (s_modrm s) c lim limx e (le_bytes (sh_imm sh) (s_imm s) ++ rest)
                L1 L2 L3 Hm Hadm' Hn eq_refl eq_refl eq_refl eq_refl) as Hmod.
  cbv zeta. split.
  - unfold senc. rewrite <- !app_assoc.
    change (s_pfx s) with (rh_pfx (rhead_of s)) at 1.
    apply (sdec_head_enc m (rhead_of s) (c_vex3 c)); [apply (wf_to_head _ sh); assumption |].
    cbn [rh_kind rh_map rh_opc rhead_of]. intros Ek Emap Eopc.
    assert (H8 : wf_8f s = true).
    { unfold wf in Hwf. apply andb_prop in Hwf. destruct Hwf as [Hw _]. bsplit. assumption. }
    unfold wf_8f in H8. rewrite Ek, Emap, Eopc in H8. cbn [Z.eqb Pos.eqb andb] in H8.
    destruct (s_modrm s) as [| reg rm | reg mm] eqn:Emp; [discriminate | |]; zb.
    + cbn [enc_modrm app next_low5_ge8]. apply Z.leb_gt. unfold modrm_byte. divmod.
    + cbn [enc_modrm]. unfold wf_modrm in Hm. bsplit.
      destruct (dec_mem_enc m (rhead_of s) sh reg mm c lim rest L1 L2 ltac:(cbn [rh_pfx rhead_of]; eassumption) Hadm' Hn
                  ltac:(cbn [rh_X rhead_of]; rewrite Emp; reflexivity) ltac:(cbn [rh_B rhead_of]; rewrite Emp; reflexivity))
        as [mb [tl [E1 [E2 [E3 _]]]]].
      cbn [rh_pfx rhead_of] in E1. rewrite E1. cbn [app next_low5_ge8]. apply Z.leb_gt. divmod.
  - unfold sdec_tail. cbn [rh_pfx rhead_of] in Hmod. rewrite Hmod.
    rewrite le_take_bytes by assumption. rewrite assemble_rhead_of. reflexivity.
Qed.

Theorem sdec_senc m sh s c rest : wf m sh s = true -> adm m sh s c = true ->
  sdec m sh (senc m sh s c ++ rest) = Some (s, length (senc m sh s c)).
Proof.
  intros Hwf Hadm. destruct (sdec_parts m sh s c rest Hwf Hadm) as [H1 H2].
  unfold sdec. rewrite H1, H2. f_equal. f_equal. rewrite app_length. lia.
Qed.

(* the hypotheses of the round-trip theorem are satisfiable: an EVEX instruction with {k}{z}, registers 31 and 17 (V':vvvv), a SIB memory
   form with r12/r13 and a compressed disp8 (N = 64), 64-bit mode *)
Example wf_adm_example :
  let sh := mkSh true false 1 64 in
  let s := mkS (mkP false false false false false 5) KEvex false true 1 true 2 1 2 88 3 true false
               (MMem 31 (mkM (BReg 12) (Some 13) 2 (-8192))) 127 in
  let c := mkC false 1 false in
  wf M64 sh s = true /\ adm M64 sh s c = true /\
  senc M64 sh s c = [100; 98; 2; 245; 195; 88; 124; 172; 128; 127].
Proof. vm_compute. auto. Qed.

(* C01 -- `denote`: structural decoding (X86Model.sdec_head / sdec_tail) followed by matching against the rows of the
   ISA database (coq/gen/IsaX86Db.v, generated from db/isa_x86.json) and the INVERSE operand map: which instruction
   form with which operands a byte string denotes under the encoding rules of the database.  `judge` compares that
   with the call the assembler was given.  No proofs here (model file); proofs in X86DenoteProofs.v. *)
From Coq Require Import ZArith List Bool.
From Verif Require Import X86.X86Model.
Import ListNotations.
Local Open Scope Z_scope.

(* register classes: 1 r8 (low), 2 r16, 3 r32, 4 r64, 5 mm, 6 xmm, 7 ymm, 8 zmm, 9 k, 10 sreg, 11 creg, 12 dreg, 13 st, 14 bnd,
   15 tmm, 16 r8hi (AH CH DH BH = ids 0..3) ; in memory operands 20 = rip *)
Record opspec := mkO {
  o_kind : Z;        (* 0 register, 1 memory, 2 register or memory, 3 immediate *)
  o_cls : Z;         (* register class of the register alternative (0 none) *)
  o_fixed : Z;       (* fixed register id (-1: any register of the class) *)
  o_slot : Z;        (* 0 not encoded (fixed / implicit), 1 ModRM.reg, 2 ModRM.rm, 3 vvvv, 4 is4 (imm[7:4]), 5 opcode+r,
                        6 immediate bytes, 7 low nibble of the is4 byte, 8 absolute offset (moffs),
                        9 memory addressed by the fixed register o_fixed (string instructions, maskmovdqu, monitor): not
                          encoded; o_immval = 1 when it is the DS-side operand that takes the segment-override prefix,
                        10 branch displacement (rel8/16/32): reported as the target relative to the START of the instruction,
                        11 memory addressed by the register in ModRM.reg (enqcmd / movdir64b destination, es: segment),
                        12 the register after the one in ModRM.reg (second mask of vp2intersect: k+1),
                        13 memory addressed by the register in ModRM.rm of the register form (umonitor) *)
  o_msz : Z;         (* memory operand size in bytes (0 = unspecified) *)
  o_immoff : Z;      (* byte offset of this immediate inside the immediate bytes *)
  o_immsz : Z;       (* size in bytes *)
  o_immval : Z;      (* value of an implicit immediate (-1 none) *)
  o_signed : bool;   (* the immediate field is sign-extended to the operation width (imms8 / imms32) *)
  o_implicit : bool
}.

Record row := mkRow {
  r_id : Z; r_name : Z;
  r_arch : Z;        (* 0 any, 1 32-bit mode only, 2 64-bit mode only *)
  r_kind : Z;        (* 0 legacy, 1 VEX, 2 XOP, 3 EVEX *)
  r_map : Z; r_opc : Z; r_ri : bool;
  r_pp : Z;          (* legacy: 0 none, 1 NP, 2 66, 3 F3, 4 F2, 5 66+F2 ; VEX/XOP/EVEX: the pp field value 0..3 *)
  r_o16 : bool;      (* legacy: 16-bit operand size (66 prefix required outside of r_pp) *)
  r_w : Z;           (* 0 W0, 1 W1, 2 WIG *)
  r_l : Z;           (* 0 128/LZ, 1 256, 2 512, 3 LIG *)
  r_modrm : bool;
  r_mod : Z;         (* 0 any, 1 mod = 11 only, 2 memory only *)
  r_digit : Z;       (* /digit (-1: /r) *)
  r_rmfix : Z;       (* fixed ModRM.rm (-1 none) *)
  r_imm : Z;         (* number of immediate bytes *)
  r_moffs : bool;
  r_suffix : Z;      (* 3DNow!: the opcode is the byte AFTER ModRM/displacement (0F 0F /r xx); -1 otherwise *)
  r_f23 : bool;      (* legacy: an F2 / F3 prefix that is not the mandatory prefix is admissible (rep / repne / xacquire / xrelease / bnd) *)
  r_a67 : bool;      (* the 67 prefix is part of the opcode (jecxz / loop with the other count register, invlpga ax) *)    (* the immediate bytes are an absolute memory offset of address-size width (mov al/ax/eax/rax <-> moffs) *)
  r_tt : Z;          (* tuple type code, see disp8n *)
  r_msz : Z;         (* size in bytes of the memory operand (0 unknown) *)
  r_bcst : Z;        (* broadcast element size in bytes (0: no broadcast) *)
  r_k : bool; r_z : bool; r_er : bool; r_sae : bool;
  r_vsib : Z;        (* 0 none, 6 xmm, 7 ymm, 8 zmm index *)
  r_ops : list opspec
}.

Inductive operand :=
| OReg (cls id : Z)
| OMem (msz seg bcls bid icls iid shift disp bc : Z)
| OImm (v : Z).

Record deco := mkD { d_lock : bool; d_f2 : bool; d_f3 : bool; d_seg : Z; d_k : Z; d_z : bool; d_rc : Z }.

(* ------------------------------------------------------------------ disp8*N (Intel SDM vol.2 tables 2-34 / 2-35) *)
(* tuple type codes: 0 none, 1 fv, 2 hv, 3 fvm, 4 t1s, 5 t1f, 6 t2, 7 t4, 8 t8, 9 hvm, 10 qvm, 11 ovm, 12 m128, 13 movddup,
   14 qv, 15 fm (full mem), 16 t1 (tuple1, fixed) *)
Definition vlen (l : Z) : Z := if l =? 0 then 16 else if l =? 1 then 32 else 64.

Definition disp8n (r : row) (w : bool) (l : Z) (b : bool) : Z :=
  let t := r_tt r in
  if negb (r_kind r =? 3) then 1 else
  if b then (if 0 <? r_bcst r then r_bcst r else 1) else
  if (t =? 1) || (t =? 3) || (t =? 15) then vlen l else
  if (t =? 2) || (t =? 9) then vlen l / 2 else
  if (t =? 14) || (t =? 10) then vlen l / 4 else
  if t =? 11 then vlen l / 8 else
  if (t =? 4) || (t =? 5) || (t =? 16) then (if 0 <? r_msz r then r_msz r else if w then 8 else 4) else
  if t =? 6 then (if w then 16 else 8) else
  if t =? 7 then (if w then 32 else 16) else
  if t =? 8 then 32 else
  if t =? 12 then 16 else
  if t =? 13 then (if l =? 0 then 8 else vlen l) else 1.

(* ------------------------------------------------------------------ row matching against a decoded head *)
Definition leg_pp_ok (r : row) (p : prefixes) : bool :=
  let want66 := (r_pp r =? 2) || (r_pp r =? 5) || r_o16 r in
  Bool.eqb (p_66 p) want66 &&
  (if r_pp r =? 1 then negb (p_f2 p) && negb (p_f3 p)
   else if r_pp r =? 3 then p_f3 p
   else if (r_pp r =? 4) || (r_pp r =? 5) then p_f2 p
   else true) &&
  (* F2 / F3 select another instruction of the same opcode unless the form admits them as rep / hle / bnd prefixes *)
  (r_f23 r || (implb (p_f2 p) ((r_pp r =? 4) || (r_pp r =? 5)) && implb (p_f3 p) (r_pp r =? 3))).

Definition head_ok (m : mode) (r : row) (h : rhead) : bool :=
  (if r_arch r =? 1 then negb (is64 m) else if r_arch r =? 2 then is64 m else true) &&
  (r_map r =? rh_map h) &&
  (if r_ri r then r_opc r / 8 =? rh_opc h / 8 else r_opc r =? rh_opc h) &&
  match rh_kind h with
  | KLeg => (r_kind r =? 0) && leg_pp_ok r (rh_pfx h) && Bool.eqb (rh_W h) (r_w r =? 1)
  | KVex => (r_kind r =? 1) && (r_pp r =? rh_pp h) && ((r_w r =? 2) || Bool.eqb (rh_W h) (r_w r =? 1))
  | KXop => (r_kind r =? 2) && (r_pp r =? rh_pp h) && ((r_w r =? 2) || Bool.eqb (rh_W h) (r_w r =? 1))
  | KEvex => (r_kind r =? 3) && (r_pp r =? rh_pp h) && ((r_w r =? 2) || Bool.eqb (rh_W h) (r_w r =? 1)) &&
             (negb (rh_z h) || r_z r) && ((rh_aaa h =? 0) || r_k r) && (negb (rh_z h) || negb (rh_aaa h =? 0))
  end.

Definition addr_bytes (m : mode) (p : prefixes) : Z :=
  if is64 m then (if p_67 p then 4 else 8) else (if p_67 p then 2 else 4).

Definition shape_of_row (m : mode) (r : row) (h : rhead) : shape :=
  mkSh (r_modrm r) (negb (r_vsib r =? 0)) (Z.to_nat (if r_moffs r then addr_bytes m (rh_pfx h) else r_imm r))
       (disp8n r (rh_W h) (rh_L h) (rh_b h)).

(* ------------------------------------------------------------------ inverse operand map *)
Definition cls_limit (m : mode) (evex : bool) (cls : Z) : Z :=
  if (cls =? 1) || (cls =? 2) || (cls =? 3) || (cls =? 4) || (cls =? 11) || (cls =? 12) then (if is64 m then 16 else 8) else
  if (cls =? 6) || (cls =? 7) || (cls =? 8) then (if is64 m then (if evex then 32 else 16) else 8) else
  if cls =? 10 then 6 else if cls =? 14 then 4 else if cls =? 16 then 4 else 8.

Definition mk_reg (m : mode) (s : sinst) (cls id : Z) : option operand :=
  let evex := match s_kind s with KEvex => true | _ => false end in
  if (0 <=? id) && (id <? cls_limit m evex cls) then
    if cls =? 1 then
      if negb (s_rex s) && (match s_kind s with KLeg => true | _ => false end) && (4 <=? id) && (id <? 8)
      then Some (OReg 16 (id - 4)) else Some (OReg 1 id)
    else if cls =? 10 then Some (OReg 10 (id + 1))
    else Some (OReg cls id)
  else None.

Definition addr_cls (m : mode) (p : prefixes) : Z :=
  if is64 m then (if p_67 p then 3 else 4) else (if p_67 p then 2 else 3).

Definition mk_mem (m : mode) (r : row) (s : sinst) (o : opspec) (mm : smem) : option operand :=
  let ac := addr_cls m (s_pfx s) in
  (* a register-less address keeps its address-size class in the id field (it decides sign- vs zero-extension) *)
  let '(bcls, bid) := match m_base mm with BNone => (0, ac) | BReg i => (ac, i) | BRip => (20, 0) end in
  let '(icls, iid) := match m_index mm with
                      | None => (0, 0)
                      | Some i => if r_vsib r =? 0 then (ac, i) else (r_vsib r, i + 16 * Z.b2z (s_V' s))
                      end in
  let bc := if s_b s then (if 0 <? r_bcst r then vlen (s_L s) / r_bcst r else -1) else 0 in
  if bc =? -1 then None else
  Some (OMem (o_msz o) (p_seg (s_pfx s)) bcls bid icls iid (m_scale mm) (m_disp mm) bc).

Definition imm_field (imm off sz : Z) : Z := (imm / 256 ^ off) mod 256 ^ sz.

Definition mk_operand (m : mode) (r : row) (s : sinst) (o : opspec) : option operand :=
  let sl := o_slot o in
  if sl =? 0 then
    if o_kind o =? 3 then Some (OImm (o_immval o))
    else if o_kind o =? 0 then
      (if o_cls o =? 10 then Some (OReg 10 (o_fixed o)) else Some (OReg (o_cls o) (o_fixed o)))
    else None
  else if sl =? 1 then
    match s_modrm s with
    | MReg reg _ => mk_reg m s (o_cls o) reg
    | MMem reg _ => mk_reg m s (o_cls o) reg
    | MNone _ _ _ _ => None
    end
  else if sl =? 2 then
    match s_modrm s with
    | MReg _ rm => if o_kind o =? 1 then None else mk_reg m s (o_cls o) rm
    | MMem _ mm => if o_kind o =? 0 then None else mk_mem m r s o mm
    | MNone _ _ _ _ => None
    end
  else if sl =? 3 then mk_reg m s (o_cls o) (s_vvvv s + 16 * Z.b2z (s_V' s))
  else if sl =? 4 then mk_reg m s (o_cls o) (s_imm s / 16)
  else if sl =? 5 then
    match s_modrm s with
    | MNone _ _ b _ => mk_reg m s (o_cls o) (8 * Z.b2z b + s_opc s mod 8)
    | _ => None
    end
  else if sl =? 6 then Some (OImm (imm_field (s_imm s) (o_immoff o) (o_immsz o)))
  else if sl =? 7 then Some (OImm (s_imm s mod 16))
  else if sl =? 8 then
    (* absolute offset: an unsigned address of address-size width; reported like a register-less ModRM address (signed 32-bit
       displacement + address-size class) when it is 2 or 4 bytes wide, as the full value when it is 8 bytes wide *)
    let ab := addr_bytes m (s_pfx s) in
    let v := if ab =? 4 then sext32 (s_imm s) else if ab =? 2 then sext16 (s_imm s) else s_imm s in
    Some (OMem (o_msz o) (p_seg (s_pfx s)) 0 (if ab =? 8 then 4 else addr_cls m (s_pfx s)) 0 0 0 v 0)
  else if sl =? 10 then
    let v := imm_field (s_imm s) (o_immoff o) (o_immsz o) in
    Some (OImm (if o_immsz o =? 1 then sext8 v else if o_immsz o =? 2 then sext16 v else sext32 v))
  else if sl =? 11 then
    match s_modrm s with
    | MMem reg _ => Some (OMem (o_msz o) 0 (addr_cls m (s_pfx s)) reg 0 0 0 0 0)
    | _ => None
    end
  else if sl =? 13 then
    (* umonitor: memory addressed by the register in ModRM.rm of the REGISTER form; segment override and 67 apply *)
    match s_modrm s with
    | MReg _ rm => Some (OMem (o_msz o) (p_seg (s_pfx s)) (addr_cls m (s_pfx s)) rm 0 0 0 0 0)
    | _ => None
    end
  else if sl =? 12 then
    match s_modrm s with
    | MReg reg _ => mk_reg m s (o_cls o) (reg + 1)
    | MMem reg _ => mk_reg m s (o_cls o) (reg + 1)
    | MNone _ _ _ _ => None
    end
  else if sl =? 9 then
    Some (OMem (o_msz o) (if o_immval o =? 1 then p_seg (s_pfx s) else 0) (addr_cls m (s_pfx s)) (o_fixed o) 0 0 0 0 0)
  else None.

Fixpoint mk_operands (m : mode) (r : row) (s : sinst) (os : list opspec) : option (list operand) :=
  match os with
  | [] => Some []
  | o :: t => match mk_operand m r s o, mk_operands m r s t with
              | Some x, Some xs => Some (x :: xs)
              | _, _ => None
              end
  end.

Definition has_slot (r : row) (sl : Z) : bool := existsb (fun o => o_slot o =? sl) (r_ops r).
Definition has_mem_operand (r : row) : bool := existsb (fun o => (o_kind o =? 1) || (o_kind o =? 2)) (r_ops r).

(* constraints of the row on the tail: /digit, fixed rm, mod, unused vvvv = 1111b, extension bits of unused fields,
   vector length (or embedded rounding / SAE when EVEX.b is set on a register form), broadcast only on memory forms *)
Definition tail_ok (m : mode) (r : row) (s : sinst) : bool :=
  let is_reg_form := match s_modrm s with MReg _ _ => true | _ => false end in
  let is_mem_form := match s_modrm s with MMem _ _ => true | _ => false end in
  (if r_mod r =? 1 then is_reg_form else if r_mod r =? 2 then is_mem_form else true) &&
  (if 0 <=? r_digit r then
     match s_modrm s with MReg reg _ => reg =? r_digit r | MMem reg _ => reg =? r_digit r | _ => false end
   else true) &&
  (if 0 <=? r_rmfix r then match s_modrm s with MReg _ rm => rm =? r_rmfix r | _ => false end else true) &&
  (has_slot r 3 || ((s_vvvv s =? 0) && (negb (s_V' s) || negb (r_vsib r =? 0)))) &&
  (has_slot r 5 || r_modrm r ||
     match s_modrm s with MNone xr xx xb xr' => negb xr && negb xx && negb xb && negb xr' | _ => true end) &&
  (has_mem_operand r || Bool.eqb (p_67 (s_pfx s)) (r_a67 r)) &&
  ((r_suffix r <? 0) || (s_imm s =? r_suffix r)) &&
  (* fixed-register memory operands: a segment prefix is meaningful only when a DS-side operand exists *)
  (negb (has_slot r 9) || has_slot r 2 || existsb (fun o => (o_slot o =? 9) && (o_immval o =? 1)) (r_ops r) || (p_seg (s_pfx s) =? 0)) &&
  (* EVEX.z with a memory destination is #UD (Intel SDM vol.2 2.7.x): the first operand is the destination *)
  negb (s_z s && is_mem_form && (match r_ops r with o :: _ => o_slot o =? 2 | [] => false end)) &&
  (* EVEX gather / scatter (VSIB forms) require a non-zero mask register *)
  ((r_vsib r =? 0) || negb (r_kind r =? 3) || negb (s_aaa s =? 0)) &&
  match s_kind s with
  | KEvex =>
      if s_b s && is_reg_form then (r_er r || r_sae r) && ((r_l r =? 2) || (r_l r =? 3))
      else ((r_l r =? 3) || (r_l r =? s_L s)) && (s_L s <? 3) && (negb (s_b s) || (0 <? r_bcst r))
  | KLeg => true
  | _ => (r_l r =? 3) || (r_l r =? s_L s)
  end.

Definition deco_of (r : row) (s : sinst) : deco :=
  let p := s_pfx s in
  let leg := r_kind r =? 0 in
  let f2m := leg && ((r_pp r =? 4) || (r_pp r =? 5)) in
  let f3m := leg && (r_pp r =? 3) in
  let is_reg_form := match s_modrm s with MReg _ _ => true | _ => false end in
  mkD (p_lock p) (p_f2 p && negb f2m) (p_f3 p && negb f3m)
      (if has_mem_operand r then 0 else p_seg p)
      (s_aaa s) (s_z s)
      (if s_b s && is_reg_form then (if r_er r then s_L s else 4) else -1).

(* a branch displacement counts from the END of the instruction; add the instruction length *)
Fixpoint rel_from_start (os : list opspec) (xs : list operand) (len : Z) : list operand :=
  match os, xs with
  | o :: os', x :: xs' =>
      (if o_slot o =? 10 then match x with OImm v => OImm (v + len) | _ => x end else x) :: rel_from_start os' xs' len
  | _, _ => xs
  end.

Definition try_row (m : mode) (h : rhead) (rest : bytes) (total : nat) (r : row) : option (Z * list operand * deco * nat) :=
  if head_ok m r h then
    match sdec_tail m h (shape_of_row m r h) rest with
    | Some (s, r2) =>
        if tail_ok m r s then
          match mk_operands m r s (r_ops r) with
          | Some ops => Some (r_id r, rel_from_start (r_ops r) ops (Z.of_nat (total - length r2)), deco_of r s, (total - length r2)%nat)
          | None => None
          end
        else None
    | None => None
    end
  else None.

Section WithDb.
  Variable bucket : Z -> list row.      (* the rows whose opcode byte (or opcode+r range) contains the given byte *)

  Definition denote (m : mode) (bs : bytes) : list (Z * list operand * deco * nat) :=
    match sdec_head m bs with
    | Some (h, rest) =>
        flat_map (fun r => match try_row m h rest (length bs) r with Some x => [x] | None => [] end) (bucket (rh_opc h))
    | None => []
    end.
End WithDb.

(* ------------------------------------------------------------------ judging a call against a denotation *)
Definition wrap64 (v : Z) : Z := v mod 18446744073709551616.

Definition mem_match (m : mode) (call dec : operand) : bool :=
  match call, dec with
  | OMem cs cg cbc cbi cic cii csh cd cb, OMem ds dg dbc dbi dic dii dsh dd db =>
      ((cs =? 0) || (ds =? 0) || (cs =? ds) || negb (db =? 0)) && (cg =? dg) && (cb =? db) &&
      (let same := (cbc =? dbc) && ((cbc =? 0) || (cbc =? 20) || (cbi =? dbi)) &&
                   (cic =? dic) && ((cic =? 0) || ((cii =? dii) && (csh =? dsh))) in
       let swapped := (dbc =? 2) && (dic =? 2) && (cbc =? 2) && (cic =? 2) && (cbi =? dii) && (cii =? dbi) && (csh =? 0) in
       same || swapped) &&
      (if (dbc =? 0) && (dic =? 0) then
         (* absolute address: compare the effective address; dbi is the address-size class (4: 64-bit, sign-extended
            disp32; 3: 32-bit, zero-extended in 64-bit mode; 2: 16-bit) *)
         if dbi =? 4 then wrap64 cd =? wrap64 dd
         else if dbi =? 3 then (if is64 m then wrap64 cd =? dd mod 4294967296 else cd mod 4294967296 =? dd mod 4294967296)
         else cd mod 65536 =? dd mod 65536
       else cd =? dd)
  | _, _ => false
  end.

(* an immediate matches when it denotes the same value modulo the width of the encoded field, and -- for fields that
   are sign-extended to a wider operation -- the same value modulo the operation width *)
Definition imm_match (call dec : operand) (fieldbytes opbits : Z) (signed : bool) : bool :=
  match call, dec with
  | OImm c, OImm d =>
      let fb := 8 * fieldbytes in
      if fieldbytes =? 0 then c =? d else
      (c mod 2 ^ fb =? d) &&
      (if signed && (fb <? opbits) then
         (let sd := if d <? 2 ^ (fb - 1) then d else d - 2 ^ fb in c mod 2 ^ opbits =? sd mod 2 ^ opbits)
       else (- 2 ^ (fb - 1) <=? c) && (c <? 2 ^ fb))
  | _, _ => false
  end.

Definition op_match (m : mode) (o : opspec) (opbits : Z) (call dec : operand) : bool :=
  match call, dec with
  | OReg c i, OReg c' i' => (c =? c') && (i =? i')
  | OMem _ _ _ _ _ _ _ _ _, OMem _ _ _ _ _ _ _ _ _ => mem_match m call dec
  | OImm _, OImm _ =>
      if o_slot o =? 10 then (match call, dec with OImm c, OImm d => c =? d | _, _ => false end) else
      if o_slot o =? 7 then (match call, dec with OImm c, OImm d => (0 <=? c) && (c <? 16) && (c =? d) | _, _ => false end)
      else imm_match call dec (if o_slot o =? 6 then o_immsz o else 0) opbits (o_signed o)
  | _, _ => false
  end.

Fixpoint ops_match (m : mode) (os : list opspec) (opbits : Z) (call dec : list operand) : bool :=
  match os, call, dec with
  | [], [], [] => true
  | o :: os', c :: call', d :: dec' => op_match m o opbits c d && ops_match m os' opbits call' dec'
  | _, _, _ => false
  end.

(* the decoded operand list without the implicit operands (a call may leave them out) *)
Fixpoint explicit_only {A} (os : list opspec) (xs : list A) : list A :=
  match os, xs with
  | o :: os', x :: xs' => if o_implicit o then explicit_only os' xs' else x :: explicit_only os' xs'
  | _, _ => []
  end.
Definition explicit_specs (os : list opspec) : list opspec := filter (fun o => negb (o_implicit o)) os.

Definition cls_bits (c : Z) : Z :=
  if (c =? 1) || (c =? 16) then 8 else if c =? 2 then 16 else if c =? 3 then 32 else if c =? 4 then 64 else 0.

(* operation width used for sign-extended immediates: width of the first general-purpose operand *)
Definition op_bits (os : list opspec) : Z :=
  match os with
  | o :: _ => if 0 <? cls_bits (o_cls o) then cls_bits (o_cls o) else 8 * o_msz o
  | [] => 0
  end.

Definition deco_match (call dec : deco) : bool :=
  Bool.eqb (d_lock call) (d_lock dec) && Bool.eqb (d_f2 call) (d_f2 dec) && Bool.eqb (d_f3 call) (d_f3 dec) &&
  (d_seg call =? d_seg dec) && (d_k call =? d_k dec) && Bool.eqb (d_z call) (d_z dec) && (d_rc call =? d_rc dec).

Section Judge.
  Variable bucket : Z -> list row.
  (* the x87 "wait" forms (fstsw, fstcw, fstenv, fsave, fclex, finit): the database writes them with a leading 9B, which is the
     instruction FWAIT followed by the no-wait form.  Their rows live in a bucket function of their own (`wbucket`, indexed by the
     opcode that FOLLOWS the 9B), and the denotation of a byte string that starts with 9B is, besides the one-instruction reading
     (fwait itself), the two-instruction reading: 9B, then a wait row denoting the REST (one byte longer). *)
  Variable wbucket : Z -> list row.
  Variable row_of : Z -> option row.

  Definition bump (c : Z * list operand * deco * nat) : Z * list operand * deco * nat :=
    match c with (rid, ops, dd, len) => (rid, ops, dd, S len) end.
  Definition denote2 (m : mode) (bs : bytes) : list (Z * list operand * deco * nat) :=
    denote bucket m bs ++ match bs with
                          | b :: rest => if b =? 155 then map bump (denote wbucket m rest) else []
                          | [] => []
                          end.

  (* verdict: 0 = the bytes denote exactly the call and nothing else is appended;
     1 = no structural decoding / no database row; 2 = decodes, but to a different instruction or different operands;
     3 = decodes to the call but the decoded length differs from the number of bytes appended *)
  (* the row ids of the OTHER denotations that consume all the bytes and name a different mnemonic (aliases / duplicates in
     the database, or an ambiguity): reported next to the verdict, judged by the caller against a reviewed alias list *)
  Definition other_names (m : mode) (name : Z) (bs : bytes) : list Z :=
    flat_map (fun c => match c with
                       | (rid, _, _, len) =>
                           match row_of rid with
                           | Some r => if Nat.eqb len (length bs) && negb (r_name r =? name) then [rid] else []
                           | None => []
                           end
                       end) (denote2 m bs).

  Definition judge (m : mode) (name : Z) (ops : list operand) (dc : deco) (bs : bytes) : Z * list (Z * list operand * deco * nat) :=
    let cands := denote2 m bs in
    let good := filter (fun c =>
      match c with
      | (rid, dops, dd, len) =>
          match row_of rid with
          | Some r =>
              (r_name r =? name) && deco_match dc dd &&
              (ops_match m (r_ops r) (op_bits (r_ops r)) ops dops ||
               ops_match m (explicit_specs (r_ops r)) (op_bits (r_ops r)) ops (explicit_only (r_ops r) dops))
          | None => false
          end
      end) cands in
    match cands with
    | [] => (1, [])
    | _ => match good with
           | [] => (2, cands)
           | _ => if existsb (fun c => match c with (_, _, _, len) => Nat.eqb len (length bs) end) good
                  then (0, good) else (3, good)
           end
    end.
End Judge.

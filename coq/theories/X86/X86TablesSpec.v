(* C01 -- specifications of AsmJit's own static encoder tables and of the agreement between its per-instruction opcode data
   and the ISA database.  The tables are dumped from /repo's working tree by harness/c01_dump.cpp into coq/gen/X86Tables.v and
   the boolean checkers below are evaluated over them by the kernel (vm_compute) on every regeneration.  No proofs here. *)
From Coq Require Import ZArith List Bool.
From Verif Require Import X86.X86Model X86.X86Denote X86.X86DbCheck.
Import ListNotations.
Local Open Scope Z_scope.

Definition nthz (l : list Z) (i : Z) : Z := nth (Z.to_nat i) l (-1).
Definition leqb (a b : list Z) : bool := if list_eq_dec Z.eq_dec a b then true else false.

(* ---------------------------------------------------------------- static tables of x86assembler.cpp *)
(* segment_prefix_table[id] is the override byte of segment id (1 es .. 6 gs), the structural model's seg_byte *)
Definition seg_table_ok (t : list Z) : bool :=
  (Z.of_nat (length t) =? 8) &&
  forallb (fun s => nthz t s =? (if (1 <=? s) && (s <=? 6) then seg_byte s else 0)) (zrange 8).

(* opcode_pp_table: 0 none, 1 -> 66, 2 -> F3, 3 -> F2, 7 -> 9B (x87 wait) *)
Definition pp_table_ok (t : list Z) : bool := leqb t [0; 102; 243; 242; 0; 0; 0; 155].

(* opcode_mm_table (size, byte0, byte1): maps 1..3 are the legacy escapes of the structural model, 4 is 0F 01 *)
Definition mm_entry (i : Z) : list Z :=
  if (1 <=? i) && (i <=? 3) then
    (Z.of_nat (length (leg_escape i))) :: nth 0 (leg_escape i) 0 :: nth 1 (leg_escape i) 0 :: nil
  else if i =? 4 then [2; 15; 1] else [0; 0; 0].
Definition mm_table_ok (t : list Z) : bool := leqb t (flat_map mm_entry (zrange 16)).

(* vex_prefix_table[mmmmm & 15]: first byte C4 (VEX3) or 8F (XOP, map >= 8) and the inverted R X B (bits 13..15) and vvvv
   (bits 19..22) fields pre-set *)
Definition vex_prefix_ok (t : list Z) : bool :=
  leqb t (map (fun i => (if i <? 8 then 196 else 143) + 15 * 524288 + 7 * 8192) (zrange 16)).

(* LL from the operand size / 16 and from the register type (values are LL << 29) *)
Definition ll_by_size_ok (t : list Z) : bool :=
  leqb t (map (fun x => 536870912 * (if (x / 4) mod 2 =? 1 then 2 else if (x / 2) mod 2 =? 1 then 1 else 0)) (zrange 16)).
Definition ll_by_reg_type_ok (t : list Z) (vec256 vec512 : Z) : bool :=
  leqb t (map (fun x => 536870912 * (if x =? vec512 then 2 else if x =? vec256 then 1 else 0)) (zrange 16)).

(* cdisp8_shl_table[TT*8 + W*4 + LL] (values << 13): the extra shift a tuple class adds to the base element shift *)
Definition cd_extra (tt w ll : Z) : Z :=
  if tt =? 0 then 0
  else if tt =? 1 then (if ll =? 0 then 0 else if ll =? 1 then 1 else 2)
  else if tt =? 2 then (if ll =? 0 then w else if ll =? 1 then 1 + w else 2 + w)
  else (if ll =? 0 then 0 else if ll =? 1 then 2 else 3).
Definition cdisp8_table_ok (t : list Z) : bool :=
  leqb t (map (fun x => 8192 * cd_extra (x / 8) ((x / 4) mod 2) (x mod 4)) (zrange 32)).

(* 16-bit addressing: ModRM.rm of [base] and [base+index]; the structural model's rm16_of (either operand order) *)
Definition mod16_base_ok (t : list Z) : bool :=
  leqb t (map (fun b => match rm16_of b None with Some rm => rm | None => 255 end) (zrange 8)).
Definition mod16_base_index_ok (t : list Z) : bool :=
  leqb t (map (fun x => match rm16_of (x / 8) (Some (x mod 8)), rm16_of (x mod 8) (Some (x / 8)) with
                        | Some rm, _ => rm | None, Some rm => rm | None, None => 255 end) (zrange 64)).

(* mem_info_table[base type + 32 * index type]: bit 0 base is a GP register, bit 1 has an index (GP or vector), 0x10 label base,
   0x20 rip base, 0x40 / 0x80: the form needs the 67 prefix in 32-bit / 64-bit mode (16-bit resp. 32-bit address registers),
   bits 2..3 always set (REX.R / REX.W pass through) *)
Record regtypes := mkRT { rt_none : Z; rt_label : Z; rt_pc : Z; rt_gp16 : Z; rt_gp32 : Z; rt_gp64 : Z; rt_v128 : Z; rt_v512 : Z }.
Definition mem_info_spec (rt : regtypes) (x : Z) : Z :=
  let b := x mod 32 in let i := (x / 32) mod 32 in
  let isv := (rt_v128 rt <=? i) && (i <=? rt_v512 rt) in
  let kbase := if (rt_gp16 rt <=? b) && (b <=? rt_gp64 rt) then 1 else if b =? rt_pc rt then 32 else if b =? rt_label rt then 16 else 0 in
  let kindex := if ((rt_gp16 rt <=? i) && (i <=? rt_gp64 rt)) || isv then 2 else 0 in
  let a16 := ((b =? rt_gp16 rt) && ((i =? rt_none rt) || (i =? rt_gp16 rt) || isv)) || ((b =? rt_none rt) && (i =? rt_gp16 rt)) ||
             ((b =? rt_label rt) && (i =? rt_gp16 rt)) in
  let a32 := ((b =? rt_gp32 rt) && ((i =? rt_none rt) || (i =? rt_gp32 rt) || isv)) || ((b =? rt_none rt) && (i =? rt_gp32 rt)) ||
             ((b =? rt_label rt) && (i =? rt_gp32 rt)) in
  kbase + kindex + (if a16 then 64 else if a32 then 128 else 0) + 12.
Definition mem_info_ok (rt : regtypes) (t : list Z) : bool := leqb t (map (mem_info_spec rt) (zrange 1024)).

(* ---------------------------------------------------------------- per-instruction opcode data vs. the ISA database *)
Record inst_entry := mkIE { ie_id : Z; ie_name : Z; ie_enc : Z; ie_main : Z; ie_alt : Z; ie_flags : Z; ie_aflags : Z; ie_bcst : Z }.

Definition w_mm (w : Z) : Z := (w / 256) mod 16.
Definition w_opc (w : Z) : Z := w mod 256.
Definition w_cdshl (w : Z) : Z := (w / 8192) mod 8.
Definition w_cdtt (w : Z) : Z := (w / 65536) mod 4.
Definition w_modo (w : Z) : Z := (w / 262144) mod 8.
Definition w_pp (w : Z) : Z := (w / 2097152) mod 8.
Definition w_evexw (w : Z) : bool := (w / 268435456) mod 2 =? 1.

(* the disp8 scale AsmJit applies to a non-broadcast memory operand: 1 << (base shift + tuple-class shift) *)
Definition asm_n (w : Z) (ew : bool) (ll : Z) : Z := 2 ^ (w_cdshl w + cd_extra (w_cdtt w) (Z.b2z ew) ll).

Definition row_has_rm_mem (r : row) : bool := existsb (fun o => (o_slot o =? 2) && ((o_kind o =? 1) || (o_kind o =? 2))) (r_ops r).

(* EVEX row r of the instruction: with the main or the alternative opcode word the compressed displacement scale equals the
   one the database tuple type prescribes (Intel SDM table, X86Denote.disp8n), and the broadcast element size agrees *)
Definition cd_row_agrees (e : inst_entry) (r : row) : bool :=
  let l := if r_l r =? 3 then 0 else r_l r in
  let okw (w : Z) :=
    let ew := if r_w r =? 2 then w_evexw w else (r_w r =? 1) in
    asm_n w ew l =? disp8n r ew l false in
  (okw (ie_main e) || ((0 <? ie_alt e) && okw (ie_alt e))) &&
  ((r_bcst r =? 0) || (r_bcst r =? ie_bcst e)).

Definition cd_inst_agrees (rows : list row) (e : inst_entry) : bool :=
  forallb (fun r => negb ((r_name r =? ie_name e) && (r_kind r =? 3) && row_has_rm_mem r) || cd_row_agrees e r) rows.

(* opcode agreement: some database form of the mnemonic has the prefix / map / opcode byte / (/digit) of the main opcode word *)
Definition pp_agrees (r : row) (pp : Z) : bool :=
  if r_kind r =? 0 then
    (if pp =? 0 then (r_pp r =? 0) || (r_pp r =? 1) else if pp =? 1 then r_pp r =? 2 else if pp =? 2 then r_pp r =? 3
     else if pp =? 3 then (r_pp r =? 4) || (r_pp r =? 5) else false)
  else r_pp r =? pp.
Definition w_wbit (w : Z) : bool := (w / 134217728) mod 2 =? 1.
Definition w_ll (w : Z) : Z := (w / 536870912) mod 4.
Definition f_vex (fl : Z) : bool := (fl / 4194304) mod 2 =? 1.
Definition f_evex (fl : Z) : bool := (fl / 8388608) mod 2 =? 1.

(* encoding kind, W and LL of an opcode word against a row: the instruction must have the row's kind of encoding; a W / LL that is
   FIXED in the word (non-zero: W1, L.256, L.512) must be the row's W / LL (or the row ignores it); zero means "by operands" *)
Definition kind_agrees (fl w : Z) (r : row) : bool :=
  if r_kind r =? 0 then negb (f_vex fl) && negb (f_evex fl) && (w_mm w <? 8)
  else if r_kind r =? 1 then f_vex fl && (w_mm w <? 8)
  else if r_kind r =? 2 then 8 <=? w_mm w
  else f_evex fl.
Definition wl_agrees (w : Z) (r : row) : bool :=
  (if r_kind r =? 3 then negb (w_evexw w) || (1 <=? r_w r) else negb (w_wbit w) || (1 <=? r_w r) || (r_kind r =? 0)) &&
  ((w_ll w =? 0) || (r_kind r =? 0) || (r_l r =? 3) || (r_l r =? w_ll w)).

(* `relax66`: classes whose handler adds the operand-size prefix 66 itself (far call / jmp by the size of the pointer, pextrb/w/d/q
   and extractps to a general register): a word without mandatory prefix also stands for the legacy rows with prefix 66 *)
Definition opcode_row_agrees_g (relax66 : bool) (w : Z) (r : row) : bool :=
  let mm := w_mm w in
  (pp_agrees r (w_pp w) || (relax66 && (w_pp w =? 0) && (r_kind r =? 0) && (r_pp r =? 2))) &&
  (if mm =? 4 then
     (* 0F 01 xx: the database has opcode 01 in map 0F and xx as a fixed ModRM byte *)
     (r_kind r =? 0) && (r_map r =? 1) && (r_opc r =? 1) && (w_opc w =? 192 + 8 * r_digit r + r_rmfix r)
   else if 0 <=? r_suffix r then
     (* 3DNow!: 0F 0F /r xx, the stored opcode byte is the suffix xx *)
     (r_kind r =? 0) && (r_map r =? 1) && (r_opc r =? 15) && (mm =? 1) && (w_opc w =? r_suffix r)
   else (r_map r =? mm) && (r_opc r =? w_opc w) && ((r_digit r <? 0) || (0 <=? r_rmfix r) || (r_digit r =? w_modo w))).
Definition opcode_row_agrees := opcode_row_agrees_g false.
(* the full agreement of one word with one row: opcode, encoding kind, W and LL *)
Definition word_row_agrees_g (relax66 : bool) (fl w : Z) (r : row) : bool :=
  opcode_row_agrees_g relax66 w r && kind_agrees fl (if w_mm w =? 4 then 256 else w) r && wl_agrees w r.
Definition word_row_agrees := word_row_agrees_g false.
(* the main opcode word, or the alternative one (store / immediate forms), is the opcode of some database form of the mnemonic *)
Definition opcode_inst_agrees (rows : list row) (e : inst_entry) : bool :=
  existsb (fun r => (r_name r =? ie_name e) &&
                    (word_row_agrees (ie_flags e) (ie_main e) r || ((0 <? ie_alt e) && word_row_agrees (ie_flags e) (ie_alt e) r))) rows.
(* the converse: EVERY database form of the mnemonic is encoded by the main or the alternative opcode word *)
Definition opcode_inst_covers (rows : list row) (e : inst_entry) : bool :=
  forallb (fun r => negb (r_name r =? ie_name e) ||
                    word_row_agrees (ie_flags e) (ie_main e) r || ((0 <? ie_alt e) && word_row_agrees (ie_flags e) (ie_alt e) r)) rows.

(* classes with the handler-added 66 prefix: forward and converse at once *)
Definition size66_inst_agrees (rows : list row) (e : inst_entry) : bool :=
  let ok r := word_row_agrees_g true (ie_flags e) (ie_main e) r || ((0 <? ie_alt e) && word_row_agrees_g true (ie_flags e) (ie_alt e) r) in
  existsb (fun r => (r_name r =? ie_name e) && ok r) rows && forallb (fun r => negb (r_name r =? ie_name e) || ok r) rows.

(* classes whose handler derives the opcode by the operand size (Opcode::add_arith_by_size: + 1 for a non-byte size, 66 for 16 bits;
   ret: + 1 for the form without immediate): forward and converse, where a word w also stands for w + 1 and for the 66-prefixed rows *)
Definition sizebit_inst_agrees (rows : list row) (e : inst_entry) : bool :=
  let ok1 w r := word_row_agrees_g true (ie_flags e) w r || word_row_agrees_g true (ie_flags e) (w + 1) r in
  let ok r := ok1 (ie_main e) r || ((0 <? ie_alt e) && ok1 (ie_alt e) r) in
  existsb (fun r => (r_name r =? ie_name e) && ok r) rows && forallb (fun r => negb (r_name r =? ie_name e) || ok r) rows.

(* X86Arith (adc add and cmp or sbb sub xor) and X86Rot (rcl rcr rol ror sal sar shl shr): the handler derives, from the one stored
   word with opcode o and /digit g,
     arith: o, o+1 (size), o+2, o+3 (direction), o+4, o+5 (accumulator, written (g << 3) | 4 + size in the handler: needs o = 8 g),
            and the immediate group 80 / 81 / 83 with /g   (the literal 0x80 of the handler, + 1, + 3)
     rot:   o, o+1 with /g (by 1), o+2, o+3 (by cl), o - 0x10, o - 0x10 + 1 (by imm8)
   forward: the stored word itself is a database form; converse: every legacy database form of the mnemonic is one of these *)
Definition arith_row_ok (w : Z) (r : row) : bool :=
  let o := w_opc w in let g := w_modo w in
  (r_kind r =? 0) && (r_map r =? 0) && (o =? 8 * g) &&
  (((r_digit r <? 0) && (o <=? r_opc r) && (r_opc r <=? o + 5)) ||
   ((r_digit r =? g) && ((r_opc r =? 128) || (r_opc r =? 129) || (r_opc r =? 131)))).
Definition rot_row_ok (w : Z) (r : row) : bool :=
  let o := w_opc w in let g := w_modo w in
  (r_kind r =? 0) && (r_map r =? 0) && (r_digit r =? g) &&
  (((o <=? r_opc r) && (r_opc r <=? o + 3)) || (r_opc r =? o - 16) || (r_opc r =? o - 15)).
Definition derived_inst_agrees (ok : Z -> row -> bool) (rows : list row) (e : inst_entry) : bool :=
  existsb (fun r => (r_name r =? ie_name e) && word_row_agrees (ie_flags e) (ie_main e) r) rows &&
  forallb (fun r => negb (r_name r =? ie_name e) || ok (ie_main e) r) rows.

(* further classes (legacy, and the VEX/EVEX vmovd/vmovq/vpextrw classes) whose handler hard-codes some opcodes next to the stored words (call, jmp, imul, nop, push, pop, test, xchg,
   movq): every literal of the handler block is the opcode of a database form of an instruction of the class, and EVERY database form
   of every instruction of the class is a stored word (w, w + 1, 66-prefixed: as sizebit_inst_agrees) or has a literal l of the block
   as opcode: l, l + 1 (size bit) or l - 2 (imul's 6B -> 69) *)
Definition class_lits_agree (tbl : list (inst_entry * list row)) (c : Z) (lits : list (Z * Z)) : bool :=
  let ok1 e w r := word_row_agrees_g true (ie_flags e) w r || word_row_agrees_g true (ie_flags e) (w + 1) r in
  let okw e r := ok1 e (ie_main e) r || ((0 <? ie_alt e) && ok1 e (ie_alt e) r) in
  let okl r := existsb (fun l => (r_map r =? fst l) &&
                                 ((r_opc r =? snd l) || (r_opc r =? snd l + 1) || (r_opc r =? snd l - 2))) lits in
  existsb (fun p => ie_enc (fst p) =? c) tbl &&
  forallb (fun p => negb (ie_enc (fst p) =? c) || forallb (fun r => negb (r_name r =? ie_name (fst p)) || okw (fst p) r || okl r) (snd p)) tbl &&
  forallb (fun l => existsb (fun p => (ie_enc (fst p) =? c) &&
                                      existsb (fun r => (r_name r =? ie_name (fst p)) && (r_map r =? fst l) && (r_opc r =? snd l)) (snd p)) tbl) lits.

(* x87 (FpuOp class): the word holds both opcode bytes: escape byte in bits 10..17, the fixed ModRM byte in bits 0..7 *)
Definition fpu_op_agrees (rows : list row) (e : inst_entry) : bool :=
  let w := ie_main e in
  existsb (fun r => (r_name r =? ie_name e) && (r_kind r =? 0) && (r_map r =? 0) && (r_opc r =? (w / 1024) mod 256) &&
                    (0 <=? r_digit r) && (0 <=? r_rmfix r) && (w mod 256 =? 192 + 8 * r_digit r + r_rmfix r)) rows.

(* x87, the classes that DERIVE their opcodes (x86assembler.cpp, kEncodingFpuArith .. kEncodingFpuStsw): the forms the handler can emit,
   computed from the main / alternative word and the FpuM16/32/64/80 flags exactly as the handler does, as
   (escape opcode byte, register form?, /digit, fixed rm or -1 for an st(i) operand, memory operand size):
   - FpuArith (67): D8 with the second byte of bits 10..17 (st0, sti), DC with the second byte of bits 0..7 (sti, st0), D8 /modo m32, DC /modo m64
   - FpuCom (68): D8 second byte + i, also with the implied st1; memory forms as FpuArith
   - FpuFldFst (69): opcode /modo m32, opcode+4 /modo m64, the alternative word m80 (register forms are hard-coded per instruction id
     in the handler, not in the table: not covered)
   - FpuM (70): opcode+4 /modo m16, opcode /modo m32, the alternative word m64
   - FpuR (71): both bytes in the word, + i;  FpuRDef (72): the same, also with the implied st1
   - FpuStsw (73): the alternative word (both bytes, fixed) for ax, opcode /modo m16 *)
Definition fpu_form := (Z * bool * Z * Z * Z)%type.
Definition w_hi (w : Z) : Z := (w / 1024) mod 256.
Definition sec_digit (b : Z) : Z := if (192 <=? b) && (b mod 8 =? 0) then (b - 192) / 8 else -100.
Definition fl_bit (fl d : Z) : bool := (fl / d) mod 2 =? 1.
Definition fpu_forms (hl : list (Z * Z * Z)) (e : inst_entry) : list fpu_form :=
  let w := ie_main e in let a := ie_alt e in let fl := ie_flags e in
  let opt (c : bool) (f : fpu_form) := if c then [f] else [] in
  let arithmem := [(216, false, w_modo w, -1, 4); (220, false, w_modo w, -1, 8)] in
  let c := ie_enc e in
  if c =? 67 then [(216, true, sec_digit (w_hi w), -1, 0); (220, true, sec_digit (w_opc w), -1, 0)] ++ arithmem
  else if c =? 68 then [(216, true, sec_digit (w_hi w), -1, 0); (216, true, sec_digit (w_hi w), 1, 0)] ++ arithmem
  else if c =? 69 then opt (fl_bit fl 4096) (w_opc w, false, w_modo w, -1, 4) ++ opt (fl_bit fl 8192) (w_opc w + 4, false, w_modo w, -1, 8) ++
                       opt (fl_bit fl 2048) (w_opc a, false, w_modo a, -1, 10) ++
                       (* the register forms are literals of the handler (per instruction id), read from the source text: `hl` *)
                       flat_map (fun t => match t with (nm, esc, sec) => if nm =? ie_name e then [(esc, true, sec_digit sec, -1, 0)] else [] end) hl
  else if c =? 70 then opt (fl_bit fl 2048) (w_opc w + 4, false, w_modo w, -1, 2) ++ opt (fl_bit fl 4096) (w_opc w, false, w_modo w, -1, 4) ++
                       opt (fl_bit fl 8192) (w_opc a, false, w_modo a, -1, 8)
  else if c =? 71 then [(w_hi w, true, sec_digit (w_opc w), -1, 0)]
  else if c =? 72 then [(w_hi w, true, sec_digit (w_opc w), -1, 0); (w_hi w, true, sec_digit (w_opc w), 1, 0)]
  else if c =? 73 then [(w_hi a, true, sec_digit (w_opc a - w_opc a mod 8), w_opc a mod 8, 0); (w_opc w, false, w_modo w, -1, 2)]
  else [].
Definition fpu_row_is (r : row) (f : fpu_form) : bool :=
  match f with
  | (opc, isreg, dg, rmf, msz) =>
      (r_kind r =? 0) && (r_map r =? 0) && (r_pp r <=? 1) && (r_opc r =? opc) && Bool.eqb (r_mod r =? 1) isreg && (r_digit r =? dg) &&
      (r_rmfix r =? rmf) && (r_msz r =? msz)
  end.
(* forward: every form the handler can emit is a database row of the mnemonic; converse: every database row of the mnemonic is one
   of these forms (FpuFldFst: every MEMORY row) *)
Definition fpu_derived_agrees (hl : list (Z * Z * Z)) (rows : list row) (e : inst_entry) : bool :=
  forallb (fun f => existsb (fun r => (r_name r =? ie_name e) && fpu_row_is r f) rows) (fpu_forms hl e) &&
  forallb (fun r => negb (r_name r =? ie_name e) || existsb (fpu_row_is r) (fpu_forms hl e)) rows.

(* mov / movabs / pushw: the instruction table holds no opcode for them; the handler hard-codes it.  The opcode literals of the handler
   block (read from the source text of x86assembler.cpp by tools/c01_tables.py: every `opcode = / += 0xNN` of the block, with the 0F map
   when the line names k000F00) are compared with the database: every literal is the opcode of a legacy form of the mnemonic, and every
   form of the mnemonic has a literal as opcode, or the literal + 1 (the size bit added by add_arith_by_size / `+ (size != 1)`) *)
Definition handler_lits_agree (name : Z) (lits : list (Z * Z)) (rows : list row) : bool :=
  negb (match lits with [] => true | _ => false end) &&
  forallb (fun l => existsb (fun r => (r_name r =? name) && (r_kind r =? 0) && (r_map r =? fst l) && (r_opc r =? snd l)) rows) lits &&
  forallb (fun r => negb (r_name r =? name) ||
                    existsb (fun l => (r_kind r =? 0) && (r_map r =? fst l) && ((r_opc r =? snd l) || (r_opc r =? snd l + 1))) lits) rows.
(* pushw: literals are (has the 66 prefix?, opcode) *)
Definition pushw_lits_agree (name : Z) (lits : list (Z * Z)) (rows : list row) : bool :=
  negb (match lits with [] => true | _ => false end) &&
  existsb (fun r => r_name r =? name) rows &&
  forallb (fun r => negb (r_name r =? name) ||
                    existsb (fun l => (r_kind r =? 0) && (r_map r =? 0) && (r_opc r =? snd l) && Bool.eqb (r_pp r =? 2) (fst l =? 1)) lits) rows.
Definition inst_has (tbl : list (inst_entry * list row)) (name : Z) (f : list row -> bool) : bool :=
  existsb (fun p => (ie_name (fst p) =? name) && f (snd p)) tbl.
Definition fpu_derived_classes : list Z := [67; 68; 69; 70; 71; 72; 73].

Definition zmem (x : Z) (l : list Z) : bool := existsb (Z.eqb x) l.

(* the table pairs every instruction entry with the database rows of its mnemonic (grouped by the translator); the grouping is
   re-checked: every listed row has the entry's mnemonic, row ids increase strictly inside a group, entry mnemonics increase
   strictly, and the groups together have as many rows as the database has rows with one of these mnemonics *)
Fixpoint increasing (l : list Z) : bool :=
  match l with
  | a :: ((b :: _) as t) => (a <? b) && increasing t
  | _ => true
  end.
Definition grouping_ok (rows : list row) (tbl : list (inst_entry * list row)) : bool :=
  forallb (fun p => forallb (fun r => r_name r =? ie_name (fst p)) (snd p) && increasing (map r_id (snd p))) tbl &&
  increasing (map (fun p => ie_name (fst p)) tbl) &&
  (Z.of_nat (length (flat_map snd tbl)) =?
   Z.of_nat (length (filter (fun r => zmem (r_name r) (map (fun p => ie_name (fst p)) tbl)) rows))).

(* C01 -- proofs for X86Unique.v: two rows that both yield a denotation of the same bytes overlap syntactically; hence, for a
   database whose opcode buckets pass `bucket_unique`, all denotations of a byte string name the same mnemonic up to aliases. *)
From Coq Require Import ZArith List Bool Lia.
From Verif Require Import X86.X86Model X86.X86Proofs X86.X86Denote X86.X86DenoteProofs X86.X86DbCheck X86.X86Unique.
Import ListNotations.
Local Open Scope Z_scope.

Lemma sdec_tail_head m h sh rest s r2 : sdec_tail m h sh rest = Some (s, r2) ->
  s_pfx s = rh_pfx h /\ s_kind s = rh_kind h /\ s_L s = rh_L h /\ s_b s = rh_b h /\ s_z s = rh_z h.
Proof.
  unfold sdec_tail. destruct (dec_modrm m h sh rest) as [[mp r1]|]; [|discriminate].
  destruct (le_take (sh_imm sh) r1) as [[imm r3]|]; [|discriminate].
  intros E. inversion E; subst. cbn. auto.
Qed.

(* every row sees the same ModRM key *)
Lemma sdec_tail_key m h sh rest s r2 : sdec_tail m h sh rest = Some (s, r2) -> sh_modrm sh = true ->
  exists reg isreg rm, modrm_key h rest = Some (reg, isreg, rm) /\
    match s_modrm s with
    | MReg reg' rm' => isreg = true /\ reg' = reg /\ rm' = rm
    | MMem reg' _ => isreg = false /\ reg' = reg
    | MNone _ _ _ _ => False
    end.
Proof.
  unfold sdec_tail, dec_modrm. intros E Hm. rewrite Hm in E.
  destruct rest as [|mb r0]; [discriminate|].
  cbn [modrm_key]. exists (ext5 (rh_R' h) (rh_R h) ((mb / 8) mod 8)), (mb / 64 =? 3), (ext5 (rh_X h) (rh_B h) (mb mod 8)).
  split; [reflexivity|].
  destruct (mb / 64 =? 3) eqn:E3.
  - destruct (le_take (sh_imm sh) r0) as [[imm r3]|]; [|discriminate]. inversion E; subst. cbn. auto.
  - destruct (dec_mem m h sh (mb / 64) (mb mod 8) r0) as [[mm r1]|]; [|discriminate].
    destruct (le_take (sh_imm sh) r1) as [[imm r3]|]; [|discriminate]. inversion E; subst. cbn. auto.
Qed.

Lemma sdec_tail_nomodrm m h sh rest s r2 : sdec_tail m h sh rest = Some (s, r2) -> sh_modrm sh = false ->
  match s_modrm s with MNone _ _ _ _ => True | _ => False end.
Proof.
  unfold sdec_tail, dec_modrm. intros E Hm. rewrite Hm in E.
  destruct (le_take (sh_imm sh) rest) as [[imm r3]|]; [|discriminate]. inversion E; subst. cbn. exact I.
Qed.

(* the operand in the ModRM.rm slot fixes the admissible ModRM form *)
Lemma mk_operands_rm_kind m r s : forall os ops, mk_operands m r s os = Some ops ->
  forall o, find (fun o => o_slot o =? 2) os = Some o ->
  match s_modrm s with
  | MReg _ _ => negb (o_kind o =? 1) = true
  | MMem _ _ => negb (o_kind o =? 0) = true
  | MNone _ _ _ _ => False
  end.
Proof.
  induction os as [|o' os IH]; intros ops E o F; [discriminate|].
  cbn [mk_operands] in E.
  destruct (mk_operand m r s o') as [x|] eqn:E1; [|discriminate].
  destruct (mk_operands m r s os) as [xs|] eqn:E2; [|discriminate].
  cbn [find] in F. destruct (o_slot o' =? 2) eqn:Es.
  - inversion F; subst o'. unfold mk_operand in E1.
    apply Z.eqb_eq in Es. rewrite Es in E1. cbn [Z.eqb Pos.eqb] in E1.
    destruct (s_modrm s); [discriminate | |].
    + destruct (o_kind o =? 1); [discriminate | reflexivity].
    + destruct (o_kind o =? 0); [discriminate | reflexivity].
  - eapply IH; eauto.
Qed.

Definition kind_code (k : ekind) : Z := match k with KLeg => 0 | KVex => 1 | KXop => 2 | KEvex => 3 end.

Lemma head_ok_kind m r h : head_ok m r h = true -> r_kind r = kind_code (rh_kind h).
Proof.
  unfold head_ok. intros H. apply andb_prop in H. destruct H as [_ H].
  destruct (rh_kind h); cbn [kind_code]; repeat (apply andb_prop in H; destruct H as [H ?]); apply Z.eqb_eq; assumption.
Qed.

(* a row that yields a denotation satisfies row_compat for the common (mode, head, ModRM key) *)
Lemma parts_compat m h rest r s r2 ops :
  head_ok m r h = true -> sdec_tail m h (shape_of_row m r h) rest = Some (s, r2) -> tail_ok m r s = true ->
  mk_operands m r s (r_ops r) = Some ops ->
  row_compat m h (modrm_key h rest) r = true.
Proof.
  intros Eh Et Eo Em.
  destruct (sdec_tail_head _ _ _ _ _ _ Et) as [Hp [Hk [HL [Hb Hz]]]].
  pose proof (head_ok_kind _ _ _ Eh) as Hrk.
  unfold row_compat. rewrite Eh. cbn [andb].
  unfold tail_ok in Eo.
  repeat match type of Eo with (_ && _) = true => apply andb_prop in Eo; destruct Eo as [Eo ?] end.
  assert (HVL : vex_l_ok r h = true).
  { unfold vex_l_ok. rewrite Hrk. match goal with HL' : match s_kind s with _ => _ end = true |- _ => rewrite Hk in HL' end.
    destruct (rh_kind h); cbn [kind_code Z.eqb Pos.eqb orb]; try reflexivity; rewrite <- HL; assumption. }
  rewrite HVL. cbn [andb].
  destruct (r_modrm r) eqn:Erm; [|reflexivity].
  destruct (sdec_tail_key _ _ _ _ _ _ Et Erm) as [reg [isreg [rm [Ek Hs]]]]. rewrite Ek.
  assert (Hkd : match rm_operand_kind r with Some kd => if kd =? 1 then negb isreg else if kd =? 0 then isreg else true | None => true end = true).
  { unfold rm_operand_kind. destruct (find (fun o => o_slot o =? 2) (r_ops r)) as [o|] eqn:Ef; [|reflexivity].
    pose proof (mk_operands_rm_kind _ _ _ _ _ Em o Ef) as Hm.
    destruct (s_modrm s); [contradiction | |]; destruct Hs as [-> _]; cbn [negb];
      destruct (o_kind o =? 1); destruct (o_kind o =? 0); try reflexivity; discriminate. }
  rewrite Hkd.
  destruct (s_modrm s) as [| reg' rm' | reg' mm].
  - contradiction.
  - destruct Hs as [-> [-> ->]].
    repeat (apply andb_true_intro; split); try reflexivity.
    + destruct (0 <=? r_digit r); [assumption | reflexivity].
    + destruct (0 <=? r_rmfix r); [assumption | reflexivity].
    + destruct (r_mod r =? 1); [reflexivity|]. destruct (r_mod r =? 2); [discriminate | reflexivity].
  - destruct Hs as [-> ->].
    repeat (apply andb_true_intro; split); try reflexivity.
    + destruct (0 <=? r_digit r); [assumption | reflexivity].
    + destruct (0 <=? r_rmfix r); [discriminate | reflexivity].
    + destruct (r_mod r =? 1); [discriminate|]. destruct (r_mod r =? 2); reflexivity.
Qed.

Ltac bsp := repeat match goal with H : (_ && _) = true |- _ => apply andb_prop in H; destruct H end.

Lemma leg_pp_ok_parts r p : leg_pp_ok r p = true -> Bool.eqb (p_66 p) (want66 r) = true /\ f23_ok r (p_f2 p) (p_f3 p) = true.
Proof.
  unfold leg_pp_ok, want66, f23_ok. intros H. bsp. split; [assumption|]. apply andb_true_intro. split; assumption.
Qed.

Lemma eqb_trans3 a b c : Bool.eqb a b = true -> Bool.eqb a c = true -> Bool.eqb b c = true.
Proof. destruct a, b, c; cbn; auto. Qed.

(* two rows compatible with the same mode / head / ModRM key overlap *)
Lemma compat_overlap m h k r1 r2 : row_compat m h k r1 = true -> row_compat m h k r2 = true -> core_overlap r1 r2 = true.
Proof.
  unfold row_compat. intros H1 H2.
  apply andb_prop in H1; destruct H1 as [H1 T1]. apply andb_prop in H1; destruct H1 as [A1 L1].
  apply andb_prop in H2; destruct H2 as [H2 T2]. apply andb_prop in H2; destruct H2 as [A2 L2].
  pose proof (head_ok_kind _ _ _ A1) as K1. pose proof (head_ok_kind _ _ _ A2) as K2.
  unfold head_ok in A1, A2.
  apply andb_prop in A1; destruct A1 as [A1 Q1]. apply andb_prop in A1; destruct A1 as [A1 O1]. apply andb_prop in A1; destruct A1 as [M1 P1].
  apply andb_prop in A2; destruct A2 as [A2 Q2]. apply andb_prop in A2; destruct A2 as [A2 O2]. apply andb_prop in A2; destruct A2 as [M2 P2].
  unfold core_overlap.
  (* arch *)
  assert (C1 : negb ((r_arch r1 =? 1) && (r_arch r2 =? 2)) = true).
  { destruct (r_arch r1 =? 1) eqn:E1; [|reflexivity]. destruct (r_arch r2 =? 2) eqn:E2; [|reflexivity].
    destruct (r_arch r2 =? 1) eqn:E3; [apply Z.eqb_eq in E2, E3; lia|]. destruct (is64 m); discriminate. }
  assert (C2 : negb ((r_arch r1 =? 2) && (r_arch r2 =? 1)) = true).
  { destruct (r_arch r2 =? 1) eqn:E1; [|rewrite andb_false_r; reflexivity]. destruct (r_arch r1 =? 2) eqn:E2; [|reflexivity].
    destruct (r_arch r1 =? 1) eqn:E3; [apply Z.eqb_eq in E2, E3; lia|]. destruct (is64 m); discriminate. }
  rewrite C1, C2. cbn [andb].
  assert (C3 : (r_kind r1 =? r_kind r2) = true) by (apply Z.eqb_eq; congruence).
  assert (C4 : (r_map r1 =? r_map r2) = true) by (apply Z.eqb_eq in P1, P2; apply Z.eqb_eq; congruence).
  rewrite C3, C4. cbn [andb].
  assert (C5 : (if r_ri r1 || r_ri r2 then r_opc r1 / 8 =? r_opc r2 / 8 else r_opc r1 =? r_opc r2) = true).
  { destruct (r_ri r1), (r_ri r2); cbn [orb]; apply Z.eqb_eq in O1, O2; apply Z.eqb_eq; congruence. }
  rewrite C5. cbn [andb].
  (* prefix / W / L block *)
  assert (C6 : (if r_kind r1 =? 0
     then Bool.eqb (want66 r1) (want66 r2) && Bool.eqb (r_w r1 =? 1) (r_w r2 =? 1) &&
          existsb (fun p => f23_ok r1 (fst p) (snd p) && f23_ok r2 (fst p) (snd p)) [(false, false); (false, true); (true, false); (true, true)]
     else (r_pp r1 =? r_pp r2) && ((r_w r1 =? 2) || (r_w r2 =? 2) || Bool.eqb (r_w r1 =? 1) (r_w r2 =? 1)) &&
          (if r_kind r1 =? 3 then true else (r_l r1 =? 3) || (r_l r2 =? 3) || (r_l r1 =? r_l r2))) = true).
  { unfold vex_l_ok in L1, L2. rewrite K1 in *. rewrite K2 in L2.
    assert (VX : forall a b c, (a =? c) = true -> (b =? c) = true -> (a =? b) = true).
    { intros a b c Ha Hb. apply Z.eqb_eq in Ha, Hb. apply Z.eqb_eq. congruence. }
    assert (WX : forall wa wb w, (wa =? 2) || eqb w (wa =? 1) = true -> (wb =? 2) || eqb w (wb =? 1) = true ->
                 (wa =? 2) || (wb =? 2) || eqb (wa =? 1) (wb =? 1) = true).
    { intros wa wb w Ha Hb. destruct (wa =? 2); [reflexivity|]. destruct (wb =? 2); [reflexivity|]. cbn [orb] in *. eapply eqb_trans3; eassumption. }
    assert (LX : forall la lb l, (la =? 3) || (la =? l) = true -> (lb =? 3) || (lb =? l) = true -> (la =? 3) || (lb =? 3) || (la =? lb) = true).
    { intros la lb l Ha Hb. destruct (la =? 3); [reflexivity|]. destruct (lb =? 3); [rewrite orb_true_r; reflexivity|]. cbn [orb] in *.
      apply Z.eqb_eq in Ha, Hb. apply Z.eqb_eq. congruence. }
    destruct (rh_kind h); cbn [kind_code Z.eqb Pos.eqb orb] in *.
    - apply andb_prop in Q1; destruct Q1 as [Q1 W1]. apply andb_prop in Q1; destruct Q1 as [_ PP1].
      apply andb_prop in Q2; destruct Q2 as [Q2 W2]. apply andb_prop in Q2; destruct Q2 as [_ PP2].
      destruct (leg_pp_ok_parts _ _ PP1) as [X1 Y1]. destruct (leg_pp_ok_parts _ _ PP2) as [X2 Y2].
      rewrite (eqb_trans3 _ _ _ X1 X2). rewrite (eqb_trans3 _ _ _ W1 W2). cbn [andb].
      destruct (p_f2 (rh_pfx h)), (p_f3 (rh_pfx h)); cbn [existsb fst snd]; rewrite Y1, Y2; cbn; rewrite ?orb_true_r; reflexivity.
    - apply andb_prop in Q1; destruct Q1 as [Q1 W1]. apply andb_prop in Q1; destruct Q1 as [_ PP1].
      apply andb_prop in Q2; destruct Q2 as [Q2 W2]. apply andb_prop in Q2; destruct Q2 as [_ PP2].
      rewrite (VX _ _ _ PP1 PP2), (WX _ _ _ W1 W2), (LX _ _ _ L1 L2). reflexivity.
    - apply andb_prop in Q1; destruct Q1 as [Q1 W1]. apply andb_prop in Q1; destruct Q1 as [_ PP1].
      apply andb_prop in Q2; destruct Q2 as [Q2 W2]. apply andb_prop in Q2; destruct Q2 as [_ PP2].
      rewrite (VX _ _ _ PP1 PP2), (WX _ _ _ W1 W2), (LX _ _ _ L1 L2). reflexivity.
    - do 3 (apply andb_prop in Q1; destruct Q1 as [Q1 _]). do 3 (apply andb_prop in Q2; destruct Q2 as [Q2 _]).
      apply andb_prop in Q1; destruct Q1 as [Q1 W1]. apply andb_prop in Q1; destruct Q1 as [_ PP1].
      apply andb_prop in Q2; destruct Q2 as [Q2 W2]. apply andb_prop in Q2; destruct Q2 as [_ PP2].
      rewrite (VX _ _ _ PP1 PP2), (WX _ _ _ W1 W2). reflexivity. }
  rewrite C6. cbn [andb].
  (* ModRM block *)
  destruct (r_modrm r1) eqn:E1; [|reflexivity]. destruct (r_modrm r2) eqn:E2; [|reflexivity]. cbn [andb].
  destruct k as [[[reg isreg] rm]|]; [|discriminate].
  bsp.
  assert (F : forall r, (if r_mod r =? 1 then isreg else if r_mod r =? 2 then negb isreg else true) = true ->
                        (if 0 <=? r_rmfix r then isreg && (rm =? r_rmfix r) else true) = true ->
                        match rm_operand_kind r with Some kd => if kd =? 1 then negb isreg else if kd =? 0 then isreg else true | None => true end = true ->
                        rm_form r = 0 \/ (rm_form r = 1 /\ isreg = true) \/ (rm_form r = 2 /\ isreg = false)).
  { intros r Ha Hb Hc. unfold rm_form.
    destruct (r_mod r =? 1); [| destruct (r_mod r =? 2)];
    destruct (0 <=? r_rmfix r); try (apply andb_prop in Hb; destruct Hb as [Hb _]);
    destruct (rm_operand_kind r) as [kd|]; try (destruct (kd =? 1); [| destruct (kd =? 0)]);
    destruct isreg; cbn in *; try discriminate; auto. }
  assert (DG : (r_digit r1 <? 0) || (r_digit r2 <? 0) || (r_digit r1 =? r_digit r2) = true).
  { destruct (r_digit r1 <? 0) eqn:D1; [reflexivity|]. destruct (r_digit r2 <? 0) eqn:D2; [reflexivity|]. cbn [orb].
    apply Z.ltb_ge in D1, D2.
    match goal with Ha : (if 0 <=? r_digit r1 then reg =? r_digit r1 else true) = true,
                    Hb : (if 0 <=? r_digit r2 then reg =? r_digit r2 else true) = true |- _ =>
      destruct (Z.leb_spec 0 (r_digit r1)); [|lia]; destruct (Z.leb_spec 0 (r_digit r2)); [|lia];
      apply Z.eqb_eq in Ha, Hb; apply Z.eqb_eq; congruence end. }
  assert (RF : (r_rmfix r1 <? 0) || (r_rmfix r2 <? 0) || (r_rmfix r1 =? r_rmfix r2) = true).
  { destruct (r_rmfix r1 <? 0) eqn:D1; [reflexivity|]. destruct (r_rmfix r2 <? 0) eqn:D2; [reflexivity|]. cbn [orb].
    apply Z.ltb_ge in D1, D2.
    match goal with Ha : (if 0 <=? r_rmfix r1 then isreg && (rm =? r_rmfix r1) else true) = true,
                    Hb : (if 0 <=? r_rmfix r2 then isreg && (rm =? r_rmfix r2) else true) = true |- _ =>
      destruct (Z.leb_spec 0 (r_rmfix r1)); [|lia]; destruct (Z.leb_spec 0 (r_rmfix r2)); [|lia];
      apply andb_prop in Ha; destruct Ha as [_ Ha]; apply andb_prop in Hb; destruct Hb as [_ Hb];
      apply Z.eqb_eq in Ha, Hb; apply Z.eqb_eq; congruence end. }
  rewrite DG, RF. cbn [andb].
  destruct (F r1 ltac:(assumption) ltac:(assumption) ltac:(assumption)) as [G1 | [[G1 I1] | [G1 I1]]];
  destruct (F r2 ltac:(assumption) ltac:(assumption) ltac:(assumption)) as [G2 | [[G2 I2] | [G2 I2]]];
  rewrite G1, G2; cbn [Z.eqb Pos.eqb negb orb andb]; try reflexivity; congruence.
Qed.

Lemma shape_same m h r1 r2 : same_static_shape r1 r2 = true -> shape_of_row m r1 h = shape_of_row m r2 h.
Proof.
  unfold same_static_shape, shape_of_row, disp8n. intros H. bsp.
  match goal with Ha : negb (r_kind r1 =? 3) = true, Hb : negb (r_kind r2 =? 3) = true |- _ => rewrite Ha, Hb end.
  match goal with Ha : negb (r_moffs r1) = true, Hb : negb (r_moffs r2) = true |- _ =>
    apply negb_true_iff in Ha, Hb; rewrite Ha, Hb end.
  match goal with Ha : eqb (r_modrm r1) (r_modrm r2) = true |- _ => apply eqb_prop in Ha; rewrite Ha end.
  match goal with Ha : eqb (r_vsib r1 =? 0) (r_vsib r2 =? 0) = true |- _ => apply eqb_prop in Ha; rewrite Ha end.
  match goal with Ha : (r_imm r1 =? r_imm r2) = true |- _ => apply Z.eqb_eq in Ha; rewrite Ha end.
  reflexivity.
Qed.

Lemma zrange_in : forall n o, 0 <= o < Z.of_nat n -> In o (zrange n).
Proof.
  induction n; intros o H; [cbn in H; lia|].
  cbn [zrange]. apply in_or_app. rewrite Nat2Z.inj_succ in H.
  destruct (Z.eq_dec o (Z.of_nat n)) as [->|Hn]; [right; left; reflexivity | left; apply IHn; lia].
Qed.

Lemma guarded_all (f : Z -> list row) al : forallb (fun o => bucket_unique al (f o)) (zrange 256) = true ->
  forall o, bucket_unique al (if zin 0 o 256 then f o else []) = true.
Proof.
  intros H o. destruct (zin 0 o 256) eqn:E; [|reflexivity].
  apply zin_spec in E. rewrite forallb_forall in H. apply H. apply zrange_in. cbn. lia.
Qed.

Section Unique.
  Variable bucket : Z -> list row.
  Variable aliases : list (Z * Z).
  Hypothesis Huniq : forall o, bucket_unique aliases (bucket o) = true.

  (* ALL denotations of a byte string name the same mnemonic, up to the reviewed aliases *)
  Theorem denote_unique_names : forall m bs rid1 ops1 dd1 len1 rid2 ops2 dd2 len2,
    In (rid1, ops1, dd1, len1) (denote bucket m bs) -> In (rid2, ops2, dd2, len2) (denote bucket m bs) ->
    exists r1 r2 h, In r1 (bucket (rh_opc h)) /\ In r2 (bucket (rh_opc h)) /\ r_id r1 = rid1 /\ r_id r2 = rid2 /\
                    may_overlap r1 r2 = true /\ alias_ok aliases (r_name r1) (r_name r2) = true.
  Proof.
    intros m bs rid1 ops1 dd1 len1 rid2 ops2 dd2 len2 H1 H2.
    destruct (denote_sound bucket _ _ _ _ _ _ H1) as [h [rest [r1 [s1 [t1 [Eh [I1 [Id1 [Ho1 [Et1 [To1 [[o1 [Mo1 _]] _]]]]]]]]]]]].
    destruct (denote_sound bucket _ _ _ _ _ _ H2) as [h' [rest' [r2 [s2 [t2 [Eh' [I2 [Id2 [Ho2 [Et2 [To2 [[o2 [Mo2 _]] _]]]]]]]]]]]].
    rewrite Eh in Eh'. inversion Eh'; subst h' rest'.
    pose proof (parts_compat _ _ _ _ _ _ _ Ho1 Et1 To1 Mo1) as C1.
    pose proof (parts_compat _ _ _ _ _ _ _ Ho2 Et2 To2 Mo2) as C2.
    pose proof (compat_overlap _ _ _ _ _ C1 C2) as CO.
    assert (MO : may_overlap r1 r2 = true).
    { unfold may_overlap. rewrite CO. cbn [andb].
      destruct (same_static_shape r1 r2) eqn:Es; [|reflexivity]. cbn [negb orb].
      destruct (r_suffix r1 <? 0) eqn:S1; [reflexivity|]. destruct (r_suffix r2 <? 0) eqn:S2; [reflexivity|]. cbn [orb].
      rewrite (shape_same m h _ _ Es) in Et1. rewrite Et1 in Et2. inversion Et2; subst s2 t2.
      unfold tail_ok in To1, To2.
      assert (X1 : (r_suffix r1 <? 0) || (s_imm s1 =? r_suffix r1) = true) by (bsp; assumption).
      assert (X2 : (r_suffix r2 <? 0) || (s_imm s1 =? r_suffix r2) = true) by (bsp; assumption).
      rewrite S1 in X1. rewrite S2 in X2. cbn [orb] in X1, X2. apply Z.eqb_eq in X1, X2. apply Z.eqb_eq. congruence. }
    exists r1, r2, h. repeat split; auto.
    pose proof (Huniq (rh_opc h)) as HU. unfold bucket_unique in HU.
    rewrite forallb_forall in HU. specialize (HU r1 I1). rewrite forallb_forall in HU. specialize (HU r2 I2).
    rewrite MO in HU. exact HU.
  Qed.
End Unique.

(* ------------------------------------------------------------------ round 4: the sharper relation (vector length, 67 prefix) *)
Lemma parts_compat2 m h rest r s r2 :
  head_ok m r h = true -> sdec_tail m h (shape_of_row m r h) rest = Some (s, r2) -> tail_ok m r s = true ->
  row_compat2 h (modrm_key h rest) r = true.
Proof.
  intros Eh Et Eo.
  destruct (sdec_tail_head _ _ _ _ _ _ Et) as [Hp [Hk [HL [Hb Hz]]]].
  pose proof (head_ok_kind _ _ _ Eh) as Hrk.
  unfold row_compat2. unfold tail_ok in Eo.
  repeat match type of Eo with (_ && _) = true => apply andb_prop in Eo; destruct Eo as [Eo ?] end.
  apply andb_true_intro. split.
  - destruct (r_kind r =? 3) eqn:E3; [|reflexivity].
    apply Z.eqb_eq in E3. rewrite Hrk in E3.
    destruct (rh_kind h) eqn:EK; cbn [kind_code] in E3; try discriminate.
    match goal with HL' : match s_kind s with _ => _ end = true |- _ => rewrite Hk in HL'; cbv beta iota in HL'; rename HL' into HE end.
    rewrite <- Hb, <- HL.
    destruct (r_modrm r) eqn:Erm.
    + destruct (sdec_tail_key _ _ _ _ _ _ Et Erm) as [reg [isreg [rm [Ek Hs]]]]. rewrite Ek. cbn [key_isreg]. rewrite andb_true_r.
      destruct (s_modrm s); [contradiction | |].
      * destruct Hs as [-> _]. destruct (s_b s); cbn [andb] in *.
        -- apply andb_prop in HE. destruct HE as [_ HE]. exact HE.
        -- apply andb_prop in HE. destruct HE as [HE _]. apply andb_prop in HE. destruct HE as [HE _]. exact HE.
      * destruct Hs as [-> _]. rewrite andb_false_r in *.
        apply andb_prop in HE. destruct HE as [HE _]. apply andb_prop in HE. destruct HE as [HE _]. exact HE.
    + rewrite andb_false_r. rewrite andb_false_r.
      assert (Hn : match s_modrm s with MReg _ _ => true | _ => false end = false).
      { unfold sdec_tail in Et. unfold shape_of_row in Et. destruct (dec_modrm m h _ rest) as [[mp r1]|] eqn:Ed; [|discriminate].
        destruct (le_take _ r1) as [[imm r3]|]; [|discriminate]. inversion Et; subst. cbn [s_modrm assemble].
        unfold dec_modrm in Ed. cbn [sh_modrm] in Ed. rewrite Erm in Ed. inversion Ed; subst. reflexivity. }
      rewrite Hn in HE. rewrite andb_false_r in HE.
      apply andb_prop in HE. destruct HE as [HE _]. apply andb_prop in HE. destruct HE as [HE _]. exact HE.
  - rewrite <- Hp. assumption.
Qed.

Lemma compat2_overlap h k r1 r2 : row_compat2 h k r1 = true -> row_compat2 h k r2 = true -> extra_overlap r1 r2 = true.
Proof.
  unfold row_compat2, extra_overlap. intros H1 H2.
  apply andb_prop in H1. destruct H1 as [L1 A1]. apply andb_prop in H2. destruct H2 as [L2 A2].
  apply andb_true_intro. split.
  - destruct (r_kind r1 =? 3); [|reflexivity]. destruct (r_kind r2 =? 3); [|reflexivity]. cbn [negb orb].
    destruct (r_modrm r1), (r_modrm r2); cbn [Bool.eqb negb orb]; try reflexivity;
      rewrite ?andb_true_r, ?andb_false_r in *;
      destruct (rh_b h && key_isreg k);
      destruct (r_l r1 =? 3) eqn:X1; try reflexivity; destruct (r_l r2 =? 3) eqn:X2; try reflexivity; cbn [orb] in *;
      rewrite ?orb_false_r in *; apply Z.eqb_eq in L1, L2; apply Z.eqb_eq; congruence.
  - destruct (has_mem_operand r1); [reflexivity|]. destruct (has_mem_operand r2); [reflexivity|]. cbn [orb] in *.
    eapply eqb_trans3; eassumption.
Qed.

Lemma opspec_eqb_eq a b : opspec_eqb a b = true -> a = b.
Proof.
  unfold opspec_eqb. intros H. bsp.
  repeat match goal with
         | X : Bool.eqb _ _ = true |- _ => apply Bool.eqb_prop in X
         | X : (_ =? _) = true |- _ => apply Z.eqb_eq in X
         end.
  destruct a, b; cbn in *; subst; reflexivity.
Qed.

Lemma ops_eqb_eq : forall a b, ops_eqb a b = true -> a = b.
Proof.
  induction a as [|x a IH]; destruct b as [|y b]; cbn; intros H; try discriminate; [reflexivity|].
  apply andb_prop in H. destruct H as [H1 H2]. apply opspec_eqb_eq in H1. rewrite H1, (IH _ H2). reflexivity.
Qed.

Section UniqueOps.
  Variable bucket : Z -> list row.
  Variable exceptions : list Z.
  Hypothesis Hsame : forall o, bucket_same_ops exceptions (bucket o) = true.

  (* two denotations of the same bytes by rows of the same mnemonic: the rows have the SAME operand specifications (so the operands are
     read from the same fields in the same way), unless the mnemonic is on the reviewed list *)
  Theorem denote_unique_ops : forall m bs rid1 ops1 dd1 len1 rid2 ops2 dd2 len2,
    In (rid1, ops1, dd1, len1) (denote bucket m bs) -> In (rid2, ops2, dd2, len2) (denote bucket m bs) ->
    exists r1 r2 h, In r1 (bucket (rh_opc h)) /\ In r2 (bucket (rh_opc h)) /\ r_id r1 = rid1 /\ r_id r2 = rid2 /\
                    extra_overlap r1 r2 = true /\
                    (r_name r1 = r_name r2 -> existsb (Z.eqb (r_name r1)) exceptions = false -> r_ops r1 = r_ops r2).
  Proof.
    intros m bs rid1 ops1 dd1 len1 rid2 ops2 dd2 len2 H1 H2.
    destruct (denote_sound bucket _ _ _ _ _ _ H1) as [h [rest [r1 [s1 [t1 [Eh [I1 [Id1 [Ho1 [Et1 [To1 [[o1 [Mo1 _]] _]]]]]]]]]]]].
    destruct (denote_sound bucket _ _ _ _ _ _ H2) as [h' [rest' [r2 [s2 [t2 [Eh' [I2 [Id2 [Ho2 [Et2 [To2 [[o2 [Mo2 _]] _]]]]]]]]]]]].
    rewrite Eh in Eh'. inversion Eh'; subst h' rest'.
    pose proof (compat_overlap _ _ _ _ _ (parts_compat _ _ _ _ _ _ _ Ho1 Et1 To1 Mo1) (parts_compat _ _ _ _ _ _ _ Ho2 Et2 To2 Mo2)) as CO.
    pose proof (compat2_overlap _ _ _ _ (parts_compat2 _ _ _ _ _ _ Ho1 Et1 To1) (parts_compat2 _ _ _ _ _ _ Ho2 Et2 To2)) as XO.
    assert (MO : may_overlap r1 r2 = true).
    { unfold may_overlap. rewrite CO. cbn [andb].
      destruct (same_static_shape r1 r2) eqn:Es; [|reflexivity]. cbn [negb orb].
      destruct (r_suffix r1 <? 0) eqn:S1; [reflexivity|]. destruct (r_suffix r2 <? 0) eqn:S2; [reflexivity|]. cbn [orb].
      rewrite (shape_same m h _ _ Es) in Et1. rewrite Et1 in Et2. inversion Et2; subst s2 t2.
      unfold tail_ok in To1, To2.
      assert (X1 : (r_suffix r1 <? 0) || (s_imm s1 =? r_suffix r1) = true) by (bsp; assumption).
      assert (X2 : (r_suffix r2 <? 0) || (s_imm s1 =? r_suffix r2) = true) by (bsp; assumption).
      rewrite S1 in X1. rewrite S2 in X2. cbn [orb] in X1, X2. apply Z.eqb_eq in X1, X2. apply Z.eqb_eq. congruence. }
    exists r1, r2, h. repeat split; auto.
    intros Hn Hx.
    pose proof (Hsame (rh_opc h)) as HU. unfold bucket_same_ops in HU.
    rewrite forallb_forall in HU. specialize (HU r1 I1). rewrite forallb_forall in HU. specialize (HU r2 I2).
    rewrite MO, XO, Hx in HU. apply Z.eqb_eq in Hn. rewrite Hn in HU. cbn in HU. apply ops_eqb_eq. exact HU.
  Qed.
End UniqueOps.

Lemma guarded_same_ops (f : Z -> list row) ex : forallb (fun o => bucket_same_ops ex (f o)) (zrange 256) = true ->
  forall o, bucket_same_ops ex (if zin 0 o 256 then f o else []) = true.
Proof.
  intros H o. destruct (zin 0 o 256) eqn:E; [|reflexivity].
  apply zin_spec in E. rewrite forallb_forall in H. apply H. apply zrange_in. cbn. lia.
Qed.

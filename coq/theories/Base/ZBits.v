(* Shared arithmetic lemmas on powers of two, mod/div, two's complement.  Used by the codec developments. *)
From Coq Require Import ZArith Znumtheory Lia Bool.
Local Open Scope Z_scope.

Lemma pow2_pos n : 0 <= n -> 0 < 2 ^ n.
Proof. intros; apply Z.pow_pos_nonneg; lia. Qed.

Lemma pow2_split a b : 0 <= a <= b -> 2 ^ b = 2 ^ a * 2 ^ (b - a).
Proof. intros H. rewrite <- Z.pow_add_r by lia. f_equal; lia. Qed.

Lemma pow2_double n : 0 < n -> 2 ^ n = 2 * 2 ^ (n - 1).
Proof. intros H. replace n with (1 + (n - 1)) at 1 by lia. rewrite Z.pow_add_r by lia. reflexivity. Qed.

Lemma pow2_le a b : 0 <= a <= b -> 2 ^ a <= 2 ^ b.
Proof. intros; apply Z.pow_le_mono_r; lia. Qed.

Lemma pow2_lt a b : 0 <= a < b -> 2 ^ a < 2 ^ b.
Proof. intros; apply Z.pow_lt_mono_r; lia. Qed.

Lemma mod_mod_pow2 x a b : 0 <= a <= b -> (x mod 2 ^ b) mod 2 ^ a = x mod 2 ^ a.
Proof.
  intros H. symmetry. apply Zmod_div_mod.
  - apply pow2_pos; lia.
  - apply pow2_pos; lia.
  - exists (2 ^ (b - a)). rewrite (pow2_split a b) by lia. ring.
Qed.

Lemma mod_small_iff_range x n : 0 <= n -> (x mod 2 ^ n = x <-> 0 <= x < 2 ^ n).
Proof.
  intros Hn. pose proof (pow2_pos n Hn). split.
  - intros E. rewrite <- E. apply Z.mod_pos_bound; lia.
  - intros R. apply Z.mod_small; lia.
Qed.

Lemma mul_pow2_div a s : 0 <= s -> (a * 2 ^ s) / 2 ^ s = a.
Proof. intros. apply Z.div_mul. pose proof (pow2_pos s); lia. Qed.

Lemma mul_pow2_mod a s : 0 <= s -> (a * 2 ^ s) mod 2 ^ s = 0.
Proof. intros. apply Z.mod_mul. pose proof (pow2_pos s); lia. Qed.

Lemma mul_pow2_bound a b s : 0 <= s -> 0 <= b -> 0 <= a < 2 ^ b -> 0 <= a * 2 ^ s < 2 ^ (b + s).
Proof.
  intros Hs Hb Ha. rewrite Z.pow_add_r by lia. pose proof (pow2_pos s Hs). split; nia.
Qed.

Lemma div_pow2_exact x d : 0 <= d -> x mod 2 ^ d = 0 -> (x / 2 ^ d) * 2 ^ d = x.
Proof.
  intros Hd Hm. pose proof (pow2_pos d Hd).
  rewrite (Z.div_mod x (2 ^ d)) at 2 by lia. rewrite Hm. ring.
Qed.

(* two's complement *)
Definition sextz (n x : Z) : Z := let y := x mod 2 ^ n in if y <? 2 ^ (n - 1) then y else y - 2 ^ n.

Lemma sextz_of_mod n x : 0 < n -> - 2 ^ (n - 1) <= x < 2 ^ (n - 1) -> sextz n (x mod 2 ^ n) = x.
Proof.
  intros Hn Hx. unfold sextz. pose proof (pow2_double n Hn) as HD. pose proof (pow2_pos (n - 1)) as HP.
  rewrite Z.mod_mod by lia.
  destruct (Z_lt_le_dec x 0) as [Hneg | Hpos].
  - assert (E : x mod 2 ^ n = x + 2 ^ n).
    { symmetry. apply (Z.mod_unique x (2 ^ n) (-1) (x + 2 ^ n)); lia. }
    rewrite E. destruct (Z.ltb_spec (x + 2 ^ n) (2 ^ (n - 1))); lia.
  - rewrite Z.mod_small by lia. destruct (Z.ltb_spec x (2 ^ (n - 1))); lia.
Qed.

Lemma sextz_range n x : 0 < n -> - 2 ^ (n - 1) <= sextz n x < 2 ^ (n - 1).
Proof.
  intros Hn. unfold sextz. pose proof (pow2_double n Hn) as HD. pose proof (pow2_pos (n - 1)) as HP.
  pose proof (Z.mod_pos_bound x (2 ^ n)) as HB.
  destruct (Z.ltb_spec (x mod 2 ^ n) (2 ^ (n - 1))); lia.
Qed.

Lemma sextz_mod_id n x : 0 < n -> (sextz n x) mod 2 ^ n = x mod 2 ^ n.
Proof.
  intros Hn. unfold sextz. pose proof (pow2_pos n) as HP.
  destruct (Z.ltb_spec (x mod 2 ^ n) (2 ^ (n - 1))).
  - apply Z.mod_mod; lia.
  - replace (x mod 2 ^ n - 2 ^ n) with (x mod 2 ^ n + (-1) * 2 ^ n) by ring.
    rewrite Z.mod_add by lia. apply Z.mod_mod; lia.
Qed.


(* C13 - model of the instruction name <-> id lookup (asmjit/core/instdb.cpp InstNameUtils, x86instapi.cpp / a64instapi.cpp
   inst_id_to_string / string_to_inst_id). Strings are lists of byte values (N). No proofs in this file. *)
From Coq Require Import NArith List Bool.
Import ListNotations.
Local Open Scope N_scope.

Definition str := list N.

(* Support::compare_string_views: bytewise over the common prefix, then by length *)
Fixpoint cmp_str (a b : str) : comparison :=
  match a, b with
  | [], [] => Eq
  | [], _ :: _ => Lt
  | _ :: _, [] => Gt
  | x :: a', y :: b' => match x ?= y with Eq => cmp_str a' b' | c => c end
  end.

(* decode_5bit_char: 1..26 -> 'a'..'z', 27..31 -> '0'..'4' *)
Definition decode_5bit_char (c : N) : N := if c <=? 26 then 96 + c else 21 + c.

Fixpoint decode_small (fuel : nat) (v : N) : str :=
  match fuel with
  | O => []
  | S f => let c := N.land v 31 in
           if c =? 0 then [] else decode_5bit_char c :: decode_small f (N.shiftr v 5)
  end.

Definition substr (tbl : list N) (base size : N) : str :=
  firstn (N.to_nat size) (skipn (N.to_nat base) tbl).

(* decode_to_buffer with InstStringifyOptions::kNone *)
Definition decode_name (strtab : list N) (v : N) : str :=
  if N.testbit v 31 then decode_small 6 v
  else substr strtab (N.land v 4095) (N.land (N.shiftr v 12) 15)
       ++ substr strtab (N.land (N.shiftr v 16) 4095) (N.land (N.shiftr v 28) 7).

(* reads of the string table stay inside it (the C++ has no bound check) *)
Definition entry_in_bounds (strtab_len : N) (v : N) : bool :=
  if N.testbit v 31 then true
  else let pb := N.land v 4095 in let ps := N.land (N.shiftr v 12) 15 in
       let sb := N.land (N.shiftr v 16) 4095 in let ss := N.land (N.shiftr v 28) 7 in
       ((ps =? 0) || (pb + ps <=? strtab_len)) && ((ss =? 0) || (sb + ss <=? strtab_len)) && (ps + ss <=? 32).

(* the binary search loop shared by find_instruction and find_alias:
   for (lim = end - base; lim != 0; lim >>= 1) { id = base + (lim >> 1); ... if (cmp > 0) { base = id + 1; lim--; } } *)
Fixpoint bsearch (fuel : nat) (name_at : N -> str) (s : str) (base lim : N) : option N :=
  match fuel with
  | O => None
  | S f =>
    if lim =? 0 then None else
    let id := base + N.shiftr lim 1 in
    match cmp_str s (name_at id) with
    | Lt => bsearch f name_at s base (N.shiftr lim 1)
    | Gt => bsearch f name_at s (id + 1) (N.shiftr (lim - 1) 1)
    | Eq => Some id
    end
  end.

Definition search_fuel (lim : N) : nat := S (N.to_nat (N.size lim)).

Record name_tables := {
  nt_count  : N;                 (* Inst::_kIdCount *)
  nt_maxlen : N;                 (* _inst_name_index.max_name_length *)
  nt_index  : list (N * N);      (* _inst_name_index.data[26] *)
  nt_strtab : list N;            (* _inst_name_string_table *)
  nt_names  : list N             (* _inst_name_index_table *)
}.

Definition name_of (T : name_tables) (id : N) : str :=
  decode_name (nt_strtab T) (nth (N.to_nat id) (nt_names T) 0).

Definition table_span (T : name_tables) (prefix : N) : N * N := nth (N.to_nat prefix) (nt_index T) (0, 0).

(* InstNameUtils::find_instruction; 0 = BaseInst::kIdNone. `span` plays the role of name_index.data[]. *)
Definition find_instruction (T : name_tables) (span : N -> N * N) (s : str) : N :=
  match s with
  | [] => 0
  | c :: _ =>
    if (c <? 97) || (122 <? c) then 0 else
    let '(b, e) := span (c - 97) in
    if b =? 0 then 0 else
    match bsearch (search_fuel (e - b)) (name_of T) s b (e - b) with
    | Some id => id
    | None => 0
    end
  end.

Definition strlen (s : str) : N := N.of_nat (length s).

(* ---------------------------------------------------------------- x86: instruction names, then aliases *)
Record alias_tables := {
  at_count  : N;                 (* InstDB::kAliasTableSize *)
  at_strtab : list N;
  at_names  : list N;
  at_ids    : list N             (* alias_index_to_inst_id_table *)
}.

Definition alias_name_of (A : alias_tables) (i : N) : str :=
  decode_name (at_strtab A) (nth (N.to_nat i) (at_names A) 0).

Definition invalid_id : N := 4294967295.

(* InstNameUtils::find_alias *)
Definition find_alias (A : alias_tables) (s : str) : N :=
  match bsearch (search_fuel (at_count A)) (alias_name_of A) s 0 (at_count A) with
  | Some i => i
  | None => invalid_id
  end.

Definition x86_string_to_inst_id (T : name_tables) (A : alias_tables) (s : str) : N :=
  let len := strlen s in
  if (len =? 0) || (nt_maxlen T <? len) then 0 else
  let id := find_instruction T (table_span T) s in
  if negb (id =? 0) then id else
  let ai := find_alias A s in
  if negb (ai =? invalid_id) then nth (N.to_nat ai) (at_ids A) 0 else 0.

(* ---------------------------------------------------------------- AArch64 *)
(* pinned tree: one range per initial letter *)
Definition a64_string_to_inst_id_single_range (T : name_tables) (s : str) : N :=
  let len := strlen s in
  if (len =? 0) || (nt_maxlen T <? len) then 0 else find_instruction T (table_span T) s.

(* repaired lookup (fixes/C13-a64-name-lookup.patch): the ids of a letter's range are not sorted by name (a general-purpose
   block in database order is followed by a SIMD block), so the range is scanned from its start *)
Fixpoint scan (name_at : N -> str) (s : str) (id : N) (n : nat) : N :=
  match n with
  | O => 0
  | S k => match cmp_str s (name_at id) with Eq => id | _ => scan name_at s (N.succ id) k end
  end.

Definition a64_string_to_inst_id (T : name_tables) (s : str) : N :=
  let len := strlen s in
  if (len =? 0) || (nt_maxlen T <? len) then 0 else
  match s with
  | [] => 0
  | c :: _ =>
    if (c <? 97) || (122 <? c) then 0 else
    let '(b, e) := table_span T (c - 97) in
    if b =? 0 then 0 else scan (name_of T) s b (N.to_nat (e - b))
  end.

(* ---------------------------------------------------------------- checks evaluated by reflection on the dumped tables *)
Fixpoint nseq (start : N) (len : nat) : list N :=
  match len with O => [] | S k => start :: nseq (N.succ start) k end.

Definition ids_of (T : name_tables) : list N := nseq 1 (N.to_nat (nt_count T) - 1).

Definition first_letter (s : str) : option N :=
  match s with c :: _ => if (c <? 97) || (122 <? c) then None else Some (c - 97) | [] => None end.

(* adjacent entries of [b, b+n] strictly increasing *)
Fixpoint adj_sorted (name_at : N -> str) (b : N) (n : nat) : bool :=
  match n with
  | O => true
  | S k => match cmp_str (name_at b) (name_at (N.succ b)) with Lt => adj_sorted name_at (N.succ b) k | _ => false end
  end.

Definition range_sorted (name_at : N -> str) (b e : N) : bool := adj_sorted name_at b (N.to_nat (e - b) - 1).

(* every id's name is non-empty, not longer than max_name_length, starts with a letter, and the id lies in the range
   [lo p, hi p) assigned to that letter by `span` *)
Definition id_indexed (T : name_tables) (span : N -> N * N) (id : N) : bool :=
  let s := name_of T id in
  match first_letter s with
  | None => false
  | Some p => let '(b, e) := span p in
              negb (b =? 0) && (b <=? id) && (id <? e) && (strlen s <=? nt_maxlen T)
  end.

Definition spans_wf (T : name_tables) (span : N -> N * N) : bool :=
  forallb (fun p => let '(b, e) := span p in (b =? 0) || ((b <=? e) && (e <=? nt_count T))) (nseq 0 26).

Definition spans_sorted (T : name_tables) (span : N -> N * N) : bool :=
  forallb (fun p => let '(b, e) := span p in (b =? 0) || range_sorted (name_of T) b e) (nseq 0 26).

Definition unsorted_letters (T : name_tables) (span : N -> N * N) : list N :=
  filter (fun p => let '(b, e) := span p in negb ((b =? 0) || range_sorted (name_of T) b e)) (nseq 0 26).

Definition tables_in_bounds (T : name_tables) : bool :=
  (N.of_nat (length (nt_names T)) =? nt_count T) && (N.of_nat (length (nt_index T)) =? 26) &&
  forallb (entry_in_bounds (N.of_nat (length (nt_strtab T)))) (nt_names T).

(* aliases: every alias has a non-zero target id and a name of 1..max_name_length characters (a longer alias could
   never be found because string_to_inst_id refuses long strings before searching) *)
Definition aliases_wf (T : name_tables) (A : alias_tables) : bool :=
  (at_count A <? invalid_id) &&
  forallb (fun i => negb (nth (N.to_nat i) (at_ids A) 0 =? 0) && (nth (N.to_nat i) (at_ids A) 0 <? nt_count T)
                    && negb (strlen (alias_name_of A i) =? 0) && (strlen (alias_name_of A i) <=? nt_maxlen T))
          (nseq 0 (N.to_nat (at_count A))).

(* ------------------------------------------------------------------ alias formatting (InstStringifyOptions::kAliases)
   decode_to_buffer: when the suffix base is 0xFFF the formatted alias text follows the name in the string table, preceded by its length *)
Definition decode_name_aliases (strtab : list N) (v : N) : str :=
  if N.testbit v 31 then decode_small 6 v
  else
    let pb := N.land v 4095 in let ps := N.land (N.shiftr v 12) 15 in
    let sb := N.land (N.shiftr v 16) 4095 in let ss := N.land (N.shiftr v 28) 7 in
    if sb =? 4095 then
      let pb' := pb + ps in
      let ps' := nth (N.to_nat pb') strtab 0 in
      substr strtab (pb' + 1) ps' ++ substr strtab sb ss
    else substr strtab pb ps ++ substr strtab sb ss.

Definition has_alias_format (v : N) : bool :=
  negb (N.testbit v 31) && (N.land (N.shiftr v 16) 4095 =? 4095).

Definition alias_entry_in_bounds (strtab_len : N) (strtab : list N) (v : N) : bool :=
  if has_alias_format v then
    let pb' := N.land v 4095 + N.land (N.shiftr v 12) 15 in
    (pb' <? strtab_len) && (pb' + 1 + nth (N.to_nat pb') strtab 0 <=? strtab_len) && (nth (N.to_nat pb') strtab 0 <=? 32)
  else true.

Definition formatted_name_of (T : name_tables) (id : N) : str :=
  decode_name_aliases (nt_strtab T) (nth (N.to_nat id) (nt_names T) 0).

(* "cmov.b|nae|c" -> cmovb cmovnae cmovc ; "jb|jnae|jc" -> jb jnae jc *)
Fixpoint split_on (c : N) (s : str) (cur : str) : list str :=
  match s with
  | [] => [rev cur]
  | x :: r => if x =? c then rev cur :: split_on c r [] else split_on c r (x :: cur)
  end.

Fixpoint split_first (c : N) (s : str) (cur : str) : option (str * str) :=
  match s with
  | [] => None
  | x :: r => if x =? c then Some (rev cur, r) else split_first c r (x :: cur)
  end.

Definition expand_alias_format (fmt : str) : list str :=
  match split_first 46 fmt [] with
  | Some (pre, alts) => map (fun a => pre ++ a) (split_on 124 alts [])
  | None => split_on 124 fmt []
  end.

Definition str_eqb (a b : str) : bool := match cmp_str a b with Eq => true | _ => false end.

(* ids that carry an alias format: every spelling of the format maps back to the id *)
Definition alias_formats_roundtrip (T : name_tables) (A : alias_tables) : bool :=
  forallb (fun id =>
    if has_alias_format (nth (N.to_nat id) (nt_names T) 0) then
      forallb (fun e => x86_string_to_inst_id T A e =? id) (expand_alias_format (formatted_name_of T id))
    else true) (ids_of T).

(* alias table entry i is one of the spellings of the format of its target id *)
Definition alias_from_format (T : name_tables) (A : alias_tables) (i : N) : bool :=
  let id := nth (N.to_nat i) (at_ids A) 0 in
  has_alias_format (nth (N.to_nat id) (nt_names T) 0) &&
  existsb (str_eqb (alias_name_of A i)) (expand_alias_format (formatted_name_of T id)).

Definition aliases_without_format (T : name_tables) (A : alias_tables) : list N :=
  filter (fun i => negb (alias_from_format T A i)) (nseq 0 (N.to_nat (at_count A))).

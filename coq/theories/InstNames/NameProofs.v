(* C13 - proofs about the name lookup model: the binary search is correct on a strictly sorted range, and the
   table-level checks (evaluated by reflection in coq/gen) imply the round trip for ALL strings. *)
From Coq Require Import NArith List Bool Lia.
From Verif Require Import InstNames.NameModel.
Import ListNotations.
Local Open Scope N_scope.

(* ------------------------------------------------------------------ string comparison *)
Lemma cmp_str_eq : forall a b, cmp_str a b = Eq <-> a = b.
Proof.
  induction a as [|x a IH]; destruct b as [|y b]; cbn; try (split; congruence).
  destruct (x ?= y) eqn:E.
  - apply N.compare_eq in E. subst. rewrite IH. split; congruence.
  - split; [discriminate|]. intros H. inversion H. subst. rewrite N.compare_refl in E. discriminate.
  - split; [discriminate|]. intros H. inversion H. subst. rewrite N.compare_refl in E. discriminate.
Qed.

Lemma cmp_str_refl : forall a, cmp_str a a = Eq.
Proof. intros. apply cmp_str_eq. reflexivity. Qed.

Lemma cmp_str_antisym : forall a b, cmp_str b a = CompOpp (cmp_str a b).
Proof.
  induction a as [|x a IH]; destruct b as [|y b]; cbn; auto.
  rewrite (N.compare_antisym x y). destruct (x ?= y); cbn; auto.
Qed.

Lemma cmp_str_lt_trans : forall a b c, cmp_str a b = Lt -> cmp_str b c = Lt -> cmp_str a c = Lt.
Proof.
  induction a as [|x a IH]; destruct b as [|y b]; destruct c as [|z c]; cbn; try congruence.
  destruct (x ?= y) eqn:E1; destruct (y ?= z) eqn:E2; try discriminate; intros H1 H2.
  - apply N.compare_eq in E1, E2. subst. rewrite N.compare_refl. eauto.
  - apply N.compare_eq in E1. subst. rewrite E2. reflexivity.
  - apply N.compare_eq in E2. subst. rewrite E1. reflexivity.
  - rewrite N.compare_lt_iff in *. assert (x < z) by lia. rewrite <- N.compare_lt_iff in H. rewrite H. reflexivity.
Qed.

Lemma cmp_str_gt_lt : forall a b, cmp_str a b = Gt <-> cmp_str b a = Lt.
Proof. intros. rewrite (cmp_str_antisym a b). destruct (cmp_str a b); cbn; split; congruence. Qed.

(* ------------------------------------------------------------------ sorted ranges *)
Definition sorted_on (f : N -> str) (b lim : N) : Prop :=
  forall i j, b <= i -> i < j -> j < b + lim -> cmp_str (f i) (f j) = Lt.

Lemma adj_sorted_step : forall f n b, adj_sorted f b n = true ->
  forall k, (k < n)%nat -> cmp_str (f (b + N.of_nat k)) (f (b + N.of_nat (S k))) = Lt.
Proof.
  induction n; intros b H k Hk; [lia|].
  cbn in H. destruct (cmp_str (f b) (f (N.succ b))) eqn:E; try discriminate.
  destruct k.
  - cbn. replace (b + 0) with b by lia. replace (b + 1) with (N.succ b) by lia. exact E.
  - specialize (IHn (N.succ b) H k ltac:(lia)).
    replace (b + N.of_nat (S k)) with (N.succ b + N.of_nat k) by lia.
    replace (b + N.of_nat (S (S k))) with (N.succ b + N.of_nat (S k)) by lia. exact IHn.
Qed.

Lemma adj_sorted_lt : forall f n b, adj_sorted f b n = true ->
  forall d i, (i + S d <= n)%nat -> cmp_str (f (b + N.of_nat i)) (f (b + N.of_nat (i + S d))) = Lt.
Proof.
  intros f n b H. induction d; intros i Hi.
  - replace (i + 1)%nat with (S i) by lia. apply (adj_sorted_step f n b H). lia.
  - apply cmp_str_lt_trans with (f (b + N.of_nat (i + S d))).
    + apply IHd. lia.
    + replace (i + S (S d))%nat with (S (i + S d)) by lia. apply (adj_sorted_step f n b H). lia.
Qed.

Lemma range_sorted_on : forall f b e, b <= e -> range_sorted f b e = true -> sorted_on f b (e - b).
Proof.
  unfold range_sorted, sorted_on. intros f b e Hbe H i j Hi Hij Hj.
  pose proof (adj_sorted_lt f _ b H (N.to_nat (j - i) - 1) (N.to_nat (i - b))) as L.
  replace (b + N.of_nat (N.to_nat (i - b))) with i in L by lia.
  replace (b + N.of_nat (N.to_nat (i - b) + S (N.to_nat (j - i) - 1))) with j in L by lia.
  apply L. lia.
Qed.

Lemma sorted_on_inj : forall f b lim i j, sorted_on f b lim -> b <= i < b + lim -> b <= j < b + lim -> f i = f j -> i = j.
Proof.
  intros f b lim i j S Hi Hj E.
  destruct (N.lt_trichotomy i j) as [L|[L|L]]; auto.
  - specialize (S i j ltac:(lia) L ltac:(lia)). rewrite E, cmp_str_refl in S. discriminate.
  - specialize (S j i ltac:(lia) L ltac:(lia)). rewrite E, cmp_str_refl in S. discriminate.
Qed.

(* ------------------------------------------------------------------ binary search *)
(* lia's preprocessing of N division gets in the way: abstract the quotients first *)
Ltac hlia :=
  repeat match goal with
  | |- context [?a / 2] => let h := fresh "h" in set (h := a / 2) in *; clearbody h
  | H : context [?a / 2] |- _ => let h := fresh "h" in set (h := a / 2) in *; clearbody h
  end; lia.

Lemma half_sum : forall lim, lim <> 0 -> (lim - 1) / 2 + lim / 2 = lim - 1.
Proof.
  intros lim L. pose proof (N.div_mod lim 2 ltac:(lia)). pose proof (N.div_mod (lim - 1) 2 ltac:(lia)).
  pose proof (N.mod_lt lim 2 ltac:(lia)). pose proof (N.mod_lt (lim - 1) 2 ltac:(lia)).
  set (a := lim mod 2) in *. set (c := (lim - 1) mod 2) in *. clearbody a c. hlia.
Qed.

Lemma shiftr1 : forall n, N.shiftr n 1 = n / 2.
Proof. intros. rewrite N.shiftr_div_pow2. reflexivity. Qed.

Lemma bsearch_unfold : forall fuel f s b lim,
  bsearch (S fuel) f s b lim =
    if lim =? 0 then None else
    match cmp_str s (f (b + lim / 2)) with
    | Lt => bsearch fuel f s b (lim / 2)
    | Gt => bsearch fuel f s (b + lim / 2 + 1) ((lim - 1) / 2)
    | Eq => Some (b + lim / 2)
    end.
Proof. intros. rewrite <- !shiftr1. reflexivity. Qed.

Lemma bsearch_some : forall fuel f s b lim id,
  bsearch fuel f s b lim = Some id -> b <= id < b + lim /\ f id = s.
Proof.
  induction fuel; intros f s b lim id H; [discriminate|]. rewrite bsearch_unfold in H.
  destruct (lim =? 0) eqn:L0; [discriminate|]. apply N.eqb_neq in L0.
  assert (D : lim / 2 < lim) by (apply N.div_lt; lia).
  destruct (cmp_str s (f (b + lim / 2))) eqn:C.
  - inversion H. subst. apply cmp_str_eq in C. split; [hlia|congruence].
  - apply IHfuel in H. destruct H as [H1 H2]. split; [hlia|exact H2].
  - apply IHfuel in H. destruct H as [H1 H2]. split; [|exact H2].
    pose proof (half_sum lim L0). hlia.
Qed.

Lemma bsearch_none : forall fuel f s b lim,
  sorted_on f b lim -> lim < 2 ^ N.of_nat fuel -> bsearch fuel f s b lim = None ->
  forall id, b <= id < b + lim -> f id <> s.
Proof.
  induction fuel; intros f s b lim S F H id Hid.
  - cbn in F. lia.
  - rewrite bsearch_unfold in H. destruct (lim =? 0) eqn:L0; [apply N.eqb_eq in L0; lia|]. apply N.eqb_neq in L0.
    assert (P : 2 ^ N.of_nat (Datatypes.S fuel) = 2 * 2 ^ N.of_nat fuel).
    { rewrite Nat2N.inj_succ, N.pow_succ_r'. reflexivity. }
    assert (D : lim / 2 < 2 ^ N.of_nat fuel).
    { apply N.div_lt_upper_bound; lia. }
    pose proof (half_sum lim L0) as Q.
    assert (D2 : lim / 2 < lim) by (apply N.div_lt; lia).
    set (mid := b + lim / 2) in *.
    destruct (cmp_str s (f mid)) eqn:C; [discriminate| |].
    + (* s < f mid: everything from mid on is larger than s *)
      destruct (N.lt_ge_cases id mid) as [L|G].
      * eapply (IHfuel f s b (lim / 2)); eauto.
        -- intros i j Hi Hij Hj. apply S; hlia.
        -- unfold mid in L. hlia.
      * intros E. subst s.
        destruct (N.eq_dec id mid) as [->|NE]; [rewrite cmp_str_refl in C; discriminate|].
        assert (M : cmp_str (f mid) (f id) = Lt) by (apply S; unfold mid in *; hlia).
        apply cmp_str_gt_lt in M. congruence.
    + (* s > f mid *)
      destruct (N.lt_ge_cases mid id) as [L|G].
      * eapply (IHfuel f s (mid + 1) ((lim - 1) / 2)); eauto.
        -- intros i j Hi Hij Hj. apply S; unfold mid in *; hlia.
        -- assert ((lim - 1) / 2 <= lim / 2) by (apply N.div_le_mono; lia). hlia.
        -- unfold mid in *. hlia.
      * intros E. subst s.
        destruct (N.eq_dec id mid) as [->|NE]; [rewrite cmp_str_refl in C; discriminate|].
        assert (M : cmp_str (f id) (f mid) = Lt) by (apply S; unfold mid in *; hlia).
        congruence.
Qed.

Lemma search_fuel_ok : forall lim, lim < 2 ^ N.of_nat (search_fuel lim).
Proof.
  intros. unfold search_fuel. rewrite Nat2N.inj_succ, N2Nat.id, N.pow_succ_r'.
  pose proof (N.size_gt lim). lia.
Qed.

(* ------------------------------------------------------------------ find_instruction over tables *)
Lemma in_nseq : forall len start x, In x (nseq start len) <-> start <= x < start + N.of_nat len.
Proof.
  induction len; intros start x; cbn [nseq In].
  - split; [tauto|lia].
  - rewrite IHlen. lia.
Qed.

Lemma first_letter_inv : forall s p, first_letter s = Some p ->
  exists c r, s = c :: r /\ ((c <? 97) || (122 <? c)) = false /\ p = c - 97 /\ p < 26.
Proof.
  intros [|c r] p H; cbn in H; [discriminate|].
  destruct ((c <? 97) || (122 <? c)) eqn:E; [discriminate|]. inversion H. subst.
  exists c, r. repeat split; auto.
  apply orb_false_iff in E. destruct E as [E1 E2]. apply N.ltb_ge in E1, E2. lia.
Qed.

Lemma find_some : forall T span s id, find_instruction T span s = id -> id <> 0 ->
  name_of T id = s /\ exists p b e, first_letter s = Some p /\ span p = (b, e) /\ b <> 0 /\ b <= id < e.
Proof.
  intros T span s id H NZ. unfold find_instruction in H. destruct s as [|c r]; [congruence|].
  cbn [first_letter]. destruct ((c <? 97) || (122 <? c)) eqn:E; [congruence|].
  destruct (span (c - 97)) as [b e] eqn:SP. destruct (b =? 0) eqn:B0; [congruence|]. apply N.eqb_neq in B0.
  destruct (bsearch _ _ _ _ _) eqn:BS; [|congruence]. subst n.
  apply bsearch_some in BS. destruct BS as [R Nm]. split; [exact Nm|].
  exists (c - 97), b, e. repeat split; auto; lia.
Qed.

Section Find.
Variable T : name_tables.
Variable span : N -> N * N.
Variable ids : list N.
Hypothesis WF : spans_wf T span = true.
Hypothesis SORTED : spans_sorted T span = true.
Hypothesis IDX : forallb (id_indexed T span) ids = true.

Lemma span_facts : forall p b e, p < 26 -> span p = (b, e) -> b <> 0 ->
  b <= e /\ e <= nt_count T /\ sorted_on (name_of T) b (e - b).
Proof.
  intros p b e Hp SP B0.
  assert (I : In p (nseq 0 26)) by (apply in_nseq; cbn; lia).
  pose proof (proj1 (forallb_forall _ _) WF p I) as W. cbv beta in W. rewrite SP in W.
  pose proof (proj1 (forallb_forall _ _) SORTED p I) as SO. cbv beta in SO. rewrite SP in SO.
  apply N.eqb_neq in B0. rewrite B0 in W, SO. cbn [orb] in W, SO.
  apply andb_true_iff in W. destruct W as [W1 W2]. apply N.leb_le in W1, W2.
  repeat split; auto. apply range_sorted_on; auto.
Qed.

Lemma idx_facts : forall id, In id ids ->
  exists p b e, first_letter (name_of T id) = Some p /\ span p = (b, e) /\ b <> 0 /\ b <= id < e /\
                strlen (name_of T id) <= nt_maxlen T.
Proof.
  intros id Hin. pose proof (proj1 (forallb_forall _ _) IDX id Hin) as Q. unfold id_indexed in Q.
  destruct (first_letter (name_of T id)) as [p|] eqn:FL; [|discriminate].
  destruct (span p) as [b e] eqn:SP.
  apply andb_true_iff in Q. destruct Q as [Q I4]. apply andb_true_iff in Q. destruct Q as [Q I3].
  apply andb_true_iff in Q. destruct Q as [I1 I2].
  apply negb_true_iff, N.eqb_neq in I1. apply N.leb_le in I2, I4. apply N.ltb_lt in I3.
  exists p, b, e. repeat split; auto.
Qed.

Lemma find_none : forall s, find_instruction T span s = 0 -> forall id, In id ids -> name_of T id <> s.
Proof.
  intros s H id Hin E.
  destruct (idx_facts id Hin) as (p & b & e & FL & SP & B0 & R & _).
  rewrite E in FL. destruct (first_letter_inv _ _ FL) as (c & r & -> & CR & -> & P26).
  destruct (span_facts _ _ _ P26 SP B0) as (BE & _ & SO).
  unfold find_instruction in H. rewrite CR, SP in H. apply N.eqb_neq in B0. rewrite B0 in H. apply N.eqb_neq in B0.
  destruct (bsearch _ _ _ _ _) eqn:BS.
  - subst n. apply bsearch_some in BS. lia.
  - eapply bsearch_none in BS; eauto using search_fuel_ok. lia.
Qed.

Lemma find_name : forall id, In id ids -> find_instruction T span (name_of T id) = id.
Proof.
  intros id Hin.
  remember (find_instruction T span (name_of T id)) as r eqn:F. symmetry in F.
  destruct (N.eq_dec r 0) as [Z|NZ].
  - exfalso. subst r. eapply find_none; eauto.
  - destruct (find_some T span _ r F NZ) as (Nm & p & b & e & FL & SP & B0 & R).
    destruct (idx_facts id Hin) as (p' & b' & e' & FL' & SP' & B0' & R' & _).
    rewrite FL in FL'. inversion FL'. subst p'. rewrite SP in SP'. inversion SP'. subst b' e'.
    destruct (first_letter_inv _ _ FL) as (c & r0 & _ & _ & _ & P26).
    destruct (span_facts _ _ _ P26 SP B0) as (BE & _ & SO).
    eapply sorted_on_inj; eauto; lia.
Qed.
End Find.

Lemma in_ids_of : forall T id, In id (ids_of T) <-> 1 <= id < nt_count T.
Proof. intros. unfold ids_of. rewrite in_nseq. lia. Qed.

Lemma strlen_zero : forall s, strlen s = 0 <-> s = [].
Proof. intros [|c r]; unfold strlen; cbn [length]; split; intros; try congruence; lia. Qed.

(* ------------------------------------------------------------------ x86 string_to_inst_id *)
Section X86.
Variable T : name_tables.
Variable A : alias_tables.
Hypothesis WF : spans_wf T (table_span T) = true.
Hypothesis SORTED : spans_sorted T (table_span T) = true.
Hypothesis IDX : forallb (id_indexed T (table_span T)) (ids_of T) = true.
Hypothesis ASORT : range_sorted (alias_name_of A) 0 (at_count A) = true.
Hypothesis AWF : aliases_wf T A = true.

Lemma x86_lookup_name : forall id, 1 <= id < nt_count T -> x86_string_to_inst_id T A (name_of T id) = id.
Proof.
  intros id R. apply in_ids_of in R.
  destruct (idx_facts T _ _ IDX id R) as (p & b & e & FL & SP & B0 & RR & LEN).
  unfold x86_string_to_inst_id.
  assert (NE : strlen (name_of T id) <> 0).
  { intro Z. apply strlen_zero in Z. rewrite Z in FL. discriminate. }
  apply N.eqb_neq in NE. rewrite NE. cbn [orb].
  assert (L2 : (nt_maxlen T <? strlen (name_of T id)) = false) by (apply N.ltb_ge; exact LEN).
  rewrite L2. rewrite (find_name T _ _ WF SORTED IDX id R).
  assert (id =? 0 = false) by (apply N.eqb_neq; lia). rewrite H. reflexivity.
Qed.

Lemma x86_lookup_sound : forall s id, x86_string_to_inst_id T A s = id -> id <> 0 ->
  (1 <= id < nt_count T /\ name_of T id = s) \/
  ((forall j, 1 <= j < nt_count T -> name_of T j <> s) /\
   exists i, i < at_count A /\ alias_name_of A i = s /\ nth (N.to_nat i) (at_ids A) 0 = id).
Proof.
  intros s id H NZ. unfold x86_string_to_inst_id in H.
  destruct ((strlen s =? 0) || (nt_maxlen T <? strlen s)); [congruence|].
  destruct (find_instruction T (table_span T) s =? 0) eqn:F; cbn [negb] in H.
  - right. apply N.eqb_eq in F. split.
    + intros j Hj. apply (find_none T _ _ WF SORTED IDX s F). apply in_ids_of. exact Hj.
    + destruct (find_alias A s =? invalid_id) eqn:FA; cbn [negb] in H; [congruence|].
      unfold find_alias in *. destruct (bsearch _ _ _ _ _) eqn:BS.
      * apply bsearch_some in BS. exists n. destruct BS. repeat split; auto. lia.
      * rewrite N.eqb_refl in FA. discriminate.
  - left. apply N.eqb_neq in F. subst id.
    destruct (find_some T _ s _ eq_refl F) as (Nm & p & b & e & FL & SP & B0 & R).
    split; [|exact Nm].
    destruct (first_letter_inv _ _ FL) as (c & r0 & _ & _ & _ & P26).
    destruct (span_facts T _ WF SORTED _ _ _ P26 SP B0) as (BE & EC & _). lia.
Qed.

Lemma x86_lookup_none : forall s, x86_string_to_inst_id T A s = 0 ->
  (forall j, 1 <= j < nt_count T -> name_of T j <> s) /\ (forall i, i < at_count A -> alias_name_of A i <> s).
Proof.
  intros s H.
  assert (AL : forall i, i < at_count A ->
               nth (N.to_nat i) (at_ids A) 0 <> 0 /\ strlen (alias_name_of A i) <> 0 /\ strlen (alias_name_of A i) <= nt_maxlen T).
  { intros i Hi. pose proof AWF as AWF'. unfold aliases_wf in AWF'. apply andb_true_iff in AWF'. destruct AWF' as [_ AWF'].
    pose proof (proj1 (forallb_forall _ _) AWF' i) as Q.
    cbv beta in Q. specialize (Q ltac:(apply in_nseq; lia)).
    apply andb_true_iff in Q. destruct Q as [Q Q4]. apply andb_true_iff in Q. destruct Q as [Q Q3].
    apply andb_true_iff in Q. destruct Q as [Q1 Q2].
    apply negb_true_iff, N.eqb_neq in Q1, Q3. apply N.leb_le in Q4. auto. }
  split.
  - intros j Hj E. rewrite <- E in H. rewrite x86_lookup_name in H; lia.
  - intros i Hi E. destruct (AL i Hi) as (A1 & A2 & A3). rewrite E in A2, A3.
    unfold x86_string_to_inst_id in H.
    apply N.eqb_neq in A2. rewrite A2 in H. apply N.ltb_ge in A3. rewrite A3 in H. cbn [orb] in H.
    destruct (find_instruction T (table_span T) s =? 0) eqn:F; cbn [negb] in H; [|apply N.eqb_neq in F; congruence].
    unfold find_alias in H. destruct (bsearch _ _ _ _ _) eqn:BS.
    + pose proof BS as BS'. apply bsearch_some in BS'. destruct BS' as [R Nm].
      assert (n = i).
      { eapply (sorted_on_inj (alias_name_of A) 0 (at_count A)); try lia.
        - replace (at_count A) with (at_count A - 0) at 1 by lia. apply range_sorted_on; [lia|exact ASORT].
        - congruence. }
      subst n. destruct (i =? invalid_id) eqn:II; cbn [negb] in H; [|congruence].
      apply N.eqb_eq in II. subst i.
      (* the index equals the sentinel: the C++ would report "not found"; excluded because the table is far smaller *)
      pose proof AWF as AWF'. unfold aliases_wf in AWF'. apply andb_true_iff in AWF'. destruct AWF' as [LT _].
      apply N.ltb_lt in LT. lia.
    + eapply bsearch_none in BS; eauto using search_fuel_ok.
      * replace (at_count A) with (at_count A - 0) at 1 by lia. apply range_sorted_on; [lia|exact ASORT].
      * lia.
Qed.
End X86.

(* ------------------------------------------------------------------ AArch64: repaired lookup (linear scan of the letter's range) *)
Lemma scan_some : forall f s n b id, scan f s b n = id -> id <> 0 ->
  b <= id < b + N.of_nat n /\ f id = s /\ forall j, b <= j < id -> f j <> s.
Proof.
  induction n; intros b id H NZ; cbn [scan] in H; [congruence|].
  destruct (cmp_str s (f b)) eqn:C.
  - subst id. apply cmp_str_eq in C. split; [lia|]. split; [congruence|]. intros; lia.
  - destruct (IHn _ _ H NZ) as (R & Nm & First). split; [lia|]. split; [exact Nm|].
    intros j Hj. destruct (N.eq_dec j b) as [->|NE].
    + intro E. rewrite E, cmp_str_refl in C. discriminate.
    + apply First. lia.
  - destruct (IHn _ _ H NZ) as (R & Nm & First). split; [lia|]. split; [exact Nm|].
    intros j Hj. destruct (N.eq_dec j b) as [->|NE].
    + intro E. rewrite E, cmp_str_refl in C. discriminate.
    + apply First. lia.
Qed.

Lemma scan_none : forall f s n b, b <> 0 -> scan f s b n = 0 -> forall j, b <= j < b + N.of_nat n -> f j <> s.
Proof.
  induction n; intros b B0 H j Hj; cbn [scan] in H; [lia|].
  destruct (cmp_str s (f b)) eqn:C; [congruence| |];
  (destruct (N.eq_dec j b) as [->|NE];
   [intro E; rewrite E, cmp_str_refl in C; discriminate
   |apply (IHn (N.succ b)); [lia|exact H|lia]]).
Qed.

Section A64.
Variable T : name_tables.
Hypothesis WF : spans_wf T (table_span T) = true.
Hypothesis IDX : forallb (id_indexed T (table_span T)) (ids_of T) = true.

Lemma span_wf_facts : forall p b e, p < 26 -> table_span T p = (b, e) -> b <> 0 -> b <= e /\ e <= nt_count T.
Proof.
  intros p b e Hp SP B0.
  assert (I : In p (nseq 0 26)) by (apply in_nseq; cbn; lia).
  pose proof (proj1 (forallb_forall _ _) WF p I) as W. cbv beta in W. rewrite SP in W.
  apply N.eqb_neq in B0. rewrite B0 in W. cbn [orb] in W.
  apply andb_true_iff in W. destruct W as [W1 W2]. apply N.leb_le in W1, W2. auto.
Qed.

Lemma a64_lookup_sound : forall s id, a64_string_to_inst_id T s = id -> id <> 0 ->
  1 <= id < nt_count T /\ name_of T id = s.
Proof.
  intros s id H NZ. unfold a64_string_to_inst_id in H.
  destruct ((strlen s =? 0) || (nt_maxlen T <? strlen s)); [congruence|].
  destruct s as [|c r]; [congruence|].
  destruct ((c <? 97) || (122 <? c)) eqn:CR; [congruence|].
  destruct (table_span T (c - 97)) as [b e] eqn:SP.
  destruct (b =? 0) eqn:B0; [congruence|]. apply N.eqb_neq in B0.
  destruct (scan_some _ _ _ _ _ H NZ) as (R & Nm & _).
  assert (P26 : c - 97 < 26).
  { apply orb_false_iff in CR. destruct CR as [E1 E2]. apply N.ltb_ge in E1, E2. lia. }
  destruct (span_wf_facts _ _ _ P26 SP B0). split; [lia|exact Nm].
Qed.

Lemma a64_lookup_name : forall id, 1 <= id < nt_count T ->
  let r := a64_string_to_inst_id T (name_of T id) in
  name_of T r = name_of T id /\ 1 <= r <= id /\ forall j, 1 <= j < r -> name_of T j <> name_of T id.
Proof.
  intros id R r. subst r. apply in_ids_of in R.
  destruct (idx_facts T _ _ IDX id R) as (p & b & e & FL & SP & B0 & RR & LEN).
  destruct (first_letter_inv _ _ FL) as (c & r0 & E & CR & -> & P26).
  destruct (span_wf_facts _ _ _ P26 SP B0) as (BE & EC).
  unfold a64_string_to_inst_id.
  remember (name_of T id) as s eqn:Es.
  assert (NE : strlen s <> 0).
  { intro Z. apply strlen_zero in Z. rewrite Z in E. discriminate. }
  apply N.eqb_neq in NE. rewrite NE. cbn [orb].
  assert (L2 : (nt_maxlen T <? strlen s) = false) by (apply N.ltb_ge; exact LEN).
  rewrite L2. subst s. rewrite E. rewrite CR, SP. apply N.eqb_neq in B0. rewrite B0. apply N.eqb_neq in B0.
  rewrite <- E.
  remember (scan (name_of T) (name_of T id) b (N.to_nat (e - b))) as r eqn:SC. symmetry in SC.
  destruct (N.eq_dec r 0) as [Z|NZ].
  - exfalso. subst r. eapply (scan_none _ _ _ _ B0 Z id); [lia|reflexivity].
  - destruct (scan_some _ _ _ _ _ SC NZ) as (R2 & Nm & First).
    split; [exact Nm|].
    assert (r <= id).
    { destruct (N.le_gt_cases r id); auto. exfalso. apply (First id); [lia|reflexivity]. }
    split; [lia|].
    intros j Hj EQ.
    (* a smaller id with the same name lies in the same letter range, hence would have been found first *)
    assert (Rj : In j (ids_of T)) by (apply in_ids_of; apply in_ids_of in R; lia).
    destruct (idx_facts T _ _ IDX j Rj) as (p' & b' & e' & FL' & SP' & B0' & RR' & _).
    rewrite EQ, FL in FL'. inversion FL'. rewrite <- H1 in SP'. rewrite SP in SP'. inversion SP'. subst b' e'.
    apply (First j); [lia|exact EQ].
Qed.

Lemma a64_lookup_none : forall s, a64_string_to_inst_id T s = 0 ->
  forall id, 1 <= id < nt_count T -> name_of T id <> s.
Proof.
  intros s H id R E. pose proof (a64_lookup_name id R) as (Nm & RR & _). rewrite E in RR. lia.
Qed.
End A64.

(* ------------------------------------------------------------------ statements used by Properties_C13 *)
Lemma find_correct : forall T span ids,
  spans_wf T span = true -> spans_sorted T span = true -> forallb (id_indexed T span) ids = true ->
  forall s id, In id ids -> (find_instruction T span s = id <-> name_of T id = s).
Proof.
  intros T span ids WF SO IDX s id Hin. split.
  - intros H. destruct (N.eq_dec id 0) as [Z|NZ].
    + rewrite Z in Hin. exfalso.
      destruct (idx_facts T _ _ IDX 0 Hin) as (p & b & e & _ & _ & B0 & R & _). lia.
    + apply (find_some T span s id H NZ).
  - intros <-. eapply find_name; eauto.
Qed.

Lemma x86_lookup_iff : forall T A,
  spans_wf T (table_span T) = true -> spans_sorted T (table_span T) = true ->
  forallb (id_indexed T (table_span T)) (ids_of T) = true ->
  range_sorted (alias_name_of A) 0 (at_count A) = true -> aliases_wf T A = true ->
  forall s id, id <> 0 ->
  (x86_string_to_inst_id T A s = id <->
   (1 <= id < nt_count T /\ name_of T id = s) \/
   ((forall j, 1 <= j < nt_count T -> name_of T j <> s) /\
    exists i, i < at_count A /\ alias_name_of A i = s /\ nth (N.to_nat i) (at_ids A) 0 = id)).
Proof.
  intros T A WF SO IDX AS AW s id NZ. split.
  - intros H. eapply x86_lookup_sound; eauto.
  - intros [[R <-]|[NoName (i & Hi & An & Ai)]].
    + eapply x86_lookup_name; eauto.
    + remember (x86_string_to_inst_id T A s) as r eqn:Er. symmetry in Er.
      destruct (N.eq_dec r 0) as [Z|NZr].
      * exfalso. subst r. destruct (x86_lookup_none T A WF SO IDX AS AW s Z) as [_ NA]. apply (NA i Hi An).
      * destruct (x86_lookup_sound T A WF SO IDX s r Er NZr) as [[R Nm]|[_ (i' & Hi' & An' & Ai')]].
        -- exfalso. apply (NoName r R Nm).
        -- assert (i' = i).
           { eapply (sorted_on_inj (alias_name_of A) 0 (at_count A)); try lia.
             - replace (at_count A) with (at_count A - 0) at 1 by lia. apply range_sorted_on; [lia|exact AS].
             - congruence. }
           subst i'. congruence.
Qed.

Lemma x86_lookup_none_iff : forall T A,
  spans_wf T (table_span T) = true -> spans_sorted T (table_span T) = true ->
  forallb (id_indexed T (table_span T)) (ids_of T) = true ->
  range_sorted (alias_name_of A) 0 (at_count A) = true -> aliases_wf T A = true ->
  forall s, x86_string_to_inst_id T A s = 0 <->
            (forall j, 1 <= j < nt_count T -> name_of T j <> s) /\ (forall i, i < at_count A -> alias_name_of A i <> s).
Proof.
  intros T A WF SO IDX AS AW s. split.
  - eapply x86_lookup_none; eauto.
  - intros [NN NA]. remember (x86_string_to_inst_id T A s) as r eqn:Er. symmetry in Er.
    destruct (N.eq_dec r 0) as [Z|NZr]; [exact Z|exfalso].
    destruct (x86_lookup_sound T A WF SO IDX s r Er NZr) as [[R Nm]|[_ (i' & Hi' & An' & Ai')]].
    + apply (NN r R Nm).
    + apply (NA i' Hi' An').
Qed.

Lemma x86_alias_roundtrip : forall T A,
  forallb (fun i => x86_string_to_inst_id T A (alias_name_of A i) =? nth (N.to_nat i) (at_ids A) 0)
          (nseq 0 (N.to_nat (at_count A))) = true ->
  aliases_wf T A = true ->
  forall i, i < at_count A ->
  x86_string_to_inst_id T A (alias_name_of A i) = nth (N.to_nat i) (at_ids A) 0 /\
  1 <= nth (N.to_nat i) (at_ids A) 0 < nt_count T.
Proof.
  intros T A RT AW i Hi.
  assert (I : In i (nseq 0 (N.to_nat (at_count A)))) by (apply in_nseq; lia).
  pose proof (proj1 (forallb_forall _ _) RT i I) as Q. cbv beta in Q. apply N.eqb_eq in Q.
  unfold aliases_wf in AW. apply andb_true_iff in AW. destruct AW as [_ AW].
  pose proof (proj1 (forallb_forall _ _) AW i I) as W. cbv beta in W.
  apply andb_true_iff in W. destruct W as [W _]. apply andb_true_iff in W. destruct W as [W _].
  apply andb_true_iff in W. destruct W as [W1 W2]. apply negb_true_iff, N.eqb_neq in W1. apply N.ltb_lt in W2.
  split; [exact Q|lia].
Qed.

Lemma a64_lookup_iff : forall T,
  spans_wf T (table_span T) = true -> forallb (id_indexed T (table_span T)) (ids_of T) = true ->
  forall s id, id <> 0 ->
  (a64_string_to_inst_id T s = id <->
   1 <= id < nt_count T /\ name_of T id = s /\ forall j, 1 <= j < id -> name_of T j <> s).
Proof.
  intros T WF IDX s id NZ. split.
  - intros H. destruct (a64_lookup_sound T WF s id H NZ) as [R Nm]. split; [exact R|]. split; [exact Nm|].
    pose proof (a64_lookup_name T WF IDX id R) as (_ & _ & First). cbv zeta in First. rewrite Nm, H in First.
    exact First.
  - intros (R & Nm & First). pose proof (a64_lookup_name T WF IDX id R) as (Nm2 & R2 & _). cbv zeta in *.
    rewrite Nm in *. set (r := a64_string_to_inst_id T s) in *.
    destruct (N.eq_dec r id) as [E|NE]; [exact E|exfalso]. apply (First r); [lia|exact Nm2].
Qed.

Lemma a64_lookup_none_iff : forall T,
  spans_wf T (table_span T) = true -> forallb (id_indexed T (table_span T)) (ids_of T) = true ->
  forall s, a64_string_to_inst_id T s = 0 <-> forall id, 1 <= id < nt_count T -> name_of T id <> s.
Proof.
  intros T WF IDX s. split.
  - eapply a64_lookup_none; eauto.
  - intros NN. remember (a64_string_to_inst_id T s) as r eqn:Er. symmetry in Er.
    destruct (N.eq_dec r 0) as [Z|NZ]; [exact Z|exfalso].
    destruct (a64_lookup_sound T WF s r Er NZ) as [R Nm]. apply (NN r R Nm).
Qed.

Lemma a64_lookup_unique : forall T,
  spans_wf T (table_span T) = true -> forallb (id_indexed T (table_span T)) (ids_of T) = true ->
  forall id, 1 <= id < nt_count T ->
  (forall j, 1 <= j < nt_count T -> name_of T j = name_of T id -> j = id) ->
  a64_string_to_inst_id T (name_of T id) = id.
Proof.
  intros T WF IDX id R U. pose proof (a64_lookup_name T WF IDX id R) as (Nm & RR & _). cbv zeta in *.
  apply U; [lia|exact Nm].
Qed.

Lemma filter_char : forall (f : N -> bool) l ids, filter f ids = l -> forall id, In id ids -> (f id = true <-> In id l).
Proof. intros f l ids <- id Hin. rewrite filter_In. tauto. Qed.

(* ------------------------------------------------------------------ alias formatting *)
Lemma alias_formats_roundtrip_all : forall T A, alias_formats_roundtrip T A = true ->
  forall id, 1 <= id < nt_count T -> has_alias_format (nth (N.to_nat id) (nt_names T) 0) = true ->
  forall e, In e (expand_alias_format (formatted_name_of T id)) -> x86_string_to_inst_id T A e = id.
Proof.
  intros T A H id R F e He. unfold alias_formats_roundtrip in H.
  pose proof (proj1 (forallb_forall _ _) H id (proj2 (in_ids_of T id) R)) as Q. cbv beta in Q. rewrite F in Q.
  apply N.eqb_eq. exact (proj1 (forallb_forall _ _) Q e He).
Qed.

Lemma alias_table_from_formats : forall T A l, aliases_without_format T A = l ->
  forall i, i < at_count A -> In i l \/ alias_from_format T A i = true.
Proof.
  intros T A l <- i Hi. unfold aliases_without_format. rewrite filter_In.
  destruct (alias_from_format T A i) eqn:E; [right; reflexivity|left].
  split; [apply in_nseq; lia|reflexivity].
Qed.

(* ------------------------------------------------------------------ emitter API methods name the id they emit *)
Lemma api_methods_a64 : forall T (ms : list (str * N)) exc,
  forallb (fun p => existsb (str_eqb (fst p)) exc || str_eqb (name_of T (snd p)) (fst p)) ms = true ->
  forall m id, In (m, id) ms -> existsb (str_eqb m) exc = true \/ name_of T id = m.
Proof.
  intros T ms exc H m id I. pose proof (proj1 (forallb_forall _ _) H (m, id) I) as Q. cbn [fst snd] in Q.
  apply orb_true_iff in Q. destruct Q as [Q|Q]; [left; exact Q|right].
  unfold str_eqb in Q. destruct (cmp_str (name_of T id) m) eqn:C; try discriminate. apply cmp_str_eq. exact C.
Qed.

Lemma api_methods_x86 : forall T A (ms : list (str * N)) exc,
  forallb (fun p => existsb (str_eqb (fst p)) exc || (x86_string_to_inst_id T A (fst p) =? snd p)) ms = true ->
  forall m id, In (m, id) ms -> existsb (str_eqb m) exc = true \/ x86_string_to_inst_id T A m = id.
Proof.
  intros T A ms exc H m id I. pose proof (proj1 (forallb_forall _ _) H (m, id) I) as Q. cbn [fst snd] in Q.
  apply orb_true_iff in Q. destruct Q as [Q|Q]; [left; exact Q|right; apply N.eqb_eq; exact Q].
Qed.

(* C13 - the validation hook of the emitter ("validate, then encode") cannot change what an accepted instruction encodes to,
   and a refusal leaves the emitter state untouched. `validate` itself is a function of the tables, the mode, the instruction
   and its operands only (it has no state argument), which is what the statements below rest on. *)
From Coq Require Import NArith ZArith List Bool.
From Verif Require Import X86Validate.ValidateModel.
Import ListNotations.
Local Open Scope N_scope.

Lemma emit_validated_accept : forall (S B : Type) T zq x64 (encode : S -> vinst -> list operand -> S * (N * B)) fail s inst ops,
  validate T zq x64 false inst ops = E_Ok ->
  emit_validated T zq x64 encode fail true s inst ops = emit_validated T zq x64 encode fail false s inst ops.
Proof. intros. unfold emit_validated. rewrite H. reflexivity. Qed.

Lemma emit_validated_refuse : forall (S B : Type) T zq x64 (encode : S -> vinst -> list operand -> S * (N * B)) fail s inst ops e,
  validate T zq x64 false inst ops = e -> e <> E_Ok ->
  emit_validated T zq x64 encode fail true s inst ops = (s, (e, fail e)).
Proof.
  intros. unfold emit_validated. rewrite H. destruct (e =? E_Ok) eqn:E; [apply N.eqb_eq in E; contradiction|reflexivity].
Qed.

(* validation never turns a failing encode into a success, nor changes its result *)
Lemma emit_validated_result : forall (S B : Type) T zq x64 (encode : S -> vinst -> list operand -> S * (N * B)) fail s inst ops,
  emit_validated T zq x64 encode fail true s inst ops =
    (if validate T zq x64 false inst ops =? E_Ok then encode s inst ops
     else (s, (validate T zq x64 false inst ops, fail (validate T zq x64 false inst ops)))).
Proof. intros. reflexivity. Qed.

(* the pinned operand-count quirk: with no operands every signature record of the requested mode "matches" *)
Lemma match_sig_zero_quirk : forall T mode_bit s, test (is_mode s) mode_bit = true -> match_sig T true mode_bit [] s <> None.
Proof.
  intros T mb s M. unfold match_sig. rewrite M. cbn [negb length N.of_nat].
  destruct (is_op_count s =? 0) eqn:E0.
  - cbn. discriminate.
  - destruct (is_op_count s - is_implicit s =? 0) eqn:E1.
    + destruct (sig_refs T s); cbn; discriminate.
    + cbn. discriminate.
Qed.

(* list-level helper for the reflection theorems over the vendored form lists *)
Lemma forallb_In : forall (A : Type) (f : A -> bool) l, forallb f l = true -> forall x, In x l -> f x = true.
Proof. intros A f l H x. apply (proj1 (forallb_forall f l) H). Qed.

Definition accepts_with (T : vtables) (c : bool * vinst * list operand) : bool :=
  let '(x64, i, ops) := c in validate T false x64 false i ops =? E_Ok.

Lemma forms_accepted : forall T l, forallb (accepts_with T) l = true ->
  forall x64 i ops, In (x64, i, ops) l -> validate T false x64 false i ops = E_Ok.
Proof. intros T l H x64 i ops Hin. apply N.eqb_eq. exact (forallb_In _ (accepts_with T) l H (x64, i, ops) Hin). Qed.

Lemma forms_refused : forall T l, forallb (fun c => negb (accepts_with T c)) l = true ->
  forall x64 i ops, In (x64, i, ops) l -> validate T false x64 false i ops <> E_Ok.
Proof.
  intros T l H x64 i ops Hin E.
  pose proof (forallb_In _ (fun c => negb (accepts_with T c)) l H (x64, i, ops) Hin) as Q. cbv beta in Q.
  unfold accepts_with in Q. rewrite E in Q. discriminate.
Qed.

(* ------------------------------------------------------------------ what an accepting validation implies, for ALL instructions and operand lists *)
Ltac cdisc H := exfalso; revert H; vm_compute; let Q := fresh in (intro Q; discriminate Q).

Lemma match_sigs_ok : forall T zq mb ops sigs g,
  match_sigs T zq mb ops sigs g = E_Ok -> exists s, In s sigs /\ match_sig T zq mb ops s = Some false.
Proof.
  induction sigs as [|s rest IH]; intros g H; cbn [match_sigs] in H.
  - destruct g; cdisc H.
  - destruct (match_sig T zq mb ops s) as [[|]|] eqn:M.
    + destruct (IH _ H) as (s' & I' & M'). exists s'. split; [right; exact I'|exact M'].
    + exists s. split; [left; reflexivity|exact M].
    + destruct (IH _ H) as (s' & I' & M'). exists s'. split; [right; exact I'|exact M'].
Qed.

Lemma xlat_operand_err_nz : forall T x64 virt avx op e, xlat_operand T x64 virt avx op = XErr e -> e <> E_Ok.
Proof.
  intros T x64 virt avx op e X. unfold xlat_operand in X.
  destruct op; cbv zeta in X;
  repeat (match type of X with
          | context [if ?c then _ else _] => destruct c
          | context [match mem_size_flag ?c with _ => _ end] => destruct (mem_size_flag c)
          end; cbv beta iota in X);
  try discriminate; inversion X; intro Q; cdisc Q.
Qed.

Lemma xlat_all_err_nz : forall T x64 virt avx ops st e, xlat_all T x64 virt avx ops st = inl e -> e <> E_Ok.
Proof.
  induction ops as [|op ops IH]; intros st e XL; cbn [xlat_all] in XL; [discriminate|].
  destruct op; try discriminate;
  (destruct (xlat_operand T x64 virt avx _) as [e'|x comb] eqn:X;
   [inversion XL; subst; eapply xlat_operand_err_nz; exact X | eapply IH; exact XL]).
Qed.

Definition mode_bit (x64 : bool) : N := if x64 then MODE_X64 else MODE_X86.

Lemma validate_ok_inv : forall T zq x64 virt inst ops,
  validate T zq x64 virt inst ops = E_Ok ->
  vi_id inst < vt_count T /\
  exists iflags avx sidx scnt st rest,
    nth (N.to_nat (vi_id inst)) (vt_inst T) (0, 0, 0, 0) = (iflags, avx, sidx, scnt) /\
    xlat_all T x64 virt avx ops {| xs_sigs := []; xs_flags := 0; xs_regs := 0; xs_mem := None |} = inr (st, rest) /\
    forallb is_none rest = true /\
    (x64 = false -> test (xs_flags st) OF_RegGpq = false) /\
    (scnt = 0 \/ exists s, In s (inst_sigs T sidx scnt) /\ match_sig T zq (mode_bit x64) (xs_sigs st) s = Some false).
Proof.
  intros T zq x64 virt inst ops H. unfold validate in H. cbv zeta in H.
  destruct (vt_count T <=? vi_id inst) eqn:CNT; [cdisc H|]. apply N.leb_gt in CNT. split; [exact CNT|].
  destruct (nth (N.to_nat (vi_id inst)) (vt_inst T) (0, 0, 0, 0)) as [[[iflags avx] sidx] scnt] eqn:ROW.
  match type of H with (if negb (?e =? E_Ok) then _ else _) = _ => destruct (negb (e =? E_Ok)) eqn:LK end.
  { apply negb_true_iff, N.eqb_neq in LK. congruence. }
  match type of H with (if negb (?e =? E_Ok) then _ else _) = _ => destruct (negb (e =? E_Ok)) eqn:RP end.
  { apply negb_true_iff, N.eqb_neq in RP. congruence. }
  destruct (xlat_all T x64 virt avx ops _) as [e|[st rest]] eqn:XL.
  { exfalso. eapply xlat_all_err_nz; [exact XL|exact H]. }
  destruct (forallb is_none rest) eqn:GAP; cbn [negb] in H; [|cdisc H].
  match type of H with (if negb (?e =? E_Ok) then _ else _) = _ => destruct (negb (e =? E_Ok)) eqn:MD end.
  { apply negb_true_iff, N.eqb_neq in MD. congruence. }
  match type of H with (if negb (?e =? E_Ok) then _ else _) = _ => destruct (negb (e =? E_Ok)) eqn:SG end.
  { apply negb_true_iff, N.eqb_neq in SG. congruence. }
  exists iflags, avx, sidx, scnt, st, rest. split; [reflexivity|]. split; [exact XL|]. split; [exact GAP|]. split.
  - intros ->. cbn [negb] in MD. apply negb_false_iff, N.eqb_eq in MD.
    destruct (test (xs_flags st) OF_RegGpq); [cdisc MD|reflexivity].
  - apply negb_false_iff, N.eqb_eq in SG.
    destruct (scnt =? 0) eqn:S0; [left; apply N.eqb_eq; exact S0|right].
    destruct x64; apply match_sigs_ok in SG; exact SG.
Qed.

(* ------------------------------------------------------------------ a 64-bit GP register anywhere among the operands => refused in 32-bit mode *)
Lemma land_lor_keep : forall a b g, N.land a g = g -> N.land (N.lor a b) g = g.
Proof.
  intros a b g H. rewrite N.land_lor_distr_l, H. apply N.bits_inj. intro n.
  rewrite N.lor_spec, N.land_spec. destruct (N.testbit g n), (N.testbit b n); reflexivity.
Qed.

Lemma xlat_all_flags_mono : forall T x64 virt avx g ops st st' rest,
  xlat_all T x64 virt avx ops st = inr (st', rest) -> N.land (xs_flags st) g = g -> N.land (xs_flags st') g = g.
Proof.
  induction ops as [|op ops IH]; intros st st' rest H F; cbn [xlat_all] in H.
  - inversion H. subst. exact F.
  - destruct op; try (inversion H; subst; exact F);
    (destruct (xlat_operand T x64 virt avx _) as [e|x comb] eqn:X; [discriminate|];
     eapply IH; [exact H|]; cbn [xs_flags]; apply land_lor_keep; exact F).
Qed.

Lemma xlat_reg_flags : forall T x64 virt avx rt id x comb,
  xlat_operand T x64 virt avx (OReg rt id) = XOk x comb -> x_flags x = nthN (vt_rt_opflags T) rt.
Proof.
  intros T x64 virt avx rt id x comb X. unfold xlat_operand in X. cbv zeta in X.
  repeat (match type of X with context [if ?c then _ else _] => destruct c end; cbv beta iota in X);
  try discriminate; inversion X; reflexivity.
Qed.

Lemma xlat_all_sees_reg : forall T x64 virt avx g rt id post pre st0 st rest,
  (forall o, In o pre -> o <> ONone) ->
  N.land (nthN (vt_rt_opflags T) rt) g = g ->
  xlat_all T x64 virt avx (pre ++ OReg rt id :: post) st0 = inr (st, rest) ->
  N.land (xs_flags st) g = g.
Proof.
  induction pre as [|p pre IH]; intros st0 st rest NN G H.
  - cbn [app xlat_all] in H.
    destruct (xlat_operand T x64 virt avx (OReg rt id)) as [e|x comb] eqn:X; [discriminate|].
    eapply xlat_all_flags_mono; [exact H|]. cbn [xs_flags].
    rewrite (xlat_reg_flags _ _ _ _ _ _ _ _ X). rewrite N.lor_comm. apply land_lor_keep. exact G.
  - cbn [app xlat_all] in H.
    assert (Pn : p <> ONone) by (apply NN; left; reflexivity).
    destruct p; try congruence;
    (destruct (xlat_operand T x64 virt avx _) as [e|x comb] eqn:X; [discriminate|];
     eapply IH; [intros o Ho; apply NN; right; exact Ho|exact G|exact H]).
Qed.

Lemma validate_refuses_gpq_in_32bit : forall T zq virt inst pre rt id post,
  (forall o, In o pre -> o <> ONone) ->
  N.land (nthN (vt_rt_opflags T) rt) OF_RegGpq = OF_RegGpq ->
  validate T zq false virt inst (pre ++ OReg rt id :: post) <> E_Ok.
Proof.
  intros T zq virt inst pre rt id post NN G H.
  destruct (validate_ok_inv _ _ _ _ _ _ H) as (_ & iflags & avx & sidx & scnt & st & rest & _ & XL & _ & M & _).
  specialize (M eq_refl). unfold test in M. apply negb_false_iff, N.eqb_eq in M.
  pose proof (xlat_all_sees_reg _ _ _ _ _ _ _ _ _ _ _ _ NN G XL) as Q. rewrite M in Q. vm_compute in Q. discriminate Q.
Qed.

(* an accepted instruction has a signature record of the requested mode whose explicit operands it matches one by one *)
Lemma validate_accept_has_signature : forall T zq x64 virt inst ops,
  validate T zq x64 virt inst ops = E_Ok ->
  exists iflags avx sidx scnt st rest,
    nth (N.to_nat (vi_id inst)) (vt_inst T) (0, 0, 0, 0) = (iflags, avx, sidx, scnt) /\
    xlat_all T x64 virt avx ops {| xs_sigs := []; xs_flags := 0; xs_regs := 0; xs_mem := None |} = inr (st, rest) /\
    forallb is_none rest = true /\
    (scnt = 0 \/ exists s, In s (inst_sigs T sidx scnt) /\ test (is_mode s) (mode_bit x64) = true /\
                            match_sig T zq (mode_bit x64) (xs_sigs st) s = Some false).
Proof.
  intros T zq x64 virt inst ops H.
  destruct (validate_ok_inv _ _ _ _ _ _ H) as (_ & iflags & avx & sidx & scnt & st & rest & ROW & XL & GAP & _ & S).
  exists iflags, avx, sidx, scnt, st, rest. repeat (split; [assumption|]).
  destruct S as [Z|(s & I & M)]; [left; exact Z|right]. exists s. split; [exact I|]. split; [|exact M].
  unfold match_sig in M. destruct (test (is_mode s) (mode_bit x64)); [reflexivity|discriminate].
Qed.

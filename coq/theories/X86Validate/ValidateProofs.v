(* C13 - the validation hook of the emitter ("validate, then encode") cannot change what an accepted instruction encodes to,
   and a refusal leaves the emitter state untouched. `validate` itself is a function of the tables, the mode, the instruction
   and its operands only (it has no state argument), which is what the statements below rest on. *)
From Coq Require Import NArith ZArith List Bool Lia.
From Verif Require Import X86Validate.ValidateModel.
Import ListNotations.
Local Open Scope N_scope.

Lemma emit_validated_accept : forall (S B : Type) T zq x64 (encode : S -> vinst -> list operand -> S * (N * B)) fail s inst ops,
  validate T zq x64 false inst ops = E_Ok ->
  emit_validated T zq x64 encode fail true s inst ops = emit_validated T zq x64 encode fail false s inst ops.
Proof. intros. unfold emit_validated. rewrite H. reflexivity. Qed.

Lemma emit_validated_refuse : forall (S B : Type) T zq x64 (encode : S -> vinst -> list operand -> S * (N * B)) fail s inst ops e,
  validate T zq x64 false inst ops = e -> e <> E_Ok ->
  emit_validated T zq x64 encode fail true s inst ops = (s, (e, fail e)).
Proof.
  intros. unfold emit_validated. rewrite H. destruct (e =? E_Ok) eqn:E; [apply N.eqb_eq in E; contradiction|reflexivity].
Qed.

(* validation never turns a failing encode into a success, nor changes its result *)
Lemma emit_validated_result : forall (S B : Type) T zq x64 (encode : S -> vinst -> list operand -> S * (N * B)) fail s inst ops,
  emit_validated T zq x64 encode fail true s inst ops =
    (if validate T zq x64 false inst ops =? E_Ok then encode s inst ops
     else (s, (validate T zq x64 false inst ops, fail (validate T zq x64 false inst ops)))).
Proof. intros. reflexivity. Qed.

(* the pinned operand-count quirk: with no operands every signature record of the requested mode "matches" *)
Lemma match_sig_zero_quirk : forall T mode_bit s, test (is_mode s) mode_bit = true -> match_sig T true mode_bit [] s <> None.
Proof.
  intros T mb s M. unfold match_sig. rewrite M. cbn [negb length N.of_nat].
  destruct (is_op_count s =? 0) eqn:E0.
  - cbn. discriminate.
  - destruct (is_op_count s - is_implicit s =? 0) eqn:E1.
    + destruct (sig_refs T s); cbn; discriminate.
    + cbn. discriminate.
Qed.

(* list-level helper for the reflection theorems over the vendored form lists *)
Lemma forallb_In : forall (A : Type) (f : A -> bool) l, forallb f l = true -> forall x, In x l -> f x = true.
Proof. intros A f l H x. apply (proj1 (forallb_forall f l) H). Qed.


Lemma forallb_concat : forall (A : Type) (f : A -> bool) (ls : list (list A)),
  forallb (fun l => forallb f l) ls = true -> forallb f (concat ls) = true.
Proof.
  induction ls as [|l ls IH]; intros H; cbn in *; [reflexivity|].
  apply andb_true_iff in H. destruct H as [H1 H2]. rewrite forallb_app, H1, (IH H2). reflexivity.
Qed.

Lemma forms_accepted : forall T l, forallb (accepts_with T) l = true ->
  forall x64 i ops, In (x64, i, ops) l -> validate T false x64 false i ops = E_Ok.
Proof. intros T l H x64 i ops Hin. apply N.eqb_eq. exact (forallb_In _ (accepts_with T) l H (x64, i, ops) Hin). Qed.

Lemma forms_refused : forall T l, forallb (fun c => negb (accepts_with T c)) l = true ->
  forall x64 i ops, In (x64, i, ops) l -> validate T false x64 false i ops <> E_Ok.
Proof.
  intros T l H x64 i ops Hin E.
  pose proof (forallb_In _ (fun c => negb (accepts_with T c)) l H (x64, i, ops) Hin) as Q. cbv beta in Q.
  unfold accepts_with in Q. rewrite E in Q. discriminate.
Qed.

(* ------------------------------------------------------------------ what an accepting validation implies, for ALL instructions and operand lists *)
Ltac cdisc H := exfalso; revert H; vm_compute; let Q := fresh in (intro Q; discriminate Q).

Lemma match_sigs_ok : forall T zq mb ops sigs g,
  match_sigs T zq mb ops sigs g = E_Ok -> exists s, In s sigs /\ match_sig T zq mb ops s = Some false.
Proof.
  induction sigs as [|s rest IH]; intros g H; cbn [match_sigs] in H.
  - destruct g; cdisc H.
  - destruct (match_sig T zq mb ops s) as [[|]|] eqn:M.
    + destruct (IH _ H) as (s' & I' & M'). exists s'. split; [right; exact I'|exact M'].
    + exists s. split; [left; reflexivity|exact M].
    + destruct (IH _ H) as (s' & I' & M'). exists s'. split; [right; exact I'|exact M'].
Qed.

Lemma xlat_operand_err_nz : forall T x64 virt iflags avx op e, xlat_operand T x64 virt iflags avx op = XErr e -> e <> E_Ok.
Proof.
  intros T x64 virt iflags avx op e X. unfold xlat_operand in X.
  destruct op; cbv zeta in X;
  repeat (match type of X with
          | context [if ?c then _ else _] => destruct c
          | context [match mem_size_flag ?c with _ => _ end] => destruct (mem_size_flag c)
          end; cbv beta iota in X);
  try discriminate; inversion X; intro Q; cdisc Q.
Qed.

Lemma xlat_all_err_nz : forall T x64 virt iflags avx ops st e, xlat_all T x64 virt iflags avx ops st = inl e -> e <> E_Ok.
Proof.
  induction ops as [|op ops IH]; intros st e XL; cbn [xlat_all] in XL; [discriminate|].
  destruct op; try discriminate;
  (destruct (xlat_operand T x64 virt iflags avx _) as [e'|x comb] eqn:X;
   [inversion XL; subst; eapply xlat_operand_err_nz; exact X | eapply IH; exact XL]).
Qed.

Definition mode_bit (x64 : bool) : N := if x64 then MODE_X64 else MODE_X86.

Lemma validate_ok_inv : forall T zq x64 virt inst ops,
  validate T zq x64 virt inst ops = E_Ok ->
  vi_id inst < vt_count T /\
  exists iflags avx sidx scnt st rest,
    nth (N.to_nat (vi_id inst)) (vt_inst T) (0, 0, 0, 0) = (iflags, avx, sidx, scnt) /\
    xlat_all T x64 virt iflags avx ops init_xstate = inr (st, rest) /\
    forallb is_none rest = true /\
    (x64 = false -> test (xs_flags st) OF_RegGpq = false) /\
    (scnt = 0 \/ exists s, In s (inst_sigs T sidx scnt) /\ match_sig T zq (mode_bit x64) (xs_sigs st) s = Some false).
Proof.
  intros T zq x64 virt inst ops H. unfold validate in H. cbv zeta in H.
  destruct (vt_count T <=? vi_id inst) eqn:CNT; [cdisc H|]. apply N.leb_gt in CNT. split; [exact CNT|].
  destruct (nth (N.to_nat (vi_id inst)) (vt_inst T) (0, 0, 0, 0)) as [[[iflags avx] sidx] scnt] eqn:ROW.
  match type of H with (if negb (?e =? E_Ok) then _ else _) = _ => destruct (negb (e =? E_Ok)) eqn:LK end.
  { apply negb_true_iff, N.eqb_neq in LK. congruence. }
  match type of H with (if negb (?e =? E_Ok) then _ else _) = _ => destruct (negb (e =? E_Ok)) eqn:RP end.
  { apply negb_true_iff, N.eqb_neq in RP. congruence. }
  destruct (xlat_all T x64 virt iflags avx ops _) as [e|[st rest]] eqn:XL.
  { exfalso. eapply xlat_all_err_nz; [exact XL|exact H]. }
  destruct (forallb is_none rest) eqn:GAP; cbn [negb] in H; [|cdisc H].
  match type of H with (if negb (?e =? E_Ok) then _ else _) = _ => destruct (negb (e =? E_Ok)) eqn:MD end.
  { apply negb_true_iff, N.eqb_neq in MD. congruence. }
  match type of H with (if negb (?e =? E_Ok) then _ else _) = _ => destruct (negb (e =? E_Ok)) eqn:SG end.
  { apply negb_true_iff, N.eqb_neq in SG. congruence. }
  match type of H with (if negb (?e =? E_Ok) then _ else _) = _ => destruct (negb (e =? E_Ok)) eqn:EV end.
  { apply negb_true_iff, N.eqb_neq in EV. congruence. }
  exists iflags, avx, sidx, scnt, st, rest. split; [reflexivity|]. split; [exact XL|]. split; [exact GAP|]. split.
  - intros ->. unfold mode_stage in MD. cbn [negb] in MD. apply negb_false_iff, N.eqb_eq in MD.
    destruct (test (xs_flags st) OF_RegGpq); [cdisc MD|reflexivity].
  - apply negb_false_iff, N.eqb_eq in SG. unfold sig_stage in SG.
    destruct (scnt =? 0) eqn:S0; [left; apply N.eqb_eq; exact S0|right].
    destruct x64; apply match_sigs_ok in SG; exact SG.
Qed.

(* ------------------------------------------------------------------ a 64-bit GP register anywhere among the operands => refused in 32-bit mode *)
Lemma land_lor_keep : forall a b g, N.land a g = g -> N.land (N.lor a b) g = g.
Proof.
  intros a b g H. rewrite N.land_lor_distr_l, H. apply N.bits_inj. intro n.
  rewrite N.lor_spec, N.land_spec. destruct (N.testbit g n), (N.testbit b n); reflexivity.
Qed.

Lemma xlat_all_flags_mono : forall T x64 virt iflags avx g ops st st' rest,
  xlat_all T x64 virt iflags avx ops st = inr (st', rest) -> N.land (xs_flags st) g = g -> N.land (xs_flags st') g = g.
Proof.
  induction ops as [|op ops IH]; intros st st' rest H F; cbn [xlat_all] in H.
  - inversion H. subst. exact F.
  - destruct op; try (inversion H; subst; exact F);
    (destruct (xlat_operand T x64 virt iflags avx _) as [e|x comb] eqn:X; [discriminate|];
     eapply IH; [exact H|]; cbn [xs_flags]; apply land_lor_keep; exact F).
Qed.

Lemma xlat_reg_flags : forall T x64 virt iflags avx rt id x comb,
  xlat_operand T x64 virt iflags avx (OReg rt id) = XOk x comb -> x_flags x = nthN (vt_rt_opflags T) rt.
Proof.
  intros T x64 virt iflags avx rt id x comb X. unfold xlat_operand in X. cbv zeta in X.
  repeat (match type of X with context [if ?c then _ else _] => destruct c end; cbv beta iota in X);
  try discriminate; inversion X; reflexivity.
Qed.

Lemma xlat_all_sees_reg : forall T x64 virt iflags avx g rt id post pre st0 st rest,
  (forall o, In o pre -> o <> ONone) ->
  N.land (nthN (vt_rt_opflags T) rt) g = g ->
  xlat_all T x64 virt iflags avx (pre ++ OReg rt id :: post) st0 = inr (st, rest) ->
  N.land (xs_flags st) g = g.
Proof.
  induction pre as [|p pre IH]; intros st0 st rest NN G H.
  - cbn [app xlat_all] in H.
    destruct (xlat_operand T x64 virt iflags avx (OReg rt id)) as [e|x comb] eqn:X; [discriminate|].
    eapply xlat_all_flags_mono; [exact H|]. cbn [xs_flags].
    rewrite (xlat_reg_flags _ _ _ _ _ _ _ _ _ X). rewrite N.lor_comm. apply land_lor_keep. exact G.
  - cbn [app xlat_all] in H.
    assert (Pn : p <> ONone) by (apply NN; left; reflexivity).
    destruct p; try congruence;
    (destruct (xlat_operand T x64 virt iflags avx _) as [e|x comb] eqn:X; [discriminate|];
     eapply IH; [intros o Ho; apply NN; right; exact Ho|exact G|exact H]).
Qed.

Lemma validate_refuses_gpq_in_32bit : forall T zq virt inst pre rt id post,
  (forall o, In o pre -> o <> ONone) ->
  N.land (nthN (vt_rt_opflags T) rt) OF_RegGpq = OF_RegGpq ->
  validate T zq false virt inst (pre ++ OReg rt id :: post) <> E_Ok.
Proof.
  intros T zq virt inst pre rt id post NN G H.
  destruct (validate_ok_inv _ _ _ _ _ _ H) as (_ & iflags & avx & sidx & scnt & st & rest & _ & XL & _ & M & _).
  specialize (M eq_refl). unfold test in M. apply negb_false_iff, N.eqb_eq in M.
  pose proof (xlat_all_sees_reg _ _ _ _ _ _ _ _ _ _ _ _ _ NN G XL) as Q. rewrite M in Q. vm_compute in Q. discriminate Q.
Qed.

(* an accepted instruction has a signature record of the requested mode whose explicit operands it matches one by one *)
Lemma validate_accept_has_signature : forall T zq x64 virt inst ops,
  validate T zq x64 virt inst ops = E_Ok ->
  exists iflags avx sidx scnt st rest,
    nth (N.to_nat (vi_id inst)) (vt_inst T) (0, 0, 0, 0) = (iflags, avx, sidx, scnt) /\
    xlat_all T x64 virt iflags avx ops init_xstate = inr (st, rest) /\
    forallb is_none rest = true /\
    (scnt = 0 \/ exists s, In s (inst_sigs T sidx scnt) /\ test (is_mode s) (mode_bit x64) = true /\
                            match_sig T zq (mode_bit x64) (xs_sigs st) s = Some false).
Proof.
  intros T zq x64 virt inst ops H.
  destruct (validate_ok_inv _ _ _ _ _ _ H) as (_ & iflags & avx & sidx & scnt & st & rest & ROW & XL & GAP & _ & S).
  exists iflags, avx, sidx, scnt, st, rest. repeat (split; [assumption|]).
  destruct S as [Z|(s & I & M)]; [left; exact Z|right]. exists s. split; [exact I|]. split; [|exact M].
  unfold match_sig in M. destruct (test (is_mode s) (mode_bit x64)); [reflexivity|discriminate].
Qed.

(* ------------------------------------------------------------------ a database row contained in the signature tables => the signature stage of
   validate accepts EVERY operand list of the kinds the row names (bridge from C13_signature_rows_present to the validator) *)
Ltac bits := apply N.bits_inj; intro; rewrite ?N.land_spec, ?N.lor_spec, ?N.bits_0;
  repeat match goal with |- context [N.testbit ?x ?n] => destruct (N.testbit x n) end; reflexivity.

Lemma test_false_iff : forall a b, test a b = false <-> N.land a b = 0.
Proof. intros. unfold test. rewrite negb_false_iff, N.eqb_eq. tauto. Qed.

Lemma test_subset : forall x a b m, N.land b a = a -> test (N.land x a) m = true -> test (N.land x b) m = true.
Proof.
  intros x a b m S H. destruct (test (N.land x b) m) eqn:E; [reflexivity|exfalso].
  apply test_false_iff in E.
  assert (Z : N.land (N.land x a) m = 0).
  { rewrite <- S. replace (N.land (N.land x (N.land b a)) m) with (N.land (N.land (N.land x b) m) a) by bits.
    rewrite E. apply N.land_0_l. }
  unfold test in H. rewrite Z in H. discriminate.
Qed.

Lemma test_comm : forall a b, test a b = test b a.
Proof. intros. unfold test. rewrite N.land_comm. reflexivity. Qed.

Lemma check_op_sig_ok : forall need fixed op ref,
  op_admitted (need, fixed, false) ref = true -> op_fits (need, fixed, false) op = true -> check_op_sig op ref = (true, false).
Proof.
  intros need fixed [fl mk] [rf rm] A F. unfold op_admitted in A. unfold op_fits in F. cbn [fst snd] in *.
  apply andb_true_iff in A. destruct A as [A A4]. apply andb_true_iff in A. destruct A as [A A3].
  apply andb_true_iff in A. destruct A as [A1 A2]. apply N.eqb_eq in A1. apply eqb_prop in A2, A3.
  apply andb_true_iff in F. destruct F as [F F4]. apply andb_true_iff in F. destruct F as [F F3].
  apply andb_true_iff in F. destruct F as [F1 F2].
  unfold check_op_sig. cbn [fst snd].
  assert (C : test (N.land fl rf) OF_OpMask = true) by (eapply test_subset; eauto).
  rewrite C. cbn [negb].
  (* memory base clause *)
  assert (MB : test (N.land fl rf) OF_MemMask && test rf OF_FlagMemBase && negb (test fl OF_FlagMemBase) = false).
  { destruct (test rf OF_FlagMemBase) eqn:R; [|rewrite andb_false_r; reflexivity].
    rewrite <- A3 in F3. cbn [negb orb] in F3. rewrite F3. cbn [negb]. rewrite andb_false_r. reflexivity. }
  rewrite MB.
  (* register mask clause *)
  assert (RM : test (N.land fl rf) OF_RegMask && negb (rm =? 0) && negb (test mk rm) = false).
  { destruct (test need OF_RegMask) eqn:NR.
    - destruct (fixed =? 0) eqn:FX.
      + rewrite A4. cbn [negb]. rewrite andb_false_r. reflexivity.
      + cbn [orb] in F4. apply N.eqb_eq in F4. subst mk.
        apply orb_true_iff in A4. destruct A4 as [A4|A4].
        * rewrite A4. cbn [negb]. rewrite andb_false_r. reflexivity.
        * rewrite (test_comm fixed rm), A4. cbn [negb]. rewrite andb_false_r. reflexivity.
    - cbn [orb] in F2. apply negb_true_iff in F2.
      assert (Z : test (N.land fl rf) OF_RegMask = false).
      { apply test_false_iff. apply test_false_iff in F2.
        replace (N.land (N.land fl rf) OF_RegMask) with (N.land (N.land fl OF_RegMask) rf) by bits. rewrite F2. apply N.land_0_l. }
      rewrite Z. reflexivity. }
  rewrite RM. reflexivity.
Qed.

Lemma match_implicit_ok : forall dbops refs ops,
  ops_admitted dbops refs = true -> fits_all (explicit_ops dbops) ops = true -> match_implicit ops refs = (true, false).
Proof.
  induction dbops as [|[[need fixed] impl] dbs IH]; intros refs ops A F.
  - destruct refs; [|discriminate]. cbn in F. destruct ops; [reflexivity|discriminate].
  - destruct refs as [|r rs]; [discriminate|]. cbn [ops_admitted] in A.
    apply andb_true_iff in A. destruct A as [A1 A2].
    destruct impl.
    + (* implicit database operand: the reference operand is flagged implicit and is skipped *)
      cbn [explicit_ops filter snd negb] in F. fold (explicit_ops dbs) in F.
      assert (I : test (fst r) OF_FlagImplicit = true).
      { unfold op_admitted in A1. apply andb_true_iff in A1. destruct A1 as [A1 _]. apply andb_true_iff in A1. destruct A1 as [A1 _].
        apply andb_true_iff in A1. destruct A1 as [_ A1]. apply eqb_prop in A1. exact A1. }
      cbn [match_implicit]. destruct ops as [|o os]; [reflexivity|]. rewrite I. apply IH; assumption.
    + cbn [explicit_ops filter snd negb] in F. fold (explicit_ops dbs) in F.
      destruct ops as [|o os]; [discriminate|]. cbn [fits_all] in F. apply andb_true_iff in F. destruct F as [F1 F2].
      assert (I : test (fst r) OF_FlagImplicit = false).
      { unfold op_admitted in A1. apply andb_true_iff in A1. destruct A1 as [A1 _]. apply andb_true_iff in A1. destruct A1 as [A1 _].
        apply andb_true_iff in A1. destruct A1 as [_ A1]. apply eqb_prop in A1. exact A1. }
      cbn [match_implicit]. rewrite I. rewrite (check_op_sig_ok _ _ _ _ A1 F1). rewrite (IH _ _ A2 F2). reflexivity.
Qed.

(* without implicit operands the exact matcher agrees *)
Lemma match_exact_ok : forall dbops refs ops,
  ops_admitted dbops refs = true -> forallb (fun d => negb (snd d)) dbops = true -> fits_all dbops ops = true ->
  match_exact ops refs = (true, false).
Proof.
  induction dbops as [|[[need fixed] impl] dbs IH]; intros refs ops A E F.
  - destruct ops; [reflexivity|discriminate].
  - destruct refs as [|r rs]; [discriminate|]. destruct ops as [|o os]; [discriminate|].
    cbn [ops_admitted] in A. apply andb_true_iff in A. destruct A as [A1 A2].
    cbn [forallb snd] in E. apply andb_true_iff in E. destruct E as [E1 E2]. apply negb_true_iff in E1. subst impl.
    cbn [fits_all] in F. apply andb_true_iff in F. destruct F as [F1 F2].
    cbn [match_exact]. rewrite (check_op_sig_ok _ _ _ _ A1 F1). rewrite (IH _ _ A2 E2 F2). reflexivity.
Qed.

Lemma ops_admitted_counts : forall dbops refs, ops_admitted dbops refs = true ->
  length refs = length dbops /\
  (length (filter (fun r => test (fst r) OF_FlagImplicit) refs) + length (explicit_ops dbops) = length dbops)%nat.
Proof.
  induction dbops as [|[[need fixed] impl] dbs IH]; intros refs A.
  - destruct refs; [split; reflexivity|discriminate].
  - destruct refs as [|r rs]; [discriminate|]. cbn [ops_admitted] in A. apply andb_true_iff in A. destruct A as [A1 A2].
    destruct (IH _ A2) as [L C].
    assert (I : test (fst r) OF_FlagImplicit = impl).
    { unfold op_admitted in A1. apply andb_true_iff in A1. destruct A1 as [A1 _]. apply andb_true_iff in A1. destruct A1 as [A1 _].
      apply andb_true_iff in A1. destruct A1 as [_ A1]. apply eqb_prop in A1. exact A1. }
    split; [cbn [length]; congruence|].
    cbn [filter explicit_ops snd]. fold (explicit_ops dbs). rewrite I. destruct impl; cbn [negb length]; lia.
Qed.

Lemma fits_all_length : forall dbops ops, fits_all dbops ops = true -> length ops = length dbops.
Proof.
  induction dbops as [|d ds IH]; intros [|o os] F; cbn in F; try discriminate; [reflexivity|].
  apply andb_true_iff in F. destruct F as [_ F]. cbn [length]. rewrite (IH _ F). reflexivity.
Qed.

Lemma filter_len_le : forall (A : Type) (f : A -> bool) l, (length (filter f l) <= length l)%nat.
Proof. induction l as [|x l IH]; cbn; [lia|]. destruct (f x); cbn; lia. Qed.

Lemma explicit_all : forall dbops, length (explicit_ops dbops) = length dbops ->
  explicit_ops dbops = dbops /\ forallb (fun d => negb (snd d)) dbops = true.
Proof.
  induction dbops as [|d ds IH]; intros L; [split; reflexivity|].
  unfold explicit_ops in *. cbn [filter forallb] in *. destruct (negb (snd d)) eqn:E.
  - cbn [length] in L. destruct (IH ltac:(lia)) as [I1 I2]. rewrite I1, I2. split; reflexivity.
  - exfalso. pose proof (filter_len_le _ (fun d : N * N * bool => negb (snd d)) ds). cbn [length] in L. lia.
Qed.

Lemma test_mode_subset : forall sm rm mb, N.land sm rm = rm -> test rm mb = true -> test sm mb = true.
Proof.
  intros sm rm mb S H. destruct (test sm mb) eqn:E; [reflexivity|exfalso]. apply test_false_iff in E.
  assert (Z : N.land rm mb = 0).
  { rewrite <- S. replace (N.land (N.land sm rm) mb) with (N.land (N.land sm mb) rm) by bits. rewrite E. apply N.land_0_l. }
  unfold test in H. rewrite Z in H. discriminate.
Qed.

Lemma match_sig_ok : forall T zq mb row s ops,
  sig_wf T s = true -> sig_admits T row s = true -> test (dr_mode row) mb = true ->
  fits_all (explicit_ops (dr_ops row)) ops = true ->
  match_sig T zq mb ops s = Some false.
Proof.
  intros T zq mb row s ops W A M F.
  unfold sig_admits in A. apply andb_true_iff in A. destruct A as [A1 A2]. apply N.eqb_eq in A1.
  unfold sig_wf in W. apply andb_true_iff in W. destruct W as [W1 W2]. apply N.eqb_eq in W1, W2.
  destruct (ops_admitted_counts _ _ A2) as [L C].
  pose proof (fits_all_length _ _ F) as LF.
  unfold match_sig. rewrite (test_mode_subset _ _ _ A1 M). cbn [negb].
  destruct (is_op_count s =? N.of_nat (length ops)) eqn:E.
  - apply N.eqb_eq in E.
    assert (LE : length (explicit_ops (dr_ops row)) = length (dr_ops row)) by lia.
    destruct (explicit_all _ LE) as [X1 X2]. rewrite X1 in F.
    rewrite (match_exact_ok _ _ _ A2 X2 F). reflexivity.
  - apply N.eqb_neq in E.
    assert (E2 : is_op_count s - is_implicit s =? N.of_nat (length ops) = true) by (apply N.eqb_eq; lia).
    rewrite E2. rewrite (match_implicit_ok _ _ _ A2 F). reflexivity.
Qed.

Lemma match_sigs_exists : forall T zq mb ops sigs g s,
  In s sigs -> match_sig T zq mb ops s = Some false -> match_sigs T zq mb ops sigs g = E_Ok.
Proof.
  induction sigs as [|h rest IH]; intros g s I M; [destruct I|].
  cbn [match_sigs]. destruct I as [->|I].
  - rewrite M. reflexivity.
  - destruct (match_sig T zq mb ops h) as [[|]|]; [eapply IH; eauto|reflexivity|eapply IH; eauto].
Qed.

Lemma in_firstn : forall (A : Type) n (l : list A) x, In x (firstn n l) -> In x l.
Proof. induction n; intros [|y l] x H; cbn in *; try tauto. destruct H; [left; assumption|right; eauto]. Qed.

Lemma in_skipn : forall (A : Type) n (l : list A) x, In x (skipn n l) -> In x l.
Proof. induction n; intros [|y l] x H; cbn in *; try tauto. right. eauto. Qed.

Lemma in_inst_sigs : forall T sidx scnt s, In s (inst_sigs T sidx scnt) -> In s (vt_isig T).
Proof. intros T sidx scnt s I. unfold inst_sigs in I. eapply in_skipn. eapply in_firstn. exact I. Qed.

(* the bridge: a contained database row => the signature stage accepts every operand list fitting the row's explicit operands *)
Lemma row_present_signature_stage : forall T zq mb row ops iflags avx sidx scnt,
  forallb (sig_wf T) (vt_isig T) = true ->
  row_present T row = true ->
  nth (N.to_nat (dr_inst row)) (vt_inst T) (0, 0, 0, 0) = (iflags, avx, sidx, scnt) ->
  test (dr_mode row) mb = true ->
  fits_all (explicit_ops (dr_ops row)) ops = true ->
  match_sigs T zq mb ops (inst_sigs T sidx scnt) false = E_Ok.
Proof.
  intros T zq mb row ops iflags avx sidx scnt WF P ROW M F.
  unfold row_present in P. rewrite ROW in P. apply andb_true_iff in P. destruct P as [_ P].
  apply existsb_exists in P. destruct P as (s & I & A).
  eapply match_sigs_exists; [exact I|].
  eapply match_sig_ok; eauto.
  exact (forallb_In _ (sig_wf T) _ WF s (in_inst_sigs _ _ _ _ I)).
Qed.

(* ------------------------------------------------------------------ converse (weak): every signature record has a database origin *)
Lemma forallbi_nth : forall (A : Type) (f : N -> A -> bool) l k,
  forallbi f k l = true -> forall j x, nth_error l j = Some x -> f (k + N.of_nat j) x = true.
Proof.
  induction l as [|y l IH]; intros k H j x E; [destruct j; discriminate|].
  cbn [forallbi] in H. apply andb_true_iff in H. destruct H as [H1 H2].
  destruct j as [|j].
  - cbn in E. inversion E. subst. replace (k + N.of_nat 0) with k by lia. exact H1.
  - cbn [nth_error] in E. specialize (IH _ H2 j x E). replace (k + N.of_nat (S j)) with (N.succ k + N.of_nat j) by lia. exact IH.
Qed.

Lemma in_nseq_v : forall len start x, In x (nseq_v start len) <-> start <= x < start + N.of_nat len.
Proof.
  induction len; intros start x; cbn [nseq_v In].
  - split; [tauto|lia].
  - rewrite IHlen. lia.
Qed.

Lemma sig_origin_filter : forall T rows iid s,
  sig_origin T (filter (fun row => dr_inst row =? iid) rows) iid s = true -> sig_origin T rows iid s = true.
Proof.
  intros T rows iid s H. unfold sig_origin in *. cbv zeta in *. apply existsb_exists in H. destruct H as (row & I & P).
  apply existsb_exists. exists row. split; [|exact P]. apply filter_In in I. tauto.
Qed.

Lemma records_origin : forall T rows exc, records_have_origin T rows exc = true ->
  forall iid iflags avx sidx scnt, 1 <= iid < vt_count T ->
  nth (N.to_nat iid) (vt_inst T) (0, 0, 0, 0) = (iflags, avx, sidx, scnt) ->
  forall j s, nth_error (inst_sigs T sidx scnt) j = Some s ->
  pair_in (iid, N.of_nat j) exc = true \/ sig_origin T rows iid s = true.
Proof.
  intros T rows exc H iid iflags avx sidx scnt R ROW j s E.
  unfold records_have_origin in H.
  pose proof (forallb_In _ _ _ H iid ltac:(apply in_nseq_v; lia)) as Q. cbv beta in Q. rewrite ROW in Q. cbv zeta in Q.
  pose proof (forallbi_nth _ _ _ _ Q j s E) as Q2. cbv beta in Q2. replace (0 + N.of_nat j) with (N.of_nat j) in Q2 by lia.
  apply orb_true_iff in Q2. destruct Q2 as [Q2|Q2]; [left; exact Q2|right; apply sig_origin_filter; exact Q2].
Qed.

(* ------------------------------------------------------------------ history of attach / detach is irrelevant: only the holder attached now counts *)
Lemma emitter_mode_last : forall h m, emitter_mode (h ++ [EvAttach m]) = Some m.
Proof. intros. unfold emitter_mode. rewrite fold_left_app. reflexivity. Qed.

Lemma emit_history_irrelevant : forall (S B : Type) T (encode : bool -> S -> vinst -> list operand -> S * (N * B)) fail von h m s inst ops,
  emit_with_history T encode fail von (h ++ [EvAttach m]) s inst ops = emit_with_history T encode fail von [EvAttach m] s inst ops.
Proof. intros. unfold emit_with_history. rewrite emitter_mode_last. reflexivity. Qed.

(* ------------------------------------------------------------------ converse, bit level *)
Lemma kinds_origin : forall T rows exc, kinds_have_origin T rows exc = true ->
  forall iid iflags avx sidx scnt, 1 <= iid < vt_count T ->
  nth (N.to_nat iid) (vt_inst T) (0, 0, 0, 0) = (iflags, avx, sidx, scnt) ->
  forall j s, nth_error (inst_sigs T sidx scnt) j = Some s ->
  forall q ref, nth_error (sig_refs T s) q = Some ref ->
  forall p, p < 48 -> N.testbit (fst ref) p = true -> N.testbit OF_OpMask p = true ->
  N.testbit (named_kinds (admitted_rows (filter (fun row => dr_inst row =? iid) rows) (is_mode s) (sig_refs T s)) q) p = true \/
  systematic_kind (fst ref) (N.shiftl 1 p) = true \/ quad_in (iid, N.of_nat j, N.of_nat q, N.shiftl 1 p) exc = true.
Proof.
  intros T rows exc H iid iflags avx sidx scnt R ROW j s E q ref Eq p Hp TB TO.
  unfold kinds_have_origin in H.
  pose proof (forallb_In _ _ _ H iid ltac:(apply in_nseq_v; lia)) as Q. cbv beta in Q. rewrite ROW in Q. cbv zeta in Q.
  pose proof (forallbi_nth _ _ _ _ Q j s E) as Q2. cbv beta in Q2. replace (0 + N.of_nat j) with (N.of_nat j) in Q2 by lia.
  pose proof (forallbi_nth _ _ _ _ Q2 q ref Eq) as Q3. cbv beta in Q3. replace (0 + N.of_nat q) with (N.of_nat q) in Q3 by lia.
  rewrite Nat2N.id in Q3.
  set (named := named_kinds _ q) in *.
  destruct (N.testbit named p) eqn:NM; [left; reflexivity|right].
  assert (X : N.testbit (N.ldiff (N.land (fst ref) OF_OpMask) named) p = true).
  { rewrite N.ldiff_spec, N.land_spec, TB, TO, NM. reflexivity. }
  destruct (N.ldiff (N.land (fst ref) OF_OpMask) named =? 0) eqn:Z.
  - apply N.eqb_eq in Z. rewrite Z in X. rewrite N.bits_0 in X. discriminate.
  - pose proof (forallb_In _ _ _ Q3 p ltac:(apply in_nseq_v; cbn; lia)) as Q4. cbv beta in Q4. rewrite X in Q4.
    destruct (systematic_kind (fst ref) (N.shiftl 1 p)); [left; reflexivity|right; exact Q4].
Qed.

(* ------------------------------------------------------------------ assembling an acceptance from the stages (converse of validate_ok_inv) *)
Lemma validate_stages_ok : forall T zq x64 virt inst ops iflags avx sidx scnt st rest,
  vi_id inst < vt_count T ->
  nth (N.to_nat (vi_id inst)) (vt_inst T) (0, 0, 0, 0) = (iflags, avx, sidx, scnt) ->
  lock_stage (vi_options inst) iflags (first_is_mem ops) = E_Ok ->
  rep_stage (vi_options inst) iflags = E_Ok ->
  xlat_all T x64 virt iflags avx ops init_xstate = inr (st, rest) ->
  forallb is_none rest = true ->
  mode_stage x64 (vi_options inst) st = E_Ok ->
  sig_stage T zq x64 st sidx scnt = E_Ok ->
  evex_stage (vi_options inst) iflags = E_Ok ->
  avx_stage (vi_options inst) iflags avx (match xs_mem st with Some _ => true | None => false end) (first_is_mem ops) ops = E_Ok ->
  extra_stage inst iflags avx st = E_Ok ->
  validate T zq x64 virt inst ops = E_Ok.
Proof.
  intros T zq x64 virt inst ops iflags avx sidx scnt st rest C ROW L R X G M S E A EX.
  unfold validate. cbv zeta. apply N.leb_gt in C. rewrite C, ROW, L, R, X, G, M, S, E, A. cbn [negb N.eqb E_Ok]. exact EX.
Qed.

(* stage lemmas: what the decorations of a database form need from the instruction's flags *)
Lemma test_0_l : forall x, test 0 x = false.
Proof. intros. unfold test. rewrite N.land_0_l. reflexivity. Qed.

Lemma lock_stage_plain : forall iflags m, lock_stage 0 iflags m = E_Ok.
Proof. intros. unfold lock_stage. rewrite test_0_l. reflexivity. Qed.
Lemma rep_stage_plain : forall iflags, rep_stage 0 iflags = E_Ok.
Proof. intros. unfold rep_stage. rewrite test_0_l. reflexivity. Qed.
Lemma evex_stage_plain : forall iflags, evex_stage 0 iflags = E_Ok.
Proof. intros. unfold evex_stage. rewrite test_0_l. reflexivity. Qed.
Lemma avx_stage_plain : forall iflags avx a b ops, avx_stage 0 iflags avx a b ops = E_Ok.
Proof. intros. unfold avx_stage. rewrite test_0_l. reflexivity. Qed.
Lemma extra_stage_none : forall inst iflags avx st, vi_extra_type inst = 0 -> extra_stage inst iflags avx st = E_Ok.
Proof. intros. unfold extra_stage. rewrite H. reflexivity. Qed.

(* lock prefix alone: the instruction is lockable and the first operand is memory *)
Lemma lock_stage_lock : forall iflags, test iflags IF_Lock = true -> lock_stage OPT_Lock iflags true = E_Ok.
Proof. intros iflags H. unfold lock_stage. rewrite H. vm_compute. reflexivity. Qed.

Lemma rep_stage_rep : forall iflags o, (o = OPT_Rep \/ o = OPT_Repne) -> test iflags IF_Rep = true -> rep_stage o iflags = E_Ok.
Proof. intros iflags o [-> | ->] H; unfold rep_stage; rewrite H; vm_compute; reflexivity. Qed.

(* {k}: an EVEX instruction with the K flag, mask register k1..k7, no rep prefix *)
Lemma extra_stage_k : forall inst iflags avx st,
  test (vi_options inst) kRepAny = false -> test iflags IF_Evex = true -> test avx AF_K = true ->
  vi_extra_type inst = RT_Mask -> 1 <= vi_extra_id inst <= 7 ->
  extra_stage inst iflags avx st = E_Ok.
Proof.
  intros inst iflags avx st NR EV K TY ID. unfold extra_stage. cbv zeta. rewrite TY, NR, EV, K.
  assert (A : (vi_extra_id inst =? 0) = false) by (apply N.eqb_neq; lia).
  assert (B : (7 <? vi_extra_id inst) = false) by (apply N.ltb_ge; lia).
  rewrite A, B. vm_compute. reflexivity.
Qed.

(* {z} {er} {sae}: general sufficient condition *)
Lemma avx_stage_ok : forall options iflags avx has_mem op0m ops,
  test iflags IF_Evex = true ->
  (test options OPT_ZMask = true -> test avx AF_Z = true /\ op0m = false) ->
  (test options (N.lor OPT_SAE OPT_ER) = true ->
     has_mem = false /\ (test options OPT_ER = true -> test avx AF_ER = true) /\ (test options OPT_ER = false -> test avx AF_SAE = true /\ test avx AF_ER = false) /\
     (test avx (N.lor AF_B16 (N.lor AF_B32 AF_B64)) = true -> is_zmm_or_m512 (nth 0 ops ONone) || is_zmm_or_m512 (nth 1 ops ONone) = true)) ->
  avx_stage options iflags avx has_mem op0m ops = E_Ok.
Proof.
  intros options iflags avx has_mem op0m ops EV Z R. unfold avx_stage.
  destruct (test options kAvx512); cbn [negb]; [|reflexivity]. rewrite EV.
  destruct (test options OPT_ZMask) eqn:TZ.
  - destruct (Z eq_refl) as [Z1 Z2]. rewrite Z1, Z2. cbn [negb andb].
    destruct (test options (N.lor OPT_SAE OPT_ER)) eqn:TR; [|reflexivity].
    destruct (R eq_refl) as (R1 & R2 & R3 & R4). rewrite R1.
    destruct (test options OPT_ER) eqn:TE.
    + rewrite (R2 eq_refl). cbn [negb andb].
      destruct (test avx (N.lor AF_B16 (N.lor AF_B32 AF_B64))) eqn:TB; [|reflexivity].
      specialize (R4 eq_refl). apply orb_true_iff in R4. destruct R4 as [R4|R4]; rewrite R4; cbn; try reflexivity.
      destruct (is_zmm_or_m512 (nth 0 ops ONone)); reflexivity.
    + destruct (R3 eq_refl) as [R3a R3b]. rewrite R3a, R3b. cbn [negb andb orb].
      destruct (test avx (N.lor AF_B16 (N.lor AF_B32 AF_B64))) eqn:TB; [|reflexivity].
      specialize (R4 eq_refl). apply orb_true_iff in R4. destruct R4 as [R4|R4]; rewrite R4; cbn; try reflexivity.
      destruct (is_zmm_or_m512 (nth 0 ops ONone)); reflexivity.
  - cbn [andb].
    destruct (test options (N.lor OPT_SAE OPT_ER)) eqn:TR; [|reflexivity].
    destruct (R eq_refl) as (R1 & R2 & R3 & R4). rewrite R1.
    destruct (test options OPT_ER) eqn:TE.
    + rewrite (R2 eq_refl). cbn [negb andb].
      destruct (test avx (N.lor AF_B16 (N.lor AF_B32 AF_B64))) eqn:TB; [|reflexivity].
      specialize (R4 eq_refl). apply orb_true_iff in R4. destruct R4 as [R4|R4]; rewrite R4; cbn; try reflexivity.
      destruct (is_zmm_or_m512 (nth 0 ops ONone)); reflexivity.
    + destruct (R3 eq_refl) as [R3a R3b]. rewrite R3a, R3b. cbn [negb andb orb].
      destruct (test avx (N.lor AF_B16 (N.lor AF_B32 AF_B64))) eqn:TB; [|reflexivity].
      specialize (R4 eq_refl). apply orb_true_iff in R4. destruct R4 as [R4|R4]; rewrite R4; cbn; try reflexivity.
      destruct (is_zmm_or_m512 (nth 0 ops ONone)); reflexivity.
Qed.

(* the row-level acceptance theorem: a contained database row + operands that translate and fit + stages of the decorations => validate accepts *)
Lemma db_row_validates : forall T zq x64 virt row inst ops iflags avx sidx scnt st rest,
  forallb (sig_wf T) (vt_isig T) = true ->
  row_present T row = true ->
  vi_id inst = dr_inst row ->
  nth (N.to_nat (dr_inst row)) (vt_inst T) (0, 0, 0, 0) = (iflags, avx, sidx, scnt) ->
  test (dr_mode row) (mode_bit x64) = true ->
  xlat_all T x64 virt iflags avx ops init_xstate = inr (st, rest) ->
  forallb is_none rest = true ->
  fits_all (explicit_ops (dr_ops row)) (xs_sigs st) = true ->
  lock_stage (vi_options inst) iflags (first_is_mem ops) = E_Ok ->
  rep_stage (vi_options inst) iflags = E_Ok ->
  mode_stage x64 (vi_options inst) st = E_Ok ->
  evex_stage (vi_options inst) iflags = E_Ok ->
  avx_stage (vi_options inst) iflags avx (match xs_mem st with Some _ => true | None => false end) (first_is_mem ops) ops = E_Ok ->
  extra_stage inst iflags avx st = E_Ok ->
  validate T zq x64 virt inst ops = E_Ok.
Proof.
  intros T zq x64 virt row inst ops iflags avx sidx scnt st rest WF P ID ROW M X G F L R MD E A EX.
  assert (C : vi_id inst < vt_count T).
  { unfold row_present in P. rewrite ROW in P. apply andb_true_iff in P. destruct P as [P _]. apply N.ltb_lt in P. lia. }
  eapply validate_stages_ok; eauto.
  - rewrite ID. exact ROW.
  - unfold sig_stage. destruct (scnt =? 0); [reflexivity|].
    change (if x64 then MODE_X64 else MODE_X86) with (mode_bit x64).
    eapply row_present_signature_stage; eauto.
Qed.

(* ------------------------------------------------------------------ the representative operands generated from a row validate (premises of db_row_validates derived by evaluation) *)
Lemma rep_validates : forall T zq x64 row,
  forallb (sig_wf T) (vt_isig T) = true -> row_present T row = true ->
  test (dr_mode row) (mode_bit x64) = true -> rep_premises T x64 row = true ->
  validate T zq x64 false {| vi_id := dr_inst row; vi_options := 0; vi_extra_type := 0; vi_extra_id := 0 |} (rep_ops x64 row) = E_Ok.
Proof.
  intros T zq x64 row WF P M R. unfold rep_premises in R.
  destruct (nth (N.to_nat (dr_inst row)) (vt_inst T) (0, 0, 0, 0)) as [[[iflags avx] sidx] scnt] eqn:ROW.
  destruct (xlat_all T x64 false iflags avx (rep_ops x64 row) init_xstate) as [e|[st rest]] eqn:X; [discriminate|].
  apply andb_true_iff in R. destruct R as [R MD]. apply andb_true_iff in R. destruct R as [G F]. apply N.eqb_eq in MD.
  eapply (db_row_validates T zq x64 false row _ (rep_ops x64 row) iflags avx sidx scnt st rest WF P); eauto; cbn [vi_options vi_extra_type];
  auto using lock_stage_plain, rep_stage_plain, evex_stage_plain, avx_stage_plain, extra_stage_none.
Qed.

Lemma rep_validates_both : forall T zq row,
  forallb (sig_wf T) (vt_isig T) = true -> row_present T row = true -> rep_premises_both T row = true ->
  forall x64, test (dr_mode row) (mode_bit x64) = true ->
  validate T zq x64 false {| vi_id := dr_inst row; vi_options := 0; vi_extra_type := 0; vi_extra_id := 0 |} (rep_ops x64 row) = E_Ok.
Proof.
  intros T zq row WF P R x64 M. unfold rep_premises_both in R. apply andb_true_iff in R. destruct R as [R1 R2].
  destruct x64; cbn [mode_bit] in M.
  - rewrite M in R2. apply rep_validates; auto.
  - rewrite M in R1. apply rep_validates; auto.
Qed.

(* ------------------------------------------------------------------ decorated rows: the representative operands validate under the decoration's instruction word *)
Lemma rep_decor_validates : forall T zq x64 row o et ei,
  forallb (sig_wf T) (vt_isig T) = true ->
  test (dr_mode row) (mode_bit x64) = true -> rep_decor_premises T x64 (row, o, et, ei) = true ->
  validate T zq x64 false {| vi_id := dr_inst row; vi_options := o; vi_extra_type := et; vi_extra_id := ei |} (rep_ops x64 row) = E_Ok.
Proof.
  intros T zq x64 row o et ei WF M R. unfold rep_decor_premises in R.
  destruct (nth (N.to_nat (dr_inst row)) (vt_inst T) (0, 0, 0, 0)) as [[[iflags avx] sidx] scnt] eqn:ROW.
  apply andb_true_iff in R. destruct R as [P R].
  destruct (xlat_all T x64 false iflags avx (rep_ops x64 row) init_xstate) as [e|[st rest]] eqn:X; [discriminate|].
  repeat (apply andb_true_iff in R; let H := fresh "S" in destruct R as [R H]).
  repeat match goal with H : (_ =? E_Ok) = true |- _ => apply N.eqb_eq in H end.
  eapply (db_row_validates T zq x64 false row _ (rep_ops x64 row) iflags avx sidx scnt st rest WF P); eauto.
Qed.

Lemma rep_decor_validates_both : forall T zq dr,
  forallb (sig_wf T) (vt_isig T) = true -> rep_decor_premises_both T dr = true ->
  forall x64, test (dr_mode (fst (fst (fst dr)))) (mode_bit x64) = true ->
  validate T zq x64 false {| vi_id := dr_inst (fst (fst (fst dr))); vi_options := snd (fst (fst dr)); vi_extra_type := snd (fst dr); vi_extra_id := snd dr |}
           (rep_ops x64 (fst (fst (fst dr)))) = E_Ok.
Proof.
  intros T zq [[[row o] et] ei] WF R x64 M. cbn [fst snd] in *. unfold rep_decor_premises_both in R. cbn [fst] in R.
  apply andb_true_iff in R. destruct R as [R1 R2].
  destruct x64; cbn [mode_bit] in M.
  - rewrite M in R2. apply rep_decor_validates; auto.
  - rewrite M in R1. apply rep_decor_validates; auto.
Qed.

(* ------------------------------------------------------------------ vector registers 16..31 on an instruction without EVEX encoding: refused, for ALL operand lists *)
Lemma xlat_all_prefix_ok : forall T x64 virt iflags avx op post pre st0 st rest,
  (forall o, In o pre -> o <> ONone) -> op <> ONone ->
  xlat_all T x64 virt iflags avx (pre ++ op :: post) st0 = inr (st, rest) ->
  exists x comb, xlat_operand T x64 virt iflags avx op = XOk x comb.
Proof.
  induction pre as [|p pre IH]; intros st0 st rest NN NO H.
  - cbn [app xlat_all] in H. destruct op; try congruence;
    (destruct (xlat_operand T x64 virt iflags avx _) as [e|x comb] eqn:X; [discriminate|eauto]).
  - cbn [app xlat_all] in H. assert (Pn : p <> ONone) by (apply NN; left; reflexivity).
    destruct p; try congruence;
    (match type of H with context [xlat_operand T x64 virt iflags avx ?o] =>
       destruct (xlat_operand T x64 virt iflags avx o) as [e|x comb] eqn:X end; [discriminate H|];
     eapply IH; [intros o Ho; apply NN; right; exact Ho|exact NO|exact H]).
Qed.

Lemma xlat_vec16_err : forall T x64 virt iflags avx rt id,
  16 <= id < 32 -> RT_Vec128 <= rt <= RT_Vec512 -> test iflags IF_Evex = false ->
  forall x comb, xlat_operand T x64 virt iflags avx (OReg rt id) <> XOk x comb.
Proof.
  intros T x64 virt iflags avx rt id Hid Hrt EV x comb X. unfold xlat_operand in X. cbv zeta in X.
  destruct (nthN (vt_rt_opflags T) rt =? 0); [discriminate|].
  assert (A : (id <? VirtIdMin) = true) by (apply N.ltb_lt; unfold VirtIdMin; lia). rewrite A in X.
  assert (B : (32 <=? id) = false) by (apply N.leb_gt; lia). rewrite B in X.
  destruct (negb (N.testbit _ id)); [discriminate|].
  assert (C1 : (16 <=? id) = true) by (apply N.leb_le; lia).
  assert (C2 : (RT_Vec128 <=? rt) = true) by (apply N.leb_le; lia).
  assert (C3 : (rt <=? RT_Vec512) = true) by (apply N.leb_le; lia).
  rewrite C1, C2, C3, EV in X. cbn in X. discriminate.
Qed.

Lemma validate_refuses_vec16_without_evex : forall T zq x64 virt inst pre rt id post iflags avx sidx scnt,
  nth (N.to_nat (vi_id inst)) (vt_inst T) (0, 0, 0, 0) = (iflags, avx, sidx, scnt) ->
  test iflags IF_Evex = false ->
  (forall o, In o pre -> o <> ONone) -> 16 <= id < 32 -> RT_Vec128 <= rt <= RT_Vec512 ->
  validate T zq x64 virt inst (pre ++ OReg rt id :: post) <> E_Ok.
Proof.
  intros T zq x64 virt inst pre rt id post iflags avx sidx scnt ROW EV NN Hid Hrt H.
  destruct (validate_ok_inv _ _ _ _ _ _ H) as (_ & iflags' & avx' & sidx' & scnt' & st & rest & ROW' & XL & _).
  rewrite ROW in ROW'. inversion ROW'. subst.
  assert (NO : OReg rt id <> ONone) by (intro Q; discriminate Q).
  destruct (xlat_all_prefix_ok _ _ _ _ _ (OReg rt id) _ _ _ _ _ NN NO XL) as (x & comb & X).
  exact (xlat_vec16_err _ _ _ _ _ _ _ Hid Hrt EV _ _ X).
Qed.

(* ------------------------------------------------------------------ padding with empty operands does not change the verdict (the emitters pass 6 operand slots, InstAPI callers
   the exact count): validate (ops ++ k empty slots) = validate ops *)
Lemma xlat_all_app_nones : forall T x64 virt iflags avx k ops st,
  xlat_all T x64 virt iflags avx (ops ++ repeat ONone k) st =
  match xlat_all T x64 virt iflags avx ops st with
  | inl e => inl e
  | inr (st', rest) => inr (st', rest ++ repeat ONone k)
  end.
Proof.
  induction ops as [|op ops IH]; intros st.
  - cbn [app xlat_all]. destruct k; reflexivity.
  - cbn [app xlat_all]. destruct op; try reflexivity;
    (destruct (xlat_operand T x64 virt iflags avx _) as [e|x comb]; [reflexivity|apply IH]).
Qed.

Lemma forallb_is_none_pad : forall rest k, forallb is_none (rest ++ repeat ONone k) = forallb is_none rest.
Proof.
  intros. rewrite forallb_app. assert (forallb is_none (repeat ONone k) = true) by (induction k; cbn; auto).
  rewrite H. apply andb_true_r.
Qed.

Lemma nth_repeat_none : forall k i, nth i (repeat ONone k) ONone = ONone.
Proof. induction k; intros [|i]; cbn; auto. Qed.

Lemma nth_pad : forall (ops : list operand) k i, nth i (ops ++ repeat ONone k) ONone = nth i ops ONone.
Proof.
  induction ops as [|o ops IH]; intros k i.
  - cbn [app]. rewrite nth_repeat_none. destruct i; reflexivity.
  - destruct i; cbn; auto.
Qed.

Lemma first_is_mem_pad : forall ops k, first_is_mem (ops ++ repeat ONone k) = first_is_mem ops.
Proof. intros [|o ops] k; cbn; [destruct k; reflexivity|reflexivity]. Qed.

Lemma validate_padding_invariant : forall T zq x64 virt inst ops k,
  validate T zq x64 virt inst (ops ++ repeat ONone k) = validate T zq x64 virt inst ops.
Proof.
  intros. unfold validate. cbv zeta.
  destruct (vt_count T <=? vi_id inst); [reflexivity|].
  destruct (nth (N.to_nat (vi_id inst)) (vt_inst T) (0, 0, 0, 0)) as [[[iflags avx] sidx] scnt].
  rewrite first_is_mem_pad, xlat_all_app_nones.
  destruct (negb (lock_stage _ _ _ =? E_Ok)); [reflexivity|].
  destruct (negb (rep_stage _ _ =? E_Ok)); [reflexivity|].
  destruct (xlat_all T x64 virt iflags avx ops init_xstate) as [e|[st rest]]; [reflexivity|].
  rewrite forallb_is_none_pad.
  destruct (negb (forallb is_none rest)); [reflexivity|].
  unfold avx_stage. rewrite !nth_pad. reflexivity.
Qed.

(* ------------------------------------------------------------------ what validate never accepts, for all inputs: undefined ids, operand lists with a gap *)
Lemma validate_undefined_id : forall T zq x64 virt inst ops, vt_count T <= vi_id inst -> validate T zq x64 virt inst ops = E_InvalidInstruction.
Proof. intros. unfold validate. cbv zeta. apply N.leb_le in H. rewrite H. reflexivity. Qed.

Lemma xlat_all_stops_at_none : forall T x64 virt iflags avx post pre st0 st rest,
  (forall o, In o pre -> o <> ONone) ->
  xlat_all T x64 virt iflags avx (pre ++ ONone :: post) st0 = inr (st, rest) -> rest = ONone :: post.
Proof.
  induction pre as [|p pre IH]; intros st0 st rest NN H.
  - cbn [app xlat_all] in H. inversion H. reflexivity.
  - cbn [app xlat_all] in H. assert (Pn : p <> ONone) by (apply NN; left; reflexivity).
    destruct p; try congruence;
    (match type of H with context [xlat_operand T x64 virt iflags avx ?o] =>
       destruct (xlat_operand T x64 virt iflags avx o) as [e|x comb] eqn:X end; [discriminate H|];
     eapply IH; [intros o Ho; apply NN; right; exact Ho|exact H]).
Qed.

Lemma validate_refuses_gap : forall T zq x64 virt inst pre post op,
  (forall o, In o pre -> o <> ONone) -> In op post -> op <> ONone ->
  validate T zq x64 virt inst (pre ++ ONone :: post) <> E_Ok.
Proof.
  intros T zq x64 virt inst pre post op NN I NO H.
  destruct (validate_ok_inv _ _ _ _ _ _ H) as (_ & iflags & avx & sidx & scnt & st & rest & _ & XL & G & _).
  rewrite (xlat_all_stops_at_none _ _ _ _ _ _ _ _ _ _ NN XL) in G. cbn [forallb is_none andb] in G.
  pose proof (forallb_In _ _ _ G op I) as Q. destruct op; try discriminate. congruence.
Qed.

(* ------------------------------------------------------------------ round 6: the translation premises of the row-level theorem, operand by operand *)
Definition xs_low (st : xstate) : Prop := N.land (xs_regs st) 4294967040 = 0.

Lemma land_lor_high : forall a b, N.land a 4294967040 = 0 -> b < 256 -> N.land (N.lor a b) 4294967040 = 0.
Proof.
  intros a b A B. rewrite N.land_lor_distr_l, A, N.lor_0_l.
  apply N.bits_inj_0. intro n. rewrite N.land_spec.
  destruct (N.lt_ge_cases n 8) as [L|G].
  - replace (N.testbit 4294967040 n) with false; [apply andb_false_r|].
    assert (n = 0 \/ n = 1 \/ n = 2 \/ n = 3 \/ n = 4 \/ n = 5 \/ n = 6 \/ n = 7) as C by lia.
    destruct C as [->|[->|[->|[->|[->|[->|[->| ->]]]]]]]; reflexivity.
  - replace (N.testbit b n) with false; [reflexivity|].
    symmetry. destruct (N.eq_dec b 0) as [->|NZ]; [apply N.bits_0|].
    apply N.bits_above_log2. apply N.log2_lt_pow2; [lia|]. apply N.lt_le_trans with (2 ^ 8); [exact B|apply N.pow_le_mono_r; lia].
Qed.

Lemma operands_ok_xlat : forall T x64 iflags avx dbops ops st0,
  operands_ok T x64 iflags avx dbops ops = true -> xs_low st0 -> (x64 = false -> test (xs_flags st0) OF_RegGpq = false) ->
  exists st, xlat_all T x64 false iflags avx ops st0 = inr (st, []) /\
             (exists sigs, xs_sigs st = xs_sigs st0 ++ sigs /\ fits_all dbops sigs = true) /\
             xs_low st /\ (x64 = false -> test (xs_flags st) OF_RegGpq = false).
Proof.
  induction dbops as [|d ds IH]; intros ops st0 H L G.
  - destruct ops; [|discriminate]. exists st0. split; [reflexivity|]. split; [exists []; rewrite app_nil_r; auto|auto].
  - destruct ops as [|o os]; [discriminate|]. cbn [operands_ok] in H. apply andb_true_iff in H. destruct H as [H1 H2].
    unfold operand_ok in H1.
    assert (NO : o <> ONone) by (intro Q; subst o; discriminate).
    destruct (xlat_operand T x64 false iflags avx o) as [e|x comb] eqn:X; [destruct o; discriminate|].
    assert (H1' : op_fits d (sig_of_xlat x) && (comb <? 256) && (x64 || negb (test (x_flags x) OF_RegGpq)) = true) by (destruct o; auto; discriminate).
    apply andb_true_iff in H1'. destruct H1' as [H1' Gq]. apply andb_true_iff in H1'. destruct H1' as [F C]. apply N.ltb_lt in C.
    set (st1 := {| xs_sigs := xs_sigs st0 ++ [sig_of_xlat x]; xs_flags := N.lor (xs_flags st0) (x_flags x); xs_regs := N.lor (xs_regs st0) comb;
                   xs_mem := match o with OMem _ _ _ _ _ _ _ _ _ => Some o | _ => xs_mem st0 end |}).
    assert (L1 : xs_low st1) by (unfold xs_low, st1; cbn [xs_regs]; apply land_lor_high; assumption).
    assert (G1 : x64 = false -> test (xs_flags st1) OF_RegGpq = false).
    { intros E. unfold st1. cbn [xs_flags]. specialize (G E). subst x64. cbn [orb] in Gq. apply negb_true_iff in Gq.
      apply test_false_iff. apply test_false_iff in G, Gq. rewrite N.land_lor_distr_l, G, Gq. reflexivity. }
    destruct (IH os st1 H2 L1 G1) as (st & XA & (sigs & S1 & S2) & L2 & G2).
    exists st. split.
    + cbn [xlat_all]. destruct o; try congruence; rewrite X; exact XA.
    + split; [|auto]. exists (sig_of_xlat x :: sigs). split.
      * rewrite S1. unfold st1. cbn [xs_sigs]. rewrite <- app_assoc. reflexivity.
      * cbn [fits_all]. rewrite F, S2. reflexivity.
Qed.

Lemma db_row_validates_operandwise : forall T zq x64 row ops iflags avx sidx scnt,
  forallb (sig_wf T) (vt_isig T) = true -> row_present T row = true ->
  nth (N.to_nat (dr_inst row)) (vt_inst T) (0, 0, 0, 0) = (iflags, avx, sidx, scnt) ->
  test (dr_mode row) (mode_bit x64) = true ->
  operands_ok T x64 iflags avx (explicit_ops (dr_ops row)) ops = true ->
  validate T zq x64 false {| vi_id := dr_inst row; vi_options := 0; vi_extra_type := 0; vi_extra_id := 0 |} ops = E_Ok.
Proof.
  intros T zq x64 row ops iflags avx sidx scnt WF P ROW M OK.
  destruct (operands_ok_xlat T x64 iflags avx _ ops init_xstate OK) as (st & XA & (sigs & S1 & S2) & L & G).
  { unfold xs_low. reflexivity. }
  { intros _. reflexivity. }
  cbn [init_xstate xs_sigs app] in S1.
  eapply (db_row_validates T zq x64 false row _ ops iflags avx sidx scnt st [] WF P); eauto; cbn [vi_options vi_extra_type];
  auto using lock_stage_plain, rep_stage_plain, evex_stage_plain, avx_stage_plain, extra_stage_none.
  - rewrite S1. exact S2.
  - unfold mode_stage. destruct x64.
    + cbn [negb]. rewrite test_0_l. cbn [orb]. unfold xs_low in L. rewrite L. reflexivity.
    + cbn [negb]. rewrite (G eq_refl). reflexivity.
Qed.

(* ------------------------------------------------------------------ a whole FAMILY of memory operands is acceptable for a sized-memory kind: mode-sized GP base 0..7, no index,
   ANY displacement (zero where the row demands a base-only address), default segment, no broadcast *)
Lemma operand_ok_plain_mem : forall T (x64 : bool) iflags avx sz sf bid (off : Z) (need_mb : bool),
  mem_size_flag sz = Some sf -> bid < 8 ->
  N.testbit (vd_base_regs (if x64 then vt_vd64 T else vt_vd86 T)) (if x64 then RT_Gp64 else RT_Gp32) = true ->
  (need_mb = true -> (off mod 4294967296 = 0)%Z) ->
  operand_ok T x64 iflags avx (N.lor sf (if need_mb then OF_FlagMemBase else 0), 0, false)
             (OMem sz (if x64 then RT_Gp64 else RT_Gp32) bid 0 0 off 0 0 false) = true.
Proof.
  intros T x64 iflags avx sz sf bid off need_mb SZ BID BASE MB.
  assert (B8 : bid = 0 \/ bid = 1 \/ bid = 2 \/ bid = 3 \/ bid = 4 \/ bid = 5 \/ bid = 6 \/ bid = 7) by lia.
  unfold operand_ok, xlat_operand. cbv zeta.
  replace (6 <? 0) with false by reflexivity.
  replace (negb (0 =? 0)) with false by reflexivity. cbn [andb].
  replace (0 =? 0) with true by reflexivity. cbn [andb].
  assert (OT : (1 <? (if x64 then RT_Gp64 else RT_Gp32)) = true) by (destruct x64; reflexivity). rewrite OT.
  cbn [negb andb]. rewrite BASE. cbn [negb andb].
  assert (BV : (bid <? VirtIdMin) = true) by (apply N.ltb_lt; unfold VirtIdMin; lia). rewrite BV.
  assert (B32 : (32 <=? bid) = false) by (apply N.leb_gt; lia). rewrite B32.
  rewrite SZ.
  unfold mem_size_flag in SZ.
  destruct ((off mod 4294967296 =? 0)%Z) eqn:OFF.
  - repeat match type of SZ with (if ?c then _ else _) = _ => destruct c end; inversion SZ; subst sf;
    destruct need_mb; destruct x64;
    destruct B8 as [->|[->|[->|[->|[->|[->|[->| ->]]]]]]]; vm_compute; reflexivity.
  - assert (need_mb = false).
    { destruct need_mb; [|reflexivity]. specialize (MB eq_refl). apply Z.eqb_neq in OFF. contradiction. }
    subst need_mb.
    repeat match type of SZ with (if ?c then _ else _) = _ => destruct c end; inversion SZ; subst sf;
    destruct x64;
    destruct B8 as [->|[->|[->|[->|[->|[->|[->| ->]]]]]]]; vm_compute; reflexivity.
Qed.

(* every immediate is acceptable for an immediate kind it belongs to, a label for a relative-displacement kind *)
Lemma operand_ok_imm : forall T x64 iflags avx v need,
  test need OF_RegMask = false -> test need OF_FlagMemBase = false ->
  test (N.land (N.land (imm_flags v) MASK56) need) OF_OpMask = true ->
  operand_ok T x64 iflags avx (need, 0, false) (OImm v) = true.
Proof.
  intros T x64 iflags avx v need NR NM F. unfold operand_ok, xlat_operand, sig_of_xlat, op_fits. cbn [x_flags x_regmask fst snd].
  rewrite F, NR, NM. cbn [negb orb andb N.eqb].
  assert (R : test (N.land (imm_flags v) MASK56) OF_RegMask = false /\ test (imm_flags v) OF_RegGpq = false).
  { unfold imm_flags. repeat match goal with |- context [if ?c then _ else _] => destruct c end; vm_compute; split; reflexivity. }
  destruct R as [R1 R2]. rewrite R1, R2. cbn [negb]. rewrite orb_true_r. reflexivity.
Qed.

Lemma operand_ok_label : forall T x64 iflags avx need,
  test need OF_RegMask = false -> test need OF_FlagMemBase = false ->
  test (N.land (N.land (N.lor OF_Rel8 OF_Rel32) MASK56) need) OF_OpMask = true ->
  operand_ok T x64 iflags avx (need, 0, false) OLabel = true.
Proof.
  intros T x64 iflags avx need NR NM F. unfold operand_ok, xlat_operand, sig_of_xlat, op_fits. cbn [x_flags x_regmask fst snd].
  rewrite F, NR, NM. cbn [negb orb andb N.eqb].
  replace (test (N.land (N.lor OF_Rel8 OF_Rel32) MASK56) OF_RegMask) with false by (vm_compute; reflexivity).
  replace (test (N.lor OF_Rel8 OF_Rel32) OF_RegGpq) with false by (vm_compute; reflexivity).
  cbn [negb]. rewrite orb_true_r. reflexivity.
Qed.

(* ------------------------------------------------------------------ standard instances are acceptable operands (given the two reflected table facts) *)
Lemma operand_ok_reg_flags_irrelevant : forall T x64 iflags avx d rt id, id < 16 ->
  operand_ok T x64 iflags avx d (OReg rt id) = operand_ok T x64 0 0 d (OReg rt id).
Proof.
  intros T x64 iflags avx d rt id H. unfold operand_ok, xlat_operand. cbv zeta.
  assert (A : (16 <=? id) = false) by (apply N.leb_gt; exact H). rewrite A. reflexivity.
Qed.

Lemma std_reg_ok : forall T x64 iflags avx need fixed rt id,
  standard_registers_ok T = true -> std_reg x64 need fixed rt id = true ->
  operand_ok T x64 iflags avx (need, fixed, false) (OReg rt id) = true.
Proof.
  intros T x64 iflags avx need fixed rt id SR H. unfold std_reg in H. apply andb_true_iff in H. destruct H as [H F].
  apply existsb_exists in H. destruct H as ([[[[rt' kind] lo] hi] modes] & I & C).
  repeat (apply andb_true_iff in C; let X := fresh "C" in destruct C as [C X]).
  apply N.eqb_eq in C. subst rt'. apply N.eqb_eq in C3. subst kind. apply N.leb_le in C2, C1.
  apply existsb_exists in C0. destruct C0 as (m & Im & Em). apply eqb_prop in Em. subst m.
  unfold standard_registers_ok in SR. pose proof (forallb_In _ _ _ SR _ I) as Q. cbv beta iota in Q.
  unfold class_regs_ok_in in Q. pose proof (forallb_In _ _ _ Q _ Im) as Q2. cbv beta in Q2.
  assert (Iid : In id (nseq_v lo (S (N.to_nat (hi - lo))))) by (apply in_nseq_v; lia).
  pose proof (forallb_In _ _ _ Q2 _ Iid) as Q3. cbv beta in Q3. apply andb_true_iff in Q3. destruct Q3 as [QA QB].
  assert (I16 : id < 16).
  { assert (hi <= 7); [|lia]. clear - I. unfold standard_register_classes in I. cbn [In] in I.
    repeat (destruct I as [I|I]; [inversion I; subst; lia|]). destruct I. }
  rewrite operand_ok_reg_flags_irrelevant by exact I16.
  apply orb_true_iff in F. destruct F as [F|F]; apply N.eqb_eq in F; subst fixed; assumption.
Qed.

Lemma std_instance_ok : forall T x64 iflags avx d op,
  standard_registers_ok T = true ->
  N.testbit (vd_base_regs (vt_vd64 T)) RT_Gp64 && N.testbit (vd_base_regs (vt_vd86 T)) RT_Gp32 = true ->
  std_instance x64 d op = true -> operand_ok T x64 iflags avx d op = true.
Proof.
  intros T x64 iflags avx [[need fixed] impl] op S B H. unfold std_instance in H.
  apply andb_true_iff in H. destruct H as [NI H]. apply negb_true_iff in NI. subst impl.
  destruct op as [|rt id|sz bt bid it iid off seg bcst home|v|]; try discriminate.
  - apply std_reg_ok; assumption.
  - repeat (apply andb_true_iff in H; let X := fresh "H" in destruct H as [H X]).
    apply N.eqb_eq in H. subst bt. apply N.ltb_lt in H7. apply N.eqb_eq in H6, H5, H4, H3, H1. subst it iid seg bcst fixed.
    apply negb_true_iff in H2. subst home.
    destruct (mem_size_flag sz) as [sf|] eqn:SZ; [|discriminate].
    assert (BB : N.testbit (vd_base_regs (if x64 then vt_vd64 T else vt_vd86 T)) (if x64 then RT_Gp64 else RT_Gp32) = true).
    { apply andb_true_iff in B. destruct B as [B1 B2]. destruct x64; assumption. }
    apply orb_true_iff in H0. destruct H0 as [E|E].
    + apply N.eqb_eq in E. subst need.
      pose proof (operand_ok_plain_mem T x64 iflags avx sz sf bid off false SZ H7 BB ltac:(discriminate)) as Q.
      cbn in Q. rewrite N.lor_0_r in Q. exact Q.
    + apply andb_true_iff in E. destruct E as [E1 E2]. apply N.eqb_eq in E1. subst need. apply Z.eqb_eq in E2.
      exact (operand_ok_plain_mem T x64 iflags avx sz sf bid off true SZ H7 BB (fun _ => E2)).
  - repeat (apply andb_true_iff in H; let X := fresh "H" in destruct H as [H X]).
    apply N.eqb_eq in H. subst fixed. apply negb_true_iff in H2, H1. apply operand_ok_imm; assumption.
  - repeat (apply andb_true_iff in H; let X := fresh "H" in destruct H as [H X]).
    apply N.eqb_eq in H. subst fixed. apply negb_true_iff in H2, H1. apply operand_ok_label; assumption.
Qed.

Lemma std_instances_ok : forall T x64 iflags avx ds ops,
  standard_registers_ok T = true ->
  N.testbit (vd_base_regs (vt_vd64 T)) RT_Gp64 && N.testbit (vd_base_regs (vt_vd86 T)) RT_Gp32 = true ->
  std_instances x64 ds ops = true -> operands_ok T x64 iflags avx ds ops = true.
Proof.
  induction ds as [|d ds IH]; intros [|o os] S B H; cbn in *; try discriminate; [reflexivity|].
  apply andb_true_iff in H. destruct H as [H1 H2]. rewrite (std_instance_ok _ _ _ _ _ _ S B H1), (IH _ S B H2). reflexivity.
Qed.

Lemma db_row_validates_standard : forall T zq x64 row ops,
  forallb (sig_wf T) (vt_isig T) = true -> row_present T row = true ->
  standard_registers_ok T = true ->
  N.testbit (vd_base_regs (vt_vd64 T)) RT_Gp64 && N.testbit (vd_base_regs (vt_vd86 T)) RT_Gp32 = true ->
  test (dr_mode row) (mode_bit x64) = true ->
  std_instances x64 (explicit_ops (dr_ops row)) ops = true ->
  validate T zq x64 false {| vi_id := dr_inst row; vi_options := 0; vi_extra_type := 0; vi_extra_id := 0 |} ops = E_Ok.
Proof.
  intros T zq x64 row ops WF P SR B M ST.
  destruct (nth (N.to_nat (dr_inst row)) (vt_inst T) (0, 0, 0, 0)) as [[[iflags avx] sidx] scnt] eqn:ROW.
  eapply db_row_validates_operandwise; eauto. apply std_instances_ok; assumption.
Qed.

(* ------------------------------------------------------------------ standard operands under a {k} mask: k1..k7 on an instruction that has EVEX and the K flag *)
Lemma db_row_validates_standard_k : forall T zq x64 row ops kid iflags avx sidx scnt,
  forallb (sig_wf T) (vt_isig T) = true -> row_present T row = true ->
  standard_registers_ok T = true ->
  N.testbit (vd_base_regs (vt_vd64 T)) RT_Gp64 && N.testbit (vd_base_regs (vt_vd86 T)) RT_Gp32 = true ->
  nth (N.to_nat (dr_inst row)) (vt_inst T) (0, 0, 0, 0) = (iflags, avx, sidx, scnt) ->
  test iflags IF_Evex = true -> test avx AF_K = true -> 1 <= kid <= 7 ->
  test (dr_mode row) (mode_bit x64) = true ->
  std_instances x64 (explicit_ops (dr_ops row)) ops = true ->
  validate T zq x64 false {| vi_id := dr_inst row; vi_options := 0; vi_extra_type := RT_Mask; vi_extra_id := kid |} ops = E_Ok.
Proof.
  intros T zq x64 row ops kid iflags avx sidx scnt WF P SR B ROW EV K KID M ST.
  pose proof (std_instances_ok T x64 iflags avx _ _ SR B ST) as OK.
  destruct (operands_ok_xlat T x64 iflags avx _ ops init_xstate OK) as (st & XA & (sigs & S1 & S2) & L & G).
  { unfold xs_low. reflexivity. }
  { intros _. reflexivity. }
  cbn [init_xstate xs_sigs app] in S1.
  eapply (db_row_validates T zq x64 false row _ ops iflags avx sidx scnt st [] WF P); eauto; cbn [vi_options vi_extra_type vi_extra_id];
  auto using lock_stage_plain, rep_stage_plain, evex_stage_plain, avx_stage_plain.
  all: try (rewrite S1; exact S2).
  all: try (apply extra_stage_k; cbn [vi_options vi_extra_type vi_extra_id]; auto; apply test_0_l).
  all: unfold mode_stage; destruct x64;
    [cbn [negb]; rewrite test_0_l; cbn [orb]; unfold xs_low in L; rewrite L; reflexivity
    |cbn [negb]; rewrite (G eq_refl); reflexivity].
Qed.

Lemma decor_flags : forall T iid nif naf iflags avx sidx scnt,
  decor_present T (iid, nif, naf) = true -> nth (N.to_nat iid) (vt_inst T) (0, 0, 0, 0) = (iflags, avx, sidx, scnt) ->
  (forall b, test nif b = true -> test iflags b = true) /\ (forall b, test naf b = true -> test avx b = true).
Proof.
  intros T iid nif naf iflags avx sidx scnt D ROW. unfold decor_present in D. rewrite ROW in D.
  apply andb_true_iff in D. destruct D as [D D3]. apply andb_true_iff in D. destruct D as [_ D2]. apply N.eqb_eq in D2, D3.
  split; intros b H; eapply test_mode_subset; eauto.
Qed.

Lemma db_row_validates_standard_masked : forall T zq x64 row ops kid nif naf,
  forallb (sig_wf T) (vt_isig T) = true -> row_present T row = true ->
  standard_registers_ok T = true ->
  N.testbit (vd_base_regs (vt_vd64 T)) RT_Gp64 && N.testbit (vd_base_regs (vt_vd86 T)) RT_Gp32 = true ->
  decor_present T (dr_inst row, nif, naf) = true -> test nif IF_Evex = true -> test naf AF_K = true ->
  1 <= kid <= 7 -> test (dr_mode row) (mode_bit x64) = true ->
  std_instances x64 (explicit_ops (dr_ops row)) ops = true ->
  validate T zq x64 false {| vi_id := dr_inst row; vi_options := 0; vi_extra_type := RT_Mask; vi_extra_id := kid |} ops = E_Ok.
Proof.
  intros T zq x64 row ops kid nif naf WF P SR B D EV K KID M ST.
  destruct (nth (N.to_nat (dr_inst row)) (vt_inst T) (0, 0, 0, 0)) as [[[iflags avx] sidx] scnt] eqn:ROW.
  destruct (decor_flags _ _ _ _ _ _ _ _ D ROW) as [F1 F2].
  eapply db_row_validates_standard_k; eauto.
Qed.

(* ------------------------------------------------------------------ soundness direction, composed: an accepted call was matched by a signature record that has a database origin *)
Lemma accepted_call_has_origin : forall T rows exc zq x64 virt inst ops,
  records_have_origin T rows exc = true -> 1 <= vi_id inst ->
  validate T zq x64 virt inst ops = E_Ok ->
  exists iflags avx sidx scnt, nth (N.to_nat (vi_id inst)) (vt_inst T) (0, 0, 0, 0) = (iflags, avx, sidx, scnt) /\
    (scnt = 0 \/ exists j s st rest,
       nth_error (inst_sigs T sidx scnt) j = Some s /\
       xlat_all T x64 virt iflags avx ops init_xstate = inr (st, rest) /\
       match_sig T zq (mode_bit x64) (xs_sigs st) s = Some false /\
       (pair_in (vi_id inst, N.of_nat j) exc = true \/ sig_origin T rows (vi_id inst) s = true)).
Proof.
  intros T rows exc zq x64 virt inst ops RO ID H.
  destruct (validate_ok_inv _ _ _ _ _ _ H) as (C & iflags & avx & sidx & scnt & st & rest & ROW & XL & _ & _ & S).
  exists iflags, avx, sidx, scnt. split; [exact ROW|].
  destruct S as [Z|(s & I & M)]; [left; exact Z|right].
  destruct (In_nth_error _ _ I) as (j & E).
  exists j, s, st, rest. repeat split; auto.
  eapply records_origin; eauto.
Qed.

(* ------------------------------------------------------------------ standard operands under a LOCK prefix: lockable instruction, memory destination *)
Lemma db_row_validates_standard_lock : forall T zq x64 row ops nif naf,
  forallb (sig_wf T) (vt_isig T) = true -> row_present T row = true ->
  standard_registers_ok T = true ->
  N.testbit (vd_base_regs (vt_vd64 T)) RT_Gp64 && N.testbit (vd_base_regs (vt_vd86 T)) RT_Gp32 = true ->
  decor_present T (dr_inst row, nif, naf) = true -> test nif IF_Lock = true ->
  first_is_mem ops = true -> test (dr_mode row) (mode_bit x64) = true ->
  std_instances x64 (explicit_ops (dr_ops row)) ops = true ->
  validate T zq x64 false {| vi_id := dr_inst row; vi_options := OPT_Lock; vi_extra_type := 0; vi_extra_id := 0 |} ops = E_Ok.
Proof.
  intros T zq x64 row ops nif naf WF P SR B D LK FM M ST.
  destruct (nth (N.to_nat (dr_inst row)) (vt_inst T) (0, 0, 0, 0)) as [[[iflags avx] sidx] scnt] eqn:ROW.
  destruct (decor_flags _ _ _ _ _ _ _ _ D ROW) as [F1 _].
  pose proof (std_instances_ok T x64 iflags avx _ _ SR B ST) as OK.
  destruct (operands_ok_xlat T x64 iflags avx _ ops init_xstate OK) as (st & XA & (sigs & S1 & S2) & L & G).
  { unfold xs_low. reflexivity. }
  { intros _. reflexivity. }
  cbn [init_xstate xs_sigs app] in S1.
  eapply (db_row_validates T zq x64 false row _ ops iflags avx sidx scnt st [] WF P); eauto; cbn [vi_options vi_extra_type vi_extra_id].
  all: try (rewrite S1; exact S2).
  all: try (rewrite FM; apply lock_stage_lock; apply F1; exact LK).
  all: try (unfold rep_stage; replace (test OPT_Lock kRepAny) with false by (vm_compute; reflexivity); reflexivity).
  all: try (unfold evex_stage; replace (test OPT_Lock OPT_Evex) with false by (vm_compute; reflexivity); reflexivity).
  all: try (unfold avx_stage; replace (test OPT_Lock kAvx512) with false by (vm_compute; reflexivity); reflexivity).
  all: try (apply extra_stage_none; reflexivity).
  all: unfold mode_stage; destruct x64;
    [cbn [negb]; replace (test OPT_Lock OPT_Rex) with false by (vm_compute; reflexivity); cbn [orb]; unfold xs_low in L; rewrite L; reflexivity
    |cbn [negb]; rewrite (G eq_refl); reflexivity].
Qed.

(* ------------------------------------------------------------------ round 7: standard operands under {k}{z} - zeroing-masking on an instruction with EVEX, K and Z, register destination *)
Lemma db_row_validates_standard_kz : forall T zq x64 row ops kid nif naf,
  forallb (sig_wf T) (vt_isig T) = true -> row_present T row = true ->
  standard_registers_ok T = true ->
  N.testbit (vd_base_regs (vt_vd64 T)) RT_Gp64 && N.testbit (vd_base_regs (vt_vd86 T)) RT_Gp32 = true ->
  decor_present T (dr_inst row, nif, naf) = true -> test nif IF_Evex = true -> test naf AF_K = true -> test naf AF_Z = true ->
  1 <= kid <= 7 -> first_is_mem ops = false -> test (dr_mode row) (mode_bit x64) = true ->
  std_instances x64 (explicit_ops (dr_ops row)) ops = true ->
  validate T zq x64 false {| vi_id := dr_inst row; vi_options := OPT_ZMask; vi_extra_type := RT_Mask; vi_extra_id := kid |} ops = E_Ok.
Proof.
  intros T zq x64 row ops kid nif naf WF P SR B D EV K Z KID FM M ST.
  destruct (nth (N.to_nat (dr_inst row)) (vt_inst T) (0, 0, 0, 0)) as [[[iflags avx] sidx] scnt] eqn:ROW.
  destruct (decor_flags _ _ _ _ _ _ _ _ D ROW) as [F1 F2].
  pose proof (std_instances_ok T x64 iflags avx _ _ SR B ST) as OK.
  destruct (operands_ok_xlat T x64 iflags avx _ ops init_xstate OK) as (st & XA & (sigs & S1 & S2) & L & G).
  { unfold xs_low. reflexivity. }
  { intros _. reflexivity. }
  cbn [init_xstate xs_sigs app] in S1.
  eapply (db_row_validates T zq x64 false row _ ops iflags avx sidx scnt st [] WF P); eauto; cbn [vi_options vi_extra_type vi_extra_id].
  all: try (rewrite S1; exact S2).
  all: try (unfold lock_stage; replace (test OPT_ZMask (N.lor OPT_Lock kXAcqXRel)) with false by (vm_compute; reflexivity); reflexivity).
  all: try (unfold rep_stage; replace (test OPT_ZMask kRepAny) with false by (vm_compute; reflexivity); reflexivity).
  all: try (unfold evex_stage; replace (test OPT_ZMask OPT_Evex) with false by (vm_compute; reflexivity); reflexivity).
  all: try (apply avx_stage_ok; [apply F1; exact EV | intros _; split; [apply F2; exact Z | exact FM]
                                | intros Q; exfalso; revert Q; vm_compute; discriminate]).
  all: try (apply extra_stage_k; cbn [vi_options vi_extra_type vi_extra_id]; auto; vm_compute; reflexivity).
  all: unfold mode_stage; destruct x64;
    [cbn [negb]; replace (test OPT_ZMask OPT_Rex) with false by (vm_compute; reflexivity); cbn [orb]; unfold xs_low in L; rewrite L; reflexivity
    |cbn [negb]; rewrite (G eq_refl); reflexivity].
Qed.

(* ------------------------------------------------------------------ round 7: standard operands with the {evex} option on an instruction that has an EVEX encoding *)
Lemma db_row_validates_standard_evex : forall T zq x64 row ops nif naf,
  forallb (sig_wf T) (vt_isig T) = true -> row_present T row = true ->
  standard_registers_ok T = true ->
  N.testbit (vd_base_regs (vt_vd64 T)) RT_Gp64 && N.testbit (vd_base_regs (vt_vd86 T)) RT_Gp32 = true ->
  decor_present T (dr_inst row, nif, naf) = true -> test nif IF_Evex = true ->
  test (dr_mode row) (mode_bit x64) = true ->
  std_instances x64 (explicit_ops (dr_ops row)) ops = true ->
  validate T zq x64 false {| vi_id := dr_inst row; vi_options := OPT_Evex; vi_extra_type := 0; vi_extra_id := 0 |} ops = E_Ok.
Proof.
  intros T zq x64 row ops nif naf WF P SR B D EV M ST.
  destruct (nth (N.to_nat (dr_inst row)) (vt_inst T) (0, 0, 0, 0)) as [[[iflags avx] sidx] scnt] eqn:ROW.
  destruct (decor_flags _ _ _ _ _ _ _ _ D ROW) as [F1 _].
  pose proof (std_instances_ok T x64 iflags avx _ _ SR B ST) as OK.
  destruct (operands_ok_xlat T x64 iflags avx _ ops init_xstate OK) as (st & XA & (sigs & S1 & S2) & L & G).
  { unfold xs_low. reflexivity. }
  { intros _. reflexivity. }
  cbn [init_xstate xs_sigs app] in S1.
  eapply (db_row_validates T zq x64 false row _ ops iflags avx sidx scnt st [] WF P); eauto; cbn [vi_options vi_extra_type vi_extra_id].
  all: try (rewrite S1; exact S2).
  all: try (unfold lock_stage; replace (test OPT_Evex (N.lor OPT_Lock kXAcqXRel)) with false by (vm_compute; reflexivity); reflexivity).
  all: try (unfold rep_stage; replace (test OPT_Evex kRepAny) with false by (vm_compute; reflexivity); reflexivity).
  all: try (unfold evex_stage; rewrite (F1 _ EV); cbn [negb]; rewrite andb_false_r; reflexivity).
  all: try (unfold avx_stage; replace (test OPT_Evex kAvx512) with false by (vm_compute; reflexivity); reflexivity).
  all: try (apply extra_stage_none; reflexivity).
  all: unfold mode_stage; destruct x64;
    [cbn [negb]; replace (test OPT_Evex OPT_Rex) with false by (vm_compute; reflexivity); cbn [orb]; unfold xs_low in L; rewrite L; reflexivity
    |cbn [negb]; rewrite (G eq_refl); reflexivity].
Qed.

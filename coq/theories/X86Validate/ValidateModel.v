(* C13 - transliteration of x86::InstInternal::validate (asmjit/x86/x86instapi.cpp) over the generated signature tables.
   No proofs in this file. Bit sets are N (land / lor), immediates and offsets are Z (int64). *)
From Coq Require Import NArith ZArith List Bool.
Import ListNotations.
Local Open Scope N_scope.

(* ------------------------------------------------------------------ operands as the validator sees them *)
Inductive operand :=
| ONone
| OReg (rtype id : N)
| OMem (size btype bid itype iid : N) (off : Z) (seg bcst : N) (home : bool)
       (* off: the 64-bit offset when there is no base (btype = 0), else the signed 32-bit displacement *)
| OImm (v : Z)
| OLabel.

Record vinst := { vi_id : N; vi_options : N; vi_extra_type : N; vi_extra_id : N }.   (* extra_type 0 = no extra register *)

(* ------------------------------------------------------------------ constants (each is compared with the dumped enum value in coq/gen) *)
(* RegType *)
Definition RT_None := 0. Definition RT_LabelTag := 1. Definition RT_PC := 31.
Definition RT_Gp32 := 5. Definition RT_Gp64 := 6. Definition RT_Vec128 := 11. Definition RT_Vec256 := 12. Definition RT_Vec512 := 13. Definition RT_Mask := 16.
(* InstOptions *)
Definition OPT_Lock := 8192. Definition OPT_XAcquire := 65536. Definition OPT_XRelease := 131072.
Definition OPT_Rep := 16384. Definition OPT_Repne := 32768.
Definition OPT_ZMask := 8388608. Definition OPT_ER := 262144. Definition OPT_SAE := 524288. Definition OPT_Rex := 1073741824.
Definition OPT_Evex := 4096.
(* InstDB::InstFlags *)
Definition IF_Lock := 65536. Definition IF_XAcquire := 131072. Definition IF_XRelease := 262144.
Definition IF_Rep := 16384. Definition IF_RepIgnored := 32768. Definition IF_Evex := 8388608.
(* InstDB::Avx512Flags *)
Definition AF_K := 1. Definition AF_Z := 2. Definition AF_ER := 4. Definition AF_SAE := 8.
Definition AF_B16 := 16. Definition AF_B32 := 32. Definition AF_B64 := 64.
(* InstDB::OpFlags *)
Definition OF_RegGpbHi := 2. Definition OF_RegGpq := 16.
Definition OF_RegMask := 65535.
Definition OF_MemUnspecified := 262144. Definition OF_Mem8 := 524288. Definition OF_Mem16 := 1048576. Definition OF_Mem32 := 2097152.
Definition OF_Mem48 := 4194304. Definition OF_Mem64 := 8388608. Definition OF_Mem80 := 16777216. Definition OF_Mem128 := 33554432.
Definition OF_Mem256 := 67108864. Definition OF_Mem512 := 134217728.
Definition OF_MemMask := 536608768.
Definition OF_Vm32x := 1073741824. Definition OF_Vm32y := 2147483648. Definition OF_Vm32z := 4294967296.
Definition OF_Vm64x := 8589934592. Definition OF_Vm64y := 17179869184. Definition OF_Vm64z := 34359738368.
Definition OF_VmMask := 67645734912.
Definition OF_ImmI4 := 68719476736. Definition OF_ImmU4 := 137438953472. Definition OF_ImmI8 := 274877906944. Definition OF_ImmU8 := 549755813888.
Definition OF_ImmI16 := 1099511627776. Definition OF_ImmU16 := 2199023255552. Definition OF_ImmI32 := 4398046511104. Definition OF_ImmU32 := 8796093022208.
Definition OF_ImmI64 := 17592186044416. Definition OF_ImmU64 := 35184372088832.
Definition OF_ImmMask := 70300024700928.
Definition OF_Rel8 := 70368744177664. Definition OF_Rel32 := 140737488355328.
Definition OF_RelMask := 211106232532992.
Definition OF_FlagMemBase := 281474976710656. Definition OF_FlagMib := 2251799813685248.
Definition OF_FlagImplicit := 36028797018963968.
Definition OF_OpMask := 281474439643135.     (* kRegMask | kMemMask | kVmMask | kImmMask | kRelMask *)
Definition MASK56 := 72057594037927935.
(* misc *)
Definition VirtIdMin := 256. Definition RegOnlyIdBad := 255. Definition GpIdCx := 1.
(* Error codes *)
Definition E_Ok := 0.
Definition E_InvalidState := 3.
Definition E_InvalidInstruction := 26. Definition E_InvalidRegType := 27.
Definition E_InvalidPhysId := 29. Definition E_IllegalVirtReg := 62.
Definition E_InvalidPrefixCombination := 32. Definition E_InvalidLockPrefix := 33. Definition E_InvalidXAcquirePrefix := 34.
Definition E_InvalidXReleasePrefix := 35. Definition E_InvalidRepPrefix := 36.
Definition E_InvalidExtraReg := 38. Definition E_InvalidKMaskUse := 39. Definition E_InvalidKZeroUse := 40.
Definition E_InvalidBroadcast := 41. Definition E_InvalidEROrSAE := 42. Definition E_InvalidAddress := 43.
Definition E_InvalidAddress64Bit := 46. Definition E_InvalidAddress64BitZeroExtension := 47.
Definition E_InvalidSegment := 49. Definition E_InvalidImmediate := 50. Definition E_InvalidOperandSize := 51.
Definition E_InvalidUseOfGpbHi := 57. Definition E_InvalidUseOfGpq := 58.
(* InstDB::Mode bits *)
Definition MODE_X86 := 1. Definition MODE_X64 := 2.

(* the list compared with the dump (order fixed by harness/c13_dump.cpp) *)
Definition model_consts : list N :=
  [IF_Lock; IF_XAcquire; IF_XRelease; IF_Rep; IF_RepIgnored; IF_Evex;
   AF_K; AF_Z; AF_ER; AF_SAE; AF_B16; AF_B32; AF_B64;
   OPT_Lock; OPT_XAcquire; OPT_XRelease; OPT_Rep; OPT_Repne; OPT_ZMask; OPT_ER; OPT_SAE; OPT_Rex;
   RT_None; RT_LabelTag; RT_PC; RT_Gp32; RT_Vec128; RT_Vec256; RT_Vec512; RT_Mask;
   VirtIdMin; RegOnlyIdBad; GpIdCx;
   OF_RegGpbHi; OF_RegGpq; OF_RegMask; OF_MemUnspecified; OF_Mem8; OF_Mem16; OF_Mem32; OF_Mem48; OF_Mem64; OF_Mem80; OF_Mem128; OF_Mem256; OF_Mem512;
   OF_MemMask; OF_Vm32x; OF_Vm32y; OF_Vm32z; OF_Vm64x; OF_Vm64y; OF_Vm64z; OF_VmMask;
   OF_ImmI4; OF_ImmU4; OF_ImmI8; OF_ImmU8; OF_ImmI16; OF_ImmU16; OF_ImmI32; OF_ImmU32; OF_ImmI64; OF_ImmU64; OF_ImmMask;
   OF_Rel8; OF_Rel32; OF_RelMask; OF_FlagMemBase; OF_FlagMib; OF_FlagImplicit; OF_OpMask;
   E_Ok; E_InvalidState; E_InvalidInstruction; E_InvalidRegType; E_InvalidPhysId; E_IllegalVirtReg; E_InvalidPrefixCombination;
   E_InvalidLockPrefix; E_InvalidXAcquirePrefix; E_InvalidXReleasePrefix; E_InvalidRepPrefix; E_InvalidExtraReg; E_InvalidKMaskUse;
   E_InvalidKZeroUse; E_InvalidBroadcast; E_InvalidEROrSAE; E_InvalidAddress; E_InvalidAddress64Bit; E_InvalidAddress64BitZeroExtension;
   E_InvalidSegment; E_InvalidImmediate; E_InvalidOperandSize; E_InvalidUseOfGpbHi; E_InvalidUseOfGpq;
   MODE_X86; MODE_X64; RT_Gp64; OPT_Evex].

(* ------------------------------------------------------------------ tables *)
Record isig := { is_op_count : N; is_mode : N; is_implicit : N; is_idx : list N }.
Record vdata := { vd_reg_mask : list N; vd_base_regs : N; vd_index_regs : N }.
Record vtables := {
  vt_count : N;
  vt_inst  : list (N * N * N * N);      (* per id: InstFlags, Avx512Flags, signature index, signature count *)
  vt_isig  : list isig;                 (* _inst_signature_table *)
  vt_osig  : list (N * N);              (* _op_signature_table: flags (56 bit), reg_mask *)
  vt_rt_opflags : list N;               (* op_flag_from_reg_type_table *)
  vt_vd86 : vdata; vt_vd64 : vdata
}.

Definition test (a b : N) : bool := negb (N.land a b =? 0).
Definition bit (n : N) : N := N.shiftl 1 n.
Definition nthN (l : list N) (i : N) : N := nth (N.to_nat i) l 0.

(* ------------------------------------------------------------------ operand -> OpSignature *)
Record xlat := { x_flags : N; x_regmask : N (* 32 bit *) }.

Definition imm_flags (v : Z) : N :=
  let all_i := fun l => fold_left N.lor l 0 in
  if (0 <=? v)%Z then
    let u := Z.to_N v in
    if u <=? 7 then all_i [OF_ImmI64; OF_ImmU64; OF_ImmI32; OF_ImmU32; OF_ImmI16; OF_ImmU16; OF_ImmI8; OF_ImmU8; OF_ImmI4; OF_ImmU4]
    else if u <=? 15 then all_i [OF_ImmI64; OF_ImmU64; OF_ImmI32; OF_ImmU32; OF_ImmI16; OF_ImmU16; OF_ImmI8; OF_ImmU8; OF_ImmU4]
    else if u <=? 127 then all_i [OF_ImmI64; OF_ImmU64; OF_ImmI32; OF_ImmU32; OF_ImmI16; OF_ImmU16; OF_ImmI8; OF_ImmU8]
    else if u <=? 255 then all_i [OF_ImmI64; OF_ImmU64; OF_ImmI32; OF_ImmU32; OF_ImmI16; OF_ImmU16; OF_ImmU8]
    else if u <=? 32767 then all_i [OF_ImmI64; OF_ImmU64; OF_ImmI32; OF_ImmU32; OF_ImmI16; OF_ImmU16]
    else if u <=? 65535 then all_i [OF_ImmI64; OF_ImmU64; OF_ImmI32; OF_ImmU32; OF_ImmU16]
    else if u <=? 2147483647 then all_i [OF_ImmI64; OF_ImmU64; OF_ImmI32; OF_ImmU32]
    else if u <=? 4294967295 then all_i [OF_ImmI64; OF_ImmU64; OF_ImmU32]
    else all_i [OF_ImmI64; OF_ImmU64]        (* an int64 >= 0 is <= 0x7FFF...; the kImmU64-only branch needs bit 63 and is unreachable here *)
  else
    let u := Z.to_N (- v) in
    if u <=? 8 then all_i [OF_ImmI64; OF_ImmI32; OF_ImmI16; OF_ImmI8; OF_ImmI4]
    else if u <=? 128 then all_i [OF_ImmI64; OF_ImmI32; OF_ImmI16; OF_ImmI8]
    else if u <=? 32768 then all_i [OF_ImmI64; OF_ImmI32; OF_ImmI16]
    else if u <=? 2147483648 then all_i [OF_ImmI64; OF_ImmI32]
    else OF_ImmI64.

Definition mem_size_flag (sz : N) : option N :=
  if sz =? 0 then Some OF_MemUnspecified else if sz =? 1 then Some OF_Mem8 else if sz =? 2 then Some OF_Mem16
  else if sz =? 4 then Some OF_Mem32 else if sz =? 6 then Some OF_Mem48 else if sz =? 8 then Some OF_Mem64
  else if sz =? 10 then Some OF_Mem80 else if sz =? 16 then Some OF_Mem128 else if sz =? 32 then Some OF_Mem256
  else if sz =? 64 then Some OF_Mem512 else None.

Definition is_int32 (z : Z) : bool := ((-2147483648 <=? z) && (z <=? 2147483647))%Z.
Definition is_uint32 (z : Z) : bool := ((0 <=? z) && (z <=? 4294967295))%Z.

(* result of translating one operand: error, or flags/regmask plus the bits it adds to combined_reg_mask *)
Inductive xres := XErr (e : N) | XOk (x : xlat) (combined : N).

Definition xlat_operand (T : vtables) (x64 virt_ok : bool) (iflags avx : N) (op : operand) : xres :=
  let vd := if x64 then vt_vd64 T else vt_vd86 T in
  match op with
  | ONone => XErr E_InvalidState      (* not reached: the loop stops at the first none operand *)
  | OReg rt id =>
    let fl := nthN (vt_rt_opflags T) rt in
    if fl =? 0 then XErr E_InvalidRegType else
    if id <? VirtIdMin then
      if 32 <=? id then XErr E_InvalidPhysId else
      if negb (N.testbit (nthN (vd_reg_mask vd) rt) id) then XErr E_InvalidPhysId else
      (* vector registers 16..31 need an EVEX prefix, which the instruction must have (4824306) *)
      if (16 <=? id) && (RT_Vec128 <=? rt) && (rt <=? RT_Vec512) && negb (test iflags IF_Evex) then XErr E_InvalidPhysId else
      XOk {| x_flags := fl; x_regmask := bit id |} (bit id)
    else if negb virt_ok then XErr E_IllegalVirtReg
    else XOk {| x_flags := fl; x_regmask := 4294967295 |} 0
  | OMem size bt bid it iid off seg bcst home =>
    if 6 <? seg then XErr E_InvalidSegment else
    (* broadcast *)
    let bc_err := negb (bcst =? 0) &&
                  (negb (test avx (N.lor AF_B16 (N.lor AF_B32 AF_B64))) ||     (* only instructions that define a broadcast accept {1toN} (450fab6) *)
                   (negb (size =? 0) && ((test avx AF_B32 && negb (size =? 4)) || (test avx AF_B64 && negb (size =? 8))))) in
    if bc_err then XErr E_InvalidBroadcast else
    let msize := if bcst =? 0 then size
                 else N.land (N.shiftl (if size =? 0 then (if test avx AF_B64 then 8 else if test avx AF_B32 then 4 else 2) else size) bcst) 4294967295 in
    (* base *)
    let base_res : xres :=
      if 1 <? bt then
        if negb home && negb (N.testbit (vd_base_regs vd) bt) then XErr E_InvalidAddress else
        let fl0 := if (it =? 0) && (off mod 4294967296 =? 0)%Z then OF_FlagMemBase else 0 in
        if bid <? VirtIdMin then
          if 32 <=? bid then XErr E_InvalidPhysId else XOk {| x_flags := fl0; x_regmask := bit bid |} (bit bid)
        else if negb virt_ok then XErr E_IllegalVirtReg
        else XOk {| x_flags := fl0; x_regmask := 4294967295 |} 0
      else if bt =? RT_LabelTag then XOk {| x_flags := 0; x_regmask := 0 |} 0
      else
        if is_int32 off then XOk {| x_flags := 0; x_regmask := 0 |} 0 else
        if negb x64 then (if is_uint32 off then XOk {| x_flags := 0; x_regmask := 0 |} 0 else XErr E_InvalidAddress64Bit)
        else if negb (it =? 0) then
          if negb (is_uint32 off) then XErr E_InvalidAddress64Bit
          else if negb (it =? RT_Gp32) then XErr E_InvalidAddress64BitZeroExtension
          else XOk {| x_flags := 0; x_regmask := 0 |} 0
        else XOk {| x_flags := 0; x_regmask := 0 |} 0 in
    match base_res with
    | XErr e => XErr e
    | XOk bx bcomb =>
      let idx_res : xres :=
        if it =? 0 then XOk bx bcomb else
        if negb (N.testbit (vd_index_regs vd) it) then XErr E_InvalidAddress else
        let vm := if it =? RT_Vec128 then N.lor OF_Vm32x OF_Vm64x
                  else if it =? RT_Vec256 then N.lor OF_Vm32y OF_Vm64y
                  else if it =? RT_Vec512 then N.lor OF_Vm32z OF_Vm64z
                  else if negb (bt =? 0) then OF_FlagMib else 0 in
        let fl := N.lor (x_flags bx) vm in
        if (bt =? RT_PC) && test fl OF_VmMask then XErr E_InvalidAddress else
        if iid <? VirtIdMin then
          if 32 <=? iid then XErr E_InvalidPhysId else XOk {| x_flags := fl; x_regmask := 0 |} (N.lor bcomb (bit iid))
        else if negb virt_ok then XErr E_IllegalVirtReg
        else XOk {| x_flags := fl; x_regmask := 0 |} bcomb in
      match idx_res with
      | XErr e => XErr e
      | XOk ix icomb =>
        match mem_size_flag msize with
        | None => XErr E_InvalidOperandSize
        | Some sf => XOk {| x_flags := N.lor (x_flags ix) sf; x_regmask := x_regmask ix |} icomb
        end
      end
    end
  | OImm v => XOk {| x_flags := imm_flags v; x_regmask := 0 |} 0
  | OLabel => XOk {| x_flags := N.lor OF_Rel8 OF_Rel32; x_regmask := 0 |} 0
  end.

(* the translation loop: stops at the first none operand; returns the translated prefix, the rest, and the accumulators *)
Record xstate := { xs_sigs : list (N * N); xs_flags : N; xs_regs : N; xs_mem : option operand }.

Fixpoint xlat_all (T : vtables) (x64 virt_ok : bool) (iflags avx : N) (ops : list operand) (st : xstate) : N + (xstate * list operand) :=
  match ops with
  | [] => inr (st, [])
  | ONone :: rest => inr (st, ops)
  | op :: rest =>
    match xlat_operand T x64 virt_ok iflags avx op with
    | XErr e => inl e
    | XOk x comb =>
      xlat_all T x64 virt_ok iflags avx rest
        {| xs_sigs := xs_sigs st ++ [(N.land (x_flags x) MASK56, N.land (x_regmask x) 255)];
           xs_flags := N.lor (xs_flags st) (x_flags x);
           xs_regs := N.lor (xs_regs st) comb;
           xs_mem := match op with OMem _ _ _ _ _ _ _ _ _ => Some op | _ => xs_mem st end |}
    end
  end.

Definition is_none (o : operand) : bool := match o with ONone => true | _ => false end.

(* ------------------------------------------------------------------ signature matching *)
(* check_op_sig: (accepted, imm_out_of_range mark) *)
Definition check_op_sig (op ref : N * N) : bool * bool :=
  let common := N.land (fst op) (fst ref) in
  if negb (test common OF_OpMask) then
    if test (fst op) OF_ImmMask && test (fst ref) OF_ImmMask then (true, true) else (false, false)
  else if test common OF_MemMask && test (fst ref) OF_FlagMemBase && negb (test (fst op) OF_FlagMemBase) then (false, false)
  else if test common OF_RegMask && negb (snd ref =? 0) && negb (test (snd op) (snd ref)) then (false, false)
  else (true, false).

Fixpoint match_exact (ops refs : list (N * N)) : bool * bool :=
  match ops, refs with
  | [], _ => (true, false)
  | o :: os, r :: rs =>
    let '(ok, oor) := check_op_sig o r in
    if ok then let '(ok2, oor2) := match_exact os rs in (ok2, oor || oor2) else (false, false)
  | _ :: _, [] => (false, false)
  end.

Fixpoint match_implicit (ops refs : list (N * N)) : bool * bool :=
  match refs with
  | [] => (match ops with [] => true | _ => false end, false)
  | r :: rs =>
    match ops with
    | [] => (true, false)
    | o :: os =>
      if test (fst r) OF_FlagImplicit then match_implicit ops rs
      else let '(ok, oor) := check_op_sig o r in
           if ok then let '(ok2, oor2) := match_implicit os rs in (ok2, oor || oor2) else (false, false)
    end
  end.

Definition sig_refs (T : vtables) (s : isig) : list (N * N) :=
  map (fun i => nth (N.to_nat i) (vt_osig T) (0, 0)) (firstn (N.to_nat (is_op_count s)) (is_idx s)).

(* one signature record: None = not applicable / operands differ, Some oor = all operands matched with imm_out_of_range = oor *)
(* `zero_quirk`: in the pinned tree a signature whose operand count fits neither way leaves the loop counter j at 0, and the
   test `j == op_count` then succeeds when NO operand was given - every instruction validates without operands.
   zero_quirk = true models the pinned tree, false the repaired one (fixes/C13-validate-operand-count.patch). *)
Definition match_sig (T : vtables) (zero_quirk : bool) (mode_bit : N) (ops : list (N * N)) (s : isig) : option bool :=
  if negb (test (is_mode s) mode_bit) then None else
  let n := N.of_nat (length ops) in
  let refs := sig_refs T s in
  let '(ok, oor) :=
    if is_op_count s =? n then match_exact ops refs
    else if is_op_count s - is_implicit s =? n then match_implicit ops refs
    else (zero_quirk && (n =? 0), false) in
  if ok then Some oor else None.

(* the loop over the instruction's signature records: 0 = matched, else the error *)
Fixpoint match_sigs (T : vtables) (zq : bool) (mode_bit : N) (ops : list (N * N)) (sigs : list isig) (global_oor : bool) : N :=
  match sigs with
  | [] => if global_oor then E_InvalidImmediate else E_InvalidInstruction
  | s :: rest =>
    match match_sig T zq mode_bit ops s with
    | Some false => E_Ok
    | Some true => match_sigs T zq mode_bit ops rest true
    | None => match_sigs T zq mode_bit ops rest global_oor
    end
  end.

Definition inst_sigs (T : vtables) (sig_index sig_count : N) : list isig :=
  firstn (N.to_nat sig_count) (skipn (N.to_nat sig_index) (vt_isig T)).

Definition is_zmm_or_m512 (o : operand) : bool :=
  match o with
  | OReg rt _ => rt =? RT_Vec512
  | OMem size _ _ _ _ _ _ _ _ => size =? 64
  | _ => false
  end.

(* ------------------------------------------------------------------ validate *)
(* the stages of validate(), in the order of the C++ *)
Definition kRepAny := N.lor OPT_Rep OPT_Repne.
Definition kXAcqXRel := N.lor OPT_XAcquire OPT_XRelease.
Definition kAvx512 := N.lor OPT_ZMask (N.lor OPT_ER OPT_SAE).

Definition first_is_mem (ops : list operand) : bool := match ops with OMem _ _ _ _ _ _ _ _ _ :: _ => true | _ => false end.

(* LOCK | XACQUIRE | XRELEASE *)
Definition lock_stage (options iflags : N) (op0_is_mem : bool) : N :=
  if negb (test options (N.lor OPT_Lock kXAcqXRel)) then E_Ok else
  let e1 := if test options OPT_Lock then
              if negb (test iflags IF_Lock) && negb (test options kXAcqXRel) then E_InvalidLockPrefix
              else if negb op0_is_mem then E_InvalidLockPrefix else E_Ok
            else E_Ok in
  if negb (e1 =? E_Ok) then e1 else
  if test options kXAcqXRel then
    if negb (test options OPT_Lock) || (N.land options kXAcqXRel =? kXAcqXRel) then E_InvalidPrefixCombination
    else if test options OPT_XAcquire && negb (test iflags IF_XAcquire) then E_InvalidXAcquirePrefix
    else if test options OPT_XRelease && negb (test iflags IF_XRelease) then E_InvalidXReleasePrefix
    else E_Ok
  else E_Ok.

(* REP | REPNE *)
Definition rep_stage (options iflags : N) : N :=
  if test options kRepAny then
    if N.land options kRepAny =? kRepAny then E_InvalidPrefixCombination
    else if negb (test iflags IF_Rep) then E_InvalidRepPrefix else E_Ok
  else E_Ok.

(* 64-bit registers in 32-bit mode, AH/BH/CH/DH with REX *)
Definition mode_stage (x64 : bool) (options : N) (st : xstate) : N :=
  if negb x64 then (if test (xs_flags st) OF_RegGpq then E_InvalidUseOfGpq else E_Ok)
  else let has_rex := test options OPT_Rex || negb (N.land (xs_regs st) 4294967040 =? 0) in
       if has_rex && test (xs_flags st) OF_RegGpbHi then E_InvalidUseOfGpbHi else E_Ok.

Definition sig_stage (T : vtables) (zq x64 : bool) (st : xstate) (sidx scnt : N) : N :=
  if scnt =? 0 then E_Ok
  else match_sigs T zq (if x64 then MODE_X64 else MODE_X86) (xs_sigs st) (inst_sigs T sidx scnt) false.

(* the {evex} option can only select an encoding the instruction has *)
Definition evex_stage (options iflags : N) : N :=
  if test options OPT_Evex && negb (test iflags IF_Evex) then E_InvalidInstruction else E_Ok.

(* AVX-512 options {z} {er} {sae} *)
Definition avx_stage (options iflags avx : N) (has_mem op0_is_mem : bool) (ops : list operand) : N :=
  if negb (test options kAvx512) then E_Ok else
  if test iflags IF_Evex then
    if test options OPT_ZMask && negb (test avx AF_Z) then E_InvalidKZeroUse else
    if test options OPT_ZMask && op0_is_mem then E_InvalidKZeroUse else       (* {z} with a memory destination *)
    if test options (N.lor OPT_SAE OPT_ER) then
      if has_mem then E_InvalidEROrSAE else
      if test options OPT_ER && negb (test avx AF_ER) then E_InvalidEROrSAE else
      (* {sae} alone: the instruction must have SAE and must NOT have embedded rounding (6f19678: a lone {sae} would be encoded as {rn-sae}) *)
      if negb (test options OPT_ER) && (negb (test avx AF_SAE) || test avx AF_ER) then E_InvalidEROrSAE else
      if test avx (N.lor AF_B16 (N.lor AF_B32 AF_B64)) &&
         negb (is_zmm_or_m512 (nth 0 ops ONone)) && negb (is_zmm_or_m512 (nth 1 ops ONone)) then E_InvalidEROrSAE
      else E_Ok
    else E_Ok
  else E_InvalidInstruction.

(* {extra} register: rep count register or {k} *)
Definition extra_stage (inst : vinst) (iflags avx : N) (st : xstate) : N :=
  let options := vi_options inst in
  if vi_extra_type inst =? 0 then E_Ok else
  if test options kRepAny then
    if test iflags IF_RepIgnored then E_InvalidExtraReg else
    if (vi_extra_id inst <? RegOnlyIdBad) && negb (vi_extra_id inst =? GpIdCx) then E_InvalidExtraReg else
    match xs_mem st with
    | Some (OMem _ bt _ _ _ _ _ _ _) => if vi_extra_type inst =? bt then E_Ok else E_InvalidExtraReg
    | _ => E_InvalidExtraReg
    end
  else if test iflags IF_Evex then
    if negb (vi_extra_type inst =? RT_Mask) then E_InvalidExtraReg else
    if (vi_extra_id inst =? 0) || (7 <? vi_extra_id inst) || negb (test avx AF_K) then E_InvalidKMaskUse else E_Ok
  else E_InvalidExtraReg.

Definition init_xstate : xstate := {| xs_sigs := []; xs_flags := 0; xs_regs := 0; xs_mem := None |}.

Definition validate (T : vtables) (zq x64 virt_ok : bool) (inst : vinst) (ops : list operand) : N :=
  let options := vi_options inst in
  if vt_count T <=? vi_id inst then E_InvalidInstruction else
  let '(iflags, avx, sidx, scnt) := nth (N.to_nat (vi_id inst)) (vt_inst T) (0, 0, 0, 0) in
  let lock_err := lock_stage options iflags (first_is_mem ops) in
  if negb (lock_err =? E_Ok) then lock_err else
  let rep_err := rep_stage options iflags in
  if negb (rep_err =? E_Ok) then rep_err else
  match xlat_all T x64 virt_ok iflags avx ops init_xstate with
  | inl e => e
  | inr (st, rest) =>
    (* no gaps: everything after the first none operand must be none (the first one is none by construction) *)
    if negb (forallb is_none rest) then E_InvalidInstruction else
    let mode_err := mode_stage x64 options st in
    if negb (mode_err =? E_Ok) then mode_err else
    let sig_err := sig_stage T zq x64 st sidx scnt in
    if negb (sig_err =? E_Ok) then sig_err else
    let evex_err := evex_stage options iflags in
    if negb (evex_err =? E_Ok) then evex_err else
    let avx_err := avx_stage options iflags avx (match xs_mem st with Some _ => true | None => false end) (first_is_mem ops) ops in
    if negb (avx_err =? E_Ok) then avx_err else
    extra_stage inst iflags avx st
  end.

(* a vendored instantiation (mode, instruction, operands) is accepted by the repaired validator *)
Definition accepts_with (T : vtables) (c : bool * vinst * list operand) : bool :=
  let '(x64, i, ops) := c in validate T false x64 false i ops =? E_Ok.

(* "validate then encode": the emit hook of x86::Assembler::_emit under kValidateAssembler. The encoder is a parameter
   (it is not modelled here); emitter state S is threaded only through the encoder. *)
Definition emit_validated {S B : Type} (T : vtables) (zq x64 : bool) (encode : S -> vinst -> list operand -> S * (N * B)) (fail : N -> B)
           (validate_on : bool) (s : S) (inst : vinst) (ops : list operand) : S * (N * B) :=
  if validate_on then
    let e := validate T zq x64 false inst ops in
    if e =? E_Ok then encode s inst ops else (s, (e, fail e))
  else encode s inst ops.

(* ------------------------------------------------------------------ well-formedness of the tables (checked by reflection in coq/gen):
   row counts, signature ranges inside _inst_signature_table, operand-signature indexes inside _op_signature_table,
   operand counts <= 6, implicit <= count *)
Definition vtables_wf (T : vtables) : bool :=
  (N.of_nat (length (vt_inst T)) =? vt_count T) &&
  (N.of_nat (length (vt_rt_opflags T)) =? 32) && (N.of_nat (length (vd_reg_mask (vt_vd86 T))) =? 32) && (N.of_nat (length (vd_reg_mask (vt_vd64 T))) =? 32) &&
  forallb (fun r => let '(_, _, sidx, scnt) := r in sidx + scnt <=? N.of_nat (length (vt_isig T))) (vt_inst T) &&
  forallb (fun s => (is_op_count s <=? 6) && (is_implicit s <=? is_op_count s) && (N.of_nat (length (is_idx s)) =? 6) &&
                    forallb (fun i => i <? N.of_nat (length (vt_osig T))) (is_idx s)) (vt_isig T) &&
  forallb (fun o => (fst o <=? MASK56) && (snd o <=? 255)) (vt_osig T).

(* ------------------------------------------------------------------ ISA database rows at the operand-kind level
   a database row, expanded to one kind per operand: instruction id, the modes it exists in (InstDB::Mode bits), and per operand
   (flags an admitting signature operand must contain [incl. kFlagImplicit for implicit operands], fixed register bit or 0, implicit?) *)
Record dbrow := { dr_inst : N; dr_mode : N; dr_ops : list (N * N * bool) }.

Definition op_admitted (dbop : N * N * bool) (ref : N * N) : bool :=
  let '(need, fixed, impl) := dbop in
  (N.land (fst ref) need =? need) && Bool.eqb (test (fst ref) OF_FlagImplicit) impl &&
  Bool.eqb (test (fst ref) OF_FlagMemBase) (test need OF_FlagMemBase) &&
  (if test need OF_RegMask then
     (if fixed =? 0 then snd ref =? 0 else (snd ref =? 0) || test (snd ref) fixed)
   else true).

Fixpoint ops_admitted (dbops : list (N * N * bool)) (refs : list (N * N)) : bool :=
  match dbops, refs with
  | [], [] => true
  | o :: os, r :: rs => op_admitted o r && ops_admitted os rs
  | _, _ => false
  end.

(* some signature record of the instruction covers all modes of the row, has the same operand count and admits every operand *)
Definition sig_admits (T : vtables) (row : dbrow) (s : isig) : bool :=
  (N.land (is_mode s) (dr_mode row) =? dr_mode row) && ops_admitted (dr_ops row) (sig_refs T s).

Definition row_present (T : vtables) (row : dbrow) : bool :=
  let '(_, _, sidx, scnt) := nth (N.to_nat (dr_inst row)) (vt_inst T) (0, 0, 0, 0) in
  (dr_inst row <? vt_count T) && existsb (sig_admits T row) (inst_sigs T sidx scnt).

(* a signature record is consistent with its operand list: _op_count entries, _implicit_op_count of them flagged implicit *)
Definition sig_wf (T : vtables) (s : isig) : bool :=
  (N.of_nat (length (sig_refs T s)) =? is_op_count s) &&
  (N.of_nat (length (filter (fun r => test (fst r) OF_FlagImplicit) (sig_refs T s))) =? is_implicit s).

(* a translated operand (flags, 8-bit register mask) is of the kind a database operand names: it shares an operand-kind bit with it, it is
   a register only if the database operand is one, it is a base-only address where the database demands one, and it is the fixed register
   where the database fixes one *)
Definition op_fits (dbop : N * N * bool) (op : N * N) : bool :=
  let '(need, fixed, _) := dbop in
  test (N.land (fst op) need) OF_OpMask &&
  (test need OF_RegMask || negb (test (fst op) OF_RegMask)) &&
  (negb (test need OF_FlagMemBase) || test (fst op) OF_FlagMemBase) &&
  ((fixed =? 0) || (snd op =? fixed)).

Definition explicit_ops (dbops : list (N * N * bool)) : list (N * N * bool) := filter (fun d => negb (snd d)) dbops.

Fixpoint fits_all (dbops : list (N * N * bool)) (ops : list (N * N)) : bool :=
  match dbops, ops with
  | [], [] => true
  | d :: ds, o :: os => op_fits d o && fits_all ds os
  | _, _ => false
  end.

Fixpoint nseq_v (start : N) (len : nat) : list N :=
  match len with O => [] | S k => start :: nseq_v (N.succ start) k end.

(* ------------------------------------------------------------------ converse direction (weak form): a signature record of an instruction has a database ORIGIN -
   some database row of that instruction, sharing a mode with the record, is admitted by it operand by operand *)
Definition sig_origin (T : vtables) (rows : list dbrow) (iid : N) (s : isig) : bool :=
  let refs := sig_refs T s in
  existsb (fun row => (dr_inst row =? iid) && negb (N.land (is_mode s) (dr_mode row) =? 0) && ops_admitted (dr_ops row) refs) rows.

Fixpoint forallbi {A : Type} (f : N -> A -> bool) (k : N) (l : list A) : bool :=
  match l with [] => true | x :: r => f k x && forallbi f (N.succ k) r end.

Definition pair_in (p : N * N) (l : list (N * N)) : bool := existsb (fun q => (fst q =? fst p) && (snd q =? snd p)) l.

Definition records_have_origin (T : vtables) (rows : list dbrow) (exceptions : list (N * N)) : bool :=
  forallb (fun iid =>
    let '(_, _, sidx, scnt) := nth (N.to_nat iid) (vt_inst T) (0, 0, 0, 0) in
    let rows_i := filter (fun row => dr_inst row =? iid) rows in          (* evaluated once per instruction *)
    forallbi (fun k s => pair_in (iid, k) exceptions || sig_origin T rows_i iid s) 0 (inst_sigs T sidx scnt))
  (nseq_v 1 (N.to_nat (vt_count T) - 1)).

(* ------------------------------------------------------------------ the emitter-level hook across CodeHolder switches: an emitter is attached to / detached from
   holders of either mode; the validator used by the hook is the one of the holder it is attached to NOW (update_emitter_funcs on every attach) *)
Inductive emitter_event := EvAttach (x64 : bool) | EvDetach.

Definition emitter_mode (h : list emitter_event) : option bool :=
  fold_left (fun st e => match e with EvAttach m => Some m | EvDetach => None end) h None.

Definition E_NotInitialized := 5.

Definition emit_with_history {S B : Type} (T : vtables) (encode : bool -> S -> vinst -> list operand -> S * (N * B)) (fail : N -> B)
           (validate_on : bool) (h : list emitter_event) (s : S) (inst : vinst) (ops : list operand) : S * (N * B) :=
  match emitter_mode h with
  | None => (s, (E_NotInitialized, fail E_NotInitialized))
  | Some m => emit_validated T false m (encode m) fail validate_on s inst ops
  end.

(* ------------------------------------------------------------------ converse direction, bit level: every operand-KIND bit of every signature record operand has a
   database origin - a database row of the instruction that the record admits (shared mode, all operands) and whose operand at that position names this kind.
   Systematic AsmJit additions are exempt: kMemUnspecified (a memory operand without size is accepted wherever a sized one is) and kRegGpbHi next to kRegGpbLo. *)
Definition kind_positions : list N := nseq_v 0 48.

Definition systematic_kind (fl b : N) : bool :=
  (b =? OF_MemUnspecified) || ((b =? OF_RegGpbHi) && test fl 1).

(* the kinds that the database rows admitted by a record (shared mode, all operands) name at operand position q *)
Definition admitted_rows (rows_i : list dbrow) (smode : N) (refs : list (N * N)) : list dbrow :=
  filter (fun row => negb (N.land smode (dr_mode row) =? 0) && ops_admitted (dr_ops row) refs) rows_i.

Definition named_kinds (cands : list dbrow) (q : nat) : N :=
  fold_left (fun acc row => N.lor acc (fst (fst (nth q (dr_ops row) (0, 0, false))))) cands 0.

Definition quad_in (p : N * N * N * N) (l : list (N * N * N * N)) : bool :=
  existsb (fun x => let '(a, b, c, d) := x in let '(a', b', c', d') := p in (a =? a') && (b =? b') && (c =? c') && (d =? d')) l.

Definition kinds_have_origin (T : vtables) (rows : list dbrow) (exceptions : list (N * N * N * N)) : bool :=
  forallb (fun iid =>
    let '(_, _, sidx, scnt) := nth (N.to_nat iid) (vt_inst T) (0, 0, 0, 0) in
    let rows_i := filter (fun row => dr_inst row =? iid) rows in
    forallbi (fun k s =>
      let refs := sig_refs T s in
      let cands := admitted_rows rows_i (is_mode s) refs in
      forallbi (fun q ref =>
        (* kinds the operand accepts that no admitted database row names *)
        let extra := N.ldiff (N.land (fst ref) OF_OpMask) (named_kinds cands (N.to_nat q)) in
        (* `if` instead of `||`: vm_compute evaluates the arguments of orb eagerly *)
        if extra =? 0 then true else
        forallb (fun p => if N.testbit extra p
                          then (if systematic_kind (fst ref) (N.shiftl 1 p) then true else quad_in (iid, k, q, N.shiftl 1 p) exceptions)
                          else true) kind_positions)
        0 refs)
      0 (inst_sigs T sidx scnt))
  (nseq_v 1 (N.to_nat (vt_count T) - 1)).

(* ------------------------------------------------------------------ decorations the database grants an instruction (lock / rep / {k} {z} {er} {sae} / broadcast element sizes)
   as the InstFlags / Avx512Flags bits validate() demands for them *)
Definition decor_present (T : vtables) (dc : N * N * N) : bool :=
  let '(iid, need_if, need_af) := dc in
  let '(iflags, avx, _, _) := nth (N.to_nat iid) (vt_inst T) (0, 0, 0, 0) in
  (iid <? vt_count T) && (N.land iflags need_if =? need_if) && (N.land avx need_af =? need_af).

(* ------------------------------------------------------------------ representative operands generated FROM a database row (one per explicit operand kind) *)
Definition lowest_kind (need : N) : N :=       (* position of the lowest operand-kind bit of `need` (48 = none) *)
  let k := N.land need OF_OpMask in
  match find (fun p => N.testbit k p) kind_positions with Some p => p | None => 48 end.

Definition log2_fixed (fixed : N) : N := match find (fun p => N.testbit fixed p) (nseq_v 0 8) with Some p => p | None => 0 end.

Definition rep_operand (x64 : bool) (dbop : N * N * bool) : operand :=
  let '(need, fixed, _) := dbop in
  let p := lowest_kind need in
  let rid := if fixed =? 0 then 3 else log2_fixed fixed in
  let base_t := if x64 then RT_Gp64 else RT_Gp32 in
  let off := if test need OF_FlagMemBase then 0%Z else 16%Z in
  let mem (sz : N) := OMem sz base_t 5 0 0 off 0 0 false in
  let vmem (it : N) := OMem 0 base_t 5 it 5 16%Z 0 0 false in
  if p <? 16 then
    (* register kinds, in the bit order of InstDB::OpFlags: gpb_lo gpb_hi gpw gpd gpq xmm ymm zmm mm k sreg creg dreg st bnd tmm *)
    OReg (nth (N.to_nat p) [2; 3; 4; 5; 6; 11; 12; 13; 28; 16; 25; 26; 27; 29; 30; 17] 0) (if (p =? 14) && (fixed =? 0) then 1 else rid)
  else if p <? 29 then
    (* memory sizes from bit 18: unspecified 8 16 32 48 64 80 128 256 512 1024 *)
    mem (nth (N.to_nat (p - 18)) [0; 1; 2; 4; 6; 8; 10; 16; 32; 64; 128] 0)
  else if p <? 36 then
    (* vm32x vm32y vm32z vm64x vm64y vm64z from bit 30 *)
    vmem (nth (N.to_nat (p - 30)) [11; 12; 13; 11; 12; 13] 0)
  else if p <? 46 then
    (* immediates from bit 36: i4 u4 i8 u8 i16 u16 i32 u32 i64 u64 *)
    OImm (nth (N.to_nat (p - 36)) [5; 5; 69; 69; 4660; 4660; 305419896; 305419896; 1311768467463790320; 1311768467463790320]%Z 0%Z)
  else OLabel.

Definition rep_ops (x64 : bool) (row : dbrow) : list operand := map (rep_operand x64) (explicit_ops (dr_ops row)).

(* the premises of the row-level acceptance theorem, evaluated on the representative operands of a row *)
Definition rep_premises (T : vtables) (x64 : bool) (row : dbrow) : bool :=
  let '(iflags, avx, _, _) := nth (N.to_nat (dr_inst row)) (vt_inst T) (0, 0, 0, 0) in
  match xlat_all T x64 false iflags avx (rep_ops x64 row) init_xstate with
  | inr (st, rest) => forallb is_none rest && fits_all (explicit_ops (dr_ops row)) (xs_sigs st) && (mode_stage x64 0 st =? E_Ok)
  | inl _ => false
  end.

Definition rep_premises_both (T : vtables) (row : dbrow) : bool :=
  (if test (dr_mode row) MODE_X86 then rep_premises T false row else true) &&
  (if test (dr_mode row) MODE_X64 then rep_premises T true row else true).

(* ------------------------------------------------------------------ a database row together with ONE decoration its form grants, as the instruction word carrying it
   (options, extra register): all premises of the row-level acceptance theorem evaluated on the representative operands *)
Definition rep_decor_premises (T : vtables) (x64 : bool) (dr : dbrow * N * N * N) : bool :=
  let '(row, options, et, ei) := dr in
  let inst := {| vi_id := dr_inst row; vi_options := options; vi_extra_type := et; vi_extra_id := ei |} in
  let ops := rep_ops x64 row in
  let '(iflags, avx, _, _) := nth (N.to_nat (dr_inst row)) (vt_inst T) (0, 0, 0, 0) in
  row_present T row &&
  match xlat_all T x64 false iflags avx ops init_xstate with
  | inr (st, rest) =>
    forallb is_none rest && fits_all (explicit_ops (dr_ops row)) (xs_sigs st) &&
    (lock_stage options iflags (first_is_mem ops) =? E_Ok) && (rep_stage options iflags =? E_Ok) && (mode_stage x64 options st =? E_Ok) &&
    (evex_stage options iflags =? E_Ok) &&
    (avx_stage options iflags avx (match xs_mem st with Some _ => true | None => false end) (first_is_mem ops) ops =? E_Ok) &&
    (extra_stage inst iflags avx st =? E_Ok)
  | inl _ => false
  end.

Definition rep_decor_premises_both (T : vtables) (dr : dbrow * N * N * N) : bool :=
  let row := fst (fst (fst dr)) in
  (if test (dr_mode row) MODE_X86 then rep_decor_premises T false dr else true) &&
  (if test (dr_mode row) MODE_X64 then rep_decor_premises T true dr else true).

(* ------------------------------------------------------------------ operand-wise premises (additive, round 6): whether ONE operand is an acceptable instance of ONE database
   operand is decidable without the translation state - it translates, fits the kind, names no register above 7 (so no REX is implied) and is a 64-bit GP
   register only in 64-bit mode *)
Definition sig_of_xlat (x : xlat) : N * N := (N.land (x_flags x) MASK56, N.land (x_regmask x) 255).

Definition operand_ok (T : vtables) (x64 : bool) (iflags avx : N) (dbop : N * N * bool) (op : operand) : bool :=
  match op with
  | ONone => false
  | _ =>
    match xlat_operand T x64 false iflags avx op with
    | XOk x comb => op_fits dbop (sig_of_xlat x) && (comb <? 256) && (x64 || negb (test (x_flags x) OF_RegGpq))
    | XErr _ => false
    end
  end.

Fixpoint operands_ok (T : vtables) (x64 : bool) (iflags avx : N) (dbops : list (N * N * bool)) (ops : list operand) : bool :=
  match dbops, ops with
  | [], [] => true
  | d :: ds, o :: os => operand_ok T x64 iflags avx d o && operands_ok T x64 iflags avx ds os
  | _, _ => false
  end.

(* table facts behind "any register 0..7 of the class is acceptable": for a register type rt whose OpFlags bit is kind, both modes *)
Definition class_regs_ok (T : vtables) (rt kind maxid : N) : bool :=
  forallb (fun x64 => forallb (fun id => operand_ok T x64 0 0 (kind, 0, false) (OReg rt id) && operand_ok T x64 0 0 (kind, N.shiftl 1 id, false) (OReg rt id))
                              (nseq_v 0 (S (N.to_nat maxid)))) [true; false].

Definition class_regs_ok_in (T : vtables) (modes : list bool) (rt kind lo hi : N) : bool :=
  forallb (fun x64 => forallb (fun id => operand_ok T x64 0 0 (kind, 0, false) (OReg rt id) && operand_ok T x64 0 0 (kind, N.shiftl 1 id, false) (OReg rt id))
                              (nseq_v lo (S (N.to_nat (hi - lo))))) modes.

(* (register type, OpFlags kind bit, lowest id, highest id, modes) of the register classes: any such register is an acceptable instance of its kind, as a class
   operand and as the fixed register the database may name *)
Definition standard_register_classes : list (N * N * N * N * list bool) :=
  [(2, 1, 0, 3, [true; false]); (3, 2, 0, 3, [true; false]); (4, 4, 0, 7, [true; false]); (5, 8, 0, 7, [true; false]); (6, 16, 0, 7, [true]);
   (11, 32, 0, 7, [true; false]); (12, 64, 0, 7, [true; false]); (13, 128, 0, 7, [true; false]); (28, 256, 0, 7, [true; false]); (16, 512, 0, 7, [true; false]);
   (25, 1024, 1, 6, [true; false]); (26, 2048, 0, 7, [true; false]); (27, 4096, 0, 7, [true; false]); (29, 8192, 0, 7, [true; false]); (30, 16384, 0, 3, [true; false]);
   (17, 32768, 0, 7, [true; false])].

Definition standard_registers_ok (T : vtables) : bool :=
  forallb (fun c => let '(rt, kind, lo, hi, modes) := c in class_regs_ok_in T modes rt kind lo hi) standard_register_classes.

Definition rep_operands_ok_both (T : vtables) (row : dbrow) : bool :=
  let '(iflags, avx, _, _) := nth (N.to_nat (dr_inst row)) (vt_inst T) (0, 0, 0, 0) in
  (if test (dr_mode row) MODE_X86 then operands_ok T false iflags avx (explicit_ops (dr_ops row)) (rep_ops false row) else true) &&
  (if test (dr_mode row) MODE_X64 then operands_ok T true iflags avx (explicit_ops (dr_ops row)) (rep_ops true row) else true).

(* ------------------------------------------------------------------ SYNTACTIC standard instances of a database operand (no reference to the validator's translation):
   a register 0..7 (class-dependent range) of the class the kind names - the fixed one if the database fixes one; a plain memory operand [mode-sized GP base 0..7 +
   any displacement] of the named size (displacement 0 mod 2^32 where a base-only address is demanded); an immediate whose value belongs to one of the named
   immediate kinds; a label for a relative displacement *)
Definition std_reg (x64 : bool) (need fixed rt id : N) : bool :=
  existsb (fun c => let '(rt', kind, lo, hi, modes) := c in
             (rt' =? rt) && (need =? kind) && (lo <=? id) && (id <=? hi) && existsb (Bool.eqb x64) modes) standard_register_classes &&
  ((fixed =? 0) || (fixed =? N.shiftl 1 id)).

Definition std_instance (x64 : bool) (dbop : N * N * bool) (op : operand) : bool :=
  let '(need, fixed, impl) := dbop in
  negb impl &&
  match op with
  | OReg rt id => std_reg x64 need fixed rt id
  | OMem sz bt bid it iid off seg bcst home =>
    (bt =? (if x64 then RT_Gp64 else RT_Gp32)) && (bid <? 8) && (it =? 0) && (iid =? 0) && (seg =? 0) && (bcst =? 0) && negb home && (fixed =? 0) &&
    match mem_size_flag sz with
    | Some sf => ((need =? sf) || ((need =? N.lor sf OF_FlagMemBase) && (off mod 4294967296 =? 0)%Z))
    | None => false
    end
  | OImm v => (fixed =? 0) && negb (test need OF_RegMask) && negb (test need OF_FlagMemBase) && test (N.land (N.land (imm_flags v) MASK56) need) OF_OpMask
  | OLabel => (fixed =? 0) && negb (test need OF_RegMask) && negb (test need OF_FlagMemBase) && test (N.land (N.land (N.lor OF_Rel8 OF_Rel32) MASK56) need) OF_OpMask
  | ONone => false
  end.

Fixpoint std_instances (x64 : bool) (dbops : list (N * N * bool)) (ops : list operand) : bool :=
  match dbops, ops with
  | [], [] => true
  | d :: ds, o :: os => std_instance x64 d o && std_instances x64 ds os
  | _, _ => false
  end.

Definition rep_is_standard_both (row : dbrow) : bool :=
  (if test (dr_mode row) MODE_X86 then std_instances false (explicit_ops (dr_ops row)) (rep_ops false row) else true) &&
  (if test (dr_mode row) MODE_X64 then std_instances true (explicit_ops (dr_ops row)) (rep_ops true row) else true).

(* C06 — completeness direction between the two Coq models: every instruction form the solver model (SolverFullModel.fconv / fstore /
   exchange) can emit has a textual form (mnemonic + operands, as the emitter prints it and llvm-mc shows it) that the whitelist
   (DecodeModel.decode_inst) reads back as EXACTLY that instruction.  `print` is the inverse direction of the whitelist on the solver's
   instruction set, for the four targets; `decode_print` is the round trip.  Consequence (with the invariant in SolverFullProofs*.v that every
   emitted instruction is printable): on the proved fragment the whitelist never answers "unmodelled" and never reads a different move than
   the one the model describes. *)
From Coq Require Import ZArith List Bool String Lia.
Import ListNotations.
From Verif Require Import CallConv.ShuffleModel CallConv.SolverModel CallConv.SolverFullModel CallConv.DecodeModel.
Local Open Scope string_scope.
Local Open Scope Z_scope.

Definition is_x86 (a : farch) : bool := match a with FA64 => false | _ => true end.
Definition has_avx (a : farch) : bool := match a with FX64A => true | _ => false end.

(* frames of the fragment: addressed through SP, no dynamic alignment *)
Definition frame_of (a : farch) (sp so_sp so_sa : Z) : dframe := mkDF (negb (is_x86 a)) sp sp so_sp so_sa false.

Definition zin (x : Z) (l : list Z) : bool := existsb (Z.eqb x) l.
Definition vx (a : farch) (m : string) : string := if has_avx a then String.append "v" m else m.

Definition mem_src (a : farch) (F : dframe) (bits off : Z) : opnd := OMem (if is_x86 a then bits else 0) (d_sp F) (off + d_saoff_sp F).
Definition mem_dst (a : farch) (F : dframe) (bits off : Z) : opnd := OMem (if is_x86 a then bits else 0) (d_sp F) off.

(* the source operand: a register view of `bits` bits or the incoming stack slot *)
Definition src_op (a : farch) (F : dframe) (g : Z) (s : loc) (bits : Z) : option opnd :=
  match s with
  | Reg g' r => if g' =? g then Some (OReg g r bits) else None
  | Mem 0 off => Some (mem_src a F bits off)
  | Mem _ _ => None
  end.

Definition print (a : farch) (F : dframe) (i : minst) : option (string * opnd * opnd) :=
  match i with
  | IXchg (Reg 0 x) (Reg 0 y) w 64 =>
      if is_x86 a && zin w [32; 64] then Some ("xchg", OReg 0 x w, OReg 0 y w) else None
  | IExt (Mem 1 off) (Reg g r) EZ n w wz =>
      if negb ((w =? n) && (wz =? n)) then None else
      if is_x86 a then
        (if g =? 0 then (if zin n [8; 16; 32; 64] then Some ("mov", mem_dst a F n off, OReg 0 r n) else None)
         else if g =? 1 then
           (if n =? 32 then Some (vx a "movss", mem_dst a F 32 off, OReg 1 r 128)
            else if n =? 64 then Some (vx a "movsd", mem_dst a F 64 off, OReg 1 r 128)
            else if (n =? 128) || (has_avx a && zin n [256; 512]) then Some (vx a "movups", mem_dst a F n off, OReg 1 r n)
            else None)
         else None)
      else
        (if g =? 0 then
           (if n =? 8 then Some ("strb", OReg 0 r 32, mem_dst a F 0 off)
            else if n =? 16 then Some ("strh", OReg 0 r 32, mem_dst a F 0 off)
            else if zin n [32; 64] then Some ("str", OReg 0 r n, mem_dst a F 0 off) else None)
         else if g =? 1 then (if zin n [32; 64; 128] then Some ("str", OReg 1 r n, mem_dst a F 0 off) else None)
         else None)
  | IExt (Reg g rd) s e n w wz =>
      let ismem := match s with Mem _ _ => true | Reg _ _ => false end in
      if is_x86 a then
        (if g =? 0 then
           match e with
           | EZ =>
               if (n =? w) && (wz =? 64) && zin w [32; 64] then
                 match src_op a F 0 s w with Some so => Some ("mov", OReg 0 rd w, so) | None => None end
               else if zin n [8; 16] && (w =? 32) && (wz =? 64) then
                 match src_op a F 0 s n with Some so => Some ("movzx", OReg 0 rd 32, so) | None => None end
               else None
           | ES =>
               if zin n [8; 16; 32] && zin w [16; 32; 64] && (n <? w) && (wz =? gpz w) then
                 match src_op a F 0 s n with
                 | Some so => Some (if n =? 32 then "movsxd" else "movsx", OReg 0 rd w, so)
                 | None => None
                 end
               else None
           end
         else if g =? 1 then
           match e with
           | ES => None
           | EZ =>
               if negb (wz =? (if has_avx a then 512 else 128)) || negb (n =? w) then None else
               if ismem then
                 (if n =? 32 then match src_op a F 1 s 32 with Some so => Some (vx a "movd", OReg 1 rd 128, so) | None => None end
                  else if n =? 64 then match src_op a F 1 s 64 with Some so => Some (vx a "movq", OReg 1 rd 128, so) | None => None end
                  else if (n =? 128) || (has_avx a && zin n [256; 512]) then
                    match src_op a F 1 s n with Some so => Some (vx a "movups", OReg 1 rd n, so) | None => None end
                  else None)
               else
                 (if (n =? 128) || (has_avx a && zin n [256; 512]) then
                    match src_op a F 1 s n with Some so => Some (vx a "movaps", OReg 1 rd n, so) | None => None end
                  else None)
           end
         else None)
      else
        (if negb (wz =? (if g =? 0 then 64 else 128)) then None else
         if g =? 0 then
           (if ismem then
              match e with
              | ES => if zin n [8; 16; 32] && zin w [32; 64] && (n <=? w) then
                        match src_op a F 0 s 0 with
                        | Some so => Some (if n =? 8 then "ldrsb" else if n =? 16 then "ldrsh" else "ldrsw", OReg 0 rd w, so)
                        | None => None
                        end
                      else None
              | EZ => if zin n [8; 16] && (w =? 32) then
                        match src_op a F 0 s 0 with Some so => Some (if n =? 8 then "ldrb" else "ldrh", OReg 0 rd 32, so) | None => None end
                      else if (n =? w) && zin w [32; 64] then
                        match src_op a F 0 s 0 with Some so => Some ("ldr", OReg 0 rd w, so) | None => None end
                      else None
              end
            else
              match s with
              | Reg 0 rs =>
                  match e with
                  | ES => if zin n [8; 16; 32] && zin w [32; 64] && (n <=? w) then
                            Some (if n =? 8 then "sxtb" else if n =? 16 then "sxth" else "sxtw", OReg 0 rd w, OReg 0 rs 32)
                          else None
                  | EZ => if zin n [8; 16] && (w =? 32) then Some (if n =? 8 then "uxtb" else "uxth", OReg 0 rd 32, OReg 0 rs 32)
                          else if (n =? w) && zin w [32; 64] && (rd <? 31) && (rs <? 31) then Some ("mov", OReg 0 rd w, OReg 0 rs w)
                          else None
                  end
              | _ => None
              end)
         else if g =? 1 then
           match e with
           | ES => None
           | EZ =>
               if negb (n =? w) || negb (zin n [32; 64; 128]) then None else
               if ismem then match src_op a F 1 s 0 with Some so => Some ("ldr", OReg 1 rd n, so) | None => None end
               else match s with
                    | Reg 1 rs => Some (if n =? 32 then "fmov" else "mov", OReg 1 rd n, OReg 1 rs n)
                    | _ => None
                    end
           end
         else None)
  | _ => None
  end.

(* ---------------------------------------------------------------------------------------------- *)
(* the round trip *)

Lemma zin_cases x l : zin x l = true -> In x l.
Proof.
  unfold zin. intros H. apply existsb_exists in H. destruct H as [y [Hy E]]. apply Z.eqb_eq in E. subst. assumption.
Qed.

Ltac split_print H :=
  repeat match type of H with
         | context [match ?x with _ => _ end] =>
             match x with
             | _ => is_var x; destruct x
             | _ => let E := fresh "E" in destruct x eqn:E
             end; try discriminate H; cbn beta iota in H
         end.

Ltac norm_hyps :=
  repeat match goal with
         | H : _ && _ = true |- _ => apply andb_prop in H; destruct H
         | H : negb _ = false |- _ => apply negb_false_iff in H
         | H : negb _ = true |- _ => apply negb_true_iff in H
         | H : (_ =? _) = true |- _ => apply Z.eqb_eq in H; subst
         | H : zin _ _ = true |- _ => apply zin_cases in H; cbn [In] in H
         | H : _ \/ _ |- _ => destruct H
         | H : False |- _ => destruct H
         end.

Lemma sp_src_roundtrip off s : off + s - s = off.
Proof. lia. Qed.

Ltac finish_decode :=
  unfold decode_inst, frame_of, mem_src, mem_dst, vx, has_avx, is_x86; cbn [d_a64 negb lookup x86_table a64_table];
  repeat (cbn [String.eqb Ascii.eqb Bool.eqb append]; cbn [lookup]);
  unfold decode_class; cbn [d_a64 d_sp d_sareg d_saoff_sp d_saoff_sa d_da negb andb orb is_oreg is_omem ogrp opw dst_loc src_loc zmem existsb ext_of];
  rewrite ?Z.eqb_refl; cbn [andb orb negb]; rewrite ?sp_src_roundtrip; try reflexivity.

Ltac norm2 :=
  repeat match goal with
         | H : _ && _ = true |- _ => apply andb_prop in H; destruct H
         | H : _ || _ = false |- _ => apply orb_false_elim in H; destruct H
         | H : _ || _ = true |- _ => apply orb_prop in H; destruct H
         | H : negb _ = false |- _ => apply negb_false_iff in H
         | H : negb _ = true |- _ => apply negb_true_iff in H
         | H : (_ =? _) = true |- _ => apply Z.eqb_eq in H; subst
         | H : zin _ _ = true |- _ => apply zin_cases in H; cbn [In] in H
         | H : _ \/ _ |- _ => destruct H
         | H : False |- _ => destruct H
         | H : true = false |- _ => discriminate H
         | H : false = true |- _ => discriminate H
         | H : src_op _ _ _ _ _ = Some _ |- _ => unfold src_op in H; split_print H; try (injection H as <-)
         end.
Theorem decode_print : forall a sp so_sp so_sa i m d s,
  print a (frame_of a sp so_sp so_sa) i = Some (m, d, s) ->
  decode_inst (frame_of a sp so_sp so_sa) [] m d s = Some i.
Proof.
  intros a sp so_sp so_sa i m d s H. unfold print in H.
  destruct a; cbn [is_x86 has_avx andb negb] in H.
  all: split_print H.
  all: try (injection H as <- <- <-).
  all: norm2.
  all: subst.
  all: try (match goal with H : (_ <? _) = true |- _ => vm_compute in H; discriminate H | H : (_ <=? _) = true |- _ => vm_compute in H; discriminate H | H : (_ =? _) = false |- _ => vm_compute in H; discriminate H end).
  all: try solve [finish_decode].
  all: finish_decode; repeat match goal with H : (_ <? _) = true |- _ => rewrite H end; reflexivity.
Qed.

(* non-vacuity: one printed form per target *)
Example print_examples :
  print FX64 (frame_of FX64 4 24 0) (IExt (Reg 0 6) (Mem 0 8) ES 8 32 64) = Some ("movsx", OReg 0 6 32, OMem 8 4 32) /\
  print FX64A (frame_of FX64A 4 24 0) (IExt (Reg 1 1) (Reg 1 3) EZ 256 256 512) = Some ("vmovaps", OReg 1 1 256, OReg 1 3 256) /\
  print FX86 (frame_of FX86 4 4 0) (IExt (Mem 1 0) (Reg 0 6) EZ 32 32 32) = Some ("mov", OMem 32 4 0, OReg 0 6 32) /\
  print FA64 (frame_of FA64 31 16 0) (IExt (Reg 0 3) (Mem 0 8) ES 32 64 64) = Some ("ldrsw", OReg 0 3 64, OMem 0 31 24) /\
  print FX64 (frame_of FX64 4 24 0) (IXchg (Reg 0 6) (Reg 0 7) 32 64) = Some ("xchg", OReg 0 6 32, OReg 0 7 32) /\
  print FA64 (frame_of FA64 31 16 0) (IXchg (Reg 0 6) (Reg 0 7) 32 64) = None.
Proof. vm_compute. repeat split; reflexivity. Qed.

(* C06 - the memory cells of ShuffleModel.v behave like byte-addressed little-endian memory:
   simulation between the byte-level machine [bexec] of ShuffleBytesModel.v and the cell-level [exec],
   and soundness of [validate_bytes] w.r.t. the byte-level machine. *)
From Coq Require Import ZArith Lia List Bool Znumtheory.
From Verif Require Import Base.ZBits CallConv.ShuffleModel CallConv.ShuffleProofs CallConv.ShuffleBytesModel.
Import ListNotations.
Local Open Scope Z_scope.

(* ---------------------------------------------------------------------------------------------- *)
(* arithmetic of little-endian byte strings *)

Lemma pow2_8S k : 2 ^ (8 * Z.of_nat (S k)) = 256 * 2 ^ (8 * Z.of_nat k).
Proof.
  replace (8 * Z.of_nat (S k)) with (8 + 8 * Z.of_nat k) by lia.
  rewrite Z.pow_add_r by lia. reflexivity.
Qed.

Lemma pow2_8O : 2 ^ (8 * Z.of_nat 0) = 1.
Proof. reflexivity. Qed.

Lemma le_bytes_range m : forall k a, 0 <= le_bytes m a k < 2 ^ (8 * Z.of_nat k).
Proof.
  induction k as [| k IH]; intros a.
  - rewrite pow2_8O. cbn [le_bytes]. lia.
  - cbn [le_bytes]. rewrite pow2_8S. specialize (IH (a + 1)).
    pose proof (Z.mod_pos_bound (m a) 256 ltac:(lia)). lia.
Qed.

Lemma le_bytes_app m : forall j k a,
  le_bytes m a (j + k) = le_bytes m a j + 2 ^ (8 * Z.of_nat j) * le_bytes m (a + Z.of_nat j) k.
Proof.
  induction j as [| j IH]; intros k a.
  - rewrite pow2_8O. cbn [Nat.add le_bytes]. replace (a + Z.of_nat 0) with a by lia. lia.
  - cbn [Nat.add le_bytes]. rewrite IH, pow2_8S.
    replace (a + 1 + Z.of_nat j) with (a + Z.of_nat (S j)) by lia. ring.
Qed.

Lemma le_bytes_ext m m' : forall k a,
  (forall x, a <= x < a + Z.of_nat k -> m x = m' x) -> le_bytes m a k = le_bytes m' a k.
Proof.
  induction k as [| k IH]; intros a H; [reflexivity|].
  cbn [le_bytes]. rewrite (H a) by lia. rewrite (IH (a + 1)); [reflexivity|].
  intros x Hx. apply H. lia.
Qed.

(* the low j bytes of a k-byte read *)
Lemma le_bytes_prefix m a j k : (j <= k)%nat -> le_bytes m a k mod 2 ^ (8 * Z.of_nat j) = le_bytes m a j.
Proof.
  intros H. replace k with (j + (k - j))%nat by lia. rewrite le_bytes_app.
  set (P := 2 ^ (8 * Z.of_nat j)). set (L := le_bytes m a j). set (Hi := le_bytes m (a + Z.of_nat j) (k - j)).
  assert (HP : 0 < P) by (apply pow2_pos; lia).
  rewrite (Z.mul_comm P Hi). rewrite Z.mod_add by lia. apply Z.mod_small. apply le_bytes_range.
Qed.

Lemma bwrite_other m : forall k a v x, x < a \/ a + Z.of_nat k <= x -> bwrite_mem m a k v x = m x.
Proof.
  induction k as [| k IH]; intros a v x H; [reflexivity|].
  cbn [bwrite_mem]. destruct (Z.eqb_spec x a); [lia|]. apply IH. lia.
Qed.

(* write then read the same range *)
Lemma bwrite_same m : forall k a v, le_bytes (bwrite_mem m a k v) a k = v mod 2 ^ (8 * Z.of_nat k).
Proof.
  induction k as [| k IH]; intros a v.
  - rewrite pow2_8O. cbn [le_bytes]. symmetry. apply Z.mod_1_r.
  - cbn [le_bytes].
    rewrite (le_bytes_ext (bwrite_mem m a (S k) v) (bwrite_mem m (a + 1) k (v / 256)) k (a + 1)).
    2:{ intros x Hx. cbn [bwrite_mem]. destruct (Z.eqb_spec x a); [lia | reflexivity]. }
    rewrite IH. cbn [bwrite_mem]. rewrite Z.eqb_refl. rewrite pow2_8S.
    rewrite Z.mod_mod by lia.
    rewrite Z.rem_mul_r; [reflexivity | lia | apply pow2_pos; lia].
Qed.

Lemma bits_nat bits : 0 < bits -> bits mod 8 = 0 -> 8 * Z.of_nat (Z.to_nat (bits / 8)) = bits.
Proof.
  intros H1 H2. rewrite Z2Nat.id by (apply Z.div_pos; lia).
  pose proof (Z.div_mod bits 8 ltac:(lia)). lia.
Qed.

(* keeping the part of [old] above P and replacing the part below P by v, seen modulo P * Q *)
Lemma put_high old P Q L H v :
  0 < P -> 0 < Q -> 0 <= L < P -> 0 <= H < Q -> 0 <= v < P ->
  old mod (P * Q) = L + P * H -> (old / P * P + v) mod (P * Q) = v + P * H.
Proof.
  intros HP HQ HL HH Hv E.
  assert (HPQ : 0 < P * Q) by (apply Z.mul_pos_pos; lia).
  pose proof (Z.div_mod old (P * Q) ltac:(lia)) as D. rewrite E in D.
  set (q := old / (P * Q)) in *.
  assert (Ed : old / P = Q * q + H).
  { symmetry. apply (Z.div_unique old P (Q * q + H) L); [lia|].
    transitivity (P * Q * q + (L + P * H)); [exact D | ring]. }
  rewrite Ed. replace ((Q * q + H) * P + v) with (v + P * H + q * (P * Q)) by ring.
  rewrite Z.mod_add by lia. apply Z.mod_small.
  assert (0 <= P * H) by (apply Z.mul_nonneg_nonneg; lia).
  assert (P * H <= P * (Q - 1)) by (apply Z.mul_le_mono_nonneg_l; lia). lia.
Qed.

(* a store of k bytes at o, seen by a j-byte read at the same start o *)
Lemma store_same_nat m o k j v old :
  0 <= v < 2 ^ (8 * Z.of_nat k) ->
  old mod 2 ^ (8 * Z.of_nat j) = le_bytes m o j ->
  (old / 2 ^ (8 * Z.of_nat k) * 2 ^ (8 * Z.of_nat k) + v) mod 2 ^ (8 * Z.of_nat j)
  = le_bytes (bwrite_mem m o k v) o j.
Proof.
  intros Hv Hold. destruct (le_lt_dec j k) as [Hle | Hgt].
  - (* the read is not wider than the store: it sees v *)
    rewrite <- (le_bytes_prefix (bwrite_mem m o k v) o j k Hle).
    rewrite bwrite_same. rewrite mod_mod_pow2 by lia.
    replace (old / 2 ^ (8 * Z.of_nat k) * 2 ^ (8 * Z.of_nat k) + v)
      with (v + (old / 2 ^ (8 * Z.of_nat k) * 2 ^ (8 * Z.of_nat k - 8 * Z.of_nat j)) * 2 ^ (8 * Z.of_nat j)).
    2:{ rewrite (pow2_split (8 * Z.of_nat j) (8 * Z.of_nat k)) by lia. ring. }
    apply Z.mod_add. pose proof (pow2_pos (8 * Z.of_nat j) ltac:(lia)). lia.
  - (* the read is wider: it sees v and the unchanged bytes above the store *)
    assert (Hd : exists d, j = (k + d)%nat) by (exists (j - k)%nat; lia).
    destruct Hd as [d ->].
    rewrite le_bytes_app in Hold. rewrite le_bytes_app.
    rewrite bwrite_same. rewrite (Z.mod_small v) by lia.
    rewrite (le_bytes_ext (bwrite_mem m o k v) m d (o + Z.of_nat k))
      by (intros x Hx; apply bwrite_other; lia).
    replace (8 * Z.of_nat (k + d)) with (8 * Z.of_nat k + 8 * Z.of_nat d) in * by lia.
    rewrite Z.pow_add_r in * by lia.
    apply (put_high old _ _ (le_bytes m o k)).
    + apply pow2_pos; lia.
    + apply pow2_pos; lia.
    + apply le_bytes_range.
    + apply le_bytes_range.
    + exact Hv.
    + exact Hold.
Qed.

Lemma store_same_start m o wz bits v old :
  0 < wz -> wz mod 8 = 0 -> 0 < bits -> bits mod 8 = 0 -> 0 <= v < 2 ^ wz ->
  old mod 2 ^ bits = le_bytes m o (Z.to_nat (bits / 8)) ->
  (old / 2 ^ wz * 2 ^ wz + v) mod 2 ^ bits
  = le_bytes (bwrite_mem m o (Z.to_nat (wz / 8)) v) o (Z.to_nat (bits / 8)).
Proof.
  intros Hwz Hwz8 Hb Hb8 Hv Hold.
  pose proof (store_same_nat m o (Z.to_nat (wz / 8)) (Z.to_nat (bits / 8)) v old) as S.
  rewrite (bits_nat wz Hwz Hwz8), (bits_nat bits Hb Hb8) in S. apply S; assumption.
Qed.

(* ---------------------------------------------------------------------------------------------- *)
(* access lists *)

Lemma access_compat_sym x y : access_compat x y = access_compat y x.
Proof.
  destruct x as [[a1 o1] b1], y as [[a2 o2] b2]. unfold access_compat.
  rewrite (Z.eqb_sym a1 a2), (Z.eqb_sym o1 o2).
  destruct (negb (a2 =? a1)), (o2 =? o1), (o1 + b1 / 8 <=? o2), (o2 + b2 / 8 <=? o1); reflexivity.
Qed.

Lemma access_compat_refl x : access_compat x x = true.
Proof.
  destruct x as [[a o] b]. unfold access_compat. rewrite (Z.eqb_refl o). rewrite orb_true_r. reflexivity.
Qed.

Lemma accesses_compat_all xs :
  accesses_compat xs = true -> forall x y, In x xs -> In y xs -> access_compat x y = true.
Proof.
  induction xs as [| z r IH]; intros Hc x y Hx Hy; [destruct Hx|].
  cbn [accesses_compat] in Hc. apply andb_prop in Hc. destruct Hc as [Hz Hr].
  rewrite forallb_forall in Hz.
  destruct Hx as [Hx | Hx], Hy as [Hy | Hy].
  - subst. apply access_compat_refl.
  - subst. apply Hz; assumption.
  - subst. rewrite access_compat_sym. apply Hz; assumption.
  - apply IH; assumption.
Qed.

(* every access is byte aligned, at most 64 bytes wide, and two accesses are pairwise compatible *)
Definition xs_ok (xs : list access) : Prop :=
  (forall a o bits, In (a, o, bits) xs -> 0 < bits <= 512 /\ bits mod 8 = 0) /\
  (forall x y, In x xs -> In y xs -> access_compat x y = true).

Lemma xs_ok_of_checks xs :
  accesses_ok xs = true -> forallb (fun '(_, _, b) => b <=? 512) xs = true -> xs_ok xs.
Proof.
  intros Hok H512. unfold accesses_ok in Hok. apply andb_prop in Hok. destruct Hok as [Hal Hco].
  rewrite forallb_forall in Hal. rewrite forallb_forall in H512. split.
  - intros a o bits Hin. specialize (Hal _ Hin). specialize (H512 _ Hin).
    cbn [access_aligned] in Hal. cbv beta iota in H512.
    apply andb_prop in Hal. destruct Hal as [H0 H8].
    apply Z.ltb_lt in H0. apply Z.eqb_eq in H8. apply Z.leb_le in H512. lia.
  - apply accesses_compat_all. assumption.
Qed.

(* ---------------------------------------------------------------------------------------------- *)
(* the simulation *)

(* cell-level view of a byte-level state: a cell is the 64 bytes (the widest access) from its start *)
Definition cells (bs : bstate) : state :=
  fun l => match l with Reg g i => b_reg bs g i | Mem a o => le_bytes (b_mem bs a) o 64 end.

Definition R (xs : list access) (bs : bstate) (st : state) : Prop :=
  (forall g i, st (Reg g i) = b_reg bs g i) /\
  (forall a o bits, In (a, o, bits) xs ->
     st (Mem a o) mod 2 ^ bits = le_bytes (b_mem bs a) o (Z.to_nat (bits / 8))).

Lemma R_init xs bs : xs_ok xs -> R xs bs (cells bs).
Proof.
  intros [Hal _]. split; [reflexivity|]. intros a o bits Hin.
  destruct (Hal _ _ _ Hin) as [Hb H8]. cbn [cells].
  assert (Hk : (Z.to_nat (bits / 8) <= 64)%nat).
  { assert (bits / 8 <= 64) by (pose proof (Z.div_mod bits 8 ltac:(lia)); lia). lia. }
  pose proof (le_bytes_prefix (b_mem bs a) o (Z.to_nat (bits / 8)) 64 Hk) as P.
  rewrite bits_nat in P by lia. exact P.
Qed.

Lemma read_sim xs bs st l bits :
  xs_ok xs -> R xs bs st -> incl (loc_access l bits) xs ->
  st l mod 2 ^ bits = bread bs l bits mod 2 ^ bits.
Proof.
  intros [Hal _] [Hr Hm] Hin. destruct l as [g i | a o]; cbn [bread].
  - rewrite Hr. reflexivity.
  - assert (Hi : In (a, o, bits) xs) by (apply Hin; left; reflexivity).
    destruct (Hal _ _ _ Hi) as [Hb H8]. rewrite (Hm _ _ _ Hi). symmetry. apply Z.mod_small.
    pose proof (le_bytes_range (b_mem bs a) (Z.to_nat (bits / 8)) o) as Rg.
    rewrite bits_nat in Rg by lia. exact Rg.
Qed.

Lemma step_sim xs bs st i acc :
  xs_ok xs -> wf_inst i = true -> inst_accesses i = Some acc -> incl acc xs ->
  R xs bs st -> R xs (bexec_inst bs i) (exec_inst st i).
Proof.
  intros Hxs Hwf Hacc Hincl HR.
  destruct i as [d s e n w wz | l1 l2 w wz].
  - cbn [wf_inst] in Hwf.
    apply andb_prop in Hwf. destruct Hwf as [Hwf H3]. apply andb_prop in Hwf. destruct Hwf as [H1 H2].
    apply Z.ltb_lt in H1. apply Z.leb_le in H2. apply Z.leb_le in H3.
    cbn [inst_accesses] in Hacc. injection Hacc as <-.
    change (incl (loc_access d wz ++ loc_access s n) xs) in Hincl.
    apply incl_app_inv in Hincl. destruct Hincl as [Hid His].
    assert (Ev : extv e n w (bread bs s n) = extv e n w (st s)).
    { apply extv_cong. symmetry. apply (read_sim xs); assumption. }
    assert (Hv : 0 <= extv e n w (st s) < 2 ^ wz).
    { pose proof (extv_range e n w (st s) ltac:(lia)). pose proof (pow2_le w wz ltac:(lia)). lia. }
    destruct Hxs as [Hal Hco]. destruct HR as [Hr Hm].
    destruct d as [g r | a o]; cbn [bexec_inst exec_inst]; cbv zeta; rewrite Ev.
    + split.
      * intros g' i'. cbn [b_reg]. unfold upd, rupd. cbn [loc_eqb]. rewrite !Hr. reflexivity.
      * intros a' o' bits' Hin. cbn [b_mem]. unfold upd. cbn [loc_eqb]. apply Hm; assumption.
    + assert (Hi : In (a, o, wz) xs) by (apply Hid; left; reflexivity).
      destruct (Hal _ _ _ Hi) as [Hwz Hwz8].
      split.
      * intros g' i'. cbn [b_reg]. unfold upd. cbn [loc_eqb]. apply Hr.
      * intros a' o' bits' Hin. cbn [b_mem]. unfold upd, mupd. cbn [loc_eqb].
        destruct (Hal _ _ _ Hin) as [Hb Hb8].
        destruct (Z.eqb_spec a' a) as [-> | Hna]; cbn [andb].
        -- destruct (Z.eqb_spec o' o) as [-> | Hno].
           ++ apply store_same_start; try lia. apply Hm; assumption.
           ++ rewrite (Hm _ _ _ Hin). apply le_bytes_ext. intros x Hx. symmetry. apply bwrite_other.
              pose proof (Hco _ _ Hi Hin) as Hc. unfold access_compat in Hc.
              rewrite Z.eqb_refl in Hc. cbn [negb orb] in Hc.
              destruct (Z.eqb_spec o o') as [E | _]; [congruence|]. cbn [orb] in Hc.
              rewrite Z2Nat.id in Hx by (apply Z.div_pos; lia).
              rewrite Z2Nat.id by (apply Z.div_pos; lia).
              apply orb_prop in Hc. destruct Hc as [Hc | Hc]; apply Z.leb_le in Hc; lia.
        -- apply Hm; assumption.
  - destruct l1 as [g1 r1 | a1 o1], l2 as [g2 r2 | a2 o2]; cbn [inst_accesses] in Hacc; try discriminate.
    destruct HR as [Hr Hm]. cbn [bexec_inst exec_inst]. cbv zeta. split.
    + intros g' i'. cbn [b_reg]. unfold upd, rupd. cbn [loc_eqb]. rewrite !Hr. reflexivity.
    + intros a' o' bits' Hin. cbn [b_mem]. unfold upd. cbn [loc_eqb]. apply Hm; assumption.
Qed.

Lemma bexec_sim xs : xs_ok xs -> forall ms acc,
  accesses ms = Some acc -> incl acc xs -> forallb wf_inst ms = true ->
  forall bs st, R xs bs st -> R xs (bexec ms bs) (exec ms st).
Proof.
  intros Hxs. induction ms as [| i ms IH]; intros acc Hacc Hincl Hwf bs st HR; [exact HR|].
  cbn [accesses] in Hacc.
  destruct (inst_accesses i) as [x |] eqn:Hx; [| discriminate].
  destruct (accesses ms) as [y |] eqn:Hy; [| discriminate].
  injection Hacc as <-. apply incl_app_inv in Hincl. destruct Hincl as [Hix Hiy].
  cbn [forallb] in Hwf. apply andb_prop in Hwf. destruct Hwf as [Hw1 Hw2].
  cbn [bexec exec fold_left].
  apply (IH y eq_refl Hiy Hw2). apply (step_sim xs bs st i x); assumption.
Qed.

(* ---------------------------------------------------------------------------------------------- *)
(* from cell contents to byte reads *)

(* validate_sound without the (unused) non-negativity hypothesis: registers of a bstate are arbitrary *)
Lemma validate_sound_any mvs allowed ms : validate mvs allowed ms = true ->
  forall st0 mv, In mv mvs -> dst_ok mv (st0 (m_src mv)) (exec ms st0 (m_dst mv)).
Proof.
  intros Hv st0 mv Hin. unfold validate in Hv.
  apply andb_prop in Hv. destruct Hv as [Hv _]. apply andb_prop in Hv. destruct Hv as [Hv Hck].
  apply andb_prop in Hv. destruct Hv as [Hv _]. apply andb_prop in Hv. destruct Hv as [Hwf _].
  cbv zeta in Hck. rewrite forallb_forall in Hck. specialize (Hck mv Hin).
  apply (check_move_sound st0 mv _ _ Hck).
  apply (sym_exec_sound st0 ms [] st0 Hwf (ainv_init st0)).
Qed.

Lemma validate_move_bits mvs allowed ms mv :
  validate mvs allowed ms = true -> In mv mvs -> 0 < m_sbits mv /\ 0 < m_dbits mv.
Proof.
  intros Hv Hin. unfold validate in Hv.
  apply andb_prop in Hv. destruct Hv as [Hv _]. apply andb_prop in Hv. destruct Hv as [_ Hck].
  cbv zeta in Hck. rewrite forallb_forall in Hck. specialize (Hck mv Hin).
  unfold check_move in Hck.
  apply andb_prop in Hck. destruct Hck as [Hck _]. apply andb_prop in Hck. destruct Hck as [Hs Hd].
  apply Z.ltb_lt in Hs. apply Z.ltb_lt in Hd. split; assumption.
Qed.

Lemma validate_wf mvs allowed ms : validate mvs allowed ms = true -> forallb wf_inst ms = true.
Proof.
  intros Hv. unfold validate in Hv.
  apply andb_prop in Hv. destruct Hv as [Hv _]. apply andb_prop in Hv. destruct Hv as [Hv _].
  apply andb_prop in Hv. destruct Hv as [Hv _]. apply andb_prop in Hv. destruct Hv as [Hwf _]. exact Hwf.
Qed.

(* dst_ok only looks at the source modulo 2^m_sbits and at the destination modulo 2^m_dbits *)
Lemma dst_ok_cong mv v0 v0' c c' :
  0 < m_sbits mv -> 0 < m_dbits mv ->
  v0 mod 2 ^ (m_sbits mv) = v0' mod 2 ^ (m_sbits mv) ->
  c mod 2 ^ (m_dbits mv) = c' mod 2 ^ (m_dbits mv) ->
  dst_ok mv v0 c -> dst_ok mv v0' c'.
Proof.
  intros Hs Hd Ev Ec. unfold dst_ok. destruct (m_int mv && (m_sbits mv <? m_dbits mv)).
  - intros H. rewrite <- Ec, H. apply extv_cong. exact Ev.
  - set (k := Z.min (m_sbits mv) (m_dbits mv)). intros H.
    assert (E1 : c' mod 2 ^ k = c mod 2 ^ k).
    { rewrite <- (mod_mod_pow2 c' k (m_dbits mv)) by lia. rewrite <- Ec. apply mod_mod_pow2. lia. }
    assert (E2 : v0' mod 2 ^ k = v0 mod 2 ^ k).
    { rewrite <- (mod_mod_pow2 v0' k (m_sbits mv)) by lia. rewrite <- Ev. apply mod_mod_pow2. lia. }
    rewrite E1, E2. exact H.
Qed.

Lemma move_accesses_incl mvs mv : In mv mvs ->
  incl (loc_access (m_src mv) (m_sbits mv)) (move_accesses mvs) /\
  incl (loc_access (m_dst mv) (m_dbits mv)) (move_accesses mvs).
Proof.
  intros Hin. unfold move_accesses.
  split; intros x Hx; apply in_flat_map; exists mv; (split; [assumption|]); apply in_or_app; tauto.
Qed.

(* ---------------------------------------------------------------------------------------------- *)
(* main theorems *)

(* no hypothesis on the initial state is needed: le_bytes reduces every byte modulo 256 and registers may
   hold any integer *)
Theorem validate_bytes_sound : forall mvs allowed ms, validate_bytes mvs allowed ms = true ->
  forall b0 : bstate,
  forall mv, In mv mvs ->
  dst_ok mv (bread b0 (m_src mv) (m_sbits mv)) (bread (bexec ms b0) (m_dst mv) (m_dbits mv)).
Proof.
  intros mvs allowed ms H b0 mv Hin. unfold validate_bytes in H.
  apply andb_prop in H. destruct H as [Hv H].
  destruct (accesses ms) as [acc |] eqn:Hacc; [| discriminate].
  apply andb_prop in H. destruct H as [Hok H512].
  pose proof (xs_ok_of_checks _ Hok H512) as Hxs.
  set (xs := move_accesses mvs ++ acc) in *.
  pose proof (bexec_sim xs Hxs ms acc Hacc (incl_appr _ (incl_refl _)) (validate_wf _ _ _ Hv)
                b0 (cells b0) (R_init xs b0 Hxs)) as HR.
  destruct (validate_move_bits _ _ _ mv Hv Hin) as [Hs Hd].
  destruct (move_accesses_incl mvs mv Hin) as [Hisrc Hidst].
  apply (dst_ok_cong mv (cells b0 (m_src mv)) _ (exec ms (cells b0) (m_dst mv)) _ Hs Hd).
  - apply (read_sim xs); [exact Hxs | apply R_init; exact Hxs |].
    apply (incl_tran Hisrc). apply incl_appl. apply incl_refl.
  - apply (read_sim xs); [exact Hxs | exact HR |].
    apply (incl_tran Hidst). apply incl_appl. apply incl_refl.
  - apply (validate_sound_any mvs allowed ms Hv). exact Hin.
Qed.

(* the statement of the brief, with the (unneeded) byte-range hypothesis *)
Corollary validate_bytes_sound_bytes : forall mvs allowed ms, validate_bytes mvs allowed ms = true ->
  forall b0 : bstate, (forall a x, 0 <= b_mem b0 a x < 256) ->
  forall mv, In mv mvs ->
  dst_ok mv (bread b0 (m_src mv) (m_sbits mv)) (bread (bexec ms b0) (m_dst mv) (m_dbits mv)).
Proof. intros mvs allowed ms H b0 _. apply (validate_bytes_sound mvs allowed ms H). Qed.

(* frame: a byte outside every store range is unchanged *)
Lemma bexec_inst_frame_mem bs i a x :
  (forall o bits, In (a, o, bits) (inst_stores i) -> ~ (o <= x < o + bits / 8)) ->
  b_mem (bexec_inst bs i) a x = b_mem bs a x.
Proof.
  intros H. destruct i as [d s e n w wz | l1 l2 w wz].
  - destruct d as [g r | a' o]; cbn [bexec_inst]; cbv zeta; cbn [b_mem]; [reflexivity|].
    unfold mupd. destruct (Z.eqb_spec a a') as [-> | Hn]; [| reflexivity].
    apply bwrite_other. specialize (H o wz (or_introl eq_refl)). lia.
  - destruct l1, l2; reflexivity.
Qed.

Theorem validate_bytes_frame_mem : forall mvs allowed ms, validate_bytes mvs allowed ms = true ->
  forall b0 a x, (forall o bits, In (a, o, bits) (store_accesses ms) -> ~ (o <= x < o + bits / 8)) ->
  b_mem (bexec ms b0) a x = b_mem b0 a x.
Proof.
  intros mvs allowed ms _. induction ms as [| i ms IH]; intros b0 a x H; [reflexivity|].
  cbn [bexec fold_left]. change (b_mem (bexec ms (bexec_inst b0 i)) a x = b_mem b0 a x).
  unfold store_accesses in H. cbn [flat_map] in H.
  rewrite IH.
  - apply bexec_inst_frame_mem. intros o bits Hi. apply H. apply in_or_app. left. exact Hi.
  - intros o bits Hi. apply H. apply in_or_app. right. exact Hi.
Qed.

(* ---------------------------------------------------------------------------------------------- *)
(* non-vacuity *)

(* 1. stack source, sign-extending load into a scratch register, store to the outgoing stack *)
Definition mv_s16_i32 : move :=
  {| m_src := Mem 0 8; m_dst := Mem 1 16; m_sbits := 16; m_ssigned := true; m_dbits := 32; m_int := true |}.

Example exb1_load_sext_store :
  validate_bytes [mv_s16_i32] [Reg 0 0]
                 [IExt (Reg 0 0) (Mem 0 8) ES 16 32 64; IExt (Mem 1 16) (Reg 0 0) EZ 32 32 32] = true.
Proof. vm_compute. reflexivity. Qed.

(* ... executed on concrete bytes: the word 0xFFFE at args+8 becomes the dword 0xFFFFFFFE at out+16 *)
Example exb1_exec :
  let b0 := mkB (fun _ _ => 7) (fun a x => if (a =? 0) && (x =? 8) then 254 else if (a =? 0) && (x =? 9) then 255 else 1) in
  let b1 := bexec [IExt (Reg 0 0) (Mem 0 8) ES 16 32 64; IExt (Mem 1 16) (Reg 0 0) EZ 32 32 32] b0 in
  (bread b1 (Mem 1 16) 32, b_mem b1 1 15, b_mem b1 1 20) = (4294967294, 1, 1).
Proof. vm_compute. reflexivity. Qed.

(* 2. two 16-byte stores at offsets 8 and 16 for two 8-byte moves: the byte ranges overlap *)
Definition mv64b (s d : loc) : move :=
  {| m_src := s; m_dst := d; m_sbits := 64; m_ssigned := false; m_dbits := 64; m_int := false |}.

Example exb2_overlap_rejected :
  validate_bytes [mv64b (Reg 1 0) (Mem 1 8); mv64b (Reg 1 1) (Mem 1 16)] []
                 [IExt (Mem 1 8) (Reg 1 0) EZ 64 64 128; IExt (Mem 1 16) (Reg 1 1) EZ 64 64 128] = false.
Proof. vm_compute. reflexivity. Qed.

(* 3. what validate_bytes adds to validate: an argument that stays in its stack slot [out+16] needs no
   instruction, so the cell-level check does not see that the 16-byte store at [out+8] clobbers it *)
Example exb3_cells_accept :
  validate [mv64b (Reg 1 0) (Mem 1 8); mv64b (Mem 1 16) (Mem 1 16)] []
           [IExt (Mem 1 8) (Reg 1 0) EZ 64 64 128] = true.
Proof. vm_compute. reflexivity. Qed.

Example exb3_bytes_reject :
  validate_bytes [mv64b (Reg 1 0) (Mem 1 8); mv64b (Mem 1 16) (Mem 1 16)] []
                 [IExt (Mem 1 8) (Reg 1 0) EZ 64 64 128] = false.
Proof. vm_compute. reflexivity. Qed.

(* ... with an 8-byte store both accept *)
Example exb3_bytes_accept :
  validate_bytes [mv64b (Reg 1 0) (Mem 1 8); mv64b (Mem 1 16) (Mem 1 16)] []
                 [IExt (Mem 1 8) (Reg 1 0) EZ 64 64 64] = true.
Proof. vm_compute. reflexivity. Qed.

Print Assumptions validate_bytes_sound.
Print Assumptions validate_bytes_frame_mem.

(* C06 - convention-independent well-formedness of the argument locations computed by FuncDetail::init (model:
   FuncDetailModel.v): for EVERY target environment, EVERY calling convention id accepted by init_call_conv (including the
   light-call and 32-bit vectorcall conventions, for which no external ABI document exists) and EVERY signature,
     - no two argument values share a register (keyed by register group and id),
     - stack slots are disjoint and appear in argument order,
     - every stack slot lies inside the reported stack argument area.
   One finding: the Win64 / vectorcall strategy (positional 8-byte home slots) places an 80-bit float (type id 44, 10 bytes)
   that does not get a vector register into its 8-byte slot; it overlaps the next slot / leaves the reported area
   (machine-checked counterexamples at the end of the file).  The theorem therefore carries the guard [f80_guard]
   (which is vacuous for every convention that does not use the Win64 / vectorcall strategy and for every signature
   without a type 44 argument). *)
From Coq Require Import ZArith List Bool Lia.
Import ListNotations.
From Verif Require Import CallConv.FuncDetailModel.
Local Open Scope Z_scope.

(* ------------------------------------------------------------------ statement *)
(* bytes a stack-passed value occupies: a pointer when passed by reference, else the size of its type *)
Definition val_bytes (a : arch) (v : fval) : Z := if fv_ind v then reg_size a else size_of (fv_ty v).
Definition reg_vals (d : fdetail) : list fval := filter (fun v => fv_kind v =? 1) (concat (fd_args d)).
Definition stack_vals (d : fdetail) : list fval := filter (fun v => fv_kind v =? 2) (concat (fd_args d)).
Definition reg_key (v : fval) : Z * Z := (rt_group (fv_rtype v), fv_rid v).

Definition wf_locs (d : fdetail) : Prop :=
  NoDup (map reg_key (reg_vals d)) /\
  (forall i j v w, (i < j)%nat -> nth_error (stack_vals d) i = Some v -> nth_error (stack_vals d) j = Some w ->
     fv_off v + val_bytes (cc_arch (fd_cc d)) v <= fv_off w) /\
  (forall v, In v (stack_vals d) -> 0 <= fv_off v /\ fv_off v + val_bytes (cc_arch (fd_cc d)) v <= fd_stack d).

(* ------------------------------------------------------------------ lists *)
Lemma NoDup_app_intro {A} (l1 l2 : list A) :
  NoDup l1 -> NoDup l2 -> (forall x, In x l1 -> In x l2 -> False) -> NoDup (l1 ++ l2).
Proof.
  induction l1 as [|a l1 IH]; intros H1 H2 D; cbn [app]; [exact H2|].
  inversion H1 as [|? ? Ha H1']; subst. constructor.
  - intros Hin. apply in_app_or in Hin. destruct Hin as [Hin|Hin]; [exact (Ha Hin)|].
    apply (D a); [left; reflexivity | exact Hin].
  - apply IH; [exact H1' | exact H2|]. intros x X1 X2. apply (D x); [right; exact X1 | exact X2].
Qed.

Lemma FOP_app {A} (R : A -> A -> Prop) (l1 l2 : list A) :
  ForallOrdPairs R l1 -> ForallOrdPairs R l2 -> (forall a b, In a l1 -> In b l2 -> R a b) -> ForallOrdPairs R (l1 ++ l2).
Proof.
  induction 1 as [|a l1 Ha H1 IH]; intros H2 D; cbn [app]; [exact H2|]. constructor.
  - apply Forall_app. split; [exact Ha|]. apply Forall_forall. intros b Hb. apply D; [left; reflexivity | exact Hb].
  - apply IH; [exact H2|]. intros x y X Y. apply D; [right; exact X | exact Y].
Qed.

Lemma FOP_nth {A} (R : A -> A -> Prop) (l : list A) : ForallOrdPairs R l ->
  forall i j v w, (i < j)%nat -> nth_error l i = Some v -> nth_error l j = Some w -> R v w.
Proof.
  induction 1 as [|a l Ha H IH]; intros i j v w Hij Hi Hj.
  - destruct i; discriminate Hi.
  - destruct j as [|j]; [lia|]. cbn [nth_error] in Hj. destruct i as [|i].
    + cbn [nth_error] in Hi. injection Hi as <-. rewrite Forall_forall in Ha. apply Ha. eapply nth_error_In. exact Hj.
    + cbn [nth_error] in Hi. apply (IH i j); [lia | exact Hi | exact Hj].
Qed.

(* ------------------------------------------------------------------ sizes, register groups, order look-ups *)
Lemma size_of_nonneg t : 0 <= size_of t.
Proof. unfold size_of. repeat match goal with |- context [if ?b then _ else _] => destruct b end; lia. Qed.

Lemma reg_size_bounds a : 0 < reg_size a <= 8.
Proof. destruct a; unfold reg_size, is_32bit; lia. Qed.

Lemma size_small_im t : (ty_is_int t || ty_is_mmx t) = true -> size_of t <= 8.
Proof.
  unfold ty_is_int, ty_is_mmx, between. rewrite orb_true_iff, !andb_true_iff, !Z.leb_le. intros H.
  assert (E : t = 32 \/ t = 33 \/ t = 34 \/ t = 35 \/ t = 36 \/ t = 37 \/ t = 38 \/ t = 39 \/ t = 40 \/ t = 41 \/ t = 49 \/ t = 50) by lia.
  repeat (destruct E as [->|E]; [vm_compute; discriminate|]). subst t. vm_compute. discriminate.
Qed.

Lemma size_small_f t : ty_is_float t = true -> t <> 44 -> size_of t <= 8.
Proof.
  unfold ty_is_float, between. rewrite andb_true_iff, !Z.leb_le. intros H N.
  assert (E : t = 42 \/ t = 43) by lia. destruct E as [->| ->]; vm_compute; discriminate.
Qed.

Lemma group_gp t : rt_group (if t <=? 39 then RT_Gp32 else RT_Gp64) = 0.
Proof. destruct (t <=? 39); reflexivity. Qed.

Lemma group_gpb (b : bool) : rt_group (if b then RT_Gp32 else RT_Gp64) = 0.
Proof. destruct b; reflexivity. Qed.

Lemma group_x86vec t : rt_group (x86_vec_regtype t) = 1.
Proof. unfold x86_vec_regtype. destruct (t <=? 80); [reflexivity|]. destruct (t <=? 90); reflexivity. Qed.

Lemma group_a64vec t : a64_vec_regtype t <> 0 -> rt_group (a64_vec_regtype t) = 1.
Proof.
  unfold a64_vec_regtype.
  repeat match goal with |- context [if ?b then _ else _] => destruct b end; intros H; try reflexivity. contradiction H. reflexivity.
Qed.

(* a look-up that does not give the "no register" sentinel reads an entry of the list *)
Lemma order_at_hit l i : order_at l i <> 255 -> (Z.to_nat i < length l)%nat /\ order_at l i = nth (Z.to_nat i) l 255.
Proof.
  unfold order_at. destruct (i <? 16); [|intros H; contradiction H; reflexivity]. intros H. split; [|reflexivity].
  destruct (Nat.lt_ge_cases (Z.to_nat i) (length l)) as [L|L]; [exact L|]. contradiction H. apply nth_overflow. exact L.
Qed.

Lemma order_at_in l i : (length l <= 16)%nat -> Forall (fun r => 0 <= r < 255) l -> (i < length l)%nat ->
  order_at l (Z.of_nat i) <> 255.
Proof.
  intros L F I. unfold order_at. destruct (Z.ltb_spec (Z.of_nat i) 16) as [_|G]; [|lia]. rewrite Nat2Z.id.
  rewrite Forall_forall in F. specialize (F (nth i l 255) (nth_In _ _ I)). lia.
Qed.

Lemma align_up_ge x : x <= align_up x 8.
Proof. unfold align_up. Z.div_mod_to_equations. lia. Qed.

(* ------------------------------------------------------------------ the invariant shared by the three strategies *)
Definition isreg (v : fval) : bool := fv_kind v =? 1.
Definition isstk (v : fval) : bool := fv_kind v =? 2.

Section Good.
Variable c : callconv.
Hypothesis Hgp : NoDup (cc_ogp c).
Hypothesis Hvec : NoDup (cc_ovec c).

(* a register value produced between the states s and s' holds the entry k of the passed order of its group,
   for a k in the window [counter s, counter s') *)
Definition key_ok (s s' : xst) (v : fval) : Prop :=
  (rt_group (fv_rtype v) = 0 /\
   exists k, x_gp s <= k < x_gp s' /\ (Z.to_nat k < length (cc_ogp c))%nat /\ fv_rid v = nth (Z.to_nat k) (cc_ogp c) 255) \/
  (rt_group (fv_rtype v) = 1 /\
   exists k, x_vec s <= k < x_vec s' /\ (Z.to_nat k < length (cc_ovec c))%nat /\ fv_rid v = nth (Z.to_nat k) (cc_ovec c) 255).

Definition stk_ok (s s' : xst) (v : fval) : Prop :=
  x_off s <= fv_off v /\ fv_off v + val_bytes (cc_arch c) v <= x_off s'.
Definition stk_le (v w : fval) : Prop := fv_off v + val_bytes (cc_arch c) v <= fv_off w.

Record Good (s : xst) (vs : list fval) (s' : xst) : Prop := mkGood {
  g_gp : 0 <= x_gp s <= x_gp s';
  g_vec : 0 <= x_vec s <= x_vec s';
  g_off : x_off s <= x_off s';
  g_key : forall v, In v vs -> fv_kind v = 1 -> key_ok s s' v;
  g_nodup : NoDup (map reg_key (filter isreg vs));
  g_stk : forall v, In v vs -> fv_kind v = 2 -> stk_ok s s' v;
  g_ord : ForallOrdPairs stk_le (filter isstk vs) }.

Lemma key_ok_mono s s1 s1' s' v : key_ok s1 s1' v ->
  x_gp s <= x_gp s1 -> x_gp s1' <= x_gp s' -> x_vec s <= x_vec s1 -> x_vec s1' <= x_vec s' -> key_ok s s' v.
Proof.
  intros [[G (k & K1 & K2 & K3)]|[G (k & K1 & K2 & K3)]] ? ? ? ?; [left|right];
    (split; [exact G|]); exists k; (split; [lia|]); split; assumption.
Qed.

Lemma key_clash s s1 s2 v w : 0 <= x_gp s -> 0 <= x_vec s ->
  key_ok s s1 v -> key_ok s1 s2 w -> reg_key v = reg_key w -> False.
Proof.
  intros P1 P2 [[G (k & K1 & K2 & K3)]|[G (k & K1 & K2 & K3)]] [[G' (k' & K1' & K2' & K3')]|[G' (k' & K1' & K2' & K3')]] E;
    unfold reg_key in E; injection E as E1 E2.
  - assert (Z.to_nat k = Z.to_nat k').
    { apply (proj1 (NoDup_nth (cc_ogp c) 255) Hgp); [exact K2 | exact K2' | congruence]. }
    lia.
  - lia.
  - lia.
  - assert (Z.to_nat k = Z.to_nat k').
    { apply (proj1 (NoDup_nth (cc_ovec c) 255) Hvec); [exact K2 | exact K2' | congruence]. }
    lia.
Qed.

Lemma Good_nil s s' : 0 <= x_gp s <= x_gp s' -> 0 <= x_vec s <= x_vec s' -> x_off s <= x_off s' -> Good s [] s'.
Proof.
  intros A B C. constructor; try assumption.
  - intros v [].
  - cbn. constructor.
  - intros v [].
  - cbn. constructor.
Qed.

Lemma Good_single s v s' : 0 <= x_gp s <= x_gp s' -> 0 <= x_vec s <= x_vec s' -> x_off s <= x_off s' ->
  (fv_kind v = 1 -> key_ok s s' v) -> (fv_kind v = 2 -> stk_ok s s' v) -> Good s [v] s'.
Proof.
  intros A B C K S. constructor; try assumption.
  - intros w [<-|[]]. exact K.
  - cbn [filter]. destruct (isreg v); cbn [map]; [|constructor]. constructor; [intros []|constructor].
  - intros w [<-|[]]. exact S.
  - cbn [filter]. destruct (isstk v); repeat constructor.
Qed.

Lemma Good_app s vs1 s1 vs2 s2 : Good s vs1 s1 -> Good s1 vs2 s2 -> Good s (vs1 ++ vs2) s2.
Proof.
  intros [A1 A2 A3 A4 A5 A6 A7] [B1 B2 B3 B4 B5 B6 B7]. constructor; try lia.
  - intros v Hin Hk. apply in_app_or in Hin. destruct Hin as [Hin|Hin].
    + eapply key_ok_mono; [apply A4; assumption | lia | lia | lia | lia].
    + eapply key_ok_mono; [apply B4; assumption | lia | lia | lia | lia].
  - rewrite filter_app, map_app. apply NoDup_app_intro; [exact A5 | exact B5|].
    intros x H1 H2. apply in_map_iff in H1. destruct H1 as (v & Ev & Hv). apply in_map_iff in H2. destruct H2 as (w & Ew & Hw).
    apply filter_In in Hv. destruct Hv as [Hv Kv]. apply filter_In in Hw. destruct Hw as [Hw Kw].
    unfold isreg in Kv, Kw. apply Z.eqb_eq in Kv. apply Z.eqb_eq in Kw.
    apply (key_clash s s1 s2 v w); [lia | lia | apply A4; assumption | apply B4; assumption | congruence].
  - intros v Hin Hk. apply in_app_or in Hin. destruct Hin as [Hin|Hin].
    + specialize (A6 v Hin Hk). unfold stk_ok in *. lia.
    + specialize (B6 v Hin Hk). unfold stk_ok in *. lia.
  - rewrite filter_app. apply FOP_app; [exact A7 | exact B7|].
    intros v w Hv Hw. apply filter_In in Hv. destruct Hv as [Hv Kv]. apply filter_In in Hw. destruct Hw as [Hw Kw].
    unfold isstk in Kv, Kw. apply Z.eqb_eq in Kv. apply Z.eqb_eq in Kw.
    specialize (A6 v Hv Kv). specialize (B6 w Hw Kw). unfold stk_ok, stk_le in *. lia.
Qed.

(* what the invariant gives for a complete argument list *)
Lemma Good_final s ps s' rets stk : Good s (concat ps) s' -> 0 <= x_off s -> x_off s' <= stk ->
  wf_locs (mkFD c rets ps stk).
Proof.
  intros [A1 A2 A3 A4 A5 A6 A7] P Q. unfold wf_locs, reg_vals, stack_vals. cbn [fd_args fd_cc fd_stack].
  split; [exact A5|]. split.
  - intros i j v w Hij Hi Hj. exact (FOP_nth _ _ A7 i j v w Hij Hi Hj).
  - intros v Hv. apply filter_In in Hv. destruct Hv as [Hv Kv]. apply Z.eqb_eq in Kv.
    specialize (A6 v Hv Kv). unfold stk_ok in A6. lia.
Qed.

(* a look-up hit at the current counter is a key of the window [counter, counter + 1) *)
Lemma hit_gp s s' v : 0 <= x_gp s -> x_gp s' = x_gp s + 1 -> rt_group (fv_rtype v) = 0 ->
  order_at (cc_ogp c) (x_gp s) <> 255 -> fv_rid v = order_at (cc_ogp c) (x_gp s) -> key_ok s s' v.
Proof.
  intros P E G H R. destruct (order_at_hit _ _ H) as [L Q]. left. split; [exact G|].
  exists (x_gp s). split; [lia|]. split; [exact L | congruence].
Qed.

Lemma hit_vec s s' v : 0 <= x_vec s -> x_vec s' = x_vec s + 1 -> rt_group (fv_rtype v) = 1 ->
  order_at (cc_ovec c) (x_vec s) <> 255 -> fv_rid v = order_at (cc_ovec c) (x_vec s) -> key_ok s s' v.
Proof.
  intros P E G H R. destruct (order_at_hit _ _ H) as [L Q]. right. split; [exact G|].
  exists (x_vec s). split; [lia|]. split; [exact L | congruence].
Qed.

End Good.

(* ------------------------------------------------------------------ x86, default strategy *)
Section Default.
Variable c : callconv.
Hypothesis Hgp : NoDup (cc_ogp c).
Hypothesis Hvec : NoDup (cc_ovec c).

Lemma default_value_good va s t v s' : 0 <= x_gp s -> 0 <= x_vec s ->
  x86_default_value c va s t = (v, s') -> Good c s [v] s'.
Proof.
  intros P1 P2. unfold x86_default_value. cbv zeta.
  pose proof (size_of_nonneg t) as Sz. pose proof (reg_size_bounds (cc_arch c)) as Rs.
  destruct (ty_is_int t).
  - destruct (Z.eqb_spec (order_at (cc_ogp c) (x_gp s)) 255) as [E|E]; cbn [negb]; intros H; injection H as <- <-.
    + apply Good_single; cbn [x_gp x_vec x_off]; try lia.
      * cbn. discriminate.
      * intros _. unfold stk_ok, val_bytes. cbn [fv_off fv_ind fv_ty fv_stack fv_stack_ind x_off]. lia.
    + apply Good_single; cbn [x_gp x_vec x_off]; try lia.
      * intros _. apply hit_gp; cbn [x_gp fv_rtype fv_reg fv_rid]; try assumption; try reflexivity. apply group_gp.
      * cbn. discriminate.
  - destruct (ty_is_float t || ty_is_vec t).
    + set (r := if ty_is_float t then _ else _).
      assert (Hr : r = 255 \/ r = order_at (cc_ovec c) (x_vec s)).
      { subst r. destruct (ty_is_float t); [destruct (has_flag _ _) | destruct (_ && _)]; auto. }
      clearbody r.
      destruct (Z.eqb_spec r 255) as [E|E]; cbn [negb]; intros H; injection H as <- <-.
      * apply Good_single; cbn [x_gp x_vec x_off]; try lia.
        -- cbn. discriminate.
        -- intros _. unfold stk_ok, val_bytes. cbn [fv_off fv_ind fv_ty fv_stack fv_stack_ind x_off]. lia.
      * destruct Hr as [Hr|Hr]; [contradiction|].
        apply Good_single; cbn [x_gp x_vec x_off]; try lia.
        -- intros _. apply hit_vec; cbn [x_vec fv_rtype fv_reg fv_rid]; try assumption; try reflexivity; try congruence.
           apply group_x86vec.
        -- cbn. discriminate.
    + intros H; injection H as <- <-. apply Good_single; try lia; cbn; discriminate.
Qed.

Lemma default_pack_good va ts : forall s vs s', 0 <= x_gp s -> 0 <= x_vec s ->
  x86_default_pack c va s ts = (vs, s') -> Good c s vs s'.
Proof.
  induction ts as [|t r IH]; intros s vs s' P1 P2; cbn [x86_default_pack].
  - intros H; injection H as <- <-. apply Good_nil; lia.
  - destruct (t =? 0); [intros H; injection H as <- <-; apply Good_nil; lia|].
    destruct (x86_default_value c va s t) as [v s1] eqn:EV.
    destruct (x86_default_pack c va s1 r) as [vs1 s2] eqn:EP. intros H; injection H as <- <-.
    pose proof (default_value_good _ _ _ _ _ P1 P2 EV) as G1.
    change (v :: vs1) with ([v] ++ vs1). apply (Good_app c Hgp Hvec s [v] s1 vs1 s2 G1).
    destruct G1. apply (IH s1); [lia | lia | exact EP].
Qed.

Lemma default_args_good va ts : forall s ps s', 0 <= x_gp s -> 0 <= x_vec s ->
  x86_default_args c va s ts = (ps, s') -> Good c s (concat ps) s'.
Proof.
  induction ts as [|t r IH]; intros s ps s' P1 P2; cbn [x86_default_args].
  - intros H; injection H as <- <-. apply Good_nil; lia.
  - destruct (x86_default_pack c va s (x86_unpack (cc_arch c) t)) as [p s1] eqn:EP.
    destruct (x86_default_args c va s1 r) as [ps1 s2] eqn:EA. intros H; injection H as <- <-.
    pose proof (default_pack_good _ _ _ _ _ P1 P2 EP) as G1.
    cbn [concat]. apply (Good_app c Hgp Hvec s p s1 (concat ps1) s2 G1).
    destruct G1. apply (IH s1); [lia | lia | exact EA].
Qed.

Theorem locations_disjoint_default va args ps st rets : 0 <= cc_spill c ->
  x86_default_args c va (mkXst 0 0 (cc_spill c)) args = (ps, st) -> wf_locs (mkFD c rets ps (x_off st)).
Proof.
  intros Sp H. apply (Good_final c (mkXst 0 0 (cc_spill c)) ps st).
  - apply (default_args_good va args); cbn [x_gp x_vec]; [lia | lia | exact H].
  - exact Sp.
  - lia.
Qed.

(* ------------------------------------------------------------------ AArch64 *)
Lemma a64_stack_good minsz s t v s' : 0 <= x_gp s -> 0 <= x_vec s -> a64_stack minsz s t = (v, s') -> Good c s [v] s'.
Proof.
  intros P1 P2. unfold a64_stack. cbv zeta. intros H; injection H as <- <-.
  pose proof (size_of_nonneg t) as Sz. pose proof (align_up_ge (x_off s)) as Al.
  set (off := if 8 <=? Z.max (size_of t) minsz then align_up (x_off s) 8 else x_off s).
  assert (Ho : x_off s <= off) by (subst off; destruct (8 <=? _); lia). clearbody off.
  apply Good_single; cbn [x_gp x_vec x_off]; try lia.
  - cbn. discriminate.
  - intros _. unfold stk_ok, val_bytes. cbn [fv_off fv_ind fv_ty fv_stack fv_stack_ind x_off]. lia.
Qed.

Lemma a64_value_good minsz s t v s' : 0 <= x_gp s -> 0 <= x_vec s ->
  a64_value c minsz s t = inl (v, s') -> Good c s [v] s'.
Proof.
  intros P1 P2. unfold a64_value.
  destruct (ty_is_int t).
  - destruct (Z.eqb_spec (order_at (cc_ogp c) (x_gp s)) 255) as [E|E]; cbn [negb]; intros H.
    + apply (a64_stack_good minsz s t); [assumption | assumption | congruence].
    + injection H as <- <-. apply Good_single; cbn [x_gp x_vec x_off]; try lia.
      * intros _. apply hit_gp; cbn [x_gp fv_rtype fv_reg fv_rid]; try assumption; try reflexivity. apply group_gp.
      * cbn. discriminate.
  - destruct (ty_is_float t || ty_is_vec t).
    + destruct (Z.eqb_spec (order_at (cc_ovec c) (x_vec s)) 255) as [E|E]; cbn [negb]; intros H.
      * apply (a64_stack_good minsz s t); [assumption | assumption | congruence].
      * destruct (Z.eqb_spec (a64_vec_regtype t) 0) as [Z0|Z0]; [discriminate H|]. injection H as <- <-.
        apply Good_single; cbn [x_gp x_vec x_off]; try lia.
        -- intros _. apply hit_vec; cbn [x_vec fv_rtype fv_reg fv_rid]; try assumption; try reflexivity.
           apply group_a64vec. exact Z0.
        -- cbn. discriminate.
    + intros H; injection H as <- <-. apply Good_single; try lia; cbn; discriminate.
Qed.

Lemma a64_args_good minsz ts : forall s ps s', 0 <= x_gp s -> 0 <= x_vec s ->
  a64_args c minsz s ts = inl (ps, s') -> Good c s (concat ps) s'.
Proof.
  induction ts as [|t r IH]; intros s ps s' P1 P2; cbn [a64_args].
  - intros H; injection H as <- <-. apply Good_nil; lia.
  - destruct (a64_value c minsz s t) as [[v s1]|] eqn:EV; [|discriminate].
    destruct (a64_args c minsz s1 r) as [[ps1 s2]|] eqn:EA; [|discriminate]. intros H; injection H as <- <-.
    pose proof (a64_value_good _ _ _ _ _ P1 P2 EV) as G1. cbn [concat].
    assert (G1' : Good c s (if t =? 0 then [] else [v]) s1).
    { destruct (t =? 0); [|exact G1]. destruct G1. apply Good_nil; lia. }
    apply (Good_app c Hgp Hvec s _ s1 (concat ps1) s2 G1').
    destruct G1. apply (IH s1); [lia | lia | exact EA].
Qed.

Theorem locations_disjoint_a64 minsz args ps st rets :
  a64_args c minsz (mkXst 0 0 0) args = inl (ps, st) -> wf_locs (mkFD c rets ps (align_up (x_off st) 8)).
Proof.
  intros H. apply (Good_final c (mkXst 0 0 0) ps st).
  - apply (a64_args_good minsz args); cbn [x_gp x_vec]; [lia | lia | exact H].
  - cbn. lia.
  - apply align_up_ge.
Qed.

(* ------------------------------------------------------------------ x86-64, Win64 / vectorcall strategy *)
(* position i owns the GP entry i, the vector entry i and the home slot [8 i, 8 i + 8) *)
Definition pos_st (i : Z) : xst := mkXst i i (8 * i).

Lemma win64_value_good i t : 0 <= i ->
  Good c (pos_st i) [win64_value c i t] (pos_st (i + 1)).
Proof.
  intros P. unfold win64_value, pos_st. cbv zeta.
  pose proof (size_of_nonneg t) as Sz. pose proof (reg_size_bounds (cc_arch c)) as Rs.
  destruct (ty_is_int t || ty_is_mmx t) eqn:IM.
  - pose proof (size_small_im t IM) as S8.
    destruct (Z.eqb_spec (order_at (cc_ogp c) i) 255) as [E|E]; cbn [negb].
    + apply Good_single; cbn [x_gp x_vec x_off]; try lia.
      * cbn. discriminate.
      * intros _. unfold stk_ok, val_bytes. cbn [fv_off fv_ind fv_ty fv_stack fv_stack_ind x_off]. lia.
    + apply Good_single; cbn [x_gp x_vec x_off]; try lia.
      * intros _. apply hit_gp; cbn [x_gp fv_rtype fv_reg fv_rid]; try assumption; try reflexivity. apply group_gpb.
      * cbn. discriminate.
  - destruct (ty_is_float t || ty_is_vec t) eqn:FV.
    + assert (Stack_f : ty_is_float t && (size_of t <=? 8) = true ->
                        Good c (mkXst i i (8 * i)) [fv_stack t (8 * i)] (mkXst (i + 1) (i + 1) (8 * (i + 1)))).
      { intros Fl. apply andb_prop in Fl. destruct Fl as [_ S8]. apply Z.leb_le in S8.
        apply Good_single; cbn [x_gp x_vec x_off]; try lia.
        - cbn. discriminate.
        - intros _. unfold stk_ok, val_bytes. cbn [fv_off fv_ind fv_ty fv_stack fv_stack_ind x_off]. lia. }
      assert (Ind : Good c (mkXst i i (8 * i))
                      [if negb (order_at (cc_ogp c) i =? 255) then fv_reg_ind t RT_Gp64 (order_at (cc_ogp c) i)
                       else fv_stack_ind t (8 * i)] (mkXst (i + 1) (i + 1) (8 * (i + 1)))).
      { destruct (Z.eqb_spec (order_at (cc_ogp c) i) 255) as [E|E]; cbn [negb].
        - apply Good_single; cbn [x_gp x_vec x_off]; try lia.
          + cbn. discriminate.
          + intros _. unfold stk_ok, val_bytes. cbn [fv_off fv_ind fv_ty fv_stack fv_stack_ind x_off]. lia.
        - apply Good_single; cbn [x_gp x_vec x_off]; try lia.
          + intros _. apply hit_gp; cbn [x_gp fv_rtype fv_reg_ind fv_rid]; try assumption; reflexivity.
          + cbn. discriminate. }
      assert (Reg : order_at (cc_ovec c) i <> 255 ->
                    Good c (mkXst i i (8 * i)) [fv_reg t (x86_vec_regtype t) (order_at (cc_ovec c) i)]
                         (mkXst (i + 1) (i + 1) (8 * (i + 1)))).
      { intros E. apply Good_single; cbn [x_gp x_vec x_off]; try lia.
        - intros _. apply hit_vec; cbn [x_vec fv_rtype fv_reg fv_rid]; try assumption; try reflexivity. apply group_x86vec.
        - cbn. discriminate. }
      destruct (Z.eqb_spec (order_at (cc_ovec c) i) 255) as [E|E]; cbn [negb andb].
      * destruct (ty_is_float t && (size_of t <=? 8)) eqn:Fl; [apply Stack_f; reflexivity | exact Ind].
      * destruct (ty_is_float t && (size_of t <=? 8)) eqn:Fl; cbn [orb].
        -- apply Reg. exact E.
        -- destruct (cc_strategy c =? 2); destruct (ty_is_float t); cbn [andb negb];
             first [apply Reg; exact E | exact Ind | (rewrite Fl; exact Ind)].
    + apply Good_single; cbn [x_gp x_vec x_off]; try lia; cbn; discriminate.
Qed.

Lemma win64_args_good ts : forall i, 0 <= i ->
  Good c (pos_st i) (concat (win64_args c i ts)) (pos_st (i + Z.of_nat (length ts))).
Proof.
  induction ts as [|t r IH]; intros i P; cbn [win64_args concat].
  - apply Good_nil; unfold pos_st; cbn [x_gp x_vec x_off length]; lia.
  - apply (Good_app c Hgp Hvec (pos_st i) _ (pos_st (i + 1))).
    + destruct (Z.eqb_spec t 0) as [E|E].
      * apply Good_nil; unfold pos_st; cbn [x_gp x_vec x_off]; lia.
      * apply win64_value_good; exact P.
    + replace (i + Z.of_nat (length (t :: r))) with (i + 1 + Z.of_nat (length r)) by (cbn [length]; lia).
      apply IH; lia.
Qed.

Theorem locations_disjoint_win64 args rets :
  wf_locs (mkFD c rets (win64_args c 0 args) (8 * Z.max (Z.of_nat (length args)) 4)).
Proof.
  apply (Good_final c (pos_st 0) _ (pos_st (0 + Z.of_nat (length args)))).
  - apply win64_args_good; lia.
  - cbn. lia.
  - unfold pos_st. cbn [x_off]. lia.
Qed.

End Default.

(* ------------------------------------------------------------------ every convention init_call_conv produces is well formed *)
Definition ord_ok (l : list Z) : Prop := NoDup l /\ (length l <= 16)%nat /\ Forall (fun r => 0 <= r < 255) l.
Record cc_wf (c : callconv) : Prop := mkWf {
  wf_gp : ord_ok (cc_ogp c);
  wf_vec : ord_ok (cc_ovec c);
  wf_spill : 0 <= cc_spill c }.

Fixpoint nodupb (l : list Z) : bool :=
  match l with [] => true | x :: r => negb (existsb (Z.eqb x) r) && nodupb r end.
Definition ord_okb (l : list Z) : bool :=
  nodupb l && Nat.leb (length l) 16 && forallb (fun r => (0 <=? r) && (r <? 255)) l.
Definition cc_wfb (c : callconv) : bool := ord_okb (cc_ogp c) && ord_okb (cc_ovec c) && (0 <=? cc_spill c).

Lemma nodupb_sound l : nodupb l = true -> NoDup l.
Proof.
  induction l as [|x r IH]; cbn [nodupb]; intros H; [constructor|].
  apply andb_prop in H. destruct H as [H1 H2]. constructor; [|apply IH; exact H2].
  intros Hin. apply negb_true_iff in H1. assert (existsb (Z.eqb x) r = true); [|congruence].
  apply existsb_exists. exists x. split; [exact Hin | apply Z.eqb_refl].
Qed.

Lemma ord_okb_sound l : ord_okb l = true -> ord_ok l.
Proof.
  unfold ord_okb, ord_ok. intros H. apply andb_prop in H. destruct H as [H H3]. apply andb_prop in H. destruct H as [H1 H2].
  split; [apply nodupb_sound; exact H1|]. split; [apply Nat.leb_le; exact H2|].
  apply Forall_forall. intros r Hr. rewrite forallb_forall in H3. specialize (H3 r Hr).
  apply andb_prop in H3. destruct H3 as [A B]. apply Z.leb_le in A. apply Z.ltb_lt in B. lia.
Qed.

Lemma cc_wfb_sound c : cc_wfb c = true -> cc_wf c.
Proof.
  unfold cc_wfb. intros H. apply andb_prop in H. destruct H as [H H3]. apply andb_prop in H. destruct H as [H1 H2].
  constructor; [apply ord_okb_sound; exact H1 | apply ord_okb_sound; exact H2 | apply Z.leb_le; exact H3].
Qed.

(* the positional (Win64 / vectorcall) strategy is used by the x86-64 conventions 33 (Win64) and 3 (vectorcall) only *)
Definition strat_okb (e : env) (c : callconv) : bool :=
  implb ((cc_strategy c =? 1) || (cc_strategy c =? 2))
        (match e_arch e with X64 => true | _ => false end && ((cc_id c =? 33) || (cc_id c =? 3))).

Lemma init_call_conv_chk0 e id :
  match init_call_conv e id with inl c => cc_wfb c && strat_okb e c = true | inr _ => True end.
Proof.
  unfold init_call_conv, x86_init_call_conv, a64_init_call_conv, strat_okb, e_darwin. destruct e as [ar pl ab].
  cbn [e_arch e_abi]. destruct (ab =? 2); destruct ar; cbn [is_32bit]; cbv zeta;
    repeat match goal with
           | |- match (if ?b then _ else _) with _ => _ end => destruct b
           end; try exact I; vm_compute; reflexivity.
Qed.

Lemma init_call_conv_chk e id c : init_call_conv e id = inl c -> cc_wfb c && strat_okb e c = true.
Proof. intros H. pose proof (init_call_conv_chk0 e id) as K. rewrite H in K. exact K. Qed.

Theorem init_call_conv_wf e id c : init_call_conv e id = inl c -> cc_wf c.
Proof.
  intros H. apply init_call_conv_chk in H. apply andb_prop in H. apply cc_wfb_sound. exact (proj1 H).
Qed.

Theorem strategy_cases e id c : init_call_conv e id = inl c -> cc_strategy c = 1 \/ cc_strategy c = 2 ->
  e_arch e = X64 /\ (cc_id c = 33 \/ cc_id c = 3).
Proof.
  intros H S. apply init_call_conv_chk in H. apply andb_prop in H. destruct H as [_ H]. unfold strat_okb in H.
  assert (T : (cc_strategy c =? 1) || (cc_strategy c =? 2) = true).
  { apply orb_true_iff. destruct S as [S|S]; [left|right]; apply Z.eqb_eq; exact S. }
  rewrite T in H. cbn [implb] in H. apply andb_prop in H. destruct H as [A B]. split.
  - destruct (e_arch e); [discriminate A | reflexivity | discriminate A].
  - apply orb_true_iff in B. destruct B as [B|B]; [left|right]; apply Z.eqb_eq; exact B.
Qed.

(* ------------------------------------------------------------------ FuncDetail::init *)
(* (round 4) the model describes the code with fixes/C06-win64-f80-by-ref.patch: an 80-bit float is passed by reference under the
   positional strategy, so the former guard on kFloat80 (a 10-byte value in an 8-byte home slot) is gone *)
Lemma x86_init_func_detail_wf c s ret args d : cc_wf c ->
  x86_init_func_detail c s ret args = R_ok d -> wf_locs d.
Proof.
  intros [[G1 _] [V1 _] Sp]. unfold x86_init_func_detail.
  destruct (if ret =? 0 then _ else _) as [rets|]; [|discriminate].
  destruct ((cc_strategy c =? 1) || (cc_strategy c =? 2)) eqn:S.
  - intros H; injection H as <-. apply locations_disjoint_win64; [exact G1 | exact V1].
  - destruct (x86_default_args c (sig_has_va s) (mkXst 0 0 (cc_spill c)) args) as [ps st] eqn:DA.
    intros H; injection H as <-. eapply locations_disjoint_default; [exact G1 | exact V1 | exact Sp | exact DA].
Qed.

Lemma a64_init_func_detail_wf c ret args d : cc_wf c -> a64_init_func_detail c ret args = R_ok d -> wf_locs d.
Proof.
  intros [[G1 _] [V1 _] Sp]. unfold a64_init_func_detail.
  destruct (if ret =? 0 then _ else _) as [rets|]; [|discriminate].
  destruct ((cc_strategy c =? 0) || (cc_strategy c =? 3)); [|discriminate].
  destruct (a64_args c _ (mkXst 0 0 0) args) as [[ps st]|] eqn:AA; [|discriminate].
  intros H; injection H as <-. eapply locations_disjoint_a64; [exact G1 | exact V1 | exact AA].
Qed.

Theorem func_detail_init_wf e s d : func_detail_init e s = R_ok d -> wf_locs d.
Proof.
  intros H. unfold func_detail_init in H.
  destruct (32 <? Z.of_nat (length (s_args s))); [discriminate H|].
  destruct (init_call_conv e (s_cc s)) as [c|err] eqn:HC; [|discriminate H].
  pose proof (init_call_conv_wf _ _ _ HC) as W. cbv zeta in H.
  destruct (cc_arch c); [exact (x86_init_func_detail_wf _ _ _ _ _ W H) | exact (x86_init_func_detail_wf _ _ _ _ _ W H)|].
  exact (a64_init_func_detail_wf _ _ _ _ W H).
Qed.

(* the theorem, spelled out: EVERY environment, EVERY convention id, EVERY signature - no guard *)
Theorem locations_disjoint : forall e s d, func_detail_init e s = R_ok d ->
  NoDup (map reg_key (reg_vals d)) /\
  (forall i j v w, (i < j)%nat -> nth_error (stack_vals d) i = Some v -> nth_error (stack_vals d) j = Some w ->
     fv_off v + val_bytes (cc_arch (fd_cc d)) v <= fv_off w) /\
  (forall v, In v (stack_vals d) -> 0 <= fv_off v /\ fv_off v + val_bytes (cc_arch (fd_cc d)) v <= fd_stack d).
Proof. intros e s d H. exact (func_detail_init_wf e s d H). Qed.

Print Assumptions locations_disjoint.
Print Assumptions locations_disjoint_default.
Print Assumptions locations_disjoint_win64.
Print Assumptions locations_disjoint_a64.
Print Assumptions init_call_conv_wf.

(* C06 — the scratch-register hypotheses of fsolve_no_error discharged by COUNTING: the existential conditions ("some work register is not a
   current location / not a destination") follow from decidable counts over the input, by the pigeonhole principle. *)
From Coq Require Import ZArith List Bool Lia.
Import ListNotations.
From Verif Require Import CallConv.ShuffleModel CallConv.ShuffleProofs CallConv.SolverModel CallConv.SolverFullModel CallConv.SolverFullProofs CallConv.SolverFullProofs2.
Local Open Scope Z_scope.

Definition out_in_grp (g : Z) (v : fvar) : bool := match f_out v with Reg g' _ => g' =? g | Mem _ _ => false end.
Definition cur_in_grp (g : Z) (v : fvar) : bool := match f_cur v with Reg g' _ => g' =? g | Mem _ _ => false end.
Definition loc_in_grp (g : Z) (x : loc) : bool := match x with Reg g' _ => g' =? g | Mem _ _ => false end.
Definition n_out (g : Z) (vs : list fvar) : nat := length (filter (out_in_grp g) vs).
Definition n_cur (g : Z) (vs : list fvar) : nat := length (filter (cur_in_grp g) vs).

Lemma Reg_inj g : forall l, NoDup l -> NoDup (map (Reg g) l).
Proof.
  induction l as [| x l IH]; intros H; [constructor|]. inversion H; subst. cbn. constructor; [| apply IH; assumption].
  intros Hin. apply in_map_iff in Hin. destruct Hin as [y [E Hy]]. inversion E; subst. contradiction.
Qed.

(* pigeonhole: more registers than locations of the group in `locs` -> one register is not among them *)
Lemma spare_by_count g (l : list Z) (locs : list loc) :
  NoDup l -> (length (filter (loc_in_grp g) locs) < length l)%nat ->
  exists r, In r l /\ ~ In (Reg g r) locs.
Proof.
  intros Hnd Hlt.
  destruct (existsb (fun r => negb (existsb (loc_eqb (Reg g r)) locs)) l) eqn:E.
  - apply existsb_exists in E. destruct E as [r [Hr Hn]]. exists r. split; [assumption|].
    apply negb_true_iff in Hn. intros Hin. assert (existsb (loc_eqb (Reg g r)) locs = true); [| congruence].
    apply existsb_exists. exists (Reg g r). split; [assumption | apply loc_eqb_refl].
  - exfalso.
    assert (Hall : forall r, In r l -> In (Reg g r) locs).
    { intros r Hr. destruct (existsb (loc_eqb (Reg g r)) locs) eqn:E2.
      - apply existsb_exists in E2. destruct E2 as [x [Hx Ex]]. destruct (loc_eqb_spec (Reg g r) x); [subst; assumption | discriminate].
      - assert (existsb (fun r => negb (existsb (loc_eqb (Reg g r)) locs)) l = true); [| congruence].
        apply existsb_exists. exists r. split; [assumption|]. rewrite E2. reflexivity. }
    set (F := filter (loc_in_grp g) locs) in *.
    assert (Hincl : incl (map (Reg g) l) F).
    { intros x Hx. apply in_map_iff in Hx. destruct Hx as [r [Ex Hr]]. subst x. apply filter_In. split; [apply Hall; assumption|].
      cbn [loc_in_grp]. apply Z.eqb_refl. }
    pose proof (NoDup_incl_length (Reg_inj g l Hnd) Hincl) as Hle. rewrite map_length in Hle. lia.
Qed.

Lemma filter_map_len {A B} (f : A -> B) (p : B -> bool) (l : list A) : length (filter p (map f l)) = length (filter (fun x => p (f x)) l).
Proof. induction l as [| x l IH]; [reflexivity|]. cbn. destruct (p (f x)); cbn; rewrite IH; reflexivity. Qed.

(* never kInvalidState when, per group, the work registers outnumber the variables that could occupy them: decidable counts instead of
   existential scratch conditions *)
Theorem fsolve_no_error_by_counting : forall a wgp wvec vs0, fwf_inputb wgp wvec vs0 = true -> farch_okb a vs0 = true ->
  NoDup wgp -> NoDup wvec ->
  (n_cur 0 vs0 < length wgp)%nat ->
  (forall g, (g = 0 \/ g = 1) -> grp_swap a g = false -> (n_out g vs0 < length (work_of wgp wvec g))%nat) ->
  fsolve a wgp wvec vs0 <> SErr.
Proof.
  intros a wgp wvec vs0 Hwf Har Ngp Nvec Hc Ho. apply fsolve_no_error; try assumption.
  - intros _. apply (spare_by_count 0 wgp (map f_cur vs0) Ngp). rewrite filter_map_len. exact Hc.
  - intros g Hg Hsw _. assert (Nd : NoDup (work_of wgp wvec g)) by (unfold work_of; destruct (g =? 0); assumption).
    apply (spare_by_count g (work_of wgp wvec g) (map f_out vs0) Nd). rewrite filter_map_len. exact (Ho g Hg Hsw).
Qed.

Corollary fsolve_total_by_counting : forall a wgp wvec vs0, fwf_inputb wgp wvec vs0 = true -> farch_okb a vs0 = true ->
  NoDup wgp -> NoDup wvec ->
  (n_cur 0 vs0 < length wgp)%nat ->
  (forall g, (g = 0 \/ g = 1) -> grp_swap a g = false -> (n_out g vs0 < length (work_of wgp wvec g))%nat) ->
  exists ms, fsolve a wgp wvec vs0 = SOk ms.
Proof.
  intros a wgp wvec vs0 Hwf Har Ngp Nvec Hc Ho.
  pose proof (fsolve_no_error_by_counting a wgp wvec vs0 Hwf Har Ngp Nvec Hc Ho).
  pose proof (fsolve_terminates a wgp wvec vs0 Hwf Har).
  destruct (fsolve a wgp wvec vs0) as [ms | |]; [exists ms; reflexivity | congruence | congruence].
Qed.

(* x86-64 SysV entry shuffles: at most 6 integer and 8 vector register arguments against 14 usable GP and 16 vector registers - the counts
   always hold; instance: the mixed example *)
Example ex_mixed_counts :
  (n_cur 0 ex_mixed < length ex_wgp)%nat /\ (n_out 1 ex_mixed < length ex_wvec)%nat /\ (n_out 0 ex_mixed < length ex_wgp)%nat.
Proof. vm_compute. repeat split; lia. Qed.

Example ex_mixed_total_by_counting : forall a, a = FX64 \/ a = FA64 -> exists ms, fsolve a ex_wgp ex_wvec ex_mixed = SOk ms.
Proof.
  intros a Ha. apply fsolve_total_by_counting.
  - exact ex_mixed_wf.
  - destruct Ha; subst; vm_compute; reflexivity.
  - unfold ex_wgp. repeat constructor; cbn; intuition lia.
  - unfold ex_wvec. repeat constructor; cbn; intuition lia.
  - vm_compute. lia.
  - intros g [Hg | Hg] _; subst g; vm_compute; lia.
Qed.

(* C06 - proofs about the model of the whole of emit_args_assignment (SolverFullModel.v), fourth part: the READ side of the memory
   accesses (every load reads the incoming slot of one original variable, no more bits than its source type has) and, with the write
   side of SolverFullProofs.v (fsolve_stores_exact), the validator's byte-range check (ShuffleModel.mem_ranges_ok) discharged by proof
   from a decidable condition on the INPUT alone. *)
From Coq Require Import ZArith Lia List Bool.
From Verif Require Import Base.ZBits CallConv.ShuffleModel CallConv.ShuffleProofs CallConv.SolverModel CallConv.SolverProofs
  CallConv.SolverFullModel CallConv.SolverFullProofs CallConv.SolverFullProofs2.
Import ListNotations.
Local Open Scope Z_scope.

(* ---------------------------------------------------------------------------------------------- *)
(* the statement *)

Definition load_exact (vs0 : list fvar) (i : minst) : Prop :=
  match i with
  | IExt d (Mem ar off) e n w wz =>
      exists v0, In v0 vs0 /\ f_cur v0 = Mem ar off /\ ar = 0 /\ is_regl d = true /\ 0 < n /\ n <= 8 * f_csz v0
  | _ => True      (* register source; exchanges are covered by fsolve_stores_exact *)
  end.

(* ---------------------------------------------------------------------------------------------- *)
(* bits read by the converting load: finite case analysis over the memory-source rows of fconv *)

Definition frd_check (p : ext * Z * Z * Z) (csz : Z) : bool :=
  let '(e, n, w, wz) := p in (0 <? n) && (n <=? 8 * csz) && (n mod 8 =? 0).

Lemma fc_params_mem_read a int csz csg osz osg : ty_ok a int csz csg osz osg ->
  frd_check (fc_params a false int csz csg osz osg) csz = true.
Proof.
  unfold ty_ok. destruct int.
  - intros [[H1 | [H1 | [H1 | H1]]] [H2 | [H2 | [H2 | H2]]]]; subst; destruct a, csg, osg; vm_compute; reflexivity.
  - intros [[H1 | [H1 | [H1 | [Ha [H1 | H1]]]]] [H2 [H3 H4]]]; subst; try (destruct a); vm_compute; reflexivity.
Qed.

(* the invariant of the emitted instructions: a memory SOURCE is the incoming slot of an original variable, read with a whole number of
   bytes not exceeding the size of its source type *)
Definition rd_ok (vs0 : list fvar) (i : minst) : Prop :=
  match i with
  | IExt _ (Mem ar off) _ n _ _ =>
      exists v0, In v0 vs0 /\ f_cur v0 = Mem ar off /\ ar = 0 /\ 0 < n /\ n <= 8 * f_csz v0 /\ n mod 8 = 0
  | IExt _ (Reg _ _) _ _ _ _ => True
  | IXchg _ _ _ _ => True
  end.

Lemma rd_ok_fconv_reg vs0 a d s int csz csg osz osg : is_regl s = true -> rd_ok vs0 (fconv a d s int csz csg osz osg).
Proof.
  intros Hs. rewrite fconv_eq. destruct (fc_params a (is_regl s) int csz csg osz osg) as [[[e n] w] wz].
  destruct s; [exact I | discriminate].
Qed.

Lemma rd_ok_fconv_mem vs0 a wgp wvec d v0 int csg osz osg :
  In v0 vs0 -> v0_ok a wgp wvec v0 -> is_regl (f_cur v0) = false -> ty_ok a int (f_csz v0) csg osz osg ->
  rd_ok vs0 (fconv a d (f_cur v0) int (f_csz v0) csg osz osg).
Proof.
  intros Hin [_ [Hl _]] Hm Hty. pose proof (fc_params_mem_read a int (f_csz v0) csg osz osg Hty) as Hp.
  rewrite fconv_eq. rewrite Hm. destruct (fc_params a false int (f_csz v0) csg osz osg) as [[[e n] w] wz].
  destruct (f_cur v0) as [g r | ar off] eqn:Ec; [discriminate|]. cbn [rd_ok]. exists v0.
  unfold frd_check in Hp. apply andb_prop in Hp. destruct Hp as [Hp H3]. apply andb_prop in Hp. destruct Hp as [H1 H2].
  apply Z.ltb_lt in H1. apply Z.leb_le in H2. apply Z.eqb_eq in H3. unfold locp in Hl.
  repeat split; assumption.
Qed.

(* ---------------------------------------------------------------------------------------------- *)
(* the invariant of the variable list: a variable still waiting on the stack IS the original variable *)

Definition keep (vs0 vars : list fvar) : Prop :=
  forall i v, nth_error vars i = Some v -> is_regl (f_cur v) = false -> f_done v = false -> nth_error vs0 i = Some v.

Lemma nth_fset_cases vs : forall i x k u, nth_error (fset vs i x) k = Some u -> u = x \/ nth_error vs k = Some u.
Proof.
  induction vs as [| a r IH]; intros [| i] x [| k] u H; cbn [fset nth_error] in *; try discriminate; try (right; assumption).
  - left. congruence.
  - eapply IH. eassumption.
Qed.

Lemma keep_set vs0 vars i x : keep vs0 vars -> f_done x = true \/ is_regl (f_cur x) = true -> keep vs0 (fset vars i x).
Proof.
  intros H Hx k v Hv Hm Hd. apply nth_fset_cases in Hv. destruct Hv as [E | Hv].
  - subst v. destruct Hx; congruence.
  - apply H; assumption.
Qed.

Definition rinv (vs0 vars : list fvar) (em : list minst) : Prop := Forall (rd_ok vs0) em /\ keep vs0 vars.

Section Reads.
Variable a : farch.
Variables wgp wvec : list Z.
Variable vs0 : list fvar.
Hypothesis Hv0 : forall i v0, nth_error vs0 i = Some v0 -> v0_ok a wgp wvec v0.

(* phase 1 *)
Definition R1 (k : nat) (acc : option (list fvar * list minst)) : Prop :=
  match acc with
  | None => True
  | Some (vars, em) => rinv vs0 vars em /\ (forall i, (k <= i)%nat -> nth_error vars i = nth_error vs0 i)
  end.

Lemma stk_step_R1 k acc : R1 k acc -> R1 (S k) (stk_step a wgp wvec acc k).
Proof.
  intros HP. unfold stk_step. destruct acc as [[vars em] |]; [| exact I].
  destruct HP as [[Hrd Hkeep] H2].
  assert (Hsame : R1 (S k) (Some (vars, em))).
  { cbn [R1]. split; [split; assumption|]. intros i Hi. apply H2. lia. }
  destruct (nth_error vars k) as [v |] eqn:Hv; [| exact Hsame].
  destruct (is_regl (f_out v)) eqn:Hm; [exact Hsame|].
  assert (E0 : nth_error vs0 k = Some v). { rewrite <- (H2 k (Nat.le_refl k)). assumption. }
  destruct (f_cur v) as [g r | ca co] eqn:Ec.
  - cbn [R1]. split; [split|].
    + apply Forall_app. split; [assumption|]. apply Forall_app. split.
      * destruct (fneeds_ext v); constructor; [apply rd_ok_fconv_reg; reflexivity | constructor].
      * constructor; [exact I | constructor].
    + apply keep_set; [assumption | left; reflexivity].
    + intros i Hi. rewrite nth_fset_ne by lia. apply H2. lia.
  - destruct (zmin_list (favail wgp wvec vars 0)) as [sc |]; [| exact I].
    pose proof (Hv0 k v E0) as Hok.
    assert (Hiv : f_int v = true).
    { destruct Hok as [_ [_ [_ Hmm]]]. apply Hmm; [rewrite Ec; reflexivity | assumption]. }
    cbn [R1]. split; [split|].
    + apply Forall_app. split; [assumption|]. constructor; [| constructor; [exact I | constructor]].
      rewrite <- Ec. apply (rd_ok_fconv_mem vs0 a wgp wvec); try assumption.
      * eapply nth_error_In; eassumption.
      * rewrite Ec. reflexivity.
      * destruct Hok as [Hty _]. rewrite Hiv in Hty. assumption.
    + apply keep_set; [assumption | left; reflexivity].
    + intros i Hi. rewrite nth_fset_ne by lia. apply H2. lia.
Qed.

Lemma stk_phase_rinv vs1 em1 : stk_phase a wgp wvec vs0 = Some (vs1, em1) -> rinv vs0 vs1 em1.
Proof.
  intros H. unfold stk_phase in H.
  pose proof (fold_seq_ind (stk_step a wgp wvec) R1 stk_step_R1 (length vs0) (Some (vs0, []))) as HP.
  rewrite H in HP. cbn [R1] in HP. apply HP. split; [split|].
  - constructor.
  - intros i v Hv _ _. assumption.
  - intros; reflexivity.
Qed.

(* phase 2: register sources only; the entries it rewrites have register locations before and after *)
Lemma fstep_rinv s i : rinv vs0 (fs_vars s) (fs_emit s) ->
  rinv vs0 (fs_vars (fstep a wgp wvec s i)) (fs_emit (fstep a wgp wvec s i)).
Proof.
  intros Hinv. pose proof (fstep_spec_ok a wgp wvec s i) as Hs.
  destruct Hs as [Hn | v Hv Hd | v Hv Hd Hnr | v g c o Hv Hd Ec Eo Hc | v g c o j alt Hv Hd Ec Eo Has Hne Hf Ha Eca Hm Hsw
    | v g c o j alt sc Hv Hd Ec Eo Has Hne Hf Ha Eca Hm Hsw Hsc | v g c o j alt Hv Hd Ec Eo Has Hne Hf Ha Eca Hm Hsw Hsc
    | v g c o j alt Hv Hd Ec Eo Has Hne Hf Ha Eca Hm];
    cbn [fs_vars fs_emit]; try assumption; destruct Hinv as [Hrd Hkeep].
  - split.
    + apply Forall_app. split; [assumption|]. constructor; [apply rd_ok_fconv_reg; reflexivity | constructor].
    + apply keep_set; [assumption | right; reflexivity].
  - cbv zeta. split.
    + apply Forall_app. split; [assumption|]. constructor; [exact I | constructor].
    + apply keep_set; [apply keep_set; [assumption|] |]; right; reflexivity.
  - cbv zeta. split.
    + apply Forall_app. split; [assumption|]. constructor; [apply rd_ok_fconv_reg; reflexivity | constructor].
    + apply keep_set; [assumption | right; reflexivity].
Qed.

Lemma fpass_rinv s : rinv vs0 (fs_vars s) (fs_emit s) ->
  rinv vs0 (fs_vars (fpass a wgp wvec s)) (fs_emit (fpass a wgp wvec s)).
Proof.
  unfold fpass. apply (ffold_step_inv a wgp wvec (fun s => rinv vs0 (fs_vars s) (fs_emit s))). apply fstep_rinv.
Qed.

Lemma floop_rinv fuel : forall vs emit p vs2 ms, rinv vs0 vs emit -> floop a wgp wvec fuel vs emit p = FOk vs2 ms -> rinv vs0 vs2 ms.
Proof.
  induction fuel as [| f IH]; intros vs emit p vs2 ms Hinv H; cbn [floop] in H; [discriminate|].
  set (s := fpass a wgp wvec (mkFS vs emit false false p)) in *.
  assert (Hs : rinv vs0 (fs_vars s) (fs_emit s)) by (apply fpass_rinv; exact Hinv).
  destruct (negb (fs_pending s)).
  - inversion H; subst vs2 ms. assumption.
  - destruct (negb (fs_did s) && fs_postponed s); [discriminate|]. eapply IH; eassumption.
Qed.

(* phase 3: the variable loaded is not done and on the stack, hence the original one *)
Definition rinv2 (acc : list fvar * list minst) : Prop := rinv vs0 (fst acc) (snd acc).

Lemma load_step_rinv (k : nat) (acc : list fvar * list minst) : rinv2 acc -> rinv2 (load_step a acc k).
Proof.
  destruct acc as [vars em]. unfold rinv2. cbn [fst snd]. intros [Hrd Hkeep]. unfold load_step.
  destruct (nth_error vars k) as [v |] eqn:Hv; [| split; assumption].
  destruct (f_done v || is_regl (f_cur v)) eqn:E; [split; assumption|].
  apply orb_false_elim in E. destruct E as [Hd Hm].
  pose proof (Hkeep k v Hv Hm Hd) as E0. pose proof (Hv0 k v E0) as Hok.
  split.
  - apply Forall_app. split; [assumption|]. constructor; [| constructor].
    apply (rd_ok_fconv_mem vs0 a wgp wvec); try assumption.
    + eapply nth_error_In; eassumption.
    + destruct Hok as [Hty _]. assumption.
  - apply keep_set; [assumption | left; reflexivity].
Qed.

Lemma load_phase_rinv vars em : rinv vs0 vars em -> Forall (rd_ok vs0) (snd (load_phase a vars em)).
Proof.
  intros H0. unfold load_phase.
  pose proof (fold_seq_ind (load_step a) (fun _ acc => rinv2 acc)
                (fun k s => load_step_rinv k s) (length vars) (vars, em) H0) as HP.
  exact (proj1 HP).
Qed.

Lemma fsolve_rd_ok ms : fsolve a wgp wvec vs0 = SOk ms -> Forall (rd_ok vs0) ms.
Proof.
  intros H. unfold fsolve in H.
  destruct (stk_phase a wgp wvec vs0) as [[vs1 em1] |] eqn:H1; [| discriminate].
  pose proof (stk_phase_rinv _ _ H1) as Hi1.
  destruct (floop a wgp wvec (4 * length vs0 + 4) vs1 em1 false) as [vs2 em2 | |] eqn:H2; try discriminate.
  pose proof (floop_rinv _ _ _ _ _ _ Hi1 H2) as Hi2.
  inversion H; subst ms. apply load_phase_rinv. assumption.
Qed.

End Reads.

(* ---------------------------------------------------------------------------------------------- *)
(* byte level, loads *)

Lemma fsolve_reads : forall a wgp wvec vs0 ms, fwf_inputb wgp wvec vs0 = true -> farch_okb a vs0 = true -> fsolve a wgp wvec vs0 = SOk ms ->
  forall i, In i ms -> rd_ok vs0 i.
Proof.
  intros a wgp wvec vs0 ms Hwf Har Hs i Hi. apply (fwf_inputb_sound a) in Hwf; [| exact Har].
  destruct Hwf as [Hok _]. pose proof (fsolve_rd_ok a wgp wvec vs0 Hok ms Hs) as H.
  rewrite Forall_forall in H. apply H. assumption.
Qed.

(* every instruction of a successful run that reads memory loads, into a register, from the incoming stack slot of one original variable,
   and reads no more bits than that variable's source type has *)
Theorem fsolve_loads_exact : forall a wgp wvec vs0 ms, fwf_inputb wgp wvec vs0 = true -> farch_okb a vs0 = true -> fsolve a wgp wvec vs0 = SOk ms ->
  forall i, In i ms -> load_exact vs0 i.
Proof.
  intros a wgp wvec vs0 ms Hwf Har Hs i Hi.
  pose proof (fsolve_reads a wgp wvec vs0 ms Hwf Har Hs i Hi) as Hr.
  pose proof (fsolve_stores_exact a wgp wvec vs0 ms Hwf Har Hs i Hi) as Hw.
  destruct i as [d s e n w wz | x y w wz]; [| exact I].
  destruct s as [g r | ar off]; [exact I|]. cbn [load_exact rd_ok] in *.
  destruct Hr as [v0 [Hin [Ec [Ea [Hn1 [Hn2 _]]]]]]. exists v0.
  repeat split; try assumption.
  destruct d as [dg dr | da doff]; [reflexivity|]. cbn [store_exact] in Hw.
  destruct Hw as [u [_ [_ [_ [_ [_ [Hreg _]]]]]]]. discriminate.
Qed.

(* the loads read whole bytes *)
Theorem fsolve_loads_bytes : forall a wgp wvec vs0 ms, fwf_inputb wgp wvec vs0 = true -> farch_okb a vs0 = true -> fsolve a wgp wvec vs0 = SOk ms ->
  forall d ar off e n w wz, In (IExt d (Mem ar off) e n w wz) ms -> n mod 8 = 0.
Proof.
  intros a wgp wvec vs0 ms Hwf Har Hs d ar off e n w wz Hi.
  pose proof (fsolve_reads a wgp wvec vs0 ms Hwf Har Hs _ Hi) as Hr. cbn [rd_ok] in Hr.
  destruct Hr as [v0 [_ [_ [_ [_ [_ H]]]]]]. exact H.
Qed.

(* non-vacuity on the mixed example of SolverFullProofs2.v (a stack-to-stack and a stack-to-register variable): both loads are in the emitted
   sequence, the theorem applies to them, and their widths (16 of 16 bits, 32 of 32 bits) are the ones the statement bounds *)
Example ex_mixed_loads_exact :
  match fsolve FX64 ex_wgp ex_wvec ex_mixed with
  | SOk ms =>
      In (IExt (Reg 0 0) (Mem 0 8) ES 16 32 64) ms /\ In (IExt (Reg 0 2) (Mem 0 16) EZ 32 32 64) ms /\
      load_exact ex_mixed (IExt (Reg 0 0) (Mem 0 8) ES 16 32 64) /\ load_exact ex_mixed (IExt (Reg 0 2) (Mem 0 16) EZ 32 32 64) /\
      List.length (filter (fun i => match i with IExt _ (Mem _ _) _ _ _ _ => true | _ => false end) ms) = 2%nat
  | _ => False
  end.
Proof.
  pose proof (fsolve_loads_exact FX64 ex_wgp ex_wvec ex_mixed) as H.
  destruct (fsolve FX64 ex_wgp ex_wvec ex_mixed) as [ms | |] eqn:E; try (vm_compute in E; discriminate).
  specialize (H ms ex_mixed_wf ltac:(vm_compute; reflexivity) eq_refl).
  assert (H1 : In (IExt (Reg 0 0) (Mem 0 8) ES 16 32 64) ms) by (vm_compute in E; inversion E; left; reflexivity).
  assert (H2 : In (IExt (Reg 0 2) (Mem 0 16) EZ 32 32 64) ms) by (vm_compute in E; inversion E; do 8 right; left; reflexivity).
  split; [exact H1|]. split; [exact H2|]. split; [exact (H _ H1)|]. split; [exact (H _ H2)|].
  vm_compute in E. inversion E. vm_compute. reflexivity.
Qed.

(* ---------------------------------------------------------------------------------------------- *)
(* the validator's byte-range check *)

(* incoming slot of a variable: offset and size (bytes) of its source type *)
Definition in_slot_of (v : fvar) : option (Z * Z) := match f_cur v with Mem _ off => Some (off, f_csz v) | Reg _ _ => None end.
Definition in_slots_disjoint (vs : list fvar) : Prop :=
  forall u v o1 z1 o2 z2, In u vs -> In v vs -> in_slot_of u = Some (o1, z1) -> in_slot_of v = Some (o2, z2) -> o1 <> o2 ->
    o1 + z1 <= o2 \/ o2 + z2 <= o1.
Definition in_slots_disjointb (vs : list fvar) : bool :=
  forallb (fun u => forallb (fun v =>
    match in_slot_of u, in_slot_of v with
    | Some (o1, z1), Some (o2, z2) => (o1 =? o2) || (o1 + z1 <=? o2) || (o2 + z2 <=? o1)
    | _, _ => true
    end) vs) vs.

Lemma in_slots_disjointb_sound vs : in_slots_disjointb vs = true -> in_slots_disjoint vs.
Proof.
  unfold in_slots_disjointb, in_slots_disjoint. intros H u v o1 z1 o2 z2 Hu Hv Su Sv Hne.
  rewrite forallb_forall in H. specialize (H u Hu). rewrite forallb_forall in H. specialize (H v Hv).
  rewrite Su, Sv in H. apply orb_prop in H. destruct H as [H | H].
  - apply orb_prop in H. destruct H as [H | H].
    + apply Z.eqb_eq in H. contradiction.
    + left. apply Z.leb_le. assumption.
  - right. apply Z.leb_le. assumption.
Qed.

(* the condition on the input: the destination slots [off, off + destination size) are pairwise disjoint byte ranges, and so are the incoming
   slots [off, off + source size) *)
Definition slots_okb (vs : list fvar) : bool := slots_disjointb vs && in_slots_disjointb vs.

(* an access of the emitted sequence: whole bytes; the destination slot of a variable with exactly its size, or (part of) an incoming slot *)
Definition acc_in (vs0 : list fvar) (x : access) : Prop :=
  let '(ar, o, b) := x in
  0 < b /\ b mod 8 = 0 /\
  exists v0, In v0 vs0 /\
    ((ar = 1 /\ f_out v0 = Mem 1 o /\ b = 8 * f_osz v0) \/ (ar = 0 /\ f_cur v0 = Mem 0 o /\ b <= 8 * f_csz v0)).

Lemma acc_in_aligned vs0 x : acc_in vs0 x -> access_aligned x = true.
Proof.
  destruct x as [[ar o] b]. intros [H1 [H2 _]]. unfold access_aligned.
  apply andb_true_intro. split; [apply Z.ltb_lt | apply Z.eqb_eq]; assumption.
Qed.

Lemma acc_in_compat vs0 x y : slots_disjoint vs0 -> in_slots_disjoint vs0 -> acc_in vs0 x -> acc_in vs0 y -> access_compat x y = true.
Proof.
  destruct x as [[a1 o1] b1], y as [[a2 o2] b2]. intros Hd Hs [Hb1 [Hm1 [u [Hu Su]]]] [Hb2 [Hm2 [v [Hv Sv]]]].
  unfold access_compat. destruct (Z.eqb_spec a1 a2) as [Ea | Ea]; [| reflexivity]. subst a2. cbn [negb orb].
  destruct (Z.eqb_spec o1 o2) as [Eo | Eo]; [reflexivity|]. cbn [orb].
  apply orb_true_iff. rewrite !Z.leb_le.
  destruct Su as [[A1 [S1 B1]] | [A1 [S1 B1]]]; destruct Sv as [[A2 [S2 B2]] | [A2 [S2 B2]]]; try lia.
  - subst b1 b2. rewrite !(Z.mul_comm 8), !Z.div_mul by lia.
    apply (Hd u v o1 (f_osz u) o2 (f_osz v) Hu Hv); try assumption; unfold slot_of; [rewrite S1 | rewrite S2]; reflexivity.
  - assert (L1 : b1 / 8 <= f_csz u) by (apply Z.div_le_upper_bound; lia).
    assert (L2 : b2 / 8 <= f_csz v) by (apply Z.div_le_upper_bound; lia).
    assert (D : o1 + f_csz u <= o2 \/ o2 + f_csz v <= o1).
    { apply (Hs u v o1 (f_csz u) o2 (f_csz v) Hu Hv); try assumption; unfold in_slot_of; [rewrite S1 | rewrite S2]; reflexivity. }
    lia.
Qed.

Lemma accesses_compat_pairwise xs : (forall x y, In x xs -> In y xs -> access_compat x y = true) -> accesses_compat xs = true.
Proof.
  induction xs as [| x r IH]; intros H; cbn [accesses_compat]; [reflexivity|].
  apply andb_true_intro. split.
  - apply forallb_forall. intros y Hy. apply H; [left; reflexivity | right; assumption].
  - apply IH. intros p q Hp Hq. apply H; right; assumption.
Qed.

Section Ranges.
Variable a : farch.
Variables wgp wvec : list Z.
Variable vs0 : list fvar.
Hypothesis Hv0 : forall i v0, nth_error vs0 i = Some v0 -> v0_ok a wgp wvec v0.
Hypothesis Hx : a <> FX86.

Lemma inst_acc_in i : store_exact a vs0 i -> rd_ok vs0 i -> exists xs, inst_accesses i = Some xs /\ Forall (acc_in vs0) xs.
Proof.
  destruct i as [d s e n w wz | x y w wz]; cbn [store_exact rd_ok inst_accesses].
  - intros Hw Hr. eexists. split; [reflexivity|].
    destruct d as [dg dr | da doff]; destruct s as [sg sr | sa soff]; cbn [app].
    + constructor.
    + destruct Hr as [v0 [Hin [Ec [Ea [H1 [H2 H3]]]]]]. subst sa. constructor; [| constructor].
      cbn [acc_in]. split; [assumption|]. split; [assumption|]. exists v0. split; [assumption|]. right. repeat split; assumption.
    + destruct Hw as [v0 [Hin [Eo [_ [_ [Ez [_ Hn]]]]]]]. destruct Hn as [Hn | [Hn _]]; [| contradiction].
      pose proof Hin as Hin'. apply In_nth_error in Hin'. destruct Hin' as [k Hk]. destruct (Hv0 k v0 Hk) as [Hty [_ [Hlo _]]].
      destruct (ty_ok_range _ _ _ _ _ _ Hty) as [_ R2]. unfold locp in Hlo. rewrite Eo in Hlo. subst da wz n.
      constructor; [| constructor]. cbn [acc_in]. split; [lia|]. split; [rewrite Z.mul_comm; apply Z.mod_mul; lia|].
      exists v0. split; [assumption|]. left. repeat split; assumption.
    + destruct Hw as [v0 [_ [_ [_ [_ [_ [Hreg _]]]]]]]. discriminate.
  - intros [H1 H2] _. destruct x; [| discriminate]. destruct y; [| discriminate]. eexists. split; [reflexivity | constructor].
Qed.

Lemma accesses_acc_in ms : (forall i, In i ms -> store_exact a vs0 i /\ rd_ok vs0 i) ->
  exists xs, accesses ms = Some xs /\ Forall (acc_in vs0) xs.
Proof.
  induction ms as [| i r IH]; intros H; cbn [accesses].
  - exists []. split; [reflexivity | constructor].
  - destruct (H i (or_introl eq_refl)) as [Hw Hr]. destruct (inst_acc_in i Hw Hr) as [x [Ex Fx]].
    destruct IH as [y [Ey Fy]]; [intros j Hj; apply H; right; assumption|].
    rewrite Ex, Ey. exists (x ++ y). split; [reflexivity|]. apply Forall_app. split; assumption.
Qed.

End Ranges.

(* the validator's byte-range check never rejects a successful run on an input whose destination slots and incoming slots are pairwise
   disjoint byte ranges (all targets but 32-bit x86, where a byte held in ESI / EDI / EBP / ESP is stored 32 bits wide) *)
Theorem fsolve_mem_ranges_ok : forall a wgp wvec vs0 ms, fwf_inputb wgp wvec vs0 = true -> farch_okb a vs0 = true -> a <> FX86 ->
  fsolve a wgp wvec vs0 = SOk ms -> slots_okb vs0 = true -> mem_ranges_ok ms = true.
Proof.
  intros a wgp wvec vs0 ms Hwf Har Hx Hs Hok.
  apply andb_prop in Hok. destruct Hok as [Hd Hi]. apply slots_disjointb_sound in Hd. apply in_slots_disjointb_sound in Hi.
  pose proof (fsolve_stores_exact a wgp wvec vs0 ms Hwf Har Hs) as Hst.
  pose proof (fsolve_reads a wgp wvec vs0 ms Hwf Har Hs) as Hrd.
  apply (fwf_inputb_sound a) in Hwf; [| exact Har]. destruct Hwf as [Hv0 _].
  destruct (accesses_acc_in a wgp wvec vs0 Hv0 Hx ms) as [xs [Ex Fx]]; [intros i Hin; split; [apply Hst | apply Hrd]; assumption|].
  unfold mem_ranges_ok. rewrite Ex. unfold accesses_ok. rewrite Forall_forall in Fx.
  apply andb_true_intro. split.
  - apply forallb_forall. intros x Hin. eapply acc_in_aligned. apply Fx. assumption.
  - apply accesses_compat_pairwise. intros x y Hp Hq. apply (acc_in_compat vs0); try assumption; apply Fx; assumption.
Qed.

(* executed: the condition holds on the mixed example and the check evaluates to true on what both targets emit *)
Example ex_mixed_mem_ranges_ok :
  slots_okb ex_mixed = true /\
  match fsolve FX64 ex_wgp ex_wvec ex_mixed, fsolve FA64 ex_wgp ex_wvec ex_mixed with
  | SOk m1, SOk m2 => mem_ranges_ok m1 = true /\ mem_ranges_ok m2 = true /\ accesses m1 = Some [(0, 8, 16); (1, 0, 32); (1, 8, 64); (0, 16, 32)]
  | _, _ => False
  end.
Proof. vm_compute. repeat split; reflexivity. Qed.

(* ... and by the theorem *)
Example ex_mixed_mem_ranges_ok_thm : forall ms, fsolve FX64 ex_wgp ex_wvec ex_mixed = SOk ms -> mem_ranges_ok ms = true.
Proof.
  intros ms H. apply (fsolve_mem_ranges_ok FX64 ex_wgp ex_wvec ex_mixed ms); try assumption; try (vm_compute; reflexivity). discriminate.
Qed.

(* the condition is needed: well-formed inputs with overlapping destination slots ([0, 8) and [4, 8)) / overlapping incoming slots are solved,
   and the byte-range check rejects the result *)
Definition ex_overlap_out : list fvar := [ finit (Reg 0 0) 8 false (Mem 1 0) 8 false true; finit (Reg 0 1) 4 false (Mem 1 4) 4 false true ].
Definition ex_overlap_in : list fvar := [ finit (Mem 0 0) 8 false (Reg 0 0) 8 false true; finit (Mem 0 4) 4 false (Reg 0 1) 4 false true ].
Example ex_slots_needed :
  fwf_inputb [0; 1] [] ex_overlap_out = true /\ farch_okb FX64 ex_overlap_out = true /\ slots_okb ex_overlap_out = false /\
  match fsolve FX64 [0; 1] [] ex_overlap_out with SOk ms => mem_ranges_ok ms = false | _ => False end /\
  fwf_inputb [0; 1] [] ex_overlap_in = true /\ farch_okb FX64 ex_overlap_in = true /\ slots_okb ex_overlap_in = false /\
  match fsolve FX64 [0; 1] [] ex_overlap_in with SOk ms => mem_ranges_ok ms = false | _ => False end.
Proof. vm_compute. repeat split; reflexivity. Qed.

(* the target condition is needed: 32-bit x86, two adjacent 1-byte destination slots, the bytes go through ESI: the first store is 32 bits
   wide and covers the second slot *)
Definition ex_x86_adjacent : list fvar := [ finit (Mem 0 4) 1 true (Mem 1 0) 1 true true; finit (Mem 0 8) 1 true (Mem 1 1) 1 true true ].
Example ex_x86_needed :
  fwf_inputb [6; 7] [] ex_x86_adjacent = true /\ farch_okb FX86 ex_x86_adjacent = true /\ slots_okb ex_x86_adjacent = true /\
  match fsolve FX86 [6; 7] [] ex_x86_adjacent with SOk ms => mem_ranges_ok ms = false | _ => False end.
Proof. vm_compute. repeat split; reflexivity. Qed.

(* C06 - byte-level (little-endian, byte-addressed) machine for the parallel-move instruction lists of
   ShuffleModel.v, and the strengthened validator [validate_bytes] whose soundness w.r.t. this machine is
   proved in ShuffleBytesProofs.v.  Definitions only; everything is total executable Gallina. *)
From Coq Require Import ZArith List Bool.
From Verif Require Import Base.ZBits CallConv.ShuffleModel.
Import ListNotations.
Local Open Scope Z_scope.

(* byte-level machine: registers as before (group -> id -> content), memory = area -> address -> byte *)
Record bstate := mkB { b_reg : Z -> Z -> Z; b_mem : Z -> Z -> Z }.

(* little-endian value of k bytes starting at addr (every byte is taken modulo 256) *)
Fixpoint le_bytes (m : Z -> Z) (addr : Z) (k : nat) : Z :=
  match k with
  | O => 0
  | S k' => m addr mod 256 + 256 * le_bytes m (addr + 1) k'
  end.

(* content of a location seen through an access of [bits] bits (registers: the whole register) *)
Definition bread (bs : bstate) (l : loc) (bits : Z) : Z :=
  match l with
  | Reg g i => b_reg bs g i
  | Mem a o => le_bytes (b_mem bs a) o (Z.to_nat (bits / 8))
  end.

(* store the low 8*k bits of v as k bytes at addr: byte i gets (v / 256^i) mod 256, the rest is unchanged *)
Fixpoint bwrite_mem (m : Z -> Z) (addr : Z) (k : nat) (v : Z) : Z -> Z :=
  match k with
  | O => m
  | S k' => fun x => if x =? addr then v mod 256 else bwrite_mem m (addr + 1) k' (v / 256) x
  end.

Definition rupd (r : Z -> Z -> Z) (g i v : Z) : Z -> Z -> Z :=
  fun g' i' => if (g' =? g) && (i' =? i) then v else r g' i'.

Definition mupd (m : Z -> Z -> Z) (a : Z) (f : Z -> Z) : Z -> Z -> Z :=
  fun a' => if a' =? a then f else m a'.

Definition bexec_inst (bs : bstate) (i : minst) : bstate :=
  match i with
  | IExt d s e n w wz =>
      let v := extv e n w (bread bs s n) in
      match d with
      | Reg g r => mkB (rupd (b_reg bs) g r ((b_reg bs g r / 2 ^ wz) * 2 ^ wz + v)) (b_mem bs)
      | Mem a o => mkB (b_reg bs) (mupd (b_mem bs) a (bwrite_mem (b_mem bs a) o (Z.to_nat (wz / 8)) v))
      end
  | IXchg (Reg g1 r1) (Reg g2 r2) w wz =>
      let va := b_reg bs g1 r1 in
      let vb := b_reg bs g2 r2 in
      mkB (rupd (rupd (b_reg bs) g1 r1 ((va / 2 ^ wz) * 2 ^ wz + vb mod 2 ^ w))
                g2 r2 ((vb / 2 ^ wz) * 2 ^ wz + va mod 2 ^ w))
          (b_mem bs)
  | IXchg _ _ _ _ => bs                 (* xchg with a memory operand: not modelled, validate rejects it *)
  end.

Definition bexec (ms : list minst) (bs : bstate) : bstate := fold_left bexec_inst ms bs.

(* the memory access made when location l is accessed with [bits] bits *)
Definition loc_access (l : loc) (bits : Z) : list access :=
  match l with
  | Mem a o => [(a, o, bits)]
  | Reg _ _ => []
  end.

(* the memory accesses implied by the required moves themselves *)
Definition move_accesses (mvs : list move) : list access :=
  flat_map (fun mv => loc_access (m_src mv) (m_sbits mv) ++ loc_access (m_dst mv) (m_dbits mv)) mvs.

(* the memory stores of an instruction list: (area, off, wz) of every IExt whose destination is a Mem *)
Definition inst_stores (i : minst) : list access :=
  match i with
  | IExt (Mem a o) _ _ _ _ wz => [(a, o, wz)]
  | _ => []
  end.

Definition store_accesses (ms : list minst) : list access := flat_map inst_stores ms.

(* validate + the byte ranges of the moves' own memory operands take part in the disjointness check
   + no access is wider than 64 bytes *)
Definition validate_bytes (mvs : list move) (allowed : list loc) (ms : list minst) : bool :=
  validate mvs allowed ms &&
  match accesses ms with
  | Some xs =>
      accesses_ok (move_accesses mvs ++ xs) &&
      forallb (fun '(_, _, b) => b <=? 512) (move_accesses mvs ++ xs)
  | None => false
  end.

(* C06 — what "the model's FuncDetail agrees with the ABI answer" means (definitions only; used by the theorems and,
   extracted, by the check's per-signature monitor). *)
From Coq Require Import ZArith List Bool.
Import ListNotations.
From Verif Require Import CallConv.FuncDetailModel CallConv.Abi.
Local Open Scope Z_scope.

Definition loc_of (v : fval) : aloc := (fv_kind v, fv_rtype v, fv_rid v, fv_off v, fv_ind v).
Definition arch_code (a : arch) : Z := match a with X86 => 0 | X64 => 1 | A64 => 2 end.
Definition abi_of_env (e : env) (ccid : Z) : option abi_id := abi_of (arch_code (e_arch e)) (e_win e) (e_darwin e) ccid.

Definition aloc_eqb (x y : aloc) : bool :=
  let '(k1, t1, i1, o1, r1) := x in let '(k2, t2, i2, o2, r2) := y in
  (k1 =? k2) && (t1 =? t2) && (i1 =? i2) && (o1 =? o2) && Bool.eqb r1 r2.
Fixpoint list_eqb {A} (f : A -> A -> bool) (x y : list A) : bool :=
  match x, y with [] , [] => true | a :: r, b :: s => f a b && list_eqb f r s | _, _ => false end.

(* the constants of the convention record against the ABI table *)
Definition consts_of (c : callconv) : aconsts :=
  mkAC (cc_red c) (cc_spill c) (cc_nalign c) (has_flag (cc_flags c) F_CalleePops)
       (filter (fun i => Z.testbit (nth 0 (cc_pres c) 0) i) (range 0 32))
       (filter (fun i => Z.testbit (nth 1 (cc_pres c) 0) i) (range 0 32))
       (cc_ogp c) (cc_ovec c).
Definition zlist_eqb := list_eqb Z.eqb.
Definition aconsts_eqb (x y : aconsts) : bool :=
  (ac_red x =? ac_red y) && (ac_shadow x =? ac_shadow y) && (ac_align x =? ac_align y) && Bool.eqb (ac_callee_pops x) (ac_callee_pops y)
  && zlist_eqb (ac_pres_gp x) (ac_pres_gp y) && zlist_eqb (ac_pres_vec x) (ac_pres_vec y)
  && zlist_eqb (ac_int_regs x) (ac_int_regs y) && zlist_eqb (ac_vec_regs x) (ac_vec_regs y).

Definition args_agree (d : fdetail) (an : abi_answer) : bool :=
  list_eqb (list_eqb aloc_eqb) (map (map loc_of) (fd_args d)) (an_args an).
Definition rets_agree (d : fdetail) (an : abi_answer) : bool := list_eqb aloc_eqb (map loc_of (fd_rets d)) (an_rets an).
Definition stack_agree (d : fdetail) (an : abi_answer) : bool := fd_stack d =? an_stack an.

(* monitor used by the check on every generated signature:
   None = the (target, convention) pair has no ABI in Abi.v;  Some (guard, args, rets, stack size, constants) *)
Definition monitor (e : env) (s : sig) : option (bool * (bool * bool * bool * bool)) :=
  match abi_of_env e (s_cc s) with
  | None => None
  | Some a =>
      let va := sig_has_va s in
      let an := abi_spec a va (s_ret s) (s_args s) in
      let g := abi_guard a va (s_ret s) (s_args s) in
      match func_detail_init e s with
      | R_ok d => Some (g, (args_agree d an, rets_agree d an, stack_agree d an, aconsts_eqb (consts_of (fd_cc d)) (abi_consts a)))
      | R_err _ => Some (g, (false, false, false, false))
      end
  end.

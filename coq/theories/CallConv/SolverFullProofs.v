(* C06 - proofs about the model of the whole of emit_args_assignment (SolverFullModel.v): semantic correctness of the emitted
   sequence from every initial machine state and the frame property (written locations).  Termination and totality are in
   SolverFullProofs2.v. *)
From Coq Require Import ZArith Lia List Bool.
From Verif Require Import Base.ZBits CallConv.ShuffleModel CallConv.ShuffleProofs CallConv.SolverModel CallConv.SolverProofs
  CallConv.SolverFullModel.
Import ListNotations.
Local Open Scope Z_scope.

(* ---------------------------------------------------------------------------------------------- *)
(* lists *)

Lemma fset_length vs : forall i x, length (fset vs i x) = length vs.
Proof. induction vs as [| a r IH]; intros [| k] x; cbn [fset length]; auto. Qed.

Lemma nth_fset_eq vs : forall i x, (i < length vs)%nat -> nth_error (fset vs i x) i = Some x.
Proof.
  induction vs as [| a r IH]; intros [| k] x H; cbn [fset length nth_error] in *; try lia; [reflexivity|].
  apply IH. lia.
Qed.

Lemma nth_fset_ne vs : forall i j x, i <> j -> nth_error (fset vs i x) j = nth_error vs j.
Proof.
  induction vs as [| a r IH]; intros [| k] [| j] x H; cbn [fset nth_error]; try reflexivity; try congruence.
  apply IH. congruence.
Qed.

Lemma fset_fset vs : forall i x y, fset (fset vs i x) i y = fset vs i y.
Proof. induction vs as [| a r IH]; intros [| k] x y; cbn [fset]; try reflexivity. rewrite IH. reflexivity. Qed.

Lemma nth_fset2 vs i j x y k : (i < length vs)%nat -> (j < length vs)%nat -> i <> j ->
  nth_error (fset (fset vs i x) j y) k =
  if Nat.eq_dec k j then Some y else if Nat.eq_dec k i then Some x else nth_error vs k.
Proof.
  intros Hi Hj Hij. destruct (Nat.eq_dec k j) as [E | E].
  - subst. apply nth_fset_eq. rewrite fset_length. assumption.
  - rewrite nth_fset_ne by congruence. destruct (Nat.eq_dec k i) as [E2 | E2].
    + subst. apply nth_fset_eq. assumption.
    + apply nth_fset_ne. congruence.
Qed.

Lemma fold_seq_ind {S : Type} (f : S -> nat -> S) (P : nat -> S -> Prop) :
  (forall k s, P k s -> P (Datatypes.S k) (f s k)) -> forall n s, P O s -> P n (fold_left f (seq 0 n) s).
Proof.
  intros Hstep. assert (G : forall n k s, P k s -> P (k + n)%nat (fold_left f (seq k n) s)).
  { induction n as [| n IH]; intros k s H; cbn [seq fold_left].
    - rewrite Nat.add_0_r. assumption.
    - replace (k + Datatypes.S n)%nat with (Datatypes.S k + n)%nat by lia. apply IH. apply Hstep. assumption. }
  intros n s H. apply (G n O s H).
Qed.

Lemma loc_eqb_true a b : loc_eqb a b = true <-> a = b.
Proof. destruct (loc_eqb_spec a b); split; congruence. Qed.

Lemma loc_eqb_false a b : loc_eqb a b = false <-> a <> b.
Proof. destruct (loc_eqb_spec a b); split; congruence. Qed.

(* ---------------------------------------------------------------------------------------------- *)
(* fassigned / ffind / scratch choice *)

Lemma fassigned_true vs l : fassigned vs l = true <-> exists k v, nth_error vs k = Some v /\ f_cur v = l.
Proof.
  unfold fassigned. rewrite existsb_exists. split.
  - intros [v [Hin He]]. apply In_nth_error in Hin. destruct Hin as [k Hk]. exists k, v. split; [assumption|].
    apply loc_eqb_true. assumption.
  - intros [k [v [Hk He]]]. exists v. split; [eapply nth_error_In; eassumption | apply loc_eqb_true; assumption].
Qed.

Lemma fassigned_false vs l k v : fassigned vs l = false -> nth_error vs k = Some v -> f_cur v <> l.
Proof.
  intros Ha Hk He. assert (fassigned vs l = true) by (apply fassigned_true; eauto). congruence.
Qed.

Lemma ffind_some vs l : forall k j, ffind vs l k = Some j ->
  exists j', j = (k + j')%nat /\ exists alt, nth_error vs j' = Some alt /\ f_cur alt = l.
Proof.
  induction vs as [| a rest IH]; intros k j H; cbn [ffind] in H; [discriminate|].
  destruct (loc_eqb_spec (f_cur a) l) as [E | E].
  - inversion H. exists O. split; [lia|]. exists a. split; [reflexivity | exact E].
  - apply IH in H. destruct H as [j' [Hj [alt [Hn Hc]]]]. exists (S j'). split; [lia|]. exists alt. split; [exact Hn | exact Hc].
Qed.

Lemma ffind_none vs l : forall k, ffind vs l k = None -> fassigned vs l = false.
Proof.
  induction vs as [| a rest IH]; intros k H; cbn [ffind] in H; [reflexivity|].
  unfold fassigned. cbn [existsb]. destruct (loc_eqb_spec (f_cur a) l); [discriminate|]. cbn [orb]. eapply IH; eassumption.
Qed.

Section Step.
Variable a : farch.
Variables wgp wvec : list Z.

Definition fscratch (vs : list fvar) (g : Z) : option Z :=
  let avail := favail wgp wvec vs g in
  let pref := filter (fun r => negb (existsb (fun u => loc_eqb (f_out u) (Reg g r)) vs)) avail in
  zmin_list (match pref with [] => avail | _ => pref end).

Lemma fscratch_some vs g sc : fscratch vs g = Some sc -> In sc (work_of wgp wvec g) /\ fassigned vs (Reg g sc) = false.
Proof.
  unfold fscratch. intros H. apply zmin_list_in in H.
  assert (Ha : In sc (favail wgp wvec vs g)).
  { destruct (filter (fun r => negb (existsb (fun u => loc_eqb (f_out u) (Reg g r)) vs)) (favail wgp wvec vs g)) eqn:E.
    - assumption.
    - rewrite <- E in H. apply filter_In in H. tauto. }
  unfold favail in Ha. apply filter_In in Ha. destruct Ha as [H1 H2]. split; [assumption|].
  destruct (fassigned vs (Reg g sc)); [discriminate | reflexivity].
Qed.

Lemma fscratch_none vs g r : fscratch vs g = None -> In r (work_of wgp wvec g) -> fassigned vs (Reg g r) = true.
Proof.
  unfold fscratch. intros H Hr.
  destruct (filter (fun r => negb (existsb (fun u => loc_eqb (f_out u) (Reg g r)) vs)) (favail wgp wvec vs g)) eqn:E.
  - apply zmin_list_none in H. destruct (fassigned vs (Reg g r)) eqn:Ea; [reflexivity|].
    assert (In r (favail wgp wvec vs g)) by (unfold favail; apply filter_In; rewrite Ea; tauto).
    rewrite H in *. contradiction.
  - apply zmin_list_none in H. discriminate.
Qed.

Lemma favail_in vs g sc : In sc (favail wgp wvec vs g) -> In sc (work_of wgp wvec g) /\ fassigned vs (Reg g sc) = false.
Proof.
  unfold favail. intros Ha. apply filter_In in Ha. destruct Ha as [H1 H2]. split; [assumption|].
  destruct (fassigned vs (Reg g sc)); [discriminate | reflexivity].
Qed.

(* one step of the register shuffle: the possible outcomes *)
Definition reg_pair (v : fvar) : Prop := exists g c o, f_cur v = Reg g c /\ f_out v = Reg g o.

Inductive fstep_spec (s : fstate) (i : nat) : fstate -> Prop :=
| FS_none : nth_error (fs_vars s) i = None -> fstep_spec s i s
| FS_done v : nth_error (fs_vars s) i = Some v -> f_done v = true -> fstep_spec s i s
| FS_skip v : nth_error (fs_vars s) i = Some v -> f_done v = false -> ~ reg_pair v -> fstep_spec s i s
| FS_move v g c o : nth_error (fs_vars s) i = Some v -> f_done v = false -> f_cur v = Reg g c -> f_out v = Reg g o ->
    negb (fassigned (fs_vars s) (Reg g o)) || (c =? o) = true ->
    fstep_spec s i (mkFS (fset (fs_vars s) i (fmoved v (Reg g o) true))
                         (fs_emit s ++ [fconv a (Reg g o) (Reg g c) (f_int v) (f_csz v) (f_csg v) (f_osz v) (f_osg v)])
                         true true (fs_postponed s))
| FS_xchg v g c o j alt : nth_error (fs_vars s) i = Some v -> f_done v = false -> f_cur v = Reg g c -> f_out v = Reg g o ->
    fassigned (fs_vars s) (Reg g o) = true -> c <> o ->
    ffind (fs_vars s) (Reg g o) O = Some j -> nth_error (fs_vars s) j = Some alt -> f_cur alt = Reg g o ->
    loc_eqb (f_out alt) (Reg g c) || (fs_postponed s && negb (f_done alt)) = true -> grp_swap a g = true ->
    fstep_spec s i
      (let mutual := loc_eqb (f_out alt) (Reg g c) in
       let stuck := fs_postponed s && negb (f_done alt) in
       let alt_done := mutual && negb (fneeds_ext alt) in
       mkFS (fset (fset (fs_vars s) i (fupd v (Reg g o) (negb (fneeds_ext v)))) j (fupd alt (Reg g c) alt_done))
            (fs_emit s ++ [IXchg (Reg g o) (Reg g c) (if Z.max (f_csz v) (f_csz alt) <=? 4 then 32 else 64) 64]) true
            (fs_pending s || fneeds_ext v || negb alt_done) (if stuck && negb mutual then false else fs_postponed s))
| FS_scr v g c o j alt sc : nth_error (fs_vars s) i = Some v -> f_done v = false -> f_cur v = Reg g c -> f_out v = Reg g o ->
    fassigned (fs_vars s) (Reg g o) = true -> c <> o ->
    ffind (fs_vars s) (Reg g o) O = Some j -> nth_error (fs_vars s) j = Some alt -> f_cur alt = Reg g o ->
    loc_eqb (f_out alt) (Reg g c) || (fs_postponed s && negb (f_done alt)) = true -> grp_swap a g = false ->
    fscratch (fs_vars s) g = Some sc ->
    fstep_spec s i
      (let mutual := loc_eqb (f_out alt) (Reg g c) in
       let stuck := fs_postponed s && negb (f_done alt) in
       mkFS (fset (fs_vars s) i (fmoved v (Reg g sc) false))
            (fs_emit s ++ [fconv a (Reg g sc) (Reg g c) (f_int v) (f_csz v) (f_csg v) (f_osz v) (f_osg v)]) true true
            (if stuck && negb mutual then false else fs_postponed s))
| FS_noscr v g c o j alt : nth_error (fs_vars s) i = Some v -> f_done v = false -> f_cur v = Reg g c -> f_out v = Reg g o ->
    fassigned (fs_vars s) (Reg g o) = true -> c <> o ->
    ffind (fs_vars s) (Reg g o) O = Some j -> nth_error (fs_vars s) j = Some alt -> f_cur alt = Reg g o ->
    loc_eqb (f_out alt) (Reg g c) || (fs_postponed s && negb (f_done alt)) = true -> grp_swap a g = false ->
    fscratch (fs_vars s) g = None ->
    fstep_spec s i (mkFS (fs_vars s) (fs_emit s) (fs_did s) true (fs_postponed s))
| FS_wait v g c o j alt : nth_error (fs_vars s) i = Some v -> f_done v = false -> f_cur v = Reg g c -> f_out v = Reg g o ->
    fassigned (fs_vars s) (Reg g o) = true -> c <> o ->
    ffind (fs_vars s) (Reg g o) O = Some j -> nth_error (fs_vars s) j = Some alt -> f_cur alt = Reg g o ->
    loc_eqb (f_out alt) (Reg g c) || (fs_postponed s && negb (f_done alt)) = false ->
    fstep_spec s i (mkFS (fs_vars s) (fs_emit s) (fs_did s) true (fs_postponed s)).

Lemma fstep_spec_ok s i : fstep_spec s i (fstep a wgp wvec s i).
Proof.
  unfold fstep.
  destruct (nth_error (fs_vars s) i) as [v |] eqn:Hv; [| apply FS_none; assumption].
  destruct (f_done v) eqn:Hd; [eapply FS_done; eassumption|].
  destruct (f_cur v) as [g c | ca co] eqn:Ec.
  2:{ eapply FS_skip; [eassumption | assumption |]. intros [g [c [o [H1 H2]]]]. congruence. }
  destruct (f_out v) as [g' o | oa oo] eqn:Eo.
  2:{ eapply FS_skip; [eassumption | assumption |]. intros [g1 [c1 [o1 [H1 H2]]]]. congruence. }
  destruct (Z.eqb_spec g g') as [Eg | Eg]; cbn [negb].
  2:{ eapply FS_skip; [eassumption | assumption |]. intros [g1 [c1 [o1 [H1 H2]]]]. congruence. }
  subst g'.
  destruct (negb (fassigned (fs_vars s) (Reg g o)) || (c =? o)) eqn:Hc.
  - eapply FS_move; eassumption.
  - apply orb_false_elim in Hc. destruct Hc as [Hc1 Hc2]. apply negb_false_iff in Hc1. apply Z.eqb_neq in Hc2.
    destruct (ffind (fs_vars s) (Reg g o) 0) as [j |] eqn:Hf.
    + destruct (ffind_some _ _ _ _ Hf) as [j' [Hj [alt [Hn Hca]]]]. cbn in Hj. subst j'.
      rewrite Hn.
      destruct (loc_eqb (f_out alt) (Reg g c) || (fs_postponed s && negb (f_done alt))) eqn:Hm.
      * destruct (grp_swap a g) eqn:Hs.
        -- eapply (FS_xchg s i v g c o j alt); eassumption.
        -- fold (fscratch (fs_vars s) g). destruct (fscratch (fs_vars s) g) as [sc |] eqn:Hsc.
           ++ eapply (FS_scr s i v g c o j alt sc); eassumption.
           ++ eapply (FS_noscr s i v g c o j alt); eassumption.
      * eapply (FS_wait s i v g c o j alt); eassumption.
    + apply ffind_none in Hf. congruence.
Qed.

End Step.

(* ---------------------------------------------------------------------------------------------- *)
(* arithmetic of the emitted instructions *)

(* 32 / 64-byte vectors (YMM / ZMM) only with the VEX / EVEX encodings *)
Definition vsz_ok (a : farch) (z : Z) : Prop := z = 4 \/ z = 8 \/ z = 16 \/ (a = FX64A /\ (z = 32 \/ z = 64)).

(* the types of a variable: integers of 1/2/4/8 bytes on both sides, or the same 4/8/16-byte non-integer type on both sides *)
Definition ty_ok (a : farch) (int : bool) (csz : Z) (csg : bool) (osz : Z) (osg : bool) : Prop :=
  if int then sz_ok csz /\ sz_ok osz else vsz_ok a csz /\ osz = csz /\ csg = false /\ osg = false.

Lemma ty_ok_range a int csz csg osz osg : ty_ok a int csz csg osz osg -> 1 <= csz <= 64 /\ 1 <= osz <= 64.
Proof. unfold ty_ok, sz_ok, vsz_ok. destruct int; lia. Qed.

Lemma ty_ok_nonint a csz csg osz osg : ty_ok a false csz csg osz osg -> osz = csz.
Proof. unfold ty_ok. tauto. Qed.

Lemma ty_ok_moved a int csz csg osz osg : ty_ok a int csz csg osz osg -> ty_ok a int osz osg osz osg.
Proof. unfold ty_ok. destruct int; [tauto|]. intros [H1 [H2 [H3 H4]]]. subst. tauto. Qed.

(* the requirement of fmove_of depends on the types only *)
Definition fmk_mv (int : bool) (csz : Z) (csg : bool) (osz : Z) (osg : bool) : move :=
  {| m_src := Reg 0 0; m_dst := Reg 0 0; m_sbits := 8 * csz; m_ssigned := csg && osg; m_dbits := 8 * osz;
     m_int := int && negb (csg && negb osg && (csz <? osz)) |}.

Lemma dst_ok_fmove_of v0 x c :
  dst_ok (fmove_of v0) x c <-> dst_ok (fmk_mv (f_int v0) (f_csz v0) (f_csg v0) (f_osz v0) (f_osg v0)) x c.
Proof. unfold dst_ok, fmove_of, fmk_mv. cbn [m_int m_sbits m_dbits m_ssigned]. tauto. Qed.

Definition fc_params (a : farch) (reg int : bool) (csz : Z) (csg : bool) (osz : Z) (osg : bool) : ext * Z * Z * Z :=
  match fconv a (Reg 0 0) (if reg then Reg 0 0 else Mem 0 0) int csz csg osz osg with
  | IExt _ _ e n w wz => (e, n, w, wz)
  | IXchg _ _ _ _ => (EZ, 0, 0, 0)
  end.

Lemma fconv_eq a d s int csz csg osz osg :
  fconv a d s int csz csg osz osg =
  let '(e, n, w, wz) := fc_params a (is_regl s) int csz csg osz osg in IExt d s e n w wz.
Proof.
  unfold fc_params, fconv. destruct s; cbn [is_regl]; destruct a, int; cbv zeta;
    repeat match goal with |- context [if ?b then _ else _] => destruct b end; reflexivity.
Qed.

Definition fparam_check (p : ext * Z * Z * Z) (int : bool) (csz : Z) (csg : bool) (osz : Z) (osg : bool) : bool :=
  let '(e, n, w, wz) := p in
  let mv := fmk_mv int csz csg osz osg in
  (0 <? n) && (n <=? w) && (w <=? wz) &&
  (((n <=? 8 * csz) && check_move mv (AExt (Reg 0 0) n e w wz)) ||
   (is_ez e && (n =? w) && negb (m_int mv && (8 * csz <? 8 * osz)) && (Z.min (8 * csz) (8 * osz) <=? n))) &&
  (negb (csz =? osz) || (8 * osz <=? n)).

(* the finite case analysis: 2 architectures x register / memory source x types *)
Lemma fc_params_ok a reg int csz csg osz osg : ty_ok a int csz csg osz osg ->
  fparam_check (fc_params a reg int csz csg osz osg) int csz csg osz osg = true.
Proof.
  unfold ty_ok. destruct int.
  - intros [[H1 | [H1 | [H1 | H1]]] [H2 | [H2 | [H2 | H2]]]]; subst; destruct a, reg, csg, osg; vm_compute; reflexivity.
  - intros [[H1 | [H1 | [H1 | [Ha [H1 | H1]]]]] [H2 [H3 H4]]]; subst; try (destruct a); destruct reg; vm_compute; reflexivity.
Qed.

(* ONE lemma about the converting move / load: it writes the destination only; the value written satisfies the requirement
   when the source holds the not-yet-converted value, and keeps the low destination-size bits when the sizes are equal *)
Lemma fconv_sound a d s int csz csg osz osg st : ty_ok a int csz csg osz osg ->
  exists V, exec_inst st (fconv a d s int csz csg osz osg) = upd st d V /\
    (forall x, st s mod 2 ^ (8 * csz) = x mod 2 ^ (8 * csz) -> dst_ok (fmk_mv int csz csg osz osg) x V) /\
    (csz = osz -> V mod 2 ^ (8 * osz) = st s mod 2 ^ (8 * osz)).
Proof.
  intros Hty. pose proof (fc_params_ok a (is_regl s) int csz csg osz osg Hty) as Hp.
  destruct (ty_ok_range _ _ _ _ _ _ Hty) as [Hc0 Ho0].
  rewrite fconv_eq. destruct (fc_params a (is_regl s) int csz csg osz osg) as [[[e n] w] wz]. cbn [exec_inst].
  eexists. split; [reflexivity|].
  unfold fparam_check in Hp.
  apply andb_prop in Hp. destruct Hp as [Hp H5]. apply andb_prop in Hp. destruct Hp as [Hp H4].
  apply andb_prop in Hp. destruct Hp as [Hp H3]. apply andb_prop in Hp. destruct Hp as [H1 H2].
  apply Z.ltb_lt in H1. apply Z.leb_le in H2. apply Z.leb_le in H3.
  split.
  - intros x E. apply orb_prop in H4. destruct H4 as [H4 | H4].
    + apply andb_prop in H4. destruct H4 as [Hn Hck]. apply Z.leb_le in Hn.
      apply ext_ok_read; try assumption.
    + apply andb_prop in H4. destruct H4 as [H4 Hm]. apply andb_prop in H4. destruct H4 as [H4 Hcond].
      apply andb_prop in H4. destruct H4 as [He Hnw]. apply Z.eqb_eq in Hnw. apply Z.leb_le in Hm.
      apply negb_true_iff in Hcond. destruct e; [| discriminate]. subst w.
      apply ext_ok_copy; cbn [fmk_mv m_sbits m_dbits m_int] in *; try assumption; lia.
  - intros Eq. apply orb_prop in H5. destruct H5 as [H5 | H5].
    + apply negb_true_iff in H5. apply Z.eqb_neq in H5. contradiction.
    + apply Z.leb_le in H5. rewrite low_of_put by lia. apply extv_low; lia.
Qed.

Lemma fconv_writes a d s int csz csg osz osg : inst_writes (fconv a d s int csz csg osz osg) = [d].
Proof. rewrite fconv_eq. destruct (fc_params a (is_regl s) int csz csg osz osg) as [[[e n] w] wz]. reflexivity. Qed.

Lemma fconv_wf a d s int csz csg osz osg : ty_ok a int csz csg osz osg -> wf_inst (fconv a d s int csz csg osz osg) = true.
Proof.
  intros Hty. pose proof (fc_params_ok a (is_regl s) int csz csg osz osg Hty) as Hp.
  rewrite fconv_eq. destruct (fc_params a (is_regl s) int csz csg osz osg) as [[[e n] w] wz]. cbn [wf_inst].
  unfold fparam_check in Hp. apply andb_prop in Hp. destruct Hp as [Hp _]. apply andb_prop in Hp. destruct Hp as [Hp _]. exact Hp.
Qed.

(* the store: exactly n bits, copied *)
Lemma fstore_sound d s n st : 0 <= n ->
  exists V, exec_inst st (fstore d s n) = upd st d V /\ forall m, 0 <= m <= n -> V mod 2 ^ m = st s mod 2 ^ m.
Proof.
  intros Hn. unfold fstore. cbn [exec_inst extv]. eexists. split; [reflexivity|].
  intros m Hm. apply xchg_low; lia.
Qed.

(* ---------------------------------------------------------------------------------------------- *)
(* the invariant of the variable list w.r.t. the original variables and the initial machine state *)

Definition fcur_inj (vs : list fvar) : Prop :=
  forall i j vi vj, nth_error vs i = Some vi -> nth_error vs j = Some vj -> f_cur vi = f_cur vj -> i = j.
Definition fout_inj (vs : list fvar) : Prop :=
  forall i j vi vj, nth_error vs i = Some vi -> nth_error vs j = Some vj -> f_out vi = f_out vj -> i = j.

Lemma fcur_inj_set vs i v x :
  fcur_inj vs -> nth_error vs i = Some v ->
  (forall k u, k <> i -> nth_error vs k = Some u -> f_cur u <> f_cur x) -> fcur_inj (fset vs i x).
Proof.
  intros Hinj Hv Hfree p q va vb Ha Hb E.
  pose proof (nth_error_lt _ _ _ Hv) as Hi.
  destruct (Nat.eq_dec p i) as [Ea | Ea]; destruct (Nat.eq_dec q i) as [Eb | Eb]; subst; try reflexivity.
  - rewrite nth_fset_eq in Ha by assumption. rewrite nth_fset_ne in Hb by congruence.
    inversion Ha; subst. exfalso. eapply Hfree; [| eassumption |]; [congruence | congruence].
  - rewrite nth_fset_eq in Hb by assumption. rewrite nth_fset_ne in Ha by congruence.
    inversion Hb; subst. exfalso. eapply Hfree; [| eassumption |]; [congruence | congruence].
  - rewrite nth_fset_ne in Ha by congruence. rewrite nth_fset_ne in Hb by congruence. eapply Hinj; eassumption.
Qed.

Lemma fcur_inj_swap vs i j v alt x y :
  fcur_inj vs -> nth_error vs i = Some v -> nth_error vs j = Some alt -> i <> j ->
  f_cur x = f_cur alt -> f_cur y = f_cur v -> fcur_inj (fset (fset vs i x) j y).
Proof.
  intros Hinj Hv Ha Hij Ex Ey p q va vb Hva Hvb E.
  pose proof (nth_error_lt _ _ _ Hv) as Hi. pose proof (nth_error_lt _ _ _ Ha) as Hj.
  rewrite nth_fset2 in Hva, Hvb by assumption.
  destruct (Nat.eq_dec p j) as [Eaj | Eaj]; destruct (Nat.eq_dec q j) as [Ebj | Ebj]; subst; try reflexivity.
  - inversion Hva; subst va. destruct (Nat.eq_dec q i) as [Ebi | Ebi].
    + inversion Hvb; subst vb. exfalso. apply Hij. apply (Hinj i j v alt Hv Ha). congruence.
    + exfalso. apply Ebi. apply (Hinj q i vb v Hvb Hv). congruence.
  - inversion Hvb; subst vb. destruct (Nat.eq_dec p i) as [Eai | Eai].
    + inversion Hva; subst va. exfalso. apply Hij. apply (Hinj i j v alt Hv Ha). congruence.
    + exfalso. apply Eai. apply (Hinj p i va v Hva Hv). congruence.
  - destruct (Nat.eq_dec p i) as [Eai | Eai]; destruct (Nat.eq_dec q i) as [Ebi | Ebi]; subst; try reflexivity.
    + inversion Hva; subst va. exfalso. apply Ebj. apply (Hinj q j vb alt Hvb Ha). congruence.
    + inversion Hvb; subst vb. exfalso. apply Eaj. apply (Hinj p j va alt Hva Ha). congruence.
    + eapply Hinj; eassumption.
Qed.

(* the register group of a variable *)
Definition vgrp (v : fvar) : Z := if f_int v then 0 else 1.

Section Inv.
Variable a : farch.
Variables wgp wvec : list Z.
Variable vs0 : list fvar.
Variable st0 : state.

Definition locp (src : bool) (v : fvar) (l : loc) : Prop :=
  match l with
  | Reg g r => g = vgrp v /\ In r (work_of wgp wvec g)
  | Mem ar _ => ar = (if src then 0 else 1)
  end.

Definition v0_ok (v0 : fvar) : Prop :=
  ty_ok a (f_int v0) (f_csz v0) (f_csg v0) (f_osz v0) (f_osg v0) /\ locp true v0 (f_cur v0) /\ locp false v0 (f_out v0) /\
  (is_regl (f_cur v0) = false -> is_regl (f_out v0) = false -> f_int v0 = true).

Hypothesis Hv0 : forall i v0, nth_error vs0 i = Some v0 -> v0_ok v0.
Hypothesis Hout0 : fout_inj vs0.

(* frame *)
Definition fallowed (l : loc) : Prop := In l (map f_out vs0) \/ In l (map (Reg 0) wgp) \/ In l (map (Reg 1) wvec).
(* shape of the memory accesses that WRITE: a store goes to the destination slot of one variable, from a register, and replaces exactly the
   bytes of the destination type (32-bit x86: a byte from ESI / EDI ... is stored 32 bits wide); an exchange has register operands only *)
Definition acc_ok (i : minst) : Prop :=
  match i with
  | IExt (Mem ar off) s e n w wz =>
      exists v0, In v0 vs0 /\ f_out v0 = Mem ar off /\ e = EZ /\ w = n /\ wz = n /\ is_regl s = true /\
                 (n = 8 * f_osz v0 \/ (a = FX86 /\ f_osz v0 = 1 /\ n = 32))
  | IExt (Reg _ _) _ _ _ _ _ => True
  | IXchg x y _ _ => is_regl x = true /\ is_regl y = true
  end.
Definition fwr_ok (i : minst) : Prop := (forall l, In l (inst_writes i) -> fallowed l) /\ wf_inst i = true /\ acc_ok i.

Lemma work_allowed g r v : g = vgrp v -> In r (work_of wgp wvec g) -> fallowed (Reg g r).
Proof.
  unfold vgrp, work_of. intros E Hr. subst g. destruct (f_int v); cbn in Hr; right; [left | right]; apply in_map; assumption.
Qed.

Lemma fwr_ok_snoc emit i : Forall fwr_ok emit -> wf_inst i = true -> acc_ok i -> (forall l, In l (inst_writes i) -> fallowed l) -> Forall fwr_ok (emit ++ [i]).
Proof. intros H1 Hw Ha H2. apply Forall_app. split; [assumption|]. constructor; [split; [exact H2 | split; [exact Hw | exact Ha]] | constructor]. Qed.

Lemma acc_ok_fconv_reg g r s int csz csg osz osg : acc_ok (fconv a (Reg g r) s int csz csg osz osg).
Proof. rewrite fconv_eq. destruct (fc_params a (is_regl s) int csz csg osz osg) as [[[e n] w] wz]. exact I. Qed.

(* content c of the current location of v: not yet converted / converted *)
Definition val_rel (v0 v : fvar) (c : Z) : Prop :=
  let x := st0 (f_cur v0) in
  (f_csz v = f_csz v0 /\ f_csg v = f_csg v0 /\ c mod 2 ^ (8 * f_csz v0) = x mod 2 ^ (8 * f_csz v0)) \/
  (f_csz v = f_osz v0 /\ f_csg v = f_osg v0 /\ dst_ok (fmove_of v0) x c).

Definition cur_ok (v : fvar) : Prop :=
  match f_cur v with
  | Reg g r => g = vgrp v /\ In r (work_of wgp wvec g)
  | Mem ar _ => ar = 0 \/ f_cur v = f_out v
  end.

Definition vrel (st : state) (v0 v : fvar) : Prop :=
  f_out v = f_out v0 /\ f_osz v = f_osz v0 /\ f_osg v = f_osg v0 /\ f_int v = f_int v0 /\
  (f_done v = true -> f_cur v = f_out v /\ f_osz v <= f_csz v) /\
  cur_ok v /\
  val_rel v0 v (st (f_cur v)).

Definition finv (vars : list fvar) (emit : list minst) : Prop :=
  length vars = length vs0 /\ fcur_inj vars /\ Forall fwr_ok emit /\
  forall i v0 v, nth_error vs0 i = Some v0 -> nth_error vars i = Some v -> vrel (exec emit st0) v0 v.

Lemma vrel_ext st st' v0 v : st' (f_cur v) = st (f_cur v) -> vrel st v0 v -> vrel st' v0 v.
Proof. unfold vrel. intros E. rewrite E. tauto. Qed.

Lemma val_rel_ty v0 v c : ty_ok a (f_int v0) (f_csz v0) (f_csg v0) (f_osz v0) (f_osg v0) -> val_rel v0 v c ->
  ty_ok a (f_int v0) (f_csz v) (f_csg v) (f_osz v0) (f_osg v0).
Proof.
  intros Hty [[E1 [E2 _]] | [E1 [E2 _]]]; rewrite E1, E2; [assumption | eapply ty_ok_moved; eassumption].
Qed.

Lemma vrel_ty st v0 v : v0_ok v0 -> vrel st v0 v -> ty_ok a (f_int v) (f_csz v) (f_csg v) (f_osz v) (f_osg v).
Proof.
  intros [Hty _] [Ro [Rz [Rg [Ri [Rd [Rc Rv]]]]]]. rewrite Rz, Rg, Ri. eapply val_rel_ty; eassumption.
Qed.

(* val_rel looks at the low (current size) bits only *)
Lemma val_rel_low v0 v v' c c' : ty_ok a (f_int v0) (f_csz v0) (f_csg v0) (f_osz v0) (f_osg v0) ->
  f_csz v' = f_csz v -> f_csg v' = f_csg v ->
  c' mod 2 ^ (8 * f_csz v) = c mod 2 ^ (8 * f_csz v) -> val_rel v0 v c -> val_rel v0 v' c'.
Proof.
  intros Hty Ez Eg E [[E1 [E2 E3]] | [E1 [E2 E3]]]; [left | right]; (split; [congruence|]); (split; [congruence|]).
  - rewrite <- E1. rewrite E. rewrite E1. assumption.
  - destruct (ty_ok_range _ _ _ _ _ _ Hty) as [R1 R2].
    apply (dst_ok_low (fmove_of v0) _ c c'); unfold fmove_of; cbn [m_sbits m_dbits]; try lia; try assumption.
    rewrite <- E1. symmetry. assumption.
Qed.

(* the converting move / load *)
Lemma val_rel_conv_dst v0 v c V : ty_ok a (f_int v0) (f_csz v0) (f_csg v0) (f_osz v0) (f_osg v0) ->
  f_osz v = f_osz v0 -> f_osg v = f_osg v0 -> f_int v = f_int v0 ->
  val_rel v0 v c ->
  (forall x, c mod 2 ^ (8 * f_csz v) = x mod 2 ^ (8 * f_csz v) ->
             dst_ok (fmk_mv (f_int v) (f_csz v) (f_csg v) (f_osz v) (f_osg v)) x V) ->
  (f_csz v = f_osz v -> V mod 2 ^ (8 * f_osz v) = c mod 2 ^ (8 * f_osz v)) ->
  dst_ok (fmove_of v0) (st0 (f_cur v0)) V.
Proof.
  intros Hty Ez Eg Ei Hv P1 P2.
  destruct Hv as [[E1 [E2 E3]] | [E1 [E2 E3]]].
  - apply dst_ok_fmove_of. rewrite <- E1, <- E2, <- Ez, <- Eg, <- Ei. apply P1. rewrite E1. assumption.
  - destruct (ty_ok_range _ _ _ _ _ _ Hty) as [R1 R2].
    apply (dst_ok_low (fmove_of v0) _ c V); unfold fmove_of; cbn [m_sbits m_dbits]; try lia; try assumption.
    rewrite <- Ez. symmetry. apply P2. congruence.
Qed.

Lemma val_rel_conv v0 v v' c V : ty_ok a (f_int v0) (f_csz v0) (f_csg v0) (f_osz v0) (f_osg v0) ->
  f_osz v = f_osz v0 -> f_osg v = f_osg v0 -> f_int v = f_int v0 ->
  val_rel v0 v c ->
  (forall x, c mod 2 ^ (8 * f_csz v) = x mod 2 ^ (8 * f_csz v) ->
             dst_ok (fmk_mv (f_int v) (f_csz v) (f_csg v) (f_osz v) (f_osg v)) x V) ->
  (f_csz v = f_osz v -> V mod 2 ^ (8 * f_osz v) = c mod 2 ^ (8 * f_osz v)) ->
  f_csz v' = f_osz v -> f_csg v' = f_osg v ->
  val_rel v0 v' V.
Proof.
  intros Hty Ez Eg Ei Hv P1 P2 Z1 Z2. right. split; [congruence|]. split; [congruence|].
  eapply val_rel_conv_dst; eassumption.
Qed.

(* a value whose destination type is not wider already satisfies the requirement *)
Lemma val_rel_narrow v0 v c : ty_ok a (f_int v0) (f_csz v0) (f_csg v0) (f_osz v0) (f_osg v0) ->
  f_osz v = f_osz v0 -> f_osz v <= f_csz v -> val_rel v0 v c -> dst_ok (fmove_of v0) (st0 (f_cur v0)) c.
Proof.
  intros Hty Ez Hle [[E1 [E2 E3]] | [E1 [E2 E3]]]; [| assumption].
  destruct (ty_ok_range _ _ _ _ _ _ Hty) as [R1 R2].
  unfold dst_ok, fmove_of. cbn [m_int m_sbits m_dbits m_ssigned].
  destruct (Z.ltb_spec (8 * f_csz v0) (8 * f_osz v0)); [lia|]. rewrite andb_false_r.
  rewrite Z.min_r by lia.
  rewrite <- (mod_mod_pow2 c (8 * f_osz v0) (8 * f_csz v0)) by lia. rewrite E3.
  apply mod_mod_pow2; lia.
Qed.

Lemma finv_orig vars emit i v : finv vars emit -> nth_error vars i = Some v ->
  exists v0, nth_error vs0 i = Some v0 /\ v0_ok v0 /\ vrel (exec emit st0) v0 v.
Proof.
  intros [Hlen [_ [_ Hrel]]] Hv. pose proof (nth_error_lt _ _ _ Hv) as Hi.
  destruct (nth_error vs0 i) as [v0 |] eqn:E0; [| apply nth_error_None in E0; lia].
  exists v0. split; [reflexivity|]. split; [eapply Hv0; eassumption | apply Hrel with i; assumption].
Qed.

Lemma finv_out_inj vars emit : finv vars emit -> fout_inj vars.
Proof.
  intros Hinv i j vi vj Hi Hj E.
  destruct (finv_orig _ _ _ _ Hinv Hi) as [x [Hx [_ [Ea _]]]]. destruct (finv_orig _ _ _ _ Hinv Hj) as [y [Hy [_ [Eb _]]]].
  apply (Hout0 i j x y Hx Hy). congruence.
Qed.

Lemma finv_out_allowed vars emit i v : finv vars emit -> nth_error vars i = Some v -> fallowed (f_out v).
Proof.
  intros Hinv Hv. destruct (finv_orig _ _ _ _ Hinv Hv) as [x [Hx [_ [Ea _]]]]. left. rewrite Ea.
  apply in_map. eapply nth_error_In; eassumption.
Qed.

(* the destination of a variable: a work register of its group or an outgoing slot *)
Lemma finv_out_shape vars emit i v : finv vars emit -> nth_error vars i = Some v -> locp false v (f_out v).
Proof.
  intros Hinv Hv. destruct (finv_orig _ _ _ _ Hinv Hv) as [x [Hx [[_ [_ [Ho _]]] [Ea [_ [_ [Ei _]]]]]]].
  rewrite Ea. unfold locp, vgrp in *. rewrite Ei. assumption.
Qed.

Lemma finv_conv vars emit i v g r d :
  finv vars emit -> nth_error vars i = Some v ->
  (forall k u, k <> i -> nth_error vars k = Some u -> f_cur u <> Reg g r) -> (d = true -> Reg g r = f_out v) ->
  g = vgrp v -> In r (work_of wgp wvec g) ->
  finv (fset vars i (fmoved v (Reg g r) d))
       (emit ++ [fconv a (Reg g r) (f_cur v) (f_int v) (f_csz v) (f_csg v) (f_osz v) (f_osg v)]).
Proof.
  intros Hinv Hv Hfree Hd Hg Hr.
  destruct (finv_orig _ _ _ _ Hinv Hv) as [v0 [E0 [Hok Hvr]]].
  pose proof (vrel_ty _ _ _ Hok Hvr) as Hty.
  destruct Hinv as [Hlen [Hinj [Hfr Hrel]]].
  pose proof (nth_error_lt _ _ _ Hv) as Hi.
  destruct Hvr as [Ro [Rz [Rg [Ri [Rd [Rc Rv]]]]]].
  destruct (fconv_sound a (Reg g r) (f_cur v) (f_int v) (f_csz v) (f_csg v) (f_osz v) (f_osg v) (exec emit st0) Hty)
    as [V [HV [P1 P2]]].
  split; [rewrite fset_length; assumption|]. split; [| split].
  - eapply fcur_inj_set; [eassumption | eassumption |]. cbn [fmoved f_cur]. assumption.
  - apply fwr_ok_snoc; [assumption | apply fconv_wf; assumption | apply acc_ok_fconv_reg |]. intros l Hl. rewrite fconv_writes in Hl. destruct Hl as [E | []]. subst l.
    eapply work_allowed; eassumption.
  - intros k u0 u Hu0 Hu. rewrite exec_snoc, HV.
    destruct (Nat.eq_dec k i) as [E | E].
    + subst k. rewrite nth_fset_eq in Hu by assumption. inversion Hu; subst u. clear Hu.
      assert (u0 = v0) by congruence. subst u0.
      unfold vrel. cbn [fmoved f_out f_osz f_osg f_done f_cur f_csz f_int]. rewrite upd_same.
      split; [assumption|]. split; [assumption|]. split; [assumption|]. split; [assumption|]. split; [| split].
      * intros Hdt. split; [apply Hd; assumption | lia].
      * unfold cur_ok, vgrp. cbn [fmoved f_cur f_int]. split; assumption.
      * destruct Hok as [Hty0 _]. eapply (val_rel_conv v0 v); try eassumption; reflexivity.
    + rewrite nth_fset_ne in Hu by congruence.
      apply (vrel_ext (exec emit st0)); [| apply Hrel with k; assumption].
      apply upd_other. eapply Hfree; eassumption.
Qed.

Lemma store_bits_ge int r n : n <= store_bits a int r n.
Proof.
  unfold store_bits. destruct a; try lia. destruct (int && (n =? 8) && (4 <=? r)) eqn:E; [| lia].
  apply andb_prop in E. destruct E as [E _]. apply andb_prop in E. destruct E as [_ E]. apply Z.eqb_eq in E. lia.
Qed.

Lemma store_bits_shape int r z : store_bits a int r (8 * z) = 8 * z \/ (a = FX86 /\ z = 1 /\ store_bits a int r (8 * z) = 32).
Proof.
  unfold store_bits. destruct a; try (left; reflexivity).
  destruct (int && (8 * z =? 8) && (4 <=? r)) eqn:E; [| left; reflexivity].
  right. apply andb_prop in E. destruct E as [E _]. apply andb_prop in E. destruct E as [_ E]. apply Z.eqb_eq in E.
  split; [reflexivity|]. split; [lia | reflexivity].
Qed.

Lemma finv_store vars emit i v n :
  finv vars emit -> nth_error vars i = Some v -> is_regl (f_out v) = false ->
  (forall k u, k <> i -> nth_error vars k = Some u -> f_cur u <> f_out v) ->
  f_osz v <= f_csz v -> 8 * f_osz v <= n -> is_regl (f_cur v) = true ->
  (n = 8 * f_osz v \/ (a = FX86 /\ f_osz v = 1 /\ n = 32)) ->
  finv (fset vars i (fmoved v (f_out v) true)) (emit ++ [fstore (f_out v) (f_cur v) n]).
Proof.
  intros Hinv Hv Hmem Hfree Hle Hn Hcr Hshape.
  destruct (finv_orig _ _ _ _ Hinv Hv) as [v0 [E0 [Hok Hvr]]].
  pose proof (finv_out_allowed _ _ _ _ Hinv Hv) as Hal.
  destruct Hinv as [Hlen [Hinj [Hfr Hrel]]].
  pose proof (nth_error_lt _ _ _ Hv) as Hi.
  destruct Hvr as [Ro [Rz [Rg [Ri [Rd [Rc Rv]]]]]]. destruct Hok as [Hty0 _].
  destruct (ty_ok_range _ _ _ _ _ _ Hty0) as [R1 R2].
  destruct (fstore_sound (f_out v) (f_cur v) n (exec emit st0) ltac:(lia)) as [V [HV PV]].
  split; [rewrite fset_length; assumption|]. split; [| split].
  - eapply fcur_inj_set; [eassumption | eassumption |]. cbn [fmoved f_cur]. assumption.
  - apply fwr_ok_snoc; [assumption | | |].
    { unfold fstore. cbn [wf_inst]. rewrite !Z.leb_refl. replace (0 <? n) with true by (symmetry; apply Z.ltb_lt; lia). reflexivity. }
    { unfold fstore. destruct (f_out v) as [? ? | oa oo] eqn:Eout; [discriminate|]. cbn [acc_ok]. exists v0.
      split; [eapply nth_error_In; eassumption|]. split; [congruence|]. rewrite <- Rz. repeat split; try reflexivity; assumption. }
    intros l Hl. cbn [fstore inst_writes In] in Hl. destruct Hl as [E | []]. subst l.
    assumption.
  - intros k u0 u Hu0 Hu. rewrite exec_snoc, HV.
    destruct (Nat.eq_dec k i) as [E | E].
    + subst k. rewrite nth_fset_eq in Hu by assumption. inversion Hu; subst u. clear Hu.
      assert (u0 = v0) by congruence. subst u0.
      unfold vrel. cbn [fmoved f_out f_osz f_osg f_done f_cur f_csz f_int]. rewrite upd_same.
      split; [assumption|]. split; [assumption|]. split; [assumption|]. split; [assumption|]. split; [| split].
      * intros _. split; [reflexivity | lia].
      * unfold cur_ok. cbn [fmoved f_cur f_out]. destruct (f_out v); [discriminate | right; reflexivity].
      * right. cbn [fmoved f_csz f_csg]. split; [assumption|]. split; [assumption|].
        apply (dst_ok_low (fmove_of v0) _ (exec emit st0 (f_cur v)) V); unfold fmove_of; cbn [m_sbits m_dbits]; try lia.
        -- symmetry. apply PV. lia.
        -- eapply val_rel_narrow; eassumption.
    + rewrite nth_fset_ne in Hu by congruence.
      apply (vrel_ext (exec emit st0)); [| apply Hrel with k; assumption].
      apply upd_other. eapply Hfree; eassumption.
Qed.

Lemma grp_swap_true g : grp_swap a g = true -> g = 0.
Proof. unfold grp_swap. destruct a; try discriminate; apply Z.eqb_eq. Qed.

Lemma finv_xchg vars emit i j v alt g c o dv da :
  finv vars emit -> nth_error vars i = Some v -> nth_error vars j = Some alt ->
  f_cur v = Reg g c -> f_out v = Reg g o -> f_cur alt = Reg g o -> c <> o -> grp_swap a g = true ->
  (dv = true -> fneeds_ext v = false) -> (da = true -> f_out alt = Reg g c /\ fneeds_ext alt = false) ->
  finv (fset (fset vars i (fupd v (Reg g o) dv)) j (fupd alt (Reg g c) da))
       (emit ++ [IXchg (Reg g o) (Reg g c) (if Z.max (f_csz v) (f_csz alt) <=? 4 then 32 else 64) 64]).
Proof.
  intros Hinv Hv Ha Ecv Eov Eca Hne Hsw Hdv Hda.
  destruct (finv_orig _ _ _ _ Hinv Hv) as [v0 [Hv0' [Hok Hvr]]].
  destruct (finv_orig _ _ _ _ Hinv Ha) as [a0 [Ha0 [Hoka Har]]].
  pose proof (vrel_ty _ _ _ Hok Hvr) as Hty. pose proof (vrel_ty _ _ _ Hoka Har) as Htya.
  pose proof (finv_out_allowed _ _ _ _ Hinv Hv) as Hal.
  destruct Hinv as [Hlen [Hinj [Hfr Hrel]]].
  pose proof (nth_error_lt _ _ _ Hv) as Hi. pose proof (nth_error_lt _ _ _ Ha) as Hj.
  assert (Hij : i <> j). { intros E. subst j. assert (alt = v) by congruence. subst alt. congruence. }
  destruct Hvr as [Ro [Rz [Rg [Ri [Rd [Rc Rv]]]]]]. destruct Har as [Ao [Az [Ag [Ai [Ad [Ac Av]]]]]].
  destruct Hok as [Hty0 _]. destruct Hoka as [Htya0 _].
  pose proof (grp_swap_true g Hsw) as Hg0.
  unfold cur_ok in Rc, Ac. rewrite Ecv in Rc. rewrite Eca in Ac. destruct Rc as [Rc1 Rc2]. destruct Ac as [Ac1 Ac2].
  assert (Hiv : f_int v = true). { unfold vgrp in Rc1. destruct (f_int v); [reflexivity | lia]. }
  assert (Hia : f_int alt = true). { unfold vgrp in Ac1. destruct (f_int alt); [reflexivity | lia]. }
  rewrite Hiv in Hty. rewrite Hia in Htya. destruct Hty as [Scv _]. destruct Htya as [Sca _].
  assert (Hdv' : dv = true -> f_osz v <= f_csz v).
  { intros H. apply Hdv in H. unfold fneeds_ext in H. rewrite Hiv in H. cbn [andb] in H. apply Z.ltb_ge in H. assumption. }
  assert (Hda' : da = true -> f_out alt = Reg g c /\ f_osz alt <= f_csz alt).
  { intros H. apply Hda in H. destruct H as [H1 H]. split; [assumption|].
    unfold fneeds_ext in H. rewrite Hia in H. cbn [andb] in H. apply Z.ltb_ge in H. assumption. }
  set (w := if Z.max (f_csz v) (f_csz alt) <=? 4 then 32 else 64).
  assert (Hw : 8 * f_csz v <= w /\ 8 * f_csz alt <= w /\ w <= 64).
  { pose proof (sz_ok_range _ Scv). pose proof (sz_ok_range _ Sca).
    unfold w. destruct (Z.leb_spec (Z.max (f_csz v) (f_csz alt)) 4); lia. }
  assert (Hgne : Reg g c <> Reg g o) by congruence.
  split; [rewrite !fset_length; assumption|]. split; [| split].
  - eapply fcur_inj_swap; try eassumption; cbn [fupd f_cur]; congruence.
  - apply fwr_ok_snoc; [assumption | | |].
    { cbn [wf_inst]. fold w. replace (0 <? w) with true by (symmetry; apply Z.ltb_lt; pose proof (sz_ok_range _ Scv); lia).
      replace (w <=? 64) with true by (symmetry; apply Z.leb_le; lia).
      replace (loc_eqb (Reg g o) (Reg g c)) with false; [reflexivity|]. symmetry. apply loc_eqb_false. congruence. }
    { cbn [acc_ok is_regl]. split; reflexivity. }
    intros l Hl. cbn [inst_writes In] in Hl.
    destruct Hl as [E | [E | []]]; subst l; [rewrite <- Eov; assumption|].
    eapply work_allowed; eassumption.
  - intros k u0 u Hu0 Hu. rewrite exec_snoc. cbn [exec_inst]. set (st := exec emit st0) in *.
    rewrite nth_fset2 in Hu by assumption.
    destruct (Nat.eq_dec k j) as [Ekj | Ekj]; [| destruct (Nat.eq_dec k i) as [Eki | Eki]].
    + (* alt, now in the old register of v *)
      subst k. inversion Hu; subst u. clear Hu. assert (u0 = a0) by congruence. subst u0.
      unfold vrel. cbn [fupd f_out f_osz f_osg f_done f_cur f_csz f_csg f_int]. rewrite upd_same.
      split; [assumption|]. split; [assumption|]. split; [assumption|]. split; [assumption|]. split; [| split].
      * intros Hdt. destruct (Hda' Hdt) as [H1 H2]. split; [congruence | assumption].
      * unfold cur_ok, vgrp. cbn [fupd f_cur f_int]. split; [exact Ac1 | assumption].
      * apply (val_rel_low a0 alt _ (st (f_cur alt))); try assumption; try reflexivity.
        rewrite Eca. pose proof (sz_ok_range _ Sca). apply xchg_low; lia.
    + (* v, now in its destination register *)
      subst k. inversion Hu; subst u. clear Hu. assert (u0 = v0) by congruence. subst u0.
      unfold vrel. cbn [fupd f_out f_osz f_osg f_done f_cur f_csz f_csg f_int].
      rewrite upd_other by (intros E; apply Hgne; symmetry; exact E). rewrite upd_same.
      split; [assumption|]. split; [assumption|]. split; [assumption|]. split; [assumption|]. split; [| split].
      * intros Hdt. split; [symmetry; assumption | apply Hdv'; assumption].
      * unfold cur_ok, vgrp. cbn [fupd f_cur f_int]. split; [exact Rc1 | assumption].
      * apply (val_rel_low v0 v _ (st (f_cur v))); try assumption; try reflexivity.
        rewrite Ecv. pose proof (sz_ok_range _ Scv). apply xchg_low; lia.
    + apply (vrel_ext st); [| apply Hrel with k; assumption].
      rewrite !upd_other; [reflexivity | |].
      * intros E. apply Ekj. apply (Hinj k j u alt Hu Ha). congruence.
      * intros E. apply Eki. apply (Hinj k i u v Hu Hv). congruence.
Qed.

Lemma finv_cur_ok vars emit i v : finv vars emit -> nth_error vars i = Some v -> cur_ok v.
Proof. intros Hinv Hv. destruct (finv_orig _ _ _ _ Hinv Hv) as [v0 [_ [_ [_ [_ [_ [_ [_ [H _]]]]]]]]]. exact H. Qed.

Lemma finv_cur_reg vars emit i v g c : finv vars emit -> nth_error vars i = Some v -> f_cur v = Reg g c ->
  g = vgrp v /\ In c (work_of wgp wvec g).
Proof. intros Hinv Hv E. pose proof (finv_cur_ok _ _ _ _ Hinv Hv) as H. unfold cur_ok in H. rewrite E in H. exact H. Qed.

Lemma finv_out_reg vars emit i v g o : finv vars emit -> nth_error vars i = Some v -> f_out v = Reg g o ->
  g = vgrp v /\ In o (work_of wgp wvec g).
Proof. intros Hinv Hv E. pose proof (finv_out_shape _ _ _ _ Hinv Hv) as H. unfold locp in H. rewrite E in H. exact H. Qed.

Lemma finv_done_cur vars emit i v : finv vars emit -> nth_error vars i = Some v -> f_done v = true -> f_cur v = f_out v.
Proof.
  intros Hinv Hv Hd. destruct (finv_orig _ _ _ _ Hinv Hv) as [v0 [_ [_ [_ [_ [_ [_ [H _]]]]]]]]. apply H. assumption.
Qed.

Lemma fstep_inv s i s' : fstep_spec a wgp wvec s i s' -> finv (fs_vars s) (fs_emit s) -> finv (fs_vars s') (fs_emit s').
Proof.
  intros Hs Hinv. destruct Hs as [Hn | v Hv Hd | v Hv Hd Hnr | v g c o Hv Hd Ec Eo Hc | v g c o j alt Hv Hd Ec Eo Has Hne Hf Ha Eca Hm Hsw
    | v g c o j alt sc Hv Hd Ec Eo Has Hne Hf Ha Eca Hm Hsw Hsc | v g c o j alt Hv Hd Ec Eo Has Hne Hf Ha Eca Hm Hsw Hsc
    | v g c o j alt Hv Hd Ec Eo Has Hne Hf Ha Eca Hm];
    cbn [fs_vars fs_emit]; try assumption.
  - destruct (finv_out_reg _ _ _ _ _ _ Hinv Hv Eo) as [G1 G2]. rewrite <- Ec.
    apply finv_conv; try assumption; [| intros _; symmetry; assumption].
    intros k u Hk Hu E. apply orb_prop in Hc. destruct Hc as [Hc | Hc].
    + apply negb_true_iff in Hc. exact (fassigned_false _ _ _ _ Hc Hu E).
    + apply Z.eqb_eq in Hc. apply Hk. destruct Hinv as [_ [Hinj _]]. apply (Hinj k i u v Hu Hv). congruence.
  - cbv zeta. apply finv_xchg; try assumption.
    + intros H. apply negb_true_iff in H. assumption.
    + intros H. apply andb_prop in H. destruct H as [H1 H2]. apply loc_eqb_true in H1.
      apply negb_true_iff in H2. split; assumption.
  - cbv zeta. destruct (finv_cur_reg _ _ _ _ _ _ Hinv Hv Ec) as [G1 _]. rewrite <- Ec.
    destruct (fscratch_some _ _ _ _ _ Hsc) as [S1 S2].
    apply finv_conv; try assumption; [| discriminate].
    intros k u Hk Hu. exact (fassigned_false _ _ _ _ S2 Hu).
Qed.

(* after phase 1 every variable bound for a stack slot has been stored *)
Definition stk_done (vars : list fvar) : Prop :=
  forall k u, nth_error vars k = Some u -> is_regl (f_out u) = false -> f_done u = true.

Lemma fstep_stk_done s i s' : fstep_spec a wgp wvec s i s' -> finv (fs_vars s) (fs_emit s) ->
  stk_done (fs_vars s) -> stk_done (fs_vars s').
Proof.
  intros Hs Hinv Hsd. destruct Hs as [Hn | v Hv Hd | v Hv Hd Hnr | v g c o Hv Hd Ec Eo Hc | v g c o j alt Hv Hd Ec Eo Has Hne Hf Ha Eca Hm Hsw
    | v g c o j alt sc Hv Hd Ec Eo Has Hne Hf Ha Eca Hm Hsw Hsc | v g c o j alt Hv Hd Ec Eo Has Hne Hf Ha Eca Hm Hsw Hsc
    | v g c o j alt Hv Hd Ec Eo Has Hne Hf Ha Eca Hm];
    cbn [fs_vars]; try assumption.
  - pose proof (nth_error_lt _ _ _ Hv) as Hi. intros k u Hu Hm. destruct (Nat.eq_dec k i) as [E | E].
    + subst k. rewrite nth_fset_eq in Hu by assumption. inversion Hu; subst u. reflexivity.
    + rewrite nth_fset_ne in Hu by congruence. eapply Hsd; eassumption.
  - cbv zeta. pose proof (nth_error_lt _ _ _ Hv) as Hi. pose proof (nth_error_lt _ _ _ Ha) as Hj.
    assert (Hij : i <> j). { intros E. subst j. assert (alt = v) by congruence. subst alt. congruence. }
    intros k u Hu Hmm. rewrite nth_fset2 in Hu by assumption.
    destruct (Nat.eq_dec k j); [| destruct (Nat.eq_dec k i)].
    + inversion Hu; subst u. cbn [fupd f_out] in Hmm. exfalso.
      pose proof (Hsd j alt Ha Hmm) as Hda. pose proof (finv_done_cur _ _ _ _ Hinv Ha Hda) as E.
      rewrite <- E, Eca in Hmm. discriminate.
    + inversion Hu; subst u. cbn [fupd f_out] in Hmm. rewrite Eo in Hmm. discriminate.
    + eapply Hsd; eassumption.
  - cbv zeta. pose proof (nth_error_lt _ _ _ Hv) as Hi. intros k u Hu Hmm. destruct (Nat.eq_dec k i) as [E | E].
    + subst k. rewrite nth_fset_eq in Hu by assumption. inversion Hu; subst u. cbn [fmoved f_out] in Hmm.
      rewrite Eo in Hmm. discriminate.
    + rewrite nth_fset_ne in Hu by congruence. eapply Hsd; eassumption.
Qed.

(* ---------------------------------------------------------------------------------------------- *)
(* phase 2: passes and the outer loop *)

Definition P2 (s : fstate) : Prop := finv (fs_vars s) (fs_emit s) /\ stk_done (fs_vars s).

Lemma fstep_P2 s i : P2 s -> P2 (fstep a wgp wvec s i).
Proof.
  intros [H1 H2]. pose proof (fstep_spec_ok a wgp wvec s i) as Hs.
  split; [eapply fstep_inv; eassumption | eapply fstep_stk_done; eassumption].
Qed.

Lemma ffold_step_inv (P : fstate -> Prop) :
  (forall s i, P s -> P (fstep a wgp wvec s i)) -> forall l s, P s -> P (fold_left (fstep a wgp wvec) l s).
Proof. intros H l. induction l as [| i r IH]; intros s Hs; cbn [fold_left]; [assumption | apply IH, H, Hs]. Qed.

Lemma fpass_P2 s : P2 s -> P2 (fpass a wgp wvec s).
Proof. unfold fpass. apply ffold_step_inv. apply fstep_P2. Qed.

(* a variable phase 2 has nothing (more) to do for *)
Definition settled_at (s : fstate) (k : nat) : Prop :=
  forall v, nth_error (fs_vars s) k = Some v -> f_done v = true \/ ~ reg_pair v.

Lemma fstep_pending s i s' : fstep_spec a wgp wvec s i s' -> fs_pending s' = false ->
  fs_pending s = false /\ (forall k, settled_at s k -> settled_at s' k) /\ settled_at s' i.
Proof.
  intros Hs Hp. destruct Hs as [Hn | v Hv Hd | v Hv Hd Hnr | v g c o Hv Hd Ec Eo Hc | v g c o j alt Hv Hd Ec Eo Has Hne Hf Ha Eca Hm Hsw
    | v g c o j alt sc Hv Hd Ec Eo Has Hne Hf Ha Eca Hm Hsw Hsc | v g c o j alt Hv Hd Ec Eo Has Hne Hf Ha Eca Hm Hsw Hsc
    | v g c o j alt Hv Hd Ec Eo Has Hne Hf Ha Eca Hm];
    cbn [fs_pending] in Hp; try discriminate.
  - split; [assumption|]. split; [tauto|]. intros v Hv. congruence.
  - split; [assumption|]. split; [tauto|]. intros v' Hv'. left. congruence.
  - split; [assumption|]. split; [tauto|]. intros v' Hv'. right. congruence.
  - cbv zeta in Hp. apply orb_false_elim in Hp. destruct Hp as [Hp H3]. apply orb_false_elim in Hp. destruct Hp as [H1 H2].
    apply negb_false_iff in H3.
    pose proof (nth_error_lt _ _ _ Hv) as Hi. pose proof (nth_error_lt _ _ _ Ha) as Hj.
    assert (Hij : i <> j). { intros E. subst j. assert (alt = v) by congruence. subst alt. congruence. }
    split; [assumption|]. unfold settled_at. cbn [fs_vars]. split.
    + intros k Hk u Hu. rewrite nth_fset2 in Hu by assumption.
      destruct (Nat.eq_dec k j); [| destruct (Nat.eq_dec k i)].
      * inversion Hu; subst u. cbn [fupd f_done]. left. assumption.
      * inversion Hu; subst u. cbn [fupd f_done]. rewrite H2. left. reflexivity.
      * apply Hk. assumption.
    + intros u Hu. rewrite nth_fset2 in Hu by assumption.
      destruct (Nat.eq_dec i j); [contradiction|]. destruct (Nat.eq_dec i i); [| contradiction].
      inversion Hu; subst u. cbn [fupd f_done]. rewrite H2. left. reflexivity.
Qed.

Lemma ffold_pending l : forall s, fs_pending (fold_left (fstep a wgp wvec) l s) = false ->
  fs_pending s = false /\ (forall k, settled_at s k -> settled_at (fold_left (fstep a wgp wvec) l s) k) /\
  forall i, In i l -> settled_at (fold_left (fstep a wgp wvec) l s) i.
Proof.
  induction l as [| i r IH]; intros s Hp; cbn [fold_left] in *.
  - split; [assumption|]. split; [tauto|]. intros i [].
  - destruct (IH _ Hp) as [H1 [H2 H3]].
    destruct (fstep_pending s i _ (fstep_spec_ok a wgp wvec s i) H1) as [G1 [G2 G3]].
    split; [assumption|]. split; [intros k Hk; apply H2, G2, Hk|].
    intros k [E | Hin]; [subst k; apply H2, G3 | apply H3, Hin].
Qed.

Lemma fpass_pending s : fs_pending (fpass a wgp wvec s) = false -> forall k, settled_at (fpass a wgp wvec s) k.
Proof.
  intros Hp k. unfold fpass in *. destruct (ffold_pending _ _ Hp) as [_ [H2 H3]].
  destruct (Nat.lt_ge_cases k (length (fs_vars s))) as [Hk | Hk].
  - apply H3. apply in_seq. lia.
  - apply H2. intros v Hv. apply nth_error_lt in Hv. lia.
Qed.

Lemma floop_ok fuel : forall vs emit p vs2 ms, finv vs emit -> stk_done vs -> floop a wgp wvec fuel vs emit p = FOk vs2 ms ->
  finv vs2 ms /\ stk_done vs2 /\ forall k v, nth_error vs2 k = Some v -> f_done v = true \/ ~ reg_pair v.
Proof.
  induction fuel as [| f IH]; intros vs emit p vs2 ms Hinv Hsd H; cbn [floop] in H; [discriminate|].
  set (s := fpass a wgp wvec (mkFS vs emit false false p)) in *.
  assert (Hs : P2 s) by (apply fpass_P2; split; assumption).
  destruct (negb (fs_pending s)) eqn:Hp.
  - inversion H; subst vs2 ms. destruct Hs as [H1 H2]. split; [assumption|]. split; [assumption|].
    apply negb_true_iff in Hp. intros k v Hv. exact (fpass_pending _ Hp k v Hv).
  - destruct (negb (fs_did s) && fs_postponed s); [discriminate|]. destruct Hs as [H1 H2]. eapply IH; eassumption.
Qed.

(* ---------------------------------------------------------------------------------------------- *)
(* phase 1: stack destinations *)

(* the destination slot of a variable is nobody else's current location *)
Lemma out_slot_free vars emit i v : finv vars emit -> nth_error vars i = Some v -> is_regl (f_out v) = false ->
  forall k u, k <> i -> nth_error vars k = Some u -> f_cur u <> f_out v.
Proof.
  intros Hinv Hv Hm k u Hk Hu E.
  pose proof (finv_out_shape _ _ _ _ Hinv Hv) as Hs. pose proof (finv_cur_ok _ _ _ _ Hinv Hu) as Hc.
  unfold cur_ok in Hc. rewrite E in Hc. unfold locp in Hs. destruct (f_out v) as [g r | ar off] eqn:Eo; [discriminate|].
  destruct Hc as [Hc | Hc]; [lia|].
  apply Hk. apply (finv_out_inj _ _ Hinv k i u v Hu Hv). congruence.
Qed.

Definition P1 (k : nat) (acc : option (list fvar * list minst)) : Prop :=
  match acc with
  | None => True
  | Some (vars, em) =>
      finv vars em /\ (forall i, (k <= i)%nat -> nth_error vars i = nth_error vs0 i) /\
      (forall i u, (i < k)%nat -> nth_error vars i = Some u -> is_regl (f_out u) = false -> f_done u = true)
  end.

Lemma P1_set vars k x em' :
  (forall i, (k <= i)%nat -> nth_error vars i = nth_error vs0 i) ->
  (forall i u, (i < k)%nat -> nth_error vars i = Some u -> is_regl (f_out u) = false -> f_done u = true) ->
  (k < length vars)%nat -> finv (fset vars k x) em' -> f_done x = true -> P1 (S k) (Some (fset vars k x, em')).
Proof.
  intros H2 H3 Hk Hinv Hd. cbn [P1]. split; [assumption|]. split.
  - intros i Hi. rewrite nth_fset_ne by lia. apply H2. lia.
  - intros i u Hi Hu Hm. destruct (Nat.eq_dec i k) as [E | E].
    + subst i. rewrite nth_fset_eq in Hu by assumption. inversion Hu; subst u. assumption.
    + rewrite nth_fset_ne in Hu by congruence. apply (H3 i u); [lia | assumption | assumption].
Qed.

Lemma stk_step_P1 k acc : P1 k acc -> P1 (S k) (stk_step a wgp wvec acc k).
Proof.
  intros HP. unfold stk_step. destruct acc as [[vars em] |]; [| exact I].
  destruct HP as [Hinv [H2 H3]].
  destruct (nth_error vars k) as [v |] eqn:Hv.
  2:{ cbn [P1]. split; [assumption|]. split.
      - intros i Hi. apply H2. lia.
      - intros i u Hi Hu Hm. destruct (Nat.eq_dec i k) as [E | E]; [congruence|]. apply (H3 i u); [lia | assumption | assumption]. }
  destruct (is_regl (f_out v)) eqn:Hm.
  { cbn [P1]. split; [assumption|]. split.
    - intros i Hi. apply H2. lia.
    - intros i u Hi Hu Hmm. destruct (Nat.eq_dec i k) as [E | E]; [congruence|]. apply (H3 i u); [lia | assumption | assumption]. }
  pose proof (nth_error_lt _ _ _ Hv) as Hk.
  destruct (finv_orig _ _ _ _ Hinv Hv) as [v0 [E0 [Hok Hvr]]].
  pose proof (vrel_ty _ _ _ Hok Hvr) as Hty.
  destruct (f_cur v) as [g r | ca co] eqn:Ec.
  - (* register source: widened in place when necessary, stored *)
    destruct (finv_cur_reg _ _ _ _ _ _ Hinv Hv Ec) as [G1 G2].
    destruct (fneeds_ext v) eqn:Hx.
    + assert (Hiv : f_int v = true). { unfold fneeds_ext in Hx. destruct (f_int v); [reflexivity | discriminate]. }
      set (u := fmoved v (Reg g r) false).
      assert (Hinv1 : finv (fset vars k u) (em ++ [fconv a (Reg g r) (Reg g r) true (f_csz v) (f_csg v) (f_osz v) (f_osg v)])).
      { rewrite <- Hiv. rewrite <- Ec at 2. apply finv_conv; try assumption; [| discriminate].
        intros k' u' Hk' Hu' E. apply Hk'. destruct Hinv as [_ [Hinj _]]. apply (Hinj k' k u' v Hu' Hv). congruence. }
      assert (Hu : nth_error (fset vars k u) k = Some u) by (apply nth_fset_eq; assumption).
      pose proof (finv_store _ _ k u (store_bits a (f_int v) r (8 * (if f_int v then f_osz v else f_csz v))) Hinv1 Hu Hm
                    (out_slot_free _ _ _ _ Hinv1 Hu Hm)) as Hst.
      rewrite fset_fset in Hst. cbn [u fmoved f_out f_osz f_osg f_int f_csz f_cur] in Hst.
      rewrite app_assoc. apply P1_set; try assumption; [| reflexivity].
      rewrite Hiv in Hst |- *. apply Hst; [lia | apply store_bits_ge | reflexivity | apply store_bits_shape].
    + cbn [app]. apply P1_set; try assumption; [| reflexivity]. rewrite <- Ec.
      assert (Hle : f_osz v <= f_csz v).
      { unfold fneeds_ext in Hx. destruct (f_int v).
        - cbn [andb] in Hx. apply Z.ltb_ge in Hx. assumption.
        - apply ty_ok_nonint in Hty. lia. }
      assert (Esz : (if f_int v then f_osz v else f_csz v) = f_osz v).
      { destruct (f_int v); [reflexivity|]. apply ty_ok_nonint in Hty. lia. }
      rewrite Esz.
      apply finv_store; try assumption; [eapply out_slot_free; eassumption | apply store_bits_ge | rewrite Ec; reflexivity | apply store_bits_shape].
  - (* stack source: through a free GP register *)
    destruct (zmin_list (favail wgp wvec vars 0)) as [sc |] eqn:Hsc; [| exact I].
    apply zmin_list_in in Hsc. apply favail_in in Hsc. destruct Hsc as [S1 S2].
    assert (Ev : v = v0). { specialize (H2 k (Nat.le_refl k)). congruence. }
    subst v0.
    assert (Hiv : f_int v = true).
    { destruct Hok as [_ [_ [_ Hmm]]]. apply Hmm; [rewrite Ec; reflexivity | assumption]. }
    set (u := fmoved v (Reg 0 sc) false).
    assert (Hinv1 : finv (fset vars k u) (em ++ [fconv a (Reg 0 sc) (Mem ca co) true (f_csz v) (f_csg v) (f_osz v) (f_osg v)])).
    { rewrite <- Hiv. rewrite <- Ec. apply finv_conv; try assumption; [| discriminate | unfold vgrp; rewrite Hiv; reflexivity].
      intros k' u' Hk' Hu'. exact (fassigned_false _ _ _ _ S2 Hu'). }
    assert (Hu : nth_error (fset vars k u) k = Some u) by (apply nth_fset_eq; assumption).
    pose proof (finv_store _ _ k u (store_bits a true sc (8 * (if f_int v then f_osz v else f_csz v))) Hinv1 Hu Hm
                  (out_slot_free _ _ _ _ Hinv1 Hu Hm)) as Hst.
    rewrite fset_fset in Hst. cbn [u fmoved f_out f_osz f_osg f_int f_csz f_cur] in Hst.
    change (em ++ [fconv a (Reg 0 sc) (Mem ca co) true (f_csz v) (f_csg v) (f_osz v) (f_osg v);
                   fstore (f_out v) (Reg 0 sc) (store_bits a true sc (8 * (if f_int v then f_osz v else f_csz v)))])
      with (em ++ [fconv a (Reg 0 sc) (Mem ca co) true (f_csz v) (f_csg v) (f_osz v) (f_osg v)] ++
                  [fstore (f_out v) (Reg 0 sc) (store_bits a true sc (8 * (if f_int v then f_osz v else f_csz v)))]).
    rewrite app_assoc. apply P1_set; try assumption; [| reflexivity].
    rewrite Hiv in Hst |- *. apply Hst; [lia | apply store_bits_ge | reflexivity | apply store_bits_shape].
Qed.

Lemma stk_phase_ok vs1 em1 : finv vs0 [] -> stk_phase a wgp wvec vs0 = Some (vs1, em1) -> finv vs1 em1 /\ stk_done vs1.
Proof.
  intros Hinv H. unfold stk_phase in H.
  pose proof (fold_seq_ind (stk_step a wgp wvec) P1 stk_step_P1 (length vs0) (Some (vs0, []))) as HP.
  rewrite H in HP. cbn [P1] in HP. destruct HP as [H1 [_ H3]].
  - split; [assumption|]. split; [intros; reflexivity | intros i u Hi; lia].
  - split; [assumption|]. intros k u Hu Hm. apply (H3 k u); [| assumption | assumption].
    destruct H1 as [Hlen _]. rewrite <- Hlen. eapply nth_error_lt; eassumption.
Qed.

(* ---------------------------------------------------------------------------------------------- *)
(* phase 3: loads of the stack sources *)

Definition P3 (k : nat) (acc : list fvar * list minst) : Prop :=
  let (vars, em) := acc in
  length vars = length vs0 /\ Forall fwr_ok em /\
  (forall i v, (i < k)%nat -> nth_error vars i = Some v -> f_done v = true) /\
  forall i v0 v, nth_error vs0 i = Some v0 -> nth_error vars i = Some v ->
    (f_done v = true /\ dst_ok (fmove_of v0) (st0 (f_cur v0)) (exec em st0 (f_out v0))) \/
    (f_done v = false /\ is_regl (f_cur v) = false /\ is_regl (f_out v) = true /\ vrel (exec em st0) v0 v).

Lemma P3_init vars em : finv vars em -> stk_done vars ->
  (forall k v, nth_error vars k = Some v -> f_done v = true \/ ~ reg_pair v) -> P3 O (vars, em).
Proof.
  intros Hinv Hsd Hset. cbn [P3]. pose proof Hinv as [Hlen [Hinj [Hfr Hrel]]].
  split; [assumption|]. split; [assumption|]. split; [intros i v Hi; lia|].
  intros i v0 v E0 Hv. pose proof (Hrel i v0 v E0 Hv) as Hvr. pose proof (Hv0 i v0 E0) as [Hty0 _].
  destruct (f_done v) eqn:Hd.
  - left. split; [reflexivity|]. destruct Hvr as [Ro [Rz [Rg [Ri [Rd [Rc Rv]]]]]]. destruct (Rd Hd) as [D1 D2].
    rewrite <- Ro, <- D1. eapply val_rel_narrow; eassumption.
  - right. split; [reflexivity|].
    destruct (is_regl (f_out v)) eqn:Hm; [| rewrite (Hsd i v Hv Hm) in Hd; discriminate].
    split; [| split; [reflexivity | assumption]].
    destruct (f_cur v) as [g c | ca co] eqn:Ec; [| reflexivity]. exfalso.
    destruct (Hset i v Hv) as [H | H]; [congruence|]. apply H.
    destruct (f_out v) as [g' o | oa oo] eqn:Eo; [| discriminate].
    destruct (finv_cur_reg _ _ _ _ _ _ Hinv Hv Ec) as [G1 _]. destruct (finv_out_reg _ _ _ _ _ _ Hinv Hv Eo) as [G2 _].
    exists g, c, o. split; [assumption | congruence].
Qed.

Lemma load_step_P3 k acc : P3 k acc -> P3 (S k) (load_step a acc k).
Proof.
  destruct acc as [vars em]. intros [Hlen [Hfr [Hdn Hrel]]]. unfold load_step.
  destruct (nth_error vars k) as [v |] eqn:Hv.
  2:{ cbn [P3]. split; [assumption|]. split; [assumption|]. split; [| assumption].
      intros i u Hi Hu. destruct (Nat.eq_dec i k) as [E | E]; [congruence|]. apply (Hdn i u); [lia | assumption]. }
  pose proof (nth_error_lt _ _ _ Hv) as Hk.
  destruct (nth_error vs0 k) as [v0 |] eqn:E0; [| apply nth_error_None in E0; lia].
  destruct (Hrel k v0 v E0 Hv) as [[Hd _] | [Hd [Hcm [Hom Hvr]]]].
  { rewrite Hd. cbn [orb P3]. split; [assumption|]. split; [assumption|]. split; [| assumption].
    intros i u Hi Hu. destruct (Nat.eq_dec i k) as [E | E]; [congruence|]. apply (Hdn i u); [lia | assumption]. }
  rewrite Hd, Hcm. cbn [orb P3].
  pose proof (Hv0 k v0 E0) as Hok. pose proof (vrel_ty _ _ _ Hok Hvr) as Hty. destruct Hok as [Hty0 _].
  destruct Hvr as [Ro [Rz [Rg [Ri [Rd [Rc Rv]]]]]].
  destruct (fconv_sound a (f_out v) (f_cur v) (f_int v) (f_csz v) (f_csg v) (f_osz v) (f_osg v) (exec em st0) Hty)
    as [V [HV [Q1 Q2]]].
  split; [rewrite fset_length; assumption|]. split; [| split].
  - apply fwr_ok_snoc; [assumption | apply fconv_wf; assumption | |].
    { destruct (f_out v) as [og oi | ? ?] eqn:Eout; [apply acc_ok_fconv_reg | discriminate]. }
    intros l Hl. rewrite fconv_writes in Hl. destruct Hl as [E | []]. subst l.
    left. rewrite Ro. apply in_map. eapply nth_error_In; eassumption.
  - intros i u Hi Hu. destruct (Nat.eq_dec i k) as [E | E].
    + subst i. rewrite nth_fset_eq in Hu by assumption. inversion Hu; subst u. reflexivity.
    + rewrite nth_fset_ne in Hu by congruence. apply (Hdn i u); [lia | assumption].
  - intros i u0 u Hu0 Hu. rewrite exec_snoc, HV.
    destruct (Nat.eq_dec i k) as [E | E].
    + subst i. rewrite nth_fset_eq in Hu by assumption. inversion Hu; subst u. clear Hu.
      assert (u0 = v0) by congruence. subst u0. left. split; [reflexivity|].
      rewrite <- Ro, upd_same. eapply (val_rel_conv_dst v0 v); eassumption.
    + rewrite nth_fset_ne in Hu by congruence.
      destruct (Hrel i u0 u Hu0 Hu) as [[Hud Hok] | [Hud [Hucm [Huom Huvr]]]].
      * left. split; [assumption|]. rewrite upd_other; [assumption|].
        intros E'. apply E. apply (Hout0 i k u0 v0 Hu0 E0). congruence.
      * right. split; [assumption|]. split; [assumption|]. split; [assumption|].
        apply (vrel_ext (exec em st0)); [| assumption]. apply upd_other. intros E'.
        rewrite E' in Hucm. rewrite Hom in Hucm. discriminate.
Qed.

Lemma load_phase_ok vars em : P3 O (vars, em) ->
  Forall fwr_ok (snd (load_phase a vars em)) /\
  forall i v0, nth_error vs0 i = Some v0 ->
    dst_ok (fmove_of v0) (st0 (f_cur v0)) (exec (snd (load_phase a vars em)) st0 (f_out v0)).
Proof.
  intros H0. unfold load_phase.
  pose proof (fold_seq_ind (load_step a) P3 load_step_P3 (length vars) (vars, em) H0) as HP.
  destruct (fold_left (load_step a) (seq 0 (length vars)) (vars, em)) as [vars' em']. cbn [snd].
  destruct HP as [Hlen [Hfr [Hdn Hrel]]]. split; [assumption|].
  intros i v0 E0. pose proof (nth_error_lt _ _ _ E0) as Hi.
  destruct (nth_error vars' i) as [v |] eqn:Hv; [| apply nth_error_None in Hv; lia].
  destruct (Hrel i v0 v E0 Hv) as [[_ H] | [Hd _]]; [assumption|].
  destruct H0 as [Hlen0 _]. rewrite (Hdn i v) in Hd; [discriminate | lia | assumption].
Qed.

(* ---------------------------------------------------------------------------------------------- *)
(* the three phases together *)

Lemma fsolve_ok ms : finv vs0 [] -> fsolve a wgp wvec vs0 = SOk ms ->
  Forall fwr_ok ms /\
  forall i v0, nth_error vs0 i = Some v0 -> dst_ok (fmove_of v0) (st0 (f_cur v0)) (exec ms st0 (f_out v0)).
Proof.
  intros Hinv H. unfold fsolve in H.
  destruct (stk_phase a wgp wvec vs0) as [[vs1 em1] |] eqn:H1; [| discriminate].
  destruct (stk_phase_ok _ _ Hinv H1) as [Hinv1 Hsd1].
  destruct (floop a wgp wvec (4 * length vs0 + 4) vs1 em1 false) as [vs2 em2 | |] eqn:H2; try discriminate.
  destruct (floop_ok _ _ _ _ _ _ Hinv1 Hsd1 H2) as [Hinv2 [Hsd2 Hset]].
  inversion H; subst ms. apply load_phase_ok. apply P3_init; assumption.
Qed.

End Inv.

(* ---------------------------------------------------------------------------------------------- *)
(* well-formed input *)

Lemma nodup_locs_spec l : nodup_locs l = true <-> NoDup l.
Proof.
  induction l as [| x r IH]; cbn [nodup_locs].
  - split; [constructor | reflexivity].
  - rewrite andb_true_iff, negb_true_iff, IH. split.
    + intros [H1 H2]. constructor; [| assumption]. intros Hin. apply mem_loc_In in Hin. congruence.
    + intros H. inversion H; subst. split; [| assumption].
      destruct (mem_loc x r) eqn:E; [| reflexivity]. apply mem_loc_In in E. contradiction.
Qed.

Lemma NoDup_map_inj_loc (f : fvar -> loc) vs : NoDup (map f vs) ->
  forall i j vi vj, nth_error vs i = Some vi -> nth_error vs j = Some vj -> f vi = f vj -> i = j.
Proof.
  intros Hnd i j vi vj Hi Hj E. rewrite NoDup_nth_error in Hnd. apply Hnd.
  - rewrite map_length. eapply nth_error_lt; eassumption.
  - rewrite (map_nth_error f _ _ Hi), (map_nth_error f _ _ Hj). congruence.
Qed.

Lemma existsb_eqb_In r l : existsb (Z.eqb r) l = true -> In r l.
Proof. intros H. apply existsb_exists in H. destruct H as [x [Hx E]]. apply Z.eqb_eq in E. subst x. assumption. Qed.

Lemma loc_ok_sound wgp wvec src v l : loc_ok wgp wvec src l = true ->
  match l with Reg g _ => g = vgrp v | Mem _ _ => True end -> locp wgp wvec src v l.
Proof.
  destruct l as [g r | ar off]; cbn [loc_ok locp]; intros H Hg.
  - apply andb_prop in H. destruct H as [_ H]. split; [assumption | apply existsb_eqb_In; assumption].
  - apply andb_prop in H. destruct H as [H _]. apply Z.eqb_eq in H. assumption.
Qed.

Lemma fvar_ok_sound a wgp wvec v : fvar_ok wgp wvec v = true -> fvar_arch_ok a v = true -> v0_ok a wgp wvec v.
Proof.
  unfold fvar_ok, v0_ok. intros H Harch. apply andb_prop in H. destruct H as [H H4]. apply andb_prop in H. destruct H as [H H3].
  apply andb_prop in H. destruct H as [H1 H2].
  assert (Hg : match f_cur v with Reg g _ => g = vgrp v | Mem _ _ => True end /\
               match f_out v with Reg g _ => g = vgrp v | Mem _ _ => True end /\
               (is_regl (f_cur v) = false -> is_regl (f_out v) = false -> f_int v = true)).
  { unfold vgrp. destruct (f_cur v) as [g c | ca co], (f_out v) as [g' o | oa oo]; cbn [is_regl].
    - apply andb_prop in H4. destruct H4 as [A B]. apply Z.eqb_eq in A. subst g'.
      destruct (f_int v); apply Z.eqb_eq in B; repeat split; try assumption; discriminate.
    - destruct (f_int v); apply Z.eqb_eq in H4; repeat split; try assumption; discriminate.
    - destruct (f_int v); apply Z.eqb_eq in H4; repeat split; try assumption; discriminate.
    - repeat split. intros _ _. assumption. }
  destruct Hg as [G1 [G2 G3]].
  split; [| split; [| split]].
  - unfold ty_ok. destruct (f_int v) eqn:Hiv0.
    + apply andb_prop in H3. destruct H3 as [A B]. split; apply sz_okb_spec; assumption.
    + apply andb_prop in H3. destruct H3 as [H3 D]. apply andb_prop in H3. destruct H3 as [H3 C].
      apply andb_prop in H3. destruct H3 as [A B]. apply Z.eqb_eq in B. apply Bool.eqb_prop in C. apply Bool.eqb_prop in D.
      split; [| tauto]. unfold vec_size in A. unfold vsz_ok. rewrite !orb_true_iff, !Z.eqb_eq in A.
      unfold fvar_arch_ok in Harch. destruct (f_int v) eqn:Hiv; [discriminate|].
      destruct A as [[[[A | A] | A] | A] | A]; try tauto;
        (destruct a; try (apply Z.leb_le in Harch; lia); right; right; right; split; [reflexivity | tauto]).
  - apply loc_ok_sound; assumption.
  - apply loc_ok_sound; assumption.
  - assumption.
Qed.

Definition fwf_input (a : farch) (wgp wvec : list Z) (vs : list fvar) : Prop :=
  (forall i v0, nth_error vs i = Some v0 -> v0_ok a wgp wvec v0) /\ fcur_inj vs /\ fout_inj vs /\
  (forall v, In v vs ->
     f_done v = is_regl (f_cur v) && loc_eqb (f_cur v) (f_out v) && (negb (f_int v) || (f_osz v <=? f_csz v))).

Lemma fwf_inputb_sound a wgp wvec vs : fwf_inputb wgp wvec vs = true -> farch_okb a vs = true -> fwf_input a wgp wvec vs.
Proof.
  unfold fwf_inputb, fwf_input, farch_okb. intros H Ha. rewrite forallb_forall in Ha. apply andb_prop in H. destruct H as [H H4]. apply andb_prop in H. destruct H as [H H3].
  apply andb_prop in H. destruct H as [H1 H2]. rewrite forallb_forall in H1, H4.
  split; [| split; [| split]].
  - intros i v0 Hi. apply fvar_ok_sound; [apply H1 | apply Ha]; eapply nth_error_In; eassumption.
  - apply nodup_locs_spec in H2. exact (NoDup_map_inj_loc f_cur vs H2).
  - apply nodup_locs_spec in H3. exact (NoDup_map_inj_loc f_out vs H3).
  - intros v Hv. specialize (H4 v Hv). apply Bool.eqb_prop in H4. rewrite H4. reflexivity.
Qed.

Lemma fwf_finv a wgp wvec vs st0 : fwf_input a wgp wvec vs -> finv a wgp wvec vs st0 vs [].
Proof.
  intros [Hok [Hc [Ho Hd]]]. split; [reflexivity|]. split; [assumption|]. split; [constructor|].
  intros i v0 v H0 Hv. assert (v = v0) by congruence. subst v. clear Hv.
  destruct (Hok i v0 H0) as [Hty [Hlc [Hlo _]]].
  unfold vrel. repeat (split; [reflexivity|]). split; [| split].
  - rewrite (Hd v0 (nth_error_In _ _ H0)). intros H.
    apply andb_prop in H. destruct H as [H H3]. apply andb_prop in H. destruct H as [_ H2]. apply loc_eqb_true in H2.
    split; [assumption|]. destruct (f_int v0); cbn [negb orb] in H3.
    + apply Z.leb_le. assumption.
    + apply ty_ok_nonint in Hty. lia.
  - unfold cur_ok. unfold locp in Hlc. destruct (f_cur v0); [assumption | left; assumption].
  - left. repeat split; reflexivity.
Qed.

(* ---------------------------------------------------------------------------------------------- *)
(* 1. partial correctness of the whole function *)

Theorem fsolve_correct : forall a wgp wvec vs0 ms, fwf_inputb wgp wvec vs0 = true -> farch_okb a vs0 = true -> fsolve a wgp wvec vs0 = SOk ms ->
  forall st0 v0, In v0 vs0 -> dst_ok (fmove_of v0) (st0 (f_cur v0)) (exec ms st0 (f_out v0)).
Proof.
  intros a wgp wvec vs0 ms Hwf Har Hs st0 v0 Hin. apply (fwf_inputb_sound a) in Hwf; [| exact Har].
  pose proof (fwf_finv a wgp wvec vs0 st0 Hwf) as Hinv. destruct Hwf as [Hok [_ [Ho _]]].
  apply In_nth_error in Hin. destruct Hin as [i Hi].
  exact (proj2 (fsolve_ok a wgp wvec vs0 st0 Hok Ho ms Hinv Hs) i v0 Hi).
Qed.

(* ---------------------------------------------------------------------------------------------- *)
(* 2. frame *)

Theorem fsolve_writes : forall a wgp wvec vs0 ms, fwf_inputb wgp wvec vs0 = true -> farch_okb a vs0 = true -> fsolve a wgp wvec vs0 = SOk ms ->
  forall l, In l (writes ms) -> In l (map f_out vs0) \/ In l (map (Reg 0) wgp) \/ In l (map (Reg 1) wvec).
Proof.
  intros a wgp wvec vs0 ms Hwf Har Hs l Hl. apply (fwf_inputb_sound a) in Hwf; [| exact Har].
  pose proof (fwf_finv a wgp wvec vs0 (fun _ => 0) Hwf) as Hinv. destruct Hwf as [Hok [_ [Ho _]]].
  pose proof (proj1 (fsolve_ok a wgp wvec vs0 (fun _ => 0) Hok Ho ms Hinv Hs)) as Hfr.
  unfold writes in Hl. apply in_flat_map in Hl. destruct Hl as [i [Hi Hw]].
  rewrite Forall_forall in Hfr. exact (proj1 (Hfr i Hi) l Hw).
Qed.

(* every emitted instruction is a well-formed instruction of the validator's language (0 < n <= w <= wz; an exchange has two distinct
   registers): the validator's own well-formedness test never rejects what the function emits *)
Theorem fsolve_wf : forall a wgp wvec vs0 ms, fwf_inputb wgp wvec vs0 = true -> farch_okb a vs0 = true -> fsolve a wgp wvec vs0 = SOk ms ->
  forallb wf_inst ms = true.
Proof.
  intros a wgp wvec vs0 ms Hwf Har Hs. apply (fwf_inputb_sound a) in Hwf; [| exact Har].
  pose proof (fwf_finv a wgp wvec vs0 (fun _ => 0) Hwf) as Hinv. destruct Hwf as [Hok [_ [Ho _]]].
  pose proof (proj1 (fsolve_ok a wgp wvec vs0 (fun _ => 0) Hok Ho ms Hinv Hs)) as Hfr.
  apply forallb_forall. intros i Hi. rewrite Forall_forall in Hfr. exact (proj1 (proj2 (Hfr i Hi))).
Qed.

(* byte level, stores: every instruction that writes memory is a store FROM A REGISTER to the destination slot of one variable and replaces
   exactly the bytes of that variable's destination type (n = w = wz = 8 * size; the one exception is 32-bit x86, where a byte held in
   ESI / EDI / EBP / ESP is stored 32 bits wide); an exchange never has a memory operand *)
Definition store_exact (a : farch) (vs0 : list fvar) (i : minst) : Prop :=
  match i with
  | IExt (Mem ar off) s e n w wz =>
      exists v0, In v0 vs0 /\ f_out v0 = Mem ar off /\ e = EZ /\ w = n /\ wz = n /\ is_regl s = true /\
                 (n = 8 * f_osz v0 \/ (a = FX86 /\ f_osz v0 = 1 /\ n = 32))
  | IExt (Reg _ _) _ _ _ _ _ => True
  | IXchg x y _ _ => is_regl x = true /\ is_regl y = true
  end.

Theorem fsolve_stores_exact : forall a wgp wvec vs0 ms, fwf_inputb wgp wvec vs0 = true -> farch_okb a vs0 = true -> fsolve a wgp wvec vs0 = SOk ms ->
  forall i, In i ms -> store_exact a vs0 i.
Proof.
  intros a wgp wvec vs0 ms Hwf Har Hs i Hi. apply (fwf_inputb_sound a) in Hwf; [| exact Har].
  pose proof (fwf_finv a wgp wvec vs0 (fun _ => 0) Hwf) as Hinv. destruct Hwf as [Hok [_ [Ho _]]].
  pose proof (proj1 (fsolve_ok a wgp wvec vs0 (fun _ => 0) Hok Ho ms Hinv Hs)) as Hfr.
  rewrite Forall_forall in Hfr. exact (proj2 (proj2 (Hfr i Hi))).
Qed.

(* consequence: when the destination slots [off, off + size) of the assignment are pairwise disjoint byte ranges, two stores of the emitted
   sequence to different slots never overlap (targets other than 32-bit x86; there: unless the wide byte store is involved) *)
Definition slot_of (v : fvar) : option (Z * Z) := match f_out v with Mem _ off => Some (off, f_osz v) | Reg _ _ => None end.
Definition slots_disjoint (vs : list fvar) : Prop :=
  forall u v o1 z1 o2 z2, In u vs -> In v vs -> slot_of u = Some (o1, z1) -> slot_of v = Some (o2, z2) -> o1 <> o2 ->
    o1 + z1 <= o2 \/ o2 + z2 <= o1.

Corollary fsolve_stores_disjoint : forall a wgp wvec vs0 ms, fwf_inputb wgp wvec vs0 = true -> farch_okb a vs0 = true -> a <> FX86 ->
  fsolve a wgp wvec vs0 = SOk ms -> slots_disjoint vs0 ->
  forall a1 o1 s1 e1 n1 w1 z1 a2 o2 s2 e2 n2 w2 z2,
    In (IExt (Mem a1 o1) s1 e1 n1 w1 z1) ms -> In (IExt (Mem a2 o2) s2 e2 n2 w2 z2) ms -> o1 <> o2 ->
    8 * o1 + z1 <= 8 * o2 \/ 8 * o2 + z2 <= 8 * o1.
Proof.
  intros a wgp wvec vs0 ms Hwf Har Hx Hs Hd a1 o1 s1 e1 n1 w1 z1 a2 o2 s2 e2 n2 w2 z2 H1 H2 Hne.
  pose proof (fsolve_stores_exact a wgp wvec vs0 ms Hwf Har Hs _ H1) as [u [Hu [Eu [_ [_ [Z1 [_ S1]]]]]]].
  pose proof (fsolve_stores_exact a wgp wvec vs0 ms Hwf Har Hs _ H2) as [v [Hv [Ev [_ [_ [Z2 [_ S2]]]]]]].
  destruct S1 as [S1 | [S1 _]]; [| contradiction]. destruct S2 as [S2 | [S2 _]]; [| contradiction].
  assert (Su : slot_of u = Some (o1, f_osz u)) by (unfold slot_of; rewrite Eu; reflexivity).
  assert (Sv : slot_of v = Some (o2, f_osz v)) by (unfold slot_of; rewrite Ev; reflexivity).
  destruct (Hd u v _ _ _ _ Hu Hv Su Sv Hne); lia.
Qed.

Theorem fsolve_frame : forall a wgp wvec vs0 ms, fwf_inputb wgp wvec vs0 = true -> farch_okb a vs0 = true -> fsolve a wgp wvec vs0 = SOk ms ->
  forall st0 l, ~ In l (map f_out vs0) -> ~ In l (map (Reg 0) wgp) -> ~ In l (map (Reg 1) wvec) -> exec ms st0 l = st0 l.
Proof.
  intros a wgp wvec vs0 ms Hwf Har Hs st0 l H1 H2 H3. apply exec_frame. intros Hin.
  destruct (fsolve_writes a wgp wvec vs0 ms Hwf Har Hs l Hin) as [H | [H | H]]; contradiction.
Qed.

(* no incoming stack argument is ever overwritten *)
Corollary fsolve_keeps_incoming : forall a wgp wvec vs0 ms, fwf_inputb wgp wvec vs0 = true -> farch_okb a vs0 = true -> fsolve a wgp wvec vs0 = SOk ms ->
  forall st0 off, exec ms st0 (Mem 0 off) = st0 (Mem 0 off).
Proof.
  intros a wgp wvec vs0 ms Hwf Har Hs st0 off. apply (fsolve_frame a wgp wvec vs0 ms Hwf Har Hs).
  - intros Hin. apply in_map_iff in Hin. destruct Hin as [v [E Hv]]. apply (fwf_inputb_sound a) in Hwf; [| exact Har].
    destruct Hwf as [Hok _]. apply In_nth_error in Hv. destruct Hv as [i Hi].
    destruct (Hok i v Hi) as [_ [_ [Hlo _]]]. unfold locp in Hlo. rewrite E in Hlo. discriminate.
  - intros Hin. apply in_map_iff in Hin. destruct Hin as [r [E _]]. discriminate.
  - intros Hin. apply in_map_iff in Hin. destruct Hin as [r [E _]]. discriminate.
Qed.

(* the writes of the whole sequence, as a decidable-style statement: every written stack slot is a destination slot *)
Corollary fsolve_mem_writes : forall a wgp wvec vs0 ms, fwf_inputb wgp wvec vs0 = true -> farch_okb a vs0 = true -> fsolve a wgp wvec vs0 = SOk ms ->
  forall ar off, In (Mem ar off) (writes ms) -> In (Mem ar off) (map f_out vs0) /\ ar = 1.
Proof.
  intros a wgp wvec vs0 ms Hwf Har Hs ar off Hin.
  destruct (fsolve_writes a wgp wvec vs0 ms Hwf Har Hs _ Hin) as [H | [H | H]].
  - split; [assumption|]. apply in_map_iff in H. destruct H as [v [E Hv]]. apply (fwf_inputb_sound a) in Hwf; [| exact Har].
    destruct Hwf as [Hok _]. apply In_nth_error in Hv. destruct Hv as [i Hi].
    destruct (Hok i v Hi) as [_ [_ [Hlo _]]]. unfold locp in Hlo. rewrite E in Hlo. assumption.
  - apply in_map_iff in H. destruct H as [r [E _]]. discriminate.
  - apply in_map_iff in H. destruct H as [r [E _]]. discriminate.
Qed.

(* the statement at full strength: what every successful run establishes AND what it leaves alone *)
Theorem fsolve_spec : forall a wgp wvec vs0 ms, fwf_inputb wgp wvec vs0 = true -> farch_okb a vs0 = true -> fsolve a wgp wvec vs0 = SOk ms ->
  forallb wf_inst ms = true /\
  forall st0,
    (forall v0, In v0 vs0 -> dst_ok (fmove_of v0) (st0 (f_cur v0)) (exec ms st0 (f_out v0))) /\
    (forall l, ~ In l (map f_out vs0) -> ~ In l (map (Reg 0) wgp) -> ~ In l (map (Reg 1) wvec) -> exec ms st0 l = st0 l) /\
    (forall off, exec ms st0 (Mem 0 off) = st0 (Mem 0 off)).
Proof.
  intros a wgp wvec vs0 ms Hwf Har Hs. split; [exact (fsolve_wf a wgp wvec vs0 ms Hwf Har Hs)|].
  intros st0. split; [| split].
  - intros v0 Hin. exact (fsolve_correct a wgp wvec vs0 ms Hwf Har Hs st0 v0 Hin).
  - intros l H1 H2 H3. exact (fsolve_frame a wgp wvec vs0 ms Hwf Har Hs st0 l H1 H2 H3).
  - intros off. exact (fsolve_keeps_incoming a wgp wvec vs0 ms Hwf Har Hs st0 off).
Qed.

(* C06 — executable model of CallConv::init (x86func.cpp / a64func.cpp init_call_conv) and FuncDetail::init
   (func.cpp + x86func.cpp / a64func.cpp init_func_detail, unpack_values).  Definitions only (no proofs), so that the
   model still extracts when a proof breaks.  Numbers are the numeric values of the C++ enumerators (TypeId, RegType,
   CallConvId, CallConvFlags, CallConvStrategy); the correspondence harness prints the same numbers from the real enums
   (command "T"), so a renumbering is detected.

   The model follows the control flow of the code: counters gpz_pos / vec_pos / stack_offset, look-ups into the passed-order
   arrays with the kMaxRegArgsPerGroup (16) bound, the 0xFF "no register" sentinel.
   The Win64/vectorcall branch models the REPAIRED code: the GP order look-up of by-reference vectors is guarded by
   arg_index < 16 (fix ab5871c) and stack arguments live in their positional home slots with a 32-byte home area
   (fixes/C06-win64-home-slots.patch). *)
From Coq Require Import ZArith List Bool.
Import ListNotations.
Local Open Scope Z_scope.

(* ------------------------------------------------------------------ TypeId (core/type.h) *)
Definition between (x a b : Z) : bool := (a <=? x) && (x <=? b).
Definition ty_is_int (t : Z) := between t 32 41.
Definition ty_is_float (t : Z) := between t 42 44.
Definition ty_is_mask (t : Z) := between t 45 48.
Definition ty_is_mmx (t : Z) := between t 49 50.
Definition ty_is_vec (t : Z) := between t 51 100.
Definition ty_is_vec32 (t : Z) := between t 51 60.
Definition ty_is_vec64 (t : Z) := between t 61 70.
Definition ty_is_vec128 (t : Z) := between t 71 80.
Definition ty_is_vec256 (t : Z) := between t 81 90.
Definition ty_is_vec512 (t : Z) := between t 91 100.

(* TypeUtils::size_of  (type.cpp SizeOfTypeId) *)
Definition size_of (t : Z) : Z :=
  if between t 34 35 then 1 else if between t 36 37 then 2 else if between t 38 39 then 4 else if between t 40 41 then 8
  else if t =? 42 then 4 else if t =? 43 then 8 else if t =? 44 then 10
  else if t =? 45 then 1 else if t =? 46 then 2 else if t =? 47 then 4 else if t =? 48 then 8
  else if t =? 49 then 4 else if t =? 50 then 8
  else if ty_is_vec32 t then 4 else if ty_is_vec64 t then 8 else if ty_is_vec128 t then 16
  else if ty_is_vec256 t then 32 else if ty_is_vec512 t then 64 else 0.

(* RegType (core/operand.h) *)
Definition RT_Gp32 := 5.   Definition RT_Gp64 := 6.
Definition RT_Vec32 := 9.  Definition RT_Vec64 := 10. Definition RT_Vec128 := 11. Definition RT_Vec256 := 12. Definition RT_Vec512 := 13.
Definition RT_Mm := 28.    Definition RT_St := 29.

(* x86emithelper_p.h vec_type_id_to_reg_type *)
Definition x86_vec_regtype (t : Z) : Z := if t <=? 80 then RT_Vec128 else if t <=? 90 then RT_Vec256 else RT_Vec512.
(* a64func.cpp reg_type_from_fp_or_vec_type_id; 0 = RegType::kNone *)
Definition a64_vec_regtype (t : Z) : Z :=
  if t =? 42 then RT_Vec32 else if t =? 43 then RT_Vec64 else if ty_is_vec32 t then RT_Vec32
  else if ty_is_vec64 t then RT_Vec64 else if ty_is_vec128 t then RT_Vec128 else 0.

(* ------------------------------------------------------------------ environment, calling convention record *)
Inductive arch := X86 | X64 | A64.
(* e_plat: 0 Linux/other, 1 Windows, 2 macOS;  e_abi: 0 GNU, 1 MSVC, 2 Darwin  (harness maps them to Platform / PlatformABI) *)
Record env := mkEnv { e_arch : arch; e_plat : Z; e_abi : Z }.
Definition e_win (e : env) : bool := (e_plat e =? 1) || (e_abi e =? 1).     (* is_platform_windows() || is_msvc_abi() *)
Definition e_darwin (e : env) : bool := e_abi e =? 2.                        (* is_darwin_abi() *)

Definition F_CalleePops := 1.   Definition F_IndirectVec := 2. Definition F_FloatsByVec := 4. Definition F_VecStackIfVA := 8.
Definition F_MmxByGp := 16.     Definition F_MmxByXmm := 32.   Definition F_VarArgCompat := 128.
Definition has_flag (flags f : Z) : bool := negb (Z.land flags f =? 0).

Record callconv := mkCC {
  cc_arch : arch; cc_id : Z; cc_strategy : Z; cc_red : Z; cc_spill : Z; cc_nalign : Z; cc_flags : Z;
  cc_ogp : list Z; cc_ovec : list Z; cc_omask : list Z; cc_omm : list Z;     (* passed order, entries after the end are 0xFF *)
  cc_pres : list Z;                                                           (* preserved register masks of the 4 groups *)
  cc_srsize : list Z; cc_sralign : list Z }.

Definition bit (i : Z) : Z := Z.shiftl 1 i.
Definition mask_of (ids : list Z) : Z := fold_left (fun m i => Z.lor m (bit i)) ids 0.
Definition range (a n : nat) : list Z := map Z.of_nat (seq a n).

(* passed_order look-up as the code does it: index bound 16, then the array (0xFF beyond the registers that were set) *)
Definition order_at (l : list Z) (i : Z) : Z := if i <? 16 then nth (Z.to_nat i) l 255 else 255.

Definition is_32bit (a : arch) : bool := match a with X86 => true | _ => false end.
Definition reg_size (a : arch) : Z := if is_32bit a then 4 else 8.

Definition cc0 (a : arch) : callconv :=
  mkCC a 0 0 0 0 0 0 [] [] [] [] [0;0;0;0] [0;0;0;0] [0;0;0;0].

Definition set_id (c : callconv) (i : Z) := mkCC (cc_arch c) i (cc_strategy c) (cc_red c) (cc_spill c) (cc_nalign c) (cc_flags c)
  (cc_ogp c) (cc_ovec c) (cc_omask c) (cc_omm c) (cc_pres c) (cc_srsize c) (cc_sralign c).

(* error codes: 1 kInvalidArgument, 2 kInvalidState, 3 kInvalidRegType *)
Definition E_InvArg := 1. Definition E_InvState := 2. Definition E_InvRegType := 3.

Definition should_treat_as_cdecl_x64 (id : Z) : bool :=
  (id =? 0) || (id =? 1) || (id =? 4) || (id =? 2) || (id =? 5) || (id =? 6) || (id =? 7).

(* x86::FuncInternal::init_call_conv *)
Definition x86_init_call_conv (e : env) (id : Z) : callconv + Z :=
  let a := e_arch e in
  if is_32bit a then
    let pres := [mask_of [3;4;5;6;7]; 0; 0; 0] in
    let srs := [4;16;8;8] in let sra := [4;16;8;8] in
    let mk id' flags ogp ovec omask omm pres nalign :=
        mkCC a id' 0 0 0 nalign flags ogp ovec omask omm pres srs sra in
    (* (id after the switch, flags, gp order, vec order, standard?) *)
    let std id' flags ogp :=
        (* standard conventions: MM 0..2, VEC 0..2 (vectorcall keeps its six registers: fixes/C06-vectorcall32-regs.patch),
           kPassVecByStackIfVA; cdecl is var-arg compatible *)
        let flags := Z.lor flags F_VecStackIfVA in
        let flags := if id' =? 0 then Z.lor flags F_VarArgCompat else flags in
        inl (mk id' flags ogp (if id' =? 3 then range 0 6 else [0;1;2]) [] [0;1;2] pres 4) in
    if id =? 0 then std 0 0 []
    else if id =? 1 then std 1 F_CalleePops []
    else if id =? 2 then std 2 F_CalleePops [1;2]
    else if id =? 3 then std 3 (Z.lor F_CalleePops F_FloatsByVec) [1;2]
    else if id =? 4 then (if e_win e then std 4 F_CalleePops [1] else std 0 0 [])
    else if id =? 5 then std 5 0 [0]
    else if id =? 6 then std 6 0 [0;2]
    else if id =? 7 then std 7 0 [0;2;1]
    else if between id 16 18 then
      let n := id - 16 + 2 in
      inl (mk id F_FloatsByVec [0;2;1;6;7] (range 0 8) (range 0 8) (range 0 8)
              [255; Z.land 255 (Z.lnot (Z.ones n)); 0; 0] 16)
    else inr E_InvArg
  else
    let srs := [8;16;8;8] in let sra := [8;16;8;8] in
    let id := if should_treat_as_cdecl_x64 id then (if e_win e then 33 else 32) else id in
    let winpres := [mask_of [3;4;5;6;7;12;13;14;15]; mask_of [6;7;8;9;10;11;12;13;14;15]; 0; 0] in
    if id =? 32 then
      inl (mkCC a 32 0 128 0 16 (Z.lor F_FloatsByVec (Z.lor F_MmxByXmm F_VarArgCompat))
             [7;6;2;1;8;9] (range 0 8) [] [] [mask_of [3;4;5;12;13;14;15]; 0; 0; 0] srs sra)
    else if id =? 33 then
      inl (mkCC a 33 1 0 32 16 (Z.lor F_FloatsByVec (Z.lor F_IndirectVec (Z.lor F_MmxByGp F_VarArgCompat)))
             [1;2;8;9] [0;1;2;3] [] [] winpres srs sra)
    else if id =? 3 then
      inl (mkCC a 3 2 0 32 16 (Z.lor F_FloatsByVec F_MmxByGp)
             [1;2;8;9] [0;1;2;3;4;5] [] [] winpres srs sra)
    else if between id 16 18 then
      let n := id - 16 + 2 in
      inl (mkCC a id 0 0 0 16 F_FloatsByVec [0;2;1;6;7] (range 0 8) (range 0 8) (range 0 8)
             [65535; 4294967295 - Z.ones n; 0; 0] srs sra)
    else inr E_InvArg.

Definition should_treat_as_cdecl_a64 (id : Z) : bool := between id 0 7.

(* a64::FuncInternal::init_call_conv *)
Definition a64_init_call_conv (e : env) (id : Z) : callconv + Z :=
  let strat := if e_darwin e then 3 else 0 in
  if should_treat_as_cdecl_a64 id then
    inl (mkCC A64 0 strat 0 0 16 0 (range 0 8) (range 0 8) [] []
           [mask_of (18 :: range 19 12); mask_of (range 8 8); 0; 0] [8;8;0;0] [16;16;8;1])
  else
    inl (mkCC A64 id strat 0 0 16 0 (range 0 8) (range 0 8) [] []
           [mask_of (range 4 27); mask_of (range 4 28); 0; 0] [8;16;0;0] [16;16;8;1]).

Definition init_call_conv (e : env) (id : Z) : callconv + Z :=
  match e_arch e with A64 => a64_init_call_conv e id | _ => x86_init_call_conv e id end.

(* ------------------------------------------------------------------ FuncValue / FuncDetail *)
(* fv_kind: 0 not assigned, 1 register, 2 stack *)
Record fval := mkFV { fv_ty : Z; fv_kind : Z; fv_rtype : Z; fv_rid : Z; fv_off : Z; fv_ind : bool }.
Definition fv_type_only (t : Z) := mkFV t 0 0 0 0 false.
Definition fv_reg (t rt id : Z) := mkFV t 1 rt id 0 false.
Definition fv_stack (t off : Z) := mkFV t 2 0 0 off false.
Definition fv_reg_ind (t rt id : Z) := mkFV t 1 rt id 0 true.
Definition fv_stack_ind (t off : Z) := mkFV t 2 0 0 off true.

Record sig := mkSig { s_cc : Z; s_va : Z (* 255 = no varargs *); s_ret : Z; s_args : list Z }.
Definition sig_has_va (s : sig) : bool := negb (s_va s =? 255).

Record fdetail := mkFD { fd_cc : callconv; fd_rets : list fval; fd_args : list (list fval); fd_stack : Z }.
Inductive result := R_ok (d : fdetail) | R_err (code : Z).

(* registers used, per group, derived from the assigned values (FuncDetail::_used_regs is the OR of the bits added at every
   register assignment of an ARGUMENT; return values do not add, and neither does the GP register that carries the address
   of an indirectly passed Win64 vector - the code has no add_used_regs on that path) *)
Definition rt_group (rt : Z) : Z :=
  if between rt 2 6 then 0 else if between rt 7 15 then 1 else if rt =? 16 then 2 else if rt =? 28 then 3 else 15.
Definition used_regs (d : fdetail) (g : Z) : Z :=
  fold_left (fun m v => if (fv_kind v =? 1) && negb (fv_ind v) && (rt_group (fv_rtype v) =? g) then Z.lor m (bit (fv_rid v)) else m)
            (concat (fd_args d)) 0.

Definition deabstract (a : arch) (t : Z) : Z := if between t 32 33 then t + (if is_32bit a then 6 else 8) else t.

(* x86 unpack_values: 64-bit integers become two 32-bit values on 32-bit targets *)
Definition x86_unpack (a : arch) (t : Z) : list Z :=
  if between t 40 41 && is_32bit a then [39; t - 2] else [t].

(* ------------------------------------------------------------------ x86 return values *)
Definition gp_ret_index (i : Z) : Z := if i =? 0 then 0 else if i =? 1 then 2 else 255.

Definition x86_ret_one (c : callconv) (idx t : Z) : fval + Z :=
  let a := cc_arch c in
  let gp rt ty := if gp_ret_index idx =? 255 then inr E_InvState else inl (fv_reg ty rt (gp_ret_index idx)) in
  if between t 40 41 then gp RT_Gp64 t
  else if (t =? 34) || (t =? 36) || (t =? 38) then gp RT_Gp32 38
  else if (t =? 35) || (t =? 37) || (t =? 39) then gp RT_Gp32 39
  else if between t 42 43 then inl (fv_reg t (if is_32bit a then RT_St else RT_Vec128) idx)
  else if t =? 44 then inl (fv_reg t RT_St idx)
  else if between t 49 50 then
    if is_32bit a then inl (fv_reg t RT_Mm idx)
    else if cc_strategy c =? 0 then inl (fv_reg t RT_Vec128 idx)
    else if gp_ret_index idx =? 255 then inr E_InvState else inl (fv_reg t RT_Gp64 (gp_ret_index idx))
  else inl (fv_reg t (x86_vec_regtype t) idx).

Fixpoint rets_loop (f : Z -> Z -> fval + Z) (idx : Z) (ts : list Z) : list fval + Z :=
  match ts with
  | [] => inl []
  | t :: r => if t =? 0 then inl [] else
      match f idx t with
      | inr e => inr e
      | inl v => match rets_loop f (idx + 1) r with inr e => inr e | inl vs => inl (v :: vs) end
      end
  end.

(* ------------------------------------------------------------------ x86 arguments, default strategy *)
Record xst := mkXst { x_gp : Z; x_vec : Z; x_off : Z }.

Definition x86_default_value (c : callconv) (va : bool) (s : xst) (t : Z) : fval * xst :=
  let rs := reg_size (cc_arch c) in
  if ty_is_int t then
    let r := order_at (cc_ogp c) (x_gp s) in
    if negb (r =? 255) then (fv_reg t (if t <=? 39 then RT_Gp32 else RT_Gp64) r, mkXst (x_gp s + 1) (x_vec s) (x_off s))
    else (fv_stack t (x_off s), mkXst (x_gp s) (x_vec s) (x_off s + Z.max (size_of t) rs))
  else if ty_is_float t || ty_is_vec t then
    let r := order_at (cc_ovec c) (x_vec s) in
    let r := if ty_is_float t then (if has_flag (cc_flags c) F_FloatsByVec then r else 255)
             else (if va && has_flag (cc_flags c) F_VecStackIfVA then 255 else r) in
    if negb (r =? 255) then (fv_reg t (x86_vec_regtype t) r, mkXst (x_gp s) (x_vec s + 1) (x_off s))
    else (fv_stack t (x_off s), mkXst (x_gp s) (x_vec s) (x_off s + size_of t))
  else (fv_type_only t, s).

(* one pack: stops at the first void value ("if (!arg) break") *)
Fixpoint x86_default_pack (c : callconv) (va : bool) (s : xst) (ts : list Z) : list fval * xst :=
  match ts with
  | [] => ([], s)
  | t :: r => if t =? 0 then ([], s) else
      let '(v, s1) := x86_default_value c va s t in
      let '(vs, s2) := x86_default_pack c va s1 r in (v :: vs, s2)
  end.

Fixpoint x86_default_args (c : callconv) (va : bool) (s : xst) (ts : list Z) : list (list fval) * xst :=
  match ts with
  | [] => ([], s)
  | t :: r =>
      let '(p, s1) := x86_default_pack c va s (x86_unpack (cc_arch c) t) in
      let '(ps, s2) := x86_default_args c va s1 r in (p :: ps, s2)
  end.

(* ------------------------------------------------------------------ x86 arguments, Win64 / vectorcall strategy *)
(* models the REPAIRED code (fixes/C06-win64-home-slots.patch): an argument that is not passed in a register lives in its
   positional home slot arg_index * 8; the stack argument area is max(arg_count, 4) * 8 bytes *)
Definition win64_value (c : callconv) (i t : Z) : fval :=
  let vcall := cc_strategy c =? 2 in
  let size := size_of t in
  let off := 8 * i in
  if ty_is_int t || ty_is_mmx t then
    let r := order_at (cc_ogp c) i in
    if negb (r =? 255) then fv_reg t (if (size <=? 4) && negb (ty_is_mmx t) then RT_Gp32 else RT_Gp64) r
    else fv_stack t off
  else if ty_is_float t || ty_is_vec t then
    let r := order_at (cc_ovec c) i in
    (* float / double by value; an 80-bit float does not fit a home slot and is passed by reference (fixes/C06-win64-f80-by-ref.patch) *)
    let fbv := ty_is_float t && (size <=? 8) in
    if negb (r =? 255) && (fbv || (vcall && negb (ty_is_float t))) then fv_reg t (x86_vec_regtype t) r
    else if fbv then fv_stack t off
    else
      let g := order_at (cc_ogp c) i in     (* bounded by kMaxRegArgsPerGroup like the other look-ups *)
      if negb (g =? 255) then fv_reg_ind t RT_Gp64 g else fv_stack_ind t off
  else fv_type_only t.

Fixpoint win64_args (c : callconv) (i : Z) (ts : list Z) : list (list fval) :=
  match ts with
  | [] => []
  | t :: r => (if t =? 0 then [] else [win64_value c i t]) :: win64_args c (i + 1) r
  end.

Definition x86_init_func_detail (c : callconv) (s : sig) (ret : Z) (args : list Z) : result :=
  match (if ret =? 0 then inl [] else rets_loop (x86_ret_one c) 0 (x86_unpack (cc_arch c) ret)) with
  | inr e => R_err e
  | inl rets =>
      if (cc_strategy c =? 1) || (cc_strategy c =? 2) then
        R_ok (mkFD c rets (win64_args c 0 args) (8 * Z.max (Z.of_nat (length args)) 4))
      else
        let '(ps, st) := x86_default_args c (sig_has_va s) (mkXst 0 0 (cc_spill c)) args in R_ok (mkFD c rets ps (x_off st))
  end.

(* ------------------------------------------------------------------ AArch64 *)
Definition align_up (x a : Z) : Z := ((x + a - 1) / a) * a.

Definition a64_ret_one (idx t : Z) : fval + Z :=
  if (t =? 34) || (t =? 36) || (t =? 38) then inl (fv_reg 38 RT_Gp32 idx)
  else if (t =? 35) || (t =? 37) || (t =? 39) then inl (fv_reg 39 RT_Gp32 idx)
  else if between t 40 41 then inl (fv_reg t RT_Gp64 idx)
  else if a64_vec_regtype t =? 0 then inr E_InvRegType else inl (fv_reg t (a64_vec_regtype t) idx).

Definition a64_stack (minsz : Z) (s : xst) (t : Z) : fval * xst :=
  let size := Z.max (size_of t) minsz in
  let off := if 8 <=? size then align_up (x_off s) 8 else x_off s in
  (fv_stack t off, mkXst (x_gp s) (x_vec s) (off + size)).

Definition a64_value (c : callconv) (minsz : Z) (s : xst) (t : Z) : (fval * xst) + Z :=
  if ty_is_int t then
    let r := order_at (cc_ogp c) (x_gp s) in
    if negb (r =? 255) then inl (fv_reg t (if t <=? 39 then RT_Gp32 else RT_Gp64) r, mkXst (x_gp s + 1) (x_vec s) (x_off s))
    else inl (a64_stack minsz s t)
  else if ty_is_float t || ty_is_vec t then
    let r := order_at (cc_ovec c) (x_vec s) in
    if negb (r =? 255) then
      if a64_vec_regtype t =? 0 then inr E_InvRegType
      else inl (fv_reg t (a64_vec_regtype t) r, mkXst (x_gp s) (x_vec s + 1) (x_off s))
    else inl (a64_stack minsz s t)
  else inl (fv_type_only t, s).

Fixpoint a64_args (c : callconv) (minsz : Z) (s : xst) (ts : list Z) : (list (list fval) * xst) + Z :=
  match ts with
  | [] => inl ([], s)
  | t :: r =>
      match a64_value c minsz s t with
      | inr e => inr e
      | inl (v, s1) =>
          match a64_args c minsz s1 r with
          | inr e => inr e
          | inl (ps, s2) => inl ((if t =? 0 then [] else [v]) :: ps, s2)
          end
      end
  end.

Definition a64_init_func_detail (c : callconv) (ret : Z) (args : list Z) : result :=
  match (if ret =? 0 then inl [] else rets_loop a64_ret_one 0 [ret]) with
  | inr e => R_err e
  | inl rets =>
      if (cc_strategy c =? 0) || (cc_strategy c =? 3) then
        match a64_args c (if cc_strategy c =? 3 then 4 else 8) (mkXst 0 0 0) args with
        | inr e => R_err e
        | inl (ps, st) => R_ok (mkFD c rets ps (align_up (x_off st) 8))
        end
      else R_err E_InvState
  end.

(* ------------------------------------------------------------------ FuncDetail::init *)
Definition func_detail_init (e : env) (s : sig) : result :=
  if 32 <? Z.of_nat (length (s_args s)) then R_err E_InvArg else
  match init_call_conv e (s_cc s) with
  | inr err => R_err err
  | inl c =>
      let a := cc_arch c in
      let args := map (deabstract a) (s_args s) in
      let ret := deabstract a (s_ret s) in
      match a with
      | A64 => a64_init_func_detail c ret args
      | _ => x86_init_func_detail c s ret args
      end
  end.

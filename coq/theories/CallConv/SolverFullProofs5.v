(* C06 - proofs about the model of the whole of emit_args_assignment (SolverFullModel.v), fifth part: every instruction of a successful
   run is PRINTABLE (DecodeComplete.print), hence the whitelist (DecodeModel.decode_inst) reads its textual form back as exactly that
   instruction: on the proved fragment the whitelist never answers "unmodelled". *)
From Coq Require Import ZArith Lia List Bool String.
From Verif Require Import Base.ZBits CallConv.ShuffleModel CallConv.ShuffleProofs CallConv.SolverModel CallConv.SolverProofs
  CallConv.SolverFullModel CallConv.SolverFullProofs CallConv.SolverFullProofs2 CallConv.SolverFullProofs4
  CallConv.DecodeModel CallConv.DecodeComplete.
Import ListNotations.
Local Open Scope Z_scope.

(* ---------------------------------------------------------------------------------------------- *)
(* the three instruction forms: finite case analyses *)

Definition grp_of (int : bool) : Z := if int then 0 else 1.

(* a source the converting move / load can have: a register of the variable's group (AArch64 GP: not x31) or an incoming slot *)
Definition src_good (a : farch) (int : bool) (s : loc) : Prop :=
  match s with
  | Reg g rs => g = grp_of int /\ (a = FA64 -> int = true -> rs < 31)
  | Mem ar _ => ar = 0
  end.

Lemma pr_fconv a F rd s int csz csg osz osg : ty_ok a int csz csg osz osg -> src_good a int s ->
  (a = FA64 -> int = true -> rd < 31) -> print a F (fconv a (Reg (grp_of int) rd) s int csz csg osz osg) <> None.
Proof.
  intros Hty Hs Hrd.
  assert (Hrd' : a = FA64 -> int = true -> (rd <? 31) = true) by (intros; apply Z.ltb_lt; auto).
  clear Hrd. destruct s as [g rs | ar off]; cbn [src_good] in Hs.
  - destruct Hs as [Eg Hrs]. subst g.
    assert (Hrs' : a = FA64 -> int = true -> (rs <? 31) = true) by (intros; apply Z.ltb_lt; auto).
    clear Hrs. unfold ty_ok in Hty. destruct int.
    + destruct Hty as [[H1 | [H1 | [H1 | H1]]] [H2 | [H2 | [H2 | H2]]]]; subst; destruct a, csg, osg;
        try (specialize (Hrd' eq_refl eq_refl); specialize (Hrs' eq_refl eq_refl));
        match goal with |- print _ _ ?c <> None => let t := eval cbv in c in change c with t end;
        cbv -[Z.ltb]; rewrite ?Hrd', ?Hrs'; cbv; discriminate.
    + destruct Hty as [[H1 | [H1 | [H1 | [Ha [H1 | H1]]]]] [H2 [H3 H4]]]; subst; try (destruct a); cbv; discriminate.
  - subst ar. unfold ty_ok in Hty. destruct int.
    + destruct Hty as [[H1 | [H1 | [H1 | H1]]] [H2 | [H2 | [H2 | H2]]]]; subst; destruct a, csg, osg; cbv; discriminate.
    + destruct Hty as [[H1 | [H1 | [H1 | [Ha [H1 | H1]]]]] [H2 [H3 H4]]]; subst; try (destruct a); cbv; discriminate.
Qed.

(* the store of a value of the destination type from a register of the variable's group *)
Lemma pr_fstore a F int r off csz csg osz osg : ty_ok a int csz csg osz osg ->
  print a F (fstore (Mem 1 off) (Reg (grp_of int) r) (store_bits a int r (8 * (if int then osz else csz)))) <> None.
Proof.
  intros Hty. unfold fstore.
  destruct (store_bits_shape a int r (if int then osz else csz)) as [E | [Ea [Ez E]]]; rewrite E; clear E; unfold ty_ok in Hty; destruct int.
  - destruct Hty as [_ [H2 | [H2 | [H2 | H2]]]]; subst; destruct a; cbv; discriminate.
  - destruct Hty as [[H1 | [H1 | [H1 | [Ha [H1 | H1]]]]] _]; subst; try (destruct a); cbv; discriminate.
  - subst a. cbv. discriminate.
  - exfalso. destruct Hty as [[H1 | [H1 | [H1 | [Ha [H1 | H1]]]]] _]; lia.
Qed.

(* the exchange: x86 GP registers only *)
Lemma pr_xchg a F o c w : grp_swap a 0 = true -> w = 32 \/ w = 64 -> print a F (IXchg (Reg 0 o) (Reg 0 c) w 64) <> None.
Proof. intros Hs [E | E]; subst w; destruct a; try discriminate Hs; cbv; discriminate. Qed.

(* ---------------------------------------------------------------------------------------------- *)
(* the three phases: the invariant of SolverFullProofs.v (types, groups and work registers of the variables) carries the printability of the
   emitted list *)

Section Printable.
Variable a : farch.
Variables wgp wvec : list Z.
Variable vs0 : list fvar.
Variable F : dframe.
Hypothesis Hv0 : forall i v0, nth_error vs0 i = Some v0 -> v0_ok a wgp wvec v0.
Hypothesis Hout0 : fout_inj vs0.
Hypothesis Hw : a = FA64 -> forall r, In r wgp -> r < 31.

Definition st00 : state := fun _ => 0.
Local Notation finv' := (finv a wgp wvec vs0 st00).
Definition prs (em : list minst) : Prop := Forall (fun i => print a F i <> None) em.

Lemma prs_snoc em i : prs em -> print a F i <> None -> prs (em ++ [i]).
Proof. intros H1 H2. apply Forall_app. split; [assumption | constructor; [assumption | constructor]]. Qed.

Lemma var_ty vars em i v : finv' vars em -> nth_error vars i = Some v -> ty_ok a (f_int v) (f_csz v) (f_csg v) (f_osz v) (f_osg v).
Proof.
  intros Hinv Hv. destruct (finv_orig a wgp wvec vs0 st00 Hv0 _ _ _ _ Hinv Hv) as [v0 [_ [Hok Hvr]]].
  exact (vrel_ty _ _ _ _ _ _ _ Hok Hvr).
Qed.

Lemma work_lt int r : In r (work_of wgp wvec (grp_of int)) -> a = FA64 -> int = true -> r < 31.
Proof. intros Hr Ea Ei. subst int. apply Hw; assumption. Qed.

Lemma src_good_reg int g r : g = grp_of int -> In r (work_of wgp wvec g) -> src_good a int (Reg g r).
Proof. intros Eg Hr. subst g. cbn [src_good]. split; [reflexivity|]. apply work_lt. assumption. Qed.

Lemma pr_conv int g rd s csz csg osz osg : ty_ok a int csz csg osz osg -> g = grp_of int -> In rd (work_of wgp wvec g) ->
  src_good a int s -> print a F (fconv a (Reg g rd) s int csz csg osz osg) <> None.
Proof. intros Hty Eg Hr Hs. subst g. apply pr_fconv; try assumption. apply work_lt. assumption. Qed.

(* phase 2 *)
Lemma fstep_pr s i : finv' (fs_vars s) (fs_emit s) -> prs (fs_emit s) -> prs (fs_emit (fstep a wgp wvec s i)).
Proof.
  intros Hinv Hp. pose proof (fstep_spec_ok a wgp wvec s i) as Hs.
  destruct Hs as [Hn | v Hv Hd | v Hv Hd Hnr | v g c o Hv Hd Ec Eo Hc | v g c o j alt Hv Hd Ec Eo Has Hne Hf Ha Eca Hm Hsw
    | v g c o j alt sc Hv Hd Ec Eo Has Hne Hf Ha Eca Hm Hsw Hsc | v g c o j alt Hv Hd Ec Eo Has Hne Hf Ha Eca Hm Hsw Hsc
    | v g c o j alt Hv Hd Ec Eo Has Hne Hf Ha Eca Hm];
    cbn [fs_emit]; try assumption.
  - destruct (finv_cur_reg a wgp wvec vs0 st00 Hv0 _ _ _ _ _ _ Hinv Hv Ec) as [G1 G2].
    destruct (finv_out_reg a wgp wvec vs0 st00 Hv0 _ _ _ _ _ _ Hinv Hv Eo) as [_ G3].
    apply prs_snoc; [assumption|]. apply pr_conv; try assumption.
    + eapply var_ty; eassumption.
    + apply src_good_reg; assumption.
  - cbv zeta. apply prs_snoc; [assumption|]. pose proof (grp_swap_true a g Hsw) as Eg. subst g.
    apply pr_xchg; [assumption|]. destruct (Z.max (f_csz v) (f_csz alt) <=? 4); [left | right]; reflexivity.
  - cbv zeta. destruct (finv_cur_reg a wgp wvec vs0 st00 Hv0 _ _ _ _ _ _ Hinv Hv Ec) as [G1 G2].
    destruct (fscratch_some _ _ _ _ _ Hsc) as [S1 _].
    apply prs_snoc; [assumption|]. apply pr_conv; try assumption.
    + eapply var_ty; eassumption.
    + apply src_good_reg; assumption.
Qed.

Definition P2p (s : fstate) : Prop := P2 a wgp wvec vs0 st00 s /\ prs (fs_emit s).

Lemma fstep_P2p s i : P2p s -> P2p (fstep a wgp wvec s i).
Proof.
  intros [H1 H2]. split; [apply (fstep_P2 a wgp wvec vs0 st00 Hv0); assumption|].
  destruct H1 as [Hinv _]. apply fstep_pr; assumption.
Qed.

Lemma floop_pr fuel : forall vs emit p vs2 ms, finv' vs emit -> stk_done vs -> prs emit ->
  floop a wgp wvec fuel vs emit p = FOk vs2 ms -> prs ms.
Proof.
  induction fuel as [| f IH]; intros vs emit p vs2 ms Hinv Hsd Hp H; cbn [floop] in H; [discriminate|].
  set (s := fpass a wgp wvec (mkFS vs emit false false p)) in *.
  assert (Hs : P2p s).
  { unfold s, fpass. apply (ffold_step_inv a wgp wvec P2p fstep_P2p). split; [split; assumption | assumption]. }
  destruct Hs as [[H1 H2] H3].
  destruct (negb (fs_pending s)).
  - inversion H; subst vs2 ms. assumption.
  - destruct (negb (fs_did s) && fs_postponed s); [discriminate|]. eapply IH; eassumption.
Qed.

(* phase 1 *)
Definition prs_acc (acc : option (list fvar * list minst)) : Prop := match acc with Some (_, em) => prs em | None => True end.

Lemma stk_step_pr k acc : P1 a wgp wvec vs0 st00 k acc -> prs_acc acc -> prs_acc (stk_step a wgp wvec acc k).
Proof.
  intros HP Hp. unfold stk_step. destruct acc as [[vars em] |]; [| exact I].
  destruct HP as [Hinv [H2 H3]]. cbn [prs_acc] in Hp.
  destruct (nth_error vars k) as [v |] eqn:Hv; [| exact Hp].
  destruct (is_regl (f_out v)) eqn:Hm; [exact Hp|].
  pose proof (var_ty _ _ _ _ Hinv Hv) as Hty.
  pose proof (finv_out_shape a wgp wvec vs0 st00 Hv0 _ _ _ _ Hinv Hv) as Ho.
  destruct (f_out v) as [og oi | oa oo] eqn:Eo; [discriminate|]. unfold locp in Ho. subst oa.
  destruct (f_cur v) as [g r | ca co] eqn:Ec.
  - destruct (finv_cur_reg a wgp wvec vs0 st00 Hv0 _ _ _ _ _ _ Hinv Hv Ec) as [G1 G2]. change (vgrp v) with (grp_of (f_int v)) in G1.
    cbn [prs_acc]. apply Forall_app. split; [assumption|]. apply Forall_app. split.
    + destruct (fneeds_ext v) eqn:Hx; [| constructor].
      assert (Hiv : f_int v = true). { unfold fneeds_ext in Hx. destruct (f_int v); [reflexivity | discriminate]. }
      rewrite Hiv in Hty, G1. constructor; [| constructor].
      apply pr_conv; try assumption. apply src_good_reg; assumption.
    + constructor; [| constructor]. subst g. apply (pr_fstore a F (f_int v) r oo (f_csz v) (f_csg v) (f_osz v) (f_osg v)). assumption.
  - destruct (zmin_list (favail wgp wvec vars 0)) as [sc |] eqn:Hsc; [| exact I].
    apply zmin_list_in in Hsc. apply favail_in in Hsc. destruct Hsc as [S1 _].
    assert (E0 : nth_error vs0 k = Some v). { rewrite <- (H2 k (Nat.le_refl k)). assumption. }
    pose proof (Hv0 k v E0) as [_ [Hlc [_ Hmm]]]. rewrite Ec in Hlc. unfold locp in Hlc. subst ca.
    assert (Hiv : f_int v = true). { apply Hmm; [rewrite Ec; reflexivity | rewrite Eo; reflexivity]. }
    rewrite Hiv in Hty |- *.
    cbn [prs_acc]. apply Forall_app. split; [assumption|]. constructor; [| constructor; [| constructor]].
    + apply pr_conv; try assumption; reflexivity.
    + apply (pr_fstore a F true sc oo (f_csz v) (f_csg v) (f_osz v) (f_osg v)). assumption.
Qed.

Lemma stk_phase_pr vs1 em1 : finv' vs0 [] -> stk_phase a wgp wvec vs0 = Some (vs1, em1) -> prs em1.
Proof.
  intros Hinv H. unfold stk_phase in H.
  pose proof (fold_seq_ind (stk_step a wgp wvec) (fun k acc => P1 a wgp wvec vs0 st00 k acc /\ prs_acc acc)) as HP.
  specialize (HP (fun k s Hs => conj (stk_step_P1 a wgp wvec vs0 st00 Hv0 Hout0 k s (proj1 Hs)) (stk_step_pr k s (proj1 Hs) (proj2 Hs)))).
  specialize (HP (List.length vs0) (Some (vs0, []))). rewrite H in HP. apply HP. split.
  - split; [assumption|]. split; [intros; reflexivity | intros i u Hi; lia].
  - constructor.
Qed.

(* phase 3 *)
Lemma load_step_pr k acc : P3 a wgp wvec vs0 st00 k acc -> prs (snd acc) -> prs (snd (load_step a acc k)).
Proof.
  destruct acc as [vars em]. intros [Hlen [Hfr [Hdn Hrel]]] Hp. cbn [snd] in Hp. unfold load_step.
  destruct (nth_error vars k) as [v |] eqn:Hv; [| exact Hp].
  pose proof (nth_error_lt _ _ _ Hv) as Hk.
  destruct (nth_error vs0 k) as [v0 |] eqn:E0; [| apply nth_error_None in E0; lia].
  destruct (Hrel k v0 v E0 Hv) as [[Hd _] | [Hd [Hcm [Hom Hvr]]]].
  { rewrite Hd. exact Hp. }
  rewrite Hd, Hcm. cbn [orb snd].
  pose proof (Hv0 k v0 E0) as Hok. pose proof (vrel_ty _ _ _ _ _ _ _ Hok Hvr) as Hty.
  destruct Hok as [_ [_ [Hlo _]]]. destruct Hvr as [Ro [Rz [Rg [Ri [Rd [Rc Rv]]]]]].
  rewrite <- Ro in Hlo. unfold cur_ok in Rc.
  destruct (f_cur v) as [cg cr | ca co] eqn:Ec; [discriminate|].
  destruct (f_out v) as [g o | oa oo] eqn:Eo; [| discriminate].
  unfold locp, vgrp in Hlo. rewrite <- Ri in Hlo. destruct Hlo as [G1 G2].
  destruct Rc as [Rc | Rc]; [| discriminate]. subst ca.
  apply prs_snoc; [assumption|]. apply pr_conv; try assumption. reflexivity.
Qed.

Lemma load_phase_pr vars em : P3 a wgp wvec vs0 st00 O (vars, em) -> prs em -> prs (snd (load_phase a vars em)).
Proof.
  intros H0 Hp. unfold load_phase.
  pose proof (fold_seq_ind (load_step a) (fun k acc => P3 a wgp wvec vs0 st00 k acc /\ prs (snd acc))) as HP.
  specialize (HP (fun k s Hs => conj (load_step_P3 a wgp wvec vs0 st00 Hv0 Hout0 k s (proj1 Hs)) (load_step_pr k s (proj1 Hs) (proj2 Hs)))).
  apply (HP (List.length vars) (vars, em)). split; assumption.
Qed.

Lemma fsolve_prs ms : finv' vs0 [] -> fsolve a wgp wvec vs0 = SOk ms -> prs ms.
Proof.
  intros Hinv H. unfold fsolve in H.
  destruct (stk_phase a wgp wvec vs0) as [[vs1 em1] |] eqn:H1; [| discriminate].
  destruct (stk_phase_ok a wgp wvec vs0 st00 Hv0 Hout0 _ _ Hinv H1) as [Hinv1 Hsd1].
  pose proof (stk_phase_pr _ _ Hinv H1) as Hp1.
  destruct (floop a wgp wvec (4 * List.length vs0 + 4) vs1 em1 false) as [vs2 em2 | |] eqn:H2; try discriminate.
  destruct (floop_ok a wgp wvec vs0 st00 Hv0 _ _ _ _ _ _ Hinv1 Hsd1 H2) as [Hinv2 [Hsd2 Hset]].
  pose proof (floop_pr _ _ _ _ _ _ Hinv1 Hsd1 Hp1 H2) as Hp2.
  inversion H; subst ms. apply load_phase_pr; [| assumption]. apply (P3_init a wgp wvec vs0 st00 Hv0); assumption.
Qed.

End Printable.

(* ---------------------------------------------------------------------------------------------- *)
(* every instruction of a successful run has a textual form, and the whitelist reads that form back as exactly the instruction *)

Theorem fsolve_printable : forall a wgp wvec vs0 ms sp so_sp so_sa,
  fwf_inputb wgp wvec vs0 = true -> farch_okb a vs0 = true ->
  (a = FA64 -> forall r, In r wgp -> r < 31) ->            (* AArch64: x31 is SP / ZR, never a work register *)
  fsolve a wgp wvec vs0 = SOk ms -> forall i, In i ms -> print a (frame_of a sp so_sp so_sa) i <> None.
Proof.
  intros a wgp wvec vs0 ms sp so_sp so_sa Hwf Har Hw Hs i Hi. apply (fwf_inputb_sound a) in Hwf; [| exact Har].
  pose proof (fwf_finv a wgp wvec vs0 st00 Hwf) as Hinv. destruct Hwf as [Hok [_ [Ho _]]].
  pose proof (fsolve_prs a wgp wvec vs0 (frame_of a sp so_sp so_sa) Hok Ho Hw ms Hinv Hs) as H.
  unfold prs in H. rewrite Forall_forall in H. apply H. assumption.
Qed.

Corollary fsolve_decodes : forall a wgp wvec vs0 ms sp so_sp so_sa,
  fwf_inputb wgp wvec vs0 = true -> farch_okb a vs0 = true ->
  (a = FA64 -> forall r, In r wgp -> r < 31) ->
  fsolve a wgp wvec vs0 = SOk ms -> forall i, In i ms ->
  exists m d s, print a (frame_of a sp so_sp so_sa) i = Some (m, d, s) /\ decode_inst (frame_of a sp so_sp so_sa) [] m d s = Some i.
Proof.
  intros a wgp wvec vs0 ms sp so_sp so_sa Hwf Har Hw Hs i Hi.
  pose proof (fsolve_printable a wgp wvec vs0 ms sp so_sp so_sa Hwf Har Hw Hs i Hi) as Hp.
  destruct (print a (frame_of a sp so_sp so_sa) i) as [[[m d] s] |] eqn:E; [| congruence].
  exists m, d, s. split; [reflexivity|]. apply decode_print. assumption.
Qed.

(* executed on the mixed example of SolverFullProofs2.v, both targets: every emitted instruction prints, and its printed form decodes back to it *)
Definition ext_eqb (x y : ext) : bool := match x, y with EZ, EZ => true | ES, ES => true | _, _ => false end.
Definition minst_eqb (x y : minst) : bool :=
  match x, y with
  | IExt d1 s1 e1 n1 w1 z1, IExt d2 s2 e2 n2 w2 z2 =>
      loc_eqb d1 d2 && loc_eqb s1 s2 && ext_eqb e1 e2 && (n1 =? n2) && (w1 =? w2) && (z1 =? z2)
  | IXchg a1 b1 w1 z1, IXchg a2 b2 w2 z2 => loc_eqb a1 a2 && loc_eqb b1 b2 && (w1 =? w2) && (z1 =? z2)
  | _, _ => false
  end.
Definition roundtripb (a : farch) (F : dframe) (i : minst) : bool :=
  match print a F i with
  | Some (m, d, s) => match decode_inst F [] m d s with Some j => minst_eqb i j | None => false end
  | None => false
  end.

Example ex_mixed_roundtrip :
  match fsolve FX64 ex_wgp ex_wvec ex_mixed, fsolve FA64 ex_wgp ex_wvec ex_mixed with
  | SOk m1, SOk m2 =>
      forallb (roundtripb FX64 (frame_of FX64 4 24 0)) m1 && forallb (roundtripb FA64 (frame_of FA64 31 16 0)) m2 &&
      (9 =? Z.of_nat (List.length m1)) && (10 =? Z.of_nat (List.length m2))
  | _, _ => false
  end = true.
Proof. vm_compute. reflexivity. Qed.

Example ex_mixed_printed :
  match fsolve FA64 ex_wgp ex_wvec ex_mixed with
  | SOk ms => map (print FA64 (frame_of FA64 31 16 0)) (firstn 4 ms)
  | _ => []
  end = [ Some ("ldrsh"%string, OReg 0 0 32, OMem 0 31 24); Some ("str"%string, OReg 0 0 32, OMem 0 31 0);
          Some ("str"%string, OReg 0 2 64, OMem 0 31 8); Some ("sxtw"%string, OReg 0 0 64, OReg 0 7 32) ].
Proof. vm_compute. reflexivity. Qed.

(* the AArch64 hypothesis is used: x31 as a work register has no "mov" form (it would be SP / ZR) *)
Example ex_x31_not_printable :
  print FA64 (frame_of FA64 31 16 0) (fconv FA64 (Reg 0 31) (Reg 0 1) true 8 false 8 false) = None.
Proof. vm_compute. reflexivity. Qed.

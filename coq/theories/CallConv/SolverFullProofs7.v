(* C06 — sequence level: the whole output of a successful run of the solver model, printed instruction by instruction, is read back by the
   whitelist's sequence decoder (DecodeModel.decode, the function behind the check's D stage) as exactly that output; and the exact success
   condition of FuncDetail::init's argument-count test. *)
From Coq Require Import ZArith List Bool String Lia.
Import ListNotations.
From Verif Require Import CallConv.ShuffleModel CallConv.SolverModel CallConv.SolverFullModel CallConv.DecodeModel CallConv.DecodeComplete
  CallConv.SolverFullProofs CallConv.SolverFullProofs5 CallConv.FuncDetailModel.
Local Open Scope Z_scope.

(* with an SP-based frame no register ever carries the incoming-argument pointer: the tracked set stays empty *)
Lemma zremove_nil x : zremove x [] = [].
Proof. reflexivity. Qed.

Lemma sa_step_nil F k d s : sa_step F [] k d s = [].
Proof.
  unfold sa_step. destruct k; try reflexivity; destruct d as [g a w | b r o |]; try reflexivity;
    try (destruct g as [| p | p]; try reflexivity; destruct s as [g' b' w' | | ]; try reflexivity; destruct g' as [| q | q]; reflexivity).
Qed.

Definition printed (a : farch) (F : dframe) (ms : list minst) (txt : list (string * opnd * opnd)) : Prop :=
  Forall2 (fun i t => print a F i = Some t) ms txt.

Lemma decode_seq_printed a sp so_sp so_sa : forall ms txt,
  printed a (frame_of a sp so_sp so_sa) ms txt -> decode_seq (frame_of a sp so_sp so_sa) [] txt = Some ms.
Proof.
  intros ms txt H. induction H as [| i t ms txt Hp _ IH]; [reflexivity|].
  destruct t as [[m d] s]. cbn [decode_seq].
  pose proof (decode_print a sp so_sp so_sa i m d s Hp) as Hd. unfold decode_inst in Hd.
  destruct (lookup (if d_a64 (frame_of a sp so_sp so_sa) then a64_table else x86_table) m) as [k |]; [| discriminate].
  rewrite Hd, sa_step_nil, IH. reflexivity.
Qed.

Theorem fsolve_decode_seq : forall a wgp wvec vs0 ms sp so_sp so_sa,
  fwf_inputb wgp wvec vs0 = true -> farch_okb a vs0 = true ->
  (a = FA64 -> forall r, In r wgp -> r < 31) ->
  fsolve a wgp wvec vs0 = SOk ms ->
  exists txt, printed a (frame_of a sp so_sp so_sa) ms txt /\ decode (frame_of a sp so_sp so_sa) txt = Some ms.
Proof.
  intros a wgp wvec vs0 ms sp so_sp so_sa Hwf Har H31 Hs.
  assert (Hall : forall i, In i ms -> exists t, print a (frame_of a sp so_sp so_sa) i = Some t).
  { intros i Hi. pose proof (fsolve_printable a wgp wvec vs0 ms sp so_sp so_sa Hwf Har H31 Hs i Hi) as Hp.
    destruct (print a (frame_of a sp so_sp so_sa) i) as [t |]; [exists t; reflexivity | contradiction]. }
  assert (Htxt : exists txt, printed a (frame_of a sp so_sp so_sa) ms txt).
  { clear Hs. induction ms as [| i ms IH]; [exists []; constructor|].
    destruct (Hall i (or_introl eq_refl)) as [t Ht]. destruct IH as [txt Htxt]; [intros j Hj; apply Hall; right; assumption|].
    exists (t :: txt). constructor; assumption. }
  destruct Htxt as [txt Htxt]. exists txt. split; [assumption|].
  unfold decode. unfold frame_of at 1 2. cbn [d_sareg d_sp]. rewrite Z.eqb_refl. apply decode_seq_printed. assumption.
Qed.

(* FuncDetail::init: the argument-count test, both directions *)
Theorem func_detail_init_arg_limit : forall e s, (32 < List.length (s_args s))%nat -> func_detail_init e s = R_err E_InvArg.
Proof.
  intros e s H. unfold func_detail_init. replace (32 <? Z.of_nat (List.length (s_args s))) with true; [reflexivity|].
  symmetry. apply Z.ltb_lt. lia.
Qed.

Theorem func_detail_init_ok_limit : forall e s d, func_detail_init e s = R_ok d -> (List.length (s_args s) <= 32)%nat.
Proof.
  intros e s d H. unfold func_detail_init in H. destruct (32 <? Z.of_nat (List.length (s_args s))) eqn:E; [discriminate|].
  apply Z.ltb_ge in E. lia.
Qed.

(* non-vacuity: the theorem applied to the mixed example on x86-64 and AArch64 *)
From Verif Require Import CallConv.SolverFullProofs2.
Example ex_mixed_decode_seq : forall a, a = FX64 \/ a = FA64 -> forall ms, fsolve a ex_wgp ex_wvec ex_mixed = SOk ms ->
  exists txt, printed a (frame_of a 4 24 0) ms txt /\ decode (frame_of a 4 24 0) txt = Some ms.
Proof.
  intros a Ha ms Hs. apply (fsolve_decode_seq a ex_wgp ex_wvec ex_mixed ms 4 24 0); try assumption.
  - exact ex_mixed_wf.
  - destruct Ha; subst; vm_compute; reflexivity.
  - intros _ r Hr. unfold ex_wgp in Hr. cbn [In] in Hr. intuition lia.
Qed.
Example arg_limit_example :
  func_detail_init (mkEnv X64 0 0) (mkSig 0 255 0 (repeat 38 33)) = R_err E_InvArg /\
  (exists d, func_detail_init (mkEnv X64 0 0) (mkSig 0 255 0 (repeat 38 32)) = R_ok d).
Proof. split; [vm_compute; reflexivity|]. vm_compute. eexists. reflexivity. Qed.

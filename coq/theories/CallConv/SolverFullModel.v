(* C06 — executable model of the WHOLE of BaseEmitHelper::emit_args_assignment (core/emithelper.cpp at /repo HEAD) for frames
   addressed through the stack pointer: the three phases of the function over variables of BOTH register groups at once
     1. stack destinations, in index order: a register source is released, widened in place when the destination integer
        type is wider, and stored with the destination's width; a stack source goes through the lowest free GP work register
        (converting load, store),
     2. the register shuffle of SolverModel.v, now over the GP and the vector group TOGETHER (one pass loop and one set of work
        flags for both groups, as in the code): exchange instructions exist for x86 GP registers only, every other group
        breaks its cycles through a scratch register of the same group,
     3. the loads of stack sources into their destination registers, in index order.
   Locations are the validator's (ShuffleModel.loc): Reg group id, Mem 0 off = incoming stack argument, Mem 1 off = SP-based
   destination slot.  Integer variables carry (size, signedness) of both types; non-integer variables (scalar floats, 64 / 128
   bit vectors in vector registers, same type on both sides, no AVX) carry their size.  Definitions only; proofs in
   SolverFullProofs.v. *)
From Coq Require Import ZArith List Bool.
Import ListNotations.
From Verif Require Import CallConv.ShuffleModel CallConv.SolverModel.
Local Open Scope Z_scope.

(* FX64A: x86-64 with AVX enabled in the emitter (VEX encodings: a vector register write zeroes the rest of the 512-bit register; 32 / 64-byte
   vectors in YMM / ZMM);  FX86: 32-bit x86 (integers up to 4 bytes; no 8-bit view of ESI / EDI / EBP / ESP) *)
Inductive farch := FX64 | FA64 | FX64A | FX86.

Record fvar := mkFV { f_cur : loc; f_csz : Z; f_csg : bool; f_out : loc; f_osz : Z; f_osg : bool; f_int : bool; f_done : bool }.

(* arch_traits.has_inst_reg_swap(group) *)
Definition grp_swap (a : farch) (g : Z) : bool := match a with FA64 => false | _ => g =? 0 end.

Definition iw (osz : Z) : Z := if osz =? 8 then 64 else 32.
(* width of the vector register view that holds a value of csz bytes *)
Definition vw (csz : Z) : Z := if csz <=? 16 then 128 else 8 * csz.
Definition is_regl (l : loc) : bool := match l with Reg _ _ => true | Mem _ _ => false end.

(* emit_arg_move: the instruction that brings a value of type (csz, csg) at `src` (register or incoming stack slot) into the
   register `dst` typed (osz, osg) *)
Definition fconv (a : farch) (dst src : loc) (int : bool) (csz : Z) (csg : bool) (osz : Z) (osg : bool) : minst :=
  if int then
    match a with
    | FX64 | FX64A | FX86 =>
        if csg && osg && (csz <? osz) then IExt dst src ES (8 * csz) (8 * osz) (if 4 <=? osz then 64 else 8 * osz)   (* movsx / movsxd *)
        else let m := Z.min csz osz in
             if m <? 4 then IExt dst src EZ (8 * m) 32 64                      (* movzx r32, r/m8 | r/m16 *)
             else if m =? 4 then IExt dst src EZ 32 32 64                      (* mov r32, r/m32 *)
             else IExt dst src EZ 64 64 64                                     (* mov r64, r/m64 *)
    | FA64 =>
        if is_regl src then
          (if csz <? osz then
             (if csg then IExt dst src ES (8 * csz) (iw osz) 64                (* sxtb / sxth / sxtw *)
              else IExt dst src EZ (8 * csz) 32 64)                            (* uxtb / uxth / mov w *)
           else IExt dst src EZ (iw osz) (iw osz) 64)                          (* mov x / mov w *)
        else
          (if csz <? 4 then
             (if csg then IExt dst src ES (8 * csz) (iw osz) 64                (* ldrsb / ldrsh (W or X destination) *)
              else IExt dst src EZ (8 * csz) 32 64)                            (* ldrb / ldrh *)
           else if csz =? 4 then
             (if csg && (osz =? 8) then IExt dst src ES 32 64 64               (* ldrsw *)
              else IExt dst src EZ 32 32 64)                                   (* ldr w *)
           else IExt dst src EZ (iw osz) (iw osz) 64)                          (* ldr x / ldr w *)
    end
  else
    match a with
    | FX64 | FX86 =>
              if is_regl src then IExt dst src EZ 128 128 128                  (* movaps xmm, xmm *)
              else IExt dst src EZ (8 * csz) (8 * csz) 128                     (* movd / movq / movups|movaps xmm, [mem] *)
    | FX64A => if is_regl src then IExt dst src EZ (vw csz) (vw csz) 512       (* vmovaps xmm|ymm|zmm *)
               else IExt dst src EZ (8 * csz) (8 * csz) 512                    (* vmovd / vmovq / vmovups|vmovaps [mem] *)
    | FA64 => IExt dst src EZ (8 * csz) (8 * csz) 128                          (* fmov s | mov v.8b | mov v.16b | ldr s/d/q *)
    end.

(* emit_reg_move to a destination slot: exactly n bits are written (integers: the destination type, fixes/C06-narrow-int-store) *)
Definition fstore (dst : loc) (r : loc) (n : Z) : minst := IExt dst r EZ n n n.
(* bits written by the store of a value of n bits held in register r: in 32-bit mode ESP / EBP / ESI / EDI have no 8-bit view, the
   store of a 1-byte integer from one of them stays 32 bits wide (x86emithelper.cpp emit_reg_move) *)
Definition store_bits (a : farch) (int : bool) (r : Z) (n : Z) : Z :=
  match a with FX86 => if int && (n =? 8) && (4 <=? r) then 32 else n | _ => n end.

Definition fneeds_ext (v : fvar) : bool := f_int v && (f_csz v <? f_osz v).

(* init_work_data: a variable already in its destination register is done - in the GP group only when no widening is due *)
Definition finit (cur : loc) (csz : Z) (csg : bool) (out : loc) (osz : Z) (osg : bool) (int : bool) : fvar :=
  mkFV cur csz csg out osz osg int (is_regl cur && loc_eqb cur out && (negb int || (osz <=? csz))).

Definition fassigned (vs : list fvar) (l : loc) : bool := existsb (fun v => loc_eqb (f_cur v) l) vs.
Fixpoint ffind (vs : list fvar) (l : loc) (i : nat) : option nat :=
  match vs with [] => None | v :: rest => if loc_eqb (f_cur v) l then Some i else ffind rest l (S i) end.
Fixpoint fset (vs : list fvar) (i : nat) (x : fvar) : list fvar :=
  match vs, i with
  | [], _ => []
  | _ :: r, O => x :: r
  | v :: r, S k => v :: fset r k x
  end.

Definition work_of (wgp wvec : list Z) (g : Z) : list Z := if g =? 0 then wgp else wvec.
(* WorkData::available_regs of group g: work registers no variable currently sits in *)
Definition favail (wgp wvec : list Z) (vs : list fvar) (g : Z) : list Z :=
  filter (fun r => negb (fassigned vs (Reg g r))) (work_of wgp wvec g).

Definition fupd (v : fvar) (l : loc) (done : bool) : fvar := mkFV l (f_csz v) (f_csg v) (f_out v) (f_osz v) (f_osg v) (f_int v) done.
Definition fmoved (v : fvar) (l : loc) (done : bool) : fvar := mkFV l (f_osz v) (f_osg v) (f_out v) (f_osz v) (f_osg v) (f_int v) done.

(* ---- phase 1: stack destinations *)
Definition stk_step (a : farch) (wgp wvec : list Z) (acc : option (list fvar * list minst)) (i : nat) : option (list fvar * list minst) :=
  match acc with
  | None => None
  | Some (vs, em) =>
    match nth_error vs i with
    | None => acc
    | Some v =>
      if is_regl (f_out v) then acc else
      let n := 8 * (if f_int v then f_osz v else f_csz v) in
      match f_cur v with
      | Reg g r =>
          let ext := if fneeds_ext v then [fconv a (Reg g r) (Reg g r) true (f_csz v) (f_csg v) (f_osz v) (f_osg v)] else [] in
          Some (fset vs i (fmoved v (f_out v) true), em ++ ext ++ [fstore (f_out v) (Reg g r) (store_bits a (f_int v) r n)])
      | Mem _ _ =>
          match zmin_list (favail wgp wvec vs 0) with
          | None => None                                                     (* no free GP register: kInvalidState *)
          | Some sc =>
              Some (fset vs i (fmoved v (f_out v) true),
                    em ++ [fconv a (Reg 0 sc) (f_cur v) true (f_csz v) (f_csg v) (f_osz v) (f_osg v); fstore (f_out v) (Reg 0 sc) (store_bits a true sc n)])
          end
      end
    end
  end.

Definition stk_phase (a : farch) (wgp wvec : list Z) (vs : list fvar) : option (list fvar * list minst) :=
  fold_left (stk_step a wgp wvec) (seq 0 (length vs)) (Some (vs, [])).

(* ---- phase 2: the register shuffle over both groups *)
Record fstate := mkFS { fs_vars : list fvar; fs_emit : list minst; fs_did : bool; fs_pending : bool; fs_postponed : bool }.

Definition fstep (a : farch) (wgp wvec : list Z) (s : fstate) (i : nat) : fstate :=
  match nth_error (fs_vars s) i with
  | None => s
  | Some v =>
    if f_done v then s else
    match f_cur v, f_out v with
    | Reg g c, Reg g' o =>
      if negb (g =? g') then s else
      let vs := fs_vars s in
      if negb (fassigned vs (Reg g o)) || (c =? o) then
        mkFS (fset vs i (fmoved v (Reg g o) true))
             (fs_emit s ++ [fconv a (Reg g o) (Reg g c) (f_int v) (f_csz v) (f_csg v) (f_osz v) (f_osg v)]) true true (fs_postponed s)
      else
        match ffind vs (Reg g o) O with
        | None => s
        | Some j =>
          match nth_error vs j with
          | None => s
          | Some alt =>
            let mutual := loc_eqb (f_out alt) (Reg g c) in
            let stuck := fs_postponed s && negb (f_done alt) in
            if mutual || stuck then
              let postponed' := if stuck && negb mutual then false else fs_postponed s in
              if grp_swap a g then
                let w := if Z.max (f_csz v) (f_csz alt) <=? 4 then 32 else 64 in
                let v' := fupd v (Reg g o) (negb (fneeds_ext v)) in
                let alt_done := mutual && negb (fneeds_ext alt) in
                let alt' := fupd alt (Reg g c) alt_done in
                mkFS (fset (fset vs i v') j alt')
                     (fs_emit s ++ [IXchg (Reg g o) (Reg g c) w 64]) true
                     (fs_pending s || fneeds_ext v || negb alt_done) postponed'
              else
                let avail := favail wgp wvec vs g in
                let pref := filter (fun r => negb (existsb (fun u => loc_eqb (f_out u) (Reg g r)) vs)) avail in
                match zmin_list (match pref with [] => avail | _ => pref end) with
                | None => mkFS vs (fs_emit s) (fs_did s) true (fs_postponed s)
                | Some sc =>
                    mkFS (fset vs i (fmoved v (Reg g sc) false))
                         (fs_emit s ++ [fconv a (Reg g sc) (Reg g c) (f_int v) (f_csz v) (f_csg v) (f_osz v) (f_osg v)]) true true postponed'
                end
            else mkFS vs (fs_emit s) (fs_did s) true (fs_postponed s)
          end
        end
    | _, _ => s          (* stack source: phase 3;  stack destination: done in phase 1 *)
    end
  end.

Definition fpass (a : farch) (wgp wvec : list Z) (s : fstate) : fstate :=
  fold_left (fstep a wgp wvec) (seq 0 (length (fs_vars s))) s.

Inductive fres := FOk (vs : list fvar) (ms : list minst) | FErr | FFuel.
Fixpoint floop (a : farch) (wgp wvec : list Z) (fuel : nat) (vs : list fvar) (emit : list minst) (postponed : bool) : fres :=
  match fuel with
  | O => FFuel
  | S f =>
      let s := fpass a wgp wvec (mkFS vs emit false false postponed) in
      if negb (fs_pending s) then FOk (fs_vars s) (fs_emit s)
      else if negb (fs_did s) && fs_postponed s then FErr
      else floop a wgp wvec f (fs_vars s) (fs_emit s) (negb (fs_did s))
  end.

(* ---- phase 3: stack sources into their destination registers *)
Definition load_step (a : farch) (acc : list fvar * list minst) (i : nat) : list fvar * list minst :=
  let (vs, em) := acc in
  match nth_error vs i with
  | None => acc
  | Some v =>
    if f_done v || is_regl (f_cur v) then acc
    else (fset vs i (fupd v (f_out v) true),
          em ++ [fconv a (f_out v) (f_cur v) (f_int v) (f_csz v) (f_csg v) (f_osz v) (f_osg v)])
  end.

Definition load_phase (a : farch) (vs : list fvar) (em : list minst) : list fvar * list minst :=
  fold_left (load_step a) (seq 0 (length vs)) (vs, em).

(* ---- the whole function *)
Definition fsolve (a : farch) (wgp wvec : list Z) (vs : list fvar) : sres :=
  match stk_phase a wgp wvec vs with
  | None => SErr
  | Some (vs1, em1) =>
      match floop a wgp wvec (4 * length vs + 4) vs1 em1 false with
      | FErr => SErr
      | FFuel => SFuel
      | FOk vs2 em2 => SOk (snd (load_phase a vs2 em2))
      end
  end.

(* the move a variable stands for (what the validator / dst_ok is asked about) *)
Definition fmove_of (v0 : fvar) : move :=
  {| m_src := f_cur v0; m_dst := f_out v0; m_sbits := 8 * f_csz v0;
     m_ssigned := f_csg v0 && f_osg v0; m_dbits := 8 * f_osz v0;
     m_int := f_int v0 && negb (f_csg v0 && negb (f_osg v0) && (f_csz v0 <? f_osz v0)) |}.

(* the fragment (decidable): sizes, one variable per source / destination, register sources distinct from each other,
   same group on both sides, stack-to-stack only for integers, every source register a work register *)
Definition int_size (z : Z) : bool := (z =? 1) || (z =? 2) || (z =? 4) || (z =? 8).
Definition vec_size (z : Z) : bool := (z =? 4) || (z =? 8) || (z =? 16) || (z =? 32) || (z =? 64).
Definition loc_ok (wgp wvec : list Z) (is_src : bool) (l : loc) : bool :=
  match l with
  | Reg g r => ((g =? 0) || (g =? 1)) && (0 <=? r) && (r <? 32) && existsb (Z.eqb r) (work_of wgp wvec g)
  | Mem ar off => (ar =? (if is_src then 0 else 1)) && (0 <=? off)
  end.
Definition fvar_ok (wgp wvec : list Z) (v : fvar) : bool :=
  loc_ok wgp wvec true (f_cur v) && loc_ok wgp wvec false (f_out v) &&
  (if f_int v then int_size (f_csz v) && int_size (f_osz v)
   else vec_size (f_csz v) && (f_osz v =? f_csz v) && Bool.eqb (f_csg v) false && Bool.eqb (f_osg v) false) &&
  match f_cur v, f_out v with
  | Reg g _, Reg g' _ => (g =? g') && (if f_int v then g =? 0 else g =? 1)
  | Reg g _, Mem _ _ => if f_int v then g =? 0 else g =? 1
  | Mem _ _, Reg g _ => if f_int v then g =? 0 else g =? 1
  | Mem _ _, Mem _ _ => f_int v
  end.
Definition fwf_inputb (wgp wvec : list Z) (vs : list fvar) : bool :=
  forallb (fvar_ok wgp wvec) vs && nodup_locs (map f_cur vs) && nodup_locs (map f_out vs) &&
  forallb (fun v => Bool.eqb (f_done v) (f_done (finit (f_cur v) (f_csz v) (f_csg v) (f_out v) (f_osz v) (f_osg v) (f_int v)))) vs.

(* what the target adds: 32-bit x86 has no 8-byte integers in GP registers; 32 / 64-byte vectors need the VEX / EVEX encodings *)
Definition fvar_arch_ok (a : farch) (v : fvar) : bool :=
  if f_int v then (match a with FX86 => (f_csz v <=? 4) && (f_osz v <=? 4) | _ => true end)
  else (match a with FX64A => true | _ => f_csz v <=? 16 end).
Definition farch_okb (a : farch) (vs : list fvar) : bool := forallb (fvar_arch_ok a) vs.
